import GixModel.Model.C51
/-
Helper lemmas for C51 (c): the channel based `in_parallel` as the transition system `cstep`.
`CInv`: every item index below `sent` is in exactly one place (input queue, a worker's hands,
result queue, fed to the reducer, lost after a reducer failure), `consume` was called exactly for
the items that are past a worker's `consume` step.
-/
namespace GixModel.C51

theorem allWorkersDone_iff (w : Nat → WPc) (k : Nat) : allWorkersDone w k = true ↔ ∀ t, t < k → w t = WPc.done := by
  induction k with
  | zero => simp [allWorkersDone]
  | succ k ih =>
    simp only [allWorkersDone, Bool.and_eq_true, decide_eq_true_eq, ih]
    constructor
    · rintro ⟨h1, h2⟩ t ht
      by_cases e : t = k
      · subst e; exact h1
      · exact h2 t (by omega)
    · intro h
      exact ⟨h k (by omega), fun t ht => h t (by omega)⟩

theorem allWorkersDone_false_iff (w : Nat → WPc) (k : Nat) :
    allWorkersDone w k = false ↔ ∃ t, t < k ∧ w t ≠ WPc.done := by
  rw [← Bool.not_eq_true, allWorkersDone_iff]
  constructor
  · intro h
    apply Classical.byContradiction
    intro hn
    apply h
    intro t ht
    apply Classical.byContradiction
    intro hne
    exact hn ⟨t, ht, hne⟩
  · rintro ⟨t, ht, hne⟩ h
    exact hne (h t ht)

def wheld : WPc → Option Nat
  | WPc.item i => some i
  | WPc.result i => some i
  | _ => none

structure CInv (c : Chan) : Prop where
  k_pos : 1 ≤ c.k
  sent_le : c.sent ≤ c.n
  -- everything is an index below `sent`
  inq_lt : ∀ i ∈ c.inQ, i < c.sent
  held_lt : ∀ t i, t < c.k → wheld (c.wpcs t) = some i → i < c.sent
  outq_lt : ∀ i ∈ c.outQ, i < c.sent
  fed_lt : ∀ i ∈ c.fed, i < c.sent
  lost_lt : ∀ i ∈ c.lost, i < c.sent
  -- each place holds an index once
  inq_nd : c.inQ.Nodup
  held_inj : ∀ t t' i, t < c.k → t' < c.k → wheld (c.wpcs t) = some i → wheld (c.wpcs t') = some i → t = t'
  outq_nd : c.outQ.Nodup
  fed_nd : c.fed.Nodup
  lost_nd : c.lost.Nodup
  -- the places are disjoint
  inq_held : ∀ i ∈ c.inQ, ∀ t, t < c.k → wheld (c.wpcs t) ≠ some i
  inq_outq : ∀ i ∈ c.inQ, i ∉ c.outQ
  inq_fed : ∀ i ∈ c.inQ, i ∉ c.fed
  inq_lost : ∀ i ∈ c.inQ, i ∉ c.lost
  outq_held : ∀ i ∈ c.outQ, ∀ t, t < c.k → wheld (c.wpcs t) ≠ some i
  fed_held : ∀ i ∈ c.fed, ∀ t, t < c.k → wheld (c.wpcs t) ≠ some i
  lost_held : ∀ i ∈ c.lost, ∀ t, t < c.k → wheld (c.wpcs t) ≠ some i
  outq_fed : ∀ i ∈ c.outQ, i ∉ c.fed
  outq_lost : ∀ i ∈ c.outQ, i ∉ c.lost
  fed_lost : ∀ i ∈ c.fed, i ∉ c.lost
  -- nothing disappears
  cover : ∀ i, i < c.sent → i ∈ c.inQ ∨ (∃ t, t < c.k ∧ wheld (c.wpcs t) = some i) ∨ i ∈ c.outQ ∨ i ∈ c.fed ∨ i ∈ c.lost
  -- `consume` was called exactly for what is past a worker's consume step
  cons_nd : c.consumedIdx.Nodup
  cons_iff : ∀ i, i ∈ c.consumedIdx ↔ ((∃ t, t < c.k ∧ c.wpcs t = WPc.result i) ∨ i ∈ c.outQ ∨ i ∈ c.fed ∨ i ∈ c.lost)
  -- who may have returned
  lost_failed : ∀ i ∈ c.lost, c.rpc = RPc.failed
  fin_done : c.rpc = RPc.finalized → c.outQ = [] ∧ ∀ t, t < c.k → c.wpcs t = WPc.done
  done_why : ∀ t, t < c.k → c.wpcs t = WPc.done → c.rpc = RPc.failed ∨ (c.prodDone = true ∧ c.inQ = [])
  prod_why : c.prodDone = true → c.sent = c.n ∨ c.rpc = RPc.failed

theorem cinv_init (n k : Nat) (hk : 1 ≤ k) : CInv (Chan.init n k) := by
  constructor <;> simp [Chan.init, Chan.consumedIdx, wheld, hk]

theorem cstep_inv_prodSend (c c' : Chan) (h : CInv c) (hs : cstep c (CEv.prodSend) = some c') : CInv c' := by
  obtain ⟨a0, a1, a2, a3, a4, a5, a6, a7, a8, a9, a10, a11, a12, a13, a14, a15, a16, a17, a18, a19, a20, a21,
    a22, a23, a24, a25, a26, a27, a28⟩ := h
  simp only [cstep] at hs
  split at hs
  · simp only [Option.some.injEq] at hs
    subst hs
    constructor <;> simp only [Chan.consumedIdx, List.mem_append, List.mem_singleton, List.nodup_append] at * <;> grind [wheld]
  · cases hs

theorem cstep_inv_prodEnd (c c' : Chan) (h : CInv c) (hs : cstep c (CEv.prodEnd) = some c') : CInv c' := by
  obtain ⟨a0, a1, a2, a3, a4, a5, a6, a7, a8, a9, a10, a11, a12, a13, a14, a15, a16, a17, a18, a19, a20, a21,
    a22, a23, a24, a25, a26, a27, a28⟩ := h
  simp only [cstep] at hs
  split at hs
  · rename_i hc
    simp only [Option.some.injEq] at hs
    subst hs
    have hall := allWorkersDone_iff c.wpcs c.k
    constructor <;> simp only [Chan.consumedIdx] at * <;> grind [wheld]
  · cases hs

theorem cstep_inv_recv (c c' : Chan) (t : Nat) (h : CInv c) (hs : cstep c (CEv.recv t) = some c') : CInv c' := by
  obtain ⟨a0, a1, a2, a3, a4, a5, a6, a7, a8, a9, a10, a11, a12, a13, a14, a15, a16, a17, a18, a19, a20, a21,
    a22, a23, a24, a25, a26, a27, a28⟩ := h
  simp only [cstep] at hs
  split at hs
  · split at hs
    · simp only [Option.some.injEq] at hs
      subst hs
      constructor <;> simp only [Chan.consumedIdx, setW, List.mem_cons, List.nodup_cons] at * <;> grind [wheld]
    · cases hs
  · cases hs

theorem cstep_inv_workerEnd (c c' : Chan) (t : Nat) (h : CInv c) (hs : cstep c (CEv.workerEnd t) = some c') : CInv c' := by
  obtain ⟨a0, a1, a2, a3, a4, a5, a6, a7, a8, a9, a10, a11, a12, a13, a14, a15, a16, a17, a18, a19, a20, a21,
    a22, a23, a24, a25, a26, a27, a28⟩ := h
  simp only [cstep] at hs
  split at hs
  · simp only [Option.some.injEq] at hs
    subst hs
    constructor <;> simp only [Chan.consumedIdx, setW] at * <;> grind [wheld]
  · cases hs

theorem cstep_inv_consume (c c' : Chan) (t : Nat) (h : CInv c) (hs : cstep c (CEv.consume t) = some c') : CInv c' := by
  obtain ⟨a0, a1, a2, a3, a4, a5, a6, a7, a8, a9, a10, a11, a12, a13, a14, a15, a16, a17, a18, a19, a20, a21,
    a22, a23, a24, a25, a26, a27, a28⟩ := h
  simp only [cstep] at hs
  split at hs
  · split at hs
    · simp only [Option.some.injEq] at hs
      subst hs
      constructor <;> simp only [Chan.consumedIdx, setW, List.map_cons, List.mem_cons, List.nodup_cons] at * <;> grind [wheld]
    · cases hs
  · cases hs

theorem cstep_inv_send (c c' : Chan) (t : Nat) (h : CInv c) (hs : cstep c (CEv.send t) = some c') : CInv c' := by
  obtain ⟨a0, a1, a2, a3, a4, a5, a6, a7, a8, a9, a10, a11, a12, a13, a14, a15, a16, a17, a18, a19, a20, a21,
    a22, a23, a24, a25, a26, a27, a28⟩ := h
  simp only [cstep] at hs
  split at hs
  · split at hs
    · simp only [Option.some.injEq] at hs
      subst hs
      constructor <;> simp only [Chan.consumedIdx, setW, List.mem_append, List.mem_singleton, List.nodup_append] at * <;> grind [wheld]
    · cases hs
  · cases hs

theorem cstep_inv_sendFail (c c' : Chan) (t : Nat) (h : CInv c) (hs : cstep c (CEv.sendFail t) = some c') : CInv c' := by
  obtain ⟨a0, a1, a2, a3, a4, a5, a6, a7, a8, a9, a10, a11, a12, a13, a14, a15, a16, a17, a18, a19, a20, a21,
    a22, a23, a24, a25, a26, a27, a28⟩ := h
  simp only [cstep] at hs
  split at hs
  · rename_i hc
    split at hs
    · rename_i x i heq
      have hfailed : c.rpc = RPc.failed := by
        cases hr : c.rpc with
        | running => exact absurd hr hc.2
        | failed => rfl
        | finalized => have := (a26 hr).2 t hc.1; rw [heq] at this; cases this
      simp only [Option.some.injEq] at hs
      subst hs
      constructor <;> simp only [Chan.consumedIdx, setW, List.mem_cons, List.nodup_cons] at * <;> grind [wheld]
    · cases hs
  · cases hs

theorem cstep_inv_feedOk (c c' : Chan) (h : CInv c) (hs : cstep c (CEv.feedOk) = some c') : CInv c' := by
  obtain ⟨a0, a1, a2, a3, a4, a5, a6, a7, a8, a9, a10, a11, a12, a13, a14, a15, a16, a17, a18, a19, a20, a21,
    a22, a23, a24, a25, a26, a27, a28⟩ := h
  simp only [cstep] at hs
  split at hs
  · split at hs
    · simp only [Option.some.injEq] at hs
      subst hs
      constructor <;> simp only [Chan.consumedIdx, List.mem_cons, List.nodup_cons] at * <;> grind [wheld]
    · cases hs
  · cases hs

theorem cstep_inv_feedErr (c c' : Chan) (h : CInv c) (hs : cstep c (CEv.feedErr) = some c') : CInv c' := by
  obtain ⟨a0, a1, a2, a3, a4, a5, a6, a7, a8, a9, a10, a11, a12, a13, a14, a15, a16, a17, a18, a19, a20, a21,
    a22, a23, a24, a25, a26, a27, a28⟩ := h
  simp only [cstep] at hs
  split at hs
  · split at hs
    · simp only [Option.some.injEq] at hs
      subst hs
      constructor <;> simp only [Chan.consumedIdx, List.mem_cons, List.nodup_cons, List.mem_append, List.nodup_append] at * <;> grind [wheld]
    · cases hs
  · cases hs

theorem cstep_inv_finalize (c c' : Chan) (h : CInv c) (hs : cstep c (CEv.finalize) = some c') : CInv c' := by
  obtain ⟨a0, a1, a2, a3, a4, a5, a6, a7, a8, a9, a10, a11, a12, a13, a14, a15, a16, a17, a18, a19, a20, a21,
    a22, a23, a24, a25, a26, a27, a28⟩ := h
  simp only [cstep] at hs
  split at hs
  · rename_i hc
    simp only [Option.some.injEq] at hs
    subst hs
    have hall := allWorkersDone_iff c.wpcs c.k
    constructor <;> simp only [Chan.consumedIdx] at * <;> grind [wheld]
  · cases hs

theorem cstep_inv_drop (c c' : Chan) (h : CInv c) (hs : cstep c (CEv.drop) = some c') : CInv c' := by
  obtain ⟨a0, a1, a2, a3, a4, a5, a6, a7, a8, a9, a10, a11, a12, a13, a14, a15, a16, a17, a18, a19, a20, a21,
    a22, a23, a24, a25, a26, a27, a28⟩ := h
  simp only [cstep] at hs
  split at hs
  · simp only [Option.some.injEq] at hs
    subst hs
    constructor <;> simp only [Chan.consumedIdx, List.mem_append, List.nodup_append] at * <;> grind [wheld]
  · cases hs

theorem cstep_inv (c c' : Chan) (e : CEv) (h : CInv c) (hs : cstep c e = some c') : CInv c' := by
  cases e with
  | prodSend => exact cstep_inv_prodSend c c' h hs
  | prodEnd => exact cstep_inv_prodEnd c c' h hs
  | recv t => exact cstep_inv_recv c c' t h hs
  | workerEnd t => exact cstep_inv_workerEnd c c' t h hs
  | consume t => exact cstep_inv_consume c c' t h hs
  | send t => exact cstep_inv_send c c' t h hs
  | sendFail t => exact cstep_inv_sendFail c c' t h hs
  | feedOk => exact cstep_inv_feedOk c c' h hs
  | feedErr => exact cstep_inv_feedErr c c' h hs
  | finalize => exact cstep_inv_finalize c c' h hs
  | drop => exact cstep_inv_drop c c' h hs

theorem cstep_nk {c c' : Chan} {e : CEv} (hs : cstep c e = some c') : c'.n = c.n ∧ c'.k = c.k := by
  cases e <;> simp only [cstep] at hs <;> (repeat' split at hs) <;>
    first
    | (simp only [Option.some.injEq] at hs; subst hs; exact ⟨rfl, rfl⟩)
    | cases hs

theorem crun_inv : ∀ (sched : List CEv) (c c' : Chan), CInv c → crun c sched = some c' →
    CInv c' ∧ c'.n = c.n ∧ c'.k = c.k := by
  intro sched
  induction sched with
  | nil => intro c c' h hr; simp only [crun, Option.some.injEq] at hr; subst hr; exact ⟨h, rfl, rfl⟩
  | cons e es ih =>
    intro c c' h hr
    simp only [crun] at hr
    cases hst : cstep c e with
    | none => simp [hst] at hr
    | some c1 =>
      simp only [hst] at hr
      obtain ⟨a, b, d⟩ := ih c1 c' (cstep_inv c c1 e h hst) hr
      obtain ⟨x, y⟩ := cstep_nk hst
      exact ⟨a, by omega, by omega⟩

/-! ### no deadlock -/

theorem chan_progress (c : Chan) (h : CInv c) (hnt : ¬ c.terminal) : ∃ e, (cstep c e).isSome = true := by
  have hk := h.k_pos
  have hsl := h.sent_le
  -- a result waits and the reducer runs: it can be fed
  by_cases hr : c.rpc = RPc.running
  · cases hq : c.outQ with
    | cons r q => exact ⟨CEv.feedOk, by simp [cstep, hr, hq]⟩
    | nil =>
      by_cases hall : allWorkersDone c.wpcs c.k = true
      · exact ⟨CEv.finalize, by simp [cstep, hr, hq, hall]⟩
      · have hall' : allWorkersDone c.wpcs c.k = false := by simpa using hall
        obtain ⟨t, ht, hne⟩ := (allWorkersDone_false_iff c.wpcs c.k).mp hall'
        cases hp : c.wpcs t with
        | done => exact absurd hp hne
        | item i => exact ⟨CEv.consume t, by simp [cstep, ht, hp]⟩
        | result i => exact ⟨CEv.send t, by simp [cstep, ht, hp, hr, hq]; omega⟩
        | idle =>
          cases hi : c.inQ with
          | cons i q => exact ⟨CEv.recv t, by simp [cstep, ht, hp, hi]⟩
          | nil =>
            by_cases hpd : c.prodDone = true
            · exact ⟨CEv.workerEnd t, by simp [cstep, ht, hp, hi, hpd]⟩
            · have hpd' : c.prodDone = false := by simpa using hpd
              by_cases hs : c.sent < c.n
              · exact ⟨CEv.prodSend, by simp [cstep, hpd', hs, hi, hall']; omega⟩
              · by_cases hs2 : c.sent = c.n
                · exact ⟨CEv.prodEnd, by simp [cstep, hpd', hs2]⟩
                · omega
  · by_cases hall : allWorkersDone c.wpcs c.k = true
    · by_cases hpd : c.prodDone = true
      · exact absurd ⟨hpd, hall, hr⟩ hnt
      · have hpd' : c.prodDone = false := by simpa using hpd
        exact ⟨CEv.prodEnd, by simp [cstep, hpd', hall]⟩
    · have hall' : allWorkersDone c.wpcs c.k = false := by simpa using hall
      obtain ⟨t, ht, hne⟩ := (allWorkersDone_false_iff c.wpcs c.k).mp hall'
      cases hp : c.wpcs t with
      | done => exact absurd hp hne
      | item i => exact ⟨CEv.consume t, by simp [cstep, ht, hp]⟩
      | result i => exact ⟨CEv.sendFail t, by simp [cstep, ht, hp, hr]⟩
      | idle =>
        cases hi : c.inQ with
        | cons i q => exact ⟨CEv.recv t, by simp [cstep, ht, hp, hi]⟩
        | nil =>
          by_cases hpd : c.prodDone = true
          · exact ⟨CEv.workerEnd t, by simp [cstep, ht, hp, hi, hpd]⟩
          · have hpd' : c.prodDone = false := by simpa using hpd
            by_cases hs : c.sent < c.n
            · exact ⟨CEv.prodSend, by simp [cstep, hpd', hs, hi, hall']; omega⟩
            · by_cases hs2 : c.sent = c.n
              · exact ⟨CEv.prodEnd, by simp [cstep, hpd', hs2]⟩
              · omega

end GixModel.C51
