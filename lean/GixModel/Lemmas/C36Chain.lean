import GixModel.Lemmas.C36Mid

/-! C36, path mode, tier 5: chains of `**/` boundaries with star-free, bracket-free pieces between
them (`**/a/**/b`, `a/**/b/**/c`). Needs: git's dowild does not depend on its fuel once the fuel
exceeds the pattern length; ABORT_ALL of `L/**/y` is suffix-sound when that of `/y` is. -/
namespace GixModel.C36
open GixModel GixModel.Spec.C36

theorem spec_bracketLoop_stable (f : Flags) (tch : UInt8) :
    ∀ (n : Nat) (pch : UInt8) (rest : Bytes) (prev : UInt8) (matched : Bool), rest.length < n →
      Spec.C36.bracketLoop f tch (n + 1) pch rest prev matched = Spec.C36.bracketLoop f tch n pch rest prev matched := by
  intro n
  induction n with
  | zero => intro _ rest _ _ h; omega
  | succ k ih =>
    intro pch rest prev matched hlen
    conv => lhs; unfold Spec.C36.bracketLoop
    conv => rhs; unfold Spec.C36.bracketLoop
    by_cases hp : (pch == 0) = true
    · simp [hp]
    · simp only [hp, Bool.false_eq_true, if_false]
      cases hs : Spec.C36.bracketStep f tch pch rest prev matched with
      | none => rfl
      | some v =>
        obtain ⟨pch', rest', m'⟩ := v
        have hl := spec_bracketStep_len f tch pch rest prev matched pch' rest' m' hs
        simp only []
        by_cases h93 : (hd rest' == 93) = true
        · simp [h93]
        · simp only [h93, Bool.false_eq_true, if_false]
          cases rest' with
          | nil => simp only [hd, List.headD_nil, List.tail_nil]; rw [spec_bracketLoop_zero, spec_bracketLoop_zero]
          | cons a b =>
            exact ih _ _ _ _ (by simp at hl ⊢; omega)

theorem spec_bracket_stable (f : Flags) (tch : UInt8) (n : Nat) (rest : Bytes) (h : rest.length < n) :
    Spec.C36.bracket f tch (n + 1) rest = Spec.C36.bracket f tch n rest := by
  unfold Spec.C36.bracket
  have ht : rest.tail.length ≤ rest.length := by simp
  have htt : rest.tail.tail.length ≤ rest.length := by simp; omega
  by_cases hneg : ((if (hd rest == 94) = true then (33 : UInt8) else hd rest) == 33) = true
  · simp only [hneg, if_true]
    rw [spec_bracketLoop_stable f tch n _ _ _ _ (by omega)]
  · simp only [hneg, Bool.false_eq_true, if_false]
    rw [spec_bracketLoop_stable f tch n _ _ _ _ (by omega)]


theorem dowild_fuel_stable (f : Flags) :
    ∀ (n : Nat) (prev : Option UInt8) (p t : Bytes), p.length < n →
      dowild f (n + 1) prev p t = dowild f n prev p t := by
  intro n
  induction n with
  | zero => intro _ p _ h; omega
  | succ k ih =>
    intro prev p t hlen
    cases p with
    | nil => simp [dowild, hd]
    | cons c rest =>
      have hrl : rest.length < k := by simp at hlen; omega
      have hX := dropWhile_length_le (· == 42) rest
      have h1 : ∀ pv tx, dowild f (k + 1) pv rest tx = dowild f k pv rest tx := fun pv tx => ih pv rest tx hrl
      have h2 : ∀ pv tx, dowild f (k + 1) pv rest.tail tx = dowild f k pv rest.tail tx :=
        fun pv tx => ih pv _ tx (by simp; omega)
      have h3 : ∀ pv tx, dowild f (k + 1) pv (rest.dropWhile (· == 42)) tx = dowild f k pv (rest.dropWhile (· == 42)) tx :=
        fun pv tx => ih pv _ tx (by omega)
      have h4 : ∀ pv tx, dowild f (k + 1) pv (rest.dropWhile (· == 42)).tail tx
          = dowild f k pv (rest.dropWhile (· == 42)).tail tx :=
        fun pv tx => ih pv _ tx (by simp; omega)
      have h5 : ∀ tch, Spec.C36.bracket f tch (k + 1) rest = Spec.C36.bracket f tch k rest :=
        fun tch => spec_bracket_stable f tch k rest hrl
      have h6 : ∀ tch ok r', Spec.C36.bracket f tch k rest = .done ok r' →
          ∀ pv tx, dowild f (k + 1) pv r' tx = dowild f k pv r' tx := by
        intro tch ok r' hb pv tx
        have := spec_bracket_len _ _ _ _ _ _ hb
        exact ih pv r' tx (by omega)
      conv => lhs; unfold dowild
      conv => rhs; unfold dowild
      simp only [hd_cons, List.tail_cons, h1, h2, h5]
      by_cases hA : (hd rest == 42) = true <;> by_cases hP : f.pathname = true <;>
        by_cases hC : ((prev.isNone || prev == some 47) &&
            (hd (List.dropWhile (fun x => x == 42) rest) == 0 ||
              hd (List.dropWhile (fun x => x == 42) rest) == 47 ||
              hd (List.dropWhile (fun x => x == 42) rest) == 92 &&
                hd (List.dropWhile (fun x => x == 42) rest).tail == 47)) = true <;>
        simp only [hA, hP, hC, h1, h2, h3, h4, h5, Bool.not_true, Bool.not_false, Bool.false_eq_true, if_true, if_false]
      all_goals (cases hb : Spec.C36.bracket f (fold f (hd t)) k rest <;> first | rfl | (simp only [h6 _ _ _ hb]; done) | (simp only [h6 _ _ _ hb]; rfl) | (simp [h6 _ _ _ hb]))


theorem dowild_prev_congr (f : Flags) (n : Nat) (p1 p2 : Option UInt8) (h : prevOk p1 = prevOk p2) (p t : Bytes) :
    dowild f n p1 p t = dowild f n p2 p t := by
  cases n with
  | zero => simp [dowild]
  | succ n =>
    unfold prevOk at h
    conv => lhs; unfold dowild
    conv => rhs; unfold dowild
    simp only [h]

theorem fold_hd_zero_iff' (m : Mode) (t : Bytes) (ht : ∀ c ∈ t, c ≠ 0) :
    Spec.C36.fold (flagsOf m) (hd t) = 0 ↔ t = [] := by
  cases t with
  | nil =>
    simp only [hd, List.headD_nil, iff_true]
    rw [fold_eq_lc]; exact (lc_special m 0).2.2.2.2.2.1.mpr rfl
  | cons a b =>
    simp only [hd, List.headD_cons]
    constructor
    · intro h
      rw [fold_eq_lc] at h
      exact absurd ((lc_special m a).2.2.2.2.2.1.mp h) (ht a (by simp))
    · intro h; cases h

theorem fold47 (m : Mode) : Spec.C36.fold (flagsOf m) 47 = 47 := by
  rw [fold_eq_lc]; exact (lc_special m 47).2.2.2.2.1.mpr rfl

theorem fold_eq47 (m : Mode) (c : UInt8) : Spec.C36.fold (flagsOf m) c = 47 ↔ c = 47 := by
  rw [fold_eq_lc]; exact (lc_special m c).2.2.2.2.1

/-- ABORT_ALL of `L/**/y` is suffix-sound if that of `/y` is (at adequate fuel) -/
theorem bd_closure (m : Mode) (hpm : m.noMatchSlash = true) (r y : Bytes)
    (hx : r.dropWhile (· == 42) = 47 :: y)
    (clX : ∀ n t, (47 :: y).length ≤ n → (∀ c ∈ t, c ≠ 0) →
      dowild (flagsOf m) n none (47 :: y) t = .abortAll →
      ∀ k, dowild (flagsOf m) n none (47 :: y) (t.drop k) ≠ .matched) :
    ∀ (L : Bytes), (∀ c ∈ L, c ≠ 0 ∧ c ≠ 42 ∧ c ≠ 91 ∧ c ≠ 92) →
      ∀ (N : Nat) (prev : Option UInt8) (t : Bytes), (L ++ 47 :: 42 :: 42 :: r).length ≤ N → (∀ c ∈ t, c ≠ 0) →
        dowild (flagsOf m) N prev (L ++ 47 :: 42 :: 42 :: r) t = .abortAll →
        ∀ k, dowild (flagsOf m) N prev (L ++ 47 :: 42 :: 42 :: r) (t.drop k) ≠ .matched := by
  have hpf : (flagsOf m).pathname = true := by simpa using hpm
  have hylen : y.length + 1 ≤ r.length := by
    have := congrArg List.length hx
    simp at this
    have h2 := dropWhile_length_le (· == 42) r
    omega
  intro L
  induction L with
  | nil =>
    intro _ N prev t hN ht hAA k
    simp only [List.nil_append] at hN hAA ⊢
    obtain ⟨N', e⟩ : ∃ N', N = N' + 1 := ⟨N - 1, by simp at hN; omega⟩
    subst e
    have h47_0 : (47 : UInt8) ≠ 0 := by decide
    have h47_42 : (47 : UInt8) ≠ 42 := by decide
    have f1 : Spec.C36.fold (flagsOf m) 47 ≠ 42 := by rw [fold47]; decide
    have f2 : Spec.C36.fold (flagsOf m) 47 ≠ 92 := by rw [fold47]; decide
    have f3 : Spec.C36.fold (flagsOf m) 47 ≠ 63 := by rw [fold47]; decide
    have f4 : Spec.C36.fold (flagsOf m) 47 ≠ 91 := by rw [fold47]; decide
    cases t with
    | nil => rw [List.drop_nil, dw_abort h47_0 h47_42]; simp
    | cons tc tr =>
      have htc : tc ≠ 0 := ht tc (by simp)
      have htr_nn : ∀ c ∈ tr, c ≠ 0 := fun c hc => ht c (by simp [hc])
      rw [dw_lit h47_0 htc f1 f2 f3 f4] at hAA
      split at hAA
      · cases hAA
      · obtain ⟨n, e⟩ : ∃ n, N' = n + 1 := ⟨N' - 1, by simp at hN; omega⟩
        subst e
        rw [dw_bd_ds hpf rfl hx] at hAA
        have hE : dowild (flagsOf m) n none y tr ≠ .matched := by
          intro h; simp [h] at hAA
        have hSL : Spec.C36.starLoop (flagsOf m) (fun tx => dowild (flagsOf m) n none (47 :: y) tx) (47 :: y) true
            (tr.length + 1) (Spec.C36.fold (flagsOf m) (hd tr)) tr = .abortAll := by
          simpa [hE] using hAA
        have hcl : ∀ j, dowild (flagsOf m) n none (47 :: y) (tr.drop j) = .abortAll →
            ∀ i, dowild (flagsOf m) n none (47 :: y) (tr.drop (j + i)) ≠ .matched := by
          intro j hj i
          have := clX n (tr.drop j) (by simp at hN ⊢; omega) (fun c hc => htr_nn c (List.mem_of_mem_drop hc)) hj i
          rwa [List.drop_drop] at this
        have hloop : ∀ k', Spec.C36.starLoop (flagsOf m) (fun tx => dowild (flagsOf m) n none (47 :: y) tx) (47 :: y) true
            ((tr.drop k').length + 1) (Spec.C36.fold (flagsOf m) (hd (tr.drop k'))) (tr.drop k') ≠ .matched := by
          intro k'
          exact spec_starLoop_abort (flagsOf m) _ (47 :: y) true (by simp [hd, fold47]) tr htr_nn (tr.length + 1) _
            (fold_hd_zero_iff' m tr htr_nn) hSL hcl k' _ _
            (fold_hd_zero_iff' m _ (fun c hc => htr_nn c (List.mem_of_mem_drop hc)))
        cases hdk : (tc :: tr).drop k with
        | nil => rw [dw_abort h47_0 h47_42]; simp
        | cons tc' tr' =>
          have htc' : tc' ≠ 0 := ht tc' (List.mem_of_mem_drop (show tc' ∈ (tc :: tr).drop k by rw [hdk]; simp))
          have htr' : tr' = tr.drop k := by
            have := congrArg List.tail hdk
            simpa [List.tail_drop] using this.symm
          rw [dw_lit h47_0 htc' f1 f2 f3 f4]
          split
          · simp
          · rename_i hf
            simp only [ne_eq, Decidable.not_not] at hf
            rw [fold47] at hf
            have htc47 : tc' = 47 := (fold_eq47 m tc').mp hf
            rw [dw_bd_ds hpf rfl hx]
            have hSL' := hloop k
            rw [← htr'] at hSL'
            have hE' : dowild (flagsOf m) n none y tr' ≠ .matched := by
              cases k with
              | zero => simp at htr'; rw [htr']; exact hE
              | succ k' =>
                intro hm
                have hdk' : tr.drop k' = 47 :: tr' := by rw [← htc47]; simpa using hdk
                apply hloop k'
                rw [hdk']
                obtain ⟨n0, e⟩ : ∃ n0, n = n0 + 1 := ⟨n - 1, by simp at hN; omega⟩
                subst e
                have hrec : dowild (flagsOf m) (n0 + 1) none (47 :: y) (47 :: tr') = .matched := by
                  rw [dw_lit h47_0 h47_0 f1 f2 f3 f4]
                  simp only [ne_eq, not_true, if_false]
                  rw [dowild_prev_congr (flagsOf m) n0 (some 47) none rfl, ← dowild_fuel_stable (flagsOf m) n0 none y tr'
                    (by simp at hN; omega)]
                  exact hm
                rw [sl_pass (flagsOf m) _ (47 :: y) true _ _ (Spec.C36.fold (flagsOf m) 47) (47 :: tr')
                  (by simp [hd, fold47])
                  (Or.inr ⟨by simp [hd]; decide, by
                    simp only [hd, List.headD_cons]
                    exact scanLit_hit_spec (flagsOf m) true 47 tr' _ h47_0 (by simp) rfl, by simp [hd]⟩)]
                simp [hrec]
            simp [hE', hSL']
  | cons c L' ih =>
    intro hL N prev t hN ht hAA k
    simp only [List.cons_append] at hN hAA ⊢
    obtain ⟨hc0, hc42, hc91, hc92⟩ := hL c (by simp)
    have hL' : ∀ c ∈ L', c ≠ 0 ∧ c ≠ 42 ∧ c ≠ 91 ∧ c ≠ 92 := fun x hx => hL x (by simp [hx])
    obtain ⟨N', e⟩ : ∃ N', N = N' + 1 := ⟨N - 1, by simp at hN; omega⟩
    subst e
    obtain ⟨s42, s92, s63, s91, s47, s0, s93⟩ := lc_special m c
    cases t with
    | nil => rw [List.drop_nil, dw_abort hc0 hc42]; simp
    | cons tc tr =>
      have htc : tc ≠ 0 := ht tc (by simp)
      have htr_nn : ∀ c ∈ tr, c ≠ 0 := fun c hc => ht c (by simp [hc])
      have key : ∀ (pv : Option UInt8) (k : Nat),
          dowild (flagsOf m) N' pv (L' ++ 47 :: 42 :: 42 :: r) tr = .abortAll →
          dowild (flagsOf m) N' pv (L' ++ 47 :: 42 :: 42 :: r) (tr.drop k) ≠ .matched :=
        fun pv k h => ih hL' N' pv tr (by simp at hN ⊢; omega) htr_nn h k
      cases hdk : (tc :: tr).drop k with
      | nil => rw [dw_abort hc0 hc42]; simp
      | cons tc' tr' =>
        have htc' : tc' ≠ 0 := ht tc' (List.mem_of_mem_drop (show tc' ∈ (tc :: tr).drop k by rw [hdk]; simp))
        have htr' : tr' = tr.drop k := by
          have := congrArg List.tail hdk
          simpa [List.tail_drop] using this.symm
        by_cases h63 : c = 63
        · subst h63
          rw [dw_qm hc0 htc (by rw [fold_eq_lc, s63])] at hAA
          rw [dw_qm hc0 htc' (by rw [fold_eq_lc, s63])]
          split at hAA
          · cases hAA
          · split
            · simp
            · rw [htr']; exact key _ k hAA
        · have g1 : Spec.C36.fold (flagsOf m) c ≠ 42 := by rw [fold_eq_lc, Ne, s42]; exact hc42
          have g2 : Spec.C36.fold (flagsOf m) c ≠ 92 := by rw [fold_eq_lc, Ne, s92]; exact hc92
          have g3 : Spec.C36.fold (flagsOf m) c ≠ 63 := by rw [fold_eq_lc, Ne, s63]; exact h63
          have g4 : Spec.C36.fold (flagsOf m) c ≠ 91 := by rw [fold_eq_lc, Ne, s91]; exact hc91
          rw [dw_lit hc0 htc g1 g2 g3 g4] at hAA
          rw [dw_lit hc0 htc' g1 g2 g3 g4]
          split at hAA
          · cases hAA
          · split
            · simp
            · rw [htr']; exact key _ k hAA


/-- What the induction over a chain of `**/` boundaries needs from a rest `y`: gitoxide and git are
related on `y` and on `/y` as fresh invocations, and git's ABORT_ALL on `/y` is suffix-sound. -/
structure Good (m : Mode) (y : Bytes) : Prop where
  relY : ∀ (n d : Nat) (text : Bytes), PatOk m y → (∀ c ∈ text, c ≠ 0) → y.length ≤ n → count42 y ≤ d →
    RelAA (go m n d y text ⟨0, y⟩ ⟨0, text⟩) (dowild (flagsOf m) n none y text)
  relX : ∀ (n d : Nat) (text : Bytes), PatOk m (47 :: y) → (∀ c ∈ text, c ≠ 0) → (47 :: y).length ≤ n →
    count42 y ≤ d →
    RelAA (go m n d (47 :: y) text ⟨0, 47 :: y⟩ ⟨0, text⟩) (dowild (flagsOf m) n none (47 :: y) text)
  clX : ∀ (n : Nat) (t : Bytes), (∀ c ∈ y, c ≠ 0) → (47 :: y).length ≤ n → (∀ c ∈ t, c ≠ 0) →
    dowild (flagsOf m) n none (47 :: y) t = .abortAll →
    ∀ k, dowild (flagsOf m) n none (47 :: y) (t.drop k) ≠ .matched

theorem good_base (m : Mode) (hpm : m.noMatchSlash = true) (y : Bytes) (hy : okDSaux (some 47) y = true) :
    Good m y := by
  have hXds : okDSaux none (47 :: y) = true := by unfold okDSaux; exact hy
  have hYds : okDSaux none y = true := by rw [okDSaux_prev_congr (p1 := none) (p2 := some 47) rfl]; exact hy
  refine ⟨?_, ?_, ?_⟩
  · intro n d text hok ht hn hd'
    exact go_rel_p m hpm n d y text hok ht y text 0 0 none (by simp) (by simp) hn hd' (fun _ => rfl) hYds
  · intro n d text hok ht hn hd'
    exact go_rel_p m hpm n d (47 :: y) text hok ht (47 :: y) text 0 0 none (by simp) (by simp) hn
      (by have : count42 (47 :: y) = count42 y := by simp [count42]
          omega) (fun _ => rfl) hXds
  · intro n t hyn _ ht h k
    exact dowild_abort_sound_p m n none (47 :: y) t hXds
      (by intro c hc; simp at hc; rcases hc with e | hc
          · subst e; decide
          · exact hyn c hc) ht h k

/-- A `**/` boundary run at index `i` (start of the pattern or behind a `/`) in front of a rest `y`
that has no further boundary, reached with no star above it. -/
theorem go_rel_bdG (m : Mode) (hpm : m.noMatchSlash = true) (n d : Nat) (p text r y ts : Bytes) (i ti : Nat)
    (prev : Option UInt8)
    (hinv : p.drop i = 42 :: 42 :: r) (htinv : text.drop ti = ts) (hx : r.dropWhile (· == 42) = 47 :: y)
    (hok : PatOk m p) (htext : ∀ c ∈ text, c ≠ 0) (hy : Good m y)
    (hprev : prev = if i = 0 then none else p[i - 1]?) (hpo : prevOk prev = true)
    (hfuel : y.length + 1 ≤ n) (hdepth : count42 y + 1 ≤ d) :
    RelAA (go m (n + 1) d p text ⟨i, 42 :: 42 :: r⟩ ⟨ti, ts⟩) (dowild (flagsOf m) (n + 1) prev (42 :: 42 :: r) ts) := by
  have hpf : (flagsOf m).pathname = true := by simpa using hpm
  have hl47 : lc m 47 = 47 := (lc_special m 47).2.2.2.2.1.mpr rfl
  have hdne : d ≠ 0 := by omega
  have hilt : i < p.length := lt_of_drop_cons hinv
  have hlead : leadOf p i = some true := by
    unfold leadOf
    by_cases hi : i = 0
    · simp [hi]
    · simp only [hi, if_false] at hprev ⊢
      have : i - 1 < p.length := by omega
      rw [List.getElem?_eq_getElem this] at hprev ⊢
      rw [hprev] at hpo
      simpa [prevOk] using hpo
  -- where the slash sits
  obtain ⟨kx, hkx⟩ := dropWhile_is_drop (· == 42) r
  rw [hx] at hkx
  have hkxl : kx = r.length - (y.length + 1) := by
    have := congrArg List.length hkx
    simp at this; omega
  have hkxle : kx + (y.length + 1) = r.length := by
    have := congrArg List.length hkx
    simp at this; omega
  have hplen : p.length = i + (2 + r.length) := by
    have := congrArg List.length hinv
    simp at this; omega
  have hinvX : p.drop (i + 2 + (r.length - (y.length + 1))) = 47 :: y := by
    rw [← hkxl, Nat.add_assoc, ← List.drop_drop, hinv, hkx, Nat.add_comm]; rfl
  have hinvY : p.drop (i + 2 + (r.length - (y.length + 1)) + 1) = y := drop_succ_of_drop hinvX
  have hXlen : i + 2 + (r.length - (y.length + 1)) + 1 ≤ p.length := by omega
  have hXok : PatOk m (47 :: y) := by rw [← hinvX]; exact patOk_drop hok _
  have hYok : PatOk m y := by rw [← hinvY]; exact patOk_drop hok _
  have hc0 : (47 : UInt8) ≠ 0 := by decide
  have hc42 : (47 : UInt8) ≠ 42 := by decide
  have hrecX : ∀ k, k ≤ text.length →
      RelAA (recCall m n d p text (i + 2 + (r.length - (y.length + 1))) k)
        (dowild (flagsOf m) n none (47 :: y) (text.drop k)) := by
    intro k hk
    unfold recCall sliceFrom
    have : i + 2 + (r.length - (y.length + 1)) ≤ p.length := by omega
    simp only [this, hk, if_true]
    have hd' : (d == 0) = false := by simpa using hdne
    simp only [hd', Bool.false_eq_true, if_false, Iter.ofSlice, hinvX]
    exact hy.relX n (d - 1) (text.drop k) hXok (fun c hc => htext c (List.mem_of_mem_drop hc))
      (by simpa using hfuel) (by omega)
  have hrecY : ∀ k, k ≤ text.length →
      RelAA (recCall m n d p text (i + 2 + (r.length - (y.length + 1)) + 1) k)
        (dowild (flagsOf m) n none y (text.drop k)) := by
    intro k hk
    unfold recCall sliceFrom
    simp only [hXlen, hk, if_true]
    have hd' : (d == 0) = false := by simpa using hdne
    simp only [hd', Bool.false_eq_true, if_false, Iter.ofSlice, hinvY]
    exact hy.relY n (d - 1) (text.drop k) hYok (fun c hc => htext c (List.mem_of_mem_drop hc))
      (by omega) (by omega)
  have hrecBeyond : ∀ k, text.length < k →
      recCall m n d p text (i + 2 + (r.length - (y.length + 1))) k ≠ .matched := by
    intro k hk
    unfold recCall sliceFrom
    have : ¬ k ≤ text.length := by omega
    simp [this]
  have hXend : recCall m n d p text (i + 2 + (r.length - (y.length + 1))) text.length ≠ .matched := by
    have hR := hrecX text.length (Nat.le_refl _)
    simp only [List.drop_length] at hR
    obtain ⟨n', e⟩ : ∃ n', n = n' + 1 := ⟨n - 1, by omega⟩
    subst e
    rw [dw_abort hc0 hc42] at hR
    exact hR.ne_matched (by simp)
  have htnn : ∀ c ∈ ts, c ≠ 0 := fun c hc => htext c (List.mem_of_mem_drop (htinv ▸ hc))
  rw [dw_bd_ds hpf hpo hx]
  cases ts with
  | nil =>
    rw [go_bd_ds_nil hpm hlead hx]
    have hR := hrecY text.length (Nat.le_refl _)
    simp only [List.drop_length] at hR ⊢
    by_cases hm : dowild (flagsOf m) n none y [] = .matched
    · rw [hm] at hR
      have : recCall m n d p text (i + 2 + (r.length - (y.length + 1)) + 1) text.length = .matched := by
        rcases hR with h | ⟨h, _⟩
        · simpa [ofWm] using h
        · cases h
      left
      simp [hm, this, ofWm]
    · have hne := hR.ne_matched hm
      have hf0 : Spec.C36.fold (flagsOf m) 0 = 0 := by rw [fold_eq_lc]; exact (lc_special m 0).2.2.2.2.2.1.mpr rfl
      simp only [hd, List.headD_nil, hf0, sl_zero]
      right
      have hg : isGlobCharacter 47 = false := by decide
      rw [starLoop_end m _ _ _ _ hg (by decide)]
      simp [hm, hne]
  | cons tc tr =>
    rw [go_bd_ds hpm hlead hx]
    have hti := lt_of_drop_cons htinv
    have hlen : text.length - ti = tr.length + 1 := by
      have := congrArg List.length htinv
      simpa using this
    have hR := hrecY ti (Nat.le_of_lt hti)
    rw [htinv] at hR
    by_cases hm : dowild (flagsOf m) n none y (tc :: tr) = .matched
    · rw [hm] at hR
      have : recCall m n d p text (i + 2 + (r.length - (y.length + 1)) + 1) ti = .matched := by
        rcases hR with h | ⟨h, _⟩
        · simpa [ofWm] using h
        · cases h
      left
      simp [hm, this, ofWm]
    · have hne := hR.ne_matched hm
      have := starLoop_relAA m (fun k => recCall m n d p text (i + 2 + (r.length - (y.length + 1))) k)
        (fun tx => dowild (flagsOf m) n none (47 :: y) tx) (47 :: y) true
        (by simp [hd]) (by simp)
        (tc :: tr) htnn (by simp) ti (tr.length + 1) ((tc :: tr).length + 1)
        (Spec.C36.fold (flagsOf m) (hd (tc :: tr)))
        (by simp) (by simp) (Or.inr rfl)
        (by
          intro j hj
          have := hrecX (ti + j) (by simp at hj; omega)
          rwa [drop_add_eq htinv j] at this)
        (by
          intro k' hk'
          by_cases hk : k' ≤ text.length
          · have hke : k' = text.length := by simp at hk'; omega
            rw [hke]; exact hXend
          · exact hrecBeyond k' (by omega))
        (by
          intro j hj' i'
          have := hy.clX n ((tc :: tr).drop j) hYok.noNul (by simpa using hfuel)
            (fun c hc => htnn c (List.mem_of_mem_drop hc)) hj' i'
          rwa [List.drop_drop] at this)
      simpa [hd, hl47, hm, hne] using this



/-- Tier 4: a prefix `L` without star and without `[` (literals, `?`, escapes), then a `**/` boundary
run, then a rest without further boundary. -/
theorem go_rel_midG (m : Mode) (hpm : m.noMatchSlash = true) (r y : Bytes)
    (hx : r.dropWhile (· == 42) = 47 :: y) (hy : Good m y) :
    ∀ (fuel d : Nat) (pattern text : Bytes), PatOk m pattern → (∀ c ∈ text, c ≠ 0) →
      ∀ (L ts : Bytes) (i ti : Nat) (prev : Option UInt8),
        pattern.drop i = L ++ 42 :: 42 :: r → text.drop ti = ts → (∀ c ∈ L, c ≠ 42 ∧ c ≠ 91) →
        prevOk (endPrev prev L) = true →
        (L ++ 42 :: 42 :: r).length ≤ fuel → count42 y + 1 ≤ d →
        (prev = if i = 0 then none else pattern[i - 1]?) →
        RelAA (go m fuel d pattern text ⟨i, L ++ 42 :: 42 :: r⟩ ⟨ti, ts⟩)
          (dowild (flagsOf m) fuel prev (L ++ 42 :: 42 :: r) ts) := by
  intro fuel
  induction fuel with
  | zero => intros; left; simp [go, dowild, ofWm]
  | succ n ih =>
    intro d pattern text hok htext L ts i ti prev hinv htinv hL hend hfuel hdepth hprev
    have htnn : ∀ c ∈ ts, c ≠ 0 := fun c hc => htext c (List.mem_of_mem_drop (htinv ▸ hc))
    have hylen : y.length + 1 ≤ r.length := by
      have := congrArg List.length hx
      simp at this
      have h2 := dropWhile_length_le (· == 42) r
      omega
    cases L with
    | nil =>
      simp only [List.nil_append] at hinv hfuel ⊢
      exact go_rel_bdG m hpm n d pattern text r y ts i ti prev hinv htinv hx hok htext hy hprev
        (by simpa [endPrev] using hend) (by simp at hfuel; omega) hdepth
    | cons c L' =>
      simp only [List.cons_append] at hinv hfuel ⊢
      have hmem : ∀ x ∈ c :: (L' ++ 42 :: 42 :: r), x ∈ pattern := fun x hx => List.mem_of_mem_drop (hinv ▸ hx)
      have hc0 : c ≠ 0 := hok.noNul c (hmem c (by simp))
      have hc42 : c ≠ 42 := (hL c (by simp)).1
      have h91 : c ≠ 91 := (hL c (by simp)).2
      have hr := drop_succ_of_drop hinv
      have hrl : (L' ++ 42 :: 42 :: r).length ≤ n := by simp at hfuel ⊢; omega
      have hL' : ∀ c ∈ L', c ≠ 42 ∧ c ≠ 91 := fun x hx => hL x (by simp [hx])
      obtain ⟨s42, s92, s63, s91, s47, s0, s93⟩ := lc_special m c
      cases ts with
      | nil =>
        left
        rw [go_abort (by rw [Ne, s42]; exact hc42), dw_abort hc0 hc42]
        rfl
      | cons tc tr =>
        have htc : tc ≠ 0 := htnn tc (by simp)
        have htr := drop_succ_of_drop htinv
        have htc' : lc m tc ≠ 0 := fun h => htc ((lc_special m tc).2.2.2.2.2.1.mp h)
        by_cases h92 : c = 92
        · subst h92
          cases L' with
          | nil => simp [endPrev, prevOk] at hend
          | cons e L'' =>
            simp only [List.cons_append] at hinv hr hrl ⊢
            rw [go_esc (by rw [s92]), dw_esc hc0 htc (by rw [fold_eq_lc, s92])]
            have hle : lc m e = e := by
              cases hic : m.ignoreCase with
              | false => simp [lc, hic]
              | true =>
                have := escSafe_drop pattern (hok.icase hic).2 i
                rw [hinv] at this
                simp [escSafe] at this
                exact lc_of_not_upper m e (by simpa using this.1)
            simp only [hd, List.headD_cons, List.tail_cons, fold_eq_lc, hle]
            have hr2 := drop_succ_of_drop hr
            have := ih d pattern text hok htext L'' tr (i + 2) (ti + 1) (some e) hr2 htr
              (fun x hx => hL' x (by simp [hx])) (by simpa [endPrev] using hend)
              (by simp at hrl ⊢; omega) hdepth
              (by have := getElem?_of_drop hr; simp [this])
            exact relAA_if (by constructor <;> (intro h; exact fun x => h x.symm)) this
        · by_cases h63 : c = 63
          · subst h63
            rw [go_qm (by rw [s63]), dw_qm hc0 htc (by rw [fold_eq_lc, s63])]
            have := ih d pattern text hok htext L' tr (i + 1) (ti + 1) (some 63) hr htr hL'
              (by simpa [endPrev] using hend) hrl hdepth
              (by have := getElem?_of_drop hinv; simp [this])
            simp only [fold_eq_lc, flagsOf_pathname]
            exact relAA_if (by simp) this
          · rw [go_lit (by rw [Ne, s42]; exact hc42) (by rw [Ne, s92]; exact h92)
                (by rw [Ne, s63]; exact h63) (by rw [Ne, s91]; exact h91),
              dw_lit hc0 htc (by rw [fold_eq_lc, Ne, s42]; exact hc42) (by rw [fold_eq_lc, Ne, s92]; exact h92)
                (by rw [fold_eq_lc, Ne, s63]; exact h63) (by rw [fold_eq_lc, Ne, s91]; exact h91)]
            have := ih d pattern text hok htext L' tr (i + 1) (ti + 1) (some c) hr htr hL'
              (by simpa [endPrev] using hend) hrl hdepth
              (by have := getElem?_of_drop hinv; simp [this])
            simp only [fold_eq_lc]
            exact relAA_if (by constructor <;> (intro h; exact fun x => h x.symm)) this




theorem endPrev_cases : ∀ (S : Bytes) (p : Option UInt8), prevOk (endPrev p S) = true →
    (S = [] ∧ prevOk p = true) ∨ ∃ S0, S = S0 ++ [47] := by
  intro S
  induction S with
  | nil => intro p h; exact Or.inl ⟨rfl, by simpa [endPrev] using h⟩
  | cons a b ih =>
    intro p h
    right
    rcases ih (some a) (by simpa [endPrev] using h) with ⟨hb, hp⟩ | ⟨S0, hS0⟩
    · subst hb
      have : a = 47 := by
        unfold prevOk at hp
        simpa using hp
      exact ⟨[], by simp [this]⟩
    · exact ⟨a :: S0, by simp [hS0]⟩

theorem count42_append (a b : Bytes) : count42 (a ++ b) = count42 a + count42 b := by
  simp [count42, List.filter_append]

theorem good_step (m : Mode) (hpm : m.noMatchSlash = true) (S r y : Bytes) (hg : Good m y)
    (hx : r.dropWhile (· == 42) = 47 :: y) (hS : ∀ c ∈ S, c ≠ 42 ∧ c ≠ 91 ∧ c ≠ 92)
    (hend : prevOk (endPrev (some 47) S) = true) : Good m (S ++ 42 :: 42 :: r) := by
  obtain ⟨kx, hkx⟩ := dropWhile_is_drop (· == 42) r
  have hc : count42 y ≤ count42 r := by
    have h1 : count42 (47 :: y) ≤ count42 r := by rw [← hx, hkx]; exact count42_drop r kx
    have h2 : count42 (47 :: y) = count42 y := by simp [count42]
    omega
  have hcnt : count42 (S ++ 42 :: 42 :: r) = count42 S + (count42 r + 2) := by
    rw [count42_append, count42_cons42, count42_cons42]
  have hS2 : ∀ c ∈ S, c ≠ 42 ∧ c ≠ 91 := fun c hc => ⟨(hS c hc).1, (hS c hc).2.1⟩
  have hend0 : prevOk (endPrev none S) = true := by
    cases S with
    | nil => rfl
    | cons a b => exact hend
  refine ⟨?_, ?_, ?_⟩
  · intro n d text hok ht hn hd'
    exact go_rel_midG m hpm r y hx hg n d (S ++ 42 :: 42 :: r) text hok ht S text 0 0 none (by simp) (by simp)
      hS2 hend0 hn (by omega) rfl
  · intro n d text hok ht hn hd'
    have := go_rel_midG m hpm r y hx hg n d (47 :: S ++ 42 :: 42 :: r) text hok ht (47 :: S) text 0 0 none
      (by simp) (by simp)
      (by intro c hc; simp at hc; rcases hc with e | hc
          · subst e; exact ⟨by decide, by decide⟩
          · exact hS2 c hc)
      (by simpa [endPrev] using hend) (by simpa using hn) (by omega) rfl
    simpa using this
  · intro n t hPn hn ht hAA k
    have hyn : ∀ c ∈ y, c ≠ 0 := by
      intro c hcy
      have h1 : c ∈ r.dropWhile (· == 42) := by rw [hx]; simp [hcy]
      rw [hkx] at h1
      exact hPn c (by simp [List.mem_of_mem_drop h1])
    have clX : ∀ n t, (47 :: y).length ≤ n → (∀ c ∈ t, c ≠ 0) →
        dowild (flagsOf m) n none (47 :: y) t = .abortAll →
        ∀ k, dowild (flagsOf m) n none (47 :: y) (t.drop k) ≠ .matched :=
      fun n t h1 h2 h3 => hg.clX n t hyn h1 h2 h3
    rcases endPrev_cases S (some 47) hend with ⟨hS0, _⟩ | ⟨S0, hS0⟩
    · subst hS0
      exact bd_closure m hpm r y hx clX [] (by simp) n none t (by simpa using hn) ht (by simpa using hAA) k
    · subst hS0
      have hL : ∀ c ∈ 47 :: S0, c ≠ 0 ∧ c ≠ 42 ∧ c ≠ 91 ∧ c ≠ 92 := by
        intro c hc
        simp at hc
        rcases hc with e | hc
        · subst e; exact ⟨by decide, by decide, by decide, by decide⟩
        · exact ⟨hPn c (by simp [hc]), hS c (by simp [hc])⟩
      have := bd_closure m hpm r y hx clX (47 :: S0) hL n none t (by simpa using hn) ht (by simpa using hAA) k
      simpa using this

/-- Chains of `**/` boundaries: a rest without boundary run, or a piece `S` (empty, or ending in `/`;
no `*`, `[`, `\`) in front of a run of two or more stars, a plain `/`, and a chain. -/
inductive Chain : Bytes → Prop
  | base (y : Bytes) : okDSaux (some 47) y = true → Chain y
  | step (S r y : Bytes) : Chain y → r.dropWhile (· == 42) = 47 :: y →
      (∀ c ∈ S, c ≠ 42 ∧ c ≠ 91 ∧ c ≠ 92) → prevOk (endPrev (some 47) S) = true →
      Chain (S ++ 42 :: 42 :: r)

theorem chain_good (m : Mode) (hpm : m.noMatchSlash = true) : ∀ y, Chain y → Good m y := by
  intro y h
  induction h with
  | base y hy => exact good_base m hpm y hy
  | step S r y _ hx hS hend ih => exact good_step m hpm S r y ih hx hS hend

/-- a computable necessary condition for `Chain` (beyond `okDSaux`): up to the first star no `[` and
no `\`, and that star opens a run of two or more with a plain `/` behind it -/
def chainHead : Bytes → Bool
  | 42 :: 42 :: r => hd (r.dropWhile (· == 42)) == 47
  | 42 :: _ => false
  | c :: r => c != 91 && c != 92 && chainHead r
  | [] => false

theorem chain_necessary (p : Bytes) (h : Chain p) : okDSaux (some 47) p = true ∨ chainHead p = true := by
  cases h with
  | base _ hy => exact Or.inl hy
  | step S r y _ hx hS hend =>
    right
    clear hend
    induction S with
    | nil => simp [chainHead, hx, hd]
    | cons a S' ih =>
      have ha := hS a (by simp)
      have := ih (fun c hc => hS c (by simp [hc]))
      simp only [List.cons_append]
      unfold chainHead
      split
      · rename_i heq; simp at heq; exact absurd heq.1 ha.1
      · rename_i heq; simp at heq; exact absurd heq.1 ha.1
      · rename_i heq
        simp at heq
        obtain ⟨e1, e2⟩ := heq
        subst e1 e2
        simp [ha.2.1, ha.2.2, this]
      · rename_i heq; cases heq

end GixModel.C36
