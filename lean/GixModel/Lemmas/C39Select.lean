import GixModel.Lemmas.C39Match
/-
C39 — the whole list: gitoxide sorts the excluding patterns first and takes the first match; git asks
whether some positive item matches and no excluding item does (adding a match-everything item when
all pathspecs are excludes). Same verdict.
-/
namespace GixModel.Lemmas.C39
open GixModel GixModel.C38 GixModel.C39 GixModel.Spec.C39

/-- `Search::from_specs` after normalisation -/
def searchOf (ns : List PSpec) : Search :=
  let ms := sortExcluded (ns.map toMapping)
  { patterns := ms, allExcluded := ms.all (fun m => m.spec.exclude), commonPrefixLen := commonPrefixLen ms }

theorem fromSpecs_eq (specs : List PSpec) : fromSpecs specs = (allSome (specs.map normalize)).map searchOf := rfl

/-- `parse_pathspec`'s extra item -/
def withImplicit (items : List Item) : List Item :=
  if items.all (fun it => it.exclude) then items ++ [Item.empty] else items

theorem mem_sortExcluded (ms : List Mapping) (m : Mapping) : m ∈ sortExcluded ms ↔ m ∈ ms := by
  unfold sortExcluded
  simp only [List.mem_append, List.mem_filter]
  constructor
  · rintro (⟨h, _⟩ | ⟨h, _⟩) <;> exact h
  · intro h
    by_cases he : m.spec.exclude = true
    · exact Or.inl ⟨h, he⟩
    · exact Or.inr ⟨h, by simpa using he⟩

theorem matchItem_empty (env : C39.Env) (name : Bytes) : matchItem env Item.empty name = true := by
  simp [matchItem, Item.empty]

/-- **the list**: for specs whose normalised paths do not end in a slash and index paths -/
theorem select_items (env : C39.Env) (hwm : WmSlash env.wm) (ns : List PSpec) (hok : ∀ s ∈ ns, SpecOk s)
    (name : Bytes) (hn : NameOk name) :
    selectNoShortcut env (searchOf ns) name false = matchPathspec env (withImplicit (ns.map itemOf)) name := by
  have hfg : ∀ n ∈ ns, mappingMatches env (toMapping n) name false = matchItem env (itemOf n) name :=
    fun n hn' => mapping_eq_item env hwm n (hok n hn') name hn
  -- git's two questions, over the specs
  have hanyE : ∀ (items : List Item), items = ns.map itemOf →
      (items.any fun it => it.exclude && matchItem env it name)
        = ns.any fun n => n.exclude && mappingMatches env (toMapping n) name false := by
    intro items hi
    subst hi
    rw [List.any_map]
    clear hok
    induction ns with
    | nil => rfl
    | cons n ns ih =>
      simp only [List.any_cons, Function.comp]
      rw [hfg n (by simp), ih (fun x hx => hfg x (by simp [hx]))]
      rfl
  have hanyP : (( ns.map itemOf).any fun it => !it.exclude && matchItem env it name)
        = ns.any fun n => !n.exclude && mappingMatches env (toMapping n) name false := by
    rw [List.any_map]
    clear hok hanyE
    induction ns with
    | nil => rfl
    | cons n ns ih =>
      simp only [List.any_cons, Function.comp]
      rw [hfg n (by simp), ih (fun x hx => hfg x (by simp [hx]))]
      rfl
  have hallx : ((ns.map itemOf).all fun it => it.exclude) = ns.all fun n => n.exclude := by
    rw [List.all_map]; rfl
  have hallm : ((sortExcluded (ns.map toMapping)).all fun m => m.spec.exclude) = ns.all fun n => n.exclude := by
    apply Bool.eq_iff_iff.mpr
    simp only [List.all_eq_true]
    constructor
    · intro h n hn'
      exact h (toMapping n) ((mem_sortExcluded _ _).mpr (List.mem_map.mpr ⟨n, hn', rfl⟩))
    · intro h m hm
      obtain ⟨n, hn', rfl⟩ := List.mem_map.mp ((mem_sortExcluded _ _).mp hm)
      exact h n hn'
  -- abbreviations
  generalize hE : (ns.any fun n => n.exclude && mappingMatches env (toMapping n) name false) = E at hanyE
  generalize hP : (ns.any fun n => !n.exclude && mappingMatches env (toMapping n) name false) = P at hanyP
  generalize hA : (ns.all fun n => n.exclude) = A at hallx hallm
  -- the model's find?
  have hmodel : selectNoShortcut env (searchOf ns) name false = (if E then false else if P then true else A) := by
    unfold selectNoShortcut searchOf
    simp only
    unfold sortExcluded
    rw [List.find?_append]
    cases hfe : ((ns.map toMapping).filter fun m => m.spec.exclude).find? (fun m => mappingMatches env m name false) with
    | some m =>
      have hmem := List.mem_of_find?_eq_some hfe
      have hmatch : mappingMatches env m name false = true := by have := List.find?_some hfe; simpa using this
      obtain ⟨hmem', hex⟩ := List.mem_filter.mp hmem
      obtain ⟨n, hn', rfl⟩ := List.mem_map.mp hmem'
      have : E = true := by
        rw [← hE]
        exact List.any_eq_true.mpr ⟨n, hn', by simp only [toMapping] at hex; simp [hex, hmatch]⟩
      simp only [Option.some_or, this, if_true]
      simpa [toMapping] using hex
    | none =>
      have hEf : E = false := by
        rw [← hE]
        apply List.any_eq_false.mpr
        intro n hn'
        cases hx : n.exclude with
        | false => simp
        | true =>
          have hmem : toMapping n ∈ (ns.map toMapping).filter fun m => m.spec.exclude :=
            List.mem_filter.mpr ⟨List.mem_map.mpr ⟨n, hn', rfl⟩, by simpa [toMapping] using hx⟩
          have := List.find?_eq_none.mp hfe (toMapping n) hmem
          simpa using this
      simp only [Option.none_or, hEf, Bool.false_eq_true, if_false]
      cases hfp : ((ns.map toMapping).filter fun m => !m.spec.exclude).find? (fun m => mappingMatches env m name false) with
      | some m =>
        have hmem := List.mem_of_find?_eq_some hfp
        have hmatch : mappingMatches env m name false = true := by have := List.find?_some hfp; simpa using this
        obtain ⟨hmem', hex⟩ := List.mem_filter.mp hmem
        obtain ⟨n, hn', rfl⟩ := List.mem_map.mp hmem'
        have : P = true := by
          rw [← hP]
          exact List.any_eq_true.mpr ⟨n, hn', by simp only [toMapping] at hex; simp [hmatch]; simpa using hex⟩
        simp only [this, if_true]
        simpa [toMapping] using hex
      | none =>
        have hPf : P = false := by
          rw [← hP]
          apply List.any_eq_false.mpr
          intro n hn'
          cases hx : n.exclude with
          | true => simp
          | false =>
            have hmem : toMapping n ∈ (ns.map toMapping).filter fun m => !m.spec.exclude :=
              List.mem_filter.mpr ⟨List.mem_map.mpr ⟨n, hn', rfl⟩, by simp [toMapping, hx]⟩
            have := List.find?_eq_none.mp hfp (toMapping n) hmem
            simpa using this
        simp only [hPf, Bool.false_eq_true, if_false]
        -- `allExcluded` of the sorted list
        have : ((List.filter (fun m => m.spec.exclude) (ns.map toMapping) ++ List.filter (fun m => !m.spec.exclude) (ns.map toMapping)).all fun m => m.spec.exclude) = A := hallm
        exact this
  rw [hmodel]
  -- git
  unfold matchPathspec withImplicit
  rw [hallx]
  cases A with
  | true =>
    -- all excludes: the implicit item makes `positive` true
    simp only [if_true, List.any_append, List.any_cons, List.any_nil, Bool.or_false]
    have hEi := hanyE (ns.map itemOf) rfl
    rw [hEi, hanyP]
    have hPf : P = false := by
      rw [← hP]
      apply List.any_eq_false.mpr
      intro n hn'
      have := List.all_eq_true.mp hA n hn'
      simp [this]
    have he : Item.empty.exclude = false := rfl
    simp only [matchItem_empty, he, Bool.not_false, Bool.and_true, Bool.or_true, Bool.false_and, Bool.or_false,
      Bool.not_true, Bool.false_eq_true, if_false, hPf]
    cases E <;> rfl
  | false =>
    simp only [Bool.false_eq_true, if_false]
    have hEi := hanyE (ns.map itemOf) rfl
    rw [hEi, hanyP]
    cases E <;> cases P <;> rfl

end GixModel.Lemmas.C39
