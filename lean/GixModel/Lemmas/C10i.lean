import GixModel.Lemmas.C10h
/-
C10 — from the invariant to the statement: the whole iteration keeps `BInv`, a thin pack of contiguous
non-empty entries is `ThinOk`, and `PointsOk` for every output entry is what `basesOk` checks.
-/
namespace GixModel.C10

variable {entries : List InEntry} {start : Nat} {odb : Nat → Option (Nat × Nat)}

theorem injectFrom_binv (tk : ThinOk entries) (hodb : ∀ id bh bb, odb id = some (bh, bb) → 0 < bh + bb) :
    ∀ (rest : List InEntry) (i : Nat) (st st' : IState),
      (∀ k, rest[k]? = entries[i + k]?) → InContig rest → rest ≠ [] →
      (∀ e, rest.head? = some e → BInv entries start st i e.ofs) →
      injectFrom Fix.repaired odb st i rest = some st' →
      ∃ next, BInv entries start st' (i + rest.length) next := by
  intro rest
  induction rest with
  | nil => intro i st st' _ _ hne; exact absurd rfl hne
  | cons e rest' ih =>
    intro i st st' hidx hc _ hinv h
    simp only [injectFrom] at h
    split at h
    · rename_i st1 h1
      have he : entries[i]? = some e := by have := hidx 0; simpa using this.symm
      have inv1 := injectOne_binv tk hodb (hinv e rfl) he h1
      cases rest' with
      | nil =>
        simp only [injectFrom] at h; cases h
        exact ⟨_, by simpa using inv1⟩
      | cons b rest'' =>
        have := ih (i + 1) st1 st' (fun k => by have := hidx (k + 1); simpa [Nat.add_assoc, Nat.add_comm 1 k] using this)
          hc.2 (by simp) (fun e' he' => by simp at he'; subst he'; rw [hc.1]; exact inv1) h
        obtain ⟨next, hn⟩ := this
        exact ⟨next, by simpa [Nat.add_assoc, Nat.add_comm 1] using hn⟩
    · cases h

theorem contig_adj : ∀ (l : List InEntry) (k : Nat) (a b : InEntry), InContig l → l[k]? = some a → l[k + 1]? = some b →
    b.ofs = a.ofs + a.hsize + a.body := by
  intro l
  induction l with
  | nil => intro k a b _ h; simp at h
  | cons x rest ih =>
    intro k a b hc ha hb
    cases rest with
    | nil => simp at hb
    | cons y rest' =>
      cases k with
      | zero => simp at ha hb; subst ha; subst hb; exact hc.1
      | succ k' => exact ih k' a b hc.2 (by simpa using ha) (by simpa using hb)

theorem strict_of_contig (l : List InEntry) (hc : InContig l)
    (hpos : ∀ (i : Nat) (e : InEntry), l[i]? = some e → 0 < e.hsize + e.body) : StrictOfs l := by
  intro i j ei ej hij hi hj
  induction j generalizing ej with
  | zero => omega
  | succ j' ih =>
    have hj'lt : j' < l.length := by
      have := (List.getElem?_eq_some_iff.mp hj).1; omega
    obtain ⟨em, hm⟩ : ∃ em, l[j']? = some em := ⟨l[j'], List.getElem?_eq_getElem hj'lt⟩
    have hstep := contig_adj l j' em ej hc hm hj
    have hp := hpos j' em hm
    rcases Nat.lt_or_ge i j' with hlt | hge
    · have := ih em hlt hm; omega
    · have : i = j' := by omega
      subst this
      rw [hi] at hm; cases hm
      omega

/-- the hypotheses of the statement give `ThinOk` -/
theorem thinOk_of (entries : List InEntry) (hc : InContig entries)
    (hpos : ∀ (i : Nat) (e : InEntry), entries[i]? = some e → 0 < e.hsize + e.body)
    (href : ∀ (i : Nat) (e : InEntry) (id : Nat), entries[i]? = some e → e.hdr = Hdr.ref id → e.hsize = sizeLen e.dsize + 20)
    (hofs : ∀ (i : Nat) (e : InEntry) (d : Nat), entries[i]? = some e → e.hdr = Hdr.ofs d →
      (inputAt entries (e.ofs - d)).isSome = true ∧ 0 < d ∧ d ≤ e.ofs) : ThinOk entries := by
  have hs := strict_of_contig entries hc hpos
  refine ⟨hs, ?_, href, hpos⟩
  intro i e d he hh
  obtain ⟨hsome, hd0, hde⟩ := hofs i e d he hh
  cases hb : inputAt entries (e.ofs - d) with
  | none => rw [hb] at hsome; cases hsome
  | some b =>
    unfold inputAt at hb
    obtain ⟨⟨eb, heb, hp⟩, _⟩ := findIdx_some _ entries b hb
    have hbo : eb.ofs = e.ofs - d := by simpa using hp
    refine ⟨b, eb, heb, hbo, ?_, hde⟩
    rcases Nat.lt_or_ge b i with hlt | hge
    · exact hlt
    · exfalso
      rcases Nat.eq_or_lt_of_le hge with heq | hgt
      · subst heq; rw [he] at heb; cases heb; omega
      · have := hs i b e eb hgt he heb; omega

theorem filterMap_nodup_inj {α β : Type} (f : α → Option β) :
    ∀ (l : List α) (k p : Nat) (y y' : α) (v : β), (l.filterMap f).Nodup → l[k]? = some y → l[p]? = some y' →
      f y = some v → f y' = some v → k = p := by
  intro l
  induction l with
  | nil => intro k p y y' v _ h; simp at h
  | cons a rest ih =>
    intro k p y y' v hn hk hp hy hy'
    have hmem : ∀ (q : Nat) (z : α), rest[q]? = some z → f z = some v → v ∈ rest.filterMap f :=
      fun q z hq hz => List.mem_filterMap.mpr ⟨z, List.mem_of_getElem? hq, hz⟩
    have htail : (rest.filterMap f).Nodup := by
      rw [List.filterMap_cons] at hn
      split at hn
      · exact hn
      · exact (List.nodup_cons.mp hn).2
    cases k with
    | zero =>
      cases p with
      | zero => rfl
      | succ p' =>
        simp at hk hp; subst hk
        rw [List.filterMap_cons, hy] at hn
        exact absurd (hmem p' y' hp hy') (List.nodup_cons.mp hn).1
    | succ k' =>
      cases p with
      | zero =>
        simp at hk hp; subst hp
        rw [List.filterMap_cons, hy'] at hn
        exact absurd (hmem k' y hk hy) (List.nodup_cons.mp hn).1
      | succ p' =>
        have := ih k' p' y y' v htail (by simpa using hk) (by simpa using hp) hy hy'
        omega

/-- what `PointsOk` gives for every output entry is exactly what the decidable check looks at -/
theorem basesOk_of (hs : StrictOfs entries) (out : List OutEntry) (n : Nat)
    (hsrcs : out.filterMap (fun o => o.src) = List.range n)
    (hpts : ∀ oe ∈ out, PointsOk entries out oe) : basesOk entries out = true := by
  have hnd : (out.filterMap (fun o => o.src)).Nodup := by rw [hsrcs]; exact List.nodup_range
  unfold basesOk
  rw [List.all_eq_true]
  intro o ho
  have hp := hpts o ho
  unfold PointsOk at hp
  cases hsrc : o.src with
  | none =>
    rw [hsrc] at hp
    simp only [hp]
  | some i =>
    rw [hsrc] at hp
    obtain ⟨e, he, hp⟩ := hp
    cases hh : e.hdr with
    | base =>
      rw [hh] at hp
      simp only [hp]
    | ofs d0 =>
      rw [hh] at hp
      obtain ⟨d, b, eb, ob, h1, h2, h3, h4, h5, h6⟩ := hp
      simp only [h1, he, hh]
      have hin : inputAt entries (e.ofs - d0) = some b := by
        unfold inputAt
        apply findIdx_unique _ entries b eb h2 (by simpa using h3)
        intro k y hk hy
        have hyo : y.ofs = eb.ofs := by rw [h3]; simpa using hy
        rcases Nat.lt_trichotomy k b with hlt | heq | hgt
        · have := hs k b y eb hlt hk h2; omega
        · exact heq
        · have := hs b k eb y hgt h2 hk; omega
      obtain ⟨p, hpidx⟩ := List.getElem?_of_mem h4
      have hpos : posOfSrc out b = some p := by
        unfold posOfSrc
        apply findIdx_unique _ out p ob hpidx (by simp [h5])
        intro k y hk hy
        have hys : y.src = some b := by simpa using hy
        exact filterMap_nodup_inj (fun o => o.src) out k p y ob b hnd hk hpidx hys h5
      simp only [hin, hpos, hpidx, Option.map_some, Bool.and_eq_true, beq_iff_eq, decide_eq_true_eq]
      constructor
      · congr 1; omega
      · omega
    | ref id =>
      rw [hh] at hp
      obtain ⟨d, ob, h1, h2, h3, _, h4⟩ := hp
      simp only [h1, he, hh]
      rw [List.any_eq_true]
      exact ⟨ob, h2, by simp [h3, h4]⟩

end GixModel.C10
