import GixModel.Lemmas.C09Midx
/-
C09 helper lemmas, part 10: which copy of an id held by several packs the multi-pack index keeps:
the first one in the order of `entries.sort_by(…)` — newest index file first, ties broken by the
lowest pack index.
-/
namespace GixModel.C09
open GixModel

/-- `a` sorts before or with `b` -/
def mle (a b : MEntry) : Prop := mcmp a b ≠ .gt

theorem cmpNat_eq_iff (a b : Nat) : cmpNat a b = .eq ↔ a = b := by
  unfold cmpNat
  by_cases h1 : a < b
  · simp [h1]; omega
  · by_cases h2 : b < a
    · simp [h1, h2]; omega
    · simp [h1, h2]; omega

theorem cmpNat_gt_iff (a b : Nat) : cmpNat a b = .gt ↔ b < a := by
  unfold cmpNat
  by_cases h1 : a < b
  · simp [h1]; omega
  · by_cases h2 : b < a
    · simp [h1, h2]
    · simp [h1, h2]

theorem mcmp_of_id_lt {a b : MEntry} (h : cmpBytes a.id b.id = .lt) : mcmp a b = .lt := by
  simp [mcmp, h]

theorem mcmp_of_id_gt {a b : MEntry} (h : cmpBytes a.id b.id = .gt) : mcmp a b = .gt := by
  simp [mcmp, h]

/-- among entries with the same id: newer index first, then lower pack index -/
theorem mle_iff_of_id_eq {a b : MEntry} (h : a.id = b.id) :
    mle a b ↔ b.mtime < a.mtime ∨ (b.mtime = a.mtime ∧ a.pack ≤ b.pack) := by
  have hc : cmpBytes a.id b.id = .eq := (cmpBytes_eq_iff _ _).mpr h
  unfold mle mcmp
  rw [hc]
  simp only
  cases hm : cmpNat b.mtime a.mtime with
  | lt =>
    have : b.mtime < a.mtime := by
      unfold cmpNat at hm
      by_cases h1 : b.mtime < a.mtime
      · exact h1
      · by_cases h2 : a.mtime < b.mtime <;> simp [h1, h2] at hm
    simp; left; exact this
  | gt =>
    have := (cmpNat_gt_iff _ _).mp hm
    simp; omega
  | eq =>
    have he := (cmpNat_eq_iff _ _).mp hm
    simp only []
    rw [Ne, cmpNat_gt_iff]
    omega

theorem id_order_of_mle {a b : MEntry} (h : mle a b) : cmpBytes a.id b.id ≠ .gt := by
  intro hc; exact h (mcmp_of_id_gt hc)

theorem mle_refl (a : MEntry) : mle a a := by
  rw [mle_iff_of_id_eq rfl]; omega

theorem mle_trans {a b c : MEntry} (h1 : mle a b) (h2 : mle b c) : mle a c := by
  cases hab : cmpBytes a.id b.id with
  | gt => exact absurd hab (id_order_of_mle h1)
  | lt =>
    have hbc := id_order_of_mle h2
    have : cmpBytes a.id c.id = .lt := by
      rw [cmpBytes_eq_cmpL] at hab hbc ⊢
      exact cmpL_lt_of_lt_of_le hab hbc
    unfold mle; rw [mcmp_of_id_lt this]; decide
  | eq =>
    have hid : a.id = b.id := (cmpBytes_eq_iff _ _).mp hab
    cases hbc : cmpBytes b.id c.id with
    | gt => exact absurd hbc (id_order_of_mle h2)
    | lt =>
      have : cmpBytes a.id c.id = .lt := by rw [hid]; exact hbc
      unfold mle; rw [mcmp_of_id_lt this]; decide
    | eq =>
      have hid2 : b.id = c.id := (cmpBytes_eq_iff _ _).mp hbc
      rw [mle_iff_of_id_eq hid] at h1
      rw [mle_iff_of_id_eq hid2] at h2
      rw [mle_iff_of_id_eq (hid.trans hid2)]
      omega

theorem mle_of_gt {e x : MEntry} (h : mcmp e x = .gt) : mle x e := by
  cases hc : cmpBytes e.id x.id with
  | lt => rw [mcmp_of_id_lt hc] at h; cases h
  | gt =>
    have : cmpBytes x.id e.id = .lt := by
      rw [cmpBytes_eq_cmpL] at hc ⊢
      exact (cmpL_swap_gt _ _).mp hc
    unfold mle; rw [mcmp_of_id_lt this]; decide
  | eq =>
    have hid : e.id = x.id := (cmpBytes_eq_iff _ _).mp hc
    have hn : ¬ mle e x := fun hm => hm h
    rw [mle_iff_of_id_eq hid] at hn
    rw [mle_iff_of_id_eq hid.symm]
    omega

theorem minsert_msorted (e : MEntry) (l : List MEntry) (h : l.Pairwise mle) : (minsert e l).Pairwise mle := by
  induction l with
  | nil => simp [minsert]
  | cons x xs ih =>
    have h' := List.pairwise_cons.mp h
    simp only [minsert]
    by_cases hgt : mcmp e x = .gt
    · simp only [hgt, if_true]
      refine List.pairwise_cons.mpr ⟨?_, ih h'.2⟩
      intro y hy
      rcases mem_minsert.mp hy with rfl | hy
      · exact mle_of_gt hgt
      · exact h'.1 y hy
    · simp only [hgt, if_false]
      refine List.pairwise_cons.mpr ⟨?_, h⟩
      intro y hy
      rcases List.mem_cons.mp hy with rfl | hy
      · exact hgt
      · exact mle_trans hgt (h'.1 y hy)

theorem msort_msorted (l : List MEntry) : (msort l).Pairwise mle := by
  induction l with
  | nil => simp [msort]
  | cons x xs ih => exact minsert_msorted x _ ih

theorem idLe_of_mle {a b : MEntry} (h : mle a b) : idLe a b := id_order_of_mle h

/-- dedup keeps, of every id, the entry that sorts first -/
theorem mdedupAux_first : ∀ (rest : List MEntry) (x : MEntry), (x :: rest).Pairwise mle →
    ∀ e ∈ mdedupAux x rest, ∀ e' ∈ x :: rest, e'.id = e.id → mle e e' := by
  intro rest
  induction rest with
  | nil =>
    intro x _ e he e' he' _
    simp [mdedupAux] at he
    simp at he'
    subst he; subst he'
    exact mle_refl _
  | cons y r ih =>
    intro x hs e he e' he' hid
    have hs' := List.pairwise_cons.mp hs
    have hs'' := List.pairwise_cons.mp hs'.2
    have hidsorted : (x :: y :: r).Pairwise idLe := hs.imp (fun h => idLe_of_mle h)
    by_cases hxy : x.id = y.id
    · have hxr : (x :: r).Pairwise mle :=
        List.pairwise_cons.mpr ⟨fun z hz => hs'.1 z (by simp [hz]), hs''.2⟩
      have hxr_id : (x :: r).Pairwise idLe := hxr.imp (fun h => idLe_of_mle h)
      simp only [mdedupAux, hxy, if_true] at he
      rcases List.mem_cons.mp he' with h0 | he'
      · exact ih x hxr e he e' (by simp [h0]) hid
      · rcases List.mem_cons.mp he' with h1 | he'
        · -- e' = y: e must be x (everything else kept is strictly above x.id = y.id)
          obtain ⟨tail, ht1, ht2, _, _, _⟩ := mdedupAux_spec r x hxr_id
          rw [ht1] at he
          rcases List.mem_cons.mp he with h2 | he
          · rw [h2, h1]; exact hs'.1 _ (by simp)
          · have hlt := (ht2 e he).2
            unfold idLt at hlt
            rw [hxy, ← h1, hid, (cmpBytes_eq_iff _ _).mpr rfl] at hlt
            cases hlt
        · exact ih x hxr e he e' (by simp [he']) hid
    · simp only [mdedupAux, hxy, if_false] at he
      have hxy_lt : idLt x y := by
        have hle := idLe_of_mle (hs'.1 y (by simp))
        unfold idLe at hle; unfold idLt
        cases hc : cmpBytes x.id y.id with
        | lt => rfl
        | eq => exact absurd ((cmpBytes_eq_iff _ _).mp hc) hxy
        | gt => exact absurd hc hle
      rcases List.mem_cons.mp he with h0 | he
      · -- e = x
        rw [h0]
        rcases List.mem_cons.mp he' with h1 | he'
        · rw [h1]; exact mle_refl _
        · exact hs'.1 e' he'
      · -- e ∈ mdedupAux y r ⊆ y :: r, so its id is above x.id
        obtain ⟨tail, ht1, ht2, _, _, _⟩ := mdedupAux_spec r y (hs'.2.imp (fun h => idLe_of_mle h))
        have hey : idLe y e := by
          rw [ht1] at he
          rcases List.mem_cons.mp he with h2 | he
          · rw [h2]; unfold idLe; rw [(cmpBytes_eq_iff _ _).mpr rfl]; decide
          · have := (ht2 e he).2; unfold idLt at this; unfold idLe; rw [this]; decide
        have hxe : idLt x e := idLt_of_lt_of_le hxy_lt hey
        rcases List.mem_cons.mp he' with h1 | he'
        · unfold idLt at hxe
          rw [← h1, hid, (cmpBytes_eq_iff _ _).mpr rfl] at hxe
          cases hxe
        · exact ih y hs'.2 e he e' he' hid

theorem mdedup_first (l : List MEntry) (hs : l.Pairwise mle) :
    ∀ e ∈ mdedup l, ∀ e' ∈ l, e'.id = e.id → mle e e' := by
  cases l with
  | nil => intro e he; simp [mdedup] at he
  | cons x rest => exact mdedupAux_first rest x hs

/-- The entry the multi-pack index records for an id comes from the newest index file holding the
id; among equally new ones from the one with the lowest pack index. -/
theorem midx_winner (packs : List PackIn) (e : MEntry) (he : e ∈ midxEntries packs)
    (p : PackIn) (hp : packs[e.pack]? = some p)
    (j : Nat) (q : PackIn) (off : Nat) (hq : packs[j]? = some q) (hin : (e.id, off) ∈ q.entries) :
    q.mtime < p.mtime ∨ (q.mtime = p.mtime ∧ e.pack ≤ j) := by
  have hsorted := msort_msorted (collect 0 packs)
  have hidsorted := msort_sorted (collect 0 packs)
  obtain ⟨_, hsub, _, _⟩ := mdedup_spec _ hidsorted
  -- where `e` comes from
  obtain ⟨k, p', hp', hk, hmt, _⟩ := (mem_collect packs 0).mp (mem_msort.mp (hsub e he))
  have hpp : p' = p := by
    have : packs[e.pack]? = some p' := by rw [hk]; simpa using hp'
    rw [hp] at this; injection this with h; exact h.symm
  -- the competing entry
  have hmem : (⟨e.id, 0 + j, off, q.mtime⟩ : MEntry) ∈ msort (collect 0 packs) :=
    mem_msort.mpr ((mem_collect packs 0).mpr ⟨j, q, hq, rfl, rfl, hin⟩)
  have hle := mdedup_first _ hsorted e he _ hmem rfl
  have hle' := (mle_iff_of_id_eq (a := e) (b := ⟨e.id, 0 + j, off, q.mtime⟩) rfl).mp hle
  simp only [Nat.zero_add] at hle'
  rw [hmt, hpp] at hle'
  exact hle'

end GixModel.C09
