import GixModel.Lemmas.C26Append
import GixModel.Lemmas.C26Append2
import GixModel.Lemmas.C26Append3
import GixModel.Lemmas.C26Append4
import GixModel.Lemmas.C26Repl
import GixModel.Lemmas.C28Body
/-
C28 — what `load` reads back from a written file, in terms of the view; used for
`C28_full_uniform_newlines`.
-/
namespace GixModel.C28
open GixModel GixModel.C26 GixModel.C27

theorem load_foldl_secs : ∀ (l : List Section) (acc : FileS),
    (l.foldl (fun acc s => register { acc with sections := acc.sections ++
        [{ header := s.header, body := s.body, regName := lowerName s.header.name, regSub := s.header.sub }] } s.header) acc).sections.map
        (fun s => (s.header, s.body))
      = acc.sections.map (fun s => (s.header, s.body)) ++ l.map (fun s => (s.header, s.body)) := by
  intro l
  induction l with
  | nil => intro acc; simp
  | cons s t ih =>
    intro acc
    simp only [List.foldl_cons]
    rw [ih]
    simp [register]

/-- the view and the comments of a loaded file, from the parsed file -/
theorem load_view {bs : Bytes} {g : FileS} {F : File} (hg : load bs = some g) (hF : fileFromBytes bs = some F) :
    g.view = F.sections.map (fun s => (s.header, bodyEntries s.header s.body none [])) ∧
    g.comments = F.sections.map (fun s => commentsOf s.body) := by
  unfold load at hg
  rw [hF] at hg
  simp only [Option.map_some, Option.some.injEq] at hg
  subst hg
  have := load_foldl_secs F.sections { front := F.front, sections := [], reg := [] }
  simp only [List.map_nil, List.nil_append] at this
  constructor
  · have h2 := congrArg (List.map fun p : Header × List Event => (p.1, bodyEntries p.1 p.2 none [])) this
    simpa [FileS.view, Sec.entries, List.map_map, Function.comp_def] using h2
  · have h2 := congrArg (List.map fun p : Header × List Event => commentsOf p.2) this
    simpa [FileS.comments, List.map_map, Function.comp_def] using h2

/-- Any file — loaded or edited — whose own events re-parse to themselves, end in a value, and for
which the writer adds nothing or exactly the final newline: the written text loads, with the same
view (headers and entries per section) and the same comments per section. -/
theorem reparse_edited (f : FileS)
    (hs : fileFromBytes (render f.toFile.events) = some f.toFile)
    (hfin : f.toFile.normal = true ∨
      (f.toFile.aug = f.toFile.events ++ [.newline (detectNewline f.toFile)] ∧
        ∃ e, f.toFile.events.getLast? = some e ∧ (isValueEnd e = true ∨ evIsWs e = true ∨ isHeaderEv e = true ∨
          (isComment e = true ∧ detectNewline f.toFile = [10])))) :
    ∃ g, load f.write = some g ∧ g.view = f.view ∧ g.comments = f.comments := by
  have hview : f.view = f.toFile.sections.map (fun s => (s.header, bodyEntries s.header s.body none [])) := by
    simp [FileS.view, FileS.toFile, Sec.entries, List.map_map, Function.comp_def]
  have hcom : f.comments = f.toFile.sections.map (fun s => commentsOf s.body) := by
    simp [FileS.comments, FileS.toFile, List.map_map, Function.comp_def]
  rcases hfin with hn | ⟨ha, e, hle, hv⟩
  · have hw : f.write = render f.toFile.events := by
      unfold FileS.write
      have : f.toFile.aug = f.toFile.events := by simpa [File.normal] using hn
      rw [File.write_eq, this]
    have hl : load f.write = (fileFromBytes f.write).map _ := rfl
    rw [hw, hs] at hl
    refine ⟨_, by rw [hw]; exact hl, ?_⟩
    have := load_view (by rw [hw] at *; exact hl) hs
    rw [hview, hcom]; exact this
  · have hw : f.write = render f.toFile.events ++ detectNewline f.toFile := by
      unfold FileS.write
      rw [File.write_eq, ha, render_snoc_nl]
    have hsec : f.toFile.sections ≠ [] := by
      intro hs0
      have := aug_no_sections f.toFile hs0
      rw [this] at ha
      have := congrArg List.length ha
      simp at this
    have hnb : noBomHead (render f.toFile.events) = true := by
      have h0 := hs
      unfold fileFromBytes parseEvents at h0
      simp only [Option.map_eq_some_iff] at h0
      obtain ⟨_, ⟨revs, hr, _⟩, _⟩ := h0
      exact noBomHead_of_parse hr (bomLen_of_lossless hs rfl)
    have hF : fileFromBytes (render f.toFile.events ++ detectNewline f.toFile) =
        some (fileOfEvents (f.toFile.events ++ [.newline (detectNewline f.toFile)])) := by
      by_cases hnl : detectNewline f.toFile = [10]
      · rw [hnl]
        refine fileFromBytes_app_eqH (Or.inl rfl) eofOk_lf isGoodEndLf_toReal hs hnb hsec ⟨e, hle, ?_⟩
        rcases hv with hv | hv | hv | hv
        · exact Or.inl (by simp [isGoodEndLf, isGoodEnd, hv])
        · exact Or.inl (by simp [isGoodEndLf, isGoodEnd, hv])
        · exact Or.inr hv
        · exact Or.inl (by simp [isGoodEndLf, hv.1])
      · refine fileFromBytes_app_eqH (detectNewline_NL f.toFile) (eofOk_goodEnd (detectNewline_NL f.toFile)) isGoodEnd_toReal hs hnb hsec ⟨e, hle, ?_⟩
        rcases hv with hv | hv | hv | hv
        · exact Or.inl (by simp [isGoodEnd, hv])
        · exact Or.inl (by simp [isGoodEnd, hv])
        · exact Or.inr hv
        · exact absurd hv.2 hnl
    have hl : load f.write = (fileFromBytes f.write).map _ := rfl
    rw [hw, hF] at hl
    refine ⟨_, by rw [hw]; exact hl, ?_⟩
    have := load_view (by rw [hw] at *; exact hl) hF
    rw [hview, hcom, this.1, this.2]
    obtain ⟨h1, _, _⟩ := groupSections_snoc_nl2 (detectNewline f.toFile) f.toFile.events
    have hfo : fileOfEvents f.toFile.events = f.toFile := fileOfEvents_of_parsed hs
    have hsec : (groupSections f.toFile.events).2 = f.toFile.sections := by
      have := congrArg File.sections hfo
      simpa [fileOfEvents] using this
    rw [hsec] at h1
    have e1 := congrArg (List.map fun p : Header × List Entry × List Event => (p.1, p.2.1)) h1
    have e2 := congrArg (List.map fun p : Header × List Entry × List Event => p.2.2) h1
    simp only [List.map_map, Function.comp_def] at e1 e2
    constructor
    · simpa [fileOfEvents] using e1
    · simpa [fileOfEvents, commentsOf] using e2

/-- Any file — loaded or edited — whose own events re-parse to themselves (with canonical raw
events), and for which the writer inserts exactly one newline, right after one of its section
headers (a key on the header line): the written text loads, with the same view and comments. -/
theorem reparse_edited_ins (f : FileS)
    (hs : fileFromBytes (render f.toFile.events) = some f.toFile)
    (hc : ∀ revs, parseRaw (render f.toFile.events) = some revs → ∀ e ∈ revs, e.canon = true)
    (pre : List Event) (hd : Header) (tl : List Event) (t : Bytes) (ht : t = [10] ∨ t = [13, 10])
    (hev : f.toFile.events = pre ++ .header hd :: tl)
    (haug : f.toFile.aug = pre ++ .header hd :: .newline t :: tl)
    (hY : takeNewlines1 (render tl) = none) :
    ∃ g, load f.write = some g ∧ g.view = f.view ∧ g.comments = f.comments := by
  have hview : f.view = f.toFile.sections.map (fun s => (s.header, bodyEntries s.header s.body none [])) := by
    simp [FileS.view, FileS.toFile, Sec.entries, List.map_map, Function.comp_def]
  have hcom : f.comments = f.toFile.sections.map (fun s => commentsOf s.body) := by
    simp [FileS.comments, FileS.toFile, List.map_map, Function.comp_def]
  have hw : f.write = render (pre ++ .header hd :: .newline t :: tl) := by
    unfold FileS.write
    rw [File.write_eq, haug]
  have hF := fileFromBytes_insK ht hs (bomLen_of_lossless hs rfl) hc hev hY
  have hl : load f.write = (fileFromBytes f.write).map _ := rfl
  rw [hw, hF] at hl
  refine ⟨_, by rw [hw]; exact hl, ?_⟩
  have := load_view (by rw [hw] at *; exact hl) hF
  rw [hview, hcom, this.1, this.2]
  obtain ⟨_, h1⟩ := groupSections_pre_header_nl2 hd t tl pre
  have hfo : fileOfEvents f.toFile.events = f.toFile := fileOfEvents_of_parsed hs
  have hsec : (groupSections (pre ++ .header hd :: tl)).2 = f.toFile.sections := by
    have := congrArg File.sections hfo
    rw [hev] at this
    simpa [fileOfEvents] using this
  rw [hsec] at h1
  have e1 := congrArg (List.map fun p : Header × List Entry × List Event => (p.1, p.2.1)) h1
  have e2 := congrArg (List.map fun p : Header × List Entry × List Event => p.2.2) h1
  simp only [List.map_map, Function.comp_def] at e1 e2
  constructor
  · simpa [fileOfEvents] using e1
  · simpa [fileOfEvents, commentsOf] using e2

/-- the same for ANY NUMBER of headers with something on their own line -/
theorem reparse_edited_ins_many (f : FileS)
    (hs : fileFromBytes (render f.toFile.events) = some f.toFile)
    (hc : ∀ revs, parseRaw (render f.toFile.events) = some revs → ∀ e ∈ revs, e.canon = true)
    (hins : InsAfterHeaders render f.toFile.events f.toFile.aug) :
    ∃ g, load f.write = some g ∧ g.view = f.view ∧ g.comments = f.comments := by
  have hview : f.view = f.toFile.sections.map (fun s => (s.header, bodyEntries s.header s.body none [])) := by
    simp [FileS.view, FileS.toFile, Sec.entries, List.map_map, Function.comp_def]
  have hcom : f.comments = f.toFile.sections.map (fun s => commentsOf s.body) := by
    simp [FileS.comments, FileS.toFile, List.map_map, Function.comp_def]
  have hF : fileFromBytes f.write = some (fileOfEvents f.toFile.aug) :=
    fileFromBytes_write_ins_many hs (bomLen_of_lossless hs rfl) hc hins
  have hl : load f.write = (fileFromBytes f.write).map _ := rfl
  rw [hF] at hl
  refine ⟨_, hl, ?_⟩
  have := load_view hl hF
  rw [hview, hcom, this.1, this.2]
  have h1 := ins_many_sections hins
  have hfo : fileOfEvents f.toFile.events = f.toFile := fileOfEvents_of_parsed hs
  have hsec : (groupSections f.toFile.events).2 = f.toFile.sections := by
    have := congrArg File.sections hfo
    simpa [fileOfEvents] using this
  rw [hsec] at h1
  have e1 := congrArg (List.map fun p : Header × List Entry × List Event => (p.1, p.2.1)) h1
  have e2 := congrArg (List.map fun p : Header × List Entry × List Event => p.2.2) h1
  simp only [List.map_map, Function.comp_def] at e1 e2
  constructor
  · simpa [fileOfEvents] using e1
  · simpa [fileOfEvents, commentsOf] using e2

end GixModel.C28
