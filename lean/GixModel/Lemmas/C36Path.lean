import GixModel.Lemmas.C36NoPath
/-
C36 — path mode with runs of stars: a run that is not a `**/`-style boundary is one star, a boundary
run at the end of the pattern matches what is left; the byte before a position (look-behind).
-/
namespace GixModel.C36
open GixModel GixModel.Spec.C36

/-- `prev_p < pattern || *prev_p == '/'` -/
def prevOk (prev : Option UInt8) : Bool := prev.isNone || prev == some 47
/-- what makes a run of stars a `**/`-style boundary when it also starts at one -/
def followsB (x : Bytes) : Bool := hd x == 0 || hd x == 47 || (hd x == 92 && hd x.tail == 47)

theorem dropWhile42_cons42 (r : Bytes) : (42 :: r : Bytes).dropWhile (· == 42) = r.dropWhile (· == 42) := by
  simp [List.dropWhile_cons]

theorem hd_dropWhile42 (r : Bytes) : hd (r.dropWhile (· == 42)) ≠ 42 := by
  induction r with
  | nil => simp [hd]
  | cons a b ih =>
    by_cases ha : a = 42
    · simpa [List.dropWhile_cons, ha] using ih
    · simp [List.dropWhile_cons, ha, hd]

/-- path mode: a run of stars that is not a boundary is one star -/
theorem dw_run_collapse {f : Flags} {n : Nat} {prev prev' : Option UInt8} {r t : Bytes}
    (hp : f.pathname = true) (hnb : (prevOk prev && followsB (r.dropWhile (· == 42))) = false) :
    dowild f (n + 1) prev (42 :: 42 :: r) t = dowild f (n + 1) prev' (42 :: r.dropWhile (· == 42)) t := by
  have h42 : Spec.C36.fold f 42 = 42 := by unfold Spec.C36.fold Spec.C36.isUpper; simp
  have hx : (hd (r.dropWhile (· == 42)) == 42) = false := by simpa using hd_dropWhile42 r
  have e1 : (hd ((42 : UInt8) :: 42 :: r) == 0) = false := rfl
  have e2 : (hd ((42 : UInt8) :: r) == 42) = true := rfl
  have e3 : ∀ l : Bytes, (hd ((42 : UInt8) :: l) == 0) = false := fun _ => rfl
  conv => lhs; unfold dowild
  conv => rhs; unfold dowild
  simp only [prevOk, followsB] at hnb
  simp only [e1, e3, hd_cons, List.tail_cons, h42, hp, dropWhile42_cons42, hnb, hx, e2,
    Bool.false_eq_true, if_false, if_true, Bool.not_true, beq_self_eq_true, Bool.and_false, Bool.false_and]
  simp

/-- path mode: a run of stars at a boundary and at the end of the pattern matches everything that is left -/
theorem dw_run_end {f : Flags} {n : Nat} {prev : Option UInt8} {r t : Bytes}
    (hp : f.pathname = true) (hx : r.dropWhile (· == 42) = []) (hpo : prevOk prev = true) :
    dowild f (n + 1) prev (42 :: 42 :: r) t = .matched := by
  have h42 : Spec.C36.fold f 42 = 42 := by unfold Spec.C36.fold Spec.C36.isUpper; simp
  have e1 : (hd ((42 : UInt8) :: 42 :: r) == 0) = false := rfl
  have e2 : (hd ((42 : UInt8) :: r) == 42) = true := rfl
  conv => lhs; unfold dowild
  simp only [prevOk] at hpo
  simp only [e1, hd_cons, List.tail_cons, h42, hp, dropWhile42_cons42, hx, e2, hpo,
    Bool.false_eq_true, if_false, if_true]
  simp [hd]


/-- `leading_slash_idx.map_or(true, |idx| pattern[idx] == SLASH)` -/
def leadOf (pattern : Bytes) (i : Nat) : Option Bool :=
  if i = 0 then some true else (pattern[i - 1]?).map (· == 47)

/-- `next.map_or(true, |c| c == '/' || (c == '\\' && peek == '/'))` on the bytes behind the run -/
def followsM : Bytes → Bool
  | [] => true
  | c :: x' => c == 47 || (c == 92 && hd x' == 47)

theorem go_run_collapse {m : Mode} {fuel d : Nat} {pattern text : Bytes} {i : Nat} {r : Bytes} {t : Iter}
    (hp : m.noMatchSlash = true) (lead : Bool) (hlead : leadOf pattern i = some lead)
    (hnb : (lead && followsM (r.dropWhile (· == 42))) = false) :
    go m (fuel + 1) d pattern text ⟨i, 42 :: 42 :: r⟩ t =
      go m (fuel + 1) d pattern text
        ⟨i + 1 + (r.length - (r.dropWhile (· == 42)).length), 42 :: r.dropWhile (· == 42)⟩ t := by
  have hl := dropWhile_length_le (fun x => x == 42) r
  have hidx : i + 1 + 1 + (r.length - (r.dropWhile (· == 42)).length)
      = i + 1 + (r.length - (r.dropWhile (· == 42)).length) + 1 := by omega
  have hx42 := hd_dropWhile42 r
  conv => lhs; unfold go
  conv => rhs; unfold go
  simp only [Iter.next, STAR, BACKSLASH, SLASH, lc42, hp, Iter.skipStars, skipStarsAux_eq, List.dropWhile_cons]
  cases hx : r.dropWhile (· == 42) with
  | nil =>
    rw [hx] at hnb
    have hlf : lead = false := by simpa [followsM] using hnb
    subst hlf
    unfold leadOf at hlead
    by_cases hi : i = 0
    · simp [hi] at hlead
    · simp only [hi, if_false] at hlead
      cases hpi : pattern[i - 1]? with
      | none => simp [hpi] at hlead
      | some b =>
        simp [hpi] at hlead
        have hi' : (i == 0) = false := by simpa using hi
        simp [hi', hpi, hlead]
  | cons c x' =>
    rw [hx] at hnb hx42
    have hc42 : c ≠ 42 := by simpa [hd] using hx42
    have hl42 : lc m c ≠ 42 := fun h => hc42 ((lc_special m c).1.mp h)
    have hc47 : (lc m c == 47) = (c == 47) := by
      rw [Bool.eq_iff_iff]; simp [(lc_special m c).2.2.2.2.1]
    have hc92 : (lc m c == 92) = (c == 92) := by
      rw [Bool.eq_iff_iff]; simp [(lc_special m c).2.1]
    have hpk : ∀ k, (Iter.peekCh m ⟨k, x'⟩ == some 47) = (hd x' == 47) := by
      intro k
      cases x' with
      | nil => simp [Iter.peekCh, hd]
      | cons c2 x2 =>
        simp only [Iter.peekCh, hd, List.headD_cons]
        rw [Bool.eq_iff_iff]; simp [(lc_special m c2).2.2.2.2.1]
    unfold leadOf at hlead
    by_cases hi : i = 0
    · simp [hi] at hlead
      subst hlead
      simp only [Bool.true_and, followsM] at hnb
      subst hi
      simp [hl42, hc47, hc92, hpk, hnb, hidx]
      have e : 2 + (r.length - (x'.length + 1)) = 1 + (r.length - (x'.length + 1)) + 1 := by omega
      rw [e]
    · simp only [hi, if_false] at hlead
      have hi' : (i == 0) = false := by simpa using hi
      cases hpi : pattern[i - 1]? with
      | none => simp [hpi] at hlead
      | some b =>
        simp [hpi] at hlead
        subst hlead
        simp only [followsM] at hnb
        simp [hi', hpi, hl42, hc47, hc92, hpk, hnb, hidx]
        have e : i + 1 + 1 + (r.length - (x'.length + 1)) = i + 1 + (r.length - (x'.length + 1)) + 1 := by omega
        rw [e]


/-- path mode: a run of stars at a boundary and at the end of the pattern matches whatever is left -/
theorem go_run_end {m : Mode} {fuel d : Nat} {pattern text : Bytes} {i ti : Nat} {r ts : Bytes}
    (hp : m.noMatchSlash = true) (hlead : leadOf pattern i = some true)
    (hx : r.dropWhile (· == 42) = []) (hti : ts ≠ [] → ti ≤ text.length) :
    go m (fuel + 1) d pattern text ⟨i, 42 :: 42 :: r⟩ ⟨ti, ts⟩ = .matched := by
  conv => lhs; unfold go
  simp only [Iter.next, STAR, BACKSLASH, SLASH, lc42, hp, Iter.skipStars, skipStarsAux_eq, List.dropWhile_cons, hx]
  unfold leadOf at hlead
  by_cases hi : i = 0
  · subst hi
    cases ts with
    | nil => simp [sliceFrom]
    | cons a b => simp [sliceFrom, hti (by simp)]
  · simp only [hi, if_false] at hlead
    have hi' : (i == 0) = false := by simpa using hi
    cases hpi : pattern[i - 1]? with
    | none => simp [hpi] at hlead
    | some b =>
      simp [hpi] at hlead
      cases ts with
      | nil => simp [hi', hpi, hlead, sliceFrom]
      | cons a c => simp [hi', hpi, hlead, sliceFrom, hti (by simp)]


/-- the byte in front of what a bracket expression leaves is its closing `]` -/
theorem spec_bracketLoop_close (f : Flags) (tch : UInt8) :
    ∀ (n : Nat) (pch : UInt8) (rest : Bytes) (prev : UInt8) (matched b : Bool) (r : Bytes),
      Spec.C36.bracketLoop f tch n pch rest prev matched = .done b r → ∃ k, rest.drop k = 93 :: r := by
  intro n
  induction n with
  | zero =>
    intro pch rest prev matched b r h
    unfold Spec.C36.bracketLoop at h
    split at h <;> simp at h
  | succ n ih =>
    intro pch rest prev matched b r h
    unfold Spec.C36.bracketLoop at h
    split at h
    · cases h
    · simp only at h
      split at h
      · cases h
      · rename_i pch' rest' m' hs
        obtain ⟨k, hk⟩ := spec_bracketStep_suffix f tch pch rest prev matched pch' rest' m' hs
        split at h
        · rename_i h93
          injection h with h1 h2
          refine ⟨k, ?_⟩
          rw [← hk, ← h2]
          cases rest' with
          | nil => simp [hd] at h93
          | cons a b' => simp [hd] at h93; rw [h93]; rfl
        · obtain ⟨k2, hk2⟩ := ih _ _ _ _ _ _ h
          exact ⟨_, by rw [← hk2, hk, tail_is_drop, List.drop_drop, List.drop_drop]⟩

theorem spec_bracket_close (f : Flags) (tch : UInt8) (fuel : Nat) (rest : Bytes) (b : Bool) (r : Bytes)
    (h : Spec.C36.bracket f tch fuel rest = .done b r) : ∃ k, rest.drop k = 93 :: r := by
  unfold Spec.C36.bracket at h
  by_cases hneg : ((if (hd rest == 94) = true then (33 : UInt8) else hd rest) == 33) = true
  · simp only [hneg, if_true] at h
    split at h
    · rename_i m r' hl
      injection h with h1 h2
      obtain ⟨k, hk⟩ := spec_bracketLoop_close f tch _ _ _ _ _ _ _ hl
      exact ⟨_, by rw [← h2, ← hk, tail_is_drop, tail_is_drop, List.drop_drop, List.drop_drop]⟩
    · rename_i hne; exact absurd h (by intro e; exact hne _ _ e)
  · simp only [hneg, Bool.false_eq_true, if_false] at h
    split at h
    · rename_i m r' hl
      injection h with h1 h2
      obtain ⟨k, hk⟩ := spec_bracketLoop_close f tch _ _ _ _ _ _ _ hl
      exact ⟨_, by rw [← h2, ← hk, tail_is_drop, List.drop_drop]⟩
    · rename_i hne; exact absurd h (by intro e; exact hne _ _ e)


/-- `/` or `\/` comes next -/
def slashish (x : Bytes) : Bool := hd x == 47 || (hd x == 92 && hd x.tail == 47)

/-- Path mode: no run of two or more stars is a `**/`-style boundary in the middle — i.e. starts at
the beginning or behind a `/` AND is followed by `/` or `\/`. `prev` is the byte in front. -/
def okDSaux (prev : Option UInt8) : Bytes → Bool
  | 42 :: 42 :: r => !(prevOk prev && slashish (r.dropWhile (· == 42))) && okDSaux (some 42) (42 :: r)
  | c :: r => okDSaux (some c) r
  | [] => true

theorem okDSaux_tail {prev : Option UInt8} {c : UInt8} {r : Bytes} (h : okDSaux prev (c :: r) = true) :
    okDSaux (some c) r = true := by
  unfold okDSaux at h
  split at h
  · rename_i heq; simp at heq; obtain ⟨h1, h2⟩ := heq; subst h1 h2; simp at h; exact h.2
  · rename_i heq; simp at heq; obtain ⟨h1, h2⟩ := heq; subst h1 h2; exact h
  · rename_i heq; cases heq

theorem okDSaux_drop {prev : Option UInt8} {l : Bytes} (h : okDSaux prev l = true) :
    ∀ (k : Nat) (b : UInt8) (l' : Bytes), l.drop k = b :: l' → okDSaux (some b) l' = true := by
  intro k
  induction k generalizing prev l with
  | zero => intro b l' e; simp at e; subst e; exact okDSaux_tail h
  | succ k ih =>
    intro b l' e
    cases l with
    | nil => simp at e
    | cons a r => exact ih (okDSaux_tail h) b l' (by simpa using e)

theorem okDSaux_head {p1 p2 : Option UInt8} {c : UInt8} {r : Bytes} (hc : c ≠ 42) :
    okDSaux p1 (c :: r) = okDSaux p2 (c :: r) := by
  unfold okDSaux
  split
  · rename_i heq; simp at heq; exact absurd heq.1 hc
  · rfl
  · rename_i heq; cases heq

theorem okDSaux_nil (p : Option UInt8) : okDSaux p [] = true := by unfold okDSaux; rfl


theorem dropWhile42_idem (r : Bytes) :
    (r.dropWhile (· == 42)).dropWhile (· == 42) = r.dropWhile (· == 42) := by
  have h := hd_dropWhile42 r
  cases hx : r.dropWhile (· == 42) with
  | nil => rfl
  | cons b x' =>
    rw [hx] at h
    have : b ≠ 42 := by simpa [hd] using h
    simp [List.dropWhile_cons, this]

theorem okDSaux_tail2 {prev : Option UInt8} {l : Bytes} (h : okDSaux prev l = true) :
    okDSaux (some (hd l)) l.tail = true := by
  cases l with
  | nil => exact okDSaux_nil _
  | cons a r => exact okDSaux_tail h

theorem okDSaux_dropWhile {prev : Option UInt8} {r : Bytes} (h : okDSaux prev (42 :: 42 :: r) = true) :
    okDSaux (some 42) (r.dropWhile (· == 42)) = true := by
  induction r generalizing prev with
  | nil => exact okDSaux_nil _
  | cons a r' ih =>
    by_cases ha : a = 42
    · subst ha
      rw [dropWhile42_cons42]
      exact ih (okDSaux_tail h)
    · simp only [List.dropWhile_cons, beq_iff_eq, ha, if_false]
      exact okDSaux_tail (okDSaux_tail h)

/-- ABORT_ALL is sound also with runs of stars, as long as none is a `**/` boundary in the middle -/
theorem dowild_abort_sound_p (m : Mode) :
    ∀ (n : Nat) (prev : Option UInt8) (p t : Bytes), okDSaux prev p = true → (∀ c ∈ p, c ≠ 0) → (∀ c ∈ t, c ≠ 0) →
      dowild (flagsOf m) n prev p t = .abortAll →
      ∀ k, dowild (flagsOf m) n prev p (t.drop k) ≠ .matched := by
  intro n
  induction n with
  | zero => intro prev p t _ _ _ h; simp [dowild] at h
  | succ n ih =>
    intro prev p t hds hpn htn hAA k
    have hun : ∀ c ∈ t.drop k, c ≠ 0 := fun c hc => htn c (List.mem_of_mem_drop hc)
    cases p with
    | nil =>
      rw [dw_nil (by intro h; exact htn 0 h rfl)] at hAA
      split at hAA <;> cases hAA
    | cons c rest =>
      have hc0 : c ≠ 0 := hpn c (by simp)
      have hrn : ∀ x ∈ rest, x ≠ 0 := fun x hx => hpn x (by simp [hx])
      have hrds := okDSaux_tail hds
      obtain ⟨s42, s92, s63, s91, s47, s0, s93⟩ := lc_special m c
      by_cases h42 : c = 42
      · -- a star
        subst h42
        have hpf : (flagsOf m).pathname = true ∨ (flagsOf m).pathname = false := by cases (flagsOf m).pathname <;> simp
        have arm : ∀ (prev : Option UInt8) (rest : Bytes), (∀ x ∈ rest, x ≠ 0) → hd rest ≠ 42 →
            okDSaux (some 42) rest = true →
            dowild (flagsOf m) (n + 1) prev (42 :: rest) t = .abortAll →
            dowild (flagsOf m) (n + 1) prev (42 :: rest) (t.drop k) ≠ .matched := by
          intro prev rest hrn hne hrds hAA
          cases rest with
          | nil =>
            rw [dw_star_end] at hAA
            split at hAA <;> cases hAA
          | cons c1 r' =>
            have hc1 : c1 ≠ 42 := by simpa [hd] using hne
            have hc10 : c1 ≠ 0 := hrn c1 (by simp)
            rw [dw_star1 hc10 hc1] at hAA ⊢
            by_cases hj : ((flagsOf m).pathname && c1 == 47) = true
            · simp only [hj, if_true] at hAA ⊢
              cases hs : strchrSlash t with
              | none => rw [hs] at hAA; cases hAA
              | some s =>
                rw [hs] at hAA
                simp only at hAA
                rcases strchr_drop t k with h0 | ⟨s1, s', j, h1, h2, h3⟩
                · rw [h0]; simp
                · rw [hs] at h1; cases h1
                  rw [h2]
                  simp only
                  rw [h3]
                  have hsn : ∀ c ∈ s.tail, c ≠ 0 := by
                    intro c hc
                    obtain ⟨d, hd1⟩ : ∃ d, s = t.drop d := by
                      cases hf : findSlash t with
                      | none => rw [findSlash_none hf] at hs; cases hs
                      | some d => exact ⟨d, by have := (findSlash_some hf).1; rw [hs] at this; cases this; rfl⟩
                    rw [hd1, tail_is_drop, List.drop_drop] at hc
                    exact htn c (List.mem_of_mem_drop hc)
                  have hc47 : c1 = 47 := by simp at hj; exact hj.2
                  exact ih (some 47) r' s.tail (hc47 ▸ okDSaux_tail hrds) (fun x hx => hrn x (by simp [hx])) hsn hAA j
            · simp only [hj, Bool.false_eq_true, if_false] at hAA ⊢
              have hrec : ∀ j, dowild (flagsOf m) n none (c1 :: r') (t.drop j) = .abortAll →
                  ∀ i, dowild (flagsOf m) n none (c1 :: r') (t.drop (j + i)) ≠ .matched := by
                intro j hj' i
                have := ih none (c1 :: r') (t.drop j) (by rw [okDSaux_head (p2 := some 42) hc1]; exact hrds) hrn
                  (fun c hc => htn c (List.mem_of_mem_drop hc)) hj' i
                rwa [List.drop_drop] at this
              exact spec_starLoop_abort (flagsOf m) (fun tx => dowild (flagsOf m) n none (c1 :: r') tx) (c1 :: r')
                (!(flagsOf m).pathname) (by simpa [hd] using fold_ne0 m hc10) t htn (t.length + 1)
                (Spec.C36.fold (flagsOf m) (hd t)) (fold_hd_zero_iff m htn) hAA hrec k
                ((t.drop k).length + 1) (Spec.C36.fold (flagsOf m) (hd (t.drop k))) (fold_hd_zero_iff m hun)
        cases rest with
        | nil => exact arm prev [] (by simp) (by simp [hd]) (okDSaux_nil _) hAA
        | cons a r2 =>
          by_cases ha : a = 42
          · subst ha
            have hxds := okDSaux_dropWhile hds
            have hxn : ∀ c ∈ r2.dropWhile (· == 42), c ≠ 0 := by
              obtain ⟨kx, hkx⟩ := dropWhile_is_drop (· == 42) r2
              intro c hc; rw [hkx] at hc
              exact hrn c (by simp; right; exact List.mem_of_mem_drop hc)
            rcases hpf with hpf | hpf
            · have hh := hds
              unfold okDSaux at hh
              simp only [Bool.and_eq_true, Bool.not_eq_true'] at hh
              by_cases hb : prevOk prev = true ∧ r2.dropWhile (· == 42) = []
              · rw [dw_run_end hpf hb.2 hb.1] at hAA; cases hAA
              · have hnb : (prevOk prev && followsB (r2.dropWhile (· == 42))) = false := by
                  cases hpo : prevOk prev with
                  | false => simp
                  | true =>
                    have hne : r2.dropWhile (· == 42) ≠ [] := fun e => hb ⟨hpo, e⟩
                    have h1 := hh.1
                    rw [hpo] at h1
                    simp only [Bool.true_and] at h1
                    cases hx : r2.dropWhile (· == 42) with
                    | nil => exact absurd hx hne
                    | cons b x' =>
                      have hb0 : b ≠ 0 := by rw [hx] at hxn; exact hxn b (by simp)
                      rw [hx] at h1
                      simp only [slashish, hd, List.headD_cons, List.tail_cons] at h1
                      simp only [followsB, hd, List.headD_cons, List.tail_cons, Bool.true_and]
                      simp [hb0] at h1 ⊢
                      exact h1
                rw [dw_run_collapse (prev' := some 42) hpf hnb] at hAA ⊢
                exact arm (some 42) _ hxn (hd_dropWhile42 r2) hxds hAA
            · -- not path mode: one star
              have e : ∀ t', dowild (flagsOf m) (n + 1) prev (42 :: 42 :: r2) t' =
                  dowild (flagsOf m) (n + 1) (some 42) (42 :: r2.dropWhile (· == 42)) t' := by
                intro t'
                rw [dw_star_np hpf, dw_star_np hpf, dropWhile42_cons42, dropWhile42_idem]
              rw [e] at hAA ⊢
              exact arm (some 42) _ hxn (hd_dropWhile42 r2) hxds hAA
          · exact arm prev (a :: r2) hrn (by simpa [hd] using ha) hrds hAA
      · -- not a star: one text byte is consumed (or the text is exhausted)
        have hc42 : c ≠ 42 := h42
        -- the suffix `t.drop k` is empty, is `t` itself, or starts further down
        cases hu : t.drop k with
        | nil => rw [dw_abort hc0 hc42]; simp
        | cons uc ur =>
          have huc0 : uc ≠ 0 := by rw [hu] at hun; exact hun uc (by simp)
          have hurdrop : ∃ k', t = [] ∨ ur = t.tail.drop k' := by
            cases k with
            | zero => exact ⟨0, Or.inr (by simp at hu; rw [hu]; simp)⟩
            | succ k' =>
              cases t with
              | nil => simp at hu
              | cons tc tr =>
                exact ⟨k' + 1, Or.inr (by
                  simp at hu
                  have := congrArg List.tail hu
                  simp [List.tail_drop] at this
                  simpa using this.symm)⟩
          cases t with
          | nil => simp at hu
          | cons tc tr =>
            have htc0 : tc ≠ 0 := htn tc (by simp)
            have htrn : ∀ c ∈ tr, c ≠ 0 := fun x hx => htn x (by simp [hx])
            obtain ⟨k', hk'⟩ := hurdrop
            have hur : ur = tr.drop k' := by
              rcases hk' with h | h
              · cases h
              · simpa using h
            by_cases h92 : c = 92
            · subst h92
              rw [dw_esc hc0 htc0 (by rw [fold_eq_lc, s92])] at hAA
              rw [dw_esc hc0 huc0 (by rw [fold_eq_lc, s92])]
              split at hAA
              · cases hAA
              · split
                · simp
                · rw [hur]
                  exact ih _ _ _ (okDSaux_tail2 hrds) (fun x hx => hrn x (List.mem_of_mem_tail hx)) htrn hAA k'
            · by_cases h63 : c = 63
              · subst h63
                rw [dw_qm hc0 htc0 (by rw [fold_eq_lc, s63])] at hAA
                rw [dw_qm hc0 huc0 (by rw [fold_eq_lc, s63])]
                split at hAA
                · cases hAA
                · split
                  · simp
                  · rw [hur]
                    exact ih _ _ _ hrds hrn htrn hAA k'
              · by_cases h91 : c = 91
                · subst h91
                  rw [dw_br hc0 htc0 (by rw [fold_eq_lc, s91])] at hAA
                  rw [dw_br hc0 huc0 (by rw [fold_eq_lc, s91])]
                  have hind := spec_bracket_indep (flagsOf m) (Spec.C36.fold (flagsOf m) tc)
                    (Spec.C36.fold (flagsOf m) uc) n rest
                  cases hb : Spec.C36.bracket (flagsOf m) (Spec.C36.fold (flagsOf m) tc) n rest with
                  | abort =>
                    rw [brShape_abort hind hb]; simp
                  | fuel => rw [hb] at hAA; cases hAA
                  | done ok r =>
                    rw [hb] at hAA
                    simp only at hAA
                    obtain ⟨ok', hb'⟩ := brShape_done hind hb
                    rw [hb']
                    simp only
                    split at hAA
                    · cases hAA
                    · split
                      · simp
                      · obtain ⟨j, hj⟩ := spec_bracket_suffix _ _ _ _ _ _ hb
                        rw [hur]
                        obtain ⟨kc, hkc⟩ := spec_bracket_close _ _ _ _ _ _ hb
                        exact ih _ r _ (okDSaux_drop hrds kc 93 r hkc)
                          (fun x hx => hrn x (by rw [hj] at hx; exact List.mem_of_mem_drop hx)) htrn hAA k'
                · rw [dw_lit hc0 htc0 (by rw [fold_eq_lc, Ne, s42]; exact hc42) (by rw [fold_eq_lc, Ne, s92]; exact h92)
                      (by rw [fold_eq_lc, Ne, s63]; exact h63) (by rw [fold_eq_lc, Ne, s91]; exact h91)] at hAA
                  rw [dw_lit hc0 huc0 (by rw [fold_eq_lc, Ne, s42]; exact hc42) (by rw [fold_eq_lc, Ne, s92]; exact h92)
                      (by rw [fold_eq_lc, Ne, s63]; exact h63) (by rw [fold_eq_lc, Ne, s91]; exact h91)]
                  split at hAA
                  · cases hAA
                  · split
                    · simp
                    · rw [hur]
                      exact ih _ _ _ hrds hrn htrn hAA k'


end GixModel.C36
