import GixModel.Lemmas.C14Total
/-
C14 helper lemmas, part 4: on every accepted file (`Accepted`, what `File.new` lets through) all
accessors are total: `id_at`, `commit_at` + the parent iterator, `lookup`; and so are the graph
level functions on a chain of accepted files whose commit count passed `Graph::new`.
-/
namespace GixModel.C14
open GixModel
open GixModel.C09 (readU32 readU64 slice bisect fanBounds lookupWith cmpBytes)

theorem File.idAt_total {f : File} (h : Accepted f) {n pos : Nat} (hn : f.numCommits = some n) (hp : pos < n) :
    ∃ b, f.idAt pos = some b ∧ b.length = 20 := by
  obtain ⟨m, hm, hl, _⟩ := h.sizes
  have : m = n := by rw [File.numCommits, hm] at hn; injection hn
  subst this
  obtain ⟨b, hb, hbl⟩ := slice_ok (d := f.oidl) (p := pos * 20) (l := 20) (by rw [hl]; have : (pos + 1) * 20 ≤ m * 20 := Nat.mul_le_mul_right 20 hp; omega)
  exact ⟨b, by simp only [File.idAt, hn, Option.bind_eq_bind, Option.bind_some, hp, if_true, hb], hbl⟩

theorem Commit.new_total {bytes : Bytes} (h : bytes.length = 36) : ∃ c, Commit.new bytes = some c := by
  obtain ⟨t, ht, _⟩ := slice_ok (d := bytes) (p := 0) (l := 20) (by omega)
  obtain ⟨b1, hb1, l1⟩ := slice_ok (d := bytes) (p := 20) (l := 4) (by omega)
  obtain ⟨b2, hb2, l2⟩ := slice_ok (d := bytes) (p := 24) (l := 4) (by omega)
  obtain ⟨b3, hb3, l3⟩ := slice_ok (d := bytes) (p := 28) (l := 4) (by omega)
  obtain ⟨b4, hb4, l4⟩ := slice_ok (d := bytes) (p := 28) (l := 8) (by omega)
  obtain ⟨v1, hv1, _⟩ := readU32_of_length l1
  obtain ⟨v2, hv2, _⟩ := readU32_of_length l2
  obtain ⟨v3, hv3, _⟩ := readU32_of_length l3
  obtain ⟨v4, hv4⟩ := readU64_of_length l4
  unfold Commit.new
  rw [ht, hb1, hb2, hb3, hb4, Option.bind_some, Option.bind_some, Option.bind_some, Option.bind_some, hv1, hv2, hv3, hv4]
  exact ⟨_, rfl⟩

theorem extraLoop_total : ∀ (fuel : Nat) (tail : Bytes), tail.length < 4 * fuel → ∃ r, extraLoop fuel tail = some r := by
  intro fuel
  induction fuel with
  | zero => intro tail h; omega
  | succ f ih =>
    intro tail h
    unfold extraLoop
    by_cases hs : tail.length < 4
    · rw [if_pos hs]; exact ⟨_, rfl⟩
    · rw [if_neg hs]
      obtain ⟨raw, hraw, _⟩ := readU32_of_length (bs := tail.take 4) (by simp; omega)
      simp only [hraw]
      by_cases hm : raw &&& EXTENDED_EDGES_MASK ≠ 0
      · rw [if_pos hm]; exact ⟨_, rfl⟩
      · rw [if_neg hm]
        obtain ⟨r, hr⟩ := ih (tail.drop 4) (by simp only [List.length_drop]; omega)
        rw [hr]; exact ⟨_, rfl⟩

theorem Commit.parents_total (c : Commit) (edges : Option Bytes) : ∃ r, c.parents edges = some r := by
  unfold Commit.parents
  cases c.parent1 with
  | none => cases c.parent2 <;> exact ⟨_, rfl⟩
  | extra _ => exact ⟨_, rfl⟩
  | pos p1 =>
    cases c.parent2 with
    | none => exact ⟨_, rfl⟩
    | pos _ => exact ⟨_, rfl⟩
    | extra idx =>
      cases edges with
      | none => exact ⟨_, rfl⟩
      | some l =>
        simp only []
        by_cases hi : idx * 4 ≤ l.length
        · rw [if_pos hi]
          obtain ⟨r, hr⟩ := extraLoop_total (l.length + 1) (l.drop (idx * 4)) (by simp only [List.length_drop]; omega)
          rw [hr]; exact ⟨_, rfl⟩
        · rw [if_neg hi]; exact ⟨_, rfl⟩

theorem File.seen_total {f : File} (h : Accepted f) {n pos : Nat} (hn : f.numCommits = some n) (hp : pos < n) :
    ∃ s, f.seen pos = some s := by
  obtain ⟨m, hm, _, hl⟩ := h.sizes
  have : m = n := by rw [File.numCommits, hm] at hn; injection hn
  subst this
  obtain ⟨b, hb, hbl⟩ := slice_ok (d := f.cdat) (p := pos * 36) (l := 36) (by rw [hl]; have : (pos + 1) * 36 ≤ m * 36 := Nat.mul_le_mul_right 36 hp; omega)
  obtain ⟨c, hc⟩ := Commit.new_total hbl
  obtain ⟨⟨ps, e⟩, hr⟩ := Commit.parents_total c f.edges
  simp only [File.seen, File.commitAt, File.commitDataBytes, hn, Option.bind_eq_bind, Option.bind_some, hp, if_true,
    hb, hc, hr]
  exact ⟨_, rfl⟩

/-- a monotone table is ordered between any two indices -/
theorem fanMonotone_le : ∀ (fan : List Nat), fanMonotone fan = true →
    ∀ i j (hi : i ≤ j) (hj : j < fan.length), fan[i]'(by omega) ≤ fan[j] := by
  intro fan
  induction fan with
  | nil => intro _ i j _ hj; simp at hj
  | cons a rest ih =>
    intro hm i j hij hj
    cases rest with
    | nil =>
      have : j = 0 := by simpa using hj
      subst this
      have : i = 0 := by omega
      subst this; exact Nat.le_refl _
    | cons b rest' =>
      simp only [fanMonotone, Bool.and_eq_true, decide_eq_true_eq] at hm
      cases j with
      | zero => have : i = 0 := by omega
                subst this; exact Nat.le_refl _
      | succ j' =>
        cases i with
        | zero =>
          have h0 := ih hm.2 0 j' (by omega) (by simpa using hj)
          simp only [List.getElem_cons_zero, List.getElem_cons_succ] at h0 ⊢
          omega
        | succ i' =>
          have := ih hm.2 i' j' (by omega) (by simpa using hj)
          simpa using this

theorem bisect_total {c : Bytes → Option Ordering} {oidAt : Nat → Option Bytes}
    (hc : ∀ m, ∃ o, c m = some o) :
    ∀ (fuel lo hi : Nat), (∀ i, i < hi → ∃ m, oidAt i = some m) → hi - lo ≤ fuel → hi < 2147483648 →
      ∃ r, bisect c oidAt fuel lo hi = some r ∧ ∀ mid, r = some mid → mid < hi := by
  intro fuel
  induction fuel with
  | zero =>
    intro lo hi _ hf _
    have : ¬ lo < hi := by omega
    exact ⟨none, by simp [bisect, this], by intro mid h; cases h⟩
  | succ fuel ih =>
    intro lo hi hat hf hhi
    by_cases hlt : lo < hi
    · have hsum : lo + hi < C09.U32 := by simp only [C09.U32]; omega
      have hmid : (lo + hi) / 2 < hi := by omega
      obtain ⟨m, hm⟩ := hat _ hmid
      obtain ⟨o, ho⟩ := hc m
      simp only [bisect, hlt, hsum, if_true, hm, ho]
      cases o with
      | lt =>
        obtain ⟨r, hr, hr2⟩ := ih lo ((lo + hi) / 2) (fun i hi' => hat i (by omega)) (by omega) (by omega)
        exact ⟨r, hr, fun mid h => by have := hr2 mid h; omega⟩
      | eq => exact ⟨_, rfl, fun mid h => by injection h with h; omega⟩
      | gt =>
        obtain ⟨r, hr, hr2⟩ := ih ((lo + hi) / 2 + 1) hi hat (by omega) hhi
        exact ⟨r, hr, hr2⟩
    · exact ⟨none, by simp [bisect, hlt], by intro mid h; cases h⟩

theorem File.lookup_total {f : File} (h : Accepted f) {n : Nat} (hn : f.numCommits = some n)
    (hsmall : n < 2147483648) (id : Bytes) (hid : id ≠ []) :
    ∃ r, f.lookup id = some r ∧ ∀ lex, r = some lex → lex < n := by
  obtain ⟨b, t, rfl⟩ : ∃ b t, id = b :: t := by
    cases id with
    | nil => exact absurd rfl hid
    | cons b t => exact ⟨b, t, rfl⟩
  have hb : b.toNat < 256 := b.toNat_lt
  have h255 : f.fan[255]? = some n := hn
  have hn' : f.fan[255]'(by rw [h.fanLen]; omega) = n := by
    rw [List.getElem?_eq_getElem (by rw [h.fanLen]; omega)] at h255; injection h255
  have hhi : f.fan[b.toNat]? = some (f.fan[b.toNat]'(by rw [h.fanLen]; exact hb)) :=
    List.getElem?_eq_getElem (by rw [h.fanLen]; exact hb)
  have hhile : f.fan[b.toNat]'(by rw [h.fanLen]; exact hb) ≤ n := by
    rw [← hn']; exact fanMonotone_le f.fan h.mono _ _ (by omega) (by rw [h.fanLen]; omega)
  have hat : ∀ i, i < f.fan[b.toNat]'(by rw [h.fanLen]; exact hb) → ∃ m, f.idAt i = some m := by
    intro i hi
    obtain ⟨m, hm, _⟩ := File.idAt_total h hn (pos := i) (by omega)
    exact ⟨m, hm⟩
  have hlo : ∃ lo, fanBounds f.fan b.toNat = some (lo, f.fan[b.toNat]'(by rw [h.fanLen]; exact hb)) := by
    unfold fanBounds
    by_cases h0 : b.toNat ≠ 0
    · have : f.fan[b.toNat - 1]? = some (f.fan[b.toNat - 1]'(by rw [h.fanLen]; omega)) :=
        List.getElem?_eq_getElem (by rw [h.fanLen]; omega)
      exact ⟨f.fan[b.toNat - 1]'(by rw [h.fanLen]; omega),
        by simp only [hhi, h0, ne_eq, not_false_eq_true, if_true, this, Option.bind_eq_bind, Option.bind_some]⟩
    · exact ⟨0, by simp only [hhi, h0, if_false, Option.bind_eq_bind, Option.bind_some]⟩
  obtain ⟨lo, hlo⟩ := hlo
  obtain ⟨r, hr, hr2⟩ := bisect_total (c := fun m => some (cmpBytes (b :: t) m)) (oidAt := f.idAt)
    (fun m => ⟨_, rfl⟩) (f.fan[b.toNat]'(by rw [h.fanLen]; exact hb) - lo) lo _ hat (Nat.le_refl _) (by omega)
  refine ⟨r, ?_, fun lex hl => by have := hr2 lex hl; omega⟩
  simp only [File.lookup, lookupWith, List.head?_cons, hlo, Option.bind_eq_bind, Option.bind_some]
  exact hr

/-! ### chains -/

theorem lookupByPos_total : ∀ (files : List File), (∀ f ∈ files, Accepted f) →
    ∀ (ns : List Nat), files.map File.numCommits = ns.map some → ∀ (idx pos : Nat), pos < ns.sum →
      ∃ k p f n, lookupByPos files idx pos = some (idx + k, p) ∧ files[k]? = some f ∧
        f.numCommits = some n ∧ p < n := by
  intro files
  induction files with
  | nil =>
    intro _ ns hns idx pos hp
    cases ns with
    | nil => simp at hp
    | cons _ _ => simp at hns
  | cons f rest ih =>
    intro hacc ns hns idx pos hp
    cases ns with
    | nil => simp at hns
    | cons n ns' =>
      simp only [List.map_cons, List.cons.injEq] at hns
      simp only [List.sum_cons] at hp
      by_cases hlt : pos < n
      · exact ⟨0, pos, f, n, by simp [lookupByPos, hns.1, hlt], rfl, hns.1, hlt⟩
      · obtain ⟨k, p, g, m, h1, h2, h3, h4⟩ := ih (fun x hx => hacc x (by simp [hx])) ns' hns.2 (idx + 1) (pos - n) (by omega)
        refine ⟨k + 1, p, g, m, ?_, by simpa using h2, h3, h4⟩
        simp only [lookupByPos, hns.1, Option.bind_eq_bind, Option.bind_some, hlt, if_false, h1]
        congr 2; omega

theorem lookupById_total (id : Bytes) (hid : id ≠ []) : ∀ (files : List File), (∀ f ∈ files, Accepted f) →
    ∀ (ns : List Nat), files.map File.numCommits = ns.map some → (∀ n ∈ ns, n < 2147483648) →
      ∀ (idx start : Nat), ∃ r, lookupById files idx start id = some r ∧
        ∀ k lex gp, r = some (k, lex, gp) → ∃ j f n, k = idx + j ∧ files[j]? = some f ∧ f.numCommits = some n ∧ lex < n := by
  intro files
  induction files with
  | nil => intro _ ns _ _ idx start; exact ⟨none, rfl, by intro k lex gp h; cases h⟩
  | cons f rest ih =>
    intro hacc ns hns hsm idx start
    cases ns with
    | nil => simp at hns
    | cons n ns' =>
      simp only [List.map_cons, List.cons.injEq] at hns
      obtain ⟨r, hr, hr2⟩ := File.lookup_total (hacc f (by simp)) hns.1 (hsm n (by simp)) id hid
      cases r with
      | some lex =>
        simp only [lookupById, hr, Option.bind_eq_bind, Option.bind_some]
        refine ⟨_, rfl, ?_⟩
        intro k lex' gp h
        injection h with h
        injection h with h1 h2
        injection h2 with h2 h3
        exact ⟨0, f, n, by omega, rfl, hns.1, by rw [← h2]; exact hr2 lex rfl⟩
      | none =>
        obtain ⟨r', hr', hr2'⟩ := ih (fun x hx => hacc x (by simp [hx])) ns' hns.2
          (fun m hm => hsm m (by simp [hm])) (idx + 1) (start + n)
        simp only [lookupById, hr, hns.1, Option.bind_eq_bind, Option.bind_some, hr']
        refine ⟨r', rfl, ?_⟩
        intro k lex gp h
        obtain ⟨j, g, m, h1, h2, h3, h4⟩ := hr2' k lex gp h
        exact ⟨j + 1, g, m, by omega, by simpa using h2, h3, h4⟩

theorem mapM_numCommits : ∀ (files : List File) (ns : List Nat),
    files.mapM File.numCommits = some ns → files.map File.numCommits = ns.map some := by
  intro files
  induction files with
  | nil => intro ns h; simp at h; subst h; rfl
  | cons f rest ih =>
    intro ns h
    rw [List.mapM_cons] at h
    cases hf : f.numCommits with
    | none => rw [hf] at h; cases h
    | some n =>
      rw [hf] at h
      cases hr : rest.mapM File.numCommits with
      | none => rw [hr] at h; cases h
      | some ns' =>
        rw [hr] at h
        simp only [Option.bind_eq_bind, Option.bind_some, Option.pure_def, Option.some.injEq] at h
        subst h
        simp [hf, ih ns' hr]

theorem le_sum_of_mem' : ∀ (ns : List Nat) (n : Nat), n ∈ ns → n ≤ ns.sum := by
  intro ns
  induction ns with
  | nil => intro n h; simp at h
  | cons a rest ih =>
    intro n h
    simp only [List.sum_cons]
    rcases List.mem_cons.mp h with rfl | h
    · omega
    · have := ih n h; omega

end GixModel.C14
