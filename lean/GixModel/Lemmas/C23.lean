import GixModel.Model.C23
/-
C23 — lemmas: the two inductive invariants of the transition system (`InvG` for every interleaving,
`InvW` for well-behaved ones) and the facts about the handler loop.
-/
namespace GixModel.C23

structure InvG (s : State) : Prop where
  own : ∀ a p, s.owner a = some p → s.fs a = true →
    ∃ id e, e.path = a ∧ e.pid = p ∧ (s.reg p id = some (some e) ∨ s.held p id = some e)
  lt : ∀ p id, (s.reg p id ≠ none ∨ s.held p id ≠ none ∨ s.pending p id = true) → id < s.next p
  excl : ∀ p id, s.pending p id = true → s.reg p id = none ∧ s.held p id = none
  heldreg : ∀ p id, s.held p id ≠ none → s.reg p id = none
  ownerBorn : ∀ a p, s.owner a = some p → s.born p = true
  aliveBorn : ∀ p, s.alive p = true → s.born p = true

theorem invG_init : InvG init := by
  constructor <;> simp [init]

theorem invG_visit (sh : Nat → Nat) (p idx : Nat) (s : State) (hi : InvG s) : InvG (visit sh p idx s) := by
  obtain ⟨own, lt, excl, heldreg, ownerBorn, aliveBorn⟩ := hi
  unfold visit
  split
  · exact ⟨own, lt, excl, heldreg, ownerBorn, aliveBorn⟩
  · split
    · rename_i e he
      split
      · rename_i hp
        refine ⟨?_, ?_, ?_, ?_, ?_, ?_⟩
        · intro a q ho hf
          simp only [upd] at ho hf
          by_cases ha : a = e.path
          · simp [ha] at hf
          · simp only [ha, if_false] at ho hf
            obtain ⟨id, e', h1, h2, h3⟩ := own a q ho hf
            refine ⟨id, e', h1, h2, ?_⟩
            simp only [upd2]
            rcases h3 with h3 | h3
            · left
              by_cases hc : q = p ∧ id = idx
              · obtain ⟨rfl, rfl⟩ := hc
                rw [he] at h3
                simp only [Option.some.injEq] at h3
                subst h3
                exact absurd h1.symm ha
              · simp only [hc, if_false]; exact h3
            · right; exact h3
        all_goals (simp only [upd, upd2]; grind)
      · exact ⟨own, lt, excl, heldreg, ownerBorn, aliveBorn⟩
    · exact ⟨own, lt, excl, heldreg, ownerBorn, aliveBorn⟩

set_option maxHeartbeats 1000000 in
theorem invG_step (sh : Nat → Nat) (s s' : State) (e : Event) (hi : InvG s)
    (h : step sh s e = some s') : InvG s' := by
  cases e with
  | sigVisit p idx =>
    simp only [step] at h
    split at h
    · simp only [Option.some.injEq] at h; subst h; exact invG_visit sh p idx s hi
    · simp at h
  | regInsert p id a =>
    obtain ⟨own, lt, excl, heldreg, ownerBorn, aliveBorn⟩ := hi
    simp only [step] at h
    split at h
    · rename_i hg
      simp only [Option.some.injEq] at h; subst h
      refine ⟨?_, ?_, ?_, ?_, ?_, ?_⟩
      · intro b q ho hf
        simp only [upd] at ho hf
        by_cases hb : b = a
        · subst hb
          simp only [if_true, Option.some.injEq] at ho
          subst ho
          exact ⟨id, ⟨b, p⟩, rfl, rfl, Or.inl (by simp [upd2])⟩
        · simp only [hb, if_false] at ho
          obtain ⟨id', e', h1, h2, h3⟩ := own b q ho hf
          refine ⟨id', e', h1, h2, ?_⟩
          simp only [upd2]
          rcases h3 with h3 | h3
          · left
            by_cases hc : q = p ∧ id' = id
            · obtain ⟨rfl, rfl⟩ := hc
              have := (excl q id' hg.2.1).1
              rw [this] at h3; simp at h3
            · simp only [hc, if_false]; exact h3
          · right; exact h3
      all_goals (simp only [upd, upd2]; grind)
    · simp at h
  | fork p c =>
    obtain ⟨own, lt, excl, heldreg, ownerBorn, aliveBorn⟩ := hi
    simp only [step] at h
    split at h
    · rename_i hg
      simp only [Option.some.injEq] at h; subst h
      refine ⟨?_, ?_, ?_, ?_, ?_, ?_⟩
      · intro b q ho hf
        simp only at ho hf
        obtain ⟨id', e', h1, h2, h3⟩ := own b q ho hf
        have hq : q ≠ c := by
          intro hqc; subst hqc
          have := ownerBorn b q ho
          rw [hg.2] at this; simp at this
        refine ⟨id', e', h1, h2, ?_⟩
        simp only [hq, if_false]; exact h3
      all_goals (simp only [upd, upd2]; grind)
    · simp at h
  | _ =>
    obtain ⟨own, lt, excl, heldreg, ownerBorn, aliveBorn⟩ := hi
    simp only [step] at h <;> (repeat' split at h) <;>
    (try simp only [Option.some.injEq, reduceCtorEq] at h) <;> (try subst h) <;>
    constructor <;> (try simp only [upd, upd2]) <;> grind


/-- `p` has entry `e` under `id`, in the registry or taken out by a handle operation -/
def Has (s : State) (p id : Nat) (e : Entry) : Prop :=
  s.reg p id = some (some e) ∨ s.held p id = some e

structure InvW (s : State) : Prop where
  ownEntry : ∀ p id e, Has s p id e → e.pid = p → s.fs e.path = true ∧ s.owner e.path = some p
  uniq : ∀ p id1 id2 e1 e2, Has s p id1 e1 → Has s p id2 e2 → e1.pid = p → e2.pid = p →
      e1.path = e2.path → id1 = id2
  tmpEntry : ∀ p id e, Has s p id e → e.path.isTmp = true
  freshOk : ∀ a p, s.fresh a = some p → s.fs a = true ∧ s.owner a = none ∧ a.isTmp = true
  persDst : ∀ a, s.persisted a = true → a.isTmp = false
  pidBorn : ∀ p id e, Has s p id e → s.born e.pid = true

theorem invW_init : InvW init := by
  constructor <;> simp [init, Has]

/-- Taking an own entry `(p, id, e)` away together with its file (and possibly creating a `dst`
file) keeps `InvW`. -/
theorem invW_remove (s s' : State) (p id : Nat) (e : Entry) (hi : InvW s)
    (hhas : Has s p id e) (hp : e.pid = p)
    (hback : ∀ q j e', Has s' q j e' → Has s q j e' ∧ ¬(q = p ∧ j = id))
    (hfs : ∀ a, a.isTmp = true → a ≠ e.path → s'.fs a = s.fs a)
    (how : ∀ a, a.isTmp = true → a ≠ e.path → s'.owner a = s.owner a)
    (hfresh : s'.fresh = s.fresh) (hborn : s'.born = s.born)
    (hpers : ∀ a, s'.persisted a = true → s.persisted a = true ∨ a.isTmp = false) : InvW s' := by
  obtain ⟨ownEntry, uniq, tmpEntry, freshOk, persDst, pidBorn⟩ := hi
  have hown := ownEntry p id e hhas hp
  have hne : ∀ q j e', Has s q j e' → ¬(q = p ∧ j = id) → e'.pid = q → e'.path ≠ e.path := by
    intro q j e' h hc hq hpath
    have ho := ownEntry q j e' h hq
    rw [hpath, hown.2] at ho
    have hqp : q = p := by simpa using ho.2.symm
    subst hqp
    exact hc ⟨rfl, uniq q j id e' e h hhas hq hp hpath⟩
  refine ⟨?_, ?_, ?_, ?_, ?_, ?_⟩
  · intro q j e' h hq
    obtain ⟨h0, hc⟩ := hback q j e' h
    have h1 := hne q j e' h0 hc hq
    have h2 := tmpEntry q j e' h0
    rw [hfs _ h2 h1, how _ h2 h1]
    exact ownEntry q j e' h0 hq
  · intro q id1 id2 e1 e2 h1 h2
    exact uniq q id1 id2 e1 e2 (hback _ _ _ h1).1 (hback _ _ _ h2).1
  · intro q j e' h; exact tmpEntry q j e' (hback _ _ _ h).1
  · intro a q hf
    rw [hfresh] at hf
    have h3 := freshOk a q hf
    have hne : a ≠ e.path := by
      intro h; rw [h, hown.2] at h3; simp at h3
    rw [hfs _ h3.2.2 hne, how _ h3.2.2 hne]; exact h3
  · intro a ha
    rcases hpers a ha with h | h
    · exact persDst a h
    · exact h
  · intro q j e' h; rw [hborn]; exact pidBorn q j e' (hback _ _ _ h).1

theorem invW_visit (sh : Nat → Nat) (p idx : Nat) (s : State) (hg : InvG s) (hi : InvW s) :
    InvW (visit sh p idx s) := by
  unfold visit
  split
  · exact hi
  · split
    · rename_i e he
      split
      · rename_i hp
        refine invW_remove s _ p idx e hi (Or.inl he) hp ?_ ?_ ?_ rfl rfl ?_
        · intro q j e' h
          unfold Has at h ⊢
          simp only [upd2] at h
          by_cases hc : q = p ∧ j = idx
          · simp only [hc, and_self, if_true] at h
            rcases h with h | h
            · simp at h
            · obtain ⟨rfl, rfl⟩ := hc
              have := hg.heldreg q j (by rw [h]; simp)
              rw [this] at he; simp at he
          · simp only [hc, if_false] at h; exact ⟨h, hc⟩
        · intro a _ hne; simp only [upd, hne, if_false]
        · intro a _ hne; simp only [upd, hne, if_false]
        · intro a h; exact Or.inl h
      · exact hi
    · exact hi


theorem invW_same (s s' : State) (hi : InvW s) (h1 : s'.reg = s.reg) (h2 : s'.held = s.held)
    (h3 : s'.fs = s.fs) (h4 : s'.owner = s.owner) (h5 : s'.fresh = s.fresh)
    (h6 : s'.persisted = s.persisted) (h7 : s'.born = s.born) : InvW s' := by
  obtain ⟨ownEntry, uniq, tmpEntry, freshOk, persDst, pidBorn⟩ := hi
  constructor <;> simp only [Has, h1, h2, h3, h4, h5, h6, h7] <;> assumption

/-- moving entries between `reg` and `held` of the same slot (or dropping an emptied slot) -/
theorem invW_move (s s' : State) (hi : InvW s)
    (hback : ∀ q j e', Has s' q j e' → Has s q j e')
    (h3 : s'.fs = s.fs) (h4 : s'.owner = s.owner) (h5 : s'.fresh = s.fresh)
    (h6 : s'.persisted = s.persisted) (h7 : s'.born = s.born) : InvW s' := by
  obtain ⟨ownEntry, uniq, tmpEntry, freshOk, persDst, pidBorn⟩ := hi
  refine ⟨?_, ?_, ?_, ?_, ?_, ?_⟩
  · intro q j e h; rw [h3, h4]; exact ownEntry q j e (hback _ _ _ h)
  · intro q i j e1 e2 h1 h2; exact uniq q i j e1 e2 (hback _ _ _ h1) (hback _ _ _ h2)
  · intro q j e h; exact tmpEntry q j e (hback _ _ _ h)
  · rw [h3, h4, h5]; exact freshOk
  · rw [h6]; exact persDst
  · intro q j e h; rw [h7]; exact pidBorn q j e (hback _ _ _ h)

set_option maxHeartbeats 1000000 in
theorem invW_step (sh : Nat → Nat) (s s' : State) (e : Event) (hg : InvG s) (hi : InvW s)
    (hwb : wb s e) (h : step sh s e = some s') : InvW s' := by
  cases e with
  | sigVisit p idx =>
    simp only [step] at h
    split at h
    · simp only [Option.some.injEq] at h; subst h; exact invW_visit sh p idx s hg hi
    · simp at h
  | allocId p =>
    simp only [step] at h; split at h
    · simp only [Option.some.injEq] at h; subst h; exact invW_same _ _ hi rfl rfl rfl rfl rfl rfl rfl
    · simp at h
  | opWrite p id =>
    simp only [step] at h; split at h
    · simp only [Option.some.injEq] at h; subst h; exact hi
    · simp at h
  | shardLock p k =>
    simp only [step] at h; split at h
    · simp only [Option.some.injEq] at h; subst h; exact invW_same _ _ hi rfl rfl rfl rfl rfl rfl rfl
    · simp at h
  | shardUnlock p k =>
    simp only [step] at h; split at h
    · simp only [Option.some.injEq] at h; subst h; exact invW_same _ _ hi rfl rfl rfl rfl rfl rfl rfl
    · simp at h
  | exit p =>
    simp only [step] at h; split at h
    · simp only [Option.some.injEq] at h; subst h; exact invW_same _ _ hi rfl rfl rfl rfl rfl rfl rfl
    · simp at h
  | regRemove p id =>
    simp only [step] at h; split at h
    · split at h
      · rename_i e he
        simp only [Option.some.injEq] at h; subst h
        refine invW_move _ _ hi ?_ rfl rfl rfl rfl rfl
        intro q j e' hh
        unfold Has at hh ⊢
        simp only [upd2] at hh
        by_cases hc : q = p ∧ j = id
        · simp only [hc, and_self, if_true, reduceCtorEq, Option.some.injEq, false_or] at hh
          obtain ⟨rfl, rfl⟩ := hc
          subst hh; exact Or.inl he
        · simp only [hc, if_false] at hh; exact hh
      · rename_i he
        simp only [Option.some.injEq] at h; subst h
        refine invW_move _ _ hi ?_ rfl rfl rfl rfl rfl
        intro q j e' hh
        unfold Has at hh ⊢
        simp only [upd2] at hh
        by_cases hc : q = p ∧ j = id
        · obtain ⟨rfl, rfl⟩ := hc
          simp only [and_self, if_true, reduceCtorEq, false_or] at hh
          exact Or.inr hh
        · simp only [hc, if_false] at hh; exact hh
      · simp only [Option.some.injEq] at h; subst h; exact hi
    · simp at h
  | regReinsert p id =>
    simp only [step] at h; split at h
    · split at h
      · rename_i e he
        simp only [Option.some.injEq] at h; subst h
        refine invW_move _ _ hi ?_ rfl rfl rfl rfl rfl
        intro q j e' hh
        unfold Has at hh ⊢
        simp only [upd2] at hh
        by_cases hc : q = p ∧ j = id
        · simp only [hc, and_self, if_true, reduceCtorEq, Option.some.injEq, or_false] at hh
          obtain ⟨rfl, rfl⟩ := hc
          subst hh; exact Or.inr he
        · simp only [hc, if_false] at hh; exact hh
      · simp at h
    · simp at h
  | dropUnlink p id =>
    simp only [step] at h; split at h
    · split at h
      · rename_i e he
        simp only [Option.some.injEq] at h; subst h
        refine invW_remove s _ p id e hi (Or.inr he) (hwb e he) ?_ ?_ ?_ rfl rfl ?_
        · intro q j e' hh
          unfold Has at hh ⊢
          simp only [upd2] at hh
          by_cases hc : q = p ∧ j = id
          · simp only [hc, and_self, if_true, reduceCtorEq, or_false] at hh
            obtain ⟨rfl, rfl⟩ := hc
            have := hg.heldreg q j (by rw [he]; simp)
            rw [this] at hh; simp at hh
          · simp only [hc, if_false] at hh; exact ⟨hh, hc⟩
        · intro a _ hne; simp only [upd, hne, if_false]
        · intro a _ hne; simp only [upd, hne, if_false]
        · intro a h; exact Or.inl h
      · simp at h
    · simp at h
  | persistRename p id t =>
    simp only [step] at h; split at h
    · split at h
      · rename_i e he
        split at h
        · simp only [Option.some.injEq] at h; subst h
          have ht : ∀ a, a.isTmp = true → a ≠ t := by
            intro a ha hat; rw [hat, hwb.1] at ha; simp at ha
          refine invW_remove s _ p id e hi (Or.inr he) (hwb.2 e he) ?_ ?_ ?_ rfl rfl ?_
          · intro q j e' hh
            unfold Has at hh ⊢
            simp only [upd2] at hh
            by_cases hc : q = p ∧ j = id
            · simp only [hc, and_self, if_true, reduceCtorEq, or_false] at hh
              obtain ⟨rfl, rfl⟩ := hc
              have := hg.heldreg q j (by rw [he]; simp)
              rw [this] at hh; simp at hh
            · simp only [hc, if_false] at hh; exact ⟨hh, hc⟩
          · intro a ha hne; simp only [upd, hne, ht a ha, if_false]
          · intro a ha hne; simp only [upd, hne, ht a ha, if_false]
          · intro a h
            simp only [upd] at h
            by_cases hat : a = t
            · right; rw [hat]; exact hwb.1
            · left; simpa [hat] using h
        · simp at h
      · simp at h
    · simp at h
  | fsCreate p a =>
    simp only [step] at h; split at h
    · rename_i hgd
      simp only [Option.some.injEq] at h; subst h
      obtain ⟨ownEntry, uniq, tmpEntry, freshOk, persDst, pidBorn⟩ := hi
      have hne : ∀ q j e, Has s q j e → e.pid = q → e.path ≠ a := by
        intro q j e hh hq hpa
        have := (ownEntry q j e hh hq).1
        rw [hpa, hgd.2] at this; simp at this
      refine ⟨?_, uniq, tmpEntry, ?_, persDst, pidBorn⟩
      · intro q j e hh hq
        have h1 := hne q j e hh hq
        simp only [upd, h1, if_false]
        exact ownEntry q j e hh hq
      · intro b q hf
        simp only [upd] at hf ⊢
        by_cases hb : b = a
        · subst hb; simp only [if_true]; exact ⟨trivial, trivial, hwb⟩
        · simp only [hb, if_false] at hf ⊢; exact freshOk b q hf
    · simp at h
  | regInsert p id a =>
    simp only [step] at h; split at h
    · rename_i hgd
      simp only [Option.some.injEq] at h; subst h
      obtain ⟨ownEntry, uniq, tmpEntry, freshOk, persDst, pidBorn⟩ := hi
      have hfa := freshOk a p hgd.2.2
      have hex := hg.excl p id hgd.2.1
      -- entries of the new state: the new one at (p,id), or an old one elsewhere
      have hback : ∀ q j e, Has { s with reg := upd2 s.reg p id (some (some ⟨a, p⟩)), pending := upd2 s.pending p id false, fresh := upd s.fresh a none, owner := upd s.owner a (some p) } q j e →
          (q = p ∧ j = id ∧ e = ⟨a, p⟩) ∨ (Has s q j e ∧ ¬(q = p ∧ j = id)) := by
        intro q j e hh
        unfold Has at hh ⊢
        simp only [upd2] at hh
        by_cases hc : q = p ∧ j = id
        · simp only [hc, and_self, if_true, Option.some.injEq] at hh
          obtain ⟨rfl, rfl⟩ := hc
          rw [hex.2] at hh
          simp only [reduceCtorEq, or_false] at hh
          exact Or.inl ⟨rfl, rfl, hh.symm⟩
        · simp only [hc, if_false] at hh; exact Or.inr ⟨hh, hc⟩
      have hne : ∀ q j e, Has s q j e → e.pid = q → e.path ≠ a := by
        intro q j e hh hq hpa
        have := (ownEntry q j e hh hq).2
        rw [hpa, hfa.2.1] at this; simp at this
      refine ⟨?_, ?_, ?_, ?_, persDst, ?_⟩
      · intro q j e hh hq
        rcases hback q j e hh with ⟨rfl, rfl, rfl⟩ | ⟨h0, _⟩
        · simp only [upd, if_true]; exact ⟨hfa.1, trivial⟩
        · have h1 := hne q j e h0 hq
          simp only [upd, h1, if_false]
          exact ownEntry q j e h0 hq
      · intro q i j e1 e2 h1 h2 hq1 hq2 hpath
        rcases hback q i e1 h1 with ⟨rfl, rfl, rfl⟩ | ⟨h10, hc1⟩
        · rcases hback q j e2 h2 with ⟨_, rfl, rfl⟩ | ⟨h20, _⟩
          · rfl
          · exact absurd hpath.symm (hne q j e2 h20 hq2)
        · rcases hback q j e2 h2 with ⟨rfl, rfl, rfl⟩ | ⟨h20, _⟩
          · exact absurd hpath (hne q i e1 h10 hq1)
          · exact uniq q i j e1 e2 h10 h20 hq1 hq2 hpath
      · intro q j e hh
        rcases hback q j e hh with ⟨rfl, rfl, rfl⟩ | ⟨h0, _⟩
        · exact hfa.2.2
        · exact tmpEntry q j e h0
      · intro b q hf
        simp only [upd] at hf ⊢
        by_cases hb : b = a
        · simp [hb] at hf
        · simp only [hb, if_false] at hf ⊢; exact freshOk b q hf
      · intro q j e hh
        rcases hback q j e hh with ⟨rfl, rfl, rfl⟩ | ⟨h0, _⟩
        · exact hg.aliveBorn _ hgd.1
        · exact pidBorn q j e h0
    · simp at h
  | fork p c =>
    simp only [step] at h; split at h
    · rename_i hgd
      simp only [Option.some.injEq] at h; subst h
      obtain ⟨ownEntry, uniq, tmpEntry, freshOk, persDst, pidBorn⟩ := hi
      have hback : ∀ q j e, Has { s with born := upd s.born c true, alive := upd s.alive c true, next := upd s.next c (s.next p), pending := fun q j => if q = c then false else s.pending q j, reg := fun q j => if q = c then s.reg p j else s.reg q j, held := fun q j => if q = c then s.held p j else s.held q j, locked := fun q j => if q = c then s.locked p j else s.locked q j } q j e →
          (q = c ∧ Has s p j e) ∨ (q ≠ c ∧ Has s q j e) := by
        intro q j e hh
        unfold Has at hh ⊢
        by_cases hc : q = c
        · simp only [hc, if_true] at hh; exact Or.inl ⟨hc, hh⟩
        · simp only [hc, if_false] at hh; exact Or.inr ⟨hc, hh⟩
      have hnc : ∀ j e, Has s p j e → e.pid ≠ c := by
        intro j e hh hpc
        have := pidBorn p j e hh
        rw [hpc, hgd.2] at this; simp at this
      refine ⟨?_, ?_, ?_, freshOk, persDst, ?_⟩
      · intro q j e hh hq
        rcases hback q j e hh with ⟨rfl, h0⟩ | ⟨_, h0⟩
        · exact absurd hq (hnc j e h0)
        · exact ownEntry q j e h0 hq
      · intro q i j e1 e2 h1 h2 hq1 hq2 hpath
        rcases hback q i e1 h1 with ⟨rfl, h10⟩ | ⟨hc, h10⟩
        · exact absurd hq1 (hnc i e1 h10)
        · rcases hback q j e2 h2 with ⟨rfl, h20⟩ | ⟨_, h20⟩
          · exact absurd rfl hc
          · exact uniq q i j e1 e2 h10 h20 hq1 hq2 hpath
      · intro q j e hh
        rcases hback q j e hh with ⟨_, h0⟩ | ⟨_, h0⟩ <;> exact tmpEntry _ j e h0
      · intro q j e hh
        have : s.born e.pid = true := by
          rcases hback q j e hh with ⟨_, h0⟩ | ⟨_, h0⟩ <;> exact pidBorn _ j e h0
        simp only [upd]; split <;> simp [this]
    · simp at h


/-! handler loop facts, for arbitrary states -/

theorem visit_fs_mono (sh : Nat → Nat) (p idx : Nat) (s : State) (a : Path)
    (h : (visit sh p idx s).fs a = true) : s.fs a = true := by
  unfold visit at h
  split at h
  · exact h
  · split at h
    · split at h
      · simp only [upd] at h; split at h <;> simp_all
      · exact h
    · exact h

theorem visit_frame (sh : Nat → Nat) (p idx : Nat) (s : State) :
    (visit sh p idx s).alive = s.alive ∧ (visit sh p idx s).next = s.next ∧
    (visit sh p idx s).locked = s.locked ∧ (visit sh p idx s).held = s.held ∧
    (visit sh p idx s).born = s.born ∧ (visit sh p idx s).persisted = s.persisted ∧
    (visit sh p idx s).fresh = s.fresh ∧ (visit sh p idx s).pending = s.pending := by
  unfold visit
  split
  · simp
  · split
    · split <;> simp
    · simp

/-- a visit changes at most the visited slot, and only from an own entry to the empty slot -/
theorem visit_reg (sh : Nat → Nat) (p idx : Nat) (s : State) (q j : Nat) :
    (visit sh p idx s).reg q j = s.reg q j ∨
    (q = p ∧ j = idx ∧ (visit sh p idx s).reg q j = some none ∧
      ∃ e, s.reg p idx = some (some e) ∧ e.pid = p ∧ s.locked p (sh idx) = false ∧
        (visit sh p idx s).fs e.path = false) := by
  unfold visit
  split
  · left; rfl
  · rename_i hl
    split
    · rename_i e he
      split
      · rename_i hp
        by_cases hc : q = p ∧ j = idx
        · right
          obtain ⟨rfl, rfl⟩ := hc
          refine ⟨rfl, rfl, by simp [upd2], e, he, hp, by simpa using hl, by simp [upd]⟩
        · left; simp only [upd2, hc, if_false]
      · left; rfl
    · left; rfl

theorem visit_removes (sh : Nat → Nat) (p idx : Nat) (s : State) (e : Entry)
    (hl : s.locked p (sh idx) = false) (he : s.reg p idx = some (some e)) (hp : e.pid = p) :
    (visit sh p idx s).fs e.path = false ∧ (visit sh p idx s).reg p idx = some none := by
  unfold visit
  simp [hl, he, hp, upd, upd2]

/-- what a visit removes from the directory is the file of an own entry of the visited slot -/
theorem visit_removed_is_own (sh : Nat → Nat) (p idx : Nat) (s : State) (a : Path)
    (h1 : s.fs a = true) (h2 : (visit sh p idx s).fs a = false) :
    ∃ e, s.reg p idx = some (some e) ∧ e.pid = p ∧ e.path = a := by
  unfold visit at h2
  split at h2
  · rw [h1] at h2; simp at h2
  · split at h2
    · rename_i e he
      split at h2
      · rename_i hp
        simp only [upd] at h2
        by_cases ha : a = e.path
        · exact ⟨e, he, hp, ha.symm⟩
        · simp only [ha, if_false] at h2; rw [h1] at h2; simp at h2
      · rw [h1] at h2; simp at h2
    · rw [h1] at h2; simp at h2

theorem handlerFrom_fs_mono (sh : Nat → Nat) (p : Nat) (l : List Nat) (s : State) (a : Path)
    (h : (handlerFrom sh p s l).fs a = true) : s.fs a = true := by
  induction l generalizing s with
  | nil => exact h
  | cons i is ih => exact visit_fs_mono sh p i s a (ih _ h)

theorem handlerFrom_frame (sh : Nat → Nat) (p : Nat) (l : List Nat) (s : State) :
    (handlerFrom sh p s l).alive = s.alive ∧ (handlerFrom sh p s l).next = s.next ∧
    (handlerFrom sh p s l).locked = s.locked ∧ (handlerFrom sh p s l).held = s.held ∧
    (handlerFrom sh p s l).born = s.born ∧ (handlerFrom sh p s l).persisted = s.persisted := by
  induction l generalizing s with
  | nil => simp [handlerFrom]
  | cons i is ih =>
    have h1 := visit_frame sh p i s
    have h2 := ih (visit sh p i s)
    simp only [handlerFrom]
    refine ⟨h2.1.trans h1.1, h2.2.1.trans h1.2.1, h2.2.2.1.trans h1.2.2.1, h2.2.2.2.1.trans h1.2.2.2.1,
      h2.2.2.2.2.1.trans h1.2.2.2.2.1, h2.2.2.2.2.2.trans h1.2.2.2.2.2.1⟩

theorem handlerFrom_gone_stays (sh : Nat → Nat) (p : Nat) (l : List Nat) (s : State) (id : Nat)
    (h : s.reg p id = some none) : (handlerFrom sh p s l).reg p id = some none := by
  induction l generalizing s with
  | nil => exact h
  | cons i is ih =>
    apply ih
    rcases visit_reg sh p i s p id with h1 | ⟨_, _, h1, _⟩
    · rw [h1]; exact h
    · exact h1

theorem handlerFrom_removes (sh : Nat → Nat) (p : Nat) (l : List Nat) (s : State) (id : Nat) (e : Entry)
    (hm : id ∈ l) (hl : s.locked p (sh id) = false) (he : s.reg p id = some (some e)) (hp : e.pid = p) :
    (handlerFrom sh p s l).fs e.path = false ∧ (handlerFrom sh p s l).reg p id = some none := by
  induction l generalizing s with
  | nil => simp at hm
  | cons i is ih =>
    simp only [handlerFrom]
    by_cases hi : i = id
    · subst hi
      have hv := visit_removes sh p i s e hl he hp
      refine ⟨?_, handlerFrom_gone_stays sh p is _ i hv.2⟩
      cases hfs : (handlerFrom sh p (visit sh p i s) is).fs e.path with
      | false => rfl
      | true => have := handlerFrom_fs_mono sh p is _ _ hfs; rw [hv.1] at this; simp at this
    · have hm' : id ∈ is := by
        rcases List.mem_cons.mp hm with h | h
        · exact absurd h.symm hi
        · exact h
      apply ih _ hm'
      · rw [(visit_frame sh p i s).2.2.1]; exact hl
      · rcases visit_reg sh p i s p id with h1 | ⟨_, h1, _⟩
        · rw [h1]; exact he
        · exact absurd h1.symm hi

theorem handlerFrom_removed_is_own (sh : Nat → Nat) (p : Nat) (l : List Nat) (s : State) (a : Path)
    (h1 : s.fs a = true) (h2 : (handlerFrom sh p s l).fs a = false) :
    ∃ id e, s.reg p id = some (some e) ∧ e.pid = p ∧ e.path = a := by
  induction l generalizing s with
  | nil => simp only [handlerFrom] at h2; rw [h1] at h2; simp at h2
  | cons i is ih =>
    simp only [handlerFrom] at h2
    cases hv : (visit sh p i s).fs a with
    | false =>
      obtain ⟨e, he⟩ := visit_removed_is_own sh p i s a h1 hv
      exact ⟨i, e, he⟩
    | true =>
      obtain ⟨id, e, he, hp, hpa⟩ := ih _ hv h2
      refine ⟨id, e, ?_, hp, hpa⟩
      rcases visit_reg sh p i s p id with h | ⟨_, _, h, _⟩
      · rw [← h]; exact he
      · rw [h] at he; simp at he

theorem run_append (sh : Nat → Nat) (s : State) (l1 l2 : List Event) :
    run sh s (l1 ++ l2) = (run sh s l1).bind (fun s' => run sh s' l2) := by
  induction l1 generalizing s with
  | nil => simp [run]
  | cons e es ih =>
    simp only [List.cons_append, run]
    cases step sh s e with
    | none => simp
    | some s' => simp [ih]

/-- the uninterrupted handler is a schedule of `sigVisit` events -/
theorem handlerFrom_eq_run (sh : Nat → Nat) (p : Nat) (l : List Nat) (s : State)
    (ha : s.alive p = true) (hl : ∀ i ∈ l, i < s.next p) :
    run sh s (l.map (Event.sigVisit p)) = some (handlerFrom sh p s l) := by
  induction l generalizing s with
  | nil => simp [run, handlerFrom]
  | cons i is ih =>
    have hi : i < s.next p := hl i (by simp)
    simp only [List.map_cons, run, step, ha, hi, and_self, if_true, handlerFrom]
    apply ih
    · rw [(visit_frame sh p i s).1]; exact ha
    · intro j hj; rw [(visit_frame sh p i s).2.1]; exact hl j (by simp [hj])

/-! executable form of the well-behavedness predicate, for concrete schedules (non-vacuity) -/

def wbOk (s : State) : Event → Bool
  | .fsCreate _ a => a.isTmp
  | .persistRename p id t =>
    !t.isTmp && (match s.held p id with | some e => e.pid == p | none => true)
  | .dropUnlink p id => (match s.held p id with | some e => e.pid == p | none => true)
  | _ => true

theorem wbOk_sound (s : State) (e : Event) (h : wbOk s e = true) : wb s e := by
  cases e with
  | fsCreate p a => exact h
  | persistRename p id t =>
    simp only [wbOk, Bool.and_eq_true, Bool.not_eq_true'] at h
    refine ⟨h.1, ?_⟩
    intro e he; rw [he] at h; simpa using h.2
  | dropUnlink p id =>
    simp only [wbOk] at h
    intro e he; rw [he] at h; simpa using h
  | _ => trivial

def runWB (sh : Nat → Nat) (s : State) : List Event → Option State
  | [] => some s
  | e :: es => if wbOk s e then (match step sh s e with
    | some s' => runWB sh s' es
    | none => none) else none

theorem reachWB_run (sh : Nat → Nat) (l : List Event) (s s' : State) (h0 : ReachWB sh s)
    (h : runWB sh s l = some s') : ReachWB sh s' := by
  induction l generalizing s with
  | nil => simp only [runWB, Option.some.injEq] at h; subst h; exact h0
  | cons e es ih =>
    simp only [runWB] at h
    split at h
    · rename_i hw
      split at h
      · rename_i s2 hs2
        exact ih s2 (ReachWB.step e h0 (wbOk_sound s e hw) hs2) h
      · simp at h
    · simp at h

end GixModel.C23
