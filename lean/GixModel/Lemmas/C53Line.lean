import GixModel.Lemmas.C53Parse
/-
C53 — a physical line of the file: git reads it with its terminator and untrimmed, gitoxide reads
the bstr line trimmed. Blank padding around the core does not change what git parses.
-/
namespace GixModel.C53
open GixModel
open GixModel.Spec.C53 (splitAt1 isSpace dropEndWhile readLineBody readLine Entry)

def restPad (r : Option Bytes) (w2 : Bytes) : Option Bytes :=
  match r with
  | some r => some (r ++ w2)
  | none => if w2.isEmpty then none else some w2

theorem spec_parse_pad (allow : Bool) (w1 t w2 : Bytes) (h1 : isBlank w1 = true) (h2 : isBlank w2 = true) :
    Spec.C53.parseNameAndEmail (w1 ++ (t ++ w2)) allow =
      match Spec.C53.parseNameAndEmail t allow with
      | none => none
      | some (n, e, r) => some (n, e, restPad r w2) := by
  have hw1lt : (60 : UInt8) ∉ w1 := blank_notin 60 lt_not_space h1
  have hw2lt : (60 : UInt8) ∉ w2 := blank_notin 60 lt_not_space h2
  have hw2gt : (62 : UInt8) ∉ w2 := blank_notin 62 gt_not_space h2
  cases hs : splitAt1 60 t with
  | none =>
    rw [spec_parse_none allow hs]
    apply spec_parse_none
    rw [splitAt1_prepend w1 _ hw1lt, splitAt1_append_none w2 hs hw2lt]; rfl
  | some pa =>
    obtain ⟨pre, after⟩ := pa
    have hg : splitAt1 60 (w1 ++ (t ++ w2)) = some (w1 ++ pre, after ++ w2) := by
      rw [splitAt1_prepend w1 _ hw1lt, splitAt1_append_some w2 hs]; rfl
    cases hs2 : splitAt1 62 after with
    | none =>
      rw [spec_parse_open allow hs hs2, spec_parse_open allow hg (splitAt1_append_none w2 hs2 hw2gt)]
    | some er =>
      obtain ⟨em, rest⟩ := er
      rw [spec_parse_pair allow hs hs2, spec_parse_pair allow hg (splitAt1_append_some w2 hs2),
        gitTrim_blank_append w1 pre h1]
      by_cases hc : (!allow && em.isEmpty) = true
      · simp [hc]
      · simp only [hc, Bool.false_eq_true, if_false]
        cases rest with
        | nil =>
          simp only [List.nil_append, List.isEmpty_nil, if_true, restPad]
        | cons b r => simp [restPad]

theorem readLineBody_pad (w1 t w2 : Bytes) (h1 : isBlank w1 = true) (h2 : isBlank w2 = true) :
    readLineBody (w1 ++ (t ++ w2)) = readLineBody t := by
  have hp := spec_parse_pad false w1 t w2 h1 h2
  cases hf : Spec.C53.parseNameAndEmail t false with
  | none =>
    rw [hf] at hp
    rw [readLineBody_first_none hf, readLineBody_first_none hp]
  | some x =>
    obtain ⟨n1, e1, r⟩ := x
    rw [hf] at hp
    simp only at hp
    cases r with
    | none =>
      rw [readLineBody_first_end hf]
      simp only [restPad] at hp
      by_cases hw : w2.isEmpty = true
      · simp only [hw, if_true] at hp
        exact readLineBody_first_end hp
      · simp only [hw, Bool.false_eq_true, if_false] at hp
        have : Spec.C53.parseNameAndEmail w2 true = none :=
          spec_parse_none true (splitAt1_of_notin (blank_notin 60 lt_not_space h2))
        exact readLineBody_first_rest_none hp this
    | some rest =>
      simp only [restPad] at hp
      have hp2 := spec_parse_pad true [] rest w2 rfl h2
      simp only [List.nil_append] at hp2
      cases hf2 : Spec.C53.parseNameAndEmail rest true with
      | none =>
        rw [hf2] at hp2
        rw [readLineBody_first_rest_none hf hf2, readLineBody_first_rest_none hp hp2]
      | some y =>
        obtain ⟨n2, e2, r2⟩ := y
        rw [hf2] at hp2
        simp only at hp2
        rw [readLineBody_first_rest_some hf hf2, readLineBody_first_rest_some hp hp2]

/-- the mapping gitoxide takes from a bstr line -/
def gixEff (l : Bytes) : Option Entry :=
  match lineResult l with
  | .entry e => some e
  | _ => none

/-- the mapping with an effect that git takes from an `fgets` buffer -/
def gitEff (buf : Bytes) : Option Entry := effOfArgs (readLine buf)

/-- the terminators `fgets` leaves on the buffer and `bstr::lines` removes -/
def isTerm (term : Bytes) : Prop := term = [] ∨ term = [10] ∨ term = [13, 10]

theorem term_blank {term : Bytes} (h : isTerm term) : isBlank term = true := by
  rcases h with rfl | rfl | rfl <;> decide

/-- the domain of the line theorem -/
def lineOk (l : Bytes) : Bool := noExotic l && lineClean (gitTrim l)

theorem line_eq (l term : Bytes) (hterm : isTerm term) (hok : lineOk l = true) :
    gixEff l = gitEff (l ++ term) := by
  unfold lineOk at hok
  simp only [Bool.and_eq_true] at hok
  obtain ⟨hx, hc⟩ := hok
  have htb := term_blank hterm
  cases l with
  | nil =>
    have : readLine ([] ++ term) = none := by
      rcases hterm with rfl | rfl | rfl <;> decide
    simp only [gixEff, lineResult, gitEff, this, effOfArgs]
  | cons b r =>
    unfold gixEff gitEff lineResult readLine
    by_cases hb : (b == 35) = true
    · have : b = 35 := by simpa using hb
      subst this
      simp [effOfArgs]
    · have hb' : (b == 35) = false := by simpa using hb
      have hhead : (((b :: r) ++ term).head? == some 35) = false := by
        simp only [List.cons_append, List.head?_cons]
        cases hbb : (some b == some (35 : UInt8)) with
        | false => rfl
        | true =>
          have : b = 35 := by simpa using hbb
          subst this
          simp at hb
      simp only [hb', Bool.false_eq_true, if_false, hhead]
      rw [trim_plain _ hx]
      obtain ⟨w1, w2, hw1, hw2, hl⟩ := gitTrim_decomp (b :: r)
      have hpad : readLineBody ((b :: r) ++ term) = readLineBody (gitTrim (b :: r)) := by
        have hw2t : isBlank (w2 ++ term) = true := by
          unfold isBlank at *
          rw [List.all_append, hw2, htb]; rfl
        have := readLineBody_pad w1 (gitTrim (b :: r)) (w2 ++ term) hw1 hw2t
        rw [← this]
        congr 1
        conv => lhs; rw [hl]
        simp [List.append_assoc]
      rw [hpad]
      have hcore := parseLine_core (gitTrim (b :: r)) (noExotic_gitTrim _ hx) hc
      by_cases hte : (gitTrim (b :: r)).isEmpty = true
      · have h0 : gitTrim (b :: r) = [] := by simpa using hte
        simp only [hte, if_true]
        rw [h0]
        decide
      · simp only [hte, Bool.false_eq_true, if_false]
        rw [← hcore]
        cases parseLine (gitTrim (b :: r)) <;> rfl

end GixModel.C53
