import GixModel.Model.C51
/-
Helper lemmas for C51 (b): the inductive invariant `SInv` of the `in_parallel_with_slice`
transition system (every index below the shared counter is owned by exactly one of: the list of
consume calls, the list of skipped indices, one thread's program counter), preserved by every
atomic action of any thread; the budget argument for early stop; the step bound.
-/
namespace GixModel.C51

def held : Pc → Option Nat
  | Pc.check i => some i
  | Pc.consume i => some i
  | _ => none

structure SInv (s : Sys) : Prop where
  idx_le : s.idx ≤ s.n
  held_lt : ∀ t i, t < s.k → held (s.pcs t) = some i → i < s.idx
  held_inj : ∀ t t' i, t < s.k → t' < s.k → held (s.pcs t) = some i → held (s.pcs t') = some i → t = t'
  cons_nodup : s.consumedIdx.Nodup
  cons_lt : ∀ i ∈ s.consumedIdx, i < s.idx
  cons_not_held : ∀ i ∈ s.consumedIdx, ∀ t, t < s.k → held (s.pcs t) ≠ some i
  skip_nodup : s.skipped.Nodup
  skip_lt : ∀ i ∈ s.skipped, i < s.idx
  skip_not_held : ∀ i ∈ s.skipped, ∀ t, t < s.k → held (s.pcs t) ≠ some i
  cons_skip : ∀ i ∈ s.consumedIdx, i ∉ s.skipped
  cover : ∀ i, i < s.idx → i ∈ s.consumedIdx ∨ i ∈ s.skipped ∨ ∃ t, t < s.k ∧ held (s.pcs t) = some i
  done_ok : ∀ t, t < s.k → s.pcs t = Pc.doneOk → s.stop = true ∨ s.idx = s.n
  done_err : ∀ t, t < s.k → s.pcs t = Pc.doneErr → s.stop = true
  skip_stop : ∀ i ∈ s.skipped, s.stop = true
  err_pc : ∀ c ∈ s.consumed, c.2.2 = false → s.pcs c.1 = Pc.failing ∨ s.pcs c.1 = Pc.doneErr
  cons_thread : ∀ c ∈ s.consumed, c.1 < s.k
  err_has : ∀ t, t < s.k → s.pcs t = Pc.failing ∨ s.pcs t = Pc.doneErr → ∃ c ∈ s.consumed, c.1 = t ∧ c.2.2 = false

theorem step_inv (s s' : Sys) (e : Ev) (h : SInv s) (hs : step s e = some s') : SInv s' := by
  obtain ⟨h1, h2, h3, h4, h5, h6, h7, h8, h9, h10, h11, h12, h13, h14, h15, h16, h17⟩ := h
  cases e with
  | fetch t =>
    simp only [step] at hs
    split at hs
    · split at hs
      · simp only [Option.some.injEq] at hs
        subst hs
        constructor <;> simp only [Sys.consumedIdx, setPc] at * <;> grind [held]
      · simp only [Option.some.injEq] at hs
        subst hs
        constructor <;> simp only [Sys.consumedIdx, setPc] at * <;> grind [held]
    · cases hs
  | load t =>
    simp only [step] at hs
    split at hs
    · split at hs
      · split at hs
        · simp only [Option.some.injEq] at hs
          subst hs
          constructor <;> simp only [Sys.consumedIdx, setPc] at * <;> grind [held]
        · simp only [Option.some.injEq] at hs
          subst hs
          constructor <;> simp only [Sys.consumedIdx, setPc] at * <;> grind [held]
      · cases hs
    · cases hs
  | consumeOk t =>
    simp only [step] at hs
    split at hs
    · split at hs
      · simp only [Option.some.injEq] at hs
        subst hs
        constructor <;> simp only [Sys.consumedIdx, setPc, List.map_cons] at * <;> grind [held]
      · cases hs
    · cases hs
  | consumeErr t =>
    simp only [step] at hs
    split at hs
    · split at hs
      · rename_i x i heq
        simp only [Option.some.injEq] at hs
        subst hs
        constructor
        case err_has =>
          intro t1 ht1 hp
          simp only [setPc] at hp
          by_cases e : t1 = t
          · subst e; exact ⟨(t1, i, false), by simp, rfl, rfl⟩
          · simp only [e, if_false] at hp
            obtain ⟨c, hc, c1, c2⟩ := h17 t1 ht1 hp
            exact ⟨c, List.mem_cons_of_mem _ hc, c1, c2⟩
        all_goals (simp only [Sys.consumedIdx, setPc, List.map_cons] at * ; grind [held])
      · cases hs
    · cases hs
  | store t =>
    simp only [step] at hs
    split at hs
    · simp only [Option.some.injEq] at hs
      subst hs
      constructor <;> simp only [Sys.consumedIdx, setPc] at * <;> grind [held]
    · cases hs
  | extStop =>
    simp only [step, Option.some.injEq] at hs
    subst hs
    constructor <;> simp only [Sys.consumedIdx] at * <;> grind [held]

theorem inv_init (n k : Nat) : SInv (Sys.init n k) := by
  constructor <;> simp [Sys.init, Sys.consumedIdx, held]

theorem step_nk {s s' : Sys} {e : Ev} (hs : step s e = some s') : s'.n = s.n ∧ s'.k = s.k := by
  cases e <;> simp only [step] at hs <;> (repeat' split at hs) <;>
    first
    | (simp only [Option.some.injEq] at hs; subst hs; exact ⟨rfl, rfl⟩)
    | cases hs

theorem run_inv : ∀ (sched : List Ev) (s s' : Sys), SInv s → runSched s sched = some s' →
    SInv s' ∧ s'.n = s.n ∧ s'.k = s.k := by
  intro sched
  induction sched with
  | nil => intro s s' h hr; simp only [runSched, Option.some.injEq] at hr; subst hr; exact ⟨h, rfl, rfl⟩
  | cons e es ih =>
    intro s s' h hr
    simp only [runSched] at hr
    cases hst : step s e with
    | none => simp [hst] at hr
    | some s1 =>
      simp only [hst] at hr
      obtain ⟨a, b, c⟩ := ih s1 s' (step_inv s s1 e h hst) hr
      obtain ⟨d, e'⟩ := step_nk hst
      exact ⟨a, by omega, by omega⟩

/-! ### nothing fails, nobody stops -/

/-- an event that makes something fail or stops the run from outside -/
def Ev.disturbs : Ev → Bool
  | Ev.consumeErr _ => true
  | Ev.extStop => true
  | _ => false

structure Calm (s : Sys) : Prop where
  stop : s.stop = false
  pcs : ∀ t, s.pcs t ≠ Pc.failing ∧ s.pcs t ≠ Pc.doneErr
  oks : ∀ c ∈ s.consumed, c.2.2 = true

theorem step_calm {s s' : Sys} {e : Ev} (h : Calm s) (he : e.disturbs = false) (hs : step s e = some s') : Calm s' := by
  obtain ⟨c1, c2, c3⟩ := h
  cases e with
  | fetch t =>
    simp only [step] at hs
    split at hs
    · split at hs <;> (simp only [Option.some.injEq] at hs; subst hs; constructor <;> simp only [setPc] at * <;> grind)
    · cases hs
  | load t =>
    simp only [step] at hs
    split at hs
    · split at hs
      · split at hs <;> (simp only [Option.some.injEq] at hs; subst hs; constructor <;> simp only [setPc] at * <;> grind)
      · cases hs
    · cases hs
  | consumeOk t =>
    simp only [step] at hs
    split at hs
    · split at hs
      · simp only [Option.some.injEq] at hs; subst hs; constructor <;> simp only [setPc] at * <;> grind
      · cases hs
    · cases hs
  | consumeErr t => simp [Ev.disturbs] at he
  | store t =>
    simp only [step] at hs
    split at hs
    · rename_i hc
      exact absurd hc.2 (c2 t).1
    · cases hs
  | extStop => simp [Ev.disturbs] at he

theorem run_calm : ∀ (sched : List Ev) (s s' : Sys), Calm s → (∀ e ∈ sched, e.disturbs = false) →
    runSched s sched = some s' → Calm s' := by
  intro sched
  induction sched with
  | nil => intro s s' h _ hr; simp only [runSched, Option.some.injEq] at hr; subst hr; exact h
  | cons e es ih =>
    intro s s' h hd hr
    simp only [runSched] at hr
    cases hst : step s e with
    | none => simp [hst] at hr
    | some s1 =>
      simp only [hst] at hr
      exact ih s1 s' (step_calm h (hd e (by simp)) hst) (fun e' he' => hd e' (List.mem_cons_of_mem _ he')) hr

theorem calm_init (n k : Nat) : Calm (Sys.init n k) := by
  constructor <;> simp [Sys.init]

/-! ### early stop: once the flag is set a thread consumes at most the item it already holds -/

def isConsumeBy (t : Nat) : Ev → Bool
  | Ev.consumeOk t' => t' = t
  | Ev.consumeErr t' => t' = t
  | _ => false

/-- how many more items thread `t` may consume once the stop flag is set -/
def budget : Pc → Nat
  | Pc.consume _ => 1
  | _ => 0

theorem step_budget {s s' : Sys} {e : Ev} (t : Nat) (hstop : s.stop = true) (hs : step s e = some s') :
    s'.stop = true ∧ budget (s'.pcs t) + (if isConsumeBy t e then 1 else 0) ≤ budget (s.pcs t) := by
  cases e <;> simp only [step] at hs <;> (repeat' split at hs) <;>
    first
    | (simp only [Option.some.injEq] at hs; subst hs; simp only [setPc, isConsumeBy]; grind [budget])
    | cases hs

theorem run_budget (t : Nat) : ∀ (sched : List Ev) (s s' : Sys), s.stop = true → runSched s sched = some s' →
    (sched.filter (isConsumeBy t)).length ≤ budget (s.pcs t) := by
  intro sched
  induction sched with
  | nil => intro s s' _ _; simp
  | cons e es ih =>
    intro s s' hstop hr
    simp only [runSched] at hr
    cases hst : step s e with
    | none => simp [hst] at hr
    | some s1 =>
      simp only [hst] at hr
      obtain ⟨h1, h2⟩ := step_budget t hstop hst
      have := ih s1 s' h1 hr
      by_cases hc : isConsumeBy t e = true
      · simp only [hc, if_true] at h2
        simp only [List.filter_cons, hc, if_true, List.length_cons]
        omega
      · simp only [hc, Bool.false_eq_true, if_false] at h2
        simp only [List.filter_cons, hc, Bool.false_eq_true, if_false]
        omega

/-! ### termination: every action of a worker uses up some of a bounded measure -/

def weightPc : Pc → Nat
  | Pc.fetch => 1
  | Pc.check _ => 3
  | Pc.consume _ => 2
  | Pc.failing => 1
  | _ => 0

def sumW (pcs : Nat → Pc) : Nat → Nat
  | 0 => 0
  | k + 1 => sumW pcs k + weightPc (pcs k)

def measure (s : Sys) : Nat := 3 * (s.n - s.idx) + sumW s.pcs s.k

theorem sumW_set_ge (pcs : Nat → Pc) (t : Nat) (pc : Pc) : ∀ k, k ≤ t → sumW (setPc pcs t pc) k = sumW pcs k := by
  intro k
  induction k with
  | zero => intro _; rfl
  | succ k ih =>
    intro hk
    have hne : k ≠ t := by omega
    simp only [sumW, ih (by omega), setPc, hne, if_false]

theorem sumW_set (pcs : Nat → Pc) (t : Nat) (pc : Pc) : ∀ k, t < k →
    sumW (setPc pcs t pc) k + weightPc (pcs t) = sumW pcs k + weightPc pc := by
  intro k
  induction k with
  | zero => intro h; omega
  | succ k ih =>
    intro hk
    by_cases hkt : k = t
    · subst hkt
      simp only [sumW, sumW_set_ge pcs k pc k (Nat.le_refl _), setPc, if_true]
      omega
    · have := ih (by omega)
      simp only [sumW, setPc, hkt, if_false] at this ⊢
      omega

def isWorker : Ev → Bool
  | Ev.extStop => false
  | _ => true

theorem step_measure {s s' : Sys} {e : Ev} (hle : s.idx ≤ s.n) (hs : step s e = some s') :
    measure s' + (if isWorker e then 1 else 0) ≤ measure s := by
  cases e with
  | fetch t =>
    simp only [step] at hs
    split at hs
    · rename_i hc
      have := sumW_set s.pcs t
      split at hs
      · simp only [Option.some.injEq] at hs; subst hs
        have := this (Pc.check s.idx) s.k hc.1
        simp only [measure, isWorker, if_true, hc.2, weightPc] at this ⊢
        omega
      · simp only [Option.some.injEq] at hs; subst hs
        have := this Pc.doneOk s.k hc.1
        simp only [measure, isWorker, if_true, hc.2, weightPc] at this ⊢
        omega
    · cases hs
  | load t =>
    simp only [step] at hs
    split at hs
    · rename_i hc
      split at hs
      · rename_i x i heq
        split at hs
        · simp only [Option.some.injEq] at hs; subst hs
          have := sumW_set s.pcs t Pc.doneOk s.k hc
          simp only [measure, isWorker, if_true, heq, weightPc] at this ⊢
          omega
        · simp only [Option.some.injEq] at hs; subst hs
          have := sumW_set s.pcs t (Pc.consume i) s.k hc
          simp only [measure, isWorker, if_true, heq, weightPc] at this ⊢
          omega
      · cases hs
    · cases hs
  | consumeOk t =>
    simp only [step] at hs
    split at hs
    · rename_i hc
      split at hs
      · rename_i x i heq
        simp only [Option.some.injEq] at hs; subst hs
        have := sumW_set s.pcs t Pc.fetch s.k hc
        simp only [measure, isWorker, if_true, heq, weightPc] at this ⊢
        omega
      · cases hs
    · cases hs
  | consumeErr t =>
    simp only [step] at hs
    split at hs
    · rename_i hc
      split at hs
      · rename_i x i heq
        simp only [Option.some.injEq] at hs; subst hs
        have := sumW_set s.pcs t Pc.failing s.k hc
        simp only [measure, isWorker, if_true, heq, weightPc] at this ⊢
        omega
      · cases hs
    · cases hs
  | store t =>
    simp only [step] at hs
    split at hs
    · rename_i hc
      simp only [Option.some.injEq] at hs; subst hs
      have := sumW_set s.pcs t Pc.doneErr s.k hc.1
      simp only [measure, isWorker, if_true, hc.2, weightPc] at this ⊢
      omega
    · cases hs
  | extStop =>
    simp only [step, Option.some.injEq] at hs
    subst hs
    simp [measure, isWorker]

theorem run_measure : ∀ (sched : List Ev) (s s' : Sys), SInv s → runSched s sched = some s' →
    (sched.filter isWorker).length + measure s' ≤ measure s := by
  intro sched
  induction sched with
  | nil => intro s s' _ hr; simp only [runSched, Option.some.injEq] at hr; subst hr; simp
  | cons e es ih =>
    intro s s' h hr
    simp only [runSched] at hr
    cases hst : step s e with
    | none => simp [hst] at hr
    | some s1 =>
      simp only [hst] at hr
      have h1 := step_measure h.idx_le hst
      have h2 := ih s1 s' (step_inv s s1 e h hst) hr
      by_cases hw : isWorker e = true
      · simp only [hw, if_true] at h1
        simp only [List.filter_cons, hw, if_true, List.length_cons]
        omega
      · simp only [hw, Bool.false_eq_true, if_false] at h1
        simp only [List.filter_cons, hw, Bool.false_eq_true, if_false]
        omega

theorem sumW_init (k : Nat) : sumW (fun _ => Pc.fetch) k = k := by
  induction k with
  | zero => rfl
  | succ k ih => simp [sumW, ih, weightPc]

/-- a thread that has not returned can always act -/
theorem progress (s : Sys) (t : Nat) (ht : t < s.k) (hnd : (s.pcs t).isDone = false) :
    ∃ e, isWorker e = true ∧ (step s e).isSome = true := by
  cases hp : s.pcs t with
  | fetch =>
    refine ⟨Ev.fetch t, rfl, ?_⟩
    simp only [step, ht, hp, and_self, if_true]
    split <;> rfl
  | check i =>
    refine ⟨Ev.load t, rfl, ?_⟩
    simp only [step, ht, hp, if_true]
    split <;> rfl
  | consume i => exact ⟨Ev.consumeOk t, rfl, by simp [step, ht, hp]⟩
  | failing => exact ⟨Ev.store t, rfl, by simp [step, ht, hp]⟩
  | doneOk => simp [hp, Pc.isDone] at hnd
  | doneErr => simp [hp, Pc.isDone] at hnd

end GixModel.C51
