import GixModel.Lemmas.C52Casc1
/-
C52 — the cascade: rejection lemmas for the texts `format` writes.
-/
namespace GixModel.C52
open GixModel GixModel.Civil

def shortItems : List Item := [.Y, .lit 45, .m, .lit 45, .d]
def isoTail : List Item := [.lit 32, .H, .lit 58, .M, .lit 58, .S, .lit 32, .z]
def strictTail : List Item := [.lit 84, .H, .lit 58, .M, .lit 58, .S, .zColon]
def wdMonth : List Item := [.a, .lit 32, .b, .lit 32]
def gitoxideTail : List Item := [.d, .lit 32, .Y, .lit 32, .H, .lit 58, .M, .lit 58, .S, .lit 32, .z]
def defaultTail : List Item := [.dNoPad, .lit 32, .H, .lit 58, .M, .lit 58, .S, .lit 32, .Y, .lit 32, .z]

/-- digits, then a non-digit: `parse_number` reads the digits (at most `k` of them) and stops -/
theorem parseNumber_run (k : Nat) (ds : Bytes) (x : UInt8) (r : Bytes) (h1 : 1 ≤ ds.length) (hk : ds.length ≤ k)
    (hd : ds.all isDigit = true) (hx : isDigit x = false) :
    parseNumber k false (ds ++ x :: r) = some (decVal ds, x :: r) := by
  have hx48 : (x == 48) = false := by
    cases h : (x == 48) with
    | false => rfl
    | true => have : x = 48 := by simpa using h
              subst this; simp [isDigit] at hx
  unfold parseNumber
  simp only [Bool.false_eq_true, if_false]
  generalize hzs : ds.takeWhile (· == 48) = zs
  have hsplit : ds = zs ++ ds.dropWhile (· == 48) := by
    rw [← hzs]; exact (List.takeWhile_append_dropWhile (p := (· == 48)) (l := ds)).symm
  generalize hds' : ds.dropWhile (· == 48) = ds' at hsplit
  have hzall : ∀ z ∈ zs, (z == 48) = true := by
    intro z hz; rw [← hzs] at hz; exact mem_takeWhile_p _ _ z hz
  have hlen : zs.length + ds'.length = ds.length := by rw [hsplit, List.length_append]
  -- the zeros found in the first `k` bytes are the leading zeros of `ds`
  have hzeros : ((ds ++ x :: r).take k).takeWhile (· == 48) = zs := by
    have htk : (ds ++ x :: r).take k = ds ++ (x :: r).take (k - ds.length) := by
      rw [List.take_append]
      rw [List.take_of_length_le (by omega)]
    rw [htk, hsplit, List.append_assoc, List.takeWhile_append_of_pos hzall]
    have hstop : (ds' ++ (x :: r).take (k - (zs ++ ds').length)).takeWhile (· == 48) = [] := by
      cases hd' : ds' with
      | nil =>
        cases hq : (x :: r).take (k - (zs ++ []).length) with
        | nil => rfl
        | cons y ys =>
          have : y = x := by
            cases hk' : k - (zs ++ []).length with
            | zero => rw [hk'] at hq; simp at hq
            | succ j => rw [hk'] at hq; simp at hq; exact hq.1.symm
          subst this
          simp [List.takeWhile_cons, hx48]
      | cons y ys =>
        have hy : (y == 48) = false := by
          have : (ds.dropWhile (· == 48)).head? = some y := by rw [hds', hd']; rfl
          cases hyy : (y == 48) with
          | false => rfl
          | true =>
            have h0 := List.head?_dropWhile_not (p := (· == 48)) (l := ds)
            rw [this] at h0
            simp [hyy] at h0
        simp [List.takeWhile_cons, hy]
    rw [hstop, List.append_nil]
  rw [hzeros]
  have hdrop : (ds ++ x :: r).drop zs.length = ds' ++ x :: r := by
    rw [hsplit, List.append_assoc, List.drop_left]
  rw [hdrop]
  have hd' : ds'.all isDigit = true := by
    rw [hsplit, List.all_append, Bool.and_eq_true] at hd; exact hd.2
  have htw : ((ds' ++ x :: r).take (k - zs.length)).takeWhile isDigitB = ds' := by
    have htk : (ds' ++ x :: r).take (k - zs.length) = ds' ++ (x :: r).take (k - zs.length - ds'.length) := by
      rw [List.take_append]
      rw [List.take_of_length_le (by omega)]
    rw [htk]
    have hall : ∀ z ∈ ds', isDigitB z = true := by
      intro z hz; exact List.all_eq_true.mp hd' z hz
    rw [List.takeWhile_append_of_pos hall]
    cases hq : (x :: r).take (k - zs.length - ds'.length) with
    | nil => simp
    | cons y ys =>
      have : y = x := by
        cases hk' : k - zs.length - ds'.length with
        | zero => rw [hk'] at hq; simp at hq
        | succ j => rw [hk'] at hq; simp at hq; exact hq.1.symm
      subst this
      simp [List.takeWhile_cons, isDigitB, hx]
  rw [htw]
  have hne : ¬ zs.length + ds'.length = 0 := by omega
  rw [if_neg hne]
  have hval : decVal ds = decVal ds' := by rw [hsplit]; exact decVal_zeros zs ds' hzall
  rw [hval, List.drop_left]
  rfl

end GixModel.C52

namespace GixModel.C52
open GixModel GixModel.Civil

theorem formats_parsed :
    parseFormat Extracted.dateFmtShort = some shortItems ∧
    parseFormat Extracted.dateFmtIso8601 = some (shortItems ++ isoTail) ∧
    parseFormat Extracted.dateFmtIso8601Strict = some (shortItems ++ strictTail) ∧
    parseFormat Extracted.dateFmtGitoxide = some (wdMonth ++ gitoxideTail) ∧
    parseFormat Extracted.dateFmtDefault = some (wdMonth ++ defaultTail) ∧
    chainOk (shortItems ++ isoTail) = true ∧ chainOk (shortItems ++ strictTail) = true ∧
    chainOk (wdMonth ++ gitoxideTail) = true ∧ chainOk (wdMonth ++ defaultTail) = true ∧
    chainOk shortItems = true := by
  decide

/-- texts that begin with the weekday -/
theorem weekday_text_head (b : Broken) (hb : BrokenOk b) (rest : List Item) :
    ∃ x r, strftime (.a :: rest) b = x :: r ∧ isDigit x = false ∧ x ≠ 45 ∧ x ≠ 43 ∧ x ≠ 49 := by
  rw [strftime_cons]
  have hw := hb.weekday
  have : b.weekday = 0 ∨ b.weekday = 1 ∨ b.weekday = 2 ∨ b.weekday = 3 ∨ b.weekday = 4 ∨ b.weekday = 5 ∨ b.weekday = 6 := by omega
  rcases this with h | h | h | h | h | h | h <;>
    (simp only [fmtItem, h, weekdayNames, List.getD_cons_succ, List.getD_cons_zero, List.cons_append]
     exact ⟨_, _, rfl, by decide, by decide, by decide, by decide⟩)

/-- texts that begin with the year: a digit or `-` -/
theorem year_text_head (b : Broken) (hb : BrokenOk b) (rest : List Item) :
    ∃ x r, strftime (.Y :: rest) b = x :: r ∧ (isDigit x = true ∨ x = 45) := by
  rw [strftime_cons]
  by_cases hneg : b.year < 0
  · exact ⟨45, pad4 b.year.natAbs ++ strftime rest b, by simp [fmtItem, hneg], Or.inr rfl⟩
  · obtain ⟨x, r, hx, hxd, _⟩ := pad2_head (b.year.natAbs / 100) (by have := hb.year; omega)
    exact ⟨x, r ++ pad2 (b.year.natAbs % 100) ++ strftime rest b, by simp [fmtItem, hneg, pad4, hx, List.append_assoc], Or.inl hxd⟩

theorem strptime_fail_first {it : Item} {rest : List Item} {inp : Bytes} (h : parseItem it {} inp = none) :
    strptime (it :: rest) inp = none := by
  simp [strptime, parseItems_fail_first h]

/-- a format that starts with `%Y` rejects a text that starts with a weekday -/
theorem zoned_Y_rejects_weekday_text (fmt : Bytes) (items : List Item) (hpf : parseFormat fmt = some (.Y :: items))
    (b : Broken) (hb : BrokenOk b) (rest : List Item) : parseZoned fmt (strftime (.a :: rest) b) = none := by
  obtain ⟨x, r, hx, hd, h45, h43, _⟩ := weekday_text_head b hb rest
  unfold parseZoned
  rw [hpf, hx]
  simp only [strptime_fail_first (parseItem_Y_nodigit {} x r hd h45 h43), Option.bind]

theorem date_Y_rejects_weekday_text (fmt : Bytes) (items : List Item) (hpf : parseFormat fmt = some (.Y :: items))
    (b : Broken) (hb : BrokenOk b) (rest : List Item) : parseDate fmt (strftime (.a :: rest) b) = none := by
  obtain ⟨x, r, hx, hd, h45, h43, _⟩ := weekday_text_head b hb rest
  unfold parseDate
  rw [hpf, hx]
  simp only [strptime_fail_first (parseItem_Y_nodigit {} x r hd h45 h43)]

/-- the SHORT branch rejects a text that continues after `%Y-%m-%d` -/
theorem date_rejects_longer (b : Broken) (hb : BrokenOk b) (more : List Item) (hch : chainOk (shortItems ++ more) = true)
    (hne : strftime more b ≠ []) : parseDate Extracted.dateFmtShort (strftime (shortItems ++ more) b) = none := by
  unfold parseDate
  rw [formats_parsed.1]
  simp only
  unfold strptime
  rw [parseItems_prefix b hb more shortItems {} hch]
  cases h : strftime more b with
  | nil => exact absurd h hne
  | cons x r => rfl

/-- jiff's RFC 2822 parser rejects a text that starts with a four digit or negative year and `-` -/
theorem rfc_rejects_year_text (b : Broken) (hb : BrokenOk b) (tail : Bytes) :
    parseRfc2822 (fmtItem b .Y ++ 45 :: tail) = none := by
  have hy := hb.year
  by_cases hneg : b.year < 0
  · have h1 : b.year.natAbs / 100 < 100 := by omega
    have h2 : b.year.natAbs % 100 < 100 := by omega
    have htext : fmtItem b .Y ++ 45 :: tail =
        45 :: dig (b.year.natAbs / 100 / 10) :: dig (b.year.natAbs / 100 % 10) ::
          (pad2 (b.year.natAbs % 100) ++ 45 :: tail) := by
      simp [fmtItem, hneg, pad4, pad2_eq _ h1]
    rw [htext]
    have hne : ¬ asciiLower 45 = 115 ∧ ¬ asciiLower 45 = 109 ∧ ¬ asciiLower 45 = 116 ∧ ¬ asciiLower 45 = 119 ∧ ¬ asciiLower 45 = 102 := by
      decide
    have hidx := indexOf3_weekday_none (asciiLower 45) (asciiLower (dig (b.year.natAbs / 100 / 10)))
      (asciiLower (dig (b.year.natAbs / 100 % 10))) hne
    have hlen : ¬ (45 :: dig (b.year.natAbs / 100 / 10) :: dig (b.year.natAbs / 100 % 10) ::
          (pad2 (b.year.natAbs % 100) ++ 45 :: tail)).length < 4 := by
      simp [pad2_length _ h2]; omega
    have hsk : skipWs (45 :: dig (b.year.natAbs / 100 / 10) :: dig (b.year.natAbs / 100 % 10) ::
          (pad2 (b.year.natAbs % 100) ++ 45 :: tail)) = 45 :: dig (b.year.natAbs / 100 / 10) :: dig (b.year.natAbs / 100 % 10) ::
          (pad2 (b.year.natAbs % 100) ++ 45 :: tail) := by
      simp [skipWs, List.dropWhile_cons, isWs2822]
    unfold parseRfc2822
    simp only [List.isEmpty_cons, Bool.false_eq_true, if_false, hsk]
    have : rfcWeekday (45 :: dig (b.year.natAbs / 100 / 10) :: dig (b.year.natAbs / 100 % 10) ::
          (pad2 (b.year.natAbs % 100) ++ 45 :: tail)) = none := by
      unfold rfcWeekday
      simp only [isDigitB, show isDigit 45 = false by decide, Bool.false_eq_true, if_false, hlen, lower3, hidx]
    rw [this]
  · have h1 : b.year.natAbs / 100 < 100 := by omega
    have h2 : b.year.natAbs % 100 < 100 := by omega
    have htext : fmtItem b .Y ++ 45 :: tail =
        dig (b.year.natAbs / 100 / 10) :: dig (b.year.natAbs / 100 % 10) ::
          dig (b.year.natAbs % 100 / 10) :: (dig (b.year.natAbs % 100 % 10) :: 45 :: tail) := by
      simp [fmtItem, hneg, pad4, pad2_eq _ h1, pad2_eq _ h2]
    rw [htext]
    have d1 := dig_facts (b.year.natAbs / 100 / 10) (by omega)
    have d2 := dig_facts (b.year.natAbs / 100 % 10) (by omega)
    have d3 := dig_facts (b.year.natAbs % 100 / 10) (by omega)
    have hws1 := digit_not_ws2822 d1.1
    have hws3 := digit_not_ws2822 d3.1
    unfold parseRfc2822
    simp only [List.isEmpty_cons, Bool.false_eq_true, if_false, skipWs, List.dropWhile_cons, hws1]
    have hwd : rfcWeekday (dig (b.year.natAbs / 100 / 10) :: dig (b.year.natAbs / 100 % 10) ::
          dig (b.year.natAbs % 100 / 10) :: (dig (b.year.natAbs % 100 % 10) :: 45 :: tail)) =
        some (dig (b.year.natAbs / 100 / 10) :: dig (b.year.natAbs / 100 % 10) ::
          dig (b.year.natAbs % 100 / 10) :: (dig (b.year.natAbs % 100 % 10) :: 45 :: tail)) := by
      simp [rfcWeekday, isDigitB, d1.1]
    rw [hwd]
    simp only
    have hday : rfcDay (dig (b.year.natAbs / 100 / 10) :: dig (b.year.natAbs / 100 % 10) ::
          dig (b.year.natAbs % 100 / 10) :: (dig (b.year.natAbs % 100 % 10) :: 45 :: tail)) = none := by
      unfold rfcDay
      simp only [isDigitB, d2.1, if_true, List.headD_cons, List.all_cons, d1.1, List.all_nil, Bool.and_self, Bool.not_true,
        Bool.false_eq_true, if_false, List.drop_succ_cons, List.drop_zero, needWs, hws3]
      split <;> rfl
    rw [hday]

theorem rfcWeekday_blank (w1 w2 w3 : UInt8) (tail : Bytes) (hd : isDigit w1 = false) :
    rfcWeekday (w1 :: w2 :: w3 :: 32 :: tail) = none := by
  unfold rfcWeekday
  simp only [isDigitB, hd, Bool.false_eq_true, if_false, lower3]
  have : ¬ (w1 :: w2 :: w3 :: 32 :: tail).length < 4 := by simp
  rw [if_neg this]
  cases indexOf3 weekdayNames [asciiLower w1, asciiLower w2, asciiLower w3] <;> rfl

/-- … and a text whose weekday is followed by a blank instead of a comma -/
theorem rfc_rejects_weekday_blank (b : Broken) (hb : BrokenOk b) (rest : List Item) :
    parseRfc2822 (strftime (.a :: .lit 32 :: rest) b) = none := by
  rw [strftime_cons, strftime_cons]
  have hw := hb.weekday
  have : b.weekday = 0 ∨ b.weekday = 1 ∨ b.weekday = 2 ∨ b.weekday = 3 ∨ b.weekday = 4 ∨ b.weekday = 5 ∨ b.weekday = 6 := by omega
  rcases this with h | h | h | h | h | h | h <;>
    (simp only [fmtItem, h, weekdayNames, List.getD_cons_succ, List.getD_cons_zero, List.cons_append, List.nil_append]
     unfold parseRfc2822
     simp only [List.isEmpty_cons, Bool.false_eq_true, if_false, skipWs, List.dropWhile_cons,
       show isWs2822 83 = false by decide, show isWs2822 77 = false by decide, show isWs2822 84 = false by decide,
       show isWs2822 87 = false by decide, show isWs2822 70 = false by decide]
     rw [rfcWeekday_blank _ _ _ _ (by decide)])

end GixModel.C52

namespace GixModel.C52
open GixModel GixModel.Civil

theorem parseItem_lit_ws_keep (f : Fields) (x : UInt8) (r : Bytes) (hx : isWs x = false) :
    parseItem (.lit 32) f (x :: r) = some (f, x :: r) := by
  simp [parseItem, show isWs 32 = true by decide, List.dropWhile_cons, hx]

/-- ISO8601's `strptime` rejects the ISO8601_STRICT text (`T` where it wants the hour) -/
theorem iso_rejects_strict (b : Broken) (hb : BrokenOk b) :
    parseZoned Extracted.dateFmtIso8601 (strftime (shortItems ++ strictTail) b) = none := by
  unfold parseZoned
  rw [formats_parsed.2.1]
  simp only
  have hpre := parseItems_prefix b hb strictTail shortItems {} formats_parsed.2.2.2.2.2.2.1
  have htail : ∃ r, strftime strictTail b = 84 :: r :=
    ⟨strftime [.H, .lit 58, .M, .lit 58, .S, .zColon] b, by simp [strictTail, strftime_cons, fmtItem]⟩
  obtain ⟨r, hr⟩ := htail
  have : parseItems (shortItems ++ isoTail) {} (strftime (shortItems ++ strictTail) b) = none := by
    rw [parseItems_append, hpre]
    simp only [hr, isoTail, parseItems, parseItem_lit_ws_keep _ 84 r (by decide), parseItem_H_nodigit _ 84 r (by decide)]
  simp [strptime, this]

theorem natDec_day_digits (n : Nat) (h1 : 1 ≤ n) (h31 : n ≤ 31) :
    1 ≤ (natDec n).length ∧ (natDec n).length ≤ 2 ∧ (natDec n).all isDigit = true ∧ decVal (natDec n) = n := by
  rw [natDec_small n (by omega)]
  by_cases h10 : n < 10
  · have d := dig_facts n h10
    rw [if_pos h10]
    refine ⟨by simp, by simp, by simp [d.1], ?_⟩
    simp [decVal, d.2.1]
  · have d1 := dig_facts (n / 10) (by omega)
    have d2 := dig_facts (n % 10) (by omega)
    rw [if_neg h10]
    refine ⟨by simp, by simp, by simp [d1.1, d2.1], ?_⟩
    simp only [decVal, List.foldl_cons, List.foldl_nil, d1.2.1, d2.2.1]
    omega

/-- GITOXIDE's `strptime` rejects the DEFAULT text (it reads the hour as year and then meets `:`) -/
theorem gitoxide_rejects_default (b : Broken) (hb : BrokenOk b) :
    parseZoned Extracted.dateFmtGitoxide (strftime (wdMonth ++ defaultTail) b) = none := by
  have hd1 := hb.date.2.2.1
  have hd31 : b.day ≤ 31 := Nat.le_trans hb.date.2.2.2 (daysInMonth_le31 _ _)
  unfold parseZoned
  rw [formats_parsed.2.2.2.1]
  simp only
  have hpre := parseItems_prefix b hb defaultTail wdMonth {} formats_parsed.2.2.2.2.2.2.2.2.1
  have hh : b.hour < 100 := by have := hb.hour; omega
  have htail : ∃ r, strftime defaultTail b =
      natDec b.day ++ 32 :: ([dig (b.hour / 10), dig (b.hour % 10)] ++ 58 :: r) := by
    refine ⟨strftime [.M, .lit 58, .S, .lit 32, .Y, .lit 32, .z] b, ?_⟩
    simp [defaultTail, strftime_cons, fmtItem, pad2_eq _ hh]
  obtain ⟨r, hr⟩ := htail
  obtain ⟨l1, l2, ldig, lval⟩ := natDec_day_digits b.day hd1 hd31
  have dh1 := dig_facts (b.hour / 10) (by omega)
  have dh2 := dig_facts (b.hour % 10) (by omega)
  have : parseItems (wdMonth ++ gitoxideTail) {} (strftime (wdMonth ++ defaultTail) b) = none := by
    rw [parseItems_append, hpre]
    simp only [hr]
    -- %d reads the unpadded day
    have hne : (natDec b.day ++ 32 :: ([dig (b.hour / 10), dig (b.hour % 10)] ++ 58 :: r)).isEmpty = false := by
      cases hnd : natDec b.day with
      | nil => rw [hnd] at l1; simp at l1
      | cons _ _ => rfl
    have hd : parseItem .d (applyAll wdMonth b {}) (natDec b.day ++ 32 :: ([dig (b.hour / 10), dig (b.hour % 10)] ++ 58 :: r)) =
        some ({ applyAll wdMonth b {} with day := some b.day }, 32 :: ([dig (b.hour / 10), dig (b.hour % 10)] ++ 58 :: r)) := by
      simp only [parseItem, hne, Bool.false_eq_true, if_false,
        parseNumber_run 2 (natDec b.day) 32 _ l1 l2 ldig (by decide), lval]
      simp [hd1, hd31]
    -- the blank, then %Y reads the two hour digits, the next blank matches nothing, %H meets ':'
    have hsp : parseItem (.lit 32) { applyAll wdMonth b {} with day := some b.day }
        (32 :: ([dig (b.hour / 10), dig (b.hour % 10)] ++ 58 :: r)) =
        some ({ applyAll wdMonth b {} with day := some b.day }, [dig (b.hour / 10), dig (b.hour % 10)] ++ 58 :: r) := by
      simp [parseItem, show isWs 32 = true by decide, List.dropWhile_cons, dh1.2.2.2.1]
    have hos : optSign ([dig (b.hour / 10), dig (b.hour % 10)] ++ 58 :: r) =
        (false, [dig (b.hour / 10), dig (b.hour % 10)] ++ 58 :: r) := by
      unfold optSign
      simp only [List.cons_append, List.nil_append]
      split
      · rename_i h; exact absurd (List.cons.inj h).1 dh1.2.2.2.2.1
      · rename_i h; exact absurd (List.cons.inj h).1 dh1.2.2.2.2.2
      · rfl
    have hY : ∀ f : Fields, (parseItem .Y f ([dig (b.hour / 10), dig (b.hour % 10)] ++ 58 :: r)).map (·.2) = some (58 :: r) := by
      intro f
      have hos' := hos
      have hrun := parseNumber_run 4 [dig (b.hour / 10), dig (b.hour % 10)] 58 r (by simp) (by simp)
        (by simp [dh1.1, dh2.1]) (by decide)
      simp only [List.cons_append, List.nil_append] at hos' hrun ⊢
      simp only [parseItem, List.isEmpty_cons, Bool.false_eq_true, if_false, hos', hrun, Option.map_some]
    have hrest : parseItems [.Y, .lit 32, .H, .lit 58, .M, .lit 58, .S, .lit 32, .z]
        { applyAll wdMonth b {} with day := some b.day } ([dig (b.hour / 10), dig (b.hour % 10)] ++ 58 :: r) = none := by
      have := hY { applyAll wdMonth b {} with day := some b.day }
      cases hp : parseItem .Y { applyAll wdMonth b {} with day := some b.day } ([dig (b.hour / 10), dig (b.hour % 10)] ++ 58 :: r) with
      | none => rw [hp] at this; cases this
      | some p =>
        rw [hp] at this
        simp only [Option.map_some, Option.some.injEq] at this
        obtain ⟨f', r'⟩ := p
        simp only at this
        subst this
        simp only [parseItems, hp, parseItem_lit_ws_keep _ 58 r (by decide), parseItem_H_nodigit _ 58 r (by decide)]
    simp only [gitoxideTail, parseItems, hd, hsp]
    exact hrest
  simp [strptime, this]

end GixModel.C52
