import GixModel.Lemmas.C53Ord
import GixModel.Lemmas.C53Bsearch
import GixModel.Lemmas.C53Utf8
/-
C53 — a vector kept sorted by the folded key and maintained with binary search (gitoxide), and an
association list searched with strcasecmp (the spec of git's string_list), have the same *view*:
`view key xs q` = the element whose key equals `q` ignoring ASCII case.
-/
namespace GixModel.C53
open GixModel

/-- the element stored for `q` (first one whose folded key equals the folded `q`) -/
def view {α : Type} (key : α → Bytes) (xs : List α) (q : Bytes) : Option α :=
  xs.find? (fun x => foldB (key x) == foldB q)

/-- strictly ascending folded keys -/
def Sorted {α : Type} (key : α → Bytes) (xs : List α) : Prop :=
  (xs.map (fun x => foldB (key x))).Pairwise (fun a b => lexCmp a b = .lt)

/-- the comparator handed to `binary_search_by` is "folded key vs folded probe" on this slice -/
def CmpIs {α : Type} (key : α → Bytes) (f : α → Ordering) (xs : List α) (k : Bytes) : Prop :=
  ∀ x ∈ xs, f x = lexCmp (foldB (key x)) (foldB k)

theorem sorted_mono {α : Type} {key : α → Bytes} {f : α → Ordering} {xs : List α} {k : Bytes}
    (hs : Sorted key xs) (hf : CmpIs key f xs k) : Mono f xs := by
  unfold Sorted at hs
  rw [List.pairwise_map] at hs
  unfold Mono
  apply List.Pairwise.imp_of_mem _ hs
  intro a b ha hb hab hfb
  rw [hf a ha]
  rw [hf b hb] at hfb
  exact lexCmp_lt_of_lt_of_ne_gt hab hfb

theorem find?_at {α : Type} (p : α → Bool) :
    ∀ (xs : List α) (i : Nat) (x : α), xs[i]? = some x → p x = true → (∀ a ∈ xs.take i, p a = false) →
      xs.find? p = some x := by
  intro xs
  induction xs with
  | nil => intro i x h; simp at h
  | cons y ys ih =>
    intro i x h hp hbefore
    cases i with
    | zero =>
      simp only [List.getElem?_cons_zero, Option.some.injEq] at h
      subst h
      simp [List.find?_cons, hp]
    | succ j =>
      simp only [List.getElem?_cons_succ] at h
      have hy : p y = false := hbefore y (by simp)
      simp only [List.find?_cons, hy]
      exact ih j x h hp (fun a ha => hbefore a (by simp [List.take_succ_cons, ha]))

theorem find?_none_of_split {α : Type} (p : α → Bool) (xs : List α) (i : Nat)
    (h1 : ∀ a ∈ xs.take i, p a = false) (h2 : ∀ b ∈ xs.drop i, p b = false) : xs.find? p = none := by
  rw [List.find?_eq_none]
  intro x hx
  rw [← List.take_append_drop i xs, List.mem_append] at hx
  rcases hx with h | h
  · simp [h1 x h]
  · simp [h2 x h]

theorem lt_not_match {a b : Bytes} (h : lexCmp a b = .lt) : (a == b) = false := by
  apply beq_eq_false_iff_ne.mpr
  intro hab
  rw [(lexCmp_eq_iff a b).mpr hab] at h
  cases h

theorem gt_not_match {a b : Bytes} (h : lexCmp a b = .gt) : (a == b) = false := by
  apply beq_eq_false_iff_ne.mpr
  intro hab
  rw [(lexCmp_eq_iff a b).mpr hab] at h
  cases h

/-- binary-search lookup = the view -/
theorem lookup_view {α : Type} {key : α → Bytes} {f : α → Ordering} {xs : List α} {k : Bytes}
    (hs : Sorted key xs) (hf : CmpIs key f xs k) :
    (match bsearch f xs with
     | .found i => xs[i]?
     | .insertAt _ => none) = view key xs k := by
  have hM := sorted_mono hs hf
  cases hb : bsearch f xs with
  | found i =>
    obtain ⟨x, hx, hfx⟩ := bsearch_found hb
    have hm := bsearch_found_mono hM hb
    simp only [hx]
    symm
    apply find?_at _ xs i x hx
    · have hxm : x ∈ xs := List.mem_of_getElem? hx
      rw [hf x hxm] at hfx
      simp [(lexCmp_eq_iff _ _).mp hfx]
    · intro a ha
      have hax : a ∈ xs := List.mem_of_mem_take ha
      have := hm.1 a ha
      rw [hf a hax] at this
      exact lt_not_match this
  | insertAt i =>
    have hm := bsearch_insertAt_mono hM hb
    simp only
    symm
    apply find?_none_of_split _ xs i
    · intro a ha
      have := hm.2.1 a ha
      rw [hf a (List.mem_of_mem_take ha)] at this
      exact lt_not_match this
    · intro b hb'
      have := hm.2.2 b hb'
      rw [hf b (List.mem_of_mem_drop hb')] at this
      exact gt_not_match this

theorem modifyAt_map_key {α : Type} (key : α → Bytes) (g : α → α) (hg : ∀ x, key (g x) = key x) :
    ∀ (xs : List α) (i : Nat), (modifyAt xs i g).map key = xs.map key := by
  intro xs
  induction xs with
  | nil => intro i; rfl
  | cons y ys ih =>
    intro i
    cases i with
    | zero => simp [modifyAt, hg]
    | succ j => simp [modifyAt, ih j]

theorem modifyAt_mem {α : Type} (g : α → α) :
    ∀ (xs : List α) (i : Nat) (a : α), a ∈ modifyAt xs i g → a ∈ xs ∨ ∃ x, xs[i]? = some x ∧ a = g x := by
  intro xs
  induction xs with
  | nil => intro i a h; simp [modifyAt] at h
  | cons y ys ih =>
    intro i a h
    cases i with
    | zero =>
      simp only [modifyAt, List.mem_cons] at h
      rcases h with rfl | h
      · right; exact ⟨y, by simp, rfl⟩
      · left; simp [h]
    | succ j =>
      simp only [modifyAt, List.mem_cons] at h
      rcases h with rfl | h
      · left; simp
      · rcases ih j a h with h1 | ⟨x, hx, rfl⟩
        · left; simp [h1]
        · right; exact ⟨x, by simpa using hx, rfl⟩

/-- modifying the first match (key kept): the view of a matching probe is the modified element -/
theorem view_modifyAt_hit {α : Type} (key : α → Bytes) (g : α → α) (hg : ∀ x, key (g x) = key x) (q : Bytes) :
    ∀ (xs : List α) (i : Nat) (x : α), xs[i]? = some x → (foldB (key x) == foldB q) = true →
      (∀ a ∈ xs.take i, (foldB (key a) == foldB q) = false) →
      view key (modifyAt xs i g) q = some (g x) := by
  intro xs
  induction xs with
  | nil => intro i x h; simp at h
  | cons y ys ih =>
    intro i x h hp hbefore
    cases i with
    | zero =>
      simp only [List.getElem?_cons_zero, Option.some.injEq] at h
      subst h
      simp [view, modifyAt, List.find?_cons, hg, hp]
    | succ j =>
      simp only [List.getElem?_cons_succ] at h
      have hy := hbefore y (by simp)
      simp only [view, modifyAt, List.find?_cons, hy]
      exact ih j x h hp (fun a ha => hbefore a (by simp [List.take_succ_cons, ha]))

/-- modifying an element that does not match the probe (before or after) leaves the view alone -/
theorem view_modifyAt_miss {α : Type} (key : α → Bytes) (g : α → α) (hg : ∀ x, key (g x) = key x) (q : Bytes) :
    ∀ (xs : List α) (i : Nat) (x : α), xs[i]? = some x → (foldB (key x) == foldB q) = false →
      view key (modifyAt xs i g) q = view key xs q := by
  intro xs
  induction xs with
  | nil => intro i x h; simp at h
  | cons y ys ih =>
    intro i x h hp
    cases i with
    | zero =>
      simp only [List.getElem?_cons_zero, Option.some.injEq] at h
      subst h
      simp [view, modifyAt, List.find?_cons, hg, hp]
    | succ j =>
      simp only [List.getElem?_cons_succ] at h
      simp only [view, modifyAt, List.find?_cons]
      split
      · rfl
      · exact ih j x h hp

theorem view_insertAt {α : Type} (key : α → Bytes) (xs : List α) (i : Nat) (a : α) (q : Bytes) :
    view key (insertAt xs i a) q =
      match (xs.take i).find? (fun x => foldB (key x) == foldB q) with
      | some x => some x
      | none => if foldB (key a) == foldB q then some a else (xs.drop i).find? (fun x => foldB (key x) == foldB q) := by
  simp only [view, insertAt, List.find?_append, List.find?_cons]
  cases (xs.take i).find? (fun x => foldB (key x) == foldB q) with
  | some x => simp
  | none =>
    simp only [Option.none_or]
    cases h : (foldB (key a) == foldB q) <;> simp

theorem view_split {α : Type} (key : α → Bytes) (xs : List α) (i : Nat) (q : Bytes) :
    view key xs q =
      match (xs.take i).find? (fun x => foldB (key x) == foldB q) with
      | some x => some x
      | none => (xs.drop i).find? (fun x => foldB (key x) == foldB q) := by
  conv => lhs; rw [view, ← List.take_append_drop i xs, List.find?_append]
  cases (xs.take i).find? (fun x => foldB (key x) == foldB q) <;> simp

/-- the shape shared by `Snapshot::merge` (emails) and `EmailEntry::merge` (names) -/
def upsertSorted {α : Type} (f : α → Ordering) (xs : List α) (fresh : α) (upd : α → α) : List α :=
  match bsearch f xs with
  | .found i => modifyAt xs i upd
  | .insertAt i => insertAt xs i fresh

theorem upsertSorted_sorted {α : Type} {key : α → Bytes} {f : α → Ordering} {xs : List α} {k : Bytes}
    (hs : Sorted key xs) (hf : CmpIs key f xs k) (fresh : α) (upd : α → α)
    (hupd : ∀ x, key (upd x) = key x) (hfresh : foldB (key fresh) = foldB k) :
    Sorted key (upsertSorted f xs fresh upd) := by
  have hM := sorted_mono hs hf
  unfold upsertSorted
  cases hb : bsearch f xs with
  | found i =>
    simp only
    unfold Sorted
    have : (modifyAt xs i upd).map (fun x => foldB (key x)) = xs.map (fun x => foldB (key x)) :=
      modifyAt_map_key (fun x => foldB (key x)) upd (fun x => by simp [hupd]) xs i
    rw [this]; exact hs
  | insertAt i =>
    have hm := bsearch_insertAt_mono hM hb
    simp only
    unfold Sorted insertAt
    rw [List.map_append, List.map_cons]
    unfold Sorted at hs
    rw [← List.take_append_drop i xs, List.map_append, List.pairwise_append] at hs
    rw [List.pairwise_append, List.pairwise_cons]
    refine ⟨hs.1, ⟨?_, hs.2.1⟩, ?_⟩
    · intro b hb'
      obtain ⟨y, hy, rfl⟩ := List.mem_map.mp hb'
      have := hm.2.2 y hy
      rw [hf y (List.mem_of_mem_drop hy)] at this
      rw [hfresh]
      exact (lexCmp_gt_iff_lt _ _).mp this
    · intro a ha b hb'
      obtain ⟨x, hx, rfl⟩ := List.mem_map.mp ha
      rcases List.mem_cons.mp hb' with rfl | hb''
      · have := hm.2.1 x hx
        rw [hf x (List.mem_of_mem_take hx)] at this
        rw [hfresh]; exact this
      · exact hs.2.2 _ ha _ hb''

/-- the view after an upsert with key `k` -/
theorem upsertSorted_view {α : Type} {key : α → Bytes} {f : α → Ordering} {xs : List α} {k : Bytes}
    (hs : Sorted key xs) (hf : CmpIs key f xs k) (fresh : α) (upd : α → α)
    (hupd : ∀ x, key (upd x) = key x) (hfresh : foldB (key fresh) = foldB k) (q : Bytes) :
    view key (upsertSorted f xs fresh upd) q =
      if foldB k == foldB q then
        some (match view key xs k with | some x => upd x | none => fresh)
      else view key xs q := by
  have hM := sorted_mono hs hf
  have hlv := lookup_view hs hf
  unfold upsertSorted
  cases hb : bsearch f xs with
  | found i =>
    obtain ⟨x, hx, hfx⟩ := bsearch_found hb
    have hm := bsearch_found_mono hM hb
    rw [hb] at hlv
    simp only at hlv ⊢
    rw [← hlv, hx]
    have hxm : x ∈ xs := List.mem_of_getElem? hx
    rw [hf x hxm] at hfx
    have hxk : foldB (key x) = foldB k := (lexCmp_eq_iff _ _).mp hfx
    by_cases hq : (foldB k == foldB q) = true
    · simp only [hq, if_true]
      apply view_modifyAt_hit key upd hupd q xs i x hx
      · rw [hxk]; exact hq
      · intro a ha
        have := hm.1 a ha
        rw [hf a (List.mem_of_mem_take ha)] at this
        have hkq : foldB k = foldB q := by simpa using hq
        rw [← hkq]
        exact lt_not_match this
    · simp only [hq, Bool.false_eq_true, if_false]
      apply view_modifyAt_miss key upd hupd q xs i x hx
      rw [hxk]; simpa using hq
  | insertAt i =>
    have hm := bsearch_insertAt_mono hM hb
    rw [hb] at hlv
    simp only at hlv ⊢
    rw [← hlv]
    rw [view_insertAt]
    by_cases hq : (foldB k == foldB q) = true
    · have hkq : foldB k = foldB q := by simpa using hq
      simp only [hq, if_true]
      have hnone : (xs.take i).find? (fun x => foldB (key x) == foldB q) = none := by
        rw [List.find?_eq_none]
        intro a ha
        have := hm.2.1 a ha
        rw [hf a (List.mem_of_mem_take ha)] at this
        rw [← hkq]
        simp [lt_not_match this]
      rw [hnone]
      simp [hfresh, hkq]
    · simp only [hq, Bool.false_eq_true, if_false]
      have : (foldB (key fresh) == foldB q) = false := by rw [hfresh]; simpa using hq
      rw [this, view_split key xs i q]
      simp

/-! ### the association list of the spec -/

open GixModel.Spec.C53 (slLookup slUpsert)

theorem slLookup_eq_view {V : Type} (m : List (Bytes × V)) (q : Bytes) :
    slLookup m q = view Prod.fst m q := by
  unfold slLookup view
  congr 1
  funext kv
  exact eqIgnoreCase_iff kv.1 q

theorem slUpsert_view {V : Type} (m : List (Bytes × V)) (k : Bytes) (fresh : V) (upd : V → V) (q : Bytes) :
    view Prod.fst (slUpsert m k fresh upd) q =
      if foldB k == foldB q then
        some (match view Prod.fst m k with | some kv => (kv.1, upd kv.2) | none => (k, upd fresh))
      else view Prod.fst m q := by
  induction m with
  | nil =>
    simp only [slUpsert, view, List.find?_cons, List.find?_nil]
    split <;> simp_all
  | cons kv rest ih =>
    simp only [slUpsert, eqIgnoreCase_iff]
    by_cases hk : (foldB kv.1 == foldB k) = true
    · have hkk : foldB kv.1 = foldB k := by simpa using hk
      have hvk : view Prod.fst (kv :: rest) k = some kv := by simp [view, List.find?_cons, hk]
      rw [if_pos hk, hvk]
      by_cases hq : (foldB k == foldB q) = true
      · have hkq : foldB k = foldB q := by simpa using hq
        have h1 : (foldB kv.1 == foldB q) = true := by rw [hkk]; exact hq
        rw [if_pos hq]
        simp [view, List.find?_cons, h1]
      · have h1 : (foldB kv.1 == foldB q) = false := by rw [hkk]; simpa using hq
        rw [if_neg hq]
        simp [view, List.find?_cons, h1]
    · rw [if_neg hk]
      have hk' : (foldB kv.1 == foldB k) = false := by simpa using hk
      have hvk : view Prod.fst (kv :: rest) k = view Prod.fst rest k := by simp [view, List.find?_cons, hk']
      rw [hvk]
      by_cases hq : (foldB k == foldB q) = true
      · have hkq : foldB k = foldB q := by simpa using hq
        have h1 : (foldB kv.1 == foldB q) = false := by rw [← hkq]; exact hk'
        rw [if_pos hq] at ih ⊢
        rw [← ih]
        simp [view, List.find?_cons, h1]
      · rw [if_neg hq] at ih ⊢
        simp only [view, List.find?_cons] at ih ⊢
        rw [ih]

end GixModel.C53
