import GixModel.Model.C31Neg
/-
C31 — the invariant of the negotiators' shared state and its preservation by the primitive updates.
-/
namespace GixModel.C31.Neg

/-- `Reach o x y`: `y` is `x` or an ancestor of `x` -/
inductive Reach (o : Odb) : Nat → Nat → Prop
  | refl (x : Nat) : Reach o x x
  | step {x p y : Nat} : p ∈ o.parents x → Reach o p y → Reach o x y

theorem Reach.tail {o : Odb} {x y p : Nat} (h : Reach o x y) (hp : p ∈ o.parents y) : Reach o x p := by
  induction h with
  | refl x => exact Reach.step hp (Reach.refl p)
  | step h1 _ ih => exact Reach.step h1 (ih hp)

/-- `id` is an ancestor (or one) of a commit the other side is known to have: one the caller
declared common (`known_common`) or one the server acknowledged -/
def Just (o : Odb) (src : List Nat) (id : Nat) : Prop := ∃ c, c ∈ src ∧ Reach o c id

theorem Just.parent {o : Odb} {src : List Nat} {id p : Nat} (h : Just o src id) (hp : p ∈ o.parents id) :
    Just o src p := by
  obtain ⟨c, hc, hr⟩ := h
  exact ⟨c, hc, hr.tail hp⟩

theorem Just.of_mem {o : Odb} {src : List Nat} {id : Nat} (h : id ∈ src) : Just o src id :=
  ⟨id, h, Reach.refl id⟩

theorem Just.mono {o : Odb} {src src' : List Nat} {id : Nat} (h : Just o src id) (hs : ∀ x, x ∈ src → x ∈ src') :
    Just o src' id := by
  obtain ⟨c, hc, hr⟩ := h
  exact ⟨c, hs c hc, hr⟩

structure Inv (o : Odb) (src : List Nat) (st : St) : Prop where
  /-- only commits of the local object database enter the graph -/
  graphPresent : ∀ id m, st.graph id = some m → o.present id = true
  /-- everything queued is in the graph -/
  revsInGraph : ∀ e, e ∈ st.revs → st.graph e.2.1 ≠ none
  /-- COMMON is only ever put on ancestors of commits the other side has -/
  commonJust : ∀ id m, st.graph id = some m → m.flags.common = true → Just o src id
  /-- COMMON_REF / ADVERTISED mark exactly commits the caller declared common -/
  refJust : ∀ id m, st.graph id = some m → (m.flags.commonRef = true ∨ m.flags.advertised = true) → id ∈ src

theorem Inv.mono {o : Odb} {src src' : List Nat} {st : St} (h : Inv o src st) (hs : ∀ x, x ∈ src → x ∈ src') :
    Inv o src' st :=
  ⟨h.graphPresent, h.revsInGraph, fun id m hm hc => (h.commonJust id m hm hc).mono hs,
    fun id m hm hc => hs _ (h.refJust id m hm hc)⟩

theorem Inv.empty (o : Odb) (src : List Nat) : Inv o src St.empty :=
  ⟨by intro id m h; simp [St.empty] at h, by intro e h; simp [St.empty] at h,
    by intro id m h; simp [St.empty] at h, by intro id m h; simp [St.empty] at h⟩

theorem setMeta_graph_self (st : St) (id : Nat) (m : Meta) : (setMeta st id m).graph id = some m := by
  simp [setMeta]

theorem setMeta_graph_ne (st : St) (id x : Nat) (m : Meta) (h : x ≠ id) : (setMeta st id m).graph x = st.graph x := by
  simp [setMeta, h]

theorem setMeta_revs (st : St) (id : Nat) (m : Meta) : (setMeta st id m).revs = st.revs := rfl

/-- writing the metadata of a commit that is present keeps the invariant if the new flags are
justified -/
theorem Inv.setMeta {o : Odb} {src : List Nat} {st : St} (h : Inv o src st) (id : Nat) (m : Meta)
    (hp : o.present id = true) (hc : m.flags.common = true → Just o src id)
    (hr : (m.flags.commonRef = true ∨ m.flags.advertised = true) → id ∈ src) :
    Inv o src (setMeta st id m) := by
  refine ⟨?_, ?_, ?_, ?_⟩
  · intro x mx hx
    by_cases hxi : x = id
    · subst hxi; exact hp
    · rw [setMeta_graph_ne _ _ _ _ hxi] at hx; exact h.graphPresent x mx hx
  · intro e he
    rw [setMeta_revs] at he
    by_cases hxi : e.2.1 = id
    · rw [hxi, setMeta_graph_self]; simp
    · rw [setMeta_graph_ne _ _ _ _ hxi]; exact h.revsInGraph e he
  · intro x mx hx hcx
    by_cases hxi : x = id
    · subst hxi; rw [setMeta_graph_self] at hx; cases hx; exact hc hcx
    · rw [setMeta_graph_ne _ _ _ _ hxi] at hx; exact h.commonJust x mx hx hcx
  · intro x mx hx hcx
    by_cases hxi : x = id
    · subst hxi; rw [setMeta_graph_self] at hx; cases hx; exact hr hcx
    · rw [setMeta_graph_ne _ _ _ _ hxi] at hx; exact h.refJust x mx hx hcx

theorem Inv.withCounter {o : Odb} {src : List Nat} {st : St} (h : Inv o src st) (n : Int) :
    Inv o src { st with nonCommon := n } :=
  ⟨h.graphPresent, h.revsInGraph, h.commonJust, h.refJust⟩

theorem Inv.withRevs {o : Odb} {src : List Nat} {st : St} (h : Inv o src st) (revs : List (Int × Nat × Nat))
    (hr : ∀ e, e ∈ revs → st.graph e.2.1 ≠ none) : Inv o src { st with revs := revs } :=
  ⟨h.graphPresent, hr, h.commonJust, h.refJust⟩

theorem Inv.push {o : Odb} {src : List Nat} {st : St} (h : Inv o src st) (t : Int) (id : Nat) (n : Int)
    (hg : st.graph id ≠ none) : Inv o src { st with revs := (t, id, 0) :: st.revs, nonCommon := n } := by
  refine ⟨h.graphPresent, ?_, h.commonJust, h.refJust⟩
  intro e he
  rcases List.mem_cons.mp he with h1 | h1
  · subst h1; exact hg
  · exact h.revsInGraph e h1

/-- what `touch` returns -/
theorem touch_some {o : Odb} {st : St} {id : Nat} {f : Meta → Meta} {old new : Meta} {st' : St}
    (h : touch o st id f = some (old, new, st')) :
    new = f old ∧ st' = setMeta st id new ∧ (st.graph id = some old ∨ (st.graph id = none ∧ old = {} ∧ o.present id = true)) := by
  unfold touch at h
  cases hg : st.graph id with
  | some m =>
    simp only [hg, Option.some.injEq, Prod.mk.injEq] at h
    obtain ⟨rfl, rfl, rfl⟩ := h
    exact ⟨rfl, rfl, Or.inl rfl⟩
  | none =>
    simp only [hg] at h
    by_cases hp : o.present id = true
    · simp only [hp, if_true, Option.some.injEq, Prod.mk.injEq] at h
      obtain ⟨rfl, rfl, rfl⟩ := h
      exact ⟨rfl, rfl, Or.inr ⟨rfl, rfl, hp⟩⟩
    · simp [hp] at h

theorem touch_present {o : Odb} {src : List Nat} {st : St} (hinv : Inv o src st) {id : Nat} {f : Meta → Meta}
    {old new : Meta} {st' : St} (h : touch o st id f = some (old, new, st')) : o.present id = true := by
  obtain ⟨_, _, h3⟩ := touch_some h
  rcases h3 with h3 | ⟨_, _, h3⟩
  · exact hinv.graphPresent id old h3
  · exact h3

/-- the flags a commit had before `touch` were justified (or it was new and had none) -/
theorem touch_old_flags {o : Odb} {src : List Nat} {st : St} (hinv : Inv o src st) {id : Nat} {f : Meta → Meta}
    {old new : Meta} {st' : St} (h : touch o st id f = some (old, new, st')) :
    (old.flags.common = true → Just o src id) ∧
      ((old.flags.commonRef = true ∨ old.flags.advertised = true) → id ∈ src) := by
  obtain ⟨_, _, h3⟩ := touch_some h
  rcases h3 with h3 | ⟨_, h3, _⟩
  · exact ⟨hinv.commonJust id old h3, hinv.refJust id old h3⟩
  · subst h3
    refine ⟨?_, ?_⟩
    · intro hc; cases hc
    · intro hc; rcases hc with hc | hc <;> cases hc

theorem touch_graph_ne_none {o : Odb} {st : St} {id : Nat} {f : Meta → Meta} {old new : Meta} {st' : St}
    (h : touch o st id f = some (old, new, st')) : st'.graph id ≠ none := by
  obtain ⟨_, h2, _⟩ := touch_some h
  rw [h2, setMeta_graph_self]; simp

/-- `touch` with an update that only adds justified flags keeps the invariant -/
theorem Inv.touch {o : Odb} {src : List Nat} {st : St} (hinv : Inv o src st) {id : Nat} {f : Meta → Meta}
    {old new : Meta} {st' : St} (h : touch o st id f = some (old, new, st'))
    (hc : new.flags.common = true → old.flags.common = true ∨ Just o src id)
    (hr : (new.flags.commonRef = true ∨ new.flags.advertised = true) →
      (old.flags.commonRef = true ∨ old.flags.advertised = true) ∨ id ∈ src) :
    Inv o src st' := by
  obtain ⟨_, h2, _⟩ := touch_some h
  obtain ⟨ho1, ho2⟩ := touch_old_flags hinv h
  rw [h2]
  apply hinv.setMeta id new (touch_present hinv h)
  · intro hn
    rcases hc hn with h1 | h1
    · exact ho1 h1
    · exact h1
  · intro hn
    rcases hr hn with h1 | h1
    · exact ho2 h1
    · exact h1

/-- `pop` hands out an element of the queue and leaves a part of it -/
theorem popWith_mem {pk : Picker} {q q' : List (Int × Nat × Nat)} {e : Int × Nat × Nat}
    (h : popWith pk q = some (e, q')) : e ∈ q ∧ ∀ x, x ∈ q' → x ∈ q := by
  unfold popWith at h
  cases q with
  | nil => simp at h
  | cons x xs =>
    simp only at h
    split at h
    · rename_i e' hi
      simp only [Option.some.injEq, Prod.mk.injEq] at h
      obtain ⟨rfl, rfl⟩ := h
      exact ⟨List.mem_of_getElem? hi, fun y hy => (List.eraseIdx_sublist _ _).subset hy⟩
    · cases h

end GixModel.C31.Neg
