import GixModel.Lemmas.C02Git
import GixModel.Lemmas.C02Iter
/-
C02 helper lemmas, part 8 (input side): whatever `parseCommit` accepts has the shape
`tree/parents/author/committer/encoding/extra headers/LF/message`, and every piece except the
spelling of the two signatures is what the writer prints for the decoded value.
-/
namespace GixModel.C02
open GixModel GixModel.C01 GixModel.Spec.C02

/-! ### what the primitives consumed -/

theorem stripPrefix_sound : ∀ (p i r : Bytes), stripPrefix p i = some r → i = p ++ r := by
  intro p
  induction p with
  | nil => intro i r h; cases i <;> simp_all [stripPrefix]
  | cons a p ih =>
    intro i r h
    cases i with
    | nil => simp [stripPrefix] at h
    | cons b i =>
      by_cases hab : (a == b) = true
      · simp only [stripPrefix, hab, if_true] at h
        have : a = b := by simpa using hab
        rw [ih i r h, this]; rfl
      · simp [stripPrefix, hab] at h

/-- the rest returned by `p` is a suffix of its input -/
def SuffixP {α : Type} (p : Bytes → PRes α) : Prop := ∀ x a r, p x = .ok a r → r <:+ x

theorem spanTill_snd_suffix (stop : UInt8 → Bool) (i : Bytes) : (spanTill stop i).2 <:+ i :=
  ⟨(spanTill stop i).1, spanTill_concat stop i⟩

theorem takeUpTo_snd_suffix (p : UInt8 → Bool) (n : Nat) (i : Bytes) : (takeUpTo p n i).2 <:+ i :=
  ⟨(takeUpTo p n i).1, takeUpTo_concat p n i⟩

theorem hdr_sound {α : Type} (name : Bytes) (p : Bytes → PRes α) (hp : SuffixP p) (i : Bytes) (a : α) (r : Bytes)
    (h : hdr name p i = .ok a r) :
    ∃ v, i = name ++ 32 :: (v ++ 10 :: r) ∧ p (v ++ 10 :: r) = .ok a (10 :: r) := by
  unfold hdr at h
  split at h
  · simp at h
  · rename_i r0 hs
    have h0 := stripPrefix_sound name i r0 hs
    split at h
    · rename_i r1
      split at h
      · rename_i a' r2 hpr
        obtain ⟨v, hv⟩ := hp _ _ _ hpr
        split at h
        · rename_i r3
          simp only [PRes.ok.injEq] at h
          obtain ⟨rfl, rfl⟩ := h
          refine ⟨v, ?_, ?_⟩
          · rw [h0, ← hv]
          · rw [hv]; exact hpr
        · simp at h
      · simp at h
      · simp at h
    · simp at h

theorem hexHash_sound (x a r : Bytes) (h : hexHash x = .ok a r) :
    x = a ++ r ∧ a.length = 40 ∧ ∀ b ∈ a, isHexLc b = true := by
  unfold hexHash at h
  split at h
  · rename_i hl
    simp only [PRes.ok.injEq] at h
    obtain ⟨rfl, rfl⟩ := h
    exact ⟨(takeUpTo_concat _ _ _).symm, by simpa using hl, takeUpTo_fst_all _ _ _⟩
  · simp at h

theorem hexHash_suffix : SuffixP hexHash := fun x a r h => ⟨a, (hexHash_sound x a r h).1.symm⟩

theorem line1_sound (x a r : Bytes) (h : line1 x = .ok a r) :
    x = a ++ r ∧ a ≠ [] ∧ ∀ b ∈ a, (b == 10) = false := by
  unfold line1 at h
  split at h
  · simp at h
  · rename_i hne
    simp only [PRes.ok.injEq] at h
    obtain ⟨rfl, rfl⟩ := h
    refine ⟨(spanTill_concat _ _).symm, ?_, spanTill_fst_noStop _ _⟩
    intro he
    rw [he] at hne
    exact hne rfl

theorem line1_suffix : SuffixP line1 := fun x a r h => ⟨a, (line1_sound x a r h).1.symm⟩

theorem timeTuple_suffix (x : Bytes) (t : Time) (r : Bytes) (h : timeTuple x = some (t, r)) : r <:+ x := by
  unfold timeTuple at h
  split at h
  · simp at h
  · rename_i secs r1 hsf
    have h0 := (splitFirst_eq 32 x secs r1 hsf).1
    have hx : r1 <:+ x := ⟨secs ++ [32], by rw [h0]; simp⟩
    split at h
    · simp at h
    · simp only at h
      split at h
      · simp at h
      · rename_i minus r2 hsign
        have hr2 : r2 <:+ r1 := by
          split at hsign
          · simp only [Option.some.injEq, Prod.mk.injEq] at hsign
            rw [← hsign.2]; exact spanTill_snd_suffix _ _
          · split at hsign
            · simp only [Option.some.injEq, Prod.mk.injEq] at hsign
              rw [← hsign.2]; exact spanTill_snd_suffix _ _
            · simp at hsign
        split at h
        · simp at h
        · split at h
          · simp at h
          · split at h
            · simp at h
            · split at h
              · simp at h
              · simp only [Option.some.injEq, Prod.mk.injEq] at h
                rw [← h.2]
                exact ((spanTill_snd_suffix _ _).trans ((takeUpTo_snd_suffix _ _ _).trans
                  (takeUpTo_snd_suffix _ _ _))).trans (hr2.trans hx)

theorem identity_suffix : SuffixP identity := by
  intro x a r h
  unfold identity at h
  simp only at h
  split at h
  · simp at h
  · rename_i ne afterGt hl
    have h1 := splitLast_eq 62 _ ne afterGt hl
    have h2 := spanTill_concat (· == 10) x
    generalize (spanTill (· == 10) x).1 = A at *
    generalize (spanTill (· == 10) x).2 = B at *
    split at h
    · simp at h
    · split at h
      · simp only [PRes.ok.injEq] at h
        rw [← h.2]
        refine ⟨ne ++ [62], ?_⟩
        rw [← h2, h1]; simp
      · simp at h

theorem signature_suffix : SuffixP signature := by
  intro x a r h
  unfold signature at h
  split at h
  · simp at h
  · simp at h
  · rename_i name email r0 hid
    have h0 := identity_suffix x _ r0 hid
    simp only at h
    have h1 : optSpace r0 <:+ r0 := by
      unfold optSpace
      split
      · exact List.suffix_cons _ _
      · exact List.suffix_refl _
    generalize optSpace r0 = r1 at h h1
    cases htt : timeTuple r1 with
    | none =>
      simp only [htt, PRes.ok.injEq] at h
      rw [← h.2]; exact h1.trans h0
    | some tr =>
      obtain ⟨t, r2⟩ := tr
      have := timeTuple_suffix _ t r2 htt
      simp only [htt, PRes.ok.injEq] at h
      rw [← h.2]; exact this.trans (h1.trans h0)

/-! ### hex ids -/

def nibOk (b : UInt8) : Bool :=
  match hexNib b with
  | some k => decide (k < 16) && hexD k == b
  | none => false

theorem nib_facts : ∀ n, n < 256 → isHexLc (UInt8.ofNat n) = true → nibOk (UInt8.ofNat n) = true := by
  decide +kernel

theorem nib_of_hexLc (b : UInt8) (h : isHexLc b = true) : ∃ k, hexNib b = some k ∧ k < 16 ∧ hexD k = b := by
  have := nib_facts b.toNat b.toNat_lt (by simpa using h)
  simp only [UInt8.ofNat_toNat] at this
  unfold nibOk at this
  split at this
  · rename_i k hk
    simp only [Bool.and_eq_true, decide_eq_true_eq, beq_iff_eq] at this
    exact ⟨k, hk, this.1, this.2⟩
  · simp at this

/-- a string of 2n lowercase hex digits is the hex form of the id it decodes to -/
theorem unhex_lc : ∀ (n : Nat) (a : Bytes), a.length = 2 * n → (∀ b ∈ a, isHexLc b = true) →
    ∃ id, unhex a = some id ∧ hexBytes id = a ∧ id.length = n := by
  intro n
  induction n with
  | zero =>
    intro a hl _
    have : a = [] := by cases a <;> simp_all
    subst this
    exact ⟨[], rfl, rfl, rfl⟩
  | succ n ih =>
    intro a hl hh
    match a, hl with
    | x :: y :: rest, hl =>
      obtain ⟨kx, hx1, hx2, hx3⟩ := nib_of_hexLc x (hh x (by simp))
      obtain ⟨ky, hy1, hy2, hy3⟩ := nib_of_hexLc y (hh y (by simp))
      obtain ⟨id, h1, h2, h3⟩ := ih rest (by simp only [List.length_cons] at hl; omega)
        (fun b hb => hh b (by simp [hb]))
      refine ⟨UInt8.ofNat (kx * 16 + ky) :: id, ?_, ?_, by simp [h3]⟩
      · simp only [unhex, hx1, hy1, h1]
      · have ht : (UInt8.ofNat (kx * 16 + ky)).toNat = kx * 16 + ky :=
          UInt8.toNat_ofNat_of_lt' (by simp only [UInt8.size]; omega)
        rw [hexBytes_cons, ht, h2]
        have e1 : (kx * 16 + ky) / 16 = kx := by omega
        have e2 : (kx * 16 + ky) % 16 = ky := by omega
        rw [e1, e2, hx3, hy3]

theorem unhexAll_lc (ps : List Bytes) (h : ∀ p ∈ ps, p.length = 40 ∧ ∀ b ∈ p, isHexLc b = true) :
    ∃ ids, unhexAll ps = some ids ∧ ids.map hexBytes = ps := by
  induction ps with
  | nil => exact ⟨[], rfl, rfl⟩
  | cons p ps ih =>
    obtain ⟨ids, h1, h2⟩ := ih (fun q hq => h q (by simp [hq]))
    obtain ⟨hl, hh⟩ := h p (by simp)
    obtain ⟨id, h3, h4, _⟩ := unhex_lc 20 p (by omega) hh
    exact ⟨id :: ids, by simp [unhexAll, h3, h1], by simp [h4, h2]⟩

/-! ### `repeat` -/

theorem repeat0_sound {α β : Type} (p : Bytes → PRes α) (render : β → Bytes) (val : β → α) (Good : β → Prop)
    (hp : ∀ x a r, p x = .ok a r → ∃ y, Good y ∧ a = val y ∧ x = render y ++ r) :
    ∀ (f : Nat) (i : Bytes) (xs : List α) (r : Bytes), repeat0 p f i = .ok xs r →
      ∃ ys : List β, (∀ y ∈ ys, Good y) ∧ xs = ys.map val ∧ i = ys.flatMap render ++ r := by
  intro f
  induction f with
  | zero =>
    intro i xs r h
    simp only [repeat0, PRes.ok.injEq] at h
    obtain ⟨rfl, rfl⟩ := h
    exact ⟨[], by simp, rfl, rfl⟩
  | succ f ih =>
    intro i xs r h
    unfold repeat0 at h
    split at h
    · simp only [PRes.ok.injEq] at h
      obtain ⟨rfl, rfl⟩ := h
      exact ⟨[], by simp, rfl, rfl⟩
    · simp at h
    · rename_i a r' hpa
      obtain ⟨y, hg, hv, hx⟩ := hp _ _ _ hpa
      split at h
      · rename_i as r'' hrec
        obtain ⟨ys, h1, h2, h3⟩ := ih r' as r'' hrec
        simp only [PRes.ok.injEq] at h
        obtain ⟨rfl, rfl⟩ := h
        refine ⟨y :: ys, ?_, by simp [hv, h2], by rw [hx, h3]; simp⟩
        intro z hz
        simp only [List.mem_cons] at hz
        rcases hz with rfl | hz
        · exact hg
        · exact h1 z hz
      · simp at h
      · simp at h

/-! ### extra headers -/

theorem contLine_sound (i l r : Bytes) (h : contLine i = some (l, r)) :
    i = 32 :: (l ++ 10 :: r) ∧ ∀ b ∈ l, (b == 10) = false := by
  unfold contLine at h
  split at h
  · rename_i r0
    split at h
    · rename_i r' hsp
      simp only [Option.some.injEq, Prod.mk.injEq] at h
      obtain ⟨rfl, rfl⟩ := h
      have := spanTill_concat (· == 10) r0
      rw [hsp] at this
      exact ⟨by rw [this], spanTill_fst_noStop _ _⟩
    · simp at h
  · simp at h

theorem contLines_sound : ∀ (f : Nat) (i : Bytes),
    i = (contLines f i).1.flatMap (fun l => 32 :: l ++ [10]) ++ (contLines f i).2
    ∧ ∀ l ∈ (contLines f i).1, ∀ b ∈ l, (b == 10) = false := by
  intro f
  induction f with
  | zero => intro i; simp [contLines]
  | succ f ih =>
    intro i
    unfold contLines
    split
    · simp
    · rename_i l r hc
      obtain ⟨h1, h2⟩ := contLine_sound i l r hc
      obtain ⟨h3, h4⟩ := ih r
      simp only
      refine ⟨?_, ?_⟩
      · rw [h1]
        conv => lhs; rw [h3]
        simp
      · intro x hx
        simp only [List.mem_cons] at hx
        rcases hx with rfl | hx
        · exact h2
        · exact h4 x hx

theorem fieldName_sound (i name r : Bytes) (h : fieldName i = some (name, r)) :
    i = name ++ 32 :: r ∧ name ≠ [] ∧ name.all (fun b => b != 32 && b != 10) = true := by
  unfold fieldName at h
  split at h
  · simp at h
  · rename_i hne
    split at h
    · rename_i r' hsp
      simp only [Option.some.injEq, Prod.mk.injEq] at h
      obtain ⟨rfl, rfl⟩ := h
      have := spanTill_concat spOrNl i
      rw [hsp] at this
      refine ⟨this.symm, ?_, ?_⟩
      · intro he
        rw [he] at hne
        exact hne rfl
      · apply List.all_eq_true.mpr
        intro b hb
        have := spanTill_fst_noStop spOrNl i b hb
        simp only [spOrNl, Bool.or_eq_false_iff, beq_eq_false_iff_ne, ne_eq] at this
        simp [this.1, this.2]
    · simp at h

theorem extraHeader_sound (F : Nat) (i : Bytes) (a : Bytes × Bytes) (r : Bytes)
    (h : extraHeader F i = .ok a r) :
    ∃ g : GitHeader, g.Wf ∧ a = (g.name, headerValue g) ∧ i = g.render ++ r := by
  unfold extraHeader at h
  split at h
  · rename_i hv r' hm
    simp only [PRes.ok.injEq] at h
    obtain ⟨rfl, rfl⟩ := h
    unfold multiLine at hm
    split at hm
    · simp at hm
    · rename_i name r0 hfn
      obtain ⟨f1, f2, f3⟩ := fieldName_sound i name r0 hfn
      split at hm
      · simp at hm
      · rename_i hfirst
        split at hm
        · rename_i r1 hsp
          have hc := spanTill_concat (· == 10) r0
          rw [hsp] at hc
          have hnl := spanTill_fst_noStop (· == 10) r0
          generalize (spanTill (· == 10) r0).1 = first at *
          split at hm
          · simp at hm
          · rename_i l ls r2 hcl
            obtain ⟨c1, c2⟩ := contLines_sound F r1
            rw [hcl] at c1 c2
            simp only [Option.some.injEq, Prod.mk.injEq] at hm
            obtain ⟨rfl, rfl⟩ := hm
            refine ⟨⟨name, first, l :: ls⟩, ?_, ?_, ?_⟩
            · refine ⟨f2, f3, ?_, (noNl_iff _).mpr hnl, ?_⟩
              · intro he
                simp only at he
                rw [he] at hfirst
                exact hfirst rfl
              · apply List.all_eq_true.mpr
                intro x hx
                exact (noNl_iff x).mpr (c2 x hx)
            · have := unfoldValue_lines first (l :: ls) hnl c2
              simp only [List.append_assoc] at this
              simp only [headerValue, List.append_assoc, this]
            · rw [f1, ← hc, c1]
              simp [GitHeader.render]
        · simp at hm
  · split at h
    · rename_i hv r' hsl
      simp only [PRes.ok.injEq] at h
      obtain ⟨rfl, rfl⟩ := h
      unfold singleLine at hsl
      split at hsl
      · simp at hsl
      · rename_i name r0 hfn
        obtain ⟨f1, f2, f3⟩ := fieldName_sound i name r0 hfn
        split at hsl
        · simp at hsl
        · rename_i hfirst
          split at hsl
          · rename_i r1 hsp
            have hc := spanTill_concat (· == 10) r0
            rw [hsp] at hc
            have hnl := spanTill_fst_noStop (· == 10) r0
            generalize (spanTill (· == 10) r0).1 = first at *
            simp only [Option.some.injEq, Prod.mk.injEq] at hsl
            obtain ⟨rfl, rfl⟩ := hsl
            refine ⟨⟨name, first, []⟩, ?_, rfl, ?_⟩
            · refine ⟨f2, f3, ?_, (noNl_iff _).mpr hnl, by simp⟩
              intro he
              simp only at he
              rw [he] at hfirst
              exact hfirst rfl
            · rw [f1, ← hc]
              simp [GitHeader.render]
          · simp at hsl
    · simp at h

/-! ### the whole commit -/

/-- a commit text from its pieces, ids as hex strings, `sa`/`sc` the spelling of the signatures -/
def commitText (tree : Bytes) (parents : List Bytes) (sa sc : Bytes) (enc : Option Bytes)
    (hs : List GitHeader) (msg : Bytes) : Bytes :=
  kTree ++ 32 :: (tree ++ 10 ::
    (parents.flatMap (fun p => kParent ++ 32 :: (p ++ [10])) ++
      (kAuthor ++ 32 :: (sa ++ 10 ::
        (kCommitter ++ 32 :: (sc ++ 10 ::
          (renderEncoding enc ++ (hs.flatMap GitHeader.render ++ 10 :: msg))))))))

def IsHex40 (a : Bytes) : Prop := a.length = 40 ∧ ∀ b ∈ a, isHexLc b = true

theorem parseCommit_sound (i : Bytes) (c : CommitRef) (h : parseCommit i = some c) :
    ∃ (sa sc : Bytes) (hs : List GitHeader),
      i = commitText c.tree c.parents sa sc c.encoding hs c.message
      ∧ IsHex40 c.tree ∧ (∀ p ∈ c.parents, IsHex40 p) ∧ encodingWf c.encoding
      ∧ (∀ g ∈ hs, g.Wf) ∧ c.extra = hs.map (fun g => (g.name, headerValue g)) := by
  unfold parseCommit at h
  simp only at h
  generalize i.length + 1 = F at h
  split at h
  · rename_i tree r1 h1
    split at h
    · rename_i parents r2 h2
      split at h
      · rename_i author r3 h3
        split at h
        · rename_i committer r4 h4
          split at h
          · rename_i enc r5 h5
            split at h
            · rename_i extra r6 h6
              split at h
              · rename_i msg h7
                simp only [Option.some.injEq] at h
                subst h
                obtain ⟨v1, e1, p1⟩ := hdr_sound kTree hexHash hexHash_suffix i tree r1 h1
                obtain ⟨t1, t2, t3⟩ := hexHash_sound _ _ _ p1
                have ev1 : v1 = tree := by
                  have := List.append_cancel_right t1
                  exact this
                subst ev1
                obtain ⟨ps, g2, x2, e2⟩ := repeat0_sound (hdr kParent hexHash)
                  (fun p : Bytes => kParent ++ 32 :: (p ++ [10])) id IsHex40
                  (fun x a r hx => by
                    obtain ⟨v, e, p⟩ := hdr_sound kParent hexHash hexHash_suffix x a r hx
                    obtain ⟨s1, s2, s3⟩ := hexHash_sound _ _ _ p
                    have : v = a := List.append_cancel_right s1
                    subst this
                    exact ⟨v, ⟨s2, s3⟩, rfl, by rw [e]; simp⟩) F r1 parents r2 h2
                simp only [List.map_id] at x2
                subst x2
                obtain ⟨sa, e3, _⟩ := hdr_sound kAuthor signature signature_suffix r2 author r3 h3
                obtain ⟨sc, e4, _⟩ := hdr_sound kCommitter signature signature_suffix r3 committer r4 h4
                have e5 : r4 = renderEncoding enc ++ r5 ∧ encodingWf enc := by
                  unfold popt at h5
                  split at h5
                  · rename_i a rest hh
                    simp only [PRes.ok.injEq] at h5
                    obtain ⟨rfl, rfl⟩ := h5
                    obtain ⟨v, e, p⟩ := hdr_sound kEncoding line1 line1_suffix r4 a rest hh
                    obtain ⟨s1, s2, s3⟩ := line1_sound _ _ _ p
                    have : v = a := List.append_cancel_right s1
                    subst this
                    exact ⟨by rw [e]; simp [renderEncoding, encodingName, kEncoding], s2, (noNl_iff v).mpr s3⟩
                  · simp only [PRes.ok.injEq] at h5
                    obtain ⟨rfl, rfl⟩ := h5
                    exact ⟨rfl, trivial⟩
                  · simp at h5
                obtain ⟨hs, g6, x6, e6⟩ := repeat0_sound (extraHeader F) GitHeader.render
                  (fun g => (g.name, headerValue g)) GitHeader.Wf
                  (fun x a r hx => by
                    obtain ⟨g, gw, ga, gx⟩ := extraHeader_sound F x a r hx
                    exact ⟨g, gw, ga, gx⟩) F r5 extra r6 h6
                have e7 : r6 = 10 :: msg := by
                  unfold commitMessage at h7
                  split at h7
                  · simp only [Option.some.injEq] at h7
                    rw [h7]
                  · simp at h7
                refine ⟨sa, sc, hs, ?_, ⟨t2, t3⟩, g2, e5.2, g6, x6⟩
                simp only [commitText]
                rw [e1, e2, e3, e4, e5.1, e6, e7]
              · simp at h
            · simp at h
          · simp at h
        · simp at h
      · simp at h
    · simp at h
  · simp at h

/-- every piece but the two signature spellings is reproduced by the writer -/
theorem reencode_of_sound (c : CommitRef) (sa sc : Bytes) (hs : List GitHeader)
    (ht : IsHex40 c.tree) (hp : ∀ p ∈ c.parents, IsHex40 p) (henc : encodingWf c.encoding)
    (hhs : ∀ g ∈ hs, g.Wf) (hx : c.extra = hs.map (fun g => (g.name, headerValue g)))
    (ha : c.author.write = some sa) (hc : c.committer.write = some sc) :
    c.write = some (commitText c.tree c.parents sa sc c.encoding hs c.message) := by
  obtain ⟨t, u1, u2, _⟩ := unhex_lc 20 c.tree (by have := ht.1; omega) ht.2
  obtain ⟨ps, v1, v2⟩ := unhexAll_lc c.parents hp
  have hw := commit_write_bytes
    { tree := t, parents := ps, author := c.author, committer := c.committer, encoding := c.encoding,
      extra := c.extra, message := c.message } hs hhs hx.symm henc sa sc ha hc
  simp only [CommitRef.write, CommitRef.toOwned, u1, v1, hw, commitBytes, commitText, Option.some.injEq]
  rw [u2, ← v2]
  simp [List.flatMap_map]

end GixModel.C02
