import GixModel.Model.C20
/-
C20 helper lemmas, part 1: the file-system semantics. Frame lemma (an operation changes only the
paths it touches), directory operations never change file contents, and the restriction lemma: on
a set of paths `Q`, any prefix of an operation list behaves like a prefix of the sub-list of the
operations that touch `Q`, provided those touch nothing else.
-/
namespace GixModel.C20
open GixModel

/-- the paths whose entry an operation may change (or read) -/
def FsOp.touches : FsOp → List Path
  | .create p => [p]
  | .append p _ => [p]
  | .rename s d => [s, d]
  | .unlink p => [p]
  | .mkdir p => [p]
  | .rmdir p => [p]

def FsOp.isDirOp : FsOp → Bool
  | .mkdir _ => true
  | .rmdir _ => true
  | _ => false

@[simp] theorem upd_same (fs : Fs) (p : Path) (v : Option Entry) : upd fs p v p = v := by simp [upd]

theorem upd_other (fs : Fs) {p q : Path} (v : Option Entry) (h : q ≠ p) : upd fs p v q = fs q := by
  simp [upd, h]

theorem apply_frame (op : FsOp) (fs : Fs) {q : Path} (h : q ∉ op.touches) : op.apply fs q = fs q := by
  cases op with
  | create p =>
    have hq : q ≠ p := by simpa [FsOp.touches] using h
    cases hp : fs p with
    | none => simp [FsOp.apply, hp, upd, hq]
    | some e => simp [FsOp.apply, hp]
  | append p bs =>
    have hq : q ≠ p := by simpa [FsOp.touches] using h
    cases hp : fs p with
    | none => simp [FsOp.apply, hp]
    | some e => cases e <;> simp [FsOp.apply, hp, upd, hq]
  | rename s d =>
    have hq : q ≠ s ∧ q ≠ d := by simpa [FsOp.touches] using h
    cases hs : fs s with
    | none => simp [FsOp.apply, hs]
    | some e =>
      cases e with
      | dir => simp [FsOp.apply, hs]
      | file c =>
        cases hd : fs d with
        | none => simp [FsOp.apply, hs, hd, upd, hq.1, hq.2]
        | some e' => cases e' <;> simp [FsOp.apply, hs, hd, upd, hq.1, hq.2]
  | unlink p =>
    have hq : q ≠ p := by simpa [FsOp.touches] using h
    cases hp : fs p with
    | none => simp [FsOp.apply, hp]
    | some e => cases e <;> simp [FsOp.apply, hp, upd, hq]
  | mkdir p =>
    have hq : q ≠ p := by simpa [FsOp.touches] using h
    cases hp : fs p with
    | none => simp [FsOp.apply, hp, upd, hq]
    | some e => simp [FsOp.apply, hp]
  | rmdir p =>
    have hq : q ≠ p := by simpa [FsOp.touches] using h
    cases hp : fs p with
    | none => simp [FsOp.apply, hp]
    | some e => cases e <;> simp [FsOp.apply, hp, upd, hq]

@[simp] theorem applyAll_nil (fs : Fs) : applyAll [] fs = fs := rfl

@[simp] theorem applyAll_cons (op : FsOp) (ops : List FsOp) (fs : Fs) :
    applyAll (op :: ops) fs = applyAll ops (op.apply fs) := rfl

theorem applyAll_append (a b : List FsOp) (fs : Fs) : applyAll (a ++ b) fs = applyAll b (applyAll a fs) := by
  simp [applyAll, List.foldl_append]

theorem applyAll_frame {ops : List FsOp} {q : Path} (h : ∀ op ∈ ops, q ∉ op.touches) (fs : Fs) :
    applyAll ops fs q = fs q := by
  induction ops generalizing fs with
  | nil => rfl
  | cons op ops ih =>
    rw [applyAll_cons, ih (fun o ho => h o (List.mem_cons_of_mem _ ho)), apply_frame op fs (h op (List.mem_cons_self ..))]

/-- directory operations never change what is in a file -/
theorem fileAt_dirOp (op : FsOp) (hd : op.isDirOp = true) (fs : Fs) (q : Path) :
    fileAt (op.apply fs) q = fileAt fs q := by
  cases op with
  | mkdir p =>
    cases hp : fs p with
    | none =>
      by_cases e : q = p
      · subst e; simp [FsOp.apply, fileAt, hp]
      · simp [FsOp.apply, fileAt, hp, upd, e]
    | some e => simp [FsOp.apply, hp]
  | rmdir p =>
    cases hp : fs p with
    | none => simp [FsOp.apply, hp]
    | some e =>
      cases e with
      | file c => simp [FsOp.apply, hp]
      | dir =>
        by_cases e : q = p
        · subst e; simp [FsOp.apply, fileAt, hp]
        · simp [FsOp.apply, fileAt, hp, upd, e]
  | _ => simp [FsOp.isDirOp] at hd

/-- operations that are directory operations or do not touch `q` leave the file at `q` alone -/
theorem fileAt_applyAll_quiet {ops : List FsOp} {q : Path}
    (h : ∀ op ∈ ops, op.isDirOp = true ∨ q ∉ op.touches) (fs : Fs) :
    fileAt (applyAll ops fs) q = fileAt fs q := by
  induction ops generalizing fs with
  | nil => rfl
  | cons op ops ih =>
    rw [applyAll_cons, ih (fun o ho => h o (List.mem_cons_of_mem _ ho))]
    rcases h op (List.mem_cons_self ..) with hd | hq
    · exact fileAt_dirOp op hd fs q
    · simp [fileAt, apply_frame op fs hq]

/-- `op` touches a path of `Q` -/
def touchesAny (Q : Path → Bool) (op : FsOp) : Bool := op.touches.any Q

/-- `op` touches only paths of `Q` -/
def closedIn (Q : Path → Bool) (op : FsOp) : Bool := op.touches.all Q

/-- an operation that only touches paths of `Q` acts on `Q` as a function of the entries on `Q` -/
theorem apply_congr_on (Q : Path → Bool) (op : FsOp) (hc : closedIn Q op = true) (f g : Fs)
    (h : ∀ q, Q q = true → f q = g q) : ∀ q, Q q = true → op.apply f q = op.apply g q := by
  intro q hq
  have hqq := h q hq
  cases op with
  | create p =>
    have hp : Q p = true := by simpa [closedIn, FsOp.touches] using hc
    have e := h p hp
    cases hg : g p with
    | none => by_cases e' : q = p <;> simp [FsOp.apply, e, hg, upd, e', hqq]
    | some x => simp [FsOp.apply, e, hg, hqq]
  | append p bs =>
    have hp : Q p = true := by simpa [closedIn, FsOp.touches] using hc
    have e := h p hp
    cases hg : g p with
    | none => simp [FsOp.apply, e, hg, hqq]
    | some x => cases x <;> (by_cases e' : q = p <;> simp [FsOp.apply, e, hg, upd, e', hqq])
  | rename s d =>
    have hp : Q s = true ∧ Q d = true := by simpa [closedIn, FsOp.touches] using hc
    have es := h s hp.1
    have ed := h d hp.2
    cases hs : g s with
    | none => simp [FsOp.apply, es, hs, hqq]
    | some x =>
      cases x with
      | dir => simp [FsOp.apply, es, hs, hqq]
      | file c =>
        cases hd : g d with
        | none => by_cases e1 : q = d <;> by_cases e2 : q = s <;> simp [FsOp.apply, es, ed, hs, hd, upd, e1, e2, hqq]
        | some y =>
          cases y <;> (by_cases e1 : q = d <;> by_cases e2 : q = s <;> simp [FsOp.apply, es, ed, hs, hd, upd, e1, e2, hqq])
  | unlink p =>
    have hp : Q p = true := by simpa [closedIn, FsOp.touches] using hc
    have e := h p hp
    cases hg : g p with
    | none => simp [FsOp.apply, e, hg, hqq]
    | some x => cases x <;> (by_cases e' : q = p <;> simp [FsOp.apply, e, hg, upd, e', hqq])
  | mkdir p =>
    have hp : Q p = true := by simpa [closedIn, FsOp.touches] using hc
    have e := h p hp
    cases hg : g p with
    | none => by_cases e' : q = p <;> simp [FsOp.apply, e, hg, upd, e', hqq]
    | some x => simp [FsOp.apply, e, hg, hqq]
  | rmdir p =>
    have hp : Q p = true := by simpa [closedIn, FsOp.touches] using hc
    have e := h p hp
    cases hg : g p with
    | none => simp [FsOp.apply, e, hg, hqq]
    | some x => cases x <;> (by_cases e' : q = p <;> simp [FsOp.apply, e, hg, upd, e', hqq])

theorem not_touchesAny {Q : Path → Bool} {op : FsOp} (h : touchesAny Q op = false) {q : Path}
    (hq : Q q = true) : q ∉ op.touches := by
  intro hm
  have : touchesAny Q op = true := List.any_eq_true.mpr ⟨q, hm, hq⟩
  rw [h] at this; cases this

/-- restriction: on `Q`, running `ops` from `f` equals running the `Q`-touching sub-list from `g`
when `f` and `g` agree on `Q` and the sub-list touches nothing but `Q` -/
theorem applyAll_restrict (Q : Path → Bool) (ops : List FsOp)
    (hc : ∀ op ∈ ops, touchesAny Q op = true → closedIn Q op = true) (f g : Fs)
    (h : ∀ q, Q q = true → f q = g q) :
    ∀ q, Q q = true → applyAll ops f q = applyAll (ops.filter (touchesAny Q)) g q := by
  induction ops generalizing f g with
  | nil => simpa using h
  | cons op ops ih =>
    have hc' : ∀ o ∈ ops, touchesAny Q o = true → closedIn Q o = true :=
      fun o ho => hc o (List.mem_cons_of_mem _ ho)
    cases ht : touchesAny Q op with
    | true =>
      simp only [List.filter_cons, ht, if_true, applyAll_cons]
      exact ih hc' _ _ (apply_congr_on Q op (hc op (List.mem_cons_self ..) ht) f g h)
    | false =>
      simp only [List.filter_cons, ht, applyAll_cons]
      apply ih hc' _ _
      intro q hq
      rw [apply_frame op f (not_touchesAny ht hq)]
      exact h q hq

/-- the prefix version: every prefix of `ops` is, on `Q`, a prefix of the `Q`-touching sub-list -/
theorem take_restrict (Q : Path → Bool) (ops : List FsOp)
    (hc : ∀ op ∈ ops, touchesAny Q op = true → closedIn Q op = true) (fs : Fs) (k : Nat) :
    ∃ j, ∀ q, Q q = true →
      applyAll (ops.take k) fs q = applyAll ((ops.filter (touchesAny Q)).take j) fs q := by
  refine ⟨((ops.take k).filter (touchesAny Q)).length, ?_⟩
  intro q hq
  have h1 := applyAll_restrict Q (ops.take k)
    (fun op ho => hc op (List.mem_of_mem_take ho)) fs fs (fun _ _ => rfl) q hq
  rw [h1]
  congr 1
  -- the filtered prefix is a prefix of the filtered list
  have : (ops.take k).filter (touchesAny Q) <+: ops.filter (touchesAny Q) :=
    List.IsPrefix.filter _ (List.take_prefix k ops)
  exact (List.prefix_iff_eq_take.mp this)

/-- a property of all states reached by prefixes -/
def AllPrefixes (P : Fs → Prop) (ops : List FsOp) (fs : Fs) : Prop :=
  ∀ j, P (applyAll (ops.take j) fs)

theorem allPrefixes_nil {P : Fs → Prop} {fs : Fs} (h : P fs) : AllPrefixes P [] fs := by
  intro j; simpa using h

theorem allPrefixes_cons {P : Fs → Prop} {op : FsOp} {ops : List FsOp} {fs : Fs} (h0 : P fs)
    (h : AllPrefixes P ops (op.apply fs)) : AllPrefixes P (op :: ops) fs := by
  intro j
  cases j with
  | zero => simpa using h0
  | succ j => simpa using h j

theorem allPrefixes_append {P : Fs → Prop} {a b : List FsOp} {fs : Fs} (ha : AllPrefixes P a fs)
    (hb : AllPrefixes P b (applyAll a fs)) : AllPrefixes P (a ++ b) fs := by
  intro j
  rw [List.take_append]
  rw [applyAll_append]
  by_cases hj : j ≤ a.length
  · have : j - a.length = 0 := by omega
    rw [this]; simpa using ha j
  · have : a.take j = a := List.take_of_length_le (by omega)
    rw [this]; exact hb _

end GixModel.C20
