import GixModel.Model.C22
/-
C22 — helper lemmas: (1) path name functions, (2) the abstract file system, (3) the inductive
invariants of the lock protocol, (4) undoing a directory chain.
-/
namespace GixModel.C22
open GixModel

/-! ### 1. names -/

theorem dir_file_append (p : Bytes) : dirPart p ++ fileName p = p := by
  unfold dirPart fileName
  rw [← List.reverse_append, List.takeWhile_append_dropWhile, List.reverse_reverse]

theorem ne47_of_mem_dotLock_rev : ∀ a ∈ dotLock.reverse, (a != (47 : UInt8)) = true := by decide

theorem fileName_append_dotLock (p : Bytes) : fileName (p ++ dotLock) = fileName p ++ dotLock := by
  unfold fileName
  rw [List.reverse_append, List.takeWhile_append_of_pos ne47_of_mem_dotLock_rev, List.reverse_append,
    List.reverse_reverse]

theorem dirPart_append_dotLock (p : Bytes) : dirPart (p ++ dotLock) = dirPart p := by
  unfold dirPart
  rw [List.reverse_append, List.dropWhile_append_of_pos ne47_of_mem_dotLock_rev]

theorem fileName_append_dot (p : Bytes) : fileName (p ++ [46]) = fileName p ++ [46] := by
  unfold fileName
  rw [List.reverse_append, List.takeWhile_append_of_pos (by decide), List.reverse_append,
    List.reverse_reverse]

theorem dirPart_append_dot (p : Bytes) : dirPart (p ++ [46]) = dirPart p := by
  unfold dirPart
  rw [List.reverse_append, List.dropWhile_append_of_pos (by decide)]

/-- a name `f ++ "." ++ e` whose `e` has no dot splits into stem `f` and extension `e` -/
theorem rsplitDot_append (f e : Bytes) (hf : f ≠ []) (he : ∀ a ∈ e, a ≠ (46 : UInt8))
    (hne : f ++ 46 :: e ≠ [46, 46]) : rsplitDot (f ++ 46 :: e) = (f, some e) := by
  unfold rsplitDot
  have h1 : (f ++ 46 :: e == [46, 46]) = false := by simpa using hne
  have hrev : (f ++ 46 :: e).reverse = e.reverse ++ 46 :: f.reverse := by
    simp [List.reverse_append]
  have hpos : ∀ a ∈ e.reverse, (a != (46 : UInt8)) = true := by
    intro a ha
    have := he a (List.mem_reverse.mp ha)
    simpa using this
  have hdrop : List.dropWhile (fun x => x != (46 : UInt8)) (e.reverse ++ 46 :: f.reverse)
      = 46 :: f.reverse := by
    rw [List.dropWhile_append_of_pos hpos, List.dropWhile_cons_of_neg (by decide)]
  have htake : List.takeWhile (fun x => x != (46 : UInt8)) (e.reverse ++ 46 :: f.reverse)
      = e.reverse := by
    rw [List.takeWhile_append_of_pos hpos, List.takeWhile_cons_of_neg (by decide), List.append_nil]
  have hfr : f.reverse.isEmpty = false := by
    cases f with
    | nil => exact absurd rfl hf
    | cons a t => simp
  simp only [h1, Bool.false_eq_true, if_false, hrev, hdrop, htake, hfr, List.reverse_reverse]

theorem normalComp_append_dotLock (f : Bytes) : normalComp (f ++ dotLock) = true := by
  unfold normalComp
  have hl : (f ++ dotLock).length ≥ 5 := by simp [dotLock]
  have h0 : f ++ dotLock ≠ [] := by intro h; rw [h] at hl; simp at hl
  have h1 : f ++ dotLock ≠ [46] := by intro h; rw [h] at hl; simp at hl
  have h2 : f ++ dotLock ≠ [46, 46] := by intro h; rw [h] at hl; simp at hl
  simp [h0, h1, h2]

theorem plain_append_dotLock (p : Bytes) (h : plain p = true) : plain (p ++ dotLock) = true := by
  unfold plain at *
  rw [fileName_append_dotLock, dirPart_append_dotLock, normalComp_append_dotLock]
  simp only [Bool.and_eq_true] at h
  simp [h.2]

theorem normalComp_ne (f : Bytes) (h : normalComp f = true) : f ≠ [] ∧ f ≠ [46] ∧ f ≠ [46, 46] := by
  unfold normalComp at h
  simp only [Bool.and_eq_true, bne_iff_ne, ne_eq] at h
  exact ⟨h.1.1, h.1.2, h.2⟩

theorem lock_ext (p : Bytes) (h : plain p = true) :
    rsplitDot (fileName p ++ dotLock) = (fileName p, some [108, 111, 99, 107]) := by
  have hn := normalComp_ne (fileName p) (by unfold plain at h; simp only [Bool.and_eq_true] at h; exact h.1)
  have : fileName p ++ dotLock = fileName p ++ 46 :: [108, 111, 99, 107] := rfl
  rw [this]
  apply rsplitDot_append _ _ hn.1 (by decide)
  intro hc
  have : (fileName p ++ 46 :: [108, 111, 99, 107]).length = 2 := by rw [hc]; rfl
  simp at this

/-! ### 1b. joinSlash ∘ splitSlash -/

theorem splitSlash_ne_nil (x : Bytes) : splitSlash x ≠ [] := by
  cases x with
  | nil => simp [splitSlash]
  | cons b rest =>
    unfold splitSlash
    by_cases hb : (b == 47) = true
    · simp [hb]
    · simp only [hb, Bool.false_eq_true, if_false]
      cases splitSlash rest <;> simp

theorem joinSlash_splitSlash (x : Bytes) : joinSlash (splitSlash x) = x := by
  induction x with
  | nil => rfl
  | cons b rest ih =>
    unfold splitSlash
    by_cases hb : (b == 47) = true
    · simp only [hb, if_true]
      have hb' : b = 47 := by simpa using hb
      cases hs : splitSlash rest with
      | nil => exact absurd hs (splitSlash_ne_nil rest)
      | cons c cs =>
        rw [hs] at ih
        simp only [joinSlash, List.nil_append, ih, hb']
    · simp only [hb, Bool.false_eq_true, if_false]
      cases hs : splitSlash rest with
      | nil => exact absurd hs (splitSlash_ne_nil rest)
      | cons c cs =>
        rw [hs] at ih
        cases cs with
        | nil => simp only [joinSlash] at ih ⊢; rw [ih]
        | cons c2 cs2 => simp only [joinSlash, List.cons_append] at ih ⊢; rw [ih]

/-! ### 2. the abstract file system -/

set_option linter.unusedSectionVars false
section Generic
variable {α : Type} [DecidableEq α]

theorem look_del (fs : FS α) (p q : α) : look (del fs p) q = if q = p then none else look fs q := by
  induction fs with
  | nil => simp [del, look]
  | cons e rest ih =>
    obtain ⟨k, n⟩ := e
    unfold del at ih ⊢
    by_cases hk : k = p
    · subst hk
      simp only [List.filter_cons, ne_eq, not_true_eq_false, decide_false, Bool.false_eq_true, if_false, ih, look]
      by_cases hq : q = k
      · simp [hq]
      · have : ¬ k = q := fun h => hq h.symm
        simp [hq, this]
    · simp only [List.filter_cons, ne_eq, hk, not_false_eq_true, decide_true, if_true, look, ih]
      by_cases hkq : k = q
      · subst hkq; simp [hk]
      · simp [hkq]

theorem look_put (fs : FS α) (p q : α) (n : Node) :
    look (put fs p n) q = if q = p then some n else look fs q := by
  unfold put
  by_cases h : p = q
  · subst h; simp [look]
  · have h' : ¬ q = p := fun e => h e.symm
    simp [look, h, h', look_del]

theorem look_put_self (fs : FS α) (p : α) (n : Node) : look (put fs p n) p = some n := by
  simp [look_put]

theorem look_put_ne (fs : FS α) (p q : α) (n : Node) (h : q ≠ p) : look (put fs p n) q = look fs q := by
  simp [look_put, h]

theorem look_del_self (fs : FS α) (p : α) : look (del fs p) p = none := by simp [look_del]

theorem look_del_ne (fs : FS α) (p q : α) (h : q ≠ p) : look (del fs p) q = look fs q := by
  simp [look_del, h]

theorem findHolder_some {hs : List (Holder α)} {h : Nat} {hd : Holder α}
    (hf : findHolder hs h = some hd) : hd ∈ hs ∧ hd.id = h := by
  unfold findHolder at hf
  exact ⟨List.mem_of_find?_eq_some hf, by simpa using List.find?_some hf⟩

theorem findHolder_none {hs : List (Holder α)} {h : Nat}
    (hf : (findHolder hs h).isSome = false) : ∀ x ∈ hs, x.id ≠ h := by
  unfold findHolder at hf
  have : List.find? (fun x => decide (x.id = h)) hs = none := by
    cases hx : List.find? (fun x => decide (x.id = h)) hs with
    | none => rfl
    | some v => rw [hx] at hf; simp at hf
  intro x hx
  have := (List.find?_eq_none.mp this) x hx
  simpa using this

theorem pw_mem {β : Type} {R : β → β → Prop} {l : List β} (hp : l.Pairwise R)
    (hsym : ∀ a b, R a b → R b a) {a b : β} (ha : a ∈ l) (hb : b ∈ l) : a = b ∨ R a b := by
  induction l with
  | nil => cases ha
  | cons x xs ih =>
    rw [List.pairwise_cons] at hp
    cases ha with
    | head =>
      cases hb with
      | head => exact Or.inl rfl
      | tail _ hb' => exact Or.inr (hp.1 b hb')
    | tail _ ha' =>
      cases hb with
      | head => exact Or.inr (hsym _ _ (hp.1 a ha'))
      | tail _ hb' => exact ih hp.2 ha' hb'

/-! ### 3. invariants -/

def Distinct (a b : Holder α) : Prop := a.lock ≠ b.lock ∧ a.id ≠ b.id

theorem Distinct.symm {a b : Holder α} (h : Distinct a b) : Distinct b a :=
  ⟨fun e => h.1 e.symm, fun e => h.2 e.symm⟩

/-- The inductive invariant of the protocol: the holders have pairwise different lock paths (and
ids), every holder's lock path is the lock path of its resource, and a regular file exists there. -/
def Inv (o : Ops α) (s : State α) : Prop :=
  s.holders.Pairwise Distinct ∧
  ∀ hd ∈ s.holders, (∃ c t, look s.fs hd.lock = some (.file c t)) ∧ o.lk hd.res = some hd.lock

theorem heldLock_false {hs : List (Holder α)} {p : α} (h : heldLock hs p = false) :
    ∀ x ∈ hs, x.lock ≠ p := by
  unfold heldLock at h
  intro x hx
  have := (List.any_eq_false.mp h) x hx
  simpa using this

theorem inv_step (o : Ops α) (s s' : State α) (e : Event α) (hi : Inv o s)
    (hs : step o s e = some s') : Inv o s' := by
  obtain ⟨hpw, hall⟩ := hi
  cases e with
  | mkdir d =>
    simp only [step] at hs
    split at hs
    · rename_i hc
      injection hs with hs; subst hs
      refine ⟨hpw, fun hd hm => ?_⟩
      obtain ⟨⟨c, t, hl⟩, hk⟩ := hall hd hm
      have : hd.lock ≠ d := by intro e; rw [e, hc.1] at hl; cases hl
      exact ⟨⟨c, t, by simp only [look_put_ne _ _ _ _ this, hl]⟩, hk⟩
    · cases hs
  | rmdir d =>
    simp only [step] at hs
    split at hs
    · rename_i hc
      injection hs with hs; subst hs
      refine ⟨hpw, fun hd hm => ?_⟩
      obtain ⟨⟨c, t, hl⟩, hk⟩ := hall hd hm
      have : hd.lock ≠ d := by intro e; rw [e, hc.1] at hl; cases hl
      exact ⟨⟨c, t, by simp only [look_del_ne _ _ _ this, hl]⟩, hk⟩
    · cases hs
  | put p c0 =>
    simp only [step] at hs
    split at hs
    · cases hs
    · rename_i hh
      split at hs
      · injection hs with hs; subst hs
        refine ⟨hpw, fun hd hm => ?_⟩
        obtain ⟨⟨c, t, hl⟩, hk⟩ := hall hd hm
        have := heldLock_false (by simpa using hh) hd hm
        exact ⟨⟨c, t, by simp only [look_put_ne _ _ _ _ this, hl]⟩, hk⟩
      · cases hs
  | del p =>
    simp only [step] at hs
    split at hs
    · cases hs
    · rename_i hh
      split at hs
      · injection hs with hs; subst hs
        refine ⟨hpw, fun hd hm => ?_⟩
        obtain ⟨⟨c, t, hl⟩, hk⟩ := hall hd hm
        have := heldLock_false (by simpa using hh) hd hm
        exact ⟨⟨c, t, by simp only [look_del_ne _ _ _ this, hl]⟩, hk⟩
      · cases hs
  | acquire h r =>
    simp only [step] at hs
    split at hs
    · cases hs
    · rename_i l hl
      split at hs
      · cases hs
      · rename_i hfresh
        split at hs
        · rename_i hc
          injection hs with hs; subst hs
          have hids := findHolder_none (by simpa using hfresh)
          refine ⟨?_, ?_⟩
          · rw [List.pairwise_cons]
            refine ⟨fun a ha => ⟨?_, fun e => hids a ha e.symm⟩, hpw⟩
            obtain ⟨⟨c, t, hla⟩, _⟩ := hall a ha
            intro e
            simp only at e
            rw [← e, hc.1] at hla; cases hla
          · intro hd hm
            cases hm with
            | head => exact ⟨⟨[], some h, by simp [look_put_self]⟩, hl⟩
            | tail _ hm' =>
              obtain ⟨⟨c, t, hla⟩, hk⟩ := hall hd hm'
              have : hd.lock ≠ l := by intro e; rw [e, hc.1] at hla; cases hla
              exact ⟨⟨c, t, by simp only [look_put_ne _ _ _ _ this, hla]⟩, hk⟩
        · cases hs
  | write h c0 =>
    simp only [step] at hs
    split at hs
    · cases hs
    · rename_i hd0 hf
      injection hs with hs; subst hs
      refine ⟨?_, ?_⟩
      · simp only
        rw [List.pairwise_map]
        refine List.Pairwise.imp ?_ hpw
        intro a b hab
        have hl : ∀ x : Holder α, (if x.id = h then { x with buf := x.buf ++ c0 } else x).lock = x.lock := by
          intro x; split <;> rfl
        have hi : ∀ x : Holder α, (if x.id = h then { x with buf := x.buf ++ c0 } else x).id = x.id := by
          intro x; split <;> rfl
        unfold Distinct
        rw [hl a, hl b, hi a, hi b]
        exact hab
      · intro hd hm
        simp only [List.mem_map] at hm
        obtain ⟨x, hx, hxe⟩ := hm
        obtain ⟨⟨c, t, hlx⟩, hk⟩ := hall x hx
        have hlock : hd.lock = x.lock := by subst hxe; split <;> rfl
        have hres : hd.res = x.res := by subst hxe; split <;> rfl
        rw [hlock, hres]
        refine ⟨?_, hk⟩
        simp only
        split
        · rename_i old t0 hl0
          split
          · by_cases hq : x.lock = hd0.lock
            · exact ⟨_, _, by rw [hq, look_put_self]⟩
            · exact ⟨c, t, by rw [look_put_ne _ _ _ _ hq, hlx]⟩
          · exact ⟨c, t, hlx⟩
        · exact ⟨c, t, hlx⟩
  | commit h =>
    simp only [step] at hs
    split at hs
    · cases hs
    · rename_i hd0 hf
      obtain ⟨hm0, hid0⟩ := findHolder_some hf
      split at hs
      · rename_i c0 t0 hl0
        split at hs
        · cases hs
        · injection hs with hs; subst hs
          refine ⟨List.Pairwise.filter _ hpw, ?_⟩
          intro hd hm
          simp only [List.mem_filter, decide_eq_true_eq] at hm
          obtain ⟨⟨c, t, hl⟩, hk⟩ := hall hd hm.1
          have hne : hd.lock ≠ hd0.lock := by
            cases pw_mem hpw (fun _ _ => Distinct.symm) hm.1 hm0 with
            | inl e => exact absurd (by rw [e, hid0]) hm.2
            | inr d => exact d.1
          refine ⟨?_, hk⟩
          simp only
          by_cases hq : hd.lock = hd0.res
          · exact ⟨_, _, by rw [hq, look_put_self]⟩
          · exact ⟨c, t, by rw [look_put_ne _ _ _ _ hq, look_del_ne _ _ _ hne, hl]⟩
      · cases hs
  | drop h =>
    simp only [step] at hs
    split at hs
    · cases hs
    · rename_i hd0 hf
      obtain ⟨hm0, hid0⟩ := findHolder_some hf
      injection hs with hs; subst hs
      refine ⟨List.Pairwise.filter _ hpw, ?_⟩
      intro hd hm
      simp only [List.mem_filter, decide_eq_true_eq] at hm
      obtain ⟨⟨c, t, hl⟩, hk⟩ := hall hd hm.1
      have hne : hd.lock ≠ hd0.lock := by
        cases pw_mem hpw (fun _ _ => Distinct.symm) hm.1 hm0 with
        | inl e => exact absurd (by rw [e, hid0]) hm.2
        | inr d => exact d.1
      exact ⟨⟨c, t, by simp only [look_del_ne _ _ _ hne, hl]⟩, hk⟩

theorem inv_run (o : Ops α) (evs : List (Event α)) : ∀ (s s' : State α), Inv o s →
    run o s evs = some s' → Inv o s' := by
  induction evs with
  | nil => intro s s' hi hr; simp only [run] at hr; injection hr with hr; subst hr; exact hi
  | cons e es ih =>
    intro s s' hi hr
    simp only [run] at hr
    split at hr
    · cases hr
    · rename_i s1 h1
      exact ih s1 s' (inv_step o s s1 e hi h1) hr

theorem inv_init (o : Ops α) (s : State α) (h : s.holders = []) : Inv o s := by
  unfold Inv
  rw [h]
  exact ⟨List.Pairwise.nil, fun _ hm => by cases hm⟩

/-! ### 3b. what a holder wrote is what its lock file holds -/

/-- every holder's resource is in `R`, and its lock path names the file it created, holding
exactly what it wrote -/
def Owns (R : α → Prop) (s : State α) : Prop :=
  ∀ hd ∈ s.holders, R hd.res ∧ look s.fs hd.lock = some (.file hd.buf (some hd.id))

/-- no resource of `R` is itself the lock path of a resource of `R` -/
def LockFree (o : Ops α) (R : α → Prop) : Prop :=
  ∀ r r' l, R r → R r' → o.lk r' = some l → l ≠ r

def EvOk (R : α → Prop) : Event α → Prop
  | .acquire _ r => R r
  | _ => True

theorem owns_step (o : Ops α) (R : α → Prop) (hlf : LockFree o R) (s s' : State α) (e : Event α)
    (hi : Inv o s) (ho : Owns R s) (hev : EvOk R e) (hs : step o s e = some s') : Owns R s' := by
  obtain ⟨hpw, hall⟩ := hi
  cases e with
  | mkdir d =>
    simp only [step] at hs
    split at hs
    · rename_i hc
      injection hs with hs; subst hs
      intro hd hm
      obtain ⟨hr, hl⟩ := ho hd hm
      have : hd.lock ≠ d := by intro e; rw [e, hc.1] at hl; cases hl
      exact ⟨hr, by simp only [look_put_ne _ _ _ _ this, hl]⟩
    · cases hs
  | rmdir d =>
    simp only [step] at hs
    split at hs
    · rename_i hc
      injection hs with hs; subst hs
      intro hd hm
      obtain ⟨hr, hl⟩ := ho hd hm
      have : hd.lock ≠ d := by intro e; rw [e, hc.1] at hl; cases hl
      exact ⟨hr, by simp only [look_del_ne _ _ _ this, hl]⟩
    · cases hs
  | put p c0 =>
    simp only [step] at hs
    split at hs
    · cases hs
    · rename_i hh
      split at hs
      · injection hs with hs; subst hs
        intro hd hm
        obtain ⟨hr, hl⟩ := ho hd hm
        have := heldLock_false (by simpa using hh) hd hm
        exact ⟨hr, by simp only [look_put_ne _ _ _ _ this, hl]⟩
      · cases hs
  | del p =>
    simp only [step] at hs
    split at hs
    · cases hs
    · rename_i hh
      split at hs
      · injection hs with hs; subst hs
        intro hd hm
        obtain ⟨hr, hl⟩ := ho hd hm
        have := heldLock_false (by simpa using hh) hd hm
        exact ⟨hr, by simp only [look_del_ne _ _ _ this, hl]⟩
      · cases hs
  | acquire h r =>
    simp only [step] at hs
    split at hs
    · cases hs
    · rename_i l hl
      split at hs
      · cases hs
      · split at hs
        · rename_i hc
          injection hs with hs; subst hs
          intro hd hm
          cases hm with
          | head => exact ⟨hev, by simp [look_put_self]⟩
          | tail _ hm' =>
            obtain ⟨hr, hla⟩ := ho hd hm'
            have : hd.lock ≠ l := by intro e; rw [e, hc.1] at hla; cases hla
            exact ⟨hr, by simp only [look_put_ne _ _ _ _ this, hla]⟩
        · cases hs
  | write h c0 =>
    simp only [step] at hs
    split at hs
    · cases hs
    · rename_i hd0 hf
      obtain ⟨hm0, hid0⟩ := findHolder_some hf
      obtain ⟨_, hl0⟩ := ho hd0 hm0
      injection hs with hs; subst hs
      intro hd hm
      simp only [List.mem_map] at hm
      obtain ⟨x, hx, hxe⟩ := hm
      obtain ⟨hr, hlx⟩ := ho x hx
      simp only [hl0, hid0, if_true]
      by_cases hxi : x.id = h
      · have hxe0 : x = hd0 := by
          cases pw_mem hpw (fun _ _ => Distinct.symm) hx hm0 with
          | inl e => exact e
          | inr d => exact absurd (by rw [hxi, hid0]) d.2
        subst hxe0
        simp only [hxi, if_true] at hxe
        subst hxe
        exact ⟨hr, by simp only [look_put_self]⟩
      · simp only [hxi, if_false] at hxe
        subst hxe
        have hne : x.lock ≠ hd0.lock := by
          cases pw_mem hpw (fun _ _ => Distinct.symm) hx hm0 with
          | inl e => exact absurd (by rw [e, hid0]) hxi
          | inr d => exact d.1
        exact ⟨hr, by rw [look_put_ne _ _ _ _ hne, hlx]⟩
  | commit h =>
    simp only [step] at hs
    split at hs
    · cases hs
    · rename_i hd0 hf
      obtain ⟨hm0, hid0⟩ := findHolder_some hf
      obtain ⟨hr0, _⟩ := ho hd0 hm0
      split at hs
      · split at hs
        · cases hs
        · injection hs with hs; subst hs
          intro hd hm
          simp only [List.mem_filter, decide_eq_true_eq] at hm
          obtain ⟨hr, hl⟩ := ho hd hm.1
          have hne : hd.lock ≠ hd0.lock := by
            cases pw_mem hpw (fun _ _ => Distinct.symm) hm.1 hm0 with
            | inl e => exact absurd (by rw [e, hid0]) hm.2
            | inr d => exact d.1
          have hne2 : hd.lock ≠ hd0.res := hlf hd0.res hd.res hd.lock hr0 hr (hall hd hm.1).2
          exact ⟨hr, by rw [look_put_ne _ _ _ _ hne2, look_del_ne _ _ _ hne, hl]⟩
      · cases hs
  | drop h =>
    simp only [step] at hs
    split at hs
    · cases hs
    · rename_i hd0 hf
      obtain ⟨hm0, hid0⟩ := findHolder_some hf
      injection hs with hs; subst hs
      intro hd hm
      simp only [List.mem_filter, decide_eq_true_eq] at hm
      obtain ⟨hr, hl⟩ := ho hd hm.1
      have hne : hd.lock ≠ hd0.lock := by
        cases pw_mem hpw (fun _ _ => Distinct.symm) hm.1 hm0 with
        | inl e => exact absurd (by rw [e, hid0]) hm.2
        | inr d => exact d.1
      exact ⟨hr, by simp only [look_del_ne _ _ _ hne, hl]⟩

theorem owns_run (o : Ops α) (R : α → Prop) (hlf : LockFree o R) (evs : List (Event α)) :
    ∀ (s s' : State α), Inv o s → Owns R s → (∀ e ∈ evs, EvOk R e) → run o s evs = some s' →
      Owns R s' := by
  induction evs with
  | nil => intro s s' _ ho _ hr; simp only [run] at hr; injection hr with hr; subst hr; exact ho
  | cons e es ih =>
    intro s s' hi ho hev hr
    simp only [run] at hr
    split at hr
    · cases hr
    · rename_i s1 h1
      exact ih s1 s' (inv_step o s s1 e hi h1)
        (owns_step o R hlf s s1 e hi ho (hev e (by simp)) h1)
        (fun e' he' => hev e' (by simp [he'])) hr

/-! ### 4. undoing a directory chain and a hold -/

theorem run_append (o : Ops α) (a b : List (Event α)) : ∀ (s s' : State α),
    run o s (a ++ b) = some s' ↔ ∃ m, run o s a = some m ∧ run o m b = some s' := by
  induction a with
  | nil => intro s s'; simp [run]
  | cons e es ih =>
    intro s s'
    simp only [List.cons_append, run]
    cases step o s e with
    | none => simp
    | some s1 => exact ih s1 s'

theorem mkdir_look (o : Ops α) (s s' : State α) (d : α) (hs : step o s (.mkdir d) = some s') :
    look s.fs d = none ∧ (∀ q, look s'.fs q = if q = d then some .dir else look s.fs q)
      ∧ s'.holders = s.holders := by
  simp only [step] at hs
  split at hs
  · rename_i hc
    injection hs with hs; subst hs
    exact ⟨hc.1, fun q => look_put _ _ _ _, rfl⟩
  · cases hs

theorem rmdir_look (o : Ops α) (s s' : State α) (d : α) (hs : step o s (.rmdir d) = some s') :
    (∀ q, look s'.fs q = if q = d then none else look s.fs q) ∧ s'.holders = s.holders := by
  simp only [step] at hs
  split at hs
  · injection hs with hs; subst hs
    exact ⟨fun q => look_del _ _ _, rfl⟩
  · cases hs

theorem chain_undo (o : Ops α) (ds : List α) : ∀ (s0 s1 s2 s3 : State α),
    run o s0 (ds.map .mkdir) = some s1 → (∀ q, look s2.fs q = look s1.fs q) →
    run o s2 (ds.reverse.map .rmdir) = some s3 →
    (∀ q, look s3.fs q = look s0.fs q) ∧ s1.holders = s0.holders ∧ s3.holders = s2.holders := by
  induction ds with
  | nil =>
    intro s0 s1 s2 s3 h1 h12 h3
    simp only [List.map_nil, run, List.reverse_nil] at h1 h3
    injection h1 with h1; injection h3 with h3; subst h1; subst h3
    exact ⟨h12, rfl, rfl⟩
  | cons d ds ih =>
    intro s0 s1 s2 s3 h1 h12 h3
    simp only [List.map_cons, run] at h1
    split at h1
    · cases h1
    · rename_i sa ha
      simp only [List.reverse_cons, List.map_append, List.map_cons, List.map_nil] at h3
      rw [run_append] at h3
      obtain ⟨sb, hb1, hb2⟩ := h3
      obtain ⟨hq, hh1, hh3⟩ := ih sa s1 s2 sb h1 h12 hb1
      simp only [run] at hb2
      split at hb2
      · cases hb2
      · rename_i s3' h3'
        injection hb2 with hb2; subst hb2
        obtain ⟨hnone, hmk, hmh⟩ := mkdir_look o s0 sa d ha
        obtain ⟨hrm, hrh⟩ := rmdir_look o sb s3' d h3'
        refine ⟨fun q => ?_, by rw [hh1, hmh], by rw [hrh, hh3]⟩
        rw [hrm q, hq q, hmk q]
        by_cases hqd : q = d
        · simp [hqd, hnone]
        · simp [hqd]

/-- between `acquire` and `drop` of one holder with only its own writes in between, nothing but the
lock file changes, and the drop puts even that back -/
theorem writes_keep (o : Ops α) (h : Nat) (l r : α) (tl : List (Holder α))
    (hfresh : ∀ x ∈ tl, x.id ≠ h) (ws : List Bytes) : ∀ (s s' : State α) (buf : Bytes),
    s.holders = ⟨h, l, r, buf⟩ :: tl → run o s (ws.map (.write h)) = some s' →
    (∃ buf', s'.holders = ⟨h, l, r, buf'⟩ :: tl) ∧ ∀ q, q ≠ l → look s'.fs q = look s.fs q := by
  induction ws with
  | nil =>
    intro s s' buf hh hr
    simp only [List.map_nil, run] at hr
    injection hr with hr; subst hr
    exact ⟨⟨buf, hh⟩, fun _ _ => rfl⟩
  | cons c cs ih =>
    intro s s' buf hh hr
    simp only [List.map_cons, run] at hr
    split at hr
    · cases hr
    · rename_i s1 h1
      have hfind : findHolder s.holders h = some ⟨h, l, r, buf⟩ := by
        rw [hh]; simp [findHolder]
      simp only [step, hfind] at h1
      injection h1 with h1
      have htl : tl.map (fun x => if x.id = h then { x with buf := x.buf ++ c } else x) = tl := by
        rw [List.map_congr_left (g := id)]
        · simp
        · intro x hx; simp [hfresh x hx]
      have hh1 : s1.holders = ⟨h, l, r, buf ++ c⟩ :: tl := by
        rw [← h1]; simp only [hh, List.map_cons, if_true, htl]
      have hfs1 : ∀ q, q ≠ l → look s1.fs q = look s.fs q := by
        intro q hq
        rw [← h1]
        simp only
        split
        · split
          · exact look_put_ne _ _ _ _ hq
          · rfl
        · rfl
      obtain ⟨hb, hq⟩ := ih s1 s' (buf ++ c) hh1 hr
      exact ⟨hb, fun q hql => by rw [hq q hql, hfs1 q hql]⟩

theorem hold_undo (o : Ops α) (s1 sa sb s2 : State α) (h : Nat) (r : α) (ws : List Bytes)
    (h1 : step o s1 (.acquire h r) = some sa) (h2 : run o sa (ws.map (.write h)) = some sb)
    (h3 : step o sb (.drop h) = some s2) :
    (∀ q, look s2.fs q = look s1.fs q) ∧ s2.holders = s1.holders := by
  simp only [step] at h1
  split at h1
  · cases h1
  · rename_i l hl
    split at h1
    · cases h1
    · rename_i hfresh
      split at h1
      · rename_i hc
        injection h1 with h1
        have hids := findHolder_none (by simpa using hfresh)
        have hha : sa.holders = ⟨h, l, r, []⟩ :: s1.holders := by rw [← h1]
        obtain ⟨⟨buf', hhb⟩, hq⟩ := writes_keep o h l r s1.holders hids ws sa sb [] hha h2
        have hfind : findHolder sb.holders h = some ⟨h, l, r, buf'⟩ := by
          rw [hhb]; simp [findHolder]
        simp only [step, hfind] at h3
        injection h3 with h3
        refine ⟨fun q => ?_, ?_⟩
        · rw [← h3]
          simp only
          by_cases hql : q = l
          · rw [hql, look_del_self, hc.1]
          · rw [look_del_ne _ _ _ hql, hq q hql, ← h1]
            exact look_put_ne _ _ _ _ hql
        · rw [← h3]
          simp only [hhb, List.filter_cons, ne_eq, not_true_eq_false, decide_false, Bool.false_eq_true, if_false]
          rw [List.filter_eq_self]
          intro a ha
          simpa using hids a ha
      · cases h1

end Generic

/-! ### 5. component paths -/

theorem prefix_dropLast {β : Type} (b cur : List β) (hp : b <+: cur) (hne : cur ≠ b) :
    b <+: cur.dropLast := by
  obtain ⟨t, rfl⟩ := hp
  have ht : t ≠ [] := by intro e; subst e; simp at hne
  rw [List.dropLast_append_of_ne_nil ht]
  exact List.prefix_append _ _

theorem rmUpGo_below : ∀ (n : Nat) (fs : FS Path) (cur b : Path), b <+: cur → cur ≠ b →
    ∀ d ∈ rmUpGo n fs cur b, b <+: d ∧ d ≠ b ∧ d <+: cur := by
  intro n
  induction n with
  | zero => intro fs cur b _ _ d hd; simp [rmUpGo] at hd
  | succ n ih =>
    intro fs cur b hp hne d hd
    have hnext : ∀ fs' : FS Path,
        d ∈ (if cur.dropLast = b ∨ cur.isEmpty = true then [] else rmUpGo n fs' cur.dropLast b) →
        b <+: d ∧ d ≠ b ∧ d <+: cur := by
      intro fs' hd'
      split at hd'
      · cases hd'
      · rename_i hc
        have hc1 : cur.dropLast ≠ b := fun e => hc (Or.inl e)
        obtain ⟨a1, a2, a3⟩ := ih fs' cur.dropLast b (prefix_dropLast b cur hp hne) hc1 d hd'
        exact ⟨a1, a2, List.IsPrefix.trans a3 (List.dropLast_prefix cur)⟩
    simp only [rmUpGo] at hd
    split at hd
    · split at hd
      · cases hd
      · cases hd with
        | head => exact ⟨hp, hne, List.prefix_refl _⟩
        | tail _ hd' => exact hnext _ hd'
    · cases hd
    · exact hnext _ hd

theorem rmUp_below (fs : FS Path) (t b : Path) : ∀ d ∈ rmUp fs t b, b <+: d ∧ d ≠ b ∧ d <+: t := by
  intro d hd
  unfold rmUp at hd
  split at hd
  · cases hd
  · rename_i hp
    split at hd
    · cases hd
    · rename_i hne
      split at hd
      · cases hd
      · have hp' : b <+: t := by
          have : b.isPrefixOf t = true := by simpa using hp
          exact List.isPrefixOf_iff_prefix.mp this
        exact rmUpGo_below _ fs t b hp' hne d hd

theorem lkPath_ne (r l : Path) (h : lkPath r = some l) : l ≠ r := by
  unfold lkPath addLockSuffix at h
  split at h
  · rename_i a heq
    split at heq
    · injection heq with heq
      injection h with h
      intro e
      have h2 : joinSlash l = joinSlash r := by rw [e]
      rw [← h, joinSlash_splitSlash, ← heq, ← List.append_assoc, dir_file_append] at h2
      have := congrArg List.length h2
      simp [dotLock] at this
    · cases heq
  · cases h

end GixModel.C22
