import GixModel.Lemmas.C39Parse2
import GixModel.Lemmas.C38Parse
/-
C39 (round 2) — the body of an `attr:` element without backslashes, tabs and carriage returns:
gitoxide's `parse_attributes` (value check per space-separated element, the `!name=value` guard,
`gix_attributes::parse::Iter`) accepts exactly what git's `parse_pathspec_attr_match` accepts and yields
the same list of (name, match mode[, value]).
-/
namespace GixModel.Lemmas.C39
open GixModel GixModel.C38 GixModel.C39 GixModel.Spec.C39

/-- no tab, no carriage return (gitoxide would split the body there, git does not) -/
def BodyOk (s : Bytes) : Prop := ∀ b ∈ s, b ≠ 9 ∧ b ≠ 13

/-! ### tokens -/

theorem splitOnSpace_mem : ∀ (s acc : Bytes) (t : Bytes), t ∈ splitOnSpace acc s → ∀ b ∈ t, b ∈ acc ∨ b ∈ s := by
  intro s
  induction s with
  | nil =>
    intro acc t ht b hb
    simp only [splitOnSpace, List.mem_singleton] at ht
    subst ht
    exact Or.inl (List.mem_reverse.mp hb)
  | cons x s ih =>
    intro acc t ht b hb
    rw [splitOnSpace.eq_def] at ht
    simp only at ht
    by_cases hx : (x == 32) = true
    · simp only [hx, if_true, List.mem_cons] at ht
      rcases ht with rfl | ht
      · exact Or.inl (List.mem_reverse.mp hb)
      · rcases ih [] t ht b hb with h | h
        · simp at h
        · exact Or.inr (List.mem_cons_of_mem _ h)
    · simp only [hx] at ht
      rcases ih (x :: acc) t ht b hb with h | h
      · rcases List.mem_cons.mp h with rfl | h'
        · exact Or.inr (by simp)
        · exact Or.inl h'
      · exact Or.inr (List.mem_cons_of_mem _ h)

theorem splitOnSpace_nospace : ∀ (s acc : Bytes), (∀ b ∈ acc, b ≠ 32) → ∀ t ∈ splitOnSpace acc s, ∀ b ∈ t, b ≠ 32 := by
  intro s
  induction s with
  | nil =>
    intro acc hacc t ht b hb
    simp only [splitOnSpace, List.mem_singleton] at ht
    subst ht
    exact hacc b (List.mem_reverse.mp hb)
  | cons x s ih =>
    intro acc hacc t ht
    rw [splitOnSpace.eq_def] at ht
    simp only at ht
    by_cases hx : (x == 32) = true
    · simp only [hx, if_true, List.mem_cons] at ht
      rcases ht with rfl | ht
      · intro b hb; exact hacc b (List.mem_reverse.mp hb)
      · exact ih [] (by simp) t ht
    · simp only [hx] at ht
      have hx' : x ≠ 32 := by simpa using hx
      exact ih (x :: acc) (by intro b hb; rcases List.mem_cons.mp hb with rfl | h; exact hx'; exact hacc b h) t ht

/-- `fields` (blanks: space, tab, CR) on a string whose only blanks are spaces: the non-empty pieces -/
theorem fieldsAux_eq_split : ∀ (s acc : Bytes), (∀ b ∈ s, b ≠ 9 ∧ b ≠ 13) →
    fieldsAux acc s = (splitOnSpace acc s).filter fun t => !t.isEmpty := by
  intro s
  induction s with
  | nil =>
    intro acc _
    simp only [fieldsAux, splitOnSpace]
    by_cases ha : acc.isEmpty = true
    · have : acc = [] := by simpa using ha
      simp [this]
    · have : acc.reverse.isEmpty = false := by
        cases acc with
        | nil => simp at ha
        | cons _ _ => simp
      simp [ha, this]
  | cons x s ih =>
    intro acc hs
    have hx := hs x (by simp)
    have hs' : ∀ b ∈ s, b ≠ 9 ∧ b ≠ 13 := fun b hb => hs b (by simp [hb])
    rw [fieldsAux.eq_def, splitOnSpace.eq_def]
    simp only
    by_cases h32 : (x == 32) = true
    · have hb : isBlank x = true := by
        have : x = 32 := by simpa using h32
        subst this; rfl
      simp only [hb, h32, if_true, List.filter_cons]
      by_cases ha : acc.isEmpty = true
      · have : acc = [] := by simpa using ha
        subst this
        simp [ih [] hs']
      · have : acc.reverse.isEmpty = false := by
          cases acc with
          | nil => simp at ha
          | cons _ _ => simp
        simp [ha, this, ih [] hs']
    · have hb : isBlank x = false := by
        unfold isBlank
        have h1 : (x == 32) = false := by simpa using h32
        have h2 : (x == 9) = false := by simpa using hx.1
        have h3 : (x == 13) = false := by simpa using hx.2
        simp [h1, h2, h3]
      simp only [hb, h32, Bool.false_eq_true, if_false]
      exact ih (x :: acc) hs'

theorem splitOnSpace_token (t : Bytes) (ht : ∀ b ∈ t, b ≠ 32) : ∀ (acc rest : Bytes),
    splitOnSpace acc (t ++ 32 :: rest) = (acc.reverse ++ t) :: splitOnSpace [] rest := by
  induction t with
  | nil => intro acc rest; rw [List.nil_append, splitOnSpace.eq_def]; simp
  | cons x t ih =>
    intro acc rest
    have hx : (x == 32) = false := by simpa using ht x (by simp)
    rw [List.cons_append, splitOnSpace.eq_def]
    simp only [hx, Bool.false_eq_true, if_false]
    rw [ih (fun b hb => ht b (by simp [hb]))]
    simp

theorem splitOnSpace_join (toks : List Bytes) (h : ∀ t ∈ toks, ∀ b ∈ t, b ≠ 32) :
    splitOnSpace [] (joinSpace toks) = toks ++ [[]] := by
  induction toks with
  | nil => rfl
  | cons t toks ih =>
    simp only [joinSpace, List.append_assoc, List.singleton_append]
    rw [splitOnSpace_token t (h t (by simp)), ih (fun x hx => h x (by simp [hx]))]
    simp

/-! ### one element -/

def p5bad (tok : Bytes) : Bool := (tok.head? == some 33 || tok.head? == some 45) && tok.contains 61

/-- what gitoxide makes of one element: unescape the value, refuse `!name=value`/`-name=value`, then
`gix_attributes::parse::Iter` -/
def gixTok (tok : Bytes) : Option Asg :=
  (unescapeToken tok).bind fun t' => if p5bad t' then none else parseAttr t'

theorem unescapeValue_esc (c : UInt8) (rest : Bytes) :
    unescapeValue (92 :: c :: rest) = if validValueByte c then (unescapeValue rest).map (c :: ·) else none := by
  rw [unescapeValue]

theorem attrValueUnescape_esc (c : UInt8) (rest : Bytes) :
    attrValueUnescape (92 :: c :: rest) = if validValueChar c then (attrValueUnescape rest).map (c :: ·) else none := by
  rw [attrValueUnescape]

theorem unescapeValue_ne (x : UInt8) (rest : Bytes) (hx : x ≠ 92) :
    unescapeValue (x :: rest) = if validValueByte x then (unescapeValue rest).map (x :: ·) else none := by
  rw [unescapeValue.eq_def]
  split
  · rename_i heq; injection heq
  · rename_i heq; injection heq with h _; exact absurd h hx
  · rename_i heq; injection heq with h _; exact absurd h hx
  · rename_i b rest' _ _ heq
    injection heq with h1 h2
    subst h1; subst h2; rfl

theorem attrValueUnescape_ne (x : UInt8) (rest : Bytes) (hx : x ≠ 92) :
    attrValueUnescape (x :: rest) = if validValueChar x then (attrValueUnescape rest).map (x :: ·) else none := by
  rw [attrValueUnescape.eq_def]
  split
  · rename_i heq; injection heq
  · rename_i heq; injection heq with h _; exact absurd h hx
  · rename_i heq; injection heq with h _; exact absurd h hx
  · rename_i b rest' _ _ heq
    injection heq with h1 h2
    subst h1; subst h2; rfl

theorem attrValueUnescape_eq_aux : ∀ (n : Nat) (v : Bytes), v.length ≤ n → attrValueUnescape v = unescapeValue v := by
  intro n
  induction n with
  | zero =>
    intro v hv
    have : v = [] := by cases v with | nil => rfl | cons _ _ => simp at hv
    subst this; rfl
  | succ n ih =>
    intro v hv
    cases v with
    | nil => rfl
    | cons x v' =>
      have hsame : ∀ c, validValueChar c = validValueByte c := fun _ => rfl
      by_cases hx : x = 92
      · subst hx
        cases v' with
        | nil => rfl
        | cons c r =>
          rw [unescapeValue_esc, attrValueUnescape_esc, hsame, ih r (by simp at hv ⊢; omega)]
      · rw [unescapeValue_ne x v' hx, attrValueUnescape_ne x v' hx, hsame, ih v' (by simp at hv ⊢; omega)]

theorem attrValueUnescape_eq (v : Bytes) : attrValueUnescape v = unescapeValue v :=
  attrValueUnescape_eq_aux v.length v (Nat.le_refl _)

theorem unescapeValue_plain (v : Bytes) (hv : ∀ b ∈ v, b ≠ 92) :
    unescapeValue v = if v.all validValueByte then some v else none := by
  induction v with
  | nil => rfl
  | cons x v ih =>
    have hx : x ≠ 92 := hv x (by simp)
    rw [unescapeValue.eq_def]
    split
    · rename_i heq; injection heq
    · rename_i heq; injection heq with h _; exact absurd h hx
    · rename_i heq; injection heq with h _; exact absurd h hx
    · rename_i b rest _ _ heq
      injection heq with h1 h2
      subst h1; subst h2
      rw [ih (fun b hb => hv b (by simp [hb]))]
      by_cases hvx : validValueByte x = true
      · simp only [hvx, if_true, List.all_cons, Bool.true_and]
        split <;> rfl
      · simp [hvx]

/-- unescaping only removes backslashes -/
theorem unescapeValue_sub_aux : ∀ (n : Nat) (v : Bytes), v.length ≤ n → ∀ v', unescapeValue v = some v' → ∀ b ∈ v', b ∈ v := by
  intro n
  induction n with
  | zero =>
    intro v hv v' h b hb
    have : v = [] := by cases v with | nil => rfl | cons _ _ => simp at hv
    subst this
    simp [unescapeValue] at h
    subst h; simp at hb
  | succ n ih =>
    intro v hv v' h b hb
    cases v with
    | nil => simp [unescapeValue] at h; subst h; simp at hb
    | cons x t =>
      by_cases hx : x = 92
      · subst hx
        cases t with
        | nil => simp [unescapeValue] at h
        | cons c r =>
          rw [unescapeValue_esc] at h
          by_cases hc : validValueByte c = true
          · rw [if_pos hc] at h
            cases hr : unescapeValue r with
            | none => simp [hr] at h
            | some r' =>
              simp only [hr, Option.map_some, Option.some.injEq] at h
              subst h
              rcases List.mem_cons.mp hb with rfl | hb'
              · simp
              · have := ih r (by simp at hv ⊢; omega) r' hr b hb'
                simp [this]
          · rw [if_neg hc] at h; simp at h
      · rw [unescapeValue_ne x t hx] at h
        by_cases hc : validValueByte x = true
        · rw [if_pos hc] at h
          cases hr : unescapeValue t with
          | none => simp [hr] at h
          | some r' =>
            simp only [hr, Option.map_some, Option.some.injEq] at h
            subst h
            rcases List.mem_cons.mp hb with rfl | hb'
            · simp
            · have := ih t (by simp at hv ⊢; omega) r' hr b hb'
              simp [this]
        · rw [if_neg hc] at h; simp at h

theorem unescapeValue_sub (v v' : Bytes) (h : unescapeValue v = some v') : ∀ b ∈ v', b ∈ v :=
  unescapeValue_sub_aux v.length v (Nat.le_refl _) v' h

/-- a token with `=`: the name, `=`, the value -/
theorem split_eq (tok : Bytes) (h : tok.contains 61 = true) :
    tok = tok.takeWhile (· != 61) ++ 61 :: (tok.dropWhile (· != 61)).drop 1 ∧ ∀ b ∈ tok.takeWhile (· != 61), b ≠ 61 := by
  induction tok with
  | nil => simp at h
  | cons x t ih =>
    by_cases hx : x = 61
    · subst hx; simp
    · have hm : (61 : UInt8) ∈ t := by
        have : (61 : UInt8) ∈ x :: t := by simpa using h
        rcases List.mem_cons.mp this with h' | h'
        · exact absurd h'.symm hx
        · exact h'
      obtain ⟨h1, h2⟩ := ih (by simpa using hm)
      have hne : (x != 61) = true := by simpa using hx
      simp only [List.takeWhile_cons, List.dropWhile_cons, hne, if_true, List.cons_append]
      refine ⟨by rw [← h1], ?_⟩
      intro b hb
      rcases List.mem_cons.mp hb with rfl | hb'
      · exact hx
      · exact h2 b hb'

theorem unescapeToken_eq (tok : Bytes) :
    unescapeToken tok = if tok.contains 61 then
        (unescapeValue ((tok.dropWhile (· != 61)).drop 1)).map fun v => tok.takeWhile (· != 61) ++ 61 :: v
      else some tok := by
  unfold unescapeToken
  by_cases hc : tok.contains 61 = true
  · rw [if_pos hc, if_pos hc]
    simp only
    by_cases h92 : ((tok.dropWhile (· != 61)).drop 1).contains 92 = true
    · rw [if_pos h92]
      cases unescapeValue ((tok.dropWhile (· != 61)).drop 1) <;> simp
    · rw [if_neg h92]
      have hno : ∀ b ∈ (tok.dropWhile (· != 61)).drop 1, b ≠ 92 := by
        intro b hb hb92
        subst hb92
        apply h92
        simpa using hb
      rw [unescapeValue_plain _ hno]
      by_cases hv : ((tok.dropWhile (· != 61)).drop 1).all validValueByte = true
      · rw [if_pos hv, if_pos hv]
        simp only [Option.map_some, Option.some.injEq]
        exact (split_eq tok hc).1
      · rw [if_neg hv, if_neg hv]; rfl
  · rw [if_neg hc, if_neg hc]

theorem attrNameValid_of_eq (r : Bytes) (h : (61 : UInt8) ∈ r) : GixModel.Spec.C38.attrNameValid r = false := by
  unfold GixModel.Spec.C38.attrNameValid
  have : r.all attrChar = false := by
    apply Bool.eq_false_iff.mpr
    intro ha
    have := List.all_eq_true.mp ha 61 h
    revert this; decide
  simp [this]

/-- tokens without `=`: `Iter::parse_attr` is git's reading -/
theorem parseAttr_noeq (tok : Bytes) (hc : ¬ (61 : UInt8) ∈ tok) : parseAttr tok = parseAttrMatch tok := by
  rw [GixModel.Lemmas.C38.parseAttr_pair]
  cases tok with
  | nil => rfl
  | cons x t =>
    have hmt : ¬ (61 : UInt8) ∈ t := fun h => hc (List.mem_cons_of_mem _ h)
    have hx61 : x ≠ 61 := fun h => hc (by simp [h])
    have hct : t.contains 61 = false := by simpa using hmt
    have hcx : (x :: t).contains 61 = false := by simpa using hc
    have htw : t.takeWhile (· != 61) = t := ((GixModel.Lemmas.C38.indexOfEq_contains t).2 hct).2
    have htwx : (x :: t).takeWhile (· != 61) = x :: t := ((GixModel.Lemmas.C38.indexOfEq_contains (x :: t)).2 hcx).2
    by_cases h33 : x = 33
    · subst h33
      have hpair : GixModel.Lemmas.C38.modelPair (33 :: t) = (t, St.unspecified) := by
        unfold GixModel.Lemmas.C38.modelPair
        simp [List.takeWhile_cons, htw]
      unfold parseAttrMatch
      simp only [hpair, GixModel.Lemmas.C38.attrNameValid_eq]
    · by_cases h45 : x = 45
      · subst h45
        have hpair : GixModel.Lemmas.C38.modelPair (45 :: t) = (t, St.unset) := by
          unfold GixModel.Lemmas.C38.modelPair
          simp [List.takeWhile_cons, htw]
        unfold parseAttrMatch
        simp only [hpair, GixModel.Lemmas.C38.attrNameValid_eq]
      · have hgit : parseAttrMatch (x :: t) =
            (if !GixModel.Spec.C38.attrNameValid ((x :: t).takeWhile (· != 61)) then none
             else if (x :: t).contains 61 then
               (attrValueUnescape (((x :: t).dropWhile (· != 61)).drop 1)).map fun v => ⟨(x :: t).takeWhile (· != 61), St.value v⟩
             else some ⟨(x :: t).takeWhile (· != 61), St.set⟩) := by
          unfold parseAttrMatch
          split
          · rename_i heq; injection heq with h _; exact absurd h h33
          · rename_i heq; injection heq with h _; exact absurd h h45
          · rfl
        have hpair : GixModel.Lemmas.C38.modelPair (x :: t) = (x :: t, St.set) := by
          unfold GixModel.Lemmas.C38.modelPair
          rw [htwx, hcx]
          split
          · rename_i heq; injection heq with h _; exact absurd h h45
          · rename_i heq; injection heq with h _; exact absurd h h33
          · rfl
        rw [hgit, hpair, htwx, hcx, GixModel.Lemmas.C38.attrNameValid_eq]
        cases attrValid (x :: t) <;> simp

/-- tokens `name=value` after unescaping, on gitoxide's side -/
theorem gix_named (name v : Bytes) (hn : ∀ b ∈ name, b ≠ 61) :
    (if p5bad (name ++ 61 :: v) then none else parseAttr (name ++ 61 :: v))
      = if (name.head? == some 33 || name.head? == some 45) then none
        else if attrValid name then some ⟨name, St.value v⟩ else none := by
  obtain ⟨htw, hdw⟩ := takeWhile_append_stop name 61 v (fun b => b != 61) (fun b hb => by simpa using hn b hb) (by simp)
  have hcont : (name ++ 61 :: v).contains 61 = true := by simp
  have hhead : (name ++ 61 :: v).head? = if name.isEmpty then some 61 else name.head? := by
    cases name <;> rfl
  have hp5 : p5bad (name ++ 61 :: v) = (name.head? == some 33 || name.head? == some 45) := by
    unfold p5bad
    rw [hcont, hhead]
    cases name with
    | nil => simp
    | cons a r => simp
  rw [hp5]
  by_cases hh : (name.head? == some 33 || name.head? == some 45) = true
  · simp [hh]
  · simp only [hh, Bool.false_eq_true, if_false]
    rw [GixModel.Lemmas.C38.parseAttr_pair]
    have hpair : GixModel.Lemmas.C38.modelPair (name ++ 61 :: v) = (name, St.value v) := by
      unfold GixModel.Lemmas.C38.modelPair
      rw [htw, hdw, hcont]
      simp only [if_true, List.drop_succ_cons, List.drop_zero]
      split
      · simp at hh
      · simp at hh
      · rfl
    rw [hpair]

/-- tokens `name=value`, on git's side -/
theorem git_named (name value : Bytes) (hn : ∀ b ∈ name, b ≠ 61) :
    parseAttrMatch (name ++ 61 :: value)
      = if (name.head? == some 33 || name.head? == some 45) then none
        else if attrValid name then (unescapeValue value).map fun v => ⟨name, St.value v⟩ else none := by
  obtain ⟨htw, hdw⟩ := takeWhile_append_stop name 61 value (fun b => b != 61) (fun b hb => by simpa using hn b hb) (by simp)
  have hcont : (name ++ 61 :: value).contains 61 = true := by simp
  cases name with
  | nil =>
    have : parseAttrMatch ([] ++ 61 :: value) = none := by
      unfold parseAttrMatch
      simp [GixModel.Spec.C38.attrNameValid]
    rw [this]
    have : attrValid [] = false := by decide
    simp [this]
  | cons a r =>
    by_cases h33 : a = 33
    · subst h33
      unfold parseAttrMatch
      simp [attrNameValid_of_eq (r ++ 61 :: value) (by simp)]
    · by_cases h45 : a = 45
      · subst h45
        unfold parseAttrMatch
        simp [attrNameValid_of_eq (r ++ 61 :: value) (by simp)]
      · have hgit : parseAttrMatch ((a :: r) ++ 61 :: value) =
            (if !GixModel.Spec.C38.attrNameValid (((a :: r) ++ 61 :: value).takeWhile (· != 61)) then none
             else if ((a :: r) ++ 61 :: value).contains 61 then
               (attrValueUnescape ((((a :: r) ++ 61 :: value).dropWhile (· != 61)).drop 1)).map
                 fun v => ⟨((a :: r) ++ 61 :: value).takeWhile (· != 61), St.value v⟩
             else some ⟨((a :: r) ++ 61 :: value).takeWhile (· != 61), St.set⟩) := by
          unfold parseAttrMatch
          split
          · rename_i heq; injection heq with h _; exact absurd h h33
          · rename_i heq; injection heq with h _; exact absurd h h45
          · rfl
        rw [hgit, htw, hdw, hcont, attrValueUnescape_eq, GixModel.Lemmas.C38.attrNameValid_eq]
        simp only [if_true, List.drop_succ_cons, List.drop_zero, List.head?_cons, Option.some.injEq, beq_iff_eq, h33, h45,
          Bool.or_self, Bool.false_eq_true, if_false]
        cases attrValid (a :: r) <;> simp [h33, h45]

/-- **one element**: gitoxide and git read every non-empty element alike (escapes included) -/
theorem gixTok_eq_git (tok : Bytes) : gixTok tok = parseAttrMatch tok := by
  unfold gixTok
  rw [unescapeToken_eq]
  by_cases hc : tok.contains 61 = true
  · obtain ⟨hsplit, hname⟩ := split_eq tok hc
    simp only [hc, if_true]
    generalize tok.takeWhile (· != 61) = name at hsplit hname
    generalize (tok.dropWhile (· != 61)).drop 1 = value at hsplit
    subst hsplit
    rw [git_named name value hname]
    cases hu : unescapeValue value with
    | none =>
      simp only [Option.map_none, Option.bind_none]
      split
      · rfl
      · split <;> rfl
    | some v =>
      simp only [Option.map_some, Option.bind_some]
      exact gix_named name v hname
  · have hm : ¬ (61 : UInt8) ∈ tok := by simpa using hc
    have hp5 : p5bad tok = false := by
      unfold p5bad
      have : tok.contains 61 = false := by simpa using hc
      rw [this, Bool.and_false]
    simp only [hc, Bool.false_eq_true, if_false, Option.bind_some, hp5]
    exact parseAttr_noeq tok hm

/-! ### the whole body -/

theorem unescapeToken_sub (t t' : Bytes) (h : unescapeToken t = some t') : ∀ b ∈ t', b ∈ t := by
  rw [unescapeToken_eq] at h
  by_cases hc : t.contains 61 = true
  · rw [if_pos hc] at h
    obtain ⟨hs, _⟩ := split_eq t hc
    cases hu : unescapeValue ((t.dropWhile (· != 61)).drop 1) with
    | none => rw [hu] at h; simp at h
    | some v =>
      simp only [hu, Option.map_some, Option.some.injEq] at h
      subst h
      intro b hb
      rw [hs]
      rcases List.mem_append.mp hb with hb | hb
      · exact List.mem_append.mpr (Or.inl hb)
      · rcases List.mem_cons.mp hb with rfl | hb
        · simp
        · have := unescapeValue_sub _ v hu b hb
          exact List.mem_append.mpr (Or.inr (List.mem_cons_of_mem _ this))
  · rw [if_neg hc] at h
    injection h with h; subst h
    intro b hb; exact hb

theorem unescapeToken_isEmpty (t t' : Bytes) (h : unescapeToken t = some t') : t'.isEmpty = t.isEmpty := by
  rw [unescapeToken_eq] at h
  by_cases hc : t.contains 61 = true
  · rw [if_pos hc] at h
    have hne : t.isEmpty = false := by cases t with | nil => simp at hc | cons _ _ => rfl
    cases hu : unescapeValue ((t.dropWhile (· != 61)).drop 1) with
    | none => rw [hu] at h; simp at h
    | some v =>
      simp only [hu, Option.map_some, Option.some.injEq] at h
      subst h
      rw [hne]
      cases t.takeWhile (· != 61) <;> rfl
  · rw [if_neg hc] at h
    injection h with h; subst h; rfl

theorem unescapeToken_none (t : Bytes) (h : unescapeToken t = none) : t.isEmpty = false := by
  cases t with
  | nil => simp [unescapeToken] at h
  | cons _ _ => rfl

theorem p5bad_nonempty (t : Bytes) (h : p5bad t = true) : t.isEmpty = false := by
  cases t with
  | nil => simp [p5bad] at h
  | cons _ _ => rfl

/-- unescape everything, look for `!name=value`, then parse — element by element -/
theorem body_fold (toks : List Bytes) :
    ((allSome (toks.map unescapeToken)).bind fun ts' =>
        if ts'.any p5bad then none else allSome ((ts'.filter fun t => !t.isEmpty).map parseAttr))
      = allSome ((toks.filter fun t => !t.isEmpty).map gixTok) := by
  induction toks with
  | nil => rfl
  | cons t ts ih =>
    simp only [List.map_cons]
    rw [allSome_cons]
    cases hu : unescapeToken t with
    | none =>
      have hne := unescapeToken_none t hu
      simp only [Option.bind_none, List.filter_cons, hne, Bool.not_false, if_true, List.map_cons]
      rw [allSome_cons]
      simp [gixTok, hu]
    | some t' =>
      have hie := unescapeToken_isEmpty t t' hu
      simp only [Option.bind_some]
      by_cases hte : t.isEmpty = true
      · -- an empty element: skipped by both
        have ht'e : t'.isEmpty = true := by rw [hie]; exact hte
        have hp5 : p5bad t' = false := by
          have : t' = [] := by simpa using ht'e
          subst this; rfl
        simp only [List.filter_cons, hte, Bool.not_true, Bool.false_eq_true, if_false]
        rw [← ih]
        cases allSome (ts.map unescapeToken) with
        | none => rfl
        | some ts' =>
          simp only [Option.map_some, Option.bind_some, List.any_cons, hp5, Bool.false_or, List.filter_cons, ht'e,
            Bool.not_true, Bool.false_eq_true, if_false]
      · have hte' : t.isEmpty = false := by simpa using hte
        have ht'e : t'.isEmpty = false := by rw [hie]; exact hte'
        simp only [List.filter_cons, hte', Bool.not_false, if_true, List.map_cons]
        rw [allSome_cons, ← ih]
        have hg : gixTok t = if p5bad t' then none else parseAttr t' := by simp [gixTok, hu]
        rw [hg]
        cases allSome (ts.map unescapeToken) with
        | none =>
          simp only [Option.map_none, Option.bind_none]
          cases (if p5bad t' = true then none else parseAttr t') <;> rfl
        | some ts' =>
          simp only [Option.map_some, Option.bind_some, List.any_cons, List.filter_cons, ht'e, Bool.not_false, if_true,
            List.map_cons]
          by_cases hp5 : p5bad t' = true
          · simp [hp5]
          · have hp5' : p5bad t' = false := by simpa using hp5
            simp only [hp5', Bool.false_or, Bool.false_eq_true, if_false]
            by_cases hany : ts'.any p5bad = true
            · simp only [hany, if_true]
              cases parseAttr t' <;> rfl
            · simp only [hany, Bool.false_eq_true, if_false]
              rw [allSome_cons]

theorem joinSpace_mem (toks : List Bytes) : ∀ b ∈ joinSpace toks, b = 32 ∨ ∃ t ∈ toks, b ∈ t := by
  induction toks with
  | nil => intro b hb; simp [joinSpace] at hb
  | cons t ts ih =>
    intro b hb
    simp only [joinSpace, List.append_assoc, List.singleton_append, List.mem_append, List.mem_cons] at hb
    rcases hb with hb | rfl | hb
    · exact Or.inr ⟨t, by simp, hb⟩
    · exact Or.inl rfl
    · rcases ih b hb with h | ⟨t', ht', hbt⟩
      · exact Or.inl h
      · exact Or.inr ⟨t', List.mem_cons_of_mem _ ht', hbt⟩

/-- **the body of `attr:`**: gitoxide's `parse_attributes` and git's `parse_pathspec_attr_match` read
every body without tab and CR alike (escapes included) -/
theorem parseAttributes_eq (body : Bytes) (hb : BodyOk body) :
    parseAttributes body = if body.isEmpty then none
      else allSome (((splitOnSpace [] body).filter fun t => !t.isEmpty).map parseAttrMatch) := by
  have hgit : ((splitOnSpace [] body).filter fun t => !t.isEmpty).map parseAttrMatch
      = ((splitOnSpace [] body).filter fun t => !t.isEmpty).map gixTok :=
    List.map_congr_left fun t _ => (gixTok_eq_git t).symm
  rw [hgit, ← body_fold]
  unfold parseAttributes
  by_cases he : body.isEmpty = true
  · simp [he]
  · simp only [he, Bool.false_eq_true, if_false]
    have hp5 : (fun t : Bytes => (t.head? == some 33 || t.head? == some 45) && t.contains 61) = p5bad := rfl
    rw [hp5]
    have htoks : ∀ t ∈ splitOnSpace [] body, ∀ b ∈ t, b ∈ body ∧ b ≠ 32 := by
      intro t ht b hbt
      refine ⟨?_, splitOnSpace_nospace body [] (by simp) t ht b hbt⟩
      rcases splitOnSpace_mem body [] t ht b hbt with h | h
      · simp at h
      · exact h
    unfold unescapeAttrValues
    by_cases hc : body.contains 61 = true
    · simp only [hc, Bool.not_true, Bool.false_eq_true, if_false]
      cases hall : allSome ((splitOnSpace [] body).map unescapeToken) with
      | none => rfl
      | some ts' =>
        simp only [Option.map_some, Option.bind_some]
        have hmap := allSome_some _ _ hall
        have hts' : ∀ t' ∈ ts', ∀ b ∈ t', b ∈ body ∧ b ≠ 32 := by
          intro t' ht' b hbt
          have : some t' ∈ (splitOnSpace [] body).map unescapeToken := by
            rw [hmap]; exact List.mem_map.mpr ⟨t', ht', rfl⟩
          obtain ⟨t, ht, hut⟩ := List.mem_map.mp this
          exact htoks t ht b (unescapeToken_sub t t' hut b hbt)
        rw [splitOnSpace_join ts' (fun t ht b hbt => (hts' t ht b hbt).2)]
        have hany : (ts' ++ [[]]).any p5bad = ts'.any p5bad := by
          rw [List.any_append]
          have : p5bad [] = false := rfl
          simp [this]
        rw [hany]
        unfold parseAttrs fields
        rw [fieldsAux_eq_split (joinSpace ts') []]
        · rw [splitOnSpace_join ts' (fun t ht b hbt => (hts' t ht b hbt).2)]
          simp
        · intro b hbj
          rcases joinSpace_mem ts' b hbj with rfl | ⟨t', ht', hbt⟩
          · exact ⟨by decide, by decide⟩
          · exact hb b (hts' t' ht' b hbt).1
    · have hc0 : body.contains 61 = false := by simpa using hc
      simp only [hc0, Bool.not_false, if_true]
      have hsome : (splitOnSpace [] body).map unescapeToken = (splitOnSpace [] body).map some := by
        apply List.map_congr_left
        intro t ht
        rw [unescapeToken_eq]
        have : t.contains 61 = false := by
          apply Bool.eq_false_iff.mpr
          intro h
          have hm : (61 : UInt8) ∈ t := by simpa using h
          have := (htoks t ht 61 hm).1
          have : body.contains 61 = true := by simpa using this
          rw [hc0] at this; exact Bool.noConfusion this
        simp only [this, Bool.false_eq_true, if_false]
      rw [hsome, allSome_map_some]
      simp only [Option.bind_some]
      unfold parseAttrs fields
      rw [fieldsAux_eq_split body [] hb]

/-- a byte that is no space ends up in an element -/
theorem splitOnSpace_cover : ∀ (s acc : Bytes) (b : UInt8), b ≠ 32 → (b ∈ acc ∨ b ∈ s) →
    ∃ t ∈ splitOnSpace acc s, b ∈ t := by
  intro s
  induction s with
  | nil =>
    intro acc b _ h
    rcases h with h | h
    · exact ⟨acc.reverse, by simp [splitOnSpace], List.mem_reverse.mpr h⟩
    · simp at h
  | cons x s ih =>
    intro acc b hb h
    rw [splitOnSpace.eq_def]
    simp only
    by_cases hx : (x == 32) = true
    · simp only [hx, if_true]
      rcases h with h | h
      · exact ⟨acc.reverse, by simp, List.mem_reverse.mpr h⟩
      · rcases List.mem_cons.mp h with rfl | h'
        · exact absurd (by simpa using hx) hb
        · obtain ⟨t, ht, hbt⟩ := ih [] b hb (Or.inr h')
          exact ⟨t, List.mem_cons_of_mem _ ht, hbt⟩
    · simp only [hx]
      apply ih (x :: acc) b hb
      rcases h with h | h
      · exact Or.inl (List.mem_cons_of_mem _ h)
      · rcases List.mem_cons.mp h with rfl | h'
        · exact Or.inl (by simp)
        · exact Or.inr h'

theorem allSome_length {α : Type} (l : List (Option α)) (r : List α) (h : allSome l = some r) : r.length = l.length := by
  have := allSome_some l r h
  rw [this]; simp

/-- a body with a byte that is no space yields at least one assignment -/
theorem parseAttributes_ne (body : Bytes) (hb : BodyOk body) (hs : ∃ b ∈ body, b ≠ 32) (as : List Asg)
    (h : parseAttributes body = some as) : as ≠ [] := by
  rw [parseAttributes_eq body hb] at h
  by_cases he : body.isEmpty = true
  · simp [he] at h
  · simp only [he, Bool.false_eq_true, if_false] at h
    have hl := allSome_length _ _ h
    obtain ⟨b, hbm, hb32⟩ := hs
    obtain ⟨t, ht, hbt⟩ := splitOnSpace_cover body [] b hb32 (Or.inr hbm)
    have : t ∈ (splitOnSpace [] body).filter fun t => !t.isEmpty := by
      apply List.mem_filter.mpr
      refine ⟨ht, ?_⟩
      cases t with
      | nil => simp at hbt
      | cons _ _ => rfl
    intro hnil
    subst hnil
    simp only [List.length_nil, List.length_map] at hl
    have := List.length_pos_of_mem this
    omega

end GixModel.Lemmas.C39
