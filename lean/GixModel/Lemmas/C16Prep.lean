/-
C16: what `prepare_inner`'s loop over the edits does when no lock is in the way — it is a plain
left-to-right pass (`prepSeq`) that stops at the first expectation that does not hold.
-/
import GixModel.Lemmas.C17

namespace GixModel.C17

/-- the lock flag `lock_ref_and_apply_change` leaves on an edit when every acquisition succeeds -/
def wantLock (cx : Ctx) (existing : Option Target) (e : Edit) : Bool :=
  match e.update.change with
  | .delete _ _ => !cx.hasGlobalLock
  | .update _ _ new =>
    ((effectiveness existing new).1 && !(cx.directToPacked && packable e.name)) || (effectiveness existing new).2

/-- the edit as `lock_ref_and_apply_change` leaves it -/
def applied (cx : Ctx) (existing : Option Target) (e : Edit) : Edit :=
  match e.update.change with
  | .delete expected log =>
    { e with update := { e.update with change := .delete (recordExisting existing expected) log },
             lock := wantLock cx existing e }
  | .update log expected new =>
    { e with update := { e.update with change := .update log (recordExisting existing expected) new },
             lock := wantLock cx existing e }

/-- the expectation check of one edit against the value read for its name -/
def checkC (existing : Option Target) (e : Edit) : Option CheckErr :=
  match e.update.change with
  | .delete expected _ => checkDelete expected existing
  | .update _ expected new => checkUpdate expected existing new

theorem lockAndApply_fresh (cx : Ctx) (S : Store) (e : Edit) (hf : e.name ∉ S.locks) :
    lockAndApply cx S e =
      match checkC (readExisting S cx.buffer e.name) e with
      | some ce => .error (.check ce)
      | none => .ok ({ S with locks := if wantLock cx (readExisting S cx.buffer e.name) e then e.name :: S.locks else S.locks },
                     applied cx (readExisting S cx.buffer e.name) e) := by
  have hacq : acquire S e.name = some { S with locks := e.name :: S.locks } := by simp [acquire, hf]
  unfold lockAndApply checkC applied wantLock
  cases hch : e.update.change with
  | delete expected log =>
    simp only []
    cases hg : cx.hasGlobalLock
    · simp only [hacq, Option.map_some, Bool.false_eq_true, if_false]
      cases checkDelete expected (readExisting S cx.buffer e.name) <;> simp
    · simp only [if_true]
      cases checkDelete expected (readExisting S cx.buffer e.name) <;> simp
  | update log expected new =>
    simp only []
    rcases Bool.eq_false_or_eq_true ((effectiveness (readExisting S cx.buffer e.name) new).1 && !(cx.directToPacked && packable e.name) ||
      (effectiveness (readExisting S cx.buffer e.name) new).2) with hc | hc
    · cases hg : cx.hasGlobalLock
      · simp only [hacq, Option.map_some, Bool.false_eq_true, if_false, hc, if_true]
        cases checkUpdate expected (readExisting S cx.buffer e.name) new <;> simp
      · simp only [if_true, hc, Bool.false_eq_true, if_false, hacq]
        cases checkUpdate expected (readExisting S cx.buffer e.name) new <;> simp
    · cases hg : cx.hasGlobalLock
      · simp only [hacq, Option.map_some, Bool.false_eq_true, if_false, hc, if_true, release]
        cases checkUpdate expected (readExisting S cx.buffer e.name) new <;> simp
      · simp only [if_true, hc, Bool.false_eq_true, if_false]
        cases checkUpdate expected (readExisting S cx.buffer e.name) new <;> simp

/-! ### the second walk only touches `leafPrev`, and only below the cursor -/

theorem core_set_leaf (e : Edit) (o : Option Oid) : ({ e with leafPrev := o } : Edit).core = e.core := rfl

theorem setLeaf_core (oid : Oid) :
    ∀ fuel cursor (es es' : List Edit), setLeaf oid fuel cursor es = some (some es') →
      es'.map Edit.core = es.map Edit.core := by
  intro fuel
  induction fuel with
  | zero =>
    intro cursor es es' h
    cases cursor with
    | none => simp [setLeaf] at h; rw [h]
    | some p => simp [setLeaf] at h
  | succ fuel ih =>
    intro cursor es es' h
    cases cursor with
    | none => simp [setLeaf] at h; rw [h]
    | some p =>
      simp only [setLeaf] at h
      split at h
      · simp at h
      · rename_i parent hget
        have := ih _ _ _ h
        rw [this]
        apply List.ext_getElem?
        intro i
        simp only [List.getElem?_map, List.getElem?_set]
        by_cases hpi : p = i
        · subst hpi
          have hlt : p < es.length := by
            rcases Nat.lt_or_ge p es.length with h | h
            · exact h
            · rw [List.getElem?_eq_none h] at hget; cases hget
          have heq : es[p] = parent := by
            rw [List.getElem?_eq_getElem hlt] at hget; exact Option.some.inj hget
          simp [hlt, heq, core_set_leaf]
        · simp [hpi]

theorem setLeaf_untouched (oid : Oid) :
    ∀ bound (es : List Edit), WfParents es → ∀ fuel cursor es',
      (∀ p, cursor = some p → p < bound) → setLeaf oid fuel cursor es = some (some es') →
      ∀ i, bound ≤ i → es'[i]? = es[i]? := by
  intro bound
  induction bound with
  | zero =>
    intro es _ fuel cursor es' hc h i _
    cases cursor with
    | none => cases fuel <;> (simp [setLeaf] at h; rw [h])
    | some p => exact absurd (hc p rfl) (by omega)
  | succ b ih =>
    intro es hw fuel cursor es' hc h i hi
    cases cursor with
    | none => cases fuel <;> (simp [setLeaf] at h; rw [h])
    | some p =>
      have hp : p < b + 1 := hc p rfl
      cases fuel with
      | zero => simp [setLeaf] at h
      | succ fuel =>
        simp only [setLeaf] at h
        split at h
        · simp at h
        · rename_i parent hget
          have hpe := setLeaf_parent_eq es p parent oid hget
          have hw' := wf_of_parent_eq es _ hpe hw
          have := ih (es.set p { parent with leafPrev := some oid }) hw' fuel parent.parent es'
            (by intro q hq; have := hw p parent q hget hq; omega) h i (by omega)
          rw [this, List.getElem?_set]
          have : p ≠ i := by omega
          simp [this]

/-! ### rolling back -/

def lockedRev (es : List Edit) : List Name := ((es.filter (·.lock)).map Edit.name).reverse

theorem releaseAll_locks (S : Store) (es : List Edit) :
    (releaseAll S es).loose = S.loose ∧ (releaseAll S es).packed = S.packed ∧
    (releaseAll S es).packedLock = S.packedLock := by
  induction es generalizing S with
  | nil => simp [releaseAll]
  | cons e es ih =>
    simp only [releaseAll]
    split
    · have := ih (release S e.name); simpa [release] using this
    · exact ih S

/-- dropping the edits' locks in order removes exactly what acquiring them in order added -/
theorem releaseAll_rev (base : Store) (L : List Name) :
    ∀ (es : List Edit), (es.map Edit.name).Nodup → (∀ e ∈ es, e.name ∉ L) →
      releaseAll { base with locks := lockedRev es ++ L } es = { base with locks := L } := by
  intro es
  induction es with
  | nil => intro _ _; simp [releaseAll, lockedRev]
  | cons e es ih =>
    intro hn hl
    simp only [List.map_cons, List.nodup_cons] at hn
    have hl' : ∀ e' ∈ es, e'.name ∉ L := fun e' he' => hl e' (List.mem_cons_of_mem _ he')
    simp only [releaseAll]
    cases hlk : e.lock with
    | false =>
      have : lockedRev (e :: es) = lockedRev es := by simp [lockedRev, List.filter_cons, hlk]
      simp only [Bool.false_eq_true, if_false, this]
      exact ih hn.2 hl'
    | true =>
      have h1 : lockedRev (e :: es) = lockedRev es ++ [e.name] := by
        simp [lockedRev, List.filter_cons, hlk]
      have hnot : e.name ∉ lockedRev es := by
        intro hmem
        simp only [lockedRev, List.mem_reverse, List.mem_map, List.mem_filter] at hmem
        obtain ⟨e', ⟨he', _⟩, hname⟩ := hmem
        exact hn.1 (by rw [← hname]; exact List.mem_map_of_mem he')
      have h2 : (lockedRev (e :: es) ++ L).erase e.name = lockedRev es ++ L := by
        rw [h1, List.append_assoc, List.erase_append_right _ hnot]
        simp
      simp only [if_true, release, h2]
      exact ih hn.2 hl'

/-! ### the loop as a left-to-right pass -/

def prepSeq (cx : Ctx) (find : Name → Option Target) : List Edit → Except (Name × CheckErr) (List Edit)
  | [] => .ok []
  | e :: rest =>
    match checkC (find e.name) e with
    | some ce => .error (e.name, ce)
    | none => match prepSeq cx find rest with
      | .error x => .error x
      | .ok rest' => .ok (applied cx (find e.name) e :: rest')

def failRes (unlockPacked : Store → Store) (S : Store) (x : Name × CheckErr) : Res (List Edit) :=
  match errOfCheck x.1 x.2 with
  | some err => .err err (unlockPacked S)
  | none => .panic (unlockPacked S)

theorem core_name (e : Edit) : e.core.name = e.name := rfl
theorem core_lock (e : Edit) : e.core.lock = e.lock := rfl
theorem core_parent (e : Edit) : e.core.parent = e.parent := rfl

theorem lockedRev_core (l : List Edit) : lockedRev (l.map Edit.core) = lockedRev l := by
  unfold lockedRev
  congr 1
  induction l with
  | nil => rfl
  | cons e l ih =>
    cases hlk : e.lock with
    | false =>
      have h1 : e.core.lock = false := hlk
      simp only [List.map_cons, List.filter_cons, h1, hlk, Bool.false_eq_true, if_false]
      exact ih
    | true =>
      have h1 : e.core.lock = true := hlk
      simp only [List.map_cons, List.filter_cons, h1, hlk, if_true, core_name]
      rw [ih]

theorem lockedRev_congr (l1 l2 : List Edit) (h : l1.map Edit.core = l2.map Edit.core) :
    lockedRev l1 = lockedRev l2 := by
  rw [← lockedRev_core l1, ← lockedRev_core l2, h]

theorem names_congr (l1 l2 : List Edit) (h : l1.map Edit.core = l2.map Edit.core) :
    l1.map Edit.name = l2.map Edit.name := by
  have : ∀ l : List Edit, l.map Edit.name = (l.map Edit.core).map Edit.name := by
    intro l; simp [List.map_map, Function.comp_def, core_name]
  rw [this l1, this l2, h]

theorem parents_congr (l1 l2 : List Edit) (h : l1.map Edit.core = l2.map Edit.core) :
    ∀ i : Nat, (l1[i]?).map Edit.parent = (l2[i]?).map Edit.parent := by
  intro i
  have h1 : ∀ l : List Edit, (l[i]?).map Edit.parent = ((l.map Edit.core)[i]?).map Edit.parent := by
    intro l
    simp only [List.getElem?_map, Option.map_map]
    rfl
  rw [h1 l1, h1 l2, h]

theorem lockedRev_append (l1 l2 : List Edit) : lockedRev (l1 ++ l2) = lockedRev l2 ++ lockedRev l1 := by
  simp [lockedRev, List.filter_append]

theorem lockedRev_unlocked (l : List Edit) (h : ∀ e ∈ l, e.lock = false) : lockedRev l = [] := by
  unfold lockedRev
  have : l.filter (·.lock) = [] := by
    apply List.filter_eq_nil_iff.mpr
    intro e he
    simp [h e he]
  simp [this]

theorem applied_name (cx : Ctx) (ex : Option Target) (e : Edit) : (applied cx ex e).name = e.name := by
  unfold applied; split <;> rfl

theorem applied_parent (cx : Ctx) (ex : Option Target) (e : Edit) : (applied cx ex e).parent = e.parent := by
  unfold applied; split <;> rfl

theorem applied_lock (cx : Ctx) (ex : Option Target) (e : Edit) : (applied cx ex e).lock = wantLock cx ex e := by
  unfold applied; split <;> rfl

/-- from "same cores" and "untouched from `k` on" to a decomposition -/
theorem decompose (done rest es2 : List Edit) (e1 : Edit)
    (hc : es2.map Edit.core = (done ++ e1 :: rest).map Edit.core)
    (hu : ∀ i, done.length ≤ i → es2[i]? = (done ++ e1 :: rest)[i]?) :
    ∃ done2, es2 = done2 ++ e1 :: rest ∧ done2.map Edit.core = done.map Edit.core ∧ done2.length = done.length := by
  have hlen : es2.length = (done ++ e1 :: rest).length := by
    have := congrArg List.length hc
    simpa using this
  refine ⟨es2.take done.length, ?_, ?_, ?_⟩
  · have hdrop : es2.drop done.length = e1 :: rest := by
      apply List.ext_getElem?
      intro i
      rw [List.getElem?_drop, hu _ (by omega), List.getElem?_append_right (by omega)]
      congr 1
      omega
    conv => lhs; rw [← List.take_append_drop done.length es2]
    rw [hdrop]
  · have := congrArg (List.take done.length) hc
    simpa [List.map_take, List.take_append_of_le_length] using this
  · rw [List.length_take, hlen]; simp

theorem prepLoop_run (cx : Ctx) (unlockPacked : Store → Store) (base : Store) (L : List Name) :
    ∀ (rest done : List Edit),
      WfParents (done ++ rest) →
      (∀ e ∈ rest, e.lock = false) →
      ((done ++ rest).map Edit.name).Nodup →
      (∀ e ∈ done ++ rest, e.name ∉ L) →
      match prepSeq cx (readExisting base cx.buffer) rest with
      | .error x =>
        prepLoop .fixed cx unlockPacked rest.length done.length { base with locks := lockedRev done ++ L } (done ++ rest)
          = failRes unlockPacked { base with locks := L } x
      | .ok rest' =>
        ∃ es', prepLoop .fixed cx unlockPacked rest.length done.length { base with locks := lockedRev done ++ L } (done ++ rest)
            = .ok es' { base with locks := lockedRev (done ++ rest') ++ L } ∧
          es'.map Edit.core = (done ++ rest').map Edit.core := by
  intro rest
  induction rest with
  | nil =>
    intro done _ _ _ _
    simp only [prepSeq, List.length_nil, prepLoop, List.append_nil]
    exact ⟨done, rfl, rfl⟩
  | cons e rest ih =>
    intro done hw hlk hn hl
    have hget : (done ++ e :: rest)[done.length]? = some e := by
      rw [List.getElem?_append_right (Nat.le_refl _)]; simp
    have hname_notin : e.name ∉ lockedRev done ++ L := by
      intro hmem
      rcases List.mem_append.mp hmem with hmem | hmem
      · simp only [lockedRev, List.mem_reverse, List.mem_map, List.mem_filter] at hmem
        obtain ⟨e', ⟨he', _⟩, hname⟩ := hmem
        rw [List.map_append, List.map_cons] at hn
        have := (List.nodup_append.mp hn).2.2
        exact this e'.name (List.mem_map_of_mem he') e.name (List.mem_cons_self ..) hname
      · exact hl e (by simp) hmem
    have hfresh := lockAndApply_fresh cx { base with locks := lockedRev done ++ L } e hname_notin
    have hre : ∀ n, readExisting { base with locks := lockedRev done ++ L } cx.buffer n = readExisting base cx.buffer n :=
      fun _ => rfl
    simp only [hre] at hfresh
    simp only [prepSeq, List.length_cons, prepLoop, hget]
    cases hck : checkC (readExisting base cx.buffer e.name) e with
    | some ce =>
      simp only [hck] at hfresh
      rw [hfresh]
      have hlr : lockedRev (done ++ e :: rest) = lockedRev done := by
        rw [lockedRev_append, lockedRev_unlocked (e :: rest) hlk]; simp
      have hrel := releaseAll_rev base L (done ++ e :: rest) hn hl
      rw [hlr] at hrel
      simp only [failRes, hrel]
      cases errOfCheck e.name ce <;> rfl
    | none =>
      simp only [hck] at hfresh
      rw [hfresh]
      simp only []
      -- the edit list after `updates[cid] = change`
      have hset : (done ++ e :: rest).set done.length (applied cx (readExisting base cx.buffer e.name) e)
          = done ++ applied cx (readExisting base cx.buffer e.name) e :: rest := by
        rw [List.set_append_right _ _ (Nat.le_refl _)]; simp
      rw [hset]
      generalize he1 : applied cx (readExisting base cx.buffer e.name) e = e1
      have he1n : e1.name = e.name := by rw [← he1]; exact applied_name ..
      have he1p : e1.parent = e.parent := by rw [← he1]; exact applied_parent ..
      have he1l : e1.lock = wantLock cx (readExisting base cx.buffer e.name) e := by rw [← he1]; exact applied_lock ..
      -- facts about the list with `e1` in place of `e`
      have hcore1 : ∀ i : Nat, ((done ++ e1 :: rest)[i]?).map Edit.parent = ((done ++ e :: rest)[i]?).map Edit.parent := by
        intro i
        by_cases hi : i < done.length
        · simp [List.getElem?_append_left hi]
        · have hi' : done.length ≤ i := Nat.le_of_not_lt hi
          rw [List.getElem?_append_right hi', List.getElem?_append_right hi']
          cases hk : i - done.length with
          | zero => simp [he1p]
          | succ k => simp
      have hw1 : WfParents (done ++ e1 :: rest) := wf_of_parent_eq _ _ hcore1 hw
      have hn1 : ((done ++ e1 :: rest).map Edit.name).Nodup := by
        simpa [he1n] using hn
      have hl1 : ∀ x ∈ done ++ e1 :: rest, x.name ∉ L := by
        intro x hx
        rcases List.mem_append.mp hx with hx | hx
        · exact hl x (List.mem_append_left _ hx)
        · cases hx with
          | head => rw [he1n]; exact hl e (by simp)
          | tail _ hx => exact hl x (List.mem_append_right _ (List.mem_cons_of_mem _ hx))
      have hstore : ({ base with locks := if wantLock cx (readExisting base cx.buffer e.name) e = true then e.name :: (lockedRev done ++ L) else lockedRev done ++ L } : Store)
          = { base with locks := lockedRev (done ++ [e1]) ++ L } := by
        rw [lockedRev_append]
        cases hwl : wantLock cx (readExisting base cx.buffer e.name) e
        · simp [lockedRev, List.filter_cons, he1l, hwl]
        · simp [lockedRev, List.filter_cons, he1l, hwl, he1n]
      -- continuing with any list `es2` that has the same cores and is untouched from `cid` on
      have hcont : ∀ es2 : List Edit, es2.map Edit.core = (done ++ e1 :: rest).map Edit.core →
          (∀ i, done.length ≤ i → es2[i]? = (done ++ e1 :: rest)[i]?) →
          match (match prepSeq cx (readExisting base cx.buffer) rest with
                 | .error x => (Except.error x : Except (Name × CheckErr) (List Edit))
                 | .ok rest' => .ok (e1 :: rest')) with
          | .error x =>
            prepLoop .fixed cx unlockPacked rest.length (done.length + 1)
              { base with locks := if wantLock cx (readExisting base cx.buffer e.name) e = true then e.name :: (lockedRev done ++ L) else lockedRev done ++ L } es2
              = failRes unlockPacked { base with locks := L } x
          | .ok rest' =>
            ∃ es', prepLoop .fixed cx unlockPacked rest.length (done.length + 1)
              { base with locks := if wantLock cx (readExisting base cx.buffer e.name) e = true then e.name :: (lockedRev done ++ L) else lockedRev done ++ L } es2
                = .ok es' { base with locks := lockedRev (done ++ rest') ++ L } ∧
              es'.map Edit.core = (done ++ rest').map Edit.core := by
        intro es2 hc2 hu2
        obtain ⟨done2, hes2, hd2, hlen2⟩ := decompose done rest es2 e1 hc2 hu2
        have hc2' : (done2 ++ [e1] ++ rest).map Edit.core = (done ++ e1 :: rest).map Edit.core := by
          simp [hd2]
        have hih := ih (done2 ++ [e1])
          (wf_of_parent_eq _ _ (parents_congr _ _ hc2') hw1)
          (fun x hx => hlk x (List.mem_cons_of_mem _ hx))
          (by rw [names_congr _ _ hc2']; exact hn1)
          (by
            intro x hx
            have hnm := names_congr _ _ hc2'
            have : x.name ∈ (done ++ e1 :: rest).map Edit.name := by
              rw [← hnm]; exact List.mem_map_of_mem hx
            obtain ⟨y, hy, hyn⟩ := List.mem_map.mp this
            rw [← hyn]; exact hl1 y hy)
        rw [hstore, hes2]
        have hlr2 : lockedRev (done2 ++ [e1]) = lockedRev (done ++ [e1]) := lockedRev_congr _ _ (by simp [hd2])
        have hlen2' : (done2 ++ [e1]).length = done.length + 1 := by simp [hlen2]
        have happ : done2 ++ e1 :: rest = (done2 ++ [e1]) ++ rest := by simp
        rw [happ, ← hlen2', ← hlr2]
        cases hps : prepSeq cx (readExisting base cx.buffer) rest with
        | error x =>
          rw [hps] at hih
          simpa using hih
        | ok rest' =>
          rw [hps] at hih
          obtain ⟨es', h1, h2⟩ := hih
          refine ⟨es', ?_, ?_⟩
          · rw [h1]
            have : lockedRev (done2 ++ [e1] ++ rest') = lockedRev (done ++ e1 :: rest') :=
              lockedRev_congr _ _ (by simp [hd2])
            rw [this]
          · rw [h2]; simp [hd2]
      -- the second walk
      cases hprev : prevOid e1.update.change with
      | none => exact hcont (done ++ e1 :: rest) rfl (fun _ _ => rfl)
      | some oid =>
        cases hpar : e1.parent with
        | none => exact hcont (done ++ e1 :: rest) rfl (fun _ _ => rfl)
        | some p =>
          have hgete1 : (done ++ e1 :: rest)[done.length]? = some e1 := by
            rw [List.getElem?_append_right (Nat.le_refl _)]; simp
          have hpl : p < done.length := hw1 done.length e1 p hgete1 hpar
          obtain ⟨es2, hs1, _, _⟩ := setLeaf_some oid done.length (done ++ e1 :: rest) hw1 (by simp)
            (done ++ e1 :: rest).length (by simp) (some p) (fun q hq => by cases hq; exact hpl)
          simp only [hs1]
          have hc2 := setLeaf_core oid _ _ _ _ hs1
          have hu2 := setLeaf_untouched oid done.length (done ++ e1 :: rest) hw1 _ _ es2
            (fun q hq => by cases hq; exact hpl) hs1
          exact hcont es2 hc2 hu2

end GixModel.C17
