/-
C16: a reference transaction on the concrete store {loose, packed, locks} refines the
all-or-nothing compare-and-swap on the name → value map.
-/
import GixModel.Lemmas.C16Pre

namespace GixModel.C17
open GixModel.C16

/-- the packed-refs file is sorted (what the binary search relies on) and only holds names that
can be packed -/
structure StoreOk (S : Store) : Prop where
  sorted : ∀ b, S.packed = some b → SortedKeys b
  packable : ∀ b, S.packed = some b → ∀ kv ∈ b, packable kv.1 = true

/-- nobody else holds a lock -/
def NoLocks (S : Store) : Prop := S.locks = [] ∧ S.packedLock = false

theorem sig_name (e e2 : Edit) (h : e2.sig = e.sig) : e2.name = e.name := congrArg Prod.fst h
theorem sig_change (e e2 : Edit) (h : e2.sig = e.sig) : e2.update.change = e.update.change := congrArg Prod.snd h

theorem takeLockAndDelete_sig (dl : Bool) (e e2 : Edit) (h : e2.sig = e.sig) :
    takeLockAndDelete dl e2 = takeLockAndDelete dl e := by
  unfold takeLockAndDelete
  rw [sig_change e e2 h, sig_name e e2 h]

theorem names_of_sig (l1 l2 : List Edit) (h : l1.map Edit.sig = l2.map Edit.sig) :
    l1.map Edit.name = l2.map Edit.name := by
  have : ∀ l : List Edit, l.map Edit.name = (l.map Edit.sig).map Prod.fst := by
    intro l; simp [List.map_map, Function.comp_def, Edit.sig]
  rw [this l1, this l2, h]

/-- the loose file of a name after the three loops of commit -/
theorem loose_final (dl : Bool) (S1 S2 : Store) (E : List Edit) (hn : (E.map Edit.name).Nodup)
    (h2 : S2.loose = (commitUpdates dl S1 E).1.loose) (m : Name) :
    let r3 := commitDeletes dl S2 (commitUpdates dl S1 E).2
    (∀ e ∈ E, e.name = m →
      lookup (releaseAll r3.1 r3.2).loose m =
        if takeLockAndDelete dl e = true then none
        else match writesLoose dl e with
          | some t => some t
          | none => lookup S1.loose m) ∧
    ((∀ e ∈ E, e.name ≠ m) → lookup (releaseAll r3.1 r3.2).loose m = lookup S1.loose m) := by
  intro r3
  have hsig := (commitUpdates_frame dl S1 E).2.2
  have hnames := names_of_sig _ _ hsig
  have hn2 : (((commitUpdates dl S1 E).2).map Edit.name).Nodup := by rw [hnames]; exact hn
  have hrel : (releaseAll r3.1 r3.2).loose = r3.1.loose := (releaseAll_locks r3.1 r3.2).1
  constructor
  · intro e he hm
    have : e.sig ∈ ((commitUpdates dl S1 E).2).map Edit.sig := by rw [hsig]; exact List.mem_map_of_mem he
    obtain ⟨e2, he2, hs2⟩ := List.mem_map.mp this
    have hm2 : e2.name = m := by rw [sig_name e e2 hs2]; exact hm
    rw [hrel, commitDeletes_at dl m S2 _ hn2 e2 he2 hm2, takeLockAndDelete_sig dl e e2 hs2, h2,
      commitUpdates_at dl m S1 E hn e he hm]
    rfl
  · intro hne
    have hne2 : ∀ e2 ∈ (commitUpdates dl S1 E).2, e2.name ≠ m := by
      intro e2 he2 heq
      have : e2.name ∈ E.map Edit.name := by rw [← hnames]; exact List.mem_map_of_mem he2
      obtain ⟨e, he, hen⟩ := List.mem_map.mp this
      exact hne e he (by rw [hen]; exact heq)
    rw [hrel, commitDeletes_other dl m S2 _ hne2, h2, commitUpdates_other dl m S1 E hne]

/-- after the three loops no lock file of the transaction is left -/
theorem locks_final (dl : Bool) (S1 S2 : Store) (E : List Edit)
    (hnd : S1.locks.Nodup) (hown : ∀ m ∈ S1.locks, Own E m)
    (h2 : S2.locks = (commitUpdates dl S1 E).1.locks) :
    let r3 := commitDeletes dl S2 (commitUpdates dl S1 E).2
    (releaseAll r3.1 r3.2).locks = [] := by
  intro r3
  have hu := foldSteps_locks (commitUpdateStep dl) (updateStep_ok dl) E S1 (fun _ => False) hnd
    (fun m hm => Or.inr (hown m hm))
  rw [← commitUpdates_eq_fold] at hu
  have hd := foldSteps_locks (commitDeleteStep dl) (deleteStep_ok dl) (commitUpdates dl S1 E).2 S2 (fun _ => False)
    (by rw [h2]; exact hu.1) (by rw [h2]; exact hu.2)
  rw [← commitDeletes_eq_fold] at hd
  have hr := releaseAll_owned r3.2 r3.1 (fun _ => False) hd.1 hd.2
  exact List.eq_nil_iff_forall_not_mem.mpr (fun m hm => hr m hm)

theorem final_frame (dl : Bool) (S2 : Store) (E2 : List Edit) :
    let r3 := commitDeletes dl S2 E2
    (releaseAll r3.1 r3.2).packed = S2.packed ∧ (releaseAll r3.1 r3.2).packedLock = S2.packedLock := by
  intro r3
  obtain ⟨h1, h2, _⟩ := commitDeletes_frame dl S2 E2
  obtain ⟨_, g1, g2⟩ := releaseAll_locks r3.1 r3.2
  exact ⟨by rw [g1, h1], by rw [g2, h2]⟩

def Store.findPacked (S : Store) (m : Name) : Option Oid :=
  match S.packed with
  | some b => lookup b m
  | none => none

theorem find_eq (S : Store) (m : Name) :
    S.find m = match lookup S.loose m with
      | some t => some t
      | none => (S.findPacked m).map .object := by
  unfold Store.find Store.findPacked
  cases lookup S.loose m with
  | some t => rfl
  | none => cases S.packed <;> rfl

theorem findPacked_none_of_not_packable (S : Store) (hS : StoreOk S) (m : Name) (hp : packable m = false) :
    S.findPacked m = none := by
  unfold Store.findPacked
  cases hb : S.packed with
  | none => rfl
  | some b =>
    simp only []
    cases hl : lookup b m with
    | none => rfl
    | some o =>
      have := hS.packable b hb (m, o) (mem_of_lookup_eq_some b m o hl)
      rw [hp] at this; cases this

theorem effectiveness_symbolic (ex : Option Target) (r : Name) : (effectiveness ex (.symbolic r)).2 = true := by
  unfold effectiveness
  cases ex with
  | none => rfl
  | some t => cases t <;> rfl

theorem effectiveness_object (ex : Option Target) (o : Oid) :
    (effectiveness ex (.object o)).2 = false ∧
    ((effectiveness ex (.object o)).1 = false → ex = some (.object o)) := by
  unfold effectiveness
  cases ex with
  | none => exact ⟨rfl, fun h => by cases h⟩
  | some t =>
    cases t with
    | symbolic r => exact ⟨rfl, fun h => by cases h⟩
    | object o' =>
      refine ⟨rfl, fun h => ?_⟩
      simp only [newWouldChange] at h
      have : o' = o := by
        by_cases hc : o' = o
        · exact hc
        · simp [hc] at h
      rw [this]

theorem takeLockAndDelete_applied (dl : Bool) (cx : Ctx) (ex : Option Target) (e : Edit) :
    takeLockAndDelete dl ((applied cx ex e).core) = takeLockAndDelete dl e := by
  unfold takeLockAndDelete applied
  cases e.update.change <;> rfl

theorem writesLoose_applied (dl : Bool) (cx : Ctx) (ex : Option Target) (e : Edit) :
    writesLoose dl ((applied cx ex e).core) =
      match e.update.change with
      | .update log _ new =>
        if dl && !new.isSymbolic && packable e.name then none
        else if log = .andReference ∧ wantLock cx ex e = true then some new else none
      | .delete _ _ => none := by
  unfold writesLoose applied
  cases e.update.change <;> rfl

/-- the heart of the refinement: the value of the name of ONE edit after commit, from what the
loops do to its loose file and what the packed-refs transaction does to its packed entry -/
theorem point (S : Store) (hS : StoreOk S) (mode : Mode) (cx : Ctx)
    (hcx : cx.directToPacked = decide (mode = .updatesRemoveLoose))
    (e : Edit) (loose' : Option Target) (packed' : Option Oid)
    (hl : loose' =
      (if takeLockAndDelete (decide (mode = .updatesRemoveLoose)) ((applied cx (S.find e.name) e).core) = true then none
       else match writesLoose (decide (mode = .updatesRemoveLoose)) ((applied cx (S.find e.name) e).core) with
         | some t => some t
         | none => lookup S.loose e.name))
    (hp : packed' = match pe1 mode e with
      | some (some o) => some o
      | some none => none
      | none => S.findPacked e.name) :
    (match loose' with | some t => some t | none => packed'.map Target.object) =
      match e.act with
      | .set t => some t
      | .del => none
      | .nop => S.find e.name := by
  rw [takeLockAndDelete_applied, writesLoose_applied] at hl
  subst hl hp
  unfold takeLockAndDelete pe1 Edit.act wantLock
  rw [hcx]
  cases hch : e.update.change with
  | delete exp log =>
    cases log with
    | andReference =>
      by_cases hpk : packable e.name = true
      · simp [Change.logMode, hpk]
      · have hpk' : packable e.name = false := by simpa using hpk
        simp [Change.logMode, hpk', findPacked_none_of_not_packable S hS e.name hpk']
    | only => simp [Change.logMode, find_eq]
  | update log exp new =>
    cases log with
    | only => simp [Change.logMode, find_eq]
    | andReference =>
      cases new with
      | symbolic r => simp [Target.isSymbolic, effectiveness_symbolic]
      | object o =>
        obtain ⟨he2, he1⟩ := effectiveness_object (S.find e.name) o
        by_cases hmode : mode = .updatesRemoveLoose
        · by_cases hpk : packable e.name = true
          · simp [Change.logMode, Target.isSymbolic, hmode, hpk]
          · have hpk' : packable e.name = false := by simpa using hpk
            simp only [Change.logMode, Target.isSymbolic, hmode, hpk', he2]
            cases heff : (effectiveness (S.find e.name) (.object o)).1 with
            | true => simp
            | false =>
              have hf := he1 heff
              simp [findPacked_none_of_not_packable S hS e.name hpk']
              rw [find_eq] at hf
              simp [findPacked_none_of_not_packable S hS e.name hpk'] at hf
              cases hlo : lookup S.loose e.name with
              | none => rw [hlo] at hf; simp at hf
              | some t => rw [hlo] at hf; simpa using hf
        · simp only [Change.logMode, Target.isSymbolic, hmode, he2]
          cases heff : (effectiveness (S.find e.name) (.object o)).1 with
          | true => simp
          | false =>
            have hf := he1 heff
            rw [find_eq] at hf
            cases hlo : lookup S.loose e.name with
            | some t => rw [hlo] at hf; simp at hf; simp [hf]
            | none =>
              rw [hlo] at hf
              simp only [Option.map_eq_some_iff] at hf
              obtain ⟨o', ho', hoo⟩ := hf
              injection hoo with hoo
              subst hoo
              by_cases hpk : packable e.name = true <;> by_cases hmd : mode = .deletionsOnly <;> simp [hpk, hmd, ho']

/-! ### the packed-refs transaction -/

theorem pe1_packable (mode : Mode) (e : Edit) (v : Option Oid) (h : pe1 mode e = some v) : packable e.name = true := by
  unfold pe1 at h
  split at h
  · cases h
  · split at h
    · cases h
    · rename_i hp; simpa using hp

theorem commitPacked_spec (S1 : Store) (p : PTx) (hb : p.buffer = S1.packed)
    (hsorted : ∀ b, S1.packed = some b → SortedKeys b)
    (hn : (p.edits.map (·.1)).Nodup)
    (hne : S1.packed = none → p.edits = [] ∨ ∃ kv ∈ p.edits, ∃ o, kv.2 = some o) :
    ∃ S2, commitPacked S1 p = some S2 ∧ S2.loose = S1.loose ∧ S2.locks = S1.locks ∧ S2.packedLock = false ∧
      (∀ m, S2.findPacked m = match lookup p.edits m with | some v => v | none => S1.findPacked m) ∧
      (∀ b, S2.packed = some b → SortedKeys b) ∧
      (∀ b, S2.packed = some b → ∀ kv ∈ b, (∃ b1, S1.packed = some b1 ∧ ∃ kv1 ∈ b1, kv1.1 = kv.1) ∨ ∃ e ∈ p.edits, e.1 = kv.1) := by
  unfold commitPacked
  by_cases hemp : p.edits.isEmpty = true
  · have hnil : p.edits = [] := List.isEmpty_iff.mp hemp
    refine ⟨{ S1 with packedLock := false }, by simp [hemp], rfl, rfl, rfl, ?_, hsorted, ?_⟩
    · intro m; simp [hnil, lookup, Store.findPacked]
    · intro b hb' kv hkv
      exact Or.inl ⟨b, hb', kv, hkv, rfl⟩
  · simp only [hemp, Bool.false_eq_true, if_false]
    -- the buffer as a list
    rw [hb]
    have hsb : SortedKeys (bufferList S1.packed) := by
      cases hpk : S1.packed with
      | none => trivial
      | some b => exact hsorted b hpk
    have hse := sortEdits_sorted p.edits hn
    have hlook : ∀ m, lookup (mergeAll (bufferList S1.packed) (sortEdits p.edits)) m
        = match lookup p.edits m with | some v => v | none => S1.findPacked m := by
      intro m
      unfold mergeAll
      rw [mergePacked_lookup _ _ _ m hsb hse (Nat.le_refl _)]
      unfold mergedLookup
      rw [sortEdits_lookup p.edits hn m]
      cases lookup p.edits m with
      | some v => rfl
      | none => unfold Store.findPacked; cases S1.packed <;> rfl
    have hsm : SortedKeys (mergeAll (bufferList S1.packed) (sortEdits p.edits)) :=
      mergePacked_sorted _ _ _ hsb hse
    have hkeys : ∀ kv ∈ mergeAll (bufferList S1.packed) (sortEdits p.edits),
        (∃ b1, S1.packed = some b1 ∧ ∃ kv1 ∈ b1, kv1.1 = kv.1) ∨ ∃ e ∈ p.edits, e.1 = kv.1 := by
      intro kv hkv
      rcases mergePacked_keys _ _ _ kv hkv with ⟨p1, hp1, hk⟩ | ⟨e1, he1, hk⟩
      · cases hpk : S1.packed with
        | none => rw [hpk] at hp1; cases hp1
        | some b => rw [hpk] at hp1; exact Or.inl ⟨b, rfl, p1, hp1, hk⟩
      · exact Or.inr ⟨e1, (sortEdits_mem p.edits e1).mp he1, hk⟩
    by_cases hlines : (mergeAll (bufferList S1.packed) (sortEdits p.edits)).isEmpty = true
    · have hnil : mergeAll (bufferList S1.packed) (sortEdits p.edits) = [] := List.isEmpty_iff.mp hlines
      simp only [hlines, if_true]
      cases hpk : S1.packed with
      | none =>
        -- impossible: an update line would have been written
        exfalso
        rcases hne hpk with h | ⟨kv, hkv, o, ho⟩
        · rw [h] at hemp; simp at hemp
        · have h1 : lookup p.edits kv.1 = some kv.2 := lookup_eq_some_of_mem p.edits hn kv.1 kv.2 hkv
          have h2 := hlook kv.1
          rw [hnil, h1, ho] at h2
          simp [lookup] at h2
      | some b =>
        refine ⟨{ S1 with packed := none, packedLock := false }, by simp, rfl, rfl, rfl, ?_,
          (fun b' hb' => by cases hb'), (fun b' hb' => by cases hb')⟩
        intro m
        have := hlook m
        rw [hnil] at this
        simp only [lookup] at this
        rw [← this]
        rfl
    · simp only [hlines, Bool.false_eq_true, if_false]
      refine ⟨_, rfl, rfl, rfl, rfl, ?_, ?_, ?_⟩
      · intro m
        rw [← hlook m]
        rfl
      · intro b' hb'
        injection hb' with hb'
        rw [← hb']; exact hsm
      · intro b' hb' kv hkv
        injection hb' with hb'
        rw [← hb'] at hkv
        exact hkeys kv hkv

/-! ### putting the pieces together -/

theorem abs_sameSymbolic (S : Store) : SameSymbolic (lookup S.loose) S.find := by
  intro n r
  rw [find_eq]
  cases lookup S.loose n with
  | some t => simp
  | none => cases S.findPacked n <;> simp

theorem lockedRev_own (l : List Edit) : ∀ m ∈ lockedRev l, Own (l.map Edit.core) m := by
  intro m hm
  simp only [lockedRev, List.mem_reverse, List.mem_map, List.mem_filter] at hm
  obtain ⟨e, ⟨he, hl⟩, hn⟩ := hm
  exact ⟨e.core, List.mem_map_of_mem he, hl, hn⟩

theorem lockedRev_nodup (l : List Edit) (hn : (l.map Edit.name).Nodup) : (lockedRev l).Nodup := by
  unfold lockedRev
  exact (List.reverse_perm _).nodup_iff.mpr (List.Nodup.sublist (List.Sublist.map _ List.filter_sublist) hn)

theorem map_applied_names (cx : Ctx) (f : Name → Option Target) (es : List Edit) :
    ((es.map (fun e => applied cx (f e.name) e)).map Edit.core).map Edit.name = es.map Edit.name := by
  simp [List.map_map, Function.comp_def, core_name, applied_name]

/-- from the loose files and the packed entries, name by name, to the abstract map -/
theorem abs_pointwise (S : Store) (hS : StoreOk S) (mode : Mode) (cx : Ctx)
    (hcx : cx.directToPacked = decide (mode = .updatesRemoveLoose))
    (es : List Edit) (hn : (es.map Edit.name).Nodup) (S' : Store)
    (hloose : ∀ m,
      (∀ e ∈ es, e.name = m → lookup S'.loose m =
        (if takeLockAndDelete (decide (mode = .updatesRemoveLoose)) ((applied cx (S.find e.name) e).core) = true then none
         else match writesLoose (decide (mode = .updatesRemoveLoose)) ((applied cx (S.find e.name) e).core) with
           | some t => some t
           | none => lookup S.loose e.name)) ∧
      ((∀ e ∈ es, e.name ≠ m) → lookup S'.loose m = lookup S.loose m))
    (hpacked : ∀ m,
      (∀ e ∈ es, e.name = m → S'.findPacked m = match pe1 mode e with
        | some (some o) => some o
        | some none => none
        | none => S.findPacked e.name) ∧
      ((∀ e ∈ es, e.name ≠ m) → S'.findPacked m = S.findPacked m)) :
    ∀ m, S'.find m = applyEffects S.find es m := by
  intro m
  by_cases hex : ∃ e ∈ es, e.name = m
  · obtain ⟨e, he, hm⟩ := hex
    subst hm
    rw [applyEffects_at S.find es hn e he, find_eq S']
    exact point S hS mode cx hcx e _ _ ((hloose e.name).1 e he rfl) ((hpacked e.name).1 e he rfl)
  · have hne : ∀ e ∈ es, e.name ≠ m := fun e he heq => hex ⟨e, he, heq⟩
    rw [applyEffects_other S.find es m hne, find_eq S', find_eq S, (hloose m).2 hne, (hpacked m).2 hne]

/-- the loose side of `abs_pointwise` from the commit loops -/
theorem loose_side (S : Store) (mode : Mode) (cx : Ctx) (es : List Edit) (hn : (es.map Edit.name).Nodup)
    (S1 S2 : Store) (h1 : S1.loose = S.loose)
    (h2 : S2.loose = (commitUpdates (decide (mode = .updatesRemoveLoose)) S1
      ((es.map (fun e => applied cx (S.find e.name) e)).map Edit.core)).1.loose) (m : Name) :
    let E := (es.map (fun e => applied cx (S.find e.name) e)).map Edit.core
    let r3 := commitDeletes (decide (mode = .updatesRemoveLoose)) S2
      (commitUpdates (decide (mode = .updatesRemoveLoose)) S1 E).2
    (∀ e ∈ es, e.name = m → lookup (releaseAll r3.1 r3.2).loose m =
        (if takeLockAndDelete (decide (mode = .updatesRemoveLoose)) ((applied cx (S.find e.name) e).core) = true then none
         else match writesLoose (decide (mode = .updatesRemoveLoose)) ((applied cx (S.find e.name) e).core) with
           | some t => some t
           | none => lookup S.loose e.name)) ∧
      ((∀ e ∈ es, e.name ≠ m) → lookup (releaseAll r3.1 r3.2).loose m = lookup S.loose m) := by
  intro E r3
  have hnE : (E.map Edit.name).Nodup := by rw [map_applied_names]; exact hn
  obtain ⟨f1, f2⟩ := loose_final (decide (mode = .updatesRemoveLoose)) S1 S2 E hnE h2 m
  constructor
  · intro e he hm
    have hmem : (applied cx (S.find e.name) e).core ∈ E :=
      List.mem_map_of_mem (List.mem_map_of_mem (f := fun e => applied cx (S.find e.name) e) he)
    have := f1 _ hmem (by rw [core_name, applied_name]; exact hm)
    rw [this, h1, hm]
  · intro hne
    rw [f2 _, h1]
    intro e' he'
    obtain ⟨a, ha, hae⟩ := List.mem_map.mp he'
    obtain ⟨e, he, hea⟩ := List.mem_map.mp ha
    rw [← hae, ← hea, core_name, applied_name]
    exact hne e he

/-- user edits are not reflog-only (`RefLog::Only` edits are what splitting produces) -/
def PlainTxn (t : Txn) : Prop := PlainEdits t.edits

/-- the loop of `prepare_inner` without foreign locks: all expectations hold and every edit ends
up as `applied`, or the first failing expectation is reported and the store is as before -/
theorem prepLoop_summary (cx : Ctx) (unlockPacked : Store → Store) (base S : Store) (es : List Edit)
    (hbl : base.locks = []) (hunlock : unlockPacked base = S)
    (hw : WfParents es) (hlk : ∀ e ∈ es, e.lock = false) (hn : (es.map Edit.name).Nodup)
    (hfind : ∀ e ∈ es, readExisting base cx.buffer e.name = S.find e.name) :
    match prepLoop .fixed cx unlockPacked es.length 0 base es with
    | .ok es' Sfin => firstFailure S.find es = none ∧
        Sfin = { base with locks := lockedRev (es.map (fun e => applied cx (S.find e.name) e)) } ∧
        es'.map Edit.core = (es.map (fun e => applied cx (S.find e.name) e)).map Edit.core
    | .err _ S2 => S2 = S ∧ ∃ ce, firstFailure S.find es = some ce ∧ ce ≠ .bug
    | .panic S2 => S2 = S ∧ firstFailure S.find es = some .bug
    | .hang => False := by
  have hb0 : ({ base with locks := lockedRev ([] : List Edit) ++ [] } : Store) = base := by
    cases base; simp [lockedRev] at hbl ⊢; exact hbl
  have hb1 : ({ base with locks := ([] : List Name) } : Store) = base := by
    cases base; simp at hbl ⊢; exact hbl
  have hrun := prepLoop_run cx unlockPacked base [] es [] (by simpa using hw) hlk (by simpa using hn)
    (by intro e _ h; cases h)
  rw [prepSeq_congr cx (readExisting base cx.buffer) S.find es hfind, hb0, hb1] at hrun
  have hff := prepSeq_firstFailure cx S.find es
  simp only [List.nil_append, List.length_nil, List.append_nil] at hrun
  cases hps : prepSeq cx S.find es with
  | error x =>
    rw [hps] at hrun hff
    simp only [] at hrun hff
    rw [hrun]
    unfold failRes
    obtain ⟨n, ce⟩ := x
    cases ce <;> simp [errOfCheck, hunlock, hff]
  | ok r =>
    rw [hps] at hrun hff
    simp only [] at hrun hff
    obtain ⟨es', h1, h2⟩ := hrun
    rw [h1]
    simp only []
    rw [← hff.2]
    exact ⟨hff.1, rfl, h2⟩

theorem findPacked_congr (S1 S2 : Store) (h : S1.packed = S2.packed) (m : Name) : S1.findPacked m = S2.findPacked m := by
  unfold Store.findPacked; rw [h]

/-- commit without a packed-refs transaction -/
theorem commit_notx (S : Store) (hS : StoreOk S) (hl0 : S.locks = []) (hpl0 : S.packedLock = false)
    (mode : Mode) (cx : Ctx) (hcx : cx.directToPacked = decide (mode = .updatesRemoveLoose))
    (es es' : List Edit) (hn : (es.map Edit.name).Nodup)
    (hcore : es'.map Edit.core = (es.map (fun e => applied cx (S.find e.name) e)).map Edit.core)
    (hQ : ∀ e ∈ es, (∀ o, pe1 mode e ≠ some (some o)) ∧ (pe1 mode e = some none → S.packed = none)) :
    ∃ S', commit { S with locks := lockedRev (es.map (fun e => applied cx (S.find e.name) e)) }
        { edits := es', ptx := none, mode := mode } = .ok () S' ∧
      NoLocks S' ∧ StoreOk S' ∧ ∀ m, S'.find m = applyEffects S.find es m := by
  unfold commit
  simp only [hcore]
  refine ⟨_, rfl, ?_, ?_, ?_⟩
  · constructor
    · apply locks_final
      · exact lockedRev_nodup _ (by
          have := map_applied_names cx S.find es
          rw [List.map_map] at this
          have h2 : (es.map (fun e => applied cx (S.find e.name) e)).map Edit.name = es.map Edit.name := by
            simp [List.map_map, Function.comp_def, applied_name]
          rw [h2]; exact hn)
      · exact lockedRev_own _
      · rfl
    · rw [(final_frame _ _ _).2, (commitUpdates_frame _ _ _).2.1]; exact hpl0
  · have hp : ∀ (X : Store), X.packed = S.packed → StoreOk X := fun X hX =>
      ⟨fun b hb => hS.sorted b (by rw [← hX]; exact hb), fun b hb => hS.packable b (by rw [← hX]; exact hb)⟩
    apply hp
    rw [(final_frame _ _ _).1, (commitUpdates_frame _ _ _).1]
  · apply abs_pointwise S hS mode cx hcx es hn
    · intro m
      exact loose_side S mode cx es hn { S with locks := lockedRev (es.map (fun e => applied cx (S.find e.name) e)) } _ rfl rfl m
    · intro m
      have hpk : ∀ m, Store.findPacked (releaseAll
          (commitDeletes (decide (mode = .updatesRemoveLoose)) (commitUpdates (decide (mode = .updatesRemoveLoose))
            { S with locks := lockedRev (es.map (fun e => applied cx (S.find e.name) e)) }
            ((es.map (fun e => applied cx (S.find e.name) e)).map Edit.core)).1
            (commitUpdates (decide (mode = .updatesRemoveLoose))
            { S with locks := lockedRev (es.map (fun e => applied cx (S.find e.name) e)) }
            ((es.map (fun e => applied cx (S.find e.name) e)).map Edit.core)).2).1
          (commitDeletes (decide (mode = .updatesRemoveLoose)) (commitUpdates (decide (mode = .updatesRemoveLoose))
            { S with locks := lockedRev (es.map (fun e => applied cx (S.find e.name) e)) }
            ((es.map (fun e => applied cx (S.find e.name) e)).map Edit.core)).1
            (commitUpdates (decide (mode = .updatesRemoveLoose))
            { S with locks := lockedRev (es.map (fun e => applied cx (S.find e.name) e)) }
            ((es.map (fun e => applied cx (S.find e.name) e)).map Edit.core)).2).2) m = S.findPacked m := by
        intro m
        apply findPacked_congr
        rw [(final_frame _ _ _).1, (commitUpdates_frame _ _ _).1]
      constructor
      · intro e he hm
        rw [hpk m]
        obtain ⟨q1, q2⟩ := hQ e he
        cases hpe : pe1 mode e with
        | none => simp [hm]
        | some v =>
          cases v with
          | some o => exact absurd hpe (q1 o)
          | none =>
            have := q2 hpe
            simp [Store.findPacked, this]
      · intro _
        exact hpk m

/-- commit with a packed-refs transaction -/
theorem commit_tx (S : Store) (hS : StoreOk S) (hl0 : S.locks = [])
    (mode : Mode) (cx : Ctx) (hcx : cx.directToPacked = decide (mode = .updatesRemoveLoose))
    (es es' : List Edit) (hn : (es.map Edit.name).Nodup)
    (hcore : es'.map Edit.core = (es.map (fun e => applied cx (S.find e.name) e)).map Edit.core)
    (hne : S.packed = none → (packedEditsOf mode es).2.2 > 0) :
    ∃ S', commit { S with packedLock := true, locks := lockedRev (es.map (fun e => applied cx (S.find e.name) e)) }
        { edits := es', ptx := some { buffer := S.packed, edits := filterPackedEdits S.packed (packedEditsOf mode es).1 },
          mode := mode } = .ok () S' ∧
      NoLocks S' ∧ StoreOk S' ∧ ∀ m, S'.find m = applyEffects S.find es m := by
  -- the packed-refs transaction
  have hnpe := packedEditsOf_nodup mode es hn
  have hnfe : ((filterPackedEdits S.packed (packedEditsOf mode es).1).map (·.1)).Nodup :=
    filter_nodup_keys _ _ hnpe
  have hframe := commitUpdates_frame (decide (mode = .updatesRemoveLoose))
    { S with packedLock := true, locks := lockedRev (es.map (fun e => applied cx (S.find e.name) e)) }
    ((es.map (fun e => applied cx (S.find e.name) e)).map Edit.core)
  obtain ⟨S2, hc, hS2l, hS2k, hS2p, hS2f, hS2s, hS2keys⟩ := commitPacked_spec
    (commitUpdates (decide (mode = .updatesRemoveLoose))
      { S with packedLock := true, locks := lockedRev (es.map (fun e => applied cx (S.find e.name) e)) }
      ((es.map (fun e => applied cx (S.find e.name) e)).map Edit.core)).1
    { buffer := S.packed, edits := filterPackedEdits S.packed (packedEditsOf mode es).1 }
    (by rw [hframe.1])
    (by intro b hb; rw [hframe.1] at hb; exact hS.sorted b hb)
    hnfe
    (by
      intro hpk
      rw [hframe.1] at hpk
      right
      obtain ⟨kv, hkv, o, ho⟩ := packedEditsOf_count_pos mode es (hne hpk)
      exact ⟨kv, (filterPackedEdits_mem _ _ kv).mpr ⟨hkv, by rw [ho]⟩, o, ho⟩)
  unfold commit
  simp only [hcore, hc]
  refine ⟨_, rfl, ?_, ?_, ?_⟩
  · constructor
    · apply locks_final
      · exact lockedRev_nodup _ (by
          have h2 : (es.map (fun e => applied cx (S.find e.name) e)).map Edit.name = es.map Edit.name := by
            simp [List.map_map, Function.comp_def, applied_name]
          rw [h2]; exact hn)
      · exact lockedRev_own _
      · exact hS2k
    · rw [(final_frame _ _ _).2]; exact hS2p
  · constructor
    · intro b hb
      rw [(final_frame _ _ _).1] at hb
      exact hS2s b hb
    · intro b hb kv hkv
      rw [(final_frame _ _ _).1] at hb
      rcases hS2keys b hb kv hkv with ⟨b1, hb1, kv1, hkv1, hk⟩ | ⟨e1, he1, hk⟩
      · rw [hframe.1] at hb1
        rw [← hk]; exact hS.packable b1 hb1 kv1 hkv1
      · have hmem := ((filterPackedEdits_mem _ _ e1).mp he1).1
        obtain ⟨e, _, hen, hpe⟩ := packedEditsOf_keys mode es e1 hmem
        rw [← hk, ← hen]; exact pe1_packable mode e _ hpe
  · apply abs_pointwise S hS mode cx hcx es hn
    · intro m
      exact loose_side S mode cx es hn
        { S with packedLock := true, locks := lockedRev (es.map (fun e => applied cx (S.find e.name) e)) } S2 rfl hS2l m
    · intro m
      have hpk : ∀ (E2 : List Edit), Store.findPacked (releaseAll
          (commitDeletes (decide (mode = .updatesRemoveLoose)) S2 E2).1
          (commitDeletes (decide (mode = .updatesRemoveLoose)) S2 E2).2) m = S2.findPacked m := by
        intro E2
        apply findPacked_congr
        rw [(final_frame _ _ _).1]
      have hbase : Store.findPacked (commitUpdates (decide (mode = .updatesRemoveLoose))
          { S with packedLock := true, locks := lockedRev (es.map (fun e => applied cx (S.find e.name) e)) }
          ((es.map (fun e => applied cx (S.find e.name) e)).map Edit.core)).1 m = S.findPacked m :=
        findPacked_congr _ _ hframe.1 m
      rw [hpk, hS2f m, hbase]
      simp only []
      rw [show filterPackedEdits S.packed (packedEditsOf mode es).1 =
        (packedEditsOf mode es).1.filter (fun e => match e.2, S.packed with
          | none, some b => (lookup b e.1).isSome
          | _, _ => true) from rfl, lookup_filter _ _ hnpe m]
      constructor
      · intro e he hm
        rw [← hm, packedEditsOf_lookup_at mode es hn e he]
        cases hpe : pe1 mode e with
        | none => rfl
        | some v =>
          cases v with
          | some o => simp
          | none =>
            cases hpk2 : S.packed with
            | none => simp
            | some b =>
              simp only [Store.findPacked, hpk2]
              by_cases hlb : (lookup b e.name).isSome = true
              · simp [hlb]
              · have hnone : lookup b e.name = none := by
                  cases h : lookup b e.name with
                  | none => rfl
                  | some o => rw [h] at hlb; simp at hlb
                simp [hnone]
      · intro hne'
        rw [packedEditsOf_lookup_other mode es m hne']

/-! ### the final assembly -/

theorem pe1_update_iff (mode : Mode) (e : Edit) (o : Oid) :
    pe1 mode e = some (some o) ↔
      ∃ exp, e.update.change = .update .andReference exp (.object o) ∧ mode ≠ .deletionsOnly ∧ packable e.name = true := by
  unfold pe1
  cases hch : e.update.change with
  | delete exp log =>
    constructor
    · intro h; split at h <;> (try cases h); split at h <;> cases h
    · rintro ⟨exp', h, _⟩; cases h
  | update log exp new =>
    cases log with
    | only => simp [Change.logMode]
    | andReference =>
      cases new with
      | symbolic r => by_cases hp : packable e.name = true <;> simp [Change.logMode, hp]
      | object o' =>
        by_cases hp : packable e.name = true <;> by_cases hm : mode = .deletionsOnly <;> simp [Change.logMode, hp, hm]

theorem packedEditsOf_mem (mode : Mode) (es : List Edit) (e : Edit) (he : e ∈ es) (v : Option Oid)
    (hpe : pe1 mode e = some v) : (e.name, v) ∈ (packedEditsOf mode es).1 := by
  induction es with
  | nil => cases he
  | cons x rest ih =>
    rw [packedEditsOf_cons]
    cases he with
    | head => rw [hpe]; simp
    | tail _ he' => exact List.mem_append_right _ (ih he')

theorem known_iff (env : Env) (S : Store) (mode : Mode) (es : List Edit) :
    allKnown env (filterPackedEdits S.packed (packedEditsOf mode es).1) = objectsKnown env mode es := by
  rw [Bool.eq_iff_iff]
  unfold allKnown objectsKnown
  simp only [List.all_eq_true]
  constructor
  · intro h e he
    cases hch : e.update.change with
    | delete exp log => rfl
    | update log exp new =>
      cases log with
      | only => rfl
      | andReference =>
        cases new with
        | symbolic r => rfl
        | object o =>
          simp only []
          by_cases hc : (decide (mode ≠ .deletionsOnly) && packable e.name) = true
          · simp only [hc, if_true]
            simp only [Bool.and_eq_true, decide_eq_true_eq] at hc
            have hpe : pe1 mode e = some (some o) := (pe1_update_iff mode e o).mpr ⟨exp, hch, hc.1, hc.2⟩
            have hmem : (e.name, some o) ∈ (packedEditsOf mode es).1 := packedEditsOf_mem mode es e he _ hpe
            have := h (e.name, some o) ((filterPackedEdits_mem _ _ _).mpr ⟨hmem, rfl⟩)
            simpa using this
          · have hc' : (decide (mode ≠ .deletionsOnly) && packable e.name) = false := by simpa using hc
            simp only [hc', Bool.false_eq_true, if_false]
  · intro h kv hkv
    cases hv : kv.2 with
    | none => rfl
    | some o =>
      simp only []
      have hmem := ((filterPackedEdits_mem _ _ kv).mp hkv).1
      obtain ⟨e, he, hen, hpe⟩ := packedEditsOf_keys mode es kv hmem
      rw [hv] at hpe
      obtain ⟨exp, hch, hm, hp⟩ := (pe1_update_iff mode e o).mp hpe
      have := h e he
      rw [hch] at this
      simpa [hm, hp] using this

theorem readExisting_tx (S : Store) (b : Bool) (n : Name) :
    readExisting { S with packedLock := b } S.packed n = S.find n := by
  unfold readExisting Store.find
  cases lookup S.loose n <;> rfl

/-- does `prepare_inner` create a packed-refs transaction (no foreign packed-refs.lock) -/
def withTxB (mode : Mode) (S : Store) (es : List Edit) : Bool :=
  ((decide (mode ≠ .deletionsOnly) || S.packed.isSome) &&
      (!(packedEditsOf mode es).1.isEmpty || (packedEditsOf mode es).2.1)) &&
    ((decide (mode ≠ .deletionsOnly) && decide ((packedEditsOf mode es).2.2 > 0)) || S.packed.isSome)

def liftPrep (ptx : Option PTx) (mode : Mode) : Res (List Edit) → Res Prepared
  | .ok es' S2 => .ok { edits := es', ptx := ptx, mode := mode } S2
  | .err e S2 => .err e S2
  | .panic S2 => .panic S2
  | .hang => .hang

theorem prepareWith_ok_eq (env : Env) (S : Store) (t : Txn) (es : List Edit)
    (hp : preProcess (fun n => lookup S.loose n) t.edits = .ok es) (hpl0 : S.packedLock = false) :
    prepareWith .fixed env S t =
      if withTxB t.mode S es = true then
        if objectsKnown env t.mode es = true then
          liftPrep (some { buffer := S.packed, edits := filterPackedEdits S.packed (packedEditsOf t.mode es).1 }) t.mode
            (prepLoop .fixed
              { buffer := S.packed, hasGlobalLock := true, directToPacked := decide (t.mode = .updatesRemoveLoose) }
              (fun S' => { S' with packedLock := false }) es.length 0 { S with packedLock := true } es)
        else .err .packedPrepare S
      else
        liftPrep none t.mode
          (prepLoop .fixed
            { buffer := none, hasGlobalLock := false, directToPacked := decide (t.mode = .updatesRemoveLoose) }
            id es.length 0 S es) := by
  unfold prepareWith
  rw [hp]
  simp only [hpl0, Bool.or_false, Bool.false_eq_true, if_false]
  rw [known_iff]
  unfold withTxB
  split
  · by_cases hk : objectsKnown env t.mode es = true
    · simp only [hk, Bool.not_true, Bool.false_eq_true, if_false, if_true]
      unfold liftPrep
      split <;> simp_all
    · have hk' : objectsKnown env t.mode es = false := by simpa using hk
      simp [hk']
  · unfold liftPrep
    split <;> simp_all

/-- without a packed-refs transaction the packed buffer is not consulted — and not needed -/
theorem notx_facts (S : Store) (hS : StoreOk S) (mode : Mode) (es : List Edit)
    (hinv : ∀ e ∈ es, PreInv (fun n => lookup S.loose n) e)
    (hwith : withTxB mode S es = false) :
    (∀ e ∈ es, readExisting S none e.name = S.find e.name) ∧
    (∀ e ∈ es, (∀ o, pe1 mode e ≠ some (some o)) ∧ (pe1 mode e = some none → S.packed = none)) := by
  cases hpk : S.packed with
  | none =>
    constructor
    · intro e _
      unfold readExisting Store.find
      rw [hpk]
    · intro e he
      refine ⟨fun o hpe => ?_, fun _ => rfl⟩
      have hmem := packedEditsOf_mem mode es e he _ hpe
      have hcount : (packedEditsOf mode es).2.2 > 0 := by
        rw [packedEditsOf_count]
        exact List.length_pos_of_mem (List.mem_filter.mpr ⟨hmem, rfl⟩)
      obtain ⟨_, _, hm, _⟩ := (pe1_update_iff mode e o).mp hpe
      have hne : (packedEditsOf mode es).1.isEmpty = false := by
        cases h : (packedEditsOf mode es).1 with
        | nil => rw [h] at hmem; cases hmem
        | cons _ _ => rfl
      unfold withTxB at hwith
      simp [hm, hcount, hne] at hwith
  | some b =>
    have hnone : (packedEditsOf mode es).1 = [] ∧ (packedEditsOf mode es).2.1 = false := by
      unfold withTxB at hwith
      simp only [hpk, Option.isSome_some, Bool.or_true, Bool.true_and, Bool.and_true] at hwith
      simp only [Bool.or_eq_false_iff, Bool.not_eq_false', List.isEmpty_iff] at hwith
      exact hwith
    have hall := packedEditsOf_none mode es hnone.1 hnone.2
    constructor
    · intro e he
      rcases hall e he with hlog | hp
      · obtain ⟨_, r, hr⟩ := (hinv e he).2 hlog
        unfold readExisting Store.find
        have : lookup S.loose e.name = some (.symbolic r) := hr
        rw [this]
      · rw [find_eq, findPacked_none_of_not_packable S hS e.name hp]
        unfold readExisting
        cases lookup S.loose e.name <;> rfl
    · intro e he
      have hpe : pe1 mode e = none := by
        cases h : pe1 mode e with
        | none => rfl
        | some v =>
          have := packedEditsOf_mem mode es e he v h
          rw [hnone.1] at this; cases this
      constructor
      · intro o h; rw [hpe] at h; cases h
      · intro h; rw [hpe] at h; cases h

/-- A transaction on a store without foreign locks refines the compare-and-swap on the map. -/
theorem run_refines (env : Env) (S : Store) (t : Txn) (hS : StoreOk S) (hL : NoLocks S) (hT : PlainTxn t) :
    match run env S t with
    | .ok _ S' => Spec.apply env (abs S) t = .ok (abs S') ∧ StoreOk S' ∧ NoLocks S' ∧ (LooseNodup S → LooseNodup S')
    | .err _ S' => S' = S ∧ Spec.apply env (abs S) t = .err
    | .panic S' => S' = S ∧ Spec.apply env (abs S) t = .contract
    | .hang => False := by
  obtain ⟨hl0, hpl0⟩ := hL
  have hpre : preProcess (fun n => lookup S.loose n) t.edits = preProcess (abs S) t.edits :=
    preProcess_congr _ _ (abs_sameSymbolic S) t.edits
  cases hp : preProcess (fun n => lookup S.loose n) t.edits with
  | outOfFuel => exact absurd (preProcess_ne_outOfFuel _ _ _ hp) (by simp)
  | cycle =>
    have : run env S t = .err .preprocess S := by unfold run runWith prepareWith; rw [hp]
    rw [this]
    refine ⟨rfl, ?_⟩
    unfold Spec.apply; rw [← hpre, hp]
  | duplicate =>
    have : run env S t = .err .preprocess S := by unfold run runWith prepareWith; rw [hp]
    rw [this]
    refine ⟨rfl, ?_⟩
    unfold Spec.apply; rw [← hpre, hp]
  | ok es =>
    obtain ⟨hinv, hn⟩ := preProcess_ok_inv _ _ hT es hp
    have hw := preProcess_ok_wf _ _ _ hp
    have hlk : ∀ e ∈ es, e.lock = false := fun e he => (hinv e he).1
    have hspec : Spec.apply env (abs S) t =
        if !objectsKnown env t.mode es then .err
        else match firstFailure (abs S) es with
          | none => .ok (applyEffects (abs S) es)
          | some .bug => .contract
          | some _ => .err := by
      unfold Spec.apply; rw [← hpre, hp]
      rfl
    have hunlock : ({ ({ S with packedLock := true } : Store) with packedLock := false } : Store) = S := by
      cases S; simp_all
    unfold run runWith
    rw [prepareWith_ok_eq env S t es hp hpl0, hspec]
    by_cases hwith : withTxB t.mode S es = true
    · simp only [hwith, if_true]
      by_cases hk : objectsKnown env t.mode es = true
      · simp only [hk, if_true, Bool.not_true, Bool.false_eq_true, if_false]
        have hsum := prepLoop_summary
          { buffer := S.packed, hasGlobalLock := true, directToPacked := decide (t.mode = .updatesRemoveLoose) }
          (fun S' => { S' with packedLock := false }) { S with packedLock := true } S es hl0
          hunlock hw hlk hn (fun e _ => readExisting_tx S true e.name)
        cases hpl : prepLoop .fixed
          { buffer := S.packed, hasGlobalLock := true, directToPacked := decide (t.mode = .updatesRemoveLoose) }
          (fun S' => { S' with packedLock := false }) es.length 0 { S with packedLock := true } es with
        | ok es' S2 =>
          rw [hpl] at hsum
          obtain ⟨hff, hS2, hcore⟩ := hsum
          simp only [liftPrep]
          subst hS2
          have hne : S.packed = none → (packedEditsOf t.mode es).2.2 > 0 := by
            intro hpk
            unfold withTxB at hwith
            simp only [hpk, Option.isSome_none, Bool.or_false, Bool.and_eq_true, decide_eq_true_eq] at hwith
            exact hwith.2.2
          obtain ⟨S', hc, hNL, hOK, habs⟩ := commit_tx S hS hl0 t.mode _ rfl es es' hn hcore hne
          rw [hc]
          refine ⟨?_, hOK, hNL, fun hN => commit_nodup _ _ (by exact hN) () S' hc⟩
          have hff' : firstFailure (abs S) es = none := hff
          rw [hff']
          show SpecRes.ok (applyEffects (abs S) es) = SpecRes.ok (abs S')
          congr 1
          funext m
          exact (habs m).symm
        | err e S2 =>
          rw [hpl] at hsum
          obtain ⟨h1, ce, hff, hnb⟩ := hsum
          simp only [liftPrep]
          refine ⟨h1, ?_⟩
          have hff' : firstFailure (abs S) es = some ce := hff
          rw [hff']
          cases ce <;> simp_all
        | panic S2 =>
          rw [hpl] at hsum
          obtain ⟨h1, hff⟩ := hsum
          simp only [liftPrep]
          refine ⟨h1, ?_⟩
          have hff' : firstFailure (abs S) es = some .bug := hff
          rw [hff']
        | hang => rw [hpl] at hsum; exact hsum
      · have hk' : objectsKnown env t.mode es = false := by simpa using hk
        simp [hk']
    · have hwith' : withTxB t.mode S es = false := by simpa using hwith
      simp only [hwith', Bool.false_eq_true, if_false]
      obtain ⟨hfind, hQ⟩ := notx_facts S hS t.mode es hinv hwith'
      have hsum := prepLoop_summary
        { buffer := none, hasGlobalLock := false, directToPacked := decide (t.mode = .updatesRemoveLoose) }
        id S S es hl0 rfl hw hlk hn hfind
      -- the objects need not be known: nothing goes to packed-refs
      have hk : objectsKnown env t.mode es = true := by
        unfold objectsKnown
        rw [List.all_eq_true]
        intro e he
        cases hch : e.update.change with
        | delete exp log => rfl
        | update log exp new =>
          cases log with
          | only => rfl
          | andReference =>
            cases new with
            | symbolic r => rfl
            | object o =>
              simp only []
              by_cases hc : (decide (t.mode ≠ .deletionsOnly) && packable e.name) = true
              · exfalso
                simp only [Bool.and_eq_true, decide_eq_true_eq] at hc
                exact (hQ e he).1 o ((pe1_update_iff t.mode e o).mpr ⟨exp, hch, hc.1, hc.2⟩)
              · have hc' : (decide (t.mode ≠ .deletionsOnly) && packable e.name) = false := by simpa using hc
                simp only [hc', Bool.false_eq_true, if_false]
      simp only [hk, Bool.not_true, Bool.false_eq_true, if_false]
      cases hpl : prepLoop .fixed
        { buffer := none, hasGlobalLock := false, directToPacked := decide (t.mode = .updatesRemoveLoose) }
        id es.length 0 S es with
      | ok es' S2 =>
        rw [hpl] at hsum
        obtain ⟨hff, hS2, hcore⟩ := hsum
        simp only [liftPrep]
        subst hS2
        obtain ⟨S', hc, hNL, hOK, habs⟩ := commit_notx S hS hl0 hpl0 t.mode _ rfl es es' hn hcore hQ
        rw [hc]
        refine ⟨?_, hOK, hNL, fun hN => commit_nodup _ _ (by exact hN) () S' hc⟩
        have hff' : firstFailure (abs S) es = none := hff
        rw [hff']
        show SpecRes.ok (applyEffects (abs S) es) = SpecRes.ok (abs S')
        congr 1
        funext m
        exact (habs m).symm
      | err e S2 =>
        rw [hpl] at hsum
        obtain ⟨h1, ce, hff, hnb⟩ := hsum
        simp only [liftPrep]
        refine ⟨h1, ?_⟩
        have hff' : firstFailure (abs S) es = some ce := hff
        rw [hff']
        cases ce <;> simp_all
      | panic S2 =>
        rw [hpl] at hsum
        obtain ⟨h1, hff⟩ := hsum
        simp only [liftPrep]
        refine ⟨h1, ?_⟩
        have hff' : firstFailure (abs S) es = some .bug := hff
        rw [hff']
      | hang => rw [hpl] at hsum; exact hsum

end GixModel.C17
