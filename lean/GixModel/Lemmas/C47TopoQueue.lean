import GixModel.Lemmas.C47TopoCount
/-
C47 — lemmas, part 6: the depth guarantee of `compute_indegrees_to_depth`, more about `cnt`, and
the topo queue (`Queue::Date` / `Queue::Topo`) as a bag of commits.
-/
namespace GixModel.C47
open GixModel GixModel.CG GixModel.Spec.C47
open GixModel.C46 (filter_length_mono filter_length_lt filter_length_flip)

section
variable {E : TopoEnv} {nodes tips ends : List Nat}

/-- the in-degree queue only holds commits below `min_gen` -/
def Depth (E : TopoEnv) (s : TS E) : Prop := ∀ e, e ∈ E.qg.items s.indegQ → e.1.1 < s.minGen

/-- Every reachable commit at or above `min_gen` went through the in-degree walk. -/
theorem counted_of_depth (ctx : TCtx E nodes tips ends) {s : TS E} {outp cur pend : List Nat}
    (h : NInv E nodes tips ends s outp cur pend) (hd : Depth E s) {x : Nat}
    (hr : Rch E tips ends x) (hg : s.minGen ≤ E.g.gen x) : countedB E s x = true := by
  have hnotq : ∀ y, s.minGen ≤ E.g.gen y → y ∉ iqIds E s := by
    intro y hy hmem
    obtain ⟨e, he, hey⟩ := List.mem_map.mp hmem
    have h1 := hd e he
    have h2 := h.iq_key e he
    rw [h2, hey] at h1
    simp only [genTime] at h1
    omega
  obtain ⟨s0, hs0, hreach⟩ := hr
  have hflag : s.states.fInDeg x = true := by
    have key : ∀ {y}, Reach E.eg s0 y → Reach E.eg y x → s.states.fInDeg y = true := by
      intro y hy
      refine Reach.induction_tail (motive := fun y => Reach E.eg y x → s.states.fInDeg y = true)
        (fun _ => h.starts_in s0 hs0) ?_ hy
      intro y p _ ih hp hpx
      have hyx : Reach E.eg y x := Reach.head hp hpx
      have hyf := ih hyx
      have hgy : s.minGen ≤ E.g.gen y := by
        have := (eg_reach_g E hyx).gen_le ctx.genmono
        omega
      have hyc : countedB E s y = true := by
        have := hnotq y hgy
        simp [countedB, hyf, this]
      exact h.cnt_done y hyc p hp
    exact key hreach (Reach.refl x)
  have := hnotq x hg
  simp [countedB, hflag, this]

theorem cnt_pos {s : TS E} {outp : List Nat} {p c : Nat} (hcn : c ∈ nodes) (hc : countedB E s c = true)
    (hp : p ∈ walkParents E c) (hco : c ∉ outp) : 1 ≤ cnt E nodes s outp p := by
  unfold cnt
  apply List.length_pos_of_mem (a := c)
  rw [List.mem_filter]
  exact ⟨hcn, by simp [hc, hp, hco]⟩

theorem cnt_zero {s : TS E} {outp : List Nat} {p : Nat} (h : cnt E nodes s outp p = 0) {c : Nat}
    (hcn : c ∈ nodes) (hc : countedB E s c = true) (hp : p ∈ walkParents E c) : c ∈ outp := by
  apply Classical.byContradiction
  intro hco
  have := cnt_pos (nodes := nodes) (s := s) hcn hc hp hco
  omega

/-- emitting the counted commit `c` turns its edges from "counted" into "current" ones -/
theorem cnt_emit {s : TS E} {outp : List Nat} {c : Nat} (hnd : nodes.Nodup) (hcn : c ∈ nodes)
    (hc : countedB E s c = true) (hco : c ∉ outp) (p : Nat) :
    cnt E nodes s (outp ++ [c]) p + (if p ∈ walkParents E c then 1 else 0) = cnt E nodes s outp p := by
  unfold cnt
  by_cases hp : p ∈ walkParents E c
  · rw [if_pos hp]
    apply filter_length_flip nodes hnd c hcn
    · simp [hc, hp, hco]
    · simp
    · intro x hx
      simp [hx]
  · rw [if_neg hp, Nat.add_zero]
    congr 1
    apply List.filter_congr
    intro x _
    by_cases hx : x = c
    · subst hx; simp [hp]
    · simp [hx]

theorem cnt_indeg_congr {s s' : TS E} (h1 : s'.states = s.states) (h2 : s'.indegQ = s.indegQ)
    (outp : List Nat) (p : Nat) : cnt E nodes s' outp p = cnt E nodes s outp p := by
  apply cnt_congr
  apply countedB_congr
  · intro x; rw [h1]
  · exact h2

/-! ### the topo queue -/

theorem tqIds_push (ctx : TCtx E nodes tips ends) (s : TS E) (t : Int) (c : Nat) :
    (tqIds E (tqPush E s t c)).Perm (c :: tqIds E s) := by
  unfold tqIds tqPush
  cases hs : E.cfg.sorting with
  | dateOrder =>
    dsimp only
    have := (ctx.qd_lawful.items_insert (t, s.dateCtr) c s.dateQ).map (·.2)
    simpa using this
  | topoOrder =>
    dsimp only
    simp

theorem tqPush_frame (s : TS E) (t : Int) (c : Nat) :
    (tqPush E s t c).indeg = s.indeg ∧ (tqPush E s t c).states = s.states ∧
    (tqPush E s t c).explore = s.explore ∧ (tqPush E s t c).indegQ = s.indegQ ∧
    (tqPush E s t c).minGen = s.minGen := by
  unfold tqPush
  cases E.cfg.sorting <;> exact ⟨rfl, rfl, rfl, rfl, rfl⟩

theorem tqPop_some (ctx : TCtx E nodes tips ends) {s s' : TS E} {c : Nat} (h : tqPop E s = some (c, s')) :
    (tqIds E s).Perm (c :: tqIds E s') ∧ s'.indeg = s.indeg ∧ s'.states = s.states ∧
    s'.explore = s.explore ∧ s'.indegQ = s.indegQ ∧ s'.minGen = s.minGen := by
  unfold tqPop at h
  unfold tqIds
  cases hs : E.cfg.sorting with
  | dateOrder =>
    rw [hs] at h
    dsimp only at h ⊢
    cases hpop : E.qd.pop s.dateQ with
    | none => rw [hpop] at h; cases h
    | some r =>
      obtain ⟨⟨k, c'⟩, qu⟩ := r
      rw [hpop] at h
      simp only [Option.some.injEq, Prod.mk.injEq] at h
      obtain ⟨h1, h2⟩ := h
      subst h1; subst h2
      have := (ctx.qd_lawful.pop_some _ _ _ hpop).map (·.2)
      exact ⟨by simpa using this, rfl, rfl, rfl, rfl, rfl⟩
  | topoOrder =>
    rw [hs] at h
    dsimp only at h ⊢
    cases hst : s.stack with
    | nil => rw [hst] at h; cases h
    | cons e rest =>
      obtain ⟨t, c'⟩ := e
      rw [hst] at h
      simp only [Option.some.injEq, Prod.mk.injEq] at h
      obtain ⟨h1, h2⟩ := h
      subst h1; subst h2
      exact ⟨by simp, rfl, rfl, rfl, rfl, rfl⟩

theorem tqPop_none (ctx : TCtx E nodes tips ends) {s : TS E} (h : tqPop E s = none) : tqIds E s = [] := by
  unfold tqPop at h
  unfold tqIds
  cases hs : E.cfg.sorting with
  | dateOrder =>
    rw [hs] at h
    dsimp only at h ⊢
    cases hpop : E.qd.pop s.dateQ with
    | none => rw [ctx.qd_lawful.pop_none _ hpop]; rfl
    | some r => obtain ⟨⟨k, c'⟩, qu⟩ := r; rw [hpop] at h; cases h
  | topoOrder =>
    rw [hs] at h
    dsimp only at h ⊢
    cases hst : s.stack with
    | nil => rfl
    | cons e rest => obtain ⟨t, c'⟩ := e; rw [hst] at h; cases h

/-- `l ++ [c]` split at an element: either inside `l`, or at the very end -/
theorem append_singleton_split {l l₁ l₂ : List Nat} {c x : Nat} (h : l ++ [c] = l₁ ++ x :: l₂) :
    (∃ l₂', l₂ = l₂' ++ [c] ∧ l = l₁ ++ x :: l₂') ∨ (l₂ = [] ∧ l₁ = l ∧ x = c) := by
  cases List.eq_nil_or_concat l₂ with
  | inl hnil =>
    subst hnil
    right
    have : l ++ [c] = l₁ ++ [x] := h
    have h1 := List.append_inj' this rfl
    exact ⟨rfl, h1.1.symm, by simpa using h1.2.symm⟩
  | inr hc =>
    obtain ⟨l₂', y, hy⟩ := hc
    rw [List.concat_eq_append] at hy
    subst hy
    left
    have : l ++ [c] = (l₁ ++ x :: l₂') ++ [y] := by rw [h]; simp
    have h1 := List.append_inj' this rfl
    have hy : y = c := by simpa using h1.2.symm
    subst hy
    exact ⟨l₂', rfl, h1.1⟩

end

end GixModel.C47
