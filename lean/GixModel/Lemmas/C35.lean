import GixModel.Model.C35
/-
C35 — helper lemmas: the line reader on `key=value\n` records, the per-line interpreter on a
well-formed record, and the fold over all records.
-/
namespace GixModel.C35
open GixModel

/-- a value `write_to` accepts: no NUL, no LF, no CR -/
def Clean (v : Bytes) : Prop := v.contains 0 = false ∧ v.contains 10 = false ∧ v.contains 13 = false

instance (v : Bytes) : Decidable (Clean v) := by unfold Clean; infer_instance

/-- the record without its terminator -/
def content (k : Key) (v : Bytes) : Bytes := k.bytes ++ 61 :: v

/-- what reading `key=value` does to a context -/
def setField (k : Key) (v : Bytes) (c : Context) : Context :=
  match k with
  | .url => { c with url := some v }
  | .path => { c with path := some v }
  | .protocol => { c with protocol := some v }
  | .host => { c with host := some v }
  | .username => { c with username := some v }
  | .password => { c with password := some v }

theorem line_eq (k : Key) (v : Bytes) : line k v = content k v ++ [10] := by
  simp [line, content]

theorem key_no_lf (k : Key) : k.bytes.contains 10 = false := by cases k <;> decide

theorem key_valid (k : Key) : k.bytes.contains 0 = false ∧ validUtf8 k.bytes = true := by
  cases k <;> decide

theorem writeAccepts_iff (k : Key) (v : Bytes) : writeAccepts k.bytes v = true ↔ Clean v := by
  have h1 := key_no_lf k
  have h2 := (key_valid k).1
  simp only [writeAccepts, validate, h1, h2, Clean]
  cases v.contains 0 <;> cases v.contains 10 <;> cases v.contains 13 <;> simp

/-! ### lines -/

theorem linesGo_record (a rest acc : Bytes) (h : a.contains 10 = false) :
    linesGo (a ++ 10 :: rest) acc = trimCr (acc.reverse ++ a) :: linesGo rest [] := by
  induction a generalizing acc with
  | nil => simp [linesGo]
  | cons b a ih =>
    simp only [List.contains_cons, Bool.or_eq_false_iff] at h
    have hb : b ≠ 10 := by
      intro e; subst e; simp at h
    simp only [List.cons_append, linesGo, hb, if_false]
    rw [ih _ h.2]
    simp

theorem getLast?_ne_of_not_mem (l : Bytes) (x : UInt8) (h : l.contains x = false) : l.getLast? ≠ some x := by
  intro e
  have : x ∈ l := List.mem_of_getLast? e
  have : l.contains x = true := by simpa using this
  rw [h] at this; cases this

theorem trimCr_content (k : Key) (v : Bytes) (h : v.contains 13 = false) : trimCr (content k v) = content k v := by
  unfold trimCr
  have : (content k v).getLast? ≠ some 13 := by
    unfold content
    rw [List.getLast?_append]
    cases v with
    | nil => simp
    | cons b v =>
      have := getLast?_ne_of_not_mem (b :: v) 13 h
      cases hl : (b :: v).getLast? with
      | none => simp at hl
      | some y =>
        rw [hl] at this
        simp only [List.getLast?_cons_cons, hl, Option.some_or]
        exact this
  simp [this]

theorem content_no_lf (k : Key) (v : Bytes) (h : v.contains 10 = false) : (content k v).contains 10 = false := by
  have hk := key_no_lf k
  simp only [content, List.contains_eq_mem, List.mem_append, List.mem_cons, decide_eq_false_iff_not] at *
  intro hh
  rcases hh with hh | hh | hh
  · exact hk hh
  · cases hh
  · exact h hh

theorem lines_records (kvs : List (Key × Bytes)) (h : ∀ kv ∈ kvs, Clean kv.2) :
    lines (kvs.flatMap fun kv => line kv.1 kv.2) = kvs.map fun kv => content kv.1 kv.2 := by
  unfold lines
  have e : (fun kv : Key × Bytes => line kv.1 kv.2) = (fun kv => content kv.1 kv.2 ++ [10]) := by
    funext kv; exact line_eq _ _
  rw [e]
  induction kvs with
  | nil => simp [linesGo]
  | cons kv kvs ih =>
    have hc := h kv (by simp)
    simp only [List.flatMap_cons, List.append_assoc, List.singleton_append, List.map_cons]
    rw [linesGo_record _ _ _ (content_no_lf kv.1 kv.2 hc.2.1)]
    simp only [List.reverse_nil, List.nil_append, trimCr_content kv.1 kv.2 hc.2.2]
    rw [ih (fun kv' hkv' => h kv' (by simp [hkv']))]

/-! ### one record -/

theorem splitEq_append (a v : Bytes) (h : a.contains 61 = false) : splitEq (a ++ 61 :: v) = (a, some v) := by
  induction a with
  | nil => simp [splitEq]
  | cons b a ih =>
    simp only [List.contains_cons, Bool.or_eq_false_iff] at h
    have hb : b ≠ 61 := by
      intro e; subst e; simp at h
    simp only [List.cons_append, splitEq, hb, if_false, ih h.2]

theorem key_no_eq (k : Key) : k.bytes.contains 61 = false := by cases k <;> decide

theorem applyLine_record (c : Context) (k : Key) (v : Bytes) (hc : Clean v)
    (hu : k.isString = true → validUtf8 v = true) :
    applyLine c (content k v) = .ok (setField k v c) := by
  have hv : validate k.bytes v = true := by
    unfold validate; rw [key_no_lf k, (key_valid k).1, hc.1, hc.2.1]; rfl
  unfold applyLine content
  rw [splitEq_append _ _ (key_no_eq k)]
  simp only [(key_valid k).2, hv, Bool.not_true, Bool.false_eq_true, if_false]
  cases k
  · simp [Key.bytes, setField]
  · simp [Key.bytes, setField]
  · simp [Key.bytes, setField, hu rfl]
  · simp [Key.bytes, setField, hu rfl]
  · simp [Key.bytes, setField, hu rfl]
  · simp [Key.bytes, setField, hu rfl]

theorem content_not_empty (k : Key) (v : Bytes) : (content k v).isEmpty = false := by
  cases k <;> simp [content, Key.bytes]

theorem applyLines_records (kvs : List (Key × Bytes)) (c : Context)
    (h : ∀ kv ∈ kvs, Clean kv.2 ∧ (kv.1.isString = true → validUtf8 kv.2 = true)) :
    applyLines (kvs.map fun kv => content kv.1 kv.2) c
      = .ok (kvs.foldl (fun c kv => setField kv.1 kv.2 c) c) := by
  induction kvs generalizing c with
  | nil => rfl
  | cons kv kvs ih =>
    obtain ⟨h1, h2⟩ := h kv (by simp)
    simp only [List.map_cons, applyLines, content_not_empty, Bool.false_eq_true, if_false,
      applyLine_record c kv.1 kv.2 h1 h2, List.foldl_cons]
    exact ih _ (fun kv' hkv' => h kv' (by simp [hkv']))

/-- reading the records of `kvs` -/
theorem fromBytes_records (kvs : List (Key × Bytes))
    (h : ∀ kv ∈ kvs, Clean kv.2 ∧ (kv.1.isString = true → validUtf8 kv.2 = true)) :
    fromBytes (kvs.flatMap fun kv => line kv.1 kv.2)
      = .ok (kvs.foldl (fun c kv => setField kv.1 kv.2 c) {}) := by
  unfold fromBytes
  rw [lines_records kvs (fun kv hkv => (h kv hkv).1)]
  exact applyLines_records kvs {} h

/-! ### the writer -/

theorem writeGo_spec (kvs : List (Key × Bytes)) (out : Bytes) :
    (∀ kv ∈ kvs, Clean kv.2) ∧ writeGo kvs out = .ok (out ++ kvs.flatMap fun kv => line kv.1 kv.2)
    ∨ ∃ pre bad post, kvs = pre ++ bad :: post ∧ (∀ kv ∈ pre, Clean kv.2) ∧ ¬ Clean bad.2 ∧
        writeGo kvs out = .err (out ++ pre.flatMap fun kv => line kv.1 kv.2) := by
  induction kvs generalizing out with
  | nil => left; simp [writeGo]
  | cons kv kvs ih =>
    by_cases hc : Clean kv.2
    · have ha := (writeAccepts_iff kv.1 kv.2).2 hc
      rcases ih (out ++ line kv.1 kv.2) with ⟨h1, h2⟩ | ⟨pre, bad, post, e, h1, h2, h3⟩
      · left
        refine ⟨?_, ?_⟩
        · intro kv' hkv'
          simp only [List.mem_cons] at hkv'
          rcases hkv' with rfl | hkv'
          · exact hc
          · exact h1 kv' hkv'
        · simp only [writeGo, ha, if_true, h2, List.flatMap_cons, List.append_assoc]
      · right
        refine ⟨kv :: pre, bad, post, by simp [e], ?_, h2, ?_⟩
        · intro kv' hkv'
          simp only [List.mem_cons] at hkv'
          rcases hkv' with rfl | hkv'
          · exact hc
          · exact h1 kv' hkv'
        · simp only [writeGo, ha, if_true, h3, List.flatMap_cons, List.append_assoc]
    · right
      have ha : writeAccepts kv.1.bytes kv.2 = false := by
        cases h : writeAccepts kv.1.bytes kv.2 with
        | false => rfl
        | true => exact absurd ((writeAccepts_iff kv.1 kv.2).1 h) hc
      exact ⟨[], kv, kvs, rfl, by simp, hc, by simp [writeGo, ha]⟩

/-- setting every present field on the empty context rebuilds the context (minus `quit`) -/
theorem fold_present (c : Context) :
    c.present.foldl (fun c kv => setField kv.1 kv.2 c) {} = { c with quit := none } := by
  obtain ⟨protocol, host, path, username, password, url, quit⟩ := c
  cases protocol <;> cases host <;> cases path <;> cases username <;> cases password <;> cases url <;> rfl

end GixModel.C35
