import GixModel.Basic.Civil
/-
C52 — the calendar conversions are mutually inverse on ALL dates / ALL day numbers (unbounded Int).
Finite facts are checked year by year (400 years of an era) and day by day within one year (366),
the rest is monotonicity and linear arithmetic.
-/
namespace GixModel.Civil

/-- length of the computational year `yoe` (March 1st … end of February) -/
def yearLen (yoe : Nat) : Nat :=
  if (yoe + 1) % 4 == 0 && ((yoe + 1) % 100 != 0 || (yoe + 1) % 400 == 0) then 366 else 365

def allBelow (f : Nat → Bool) : Nat → Bool
  | 0 => true
  | n + 1 => f n && allBelow f n

theorem allBelow_spec {f : Nat → Bool} : ∀ {n : Nat}, allBelow f n = true → ∀ i, i < n → f i = true
  | 0, _, i, hi => by omega
  | n + 1, h, i, hi => by
    simp only [allBelow, Bool.and_eq_true] at h
    by_cases hin : i = n
    · subst hin; exact h.1
    · exact allBelow_spec h.2 i (by omega)

/-- start of the computational year `i` within the era; `bnd 400` is the length of the era -/
def bnd (i : Nat) : Nat := if i ≥ 400 then 146097 else doyBase i

/-- per year of the era: next start = start + length; first and last day map back to the year -/
def yearCheck (yoe : Nat) : Bool :=
  bnd (yoe + 1) == bnd yoe + yearLen yoe &&
  yoeOfDoe (doyBase yoe) == yoe &&
  yoeOfDoe (doyBase yoe + yearLen yoe - 1) == yoe

theorem years_ok : allBelow yearCheck 400 = true := by decide +kernel

theorem yearCheck_spec {yoe : Nat} (h : yoe < 400) :
    bnd (yoe + 1) = doyBase yoe + yearLen yoe ∧ yoeOfDoe (doyBase yoe) = yoe ∧
      yoeOfDoe (doyBase yoe + yearLen yoe - 1) = yoe := by
  have := allBelow_spec years_ok yoe h
  simp only [yearCheck, Bool.and_eq_true, beq_iff_eq] at this
  have hb : bnd yoe = doyBase yoe := by unfold bnd; rw [if_neg (by omega)]
  rw [hb] at this
  exact ⟨this.1.1, this.1.2, this.2⟩

theorem yearLen_pos (yoe : Nat) : 365 ≤ yearLen yoe := by
  unfold yearLen; split <;> omega

theorem yearLen_le (yoe : Nat) : yearLen yoe ≤ 366 := by
  unfold yearLen; split <;> omega

theorem bnd_succ {i : Nat} (h : i < 400) : bnd (i + 1) = bnd i + yearLen i := by
  have hb : bnd i = doyBase i := by unfold bnd; rw [if_neg (by omega)]
  rw [hb]; exact (yearCheck_spec h).1

theorem bnd_mono : ∀ (k a : Nat), a + k ≤ 400 → bnd a ≤ bnd (a + k)
  | 0, a, _ => Nat.le_refl _
  | k + 1, a, h => by
    have h1 := bnd_mono k a (by omega)
    have h2 := bnd_succ (i := a + k) (by omega)
    have : a + (k + 1) = a + k + 1 := by omega
    rw [this, h2]; omega

theorem bnd_le_era {a : Nat} (h : a ≤ 400) : bnd a ≤ 146097 := by
  have := bnd_mono (400 - a) a (by omega)
  have h2 : a + (400 - a) = 400 := by omega
  rw [h2] at this
  have h3 : bnd 400 = 146097 := by decide
  omega

/-- numerator of `yoeOfDoe` is monotone below 146097 -/
theorem num_mono (a b : Nat) (hab : a ≤ b) (hb : b < 146097) :
    a - a / 1460 + a / 36524 - a / 146096 ≤ b - b / 1460 + b / 36524 - b / 146096 := by
  omega

theorem yoeOfDoe_mono (a b : Nat) (hab : a ≤ b) (hb : b < 146097) : yoeOfDoe a ≤ yoeOfDoe b := by
  unfold yoeOfDoe
  exact Nat.div_le_div_right (num_mono a b hab hb)

/-- discrete intermediate value: the year whose interval contains `x` -/
theorem find_year (x : Nat) : ∀ (n : Nat), x < bnd n → ∃ i, i < n ∧ bnd i ≤ x ∧ x < bnd (i + 1)
  | 0, hn => by
    have : bnd 0 = 0 := by decide
    omega
  | n + 1, hn => by
    by_cases h : x < bnd n
    · obtain ⟨i, hi, h1, h2⟩ := find_year x n h
      exact ⟨i, by omega, h1, h2⟩
    · exact ⟨n, by omega, by omega, hn⟩

/-- the year of the era of any day of the era, and its day of the year -/
theorem yoe_spec (doe : Nat) (h : doe < 146097) :
    yoeOfDoe doe < 400 ∧ doyBase (yoeOfDoe doe) ≤ doe ∧ doe - doyBase (yoeOfDoe doe) < yearLen (yoeOfDoe doe) := by
  have h400 : bnd 400 = 146097 := by decide
  obtain ⟨i, hi, h1, h2⟩ := find_year doe 400 (by omega)
  obtain ⟨hb, hf, hl⟩ := yearCheck_spec hi
  have hbi : bnd i = doyBase i := by unfold bnd; rw [if_neg (by omega)]
  rw [hbi] at h1
  rw [hb] at h2
  have hlen := yearLen_pos i
  have hend : doyBase i + yearLen i ≤ 146097 := by
    have := bnd_le_era (a := i + 1) (by omega)
    rw [hb] at this; exact this
  have : yoeOfDoe doe = i := by
    have hlo := yoeOfDoe_mono (doyBase i) doe h1 h
    have hhi := yoeOfDoe_mono doe (doyBase i + yearLen i - 1) (by omega) (by omega)
    rw [hf] at hlo; rw [hl] at hhi; omega
  rw [this]
  exact ⟨hi, h1, by omega⟩

/-- conversely: a year of the era and a day within it -/
theorem doe_spec (yoe doy : Nat) (hy : yoe < 400) (hd : doy < yearLen yoe) :
    doyBase yoe + doy < 146097 ∧ yoeOfDoe (doyBase yoe + doy) = yoe := by
  obtain ⟨hb, hf, hl⟩ := yearCheck_spec hy
  have hlen := yearLen_pos yoe
  have hend : doyBase yoe + yearLen yoe ≤ 146097 := by
    have := bnd_le_era (a := yoe + 1) (by omega)
    rw [hb] at this; exact this
  refine ⟨by omega, ?_⟩
  have hlo := yoeOfDoe_mono (doyBase yoe) (doyBase yoe + doy) (by omega) (by omega)
  have hhi := yoeOfDoe_mono (doyBase yoe + doy) (doyBase yoe + yearLen yoe - 1) (by omega) (by omega)
  rw [hf] at hlo; rw [hl] at hhi; omega

/-! ### within one computational year -/

/-- month lengths counted from March: 31 30 31 30 31 31 30 31 30 31 31 (Feb: rest) -/
def doyCheck (doy : Nat) : Bool :=
  let mp := mpOfDoy doy
  let d := dayOfDoy doy
  let m := monthOfMp mp
  decide (mp ≤ 11) && decide (1 ≤ m) && decide (m ≤ 12) && decide (1 ≤ d) && decide (d ≤ 31) &&
    (doyOf m d == doy) && (mpOfMonth m == mp) &&
    -- the day is within the month (February is checked against the year length by the caller)
    (if m == 2 then decide (d ≤ 29) else decide (d ≤ daysInMonth 1 m)) &&
    -- and day 29 of February is day 365
    (if m == 2 && d == 29 then doy == 365 else true)

theorem doys_ok : allBelow doyCheck 366 = true := by decide +kernel

def mdCheck (k : Nat) : Bool :=
  -- k encodes (m - 1) * 31 + (d - 1)
  let m := k / 31 + 1
  let d := k % 31 + 1
  if decide (d ≤ daysInMonth 4 m) then
    let doy := doyOf m d
    decide (doy < 366) && (monthOfMp (mpOfDoy doy) == m) && (dayOfDoy doy == d) &&
      (if m == 2 && d == 29 then doy == 365 else decide (doy < 365))
  else true

theorem mds_ok : allBelow mdCheck 372 = true := by decide +kernel

end GixModel.Civil

namespace GixModel.Civil

theorem daysInMonth_indep (y y' : Int) (m : Nat) (h : m ≠ 2) : daysInMonth y m = daysInMonth y' m := by
  unfold daysInMonth
  have : (m == 2) = false := by simpa using h
  simp [this]

theorem daysInMonth_le_leap (y : Int) (m : Nat) : daysInMonth y m ≤ daysInMonth 4 m := by
  unfold daysInMonth
  by_cases h : (m == 2) = true
  · simp only [h, if_true]
    have : isLeap 4 = true := by decide
    rw [this]; split <;> simp
  · simp only [h]; exact Nat.le_refl _

/-- the computational year `yoe` has 366 days iff the civil year after its March is a leap year -/
theorem yearLen_leap (yoe : Nat) (era : Int) (hy : yoe < 400) :
    yearLen yoe = 366 ↔ isLeap ((yoe : Int) + era * 400 + 1) = true := by
  unfold yearLen isLeap
  have e4 : (((yoe : Int) + era * 400 + 1) % 4 == 0) = ((yoe + 1) % 4 == 0) := by
    rw [Bool.eq_iff_iff]; simp only [beq_iff_eq]; omega
  have e100 : (((yoe : Int) + era * 400 + 1) % 100 != 0) = ((yoe + 1) % 100 != 0) := by
    rw [Bool.eq_iff_iff]; simp only [bne_iff_ne, ne_eq]; omega
  have e400 : (((yoe : Int) + era * 400 + 1) % 400 == 0) = ((yoe + 1) % 400 == 0) := by
    rw [Bool.eq_iff_iff]; simp only [beq_iff_eq]; omega
  rw [e4, e100, e400]
  split <;> simp_all

theorem doyCheck_spec {doy : Nat} (h : doy < 366) :
    mpOfDoy doy ≤ 11 ∧ 1 ≤ monthOfMp (mpOfDoy doy) ∧ monthOfMp (mpOfDoy doy) ≤ 12 ∧ 1 ≤ dayOfDoy doy ∧
    doyOf (monthOfMp (mpOfDoy doy)) (dayOfDoy doy) = doy ∧
    (monthOfMp (mpOfDoy doy) ≠ 2 → dayOfDoy doy ≤ daysInMonth 1 (monthOfMp (mpOfDoy doy))) ∧
    (monthOfMp (mpOfDoy doy) = 2 → dayOfDoy doy ≤ 29 ∧ (dayOfDoy doy = 29 → doy = 365)) := by
  have := allBelow_spec doys_ok doy h
  simp only [doyCheck, Bool.and_eq_true, decide_eq_true_eq, beq_iff_eq] at this
  obtain ⟨⟨⟨⟨⟨⟨⟨⟨h1, h2⟩, h3⟩, h4⟩, _⟩, h6⟩, _⟩, h8⟩, h9⟩ := this
  refine ⟨h1, h2, h3, h4, h6, ?_, ?_⟩
  · intro hm
    rw [if_neg hm] at h8; exact of_decide_eq_true h8
  · intro hm
    constructor
    · rw [if_pos hm] at h8; exact of_decide_eq_true h8
    · intro hd
      simp only [hm, hd, beq_self_eq_true, Bool.and_self, if_true] at h9
      simpa using h9

theorem mdCheck_spec {m d : Nat} (hm1 : 1 ≤ m) (hm2 : m ≤ 12) (hd1 : 1 ≤ d) (hd : d ≤ daysInMonth 4 m) :
    doyOf m d < 366 ∧ monthOfMp (mpOfDoy (doyOf m d)) = m ∧ dayOfDoy (doyOf m d) = d ∧
    (m = 2 ∧ d = 29 → doyOf m d = 365) ∧ (¬ (m = 2 ∧ d = 29) → doyOf m d < 365) := by
  have hd31 : d ≤ 31 := by
    have : daysInMonth 4 m ≤ 31 := by unfold daysInMonth; split <;> (try split) <;> omega
    omega
  have hk : (m - 1) * 31 + (d - 1) < 372 := by
    have : (m - 1) * 31 ≤ 11 * 31 := Nat.mul_le_mul_right 31 (by omega)
    omega
  have := allBelow_spec mds_ok _ hk
  have e1 : ((m - 1) * 31 + (d - 1)) / 31 + 1 = m := by omega
  have e2 : ((m - 1) * 31 + (d - 1)) % 31 + 1 = d := by omega
  simp only [mdCheck, e1, e2, hd, decide_true, if_true, Bool.and_eq_true, decide_eq_true_eq, beq_iff_eq] at this
  obtain ⟨⟨⟨h1, h2⟩, h3⟩, h4⟩ := this
  refine ⟨h1, h2, h3, ?_, ?_⟩
  · intro hfeb
    rw [if_pos hfeb] at h4; exact beq_iff_eq.mp h4
  · intro hn
    rw [if_neg hn] at h4; exact of_decide_eq_true h4

/-- every day number is a valid date, and converting it back gives the day number: ALL `z : Int` -/
theorem days_civil_days (z : Int) :
    ValidDate (civilFromDays z).1 (civilFromDays z).2.1 (civilFromDays z).2.2 ∧
      daysFromCivil (civilFromDays z).1 (civilFromDays z).2.1 (civilFromDays z).2.2 = z := by
  have hdoe : ((z + 719468 - (z + 719468) / 146097 * 146097).toNat) < 146097 := by omega
  obtain ⟨hy, hb, hd⟩ := yoe_spec _ hdoe
  have hlen := yearLen_le (yoeOfDoe (z + 719468 - (z + 719468) / 146097 * 146097).toNat)
  obtain ⟨h1, h2, h3, h4, h5, h6, h7⟩ := doyCheck_spec (doy := (z + 719468 - (z + 719468) / 146097 * 146097).toNat -
    doyBase (yoeOfDoe (z + 719468 - (z + 719468) / 146097 * 146097).toNat)) (by omega)
  unfold civilFromDays
  simp only
  generalize hera : (z + 719468) / 146097 = era at *
  generalize hdoe' : (z + 719468 - era * 146097).toNat = doe at *
  generalize hyoe : yoeOfDoe doe = yoe at *
  generalize hdoy : doe - doyBase yoe = doy at *
  generalize hm : monthOfMp (mpOfDoy doy) = m at *
  generalize hdd : dayOfDoy doy = d at *
  have hzdoe : z + 719468 = era * 146097 + (doe : Int) := by omega
  constructor
  · refine ⟨h2, h3, h4, ?_⟩
    by_cases hm2 : m = 2
    · obtain ⟨h29, h365⟩ := h7 hm2
      subst hm2
      simp only [show (2 : Nat) ≤ 2 from Nat.le_refl 2, if_true]
      unfold daysInMonth
      simp only [beq_self_eq_true, if_true]
      by_cases hd29 : d = 29
      · have hdoy365 := h365 hd29
        have hyl : yearLen yoe = 366 := by omega
        have := (yearLen_leap yoe era hy).mp hyl
        rw [this]; simp only [if_true]; omega
      · split <;> omega
    · have := h6 hm2
      rw [daysInMonth_indep _ 1 m hm2]; exact this
  · unfold daysFromCivil
    simp only
    have hy' : (if m ≤ 2 then (if m ≤ 2 then (yoe : Int) + era * 400 + 1 else (yoe : Int) + era * 400) - 1
        else (if m ≤ 2 then (yoe : Int) + era * 400 + 1 else (yoe : Int) + era * 400)) = (yoe : Int) + era * 400 := by
      split <;> omega
    rw [hy']
    have hera' : ((yoe : Int) + era * 400) / 400 = era := by omega
    rw [hera']
    have hyoe' : ((yoe : Int) + era * 400 - era * 400).toNat = yoe := by omega
    rw [hyoe', h5]
    have : ((doyBase yoe + doy : Nat) : Int) = (doe : Int) := by
      have : doyBase yoe + doy = doe := by omega
      rw [this]
    rw [this]; omega

/-- `civil_roundtrip`: every valid date (ANY year) comes back from its day number -/
theorem civil_days_civil (y : Int) (m d : Nat) (hv : ValidDate y m d) :
    civilFromDays (daysFromCivil y m d) = (y, m, d) := by
  obtain ⟨hm1, hm2, hd1, hd2⟩ := hv
  obtain ⟨g1, g2, g3, g4, g5⟩ := mdCheck_spec hm1 hm2 hd1 (Nat.le_trans hd2 (daysInMonth_le_leap y m))
  unfold daysFromCivil
  simp only
  generalize hy' : (if m ≤ 2 then y - 1 else y) = y' at *
  generalize hera : y' / 400 = era at *
  have hyoe400 : (y' - era * 400).toNat < 400 := by omega
  generalize hyoe : (y' - era * 400).toNat = yoe at *
  have hy'eq : y' = (yoe : Int) + era * 400 := by omega
  have hdoy : doyOf m d < yearLen yoe := by
    have hl := yearLen_pos yoe
    by_cases hfeb : m = 2 ∧ d = 29
    · obtain ⟨rfl, rfl⟩ := hfeb
      have hleap : isLeap y = true := by
        unfold daysInMonth at hd2
        simp only [beq_self_eq_true, if_true] at hd2
        cases hl2 : isLeap y with
        | true => rfl
        | false => rw [hl2] at hd2; simp at hd2
      have hyy : y = (yoe : Int) + era * 400 + 1 := by
        simp only [show (2 : Nat) ≤ 2 from Nat.le_refl 2, if_true] at hy'
        omega
      rw [hyy] at hleap
      have := (yearLen_leap yoe era hyoe400).mpr hleap
      have := g4 ⟨rfl, rfl⟩
      omega
    · have := g5 hfeb
      omega
  obtain ⟨hdoe, hyo⟩ := doe_spec yoe (doyOf m d) hyoe400 hdoy
  unfold civilFromDays
  simp only
  have hz : era * 146097 + ((doyBase yoe + doyOf m d : Nat) : Int) - 719468 + 719468 =
      era * 146097 + ((doyBase yoe + doyOf m d : Nat) : Int) := by omega
  rw [hz]
  have hera2 : (era * 146097 + ((doyBase yoe + doyOf m d : Nat) : Int)) / 146097 = era := by omega
  rw [hera2]
  have hdoe2 : (era * 146097 + ((doyBase yoe + doyOf m d : Nat) : Int) - era * 146097).toNat = doyBase yoe + doyOf m d := by
    omega
  rw [hdoe2, hyo]
  have hsub : doyBase yoe + doyOf m d - doyBase yoe = doyOf m d := by omega
  rw [hsub, g2, g3]
  congr 1
  rw [← hy'eq, ← hy']
  split <;> omega

theorem weekday_lt (days : Int) : weekday days < 7 := by
  unfold weekday; omega

end GixModel.Civil
