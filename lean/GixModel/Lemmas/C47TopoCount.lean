import GixModel.Lemmas.C47TopoExplore
/-
C47 — lemmas, part 5: the in-degree walk and the counting invariant.

`countedB s c`: `c` went through `indegree_walk_step` (it has the InDegree flag and left the queue).
`cnt s outp p`: the number of counted children of `p` that were not emitted yet.
`NInv s outp cur`: the invariant of everything but the state map / explore queue, relative to the
ghost list `outp` of emitted commits (including the one being expanded) and the parents `cur` of
that commit which `expand_topo_walk` still has to look at.
-/
namespace GixModel.C47
open GixModel GixModel.CG GixModel.Spec.C47
open GixModel.C46 (filter_length_mono filter_length_lt filter_length_flip)

section
variable {E : TopoEnv} {nodes tips ends : List Nat}

def iqIds (E : TopoEnv) (s : TS E) : List Nat := (E.qg.items s.indegQ).map (·.2)

def countedB (E : TopoEnv) (s : TS E) (c : Nat) : Bool := s.states.fInDeg c && !(iqIds E s).contains c

def cnt (E : TopoEnv) (nodes : List Nat) (s : TS E) (outp : List Nat) (p : Nat) : Nat :=
  (nodes.filter fun c => countedB E s c && (walkParents E c).contains p && !outp.contains c).length

/-- the commits in the topo queue -/
def tqIds (E : TopoEnv) (s : TS E) : List Nat :=
  match E.cfg.sorting with
  | .dateOrder => (E.qd.items s.dateQ).map (·.2)
  | .topoOrder => s.stack.map (·.2)

def KidsCounted (E : TopoEnv) (tips ends : List Nat) (s : TS E) (x : Nat) : Prop :=
  ∀ c, Rch E tips ends c → x ∈ walkParents E c → countedB E s c = true

/-- every reachable child of a listed commit is listed before it -/
def ChildrenFirst (E : TopoEnv) (tips ends : List Nat) (outp : List Nat) : Prop :=
  ∀ l₁ x l₂, outp = l₁ ++ x :: l₂ → ∀ c, Rch E tips ends c → x ∈ walkParents E c → c ∈ l₁

/-- the in-degree entry of `p` says how many of its counted children still have to be emitted -/
def DegOk (E : TopoEnv) (nodes ends : List Nat) (s : TS E) (outp cur : List Nat) (p : Nat) : Prop :=
  match s.indeg.get p with
  | some d =>
    (¬ Hid E ends p → d = 1 + (cnt E nodes s outp p : Int) + (if p ∈ cur then 1 else 0)) ∧
    (Hid E ends p → d ≥ 1 + (cnt E nodes s outp p : Int) + (if p ∈ cur then 1 else 0))
  | none => cnt E nodes s outp p = 0 ∧ p ∉ cur

structure NInv (E : TopoEnv) (nodes tips ends : List Nat) (s : TS E) (outp cur pend : List Nat) : Prop where
  iq_key : ∀ e, e ∈ E.qg.items s.indegQ → e.1 = genTime E.g e.2
  iq_flag : ∀ e, e ∈ E.qg.items s.indegQ → s.states.fInDeg e.2 = true
  iq_nodup : (iqIds E s).Nodup
  in_expl : ∀ x, s.states.fInDeg x = true → s.states.fExplored x = true
  in_deg : ∀ x, s.states.fInDeg x = true → (s.indeg.get x).isSome = true
  in_rch : ∀ x, s.states.fInDeg x = true → Rch E tips ends x
  starts_in : ∀ x, x ∈ tips ++ ends → s.states.fInDeg x = true
  cnt_done : ∀ c, countedB E s c = true → ∀ p, p ∈ walkParents E c → s.states.fInDeg p = true
  psi_le : (E.qg.items s.indegQ).length + unflagged nodes s.states ≤ nodes.length
  deg_ok : ∀ p, p ∉ outp → DegOk E nodes ends s outp cur p
  cur_fresh : ∀ p, p ∈ cur → p ∉ outp
  cur_nodup : cur.Nodup
  tq_inv : ∀ x, x ∈ tqIds E s → Rch E tips ends x ∧ ¬ Hid E ends x ∧ x ∉ outp ∧ s.indeg.get x = some 1 ∧
    KidsCounted E tips ends s x ∧ countedB E s x = true
  tq_nodup : (tqIds E s).Nodup
  out_nodup : outp.Nodup
  out_inv : ∀ x, x ∈ outp → Rch E tips ends x ∧ ¬ Hid E ends x ∧ KidsCounted E tips ends s x ∧ countedB E s x = true
  out_order : ChildrenFirst E tips ends outp
  mingen : ∀ c, c ∈ outp → ∀ p, p ∈ walkParents E c → ¬ Hid E ends p → p ∈ cur ∨ s.minGen ≤ E.g.gen p
  /-- a visible commit all of whose counted children are emitted is in the topo queue (or is a
  tip `build()` still has to look at) -/
  live : ∀ x, Rch E tips ends x → ¬ Hid E ends x → x ∉ outp → x ∉ cur → s.indeg.get x = some 1 →
    x ∈ tqIds E s ∨ x ∈ pend

theorem countedB_congr {s s' : TS E} (h1 : ∀ x, s'.states.fInDeg x = s.states.fInDeg x)
    (h2 : s'.indegQ = s.indegQ) : countedB E s' = countedB E s := by
  funext c
  simp only [countedB, iqIds, h1, h2]

theorem cnt_congr {s s' : TS E} (h : countedB E s' = countedB E s) (outp : List Nat) (p : Nat) :
    cnt E nodes s' outp p = cnt E nodes s outp p := by
  simp only [cnt, h]

/-- `NInv` only looks at the InDegree flags, the Explored flags of flagged commits, and the parts
of the state the explore walk does not touch. -/
theorem NInv.of_frame {s s' : TS E} {outp cur pend : List Nat} (h : NInv E nodes tips ends s outp cur pend)
    (hf : ExFrame s s') : NInv E nodes tips ends s' outp cur pend := by
  have hc : countedB E s' = countedB E s := countedB_congr hf.st.fInDeg hf.indegQ
  have hcnt : ∀ p, cnt E nodes s' outp p = cnt E nodes s outp p := cnt_congr hc outp
  have htq : tqIds E s' = tqIds E s := by simp only [tqIds, hf.dateQ, hf.stack]
  have hun : unflagged nodes s'.states = unflagged nodes s.states := by
    unfold unflagged
    congr 1
    apply List.filter_congr
    intro x _
    rw [hf.st.fInDeg]
  have hkids : ∀ x, KidsCounted E tips ends s' x ↔ KidsCounted E tips ends s x := by
    intro x; simp only [KidsCounted, hc]
  exact
    { iq_key := by rw [hf.indegQ]; exact h.iq_key
      iq_flag := by
        intro e he
        rw [hf.indegQ] at he
        rw [hf.st.fInDeg]; exact h.iq_flag e he
      iq_nodup := by simp only [iqIds, hf.indegQ]; exact h.iq_nodup
      in_expl := fun x hx => hf.st.fExplored x (h.in_expl x (by rw [← hf.st.fInDeg]; exact hx))
      in_deg := fun x hx => by rw [hf.indeg]; exact h.in_deg x (by rw [← hf.st.fInDeg]; exact hx)
      in_rch := fun x hx => h.in_rch x (by rw [← hf.st.fInDeg]; exact hx)
      starts_in := fun x hx => by rw [hf.st.fInDeg]; exact h.starts_in x hx
      cnt_done := fun c hcc p hp => by
        rw [hf.st.fInDeg]; exact h.cnt_done c (by rw [← hc]; exact hcc) p hp
      psi_le := by rw [hf.indegQ, hun]; exact h.psi_le
      deg_ok := fun p hp => by
        have := h.deg_ok p hp
        simp only [DegOk, hf.indeg, hcnt] at this ⊢
        exact this
      cur_fresh := h.cur_fresh
      cur_nodup := h.cur_nodup
      tq_inv := fun x hx => by
        rw [htq] at hx
        obtain ⟨a1, a2, a3, a4, a5, a6⟩ := h.tq_inv x hx
        exact ⟨a1, a2, a3, by rw [hf.indeg]; exact a4, (hkids x).mpr a5, by rw [hc]; exact a6⟩
      tq_nodup := by rw [htq]; exact h.tq_nodup
      out_nodup := h.out_nodup
      out_inv := fun x hx => by
        obtain ⟨a1, a2, a3, a4⟩ := h.out_inv x hx
        exact ⟨a1, a2, (hkids x).mpr a3, by rw [hc]; exact a4⟩
      out_order := h.out_order
      mingen := fun c hcc p hp hh => by rw [hf.minGen]; exact h.mingen c hcc p hp hh
      live := fun x a1 a2 a3 a4 a5 => by
        rw [htq]; exact h.live x a1 a2 a3 a4 (by rw [← hf.indeg]; exact a5) }

/-! ### one `indegree_walk_step` -/

theorem cnt_step {s s2 : TS E} {outp : List Nat} {c : Nat} (hnd : nodes.Nodup) (hcn : c ∈ nodes)
    (hco : c ∉ outp) (hc0 : countedB E s c = false)
    (hc2 : ∀ x, countedB E s2 x = (countedB E s x || decide (x = c))) (p : Nat) :
    cnt E nodes s2 outp p = cnt E nodes s outp p + (if p ∈ walkParents E c then 1 else 0) := by
  unfold cnt
  by_cases hp : p ∈ walkParents E c
  · rw [if_pos hp]
    symm
    apply filter_length_flip nodes hnd c hcn
    · simp [hc2, hp, hco]
    · simp [hc0]
    · intro x hx
      simp [hc2, hx]
  · rw [if_neg hp, Nat.add_zero]
    congr 1
    apply List.filter_congr
    intro x _
    by_cases hx : x = c
    · subst hx; simp [hp]
    · simp [hc2, hx]

theorem indegStep_spec (ctx : TCtx E nodes tips ends) {s s1 : TS E} {outp cur pend : List Nat}
    (h : NInv E nodes tips ends s outp cur pend)
    {k : GenTime} {c : Nat} {qu : E.qg.Q} (hpop : E.qg.pop s.indegQ = some ((k, c), qu))
    (hex1 : ExInv E nodes ends s1) (hfr : ExFrame { s with indegQ := qu } s1)
    (hdepth : ∀ e, e ∈ E.qg.items s1.explore → e.1.1 < k.1) :
    ∃ d m qu2, indegreeParents E (walkParents E c) s1.indeg s1.states s1.indegQ = some (d, m, qu2) ∧
      ExInv E nodes ends { s1 with indeg := d, states := m, indegQ := qu2 } ∧
      NInv E nodes tips ends { s1 with indeg := d, states := m, indegQ := qu2 } outp cur pend ∧
      (E.qg.items qu2).length + unflagged nodes m + 1 ≤ (E.qg.items s.indegQ).length + unflagged nodes s.states ∧
      (∀ x, m.has x = s1.states.has x) := by
  have hperm := ctx.qg_lawful.pop_some _ _ _ hpop
  have hkc : (k, c) ∈ E.qg.items s.indegQ := hperm.symm.subset List.mem_cons_self
  have hk : k = genTime E.g c := h.iq_key _ hkc
  have hcf : s.states.fInDeg c = true := h.iq_flag _ hkc
  have hcr : Rch E tips ends c := h.in_rch c hcf
  have hcn : c ∈ nodes := ctx.rch_nodes hcr
  -- the frame
  have hq1 : s1.indegQ = qu := hfr.indegQ
  have hd1 : s1.indeg = s.indeg := hfr.indeg
  have hfi : ∀ x, s1.states.fInDeg x = s.states.fInDeg x := hfr.st.fInDeg
  -- ids of the queue before / after the pop
  have hidperm : (iqIds E s).Perm (c :: (E.qg.items qu).map (·.2)) := by
    have := hperm.map (·.2)
    simpa [iqIds] using this
  have hnd0 : (c :: (E.qg.items qu).map (·.2)).Nodup := hidperm.nodup_iff.mp h.iq_nodup
  have hcq : c ∉ (E.qg.items qu).map (·.2) := (List.nodup_cons.mp hnd0).1
  -- `c` was explored down to its own generation, so its parents have states
  have hcE : s1.states.fExplored c = true := hfr.st.fExplored c (h.in_expl c hcf)
  have hparE : ∀ p, p ∈ walkParents E c → s1.states.fExplored p = true := by
    cases hex1.ex_done c hcE with
    | inl h' =>
      obtain ⟨k', hk'⟩ := h'
      have h1 := hdepth _ hk'
      have h2 := hex1.eq_key _ hk'
      simp only at h1 h2
      rw [h2, hk] at h1
      simp [genTime] at h1
    | inr h' => exact h'
  have hpn : ∀ p, p ∈ walkParents E c → p ∈ nodes :=
    fun p hp => ctx.closed c hcn p (walkParents_sub E hp)
  obtain ⟨d, m, qu2, hres, hC⟩ := indegreeParents_spec ctx.qg_lawful nodes (walkParents E c) s1.indeg
    s1.states s1.indegQ (ctx.walk_nodup c) (fun p hp => fExplored_has (hparE p hp)) hpn
  refine ⟨d, m, qu2, hres, ?_, ?_, ?_, hC.has⟩
  · -- ExInv does not look at the InDegree flags
    have hun : unexplored nodes m = unexplored nodes s1.states := by
      unfold unexplored
      congr 1
      apply List.filter_congr
      intro x _
      rw [hC.fExplored]
    exact
      { st_nodes := fun x hx => hex1.st_nodes x (by rw [← hC.has]; exact hx)
        st_u := fun x hx => hex1.st_u x (by rw [← hC.fU]; exact hx)
        st_ends := fun e he => by show m.fU e = true; rw [hC.fU]; exact hex1.st_ends e he
        st_added := fun c' hA p hp => by
          show m.has p = true
          rw [hC.has]; exact hex1.st_added c' (by rw [← hC.fAdded]; exact hA) p hp
        eq_key := hex1.eq_key
        eq_expl := fun e he => by show m.fExplored e.2 = true; rw [hC.fExplored]; exact hex1.eq_expl e he
        ex_done := fun x hx => by
          have hx' : s1.states.fExplored x = true := by rw [← hC.fExplored]; exact hx
          cases hex1.ex_done x hx' with
          | inl h' => exact Or.inl h'
          | inr h' => exact Or.inr (fun p hp => by show m.fExplored p = true; rw [hC.fExplored]; exact h' p hp)
        phi_le := by show _ + unexplored nodes m ≤ _; rw [hun]; exact hex1.phi_le }
  · -- the counted set grows by exactly `c`
    have hflag2 : ∀ x, m.fInDeg x = (s.states.fInDeg x || decide (x ∈ walkParents E c)) := by
      intro x; rw [hC.fInDeg, hfi]
    have hiq2 : ∀ x, x ∈ (E.qg.items qu2).map (·.2) ↔
        x ∈ (E.qg.items qu).map (·.2) ∨ (x ∈ walkParents E c ∧ s.states.fInDeg x = false) := by
      intro x
      constructor
      · intro hx
        obtain ⟨e, he, hex⟩ := List.mem_map.mp hx
        cases hC.q_new e he with
        | inl h' => rw [hq1] at h'; exact Or.inl (List.mem_map.mpr ⟨e, h', hex⟩)
        | inr h' => right; rw [← hex]; exact ⟨h'.2.1, by rw [← hfi]; exact h'.2.2⟩
      · intro hx
        cases hx with
        | inl h' =>
          obtain ⟨e, he, hex⟩ := List.mem_map.mp h'
          exact List.mem_map.mpr ⟨e, hC.q_old e (by rw [hq1]; exact he), hex⟩
        | inr h' => exact List.mem_map.mpr ⟨_, hC.q_in x h'.1 (by rw [hfi]; exact h'.2), rfl⟩
    have hc0 : countedB E s c = false := by
      have : c ∈ iqIds E s := hidperm.symm.subset List.mem_cons_self
      simp [countedB, this]
    have hc2 : ∀ x, countedB E { s1 with indeg := d, states := m, indegQ := qu2 } x
        = (countedB E s x || decide (x = c)) := by
      intro x
      show (m.fInDeg x && !((E.qg.items qu2).map (·.2)).contains x) = _
      have hmem2 := hiq2 x
      have hmem0 : x ∈ iqIds E s ↔ x = c ∨ x ∈ (E.qg.items qu).map (·.2) := by
        rw [hidperm.mem_iff]; simp
      by_cases hxc : x = c
      · subst hxc
        have : x ∉ (E.qg.items qu2).map (·.2) := by
          rw [hmem2]
          intro h'
          cases h' with
          | inl h' => exact hcq h'
          | inr h' => rw [hcf] at h'; cases h'.2
        simp [hflag2, hcf, this]
      · by_cases hxf : s.states.fInDeg x = true
        · have h2 : (x ∈ (E.qg.items qu2).map (·.2)) ↔ x ∈ iqIds E s := by
            rw [hmem2, hmem0]
            simp [hxc, hxf]
          simp only [countedB, hflag2, hxf, Bool.true_or, Bool.true_and, hxc, decide_false, Bool.or_false]
          by_cases hin : x ∈ iqIds E s
          · simp [hin, h2.mpr hin]
          · have : x ∉ (E.qg.items qu2).map (·.2) := fun h' => hin (h2.mp h')
            simp [hin, this]
        · have hxf' : s.states.fInDeg x = false := by simpa using hxf
          simp only [countedB, hflag2, hxf', Bool.false_or, Bool.false_and, hxc, decide_false, Bool.or_false]
          by_cases hxp : x ∈ walkParents E c
          · have : x ∈ (E.qg.items qu2).map (·.2) := (hmem2).mpr (Or.inr ⟨hxp, hxf'⟩)
            simp [this]
          · simp [hxp]
    have hmono : ∀ x, countedB E s x = true →
        countedB E { s1 with indeg := d, states := m, indegQ := qu2 } x = true := by
      intro x hx; rw [hc2, hx]; rfl
    have hco : c ∉ outp := by
      intro hmem
      have := (h.out_inv c hmem).2.2.2
      rw [hc0] at this; cases this
    have hcnt := fun p => cnt_step (s := s) (s2 := { s1 with indeg := d, states := m, indegQ := qu2 })
      (outp := outp) ctx.nodup hcn hco hc0 hc2 p
    have hkids : ∀ x, KidsCounted E tips ends s x →
        KidsCounted E tips ends { s1 with indeg := d, states := m, indegQ := qu2 } x :=
      fun x hx c' hc' hp => hmono c' (hx c' hc' hp)
    -- a commit whose children are all counted is not a parent of `c`
    have hnotpar : ∀ x, KidsCounted E tips ends s x → x ∉ walkParents E c := by
      intro x hx hp
      have := hx c hcr hp
      rw [hc0] at this; cases this
    have hdeg2 : ∀ x, (d.get x) = if x ∈ walkParents E c then some (bump (s.indeg.get x)) else s.indeg.get x := by
      intro x; rw [hC.deg, hd1]
    have htq : tqIds E { s1 with indeg := d, states := m, indegQ := qu2 } = tqIds E s := by
      simp only [tqIds, hfr.dateQ, hfr.stack]
    exact
      { iq_key := by
          intro e he
          cases hC.q_new e he with
          | inl h' => rw [hq1] at h'; exact h.iq_key e (hperm.symm.subset (List.mem_cons_of_mem _ h'))
          | inr h' => exact h'.1
        iq_flag := by
          intro e he
          show m.fInDeg e.2 = true
          rw [hflag2]
          cases hC.q_new e he with
          | inl h' =>
            rw [hq1] at h'
            rw [h.iq_flag e (hperm.symm.subset (List.mem_cons_of_mem _ h'))]; rfl
          | inr h' => simp [h'.2.1]
        iq_nodup := by
          show ((E.qg.items qu2).map (·.2)).Nodup
          apply hC.q_nodup
          · rw [hq1]; exact (List.nodup_cons.mp hnd0).2
          · intro e he
            rw [hq1] at he
            rw [hfi]; exact h.iq_flag e (hperm.symm.subset (List.mem_cons_of_mem _ he))
        in_expl := by
          intro x hx
          show m.fExplored x = true
          rw [hC.fExplored]
          have hx' : m.fInDeg x = true := hx
          rw [hflag2] at hx'
          simp only [Bool.or_eq_true, decide_eq_true_eq] at hx'
          cases hx' with
          | inl h' => exact hfr.st.fExplored x (h.in_expl x h')
          | inr h' => exact hparE x h'
        in_deg := by
          intro x hx
          show (d.get x).isSome = true
          rw [hdeg2]
          by_cases hxp : x ∈ walkParents E c
          · simp [hxp]
          · have hx' : m.fInDeg x = true := hx
            rw [hflag2] at hx'
            simp only [hxp, decide_false, Bool.or_false] at hx'
            simp only [hxp, if_false]
            exact h.in_deg x hx'
        in_rch := by
          intro x hx
          have hx' : m.fInDeg x = true := hx
          rw [hflag2] at hx'
          simp only [Bool.or_eq_true, decide_eq_true_eq] at hx'
          cases hx' with
          | inl h' => exact h.in_rch x h'
          | inr h' => exact hcr.step h'
        starts_in := fun x hx => by
          show m.fInDeg x = true
          rw [hflag2, h.starts_in x hx]; rfl
        cnt_done := by
          intro c' hc' p hp
          show m.fInDeg p = true
          rw [hflag2]
          rw [hc2] at hc'
          simp only [Bool.or_eq_true, decide_eq_true_eq] at hc'
          cases hc' with
          | inl h' => rw [h.cnt_done c' h' p hp]; rfl
          | inr h' => subst h'; simp [hp]
        psi_le := by
          have hlen := hperm.length_eq
          simp only [List.length_cons] at hlen
          have hun : unflagged nodes s1.states = unflagged nodes s.states := by
            unfold unflagged
            congr 1
            apply List.filter_congr
            intro x _
            rw [hfi]
          have := hC.psi
          have := h.psi_le
          rw [hq1] at *
          show (E.qg.items qu2).length + unflagged nodes m ≤ nodes.length
          omega
        deg_ok := by
          intro p hp
          have hold := h.deg_ok p hp
          simp only [DegOk] at hold ⊢
          show match d.get p with
            | some d' => _
            | none => _
          rw [hdeg2, hcnt p]
          by_cases hpp : p ∈ walkParents E c
          · simp only [hpp, if_true]
            cases hget : s.indeg.get p with
            | none =>
              rw [hget] at hold
              simp only [bump]
              obtain ⟨h1, h2⟩ := hold
              simp only [h1, h2, if_false]
              constructor <;> intro _ <;> omega
            | some d0 =>
              rw [hget] at hold
              simp only [bump]
              obtain ⟨h1, h2⟩ := hold
              constructor
              · intro hh; have := h1 hh; push_cast; omega
              · intro hh; have := h2 hh; push_cast; omega
          · simp only [hpp, if_false, Nat.add_zero]
            exact hold
        cur_fresh := h.cur_fresh
        cur_nodup := h.cur_nodup
        tq_inv := by
          intro x hx
          rw [htq] at hx
          obtain ⟨a1, a2, a3, a4, a5, a6⟩ := h.tq_inv x hx
          refine ⟨a1, a2, a3, ?_, hkids x a5, hmono x a6⟩
          show d.get x = some 1
          rw [hdeg2, if_neg (hnotpar x a5)]
          exact a4
        tq_nodup := by rw [htq]; exact h.tq_nodup
        out_nodup := h.out_nodup
        out_inv := by
          intro x hx
          obtain ⟨a1, a2, a3, a4⟩ := h.out_inv x hx
          exact ⟨a1, a2, hkids x a3, hmono x a4⟩
        out_order := h.out_order
        mingen := by
          intro c' hc' p hp hh
          show p ∈ cur ∨ s1.minGen ≤ E.g.gen p
          rw [hfr.minGen]
          exact h.mingen c' hc' p hp hh
        live := by
          intro x a1 a2 a3 a4 a5
          rw [htq]
          have a5' : d.get x = some 1 := a5
          rw [hdeg2] at a5'
          by_cases hxp : x ∈ walkParents E c
          · exfalso
            rw [if_pos hxp] at a5'
            have hold := h.deg_ok x a3
            simp only [DegOk] at hold
            cases hget : s.indeg.get x with
            | none => rw [hget] at a5'; simp [bump] at a5'
            | some d0 =>
              rw [hget] at a5' hold
              simp only [bump, Option.some.injEq] at a5'
              have := hold.1 a2
              split at this <;> omega
          · rw [if_neg hxp] at a5'
            exact h.live x a1 a2 a3 a4 a5' }
  · have hlen := hperm.length_eq
    simp only [List.length_cons] at hlen
    have hun : unflagged nodes s1.states = unflagged nodes s.states := by
      unfold unflagged
      congr 1
      apply List.filter_congr
      intro x _
      rw [hfi]
    have := hC.psi
    rw [hq1] at this
    omega

/-- `compute_indegrees_to_depth(cutoff)`: keeps both invariants, ends within the prescribed fuel
without a missing-state error, leaves only entries below the cut-off in its queue, and does not
touch the topo queue or `min_gen`. -/
theorem computeIndegrees_spec (ctx : TCtx E nodes tips ends) (nfuel cutoff : Nat) (hn : nodes.length < nfuel)
    {outp cur pend : List Nat} :
    ∀ (fuel : Nat) (s : TS E), ExInv E nodes ends s → NInv E nodes tips ends s outp cur pend →
      (E.qg.items s.indegQ).length + unflagged nodes s.states < fuel →
      ∃ s', computeIndegrees E nfuel cutoff fuel s = .ok s' ∧ ExInv E nodes ends s' ∧
        NInv E nodes tips ends s' outp cur pend ∧
        (∀ e, e ∈ E.qg.items s'.indegQ → e.1.1 < cutoff) ∧
        s'.minGen = s.minGen ∧ s'.dateQ = s.dateQ ∧ s'.dateCtr = s.dateCtr ∧ s'.stack = s.stack ∧
        (∀ x, s.states.has x = true → s'.states.has x = true) := by
  intro fuel
  induction fuel with
  | zero => intro s _ _ h; omega
  | succ fuel ih =>
    intro s hex h hfuel
    unfold computeIndegrees
    cases hpop : E.qg.pop s.indegQ with
    | none =>
      dsimp only
      refine ⟨s, rfl, hex, h, ?_, rfl, rfl, rfl, rfl, fun _ hx => hx⟩
      intro e he
      rw [ctx.qg_lawful.pop_none _ hpop] at he
      simp at he
    | some r =>
      obtain ⟨⟨k, c⟩, qu⟩ := r
      dsimp only
      by_cases hk : k.1 ≥ cutoff
      · rw [if_pos hk]
        -- the nested explore walk
        have hex0 : ExInv E nodes ends { s with indegQ := qu } :=
          ⟨hex.st_nodes, hex.st_u, hex.st_ends, hex.st_added, hex.eq_key, hex.eq_expl, hex.ex_done, hex.phi_le⟩
        obtain ⟨s1, hs1, hex1, hfr, hdepth⟩ := exploreToDepth_spec ctx k.1 nfuel { s with indegQ := qu } hex0 (by
          have := hex.phi_le
          show (E.qg.items s.explore).length + unexplored nodes s.states < nfuel
          omega)
        rw [hs1]
        dsimp only
        obtain ⟨d, m, qu2, hres, hex2, hn2, hpsi, hhas2⟩ := indegStep_spec ctx h hpop hex1 hfr hdepth
        rw [hres]
        dsimp only
        obtain ⟨s', hs', a1, a2, a3, a4, a5, a6, a7, a8⟩ := ih { s1 with indeg := d, states := m, indegQ := qu2 }
          hex2 hn2 (by
            show (E.qg.items qu2).length + unflagged nodes m < fuel
            omega)
        refine ⟨s', hs', a1, a2, a3, ?_, ?_, ?_, ?_, ?_⟩
        · rw [a4]; exact hfr.minGen
        · rw [a5]; exact hfr.dateQ
        · rw [a6]; exact hfr.dateCtr
        · rw [a7]; exact hfr.stack
        · intro x hx
          apply a8
          show m.has x = true
          rw [hhas2]
          exact hfr.st.has x hx
      · rw [if_neg hk]
        refine ⟨s, rfl, hex, h, ?_, rfl, rfl, rfl, rfl, fun _ hx => hx⟩
        intro e he
        have := ctx.qg_max _ _ _ hpop e he
        simp only at this
        omega

end

end GixModel.C47
