import GixModel.Model.C09
/-
C09 helper lemmas, part 1: the lexicographic order on byte strings (`cmpBytes`) via the same
order on lists of naturals (`cmpL`), its behaviour under truncation, and the expansion of bytes
into hex nibbles (what a `Prefix` compares).
-/
namespace GixModel.C09
open GixModel

/-- lexicographic comparison of lists of naturals; a proper prefix is smaller -/
def cmpL : List Nat → List Nat → Ordering
  | [], [] => .eq
  | [], _ :: _ => .lt
  | _ :: _, [] => .gt
  | a :: as, b :: bs => if a < b then .lt else if b < a then .gt else cmpL as bs

theorem cmpBytes_eq_cmpL (a b : Bytes) : cmpBytes a b = cmpL (a.map (·.toNat)) (b.map (·.toNat)) := by
  induction a generalizing b with
  | nil => cases b <;> rfl
  | cons x xs ih =>
    cases b with
    | nil => rfl
    | cons y ys => simp only [cmpBytes, List.map_cons, cmpL, ih]

theorem cmpL_refl (a : List Nat) : cmpL a a = .eq := by
  induction a with
  | nil => rfl
  | cons x xs ih => simp [cmpL, ih]

theorem cmpL_eq_iff (a b : List Nat) : cmpL a b = .eq ↔ a = b := by
  induction a generalizing b with
  | nil => cases b <;> simp [cmpL]
  | cons x xs ih =>
    cases b with
    | nil => simp [cmpL]
    | cons y ys =>
      simp only [cmpL]
      by_cases h1 : x < y
      · simp [h1]; omega
      · by_cases h2 : y < x
        · simp [h1, h2]; omega
        · have : x = y := by omega
          subst this
          simp [ih]

theorem cmpL_swap_lt (a b : List Nat) : cmpL a b = .lt ↔ cmpL b a = .gt := by
  induction a generalizing b with
  | nil => cases b <;> simp [cmpL]
  | cons x xs ih =>
    cases b with
    | nil => simp [cmpL]
    | cons y ys =>
      simp only [cmpL]
      by_cases h1 : x < y
      · have : ¬ y < x := by omega
        simp [h1, this]
      · by_cases h2 : y < x
        · simp [h1, h2]
        · simp [h1, h2, ih]

theorem cmpL_swap_gt (a b : List Nat) : cmpL a b = .gt ↔ cmpL b a = .lt := (cmpL_swap_lt b a).symm

/-- `a ≤ b` -/
def leL (a b : List Nat) : Prop := cmpL a b ≠ .gt

theorem leL_of_lt {a b : List Nat} (h : cmpL a b = .lt) : leL a b := by simp [leL, h]

theorem cmpL_lt_of_lt_of_le {a b c : List Nat} (h1 : cmpL a b = .lt) (h2 : leL b c) : cmpL a c = .lt := by
  induction a generalizing b c with
  | nil =>
    cases b with
    | nil => simp [cmpL] at h1
    | cons y ys =>
      cases c with
      | nil => simp [leL, cmpL] at h2
      | cons z zs => rfl
  | cons x xs ih =>
    cases b with
    | nil => simp [cmpL] at h1
    | cons y ys =>
      cases c with
      | nil => simp [leL, cmpL] at h2
      | cons z zs =>
        simp only [cmpL, leL] at h1 h2 ⊢
        by_cases hxy : x < y
        · by_cases hyz : y < z
          · have : x < z := by omega
            simp [this]
          · by_cases hzy : z < y
            · simp [hyz, hzy] at h2
            · have : x < z := by omega
              simp [this]
        · by_cases hyx : y < x
          · simp [hxy, hyx] at h1
          · simp only [hxy, hyx, if_false] at h1
            have hxe : x = y := by omega
            subst hxe
            by_cases hyz : x < z
            · simp [hyz]
            · by_cases hzy : z < x
              · simp [hyz, hzy] at h2
              · simp only [hyz, hzy, if_false] at h2 ⊢
                exact ih h1 h2

theorem cmpL_lt_of_le_of_lt {a b c : List Nat} (h1 : leL a b) (h2 : cmpL b c = .lt) : cmpL a c = .lt := by
  induction a generalizing b c with
  | nil =>
    cases c with
    | nil => cases b <;> simp [cmpL] at h2
    | cons z zs => rfl
  | cons x xs ih =>
    cases b with
    | nil => simp [leL, cmpL] at h1
    | cons y ys =>
      cases c with
      | nil => simp [cmpL] at h2
      | cons z zs =>
        simp only [cmpL, leL] at h1 h2 ⊢
        by_cases hyz : y < z
        · by_cases hxy : x < y
          · have : x < z := by omega
            simp [this]
          · by_cases hyx : y < x
            · simp [hxy, hyx] at h1
            · have : x < z := by omega
              simp [this]
        · by_cases hzy : z < y
          · simp [hyz, hzy] at h2
          · simp only [hyz, hzy, if_false] at h2
            have hye : y = z := by omega
            subst hye
            by_cases hxy : x < y
            · simp [hxy]
            · by_cases hyx : y < x
              · simp [hxy, hyx] at h1
              · simp only [hxy, hyx, if_false] at h1 ⊢
                exact ih h1 h2

theorem cmpL_trans {a b c : List Nat} (h1 : cmpL a b = .lt) (h2 : cmpL b c = .lt) : cmpL a c = .lt :=
  cmpL_lt_of_lt_of_le h1 (leL_of_lt h2)

/-- truncation is monotone -/
theorem leL_take {a b : List Nat} (h : leL a b) (k : Nat) : leL (a.take k) (b.take k) := by
  induction k generalizing a b with
  | zero => simp [leL, cmpL]
  | succ k ih =>
    cases a with
    | nil => cases b <;> simp [leL, cmpL]
    | cons x xs =>
      cases b with
      | nil => simp [leL, cmpL] at h
      | cons y ys =>
        simp only [List.take_succ_cons, leL, cmpL] at h ⊢
        by_cases hxy : x < y
        · simp [hxy]
        · by_cases hyx : y < x
          · simp [hxy, hyx] at h
          · simp only [hxy, hyx, if_false] at h ⊢
            exact ih h

/-- hex digits of a byte string as numbers: two per byte, high nibble first -/
def nibs : List Nat → List Nat
  | [] => []
  | x :: xs => x / 16 :: x % 16 :: nibs xs

theorem nibs_length (a : List Nat) : (nibs a).length = 2 * a.length := by
  induction a with
  | nil => rfl
  | cons x xs ih => simp [nibs, ih]; omega

theorem cmpL_nibs (a b : List Nat) : cmpL (nibs a) (nibs b) = cmpL a b := by
  induction a generalizing b with
  | nil => cases b <;> simp [nibs, cmpL]
  | cons x xs ih =>
    cases b with
    | nil => simp [nibs, cmpL]
    | cons y ys =>
      simp only [nibs, cmpL]
      by_cases h1 : x < y
      · simp only [h1, if_true]
        by_cases h2 : x / 16 < y / 16
        · simp [h2]
        · have h3 : ¬ y / 16 < x / 16 := by omega
          have h4 : x % 16 < y % 16 := by omega
          simp [h2, h3, h4]
      · by_cases h2 : y < x
        · simp only [h1, h2, if_false, if_true]
          by_cases h3 : y / 16 < x / 16
          · have : ¬ x / 16 < y / 16 := by omega
            simp [h3, this]
          · have h4 : ¬ x / 16 < y / 16 := by omega
            have h5 : y % 16 < x % 16 := by omega
            have h6 : ¬ x % 16 < y % 16 := by omega
            simp [h3, h4, h5, h6]
        · have : x = y := by omega
          subst this
          simp [ih]

theorem nibs_take (a : List Nat) (k : Nat) : nibs (a.take k) = (nibs a).take (2 * k) := by
  induction k generalizing a with
  | zero => simp [nibs]
  | succ k ih =>
    cases a with
    | nil => simp [nibs]
    | cons x xs =>
      have : 2 * (k + 1) = (2 * k + 1) + 1 := by omega
      simp only [List.take_succ_cons, nibs, this, ih]

/-- comparing equal-length prefixes first, then the rest -/
theorem cmpL_append {x y : List Nat} (h : x.length = y.length) (u v : List Nat) :
    cmpL (x ++ u) (y ++ v) = (match cmpL x y with | .eq => cmpL u v | o => o) := by
  induction x generalizing y with
  | nil =>
    cases y with
    | nil => simp [cmpL]
    | cons _ _ => simp at h
  | cons a as ih =>
    cases y with
    | nil => simp at h
    | cons b bs =>
      simp only [List.cons_append, cmpL]
      by_cases h1 : a < b
      · simp [h1]
      · by_cases h2 : b < a
        · simp [h1, h2]
        · simp only [h1, h2, if_false]
          exact ih (by simpa using h)

end GixModel.C09
