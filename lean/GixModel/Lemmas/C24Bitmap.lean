import GixModel.Spec.C24Ext
import GixModel.Lemmas.C24Tree
/-
C24 — lemmas for EWAH bitmaps and the extensions built on them (link, FSMN, UNTR).
-/
namespace GixModel.C24
open GixModel GixModel.Spec.C24

theorem readU64_be64 (n : Nat) (h : n < 18446744073709551616) (rest : Bytes) :
    readU64 (be64 n ++ rest) = some (n, rest) := by
  unfold readU64 be64
  rw [List.append_assoc, readU32_be32 _ (by omega)]
  simp only []
  rw [readU32_be32 _ (by omega)]
  simp only []
  congr 2
  omega

/-- a bitmap as it can be stored -/
structure WfEwah (e : Ewah) : Prop where
  bits : e.numBits < 4294967296
  len : e.words.length < 4294967296
  words : ∀ w ∈ e.words, w < 18446744073709551616
  rlw : e.rlw < 4294967296

theorem readWords_encoded : ∀ (ws : List Nat) (rest : Bytes), (∀ w ∈ ws, w < 18446744073709551616) →
    readWords ws.length (ws.flatMap be64 ++ rest) = some (ws, rest) := by
  intro ws
  induction ws with
  | nil => intro rest _; rfl
  | cons w ws ih =>
    intro rest h
    simp only [List.flatMap_cons, List.length_cons, List.append_assoc, readWords]
    rw [readU64_be64 _ (h w (by simp))]
    simp only [ih rest (fun x hx => h x (by simp [hx]))]

theorem words_length (ws : List Nat) : (ws.flatMap be64).length = ws.length * 8 := by
  induction ws with
  | nil => rfl
  | cons w ws ih =>
    simp only [List.flatMap_cons, List.length_append, List.length_cons, ih, be64, be32, List.length_nil]
    omega

theorem ewahDecode_encoded (e : Ewah) (h : WfEwah e) (rest : Bytes) :
    ewahDecode (gitEncodeEwah e ++ rest) = some (e, rest) := by
  unfold ewahDecode gitEncodeEwah
  simp only [List.append_assoc]
  rw [readU32_be32 _ h.bits]; simp only []
  rw [readU32_be32 _ h.len]; simp only []
  have hlen : ¬ ((List.take (e.words.length * 8) (e.words.flatMap be64 ++ (be32 e.rlw ++ rest))).length
      < e.words.length * 8) := by
    rw [← words_length, List.take_left]; omega
  rw [if_neg hlen, readWords_encoded _ _ h.words]
  simp only []
  rw [readU32_be32 _ h.rlw]

theorem gitEncodeEwah_length (e : Ewah) : (gitEncodeEwah e).length = 12 + e.words.length * 8 := by
  simp only [gitEncodeEwah, List.length_append, words_length, be32, List.length_cons, List.length_nil]
  omega

theorem splitAtPos_of_length (a rest : Bytes) (n : Nat) (h : a.length = n) :
    splitAtPos (a ++ rest) n = some (a, rest) := by
  subst h; exact splitAtPos_append a rest

def WfLink (l : Link) : Prop :=
  l.checksum.length = hashLen ∧
    match l.bitmaps with
    | none => True
    | some (del, rep) => WfEwah del ∧ WfEwah rep

theorem gitEncodeEwah_ne_nil (e : Ewah) (rest : Bytes) : (gitEncodeEwah e ++ rest).isEmpty = false := by
  have := gitEncodeEwah_length e
  cases hd : gitEncodeEwah e with
  | nil => rw [hd] at this; simp only [List.length_nil] at this; omega
  | cons _ _ => rfl

theorem linkDecode_of (data id d d2 : Bytes) (del rep : Ewah)
    (h0 : splitAtPos data hashLen = some (id, d)) (hd : d.isEmpty = false)
    (h1 : ewahDecode d = some (del, d2)) (h2 : ewahDecode d2 = some (rep, [])) :
    linkDecode data = some { checksum := id, bitmaps := some (del, rep) } := by
  unfold linkDecode
  rw [h0]
  simp only [hd, Bool.false_eq_true, if_false, h1, h2, List.isEmpty_nil, Bool.not_true]

theorem linkDecode_of_none (data id : Bytes) (h0 : splitAtPos data hashLen = some (id, [])) :
    linkDecode data = some { checksum := id, bitmaps := none } := by
  unfold linkDecode
  rw [h0]
  simp only [List.isEmpty_nil, if_true]

theorem linkDecode_encoded (l : Link) (h : WfLink l) : linkDecode (gitEncodeLink l) = some l := by
  obtain ⟨c, b⟩ := l
  obtain ⟨hc, hb⟩ := h
  simp only at hc hb
  cases b with
  | none =>
    apply linkDecode_of_none
    have := splitAtPos_of_length c [] hashLen hc
    simpa only [gitEncodeLink, List.append_nil] using this
  | some dr =>
    obtain ⟨del, rep⟩ := dr
    have hb1 : WfEwah del := hb.1
    have hb2 : WfEwah rep := hb.2
    apply linkDecode_of _ c (gitEncodeEwah del ++ gitEncodeEwah rep) (gitEncodeEwah rep) del rep
    · exact splitAtPos_of_length c _ hashLen hc
    · exact gitEncodeEwah_ne_nil del _
    · exact ewahDecode_encoded del hb1 _
    · have := ewahDecode_encoded rep hb2 []
      rwa [List.append_nil] at this

/-! ### FSMN -/

def WfFsmn (f : FsMonitor) : Prop :=
  WfEwah f.dirty ∧ (gitEncodeEwah f.dirty).length < 4294967296 ∧
    ((f.version = 1 ∧ f.token.length = 8) ∨ (f.version = 2 ∧ ∀ b ∈ f.token, b ≠ 0))

theorem fsmnDecode_v1_of (data d tok d2 eb : Bytes) (sz : Nat) (dirty : Ewah)
    (h0 : readU32 data = some (1, d)) (ht : (d.take 8).length = 8) (htok : d.take 8 = tok)
    (h1 : readU32 (d.drop 8) = some (sz, d2)) (hsz : ¬ (d2.length < sz)) (heb : d2.take sz = eb)
    (h2 : ewahDecode eb = some (dirty, [])) :
    fsmnDecode data = .ok (some { version := 1, token := tok, dirty := dirty }) := by
  subst htok
  unfold fsmnDecode
  rw [h0]
  have h8 : ¬ ((d.take 8).length < 8) := by omega
  simp only [if_true, h8, if_false, h1, hsz, heb, h2, List.isEmpty_nil, Bool.not_true, Bool.false_eq_true]

theorem fsmnDecode_v2_of (data d tok d1 d2 eb : Bytes) (sz : Nat) (dirty : Ewah)
    (h0 : readU32 data = some (2, d)) (ht : splitAtByteExclusive d 0 = some (tok, d1))
    (h1 : readU32 d1 = some (sz, d2)) (hsz : ¬ (d2.length < sz)) (heb : d2.take sz = eb)
    (h2 : ewahDecode eb = some (dirty, [])) :
    fsmnDecode data = .ok (some { version := 2, token := tok, dirty := dirty }) := by
  unfold fsmnDecode
  rw [h0]
  have h21 : ¬ ((2 : Nat) = 1) := by decide
  simp only [h21, if_false, if_true, ht, h1, hsz, heb, h2, List.isEmpty_nil, Bool.not_true, Bool.false_eq_true]

theorem fsmnDecode_encoded (f : FsMonitor) (h : WfFsmn f) : fsmnDecode (gitEncodeFsmn f) = .ok (some f) := by
  obtain ⟨v, tok, dirty⟩ := f
  obtain ⟨he, hesz, hv⟩ := h
  simp only at he hv hesz
  have hdec : ewahDecode (gitEncodeEwah dirty) = some (dirty, []) := by
    have := ewahDecode_encoded dirty he []
    rwa [List.append_nil] at this
  have hl : ¬ ((gitEncodeEwah dirty).length < (gitEncodeEwah dirty).length) := by omega
  rcases hv with ⟨hv1, ht⟩ | ⟨hv2, ht⟩
  · subst hv1
    apply fsmnDecode_v1_of _ (tok ++ (be32 (gitEncodeEwah dirty).length ++ gitEncodeEwah dirty)) tok
      (gitEncodeEwah dirty) (gitEncodeEwah dirty) (gitEncodeEwah dirty).length dirty
    · simp only [gitEncodeFsmn, if_true]
      exact readU32_be32 1 (by decide) _
    · rw [← ht, List.take_left]
    · rw [← ht, List.take_left]
    · rw [← ht, List.drop_left]
      exact readU32_be32 _ hesz _
    · exact hl
    · exact List.take_length
    · exact hdec
  · subst hv2
    apply fsmnDecode_v2_of _ (tok ++ ((0 : UInt8) :: (be32 (gitEncodeEwah dirty).length ++ gitEncodeEwah dirty))) tok
      (be32 (gitEncodeEwah dirty).length ++ gitEncodeEwah dirty)
      (gitEncodeEwah dirty) (gitEncodeEwah dirty) (gitEncodeEwah dirty).length dirty
    · have h21 : ¬ ((2 : Nat) = 1) := by decide
      simp only [gitEncodeFsmn, h21, if_false, List.append_assoc, List.cons_append, List.nil_append]
      exact readU32_be32 2 (by decide) _
    · have hl2 : 2 ≤ (tok ++ ((0 : UInt8) :: (be32 (gitEncodeEwah dirty).length ++ gitEncodeEwah dirty))).length := by
        simp only [List.length_append, List.length_cons, be32, List.length_nil]; omega
      rw [splitAtByteExclusive_eq _ _ hl2]
      exact splitAtByte_append 0 _ _ ht
    · exact readU32_be32 _ hesz _
    · exact hl
    · exact List.take_length
    · exact hdec

/-! ### UNTR -/

theorem extStat_encoded (s : Stat) (h : WfStat s) (rest : Bytes) :
    extStat (gitEncodeStat s ++ rest) = some (s, rest) := by
  obtain ⟨h1, h2, h3, h4, h5, h6, h7, h8, h9⟩ := h
  unfold extStat gitEncodeStat
  simp only [List.append_assoc]
  rw [readU32_be32 _ h1]; simp only []
  rw [readU32_be32 _ h2]; simp only []
  rw [readU32_be32 _ h3]; simp only []
  rw [readU32_be32 _ h4]; simp only []
  rw [readU32_be32 _ h5]; simp only []
  rw [readU32_be32 _ h6]; simp only []
  rw [readU32_be32 _ h7]; simp only []
  rw [readU32_be32 _ h8]; simp only []
  rw [readU32_be32 _ h9]

/-- the header fields of a decoded untracked cache -/
def untrResult (ident : Bytes) (io eo : OidStat) (perDir : Bytes) (dirFlags : Nat) (dirs : List UDir) : Untracked :=
  { identifier := ident,
    infoExclude := if isNull io.id then none else some io,
    excludesFile := if isNull eo.id then none else some eo,
    excludePerDir := perDir, dirFlags, dirs }

theorem untrDecode_no_root_of (data d1 ident d2 d3 d4 d5 d6 d7 d8 perDir : Bytes) (identLen dirFlags : Nat)
    (infoStat exclStat : Stat) (io eo : OidStat)
    (hlast : data.getLast? = some 0)
    (h1 : varInt data = some (identLen, d1)) (h2 : splitAtPos d1 identLen = some (ident, d2))
    (h3 : extStat d2 = some (infoStat, d3)) (h4 : extStat d3 = some (exclStat, d4))
    (h5 : readU32 d4 = some (dirFlags, d5)) (h6 : oidStat infoStat d5 = some (io, d6))
    (h7 : oidStat exclStat d6 = some (eo, d7))
    (h8 : splitAtByteExclusive d7 0 = some (perDir, d8)) (h9 : varInt d8 = some (0, [])) :
    untrDecode data = .ok (some (untrResult ident io eo perDir dirFlags [])) := by
  unfold untrDecode
  have hl : ¬ (data.getLast? ≠ some 0) := by simp [hlast]
  rw [if_neg hl, h1]
  simp only [h2, h3, h4, h5, h6, h7, h8, h9, if_true, List.isEmpty_nil, untrResult]


/-! ### applying the bitmaps -/

def setCheckOnly (dirs : List UDir) (bits : List Nat) : List UDir :=
  bits.foldl (fun ds i => ds.modify i fun u => { u with checkOnly := true }) dirs

def setStats (dirs : List UDir) (bs : List (Nat × Stat)) : List UDir :=
  bs.foldl (fun ds p => ds.modify p.1 fun u => { u with stat := some p.2 }) dirs

def setOids (dirs : List UDir) (bs : List (Nat × Bytes)) : List UDir :=
  bs.foldl (fun ds p => ds.modify p.1 fun u => { u with excludeOid := some p.2 }) dirs

theorem untrSetCheckOnly_eq : ∀ (bits : List Nat) (dirs : List UDir), (∀ i ∈ bits, i < dirs.length) →
    untrSetCheckOnly dirs bits = some (setCheckOnly dirs bits) := by
  intro bits
  induction bits with
  | nil => intro dirs _; rfl
  | cons i is ih =>
    intro dirs h
    have hi := h i (by simp)
    simp only [untrSetCheckOnly, hi, if_true, setCheckOnly, List.foldl_cons]
    exact ih _ (fun j hj => by rw [List.length_modify]; exact h j (by simp [hj]))

theorem setCheckOnly_length (bits : List Nat) : ∀ (dirs : List UDir), (setCheckOnly dirs bits).length = dirs.length := by
  induction bits with
  | nil => intro dirs; rfl
  | cons i is ih => intro dirs; simp only [setCheckOnly, List.foldl_cons]; rw [← setCheckOnly, ih, List.length_modify]

theorem untrSetStats_eq : ∀ (bs : List (Nat × Stat)) (dirs : List UDir) (rest : Bytes),
    (∀ p ∈ bs, p.1 < dirs.length ∧ WfStat p.2) →
    untrSetStats dirs ((bs.flatMap fun p => gitEncodeStat p.2) ++ rest) (bs.map (·.1)) = (setStats dirs bs, rest) := by
  intro bs
  induction bs with
  | nil => intro dirs rest _; rfl
  | cons p ps ih =>
    intro dirs rest h
    have ⟨hi, hs⟩ := h p (by simp)
    simp only [List.flatMap_cons, List.map_cons, List.append_assoc, untrSetStats]
    rw [extStat_encoded _ hs]
    simp only [hi, if_true, setStats, List.foldl_cons]
    exact ih _ rest (fun q hq => by rw [List.length_modify]; exact h q (by simp [hq]))

theorem setStats_length (bs : List (Nat × Stat)) : ∀ (dirs : List UDir), (setStats dirs bs).length = dirs.length := by
  induction bs with
  | nil => intro dirs; rfl
  | cons p ps ih => intro dirs; simp only [setStats, List.foldl_cons]; rw [← setStats, ih, List.length_modify]

theorem untrSetOids_eq : ∀ (bs : List (Nat × Bytes)) (dirs : List UDir) (rest : Bytes),
    (∀ p ∈ bs, p.1 < dirs.length ∧ p.2.length = hashLen) →
    untrSetOids dirs ((bs.flatMap fun p => p.2) ++ rest) (bs.map (·.1)) = (setOids dirs bs, rest) := by
  intro bs
  induction bs with
  | nil => intro dirs rest _; rfl
  | cons p ps ih =>
    intro dirs rest h
    have ⟨hi, hs⟩ := h p (by simp)
    simp only [List.flatMap_cons, List.map_cons, List.append_assoc, untrSetOids]
    rw [splitAtPos_of_length _ _ hashLen hs]
    simp only [hi, if_true, setOids, List.foldl_cons]
    exact ih _ rest (fun q hq => by rw [List.length_modify]; exact h q (by simp [hq]))

theorem untrDecode_root_of (data d1 ident d2 d3 d4 d5 d6 d7 d8 d9 d10 d11 d12 d13 d14 d15 perDir : Bytes)
    (identLen dirFlags numBlocks : Nat) (infoStat exclStat : Stat) (io eo : OidStat)
    (dirs0 dirs1 dirs2 dirs3 : List UDir) (valid checkOnly hashValid : Ewah)
    (hlast : data.getLast? = some 0)
    (h1 : varInt data = some (identLen, d1)) (h2 : splitAtPos d1 identLen = some (ident, d2))
    (h3 : extStat d2 = some (infoStat, d3)) (h4 : extStat d3 = some (exclStat, d4))
    (h5 : readU32 d4 = some (dirFlags, d5)) (h6 : oidStat infoStat d5 = some (io, d6))
    (h7 : oidStat exclStat d6 = some (eo, d7))
    (h8 : splitAtByteExclusive d7 0 = some (perDir, d8)) (h9 : varInt d8 = some (numBlocks, d9))
    (hnb : numBlocks ≠ 0)
    (hblock : udirBlock (d9.length + 2) 0 d9 [] = some (d10, dirs0)) (hcount : dirs0.length = numBlocks)
    (he1 : ewahDecode d10 = some (valid, d11)) (he2 : ewahDecode d11 = some (checkOnly, d12))
    (he3 : ewahDecode d12 = some (hashValid, d13))
    (hb1 : valid.numBits ≤ numBlocks) (hb2 : checkOnly.numBits ≤ numBlocks) (hb3 : hashValid.numBits ≤ numBlocks)
    (hco : untrSetCheckOnly dirs0 (checkOnly.bits dirs0.length).1 = some dirs1)
    (hend : (checkOnly.bits dirs0.length).2 ≠ .fail)
    (hst : untrSetStats dirs1 d13 (valid.bits dirs1.length).1 = (dirs2, d14))
    (hoid : untrSetOids dirs2 d14 (hashValid.bits dirs2.length).1 = (dirs3, d15))
    (hfin : d15.length = 1) :
    untrDecode data = .ok (some (untrResult ident io eo perDir dirFlags dirs3)) := by
  unfold untrDecode
  have hl : ¬ (data.getLast? ≠ some 0) := by simp [hlast]
  rw [if_neg hl, h1]
  have hbits : ¬ (valid.numBits > numBlocks ∨ checkOnly.numBits > numBlocks ∨ hashValid.numBits > numBlocks) := by omega
  have hcnt : ¬ (dirs0.length ≠ numBlocks) := by simp [hcount]
  have hfin' : ¬ (d15.length ≠ 1) := by simp [hfin]
  simp only [h2, h3, h4, h5, h6, h7, h8, h9, hnb, if_false, hblock, hcnt, he1, he2, he3, hbits, hco, hend,
    hst, hoid, hfin', untrResult]

end GixModel.C24
