import GixModel.Model.C09
/-
C09 helper lemmas, part 9: the byte layer. Big-endian integers read back, fixed-width tables are
addressed by `index * width`, and `File.at` + the accessors on the bytes `encodeFile` produces see
exactly the tables that were encoded.
-/
namespace GixModel.C09
open GixModel

theorem be32_length (v : Nat) : (be32 v).length = 4 := rfl

theorem be64_length (v : Nat) : (be64 v).length = 8 := rfl

theorem readU32_be32 {v : Nat} (h : v < 4294967296) : readU32 (be32 v) = some v := by
  simp only [be32, readU32, UInt8.toNat_ofNat']
  congr 1
  omega

theorem readU64_be64 {v : Nat} (h : v < 18446744073709551616) : readU64 (be64 v) = some v := by
  have h1 : v / U32 % U32 < 4294967296 := Nat.mod_lt _ (by decide)
  have h2 : v % U32 < 4294967296 := Nat.mod_lt _ (by decide)
  have ht : (be64 v).take 4 = be32 (v / U32 % U32) := rfl
  have hd : (be64 v).drop 4 = be32 (v % U32) := rfl
  simp only [readU64, be64_length, if_true, ht, hd, readU32_be32 h1, readU32_be32 h2,
    Option.bind_eq_bind, Option.bind_some]
  congr 1
  simp only [U32] at *
  omega

/-- the `i`-th element of a table of `w`-byte records, followed by anything -/
theorem drop_take_flatten {w : Nat} : ∀ (xss : List Bytes), (∀ a ∈ xss, a.length = w) →
    ∀ (i : Nat) (hi : i < xss.length) (rest : Bytes),
      ((xss.flatten ++ rest).drop (i * w)).take w = xss[i] := by
  intro xss
  induction xss with
  | nil => intro _ i hi; simp at hi
  | cons x xs ih =>
    intro hw i hi rest
    have hx : x.length = w := hw x (by simp)
    cases i with
    | zero =>
      simp only [List.flatten_cons, Nat.zero_mul, List.drop_zero, List.append_assoc, List.getElem_cons_zero]
      rw [List.take_append_of_le_length (by omega), ← hx, List.take_length]
    | succ j =>
      have e : (j + 1) * w = x.length + j * w := by rw [hx, Nat.add_mul]; omega
      simp only [List.flatten_cons, List.append_assoc, List.getElem_cons_succ, e]
      rw [List.drop_append, List.drop_eq_nil_of_le (by omega), List.nil_append]
      have : x.length + j * w - x.length = j * w := by omega
      rw [this]
      exact ih (fun a ha => hw a (by simp [ha])) j (by simpa using hi) rest

theorem flatten_length_fixed {w : Nat} : ∀ (xss : List Bytes), (∀ a ∈ xss, a.length = w) →
    xss.flatten.length = xss.length * w := by
  intro xss
  induction xss with
  | nil => intro _; simp
  | cons x xs ih =>
    intro hw
    simp only [List.flatten_cons, List.length_append, List.length_cons, hw x (by simp),
      ih (fun a ha => hw a (by simp [ha])), Nat.add_mul]
    omega

theorem flatMap_be32_length (l : List Nat) : (l.flatMap be32).length = l.length * 4 := by
  rw [List.flatMap_def]
  rw [flatten_length_fixed (w := 4) _ (by intro a ha; obtain ⟨v, _, rfl⟩ := List.mem_map.mp ha; rfl)]
  simp

theorem flatMap_be64_length (l : List Nat) : (l.flatMap be64).length = l.length * 8 := by
  rw [List.flatMap_def]
  rw [flatten_length_fixed (w := 8) _ (by intro a ha; obtain ⟨v, _, rfl⟩ := List.mem_map.mp ha; rfl)]
  simp

theorem drop_take_be32 (l : List Nat) (i : Nat) (hi : i < l.length) (rest : Bytes) :
    ((l.flatMap be32 ++ rest).drop (i * 4)).take 4 = be32 l[i] := by
  rw [List.flatMap_def]
  have := drop_take_flatten (w := 4) (l.map be32)
    (by intro a ha; obtain ⟨v, _, rfl⟩ := List.mem_map.mp ha; rfl) i (by simpa using hi) rest
  simpa using this

theorem drop_take_be64 (l : List Nat) (i : Nat) (hi : i < l.length) (rest : Bytes) :
    ((l.flatMap be64 ++ rest).drop (i * 8)).take 8 = be64 l[i] := by
  rw [List.flatMap_def]
  have := drop_take_flatten (w := 8) (l.map be64)
    (by intro a ha; obtain ⟨v, _, rfl⟩ := List.mem_map.mp ha; rfl) i (by simpa using hi) rest
  simpa using this

/-- skipping a prefix -/
theorem slice_peel (pre rest : Bytes) (pos len : Nat) :
    slice (pre ++ rest) (pre.length + pos) len = slice rest pos len := by
  simp only [slice, List.length_append]
  have e : (pre ++ rest).drop (pre.length + pos) = rest.drop pos := by
    rw [List.drop_append, List.drop_eq_nil_of_le (by omega), List.nil_append]
    congr 1; omega
  rw [e]
  by_cases h : pos + len ≤ rest.length
  · have : pre.length + pos + len ≤ pre.length + rest.length := by omega
    simp [h, this]
  · have : ¬ pre.length + pos + len ≤ pre.length + rest.length := by omega
    simp [h, this]

theorem slice_in (data : Bytes) (pos len : Nat) (h : pos + len ≤ data.length) :
    slice data pos len = some ((data.drop pos).take len) := by
  simp [slice, h]

theorem readFan_flatMap : ∀ (fan : List Nat), (∀ v ∈ fan, v < 4294967296) → ∀ (rest : Bytes),
    readFan fan.length (fan.flatMap be32 ++ rest) = some fan := by
  intro fan
  induction fan with
  | nil => intro _ _; rfl
  | cons v vs ih =>
    intro hb rest
    have ht : ((v :: vs).flatMap be32 ++ rest).take 4 = be32 v := by
      simp only [List.flatMap_cons, List.append_assoc]
      rw [List.take_append_of_le_length (by simp [be32_length])]
      rfl
    have hd : ((v :: vs).flatMap be32 ++ rest).drop 4 = vs.flatMap be32 ++ rest := by
      simp only [List.flatMap_cons, List.append_assoc]
      exact List.drop_left' (be32_length v)
    simp only [List.length_cons, readFan, ht, hd, readU32_be32 (hb v (by simp)),
      ih (fun a ha => hb a (by simp [ha])) rest, Option.bind_eq_bind, Option.bind_some]

/-- tables the byte encoding can represent -/
structure Encodable (x : Idx) : Prop where
  fanLen : x.fan.length = 256
  fanU32 : ∀ v ∈ x.fan, v < 4294967296
  fanLast : x.fan[255]? = some x.ids.length
  ids20 : ∀ a ∈ x.ids, a.length = 20
  crcLen : x.crcs.length = x.ids.length
  crcU32 : ∀ v ∈ x.crcs, v < 4294967296
  ofsLen : x.ofs32.length = x.ids.length
  ofsU32 : ∀ v ∈ x.ofs32, v < 4294967296
  ofs64U64 : ∀ v ∈ x.ofs64, v < 18446744073709551616
  fanMono : fanMonotone x.fan = true
  ofs64Len : x.ofs64.length ≤ x.ids.length

/-- the opened file -/
def fileOf (x : Idx) (ph ih : Bytes) : File :=
  { data := encodeFile x ph ih, v2 := true, numObjects := x.ids.length, fan := x.fan, hashLen := 20 }

theorem encodeFile_shape (x : Idx) (ph ih : Bytes) :
    encodeFile x ph ih = V2_SIGNATURE ++ (be32 2 ++ (x.fan.flatMap be32 ++ (x.ids.flatten ++
      (x.crcs.flatMap be32 ++ (x.ofs32.flatMap be32 ++ (x.ofs64.flatMap be64 ++ (ph ++ ih))))))) := by
  simp [encodeFile, encodeBody, List.append_assoc]

theorem File.at_encode (x : Idx) (hx : Encodable x) (ph ih : Bytes) (hph : ph.length = 20) (hih : ih.length = 20) :
    File.at (encodeFile x ph ih) = some (.ok (fileOf x ph ih)) := by
  have hshape := encodeFile_shape x ph ih
  have hlen : (encodeFile x ph ih).length = 8 + 1024 + x.ids.length * 20 + x.ids.length * 4 + x.ids.length * 4
      + x.ofs64.length * 8 + 40 := by
    rw [hshape]
    simp only [List.length_append, flatMap_be32_length, flatMap_be64_length, hx.fanLen, hx.crcLen, hx.ofsLen,
      flatten_length_fixed _ hx.ids20, be32_length, hph, hih]
    simp [V2_SIGNATURE]; omega
  have h1 : ¬ (encodeFile x ph ih).length < 256 * 4 + 2 * 20 := by rw [hlen]; omega
  have h2 : (encodeFile x ph ih).take 4 = V2_SIGNATURE := by
    rw [hshape]; exact List.take_left' rfl
  have h3 : ((encodeFile x ph ih).drop 4).take 4 = be32 2 := by
    rw [hshape, List.drop_left' (by rfl)]; exact List.take_left' rfl
  have h4 : (encodeFile x ph ih).drop 8 = x.fan.flatMap be32 ++ (x.ids.flatten ++
      (x.crcs.flatMap be32 ++ (x.ofs32.flatMap be32 ++ (x.ofs64.flatMap be64 ++ (ph ++ ih))))) := by
    rw [hshape, ← List.append_assoc]; exact List.drop_left' (by rfl)
  have h5 := readFan_flatMap x.fan hx.fanU32 (x.ids.flatten ++
      (x.crcs.flatMap be32 ++ (x.ofs32.flatMap be32 ++ (x.ofs64.flatMap be64 ++ (ph ++ ih)))))
  rw [hx.fanLen] at h5
  have h6 : readU32 (be32 2) = some 2 := rfl
  have hm : ¬ ((!fanMonotone x.fan) = true) := by rw [hx.fanMono]; decide
  have hsz : ¬ ((encodeFile x ph ih).length < 8 + 256 * 4 + x.ids.length * (20 + 4 + 4) + 2 * 20 ∨
      (encodeFile x ph ih).length > 8 + 256 * 4 + x.ids.length * (20 + 4 + 4) + 2 * 20 + x.ids.length * 8) := by
    rw [hlen]; have := hx.ofs64Len; omega
  simp only [File.at, h1, if_false, h2, if_true, h3, h6, h4, h5, File.validate, hx.fanLast, fileOf]
  rw [if_neg hm]
  rw [if_neg (by decide : ¬ (2 : Nat) ≠ 2)]
  rw [if_neg hsz]

/-- the accessors on the encoded file give the encoded tables -/
theorem fileOf_oidAt (x : Idx) (hx : Encodable x) (ph ih : Bytes) (i : Nat) (hi : i < x.ids.length) :
    (fileOf x ph ih).oidAt i = some x.ids[i] := by
  have hshape := encodeFile_shape x ph ih
  simp only [File.oidAt, fileOf, if_true, V2_HEADER]
  rw [hshape]
  have e : 1032 + i * 20 = V2_SIGNATURE.length + ((be32 2).length + ((x.fan.flatMap be32).length + i * 20)) := by
    rw [flatMap_be32_length, hx.fanLen]; simp [V2_SIGNATURE, be32_length]; omega
  rw [e, slice_peel, slice_peel, slice_peel, slice_in]
  · rw [drop_take_flatten x.ids hx.ids20 i hi]
  · simp only [List.length_append, flatten_length_fixed _ hx.ids20]
    have : (i + 1) * 20 ≤ x.ids.length * 20 := Nat.mul_le_mul_right 20 hi
    omega

theorem fileOf_crcAt (x : Idx) (hx : Encodable x) (ph ih : Bytes) (i : Nat) (hi : i < x.ids.length) :
    (fileOf x ph ih).crcAt i = some (some (x.crcs[i]'(by rw [hx.crcLen]; exact hi))) := by
  have hshape := encodeFile_shape x ph ih
  have hi' : i < x.crcs.length := by rw [hx.crcLen]; exact hi
  have hpos : (fileOf x ph ih).offsetCrc = 1032 + x.ids.length * 20 := rfl
  have hread : slice (encodeFile x ph ih) (1032 + x.ids.length * 20 + i * 4) 4 = some (be32 x.crcs[i]) := by
    rw [hshape]
    have e : 1032 + x.ids.length * 20 + i * 4 = V2_SIGNATURE.length + ((be32 2).length +
        ((x.fan.flatMap be32).length + (x.ids.flatten.length + i * 4))) := by
      rw [flatMap_be32_length, hx.fanLen, flatten_length_fixed _ hx.ids20]; simp [V2_SIGNATURE, be32_length]; omega
    rw [e, slice_peel, slice_peel, slice_peel, slice_peel, slice_in]
    · rw [drop_take_be32 x.crcs i hi']
    · simp only [List.length_append, flatMap_be32_length]; omega
  unfold File.crcAt
  rw [if_pos (show (fileOf x ph ih).v2 = true from rfl), hpos]
  show ((slice (encodeFile x ph ih) (1032 + x.ids.length * 20 + i * 4) 4).bind readU32).map some = _
  rw [hread, Option.bind_some, readU32_be32 (hx.crcU32 _ (List.getElem_mem hi'))]
  rfl

theorem fileOf_offsetAt (x : Idx) (hx : Encodable x) (ph ih : Bytes) (i : Nat) (o : Nat)
    (ho : x.offsetAt i = some o) : (fileOf x ph ih).offsetAt i = some o := by
  have hshape := encodeFile_shape x ph ih
  have ho' : (x.ofs32[i]?).bind (fun v => if v &&& HIGH_BIT = HIGH_BIT then x.ofs64[v ^^^ HIGH_BIT]? else some v) = some o := ho
  cases hv : x.ofs32[i]? with
  | none => rw [hv] at ho'; cases ho'
  | some v =>
    rw [hv, Option.bind_some] at ho'
    have hi' : i < x.ofs32.length := by
      rcases Nat.lt_or_ge i x.ofs32.length with h | h
      · exact h
      · rw [List.getElem?_eq_none h] at hv; cases hv
    have hvv : x.ofs32[i] = v := by
      rw [List.getElem?_eq_getElem hi'] at hv; injection hv
    have hi : i < x.ids.length := by rw [← hx.ofsLen]; exact hi'
    have hvb : v < 4294967296 := by rw [← hvv]; exact hx.ofsU32 _ (List.getElem_mem hi')
    have hpos32 : (fileOf x ph ih).offsetOfs32 = 1032 + x.ids.length * 20 + x.ids.length * 4 := rfl
    have hpos64 : (fileOf x ph ih).offsetOfs64 = 1032 + x.ids.length * 20 + x.ids.length * 4 + x.ids.length * 4 := rfl
    -- reading the 32-bit entry
    have hread : slice (encodeFile x ph ih) (1032 + x.ids.length * 20 + x.ids.length * 4 + i * 4) 4
        = some (be32 v) := by
      rw [hshape]
      have e : 1032 + x.ids.length * 20 + x.ids.length * 4 + i * 4 = V2_SIGNATURE.length + ((be32 2).length +
          ((x.fan.flatMap be32).length + (x.ids.flatten.length + ((x.crcs.flatMap be32).length + i * 4)))) := by
        rw [flatMap_be32_length, flatMap_be32_length, hx.fanLen, hx.crcLen, flatten_length_fixed _ hx.ids20]
        simp [V2_SIGNATURE, be32_length]; omega
      rw [e, slice_peel, slice_peel, slice_peel, slice_peel, slice_peel, slice_in]
      · rw [drop_take_be32 x.ofs32 i hi', hvv]
      · simp only [List.length_append, flatMap_be32_length]; omega
    have h32 : (slice (fileOf x ph ih).data ((fileOf x ph ih).offsetOfs32 + i * 4) 4).bind readU32 = some v := by
      rw [hpos32]
      show (slice (encodeFile x ph ih) _ 4).bind readU32 = some v
      rw [hread, Option.bind_some, readU32_be32 hvb]
    unfold File.offsetAt
    rw [if_pos (show (fileOf x ph ih).v2 = true from rfl), h32]
    show (if v &&& HIGH_BIT = HIGH_BIT then
        (slice (fileOf x ph ih).data ((fileOf x ph ih).offsetOfs64 + (v ^^^ HIGH_BIT) * 8) 8).bind readU64
      else some v) = some o
    by_cases hb : v &&& HIGH_BIT = HIGH_BIT
    · rw [if_pos hb] at ho' ⊢
      have hk : v ^^^ HIGH_BIT < x.ofs64.length := by
        rcases Nat.lt_or_ge (v ^^^ HIGH_BIT) x.ofs64.length with h | h
        · exact h
        · rw [List.getElem?_eq_none h] at ho'; cases ho'
      have hko : x.ofs64[v ^^^ HIGH_BIT] = o := by
        rw [List.getElem?_eq_getElem hk] at ho'; injection ho'
      have hread64 : slice (encodeFile x ph ih)
          (1032 + x.ids.length * 20 + x.ids.length * 4 + x.ids.length * 4 + (v ^^^ HIGH_BIT) * 8) 8 = some (be64 o) := by
        rw [hshape]
        have e : 1032 + x.ids.length * 20 + x.ids.length * 4 + x.ids.length * 4 + (v ^^^ HIGH_BIT) * 8
            = V2_SIGNATURE.length + ((be32 2).length + ((x.fan.flatMap be32).length + (x.ids.flatten.length +
              ((x.crcs.flatMap be32).length + ((x.ofs32.flatMap be32).length + (v ^^^ HIGH_BIT) * 8))))) := by
          rw [flatMap_be32_length, flatMap_be32_length, flatMap_be32_length, hx.fanLen, hx.crcLen, hx.ofsLen,
            flatten_length_fixed _ hx.ids20]
          simp only [V2_SIGNATURE, be32_length, List.length_cons, List.length_nil]; omega
        rw [e, slice_peel, slice_peel, slice_peel, slice_peel, slice_peel, slice_peel, slice_in]
        · rw [drop_take_be64 x.ofs64 _ hk, hko]
        · simp only [List.length_append, flatMap_be64_length]; omega
      rw [hpos64]
      show (slice (encodeFile x ph ih) _ 8).bind readU64 = some o
      rw [hread64, Option.bind_some, readU64_be64]
      rw [← hko]; exact hx.ofs64U64 _ (List.getElem_mem hk)
    · rw [if_neg hb] at ho' ⊢
      exact ho'

end GixModel.C09
