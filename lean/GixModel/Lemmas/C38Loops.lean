import GixModel.Lemmas.C38Fill
/-
C38 — the loops around `fill_attributes` (`pattern_matching_relative_path` per list, `Search::
pattern_matching_relative_path` over the lists, `Attributes::matching_attributes` over the groups):
they always return, keep the `remaining` invariant, and are simulated by the same loops without any
early exit over git's `fill_one` (`ref…`).
-/
namespace GixModel.Lemmas.C38
open GixModel GixModel.C38 GixModel.Spec.C38

/-! ### the reference: the same traversal, no `remaining`, git's recursion -/

def refLine (env : Env) (mo : Bytes → Option (List Asg)) (D : Nat) (rel : Bytes) (isDir icase : Bool)
    (v : Vals) (l : Line) : Vals :=
  match l.kind with
  | .macro _ => v
  | .pattern p => if env.pm p rel isDir icase then fillOne mo (D + 1) l.attrs v else v

def relOf (pl : PList) (path : Bytes) (icase : Bool) : Option Bytes :=
  match pl.base with
  | none => some path
  | some b => stripBase b path icase

def refList (env : Env) (mo : Bytes → Option (List Asg)) (D : Nat) (path : Bytes) (isDir icase : Bool)
    (v : Vals) (pl : PList) : Vals :=
  match relOf pl path icase with
  | none => v
  | some rel => pl.lines.reverse.foldl (refLine env mo D rel isDir icase) v

def refSearch (env : Env) (mo : Bytes → Option (List Asg)) (D : Nat) (path : Bytes) (isDir icase : Bool)
    (v : Vals) (lists : List PList) : Vals :=
  lists.reverse.foldl (refList env mo D path isDir icase) v

def refGroups (env : Env) (mo : Bytes → Option (List Asg)) (D : Nat) (path : Bytes) (isDir icase : Bool)
    (v : Vals) (groups : List (List PList)) : Vals :=
  groups.foldl (refSearch env mo D path isDir icase) v

theorem ext_refLine (env mo D rel isDir icase) (v : Vals) (l : Line) : Ext v (refLine env mo D rel isDir icase v l) := by
  unfold refLine
  split
  · exact Ext.refl _
  · split
    · exact ext_fillOne _ _ _ _
    · exact Ext.refl _

theorem ext_foldl {α : Type} (f : Vals → α → Vals) (hf : ∀ v x, Ext v (f v x)) : ∀ (l : List α) (v : Vals), Ext v (l.foldl f v) := by
  intro l
  induction l with
  | nil => intro v; exact Ext.refl _
  | cons x l ih => intro v; exact (hf v x).trans (ih _)

theorem ext_refLines (env mo D rel isDir icase) (ls : List Line) (v : Vals) :
    Ext v (ls.foldl (refLine env mo D rel isDir icase) v) :=
  ext_foldl _ (ext_refLine env mo D rel isDir icase) ls v

theorem ext_refList (env mo D path isDir icase) (v : Vals) (pl : PList) : Ext v (refList env mo D path isDir icase v pl) := by
  unfold refList
  split
  · exact Ext.refl _
  · exact ext_refLines _ _ _ _ _ _ _ _

theorem ext_refLists (env mo D path isDir icase) (ls : List PList) (v : Vals) :
    Ext v (ls.foldl (refList env mo D path isDir icase) v) :=
  ext_foldl _ (ext_refList env mo D path isDir icase) ls v

theorem ext_refSearch (env mo D path isDir icase) (v : Vals) (g : List PList) : Ext v (refSearch env mo D path isDir icase v g) :=
  ext_refLists _ _ _ _ _ _ _ _

theorem ext_refGroups (env mo D path isDir icase) (gs : List (List PList)) (v : Vals) :
    Ext v (gs.foldl (refSearch env mo D path isDir icase) v) :=
  ext_foldl _ (ext_refSearch env mo D path isDir icase) gs v

/-! ### the simulation relation -/

/-- the outcome holds exactly the reference values, or the search stopped because nothing counted
remained and the reference only found values for further names -/
def Sim (o : Out) (ref : Vals) : Prop := o.filled = ref ∨ (o.remaining = 0 ∧ Ext o.filled ref)

theorem Sim.exact {o : Out} {ref : Vals} (h : Sim o ref) (hr : ¬ o.remaining = 0) : o.filled = ref := by
  cases h with
  | inl h => exact h
  | inr h => exact absurd h.1 hr

theorem Sim.extend {o : Out} {ref ref' : Vals} (h : Sim o ref) (hr : o.remaining = 0) (he : Ext ref ref') : Sim o ref' := by
  cases h with
  | inl h => exact Or.inr ⟨hr, h ▸ he⟩
  | inr h => exact Or.inr ⟨hr, h.2.trans he⟩

theorem psi_ext (mnames : List Bytes) {v r : Vals} (h : Ext v r) : psi mnames r ≤ psi mnames v :=
  psi_mono mnames v r (fun n hn => h.mono n hn)

/-! ### per list -/

theorem listLoop_isSome (env : Env) (cx : Ctx) (rel : Bytes) (isDir icase : Bool) :
    ∀ (ls : List Line) (o : Out), (listLoop env cx rel isDir icase ls o).isSome = true := by
  intro ls
  induction ls with
  | nil => intro o; rfl
  | cons l ls ih =>
    intro o
    unfold listLoop
    split
    · exact ih o
    · split
      · have := fillAttributes_isSome cx l.attrs o
        cases hfa : fillAttributes cx l.attrs o with
        | none => simp [hfa] at this
        | some r =>
          obtain ⟨o1, done⟩ := r
          by_cases hd : done = true
          · simp [hd]
          · simp only [hd]; exact ih o1
      · exact ih o

def LinesOk (cx : Ctx) (ls : List Line) : Prop := ∀ l ∈ ls, NamesOk cx l.attrs

theorem listLoop_inv (env : Env) (cx : Ctx) (hm : MacrosOk cx) (rel : Bytes) (isDir icase : Bool) :
    ∀ (ls : List Line) (o o' : Out), listLoop env cx rel isDir icase ls o = some o' → Inv cx o → LinesOk cx ls →
      Inv cx o' := by
  intro ls
  induction ls with
  | nil => intro o o' h hi _; simp only [listLoop, Option.some.injEq] at h; subst h; exact hi
  | cons l ls ih =>
    intro o o' h hi hl
    have hl' : LinesOk cx ls := fun x hx => hl x (by simp [hx])
    unfold listLoop at h
    split at h
    · exact ih o o' h hi hl'
    · split at h
      · cases hfa : fillAttributes cx l.attrs o with
        | none => simp [hfa] at h
        | some r =>
          obtain ⟨o1, done⟩ := r
          have hi1 : Inv cx o1 := fillAttributes_inv cx hm l.attrs o (o1, done) hfa hi (hl l (by simp))
          simp only [hfa] at h
          by_cases hd : done = true
          · simp only [hd, if_true, Option.some.injEq] at h; subst h; exact hi1
          · simp only [hd] at h; exact ih o1 o' h hi1 hl'
      · exact ih o o' h hi hl'

theorem hasUnfilled_false (o : Out) (as : List Asg) (h : hasUnfilled o as = false) :
    ∀ a ∈ as.reverse, known o.filled a.name = true := by
  intro a ha
  unfold hasUnfilled at h
  have := List.any_eq_false.mp h a (List.mem_reverse.mp ha)
  simpa [isFilled_eq_known] using this

theorem listLoop_sim (env : Env) (cx : Ctx) (mo : Bytes → Option (List Asg)) (mnames : List Bytes) (D : Nat)
    (hmo : ∀ n, (mo n).getD [] = cx.coll.macroOf n) (hmn : ∀ n b, mo n = some b → n ∈ mnames)
    (rel : Bytes) (isDir icase : Bool) :
    ∀ (ls : List Line) (o o' : Out), listLoop env cx rel isDir icase ls o = some o' → psi mnames o.filled ≤ D →
      Sim o' (ls.foldl (refLine env mo D rel isDir icase) o.filled) := by
  intro ls
  induction ls with
  | nil => intro o o' h _; simp only [listLoop, Option.some.injEq] at h; subst h; exact Or.inl rfl
  | cons l ls ih =>
    intro o o' h hpsi
    unfold listLoop at h
    rw [List.foldl_cons]
    split at h
    · rename_i n hk
      have : refLine env mo D rel isDir icase o.filled l = o.filled := by simp [refLine, hk]
      rw [this]; exact ih o o' h hpsi
    · rename_i p hk
      split at h
      · rename_i hcond
        simp only [Bool.and_eq_true] at hcond
        have href : refLine env mo D rel isDir icase o.filled l = fillOne mo (D + 1) l.attrs o.filled := by
          simp [refLine, hk, hcond.2]
        rw [href]
        cases hfa : fillAttributes cx l.attrs o with
        | none => simp [hfa] at h
        | some r =>
          obtain ⟨o1, done⟩ := r
          have hsim := fillAttributes_sim cx mo mnames D hmo hmn l.attrs o (o1, done) hfa hpsi
          simp only [hfa] at h
          by_cases hd : done = true
          · simp only [hd, if_true, Option.some.injEq] at h; subst h
            have := hsim.2 hd
            exact Or.inr ⟨this.1, this.2.trans (ext_refLines _ _ _ _ _ _ _ _)⟩
          · simp only [hd] at h
            have hd' : done = false := by simpa using hd
            have hex := hsim.1 hd'
            simp only at hex
            rw [← hex]
            apply ih o1 o' h
            have := psi_ext mnames (ext_fillOne mo (D + 1) l.attrs o.filled)
            rw [hex]; omega
      · rename_i hcond
        have href : refLine env mo D rel isDir icase o.filled l = o.filled := by
          unfold refLine
          simp only [hk]
          by_cases hpm : env.pm p rel isDir icase = true
          · simp only [hpm, if_true]
            have hu : hasUnfilled o l.attrs = false := by
              simp only [hpm, Bool.and_true] at hcond
              simpa using hcond
            rw [fillOne_succ]
            exact foldl_all_known mo D _ _ (hasUnfilled_false o l.attrs hu)
          · simp [hpm]
        rw [href]; exact ih o o' h hpsi

theorem listMatch_eq (env : Env) (cx : Ctx) (path : Bytes) (isDir icase : Bool) (pl : PList) (o : Out) :
    listMatch env cx path isDir icase pl o =
      match relOf pl path icase with
      | none => some o
      | some rel => listLoop env cx rel isDir icase pl.lines.reverse o := rfl

theorem listMatch_isSome (env : Env) (cx : Ctx) (path : Bytes) (isDir icase : Bool) (pl : PList) (o : Out) :
    (listMatch env cx path isDir icase pl o).isSome = true := by
  rw [listMatch_eq]
  cases relOf pl path icase with
  | none => rfl
  | some rel => exact listLoop_isSome _ _ _ _ _ _ _

theorem listMatch_inv (env : Env) (cx : Ctx) (hm : MacrosOk cx) (path : Bytes) (isDir icase : Bool) (pl : PList)
    (o o' : Out) (h : listMatch env cx path isDir icase pl o = some o') (hi : Inv cx o) (hl : LinesOk cx pl.lines) :
    Inv cx o' := by
  rw [listMatch_eq] at h
  cases hrel : relOf pl path icase with
  | none => simp only [hrel, Option.some.injEq] at h; subst h; exact hi
  | some rel =>
    simp only [hrel] at h
    exact listLoop_inv env cx hm _ _ _ _ o o' h hi (fun l hl' => hl l (List.mem_reverse.mp hl'))

theorem listMatch_sim (env : Env) (cx : Ctx) (mo : Bytes → Option (List Asg)) (mnames : List Bytes) (D : Nat)
    (hmo : ∀ n, (mo n).getD [] = cx.coll.macroOf n) (hmn : ∀ n b, mo n = some b → n ∈ mnames)
    (path : Bytes) (isDir icase : Bool) (pl : PList) (o o' : Out)
    (h : listMatch env cx path isDir icase pl o = some o') (hpsi : psi mnames o.filled ≤ D) :
    Sim o' (refList env mo D path isDir icase o.filled pl) := by
  rw [listMatch_eq] at h
  unfold refList
  cases hrel : relOf pl path icase with
  | none => simp only [hrel, Option.some.injEq] at h; subst h; exact Or.inl rfl
  | some rel =>
    simp only [hrel] at h
    exact listLoop_sim env cx mo mnames D hmo hmn rel isDir icase _ o o' h hpsi

/-! ### over the lists of a group, over the groups -/

def ListsOk (cx : Ctx) (ls : List PList) : Prop := ∀ pl ∈ ls, LinesOk cx pl.lines

theorem searchLoop_isSome (env : Env) (cx : Ctx) (path : Bytes) (isDir icase : Bool) :
    ∀ (ls : List PList) (o : Out), (searchLoop env cx path isDir icase ls o).isSome = true := by
  intro ls
  induction ls with
  | nil => intro o; rfl
  | cons pl ls ih =>
    intro o
    unfold searchLoop
    have := listMatch_isSome env cx path isDir icase pl o
    cases hlm : listMatch env cx path isDir icase pl o with
    | none => simp [hlm] at this
    | some o1 =>
      simp only
      split
      · rfl
      · exact ih o1

theorem searchLoop_inv (env : Env) (cx : Ctx) (hm : MacrosOk cx) (path : Bytes) (isDir icase : Bool) :
    ∀ (ls : List PList) (o o' : Out), searchLoop env cx path isDir icase ls o = some o' → Inv cx o → ListsOk cx ls →
      Inv cx o' := by
  intro ls
  induction ls with
  | nil => intro o o' h hi _; simp only [searchLoop, Option.some.injEq] at h; subst h; exact hi
  | cons pl ls ih =>
    intro o o' h hi hl
    unfold searchLoop at h
    cases hlm : listMatch env cx path isDir icase pl o with
    | none => simp [hlm] at h
    | some o1 =>
      have hi1 := listMatch_inv env cx hm path isDir icase pl o o1 hlm hi (hl pl (by simp))
      simp only [hlm] at h
      split at h
      · simp only [Option.some.injEq] at h; subst h; exact hi1
      · exact ih o1 o' h hi1 (fun x hx => hl x (by simp [hx]))

theorem searchLoop_sim (env : Env) (cx : Ctx) (mo : Bytes → Option (List Asg)) (mnames : List Bytes) (D : Nat)
    (hmo : ∀ n, (mo n).getD [] = cx.coll.macroOf n) (hmn : ∀ n b, mo n = some b → n ∈ mnames)
    (path : Bytes) (isDir icase : Bool) :
    ∀ (ls : List PList) (o o' : Out), searchLoop env cx path isDir icase ls o = some o' → psi mnames o.filled ≤ D →
      Sim o' (ls.foldl (refList env mo D path isDir icase) o.filled) := by
  intro ls
  induction ls with
  | nil => intro o o' h _; simp only [searchLoop, Option.some.injEq] at h; subst h; exact Or.inl rfl
  | cons pl ls ih =>
    intro o o' h hpsi
    unfold searchLoop at h
    rw [List.foldl_cons]
    cases hlm : listMatch env cx path isDir icase pl o with
    | none => simp [hlm] at h
    | some o1 =>
      have hs1 := listMatch_sim env cx mo mnames D hmo hmn path isDir icase pl o o1 hlm hpsi
      simp only [hlm] at h
      split at h
      · rename_i hz
        simp only [Option.some.injEq] at h; subst h
        exact hs1.extend (by simpa using hz) (ext_refLists _ _ _ _ _ _ _ _)
      · rename_i hz
        have hex := hs1.exact (by simpa using hz)
        rw [← hex]
        apply ih o1 o' h
        have := psi_ext mnames (ext_refList env mo D path isDir icase o.filled pl)
        rw [hex]; omega

theorem search_isSome (env : Env) (cx : Ctx) (path : Bytes) (isDir icase : Bool) (g : List PList) (o : Out) :
    (search env cx path isDir icase g o).isSome = true := searchLoop_isSome _ _ _ _ _ _ _

theorem groupsLoop_isSome (env : Env) (cx : Ctx) (path : Bytes) (isDir icase : Bool) :
    ∀ (gs : List (List PList)) (o : Out), (groupsLoop env cx path isDir icase gs o).isSome = true := by
  intro gs
  induction gs with
  | nil => intro o; rfl
  | cons g gs ih =>
    intro o
    unfold groupsLoop
    have := search_isSome env cx path isDir icase g o
    cases hs : search env cx path isDir icase g o with
    | none => simp [hs] at this
    | some o1 =>
      simp only
      split
      · rfl
      · exact ih o1

theorem groupsLoop_inv (env : Env) (cx : Ctx) (hm : MacrosOk cx) (path : Bytes) (isDir icase : Bool) :
    ∀ (gs : List (List PList)) (o o' : Out), groupsLoop env cx path isDir icase gs o = some o' → Inv cx o →
      (∀ g ∈ gs, ListsOk cx g) → Inv cx o' := by
  intro gs
  induction gs with
  | nil => intro o o' h hi _; simp only [groupsLoop, Option.some.injEq] at h; subst h; exact hi
  | cons g gs ih =>
    intro o o' h hi hl
    unfold groupsLoop at h
    cases hs : search env cx path isDir icase g o with
    | none => simp [hs] at h
    | some o1 =>
      have hi1 : Inv cx o1 := by
        unfold search at hs
        exact searchLoop_inv env cx hm path isDir icase _ o o1 hs hi
          (fun pl hpl => hl g (by simp) pl (List.mem_reverse.mp hpl))
      simp only [hs] at h
      split at h
      · simp only [Option.some.injEq] at h; subst h; exact hi1
      · exact ih o1 o' h hi1 (fun x hx => hl x (by simp [hx]))

theorem groupsLoop_sim (env : Env) (cx : Ctx) (mo : Bytes → Option (List Asg)) (mnames : List Bytes) (D : Nat)
    (hmo : ∀ n, (mo n).getD [] = cx.coll.macroOf n) (hmn : ∀ n b, mo n = some b → n ∈ mnames)
    (path : Bytes) (isDir icase : Bool) :
    ∀ (gs : List (List PList)) (o o' : Out), groupsLoop env cx path isDir icase gs o = some o' →
      psi mnames o.filled ≤ D → Sim o' (refGroups env mo D path isDir icase o.filled gs) := by
  intro gs
  induction gs with
  | nil => intro o o' h _; simp only [groupsLoop, Option.some.injEq] at h; subst h; exact Or.inl rfl
  | cons g gs ih =>
    intro o o' h hpsi
    unfold groupsLoop at h
    unfold refGroups
    rw [List.foldl_cons]
    cases hs : search env cx path isDir icase g o with
    | none => simp [hs] at h
    | some o1 =>
      have hs1 : Sim o1 (refSearch env mo D path isDir icase o.filled g) := by
        unfold search at hs
        exact searchLoop_sim env cx mo mnames D hmo hmn path isDir icase _ o o1 hs hpsi
      simp only [hs] at h
      split at h
      · rename_i hz
        simp only [Option.some.injEq] at h; subst h
        exact hs1.extend (by simpa using hz) (ext_refGroups _ _ _ _ _ _ _ _)
      · rename_i hz
        have hex := hs1.exact (by simpa using hz)
        rw [← hex]
        apply ih o1 o' h
        have := psi_ext mnames (ext_refSearch env mo D path isDir icase o.filled g)
        rw [hex]; omega

/-! ### reading the result off -/

/-- every name with a value in `r` that has none in `v` is one of `names` -/
def NamesIn (names : List Bytes) (v : Vals) : Prop := ∀ n, known v n = true → n ∈ names

/-- the value of a counted attribute is final as soon as the search stops -/
theorem sim_get (cx : Ctx) (o : Out) (ref : Vals) (a : Bytes) (hs : Sim o ref) (hi : Inv cx o)
    (ha : a ∈ counted cx ∨ ¬ known ref a = true) : o.get a = gitValue ref a := by
  unfold Out.get gitValue
  cases hs with
  | inl h => rw [h]
  | inr h =>
    obtain ⟨hz, hext⟩ := h
    by_cases hk : known o.filled a = true
    · rw [hext.lookup_eq a hk]
    · cases ha with
      | inl hc =>
        -- `remaining = 0` and `a` is counted: it must have been found
        exfalso
        have hcnt : 1 ≤ unfilledCount cx o := by
          unfold unfilledCount
          have : a ∈ (counted cx).filter fun n => !o.isFilled n :=
            List.mem_filter.mpr ⟨hc, by simpa [isFilled_eq_known] using hk⟩
          exact List.length_pos_of_mem this
        have := hi.1
        omega
      | inr hn =>
        have h1 : ref.lookup a = none := by
          unfold known at hn
          cases hl : ref.lookup a with
          | none => rfl
          | some x => simp [hl] at hn
        have h2 : o.filled.lookup a = none := by
          unfold known at hk
          cases hl : o.filled.lookup a with
          | none => rfl
          | some x => simp [hl] at hk
        rw [h1, h2]

end GixModel.Lemmas.C38
