import GixModel.Lemmas.C20Left
/-
C20 helper lemmas, part 8: the packed-refs update modes `u`/`r` (`txnStepsM`). Everything a
transaction does outside `packed::Transaction::commit` stays away from packed-refs and its lock, so
after any prefix packed-refs is the complete old or the complete new file — in all three modes.
-/
namespace GixModel.C20
open GixModel

def Qpk (p : Path) : Bool := p == packedPath || p == lockPath packedPath

/-- all touched paths start with `r` (refs/…) or `l` (logs/…) -/
def Away (op : FsOp) : Prop := ∀ t ∈ op.touches, t.head? = some 114 ∨ t.head? = some 108

theorem away_not_pk {op : FsOp} (h : Away op) : touchesAny Qpk op = false := by
  apply List.any_eq_false.mpr
  intro t ht
  have := h t ht
  simp only [Qpk, Bool.or_eq_true, beq_iff_eq, not_or]
  constructor <;> (intro e; rw [e] at this; revert this; decide)

theorem away_dir {x : Path} (hx : x.head? = some 114 ∨ x.head? = some 108) {op : FsOp}
    (h : ∃ d ∈ parents (parentOf x) ++ [parentOf x], d ≠ [] ∧ (op = .mkdir d ∨ op = .rmdir d)) : Away op := by
  obtain ⟨d, hd, hne, ho⟩ := h
  have := head_of_prefix (dirsOf_prefix (x := x) (by simpa [dirsOf] using hd) hne) hne
  intro t ht
  rcases ho with rfl | rfl <;> (simp [FsOp.touches] at ht; subst ht; rw [this]; exact hx)

theorem away_single {p : Path} (hp : p.head? = some 114 ∨ p.head? = some 108) {op : FsOp}
    (h : op.touches = [p]) : Away op := by
  intro t ht; rw [h] at ht; simp at ht; subst ht; exact hp

theorem away_reflogOps {c : Cfg} {s : Store} {g : G} {n : Name} {h : Bytes} :
    ∀ op ∈ reflogOps c s g n h, Away op := by
  intro op ho
  by_cases hd : op.isDirOp = true
  · obtain ⟨d, hdm, hne, rfl⟩ := mem_mkdirAll (mem_reflogOps_dir ho hd)
    exact away_dir (.inr (head_logPath n)) ⟨d, hdm, hne, .inl rfl⟩
  · rcases mem_reflogOps_log ho (by simpa using hd) with rfl | ⟨bs, rfl⟩ <;>
      exact away_single (.inr (head_logPath n)) rfl

theorem away_prepEdit {c : Cfg} {global : Bool} {g : G} {e : Edit} (hn : isRefName e.name = true) :
    ∀ op ∈ prepEdit c global g e, Away op := by
  intro op ho
  have hl := head_lockPath hn
  have hr := head_refName hn
  cases e with
  | delete n =>
    simp only [prepEdit] at ho
    split at ho
    · cases ho
    · rcases List.mem_append.mp ho with ho | ho
      · obtain ⟨d, hdm, hne, rfl⟩ := mem_mkdirAll ho
        exact away_dir (.inl hr) ⟨d, hdm, hne, .inl rfl⟩
      · simp at ho; subst ho; exact away_single (.inl hl) rfl
  | update n new =>
    simp only [prepEdit, List.mem_append] at ho
    rcases ho with (ho | ho) | ho
    · obtain ⟨d, hdm, hne, rfl⟩ := mem_mkdirAll ho
      exact away_dir (.inl hr) ⟨d, hdm, hne, .inl rfl⟩
    · simp at ho; subst ho; exact away_single (.inl hl) rfl
    · simp only [writeOps, List.mem_map] at ho
      obtain ⟨x, _, rfl⟩ := ho; exact away_single (.inl hl) rfl

theorem away_rename {n : Name} (hn : isRefName n = true) : Away (.rename (lockPath n) n) := by
  intro t ht
  simp [FsOp.touches] at ht
  rcases ht with rfl | rfl
  · exact .inl (head_lockPath hn)
  · exact .inl (head_refName hn)

theorem away_commitUpdateM {m : Mode} {c : Cfg} {s : Store} {g : G} {e : Edit} (hn : isRefName e.name = true) :
    ∀ op ∈ commitUpdateM m c s g e, Away op := by
  intro op ho
  cases e with
  | delete n => simp [commitUpdateM, commitUpdate] at ho
  | update n new =>
    cases new with
    | sym t => simp [commitUpdateM, commitUpdate] at ho; subst ho; exact away_rename hn
    | id hx =>
      simp only [commitUpdateM, List.mem_append] at ho
      rcases ho with ho | ho
      · exact away_reflogOps op ho
      · split at ho
        · cases ho
        · simp at ho; subst ho; exact away_rename hn

theorem away_logDelete {g : G} {e : Edit} : ∀ op ∈ logDelete g e, Away op := by
  intro op ho
  cases e with
  | update n new => simp [logDelete] at ho
  | delete n =>
    simp only [logDelete] at ho
    split at ho
    · rcases List.mem_cons.mp ho with rfl | ho
      · exact away_single (.inr (head_logPath n)) rfl
      · obtain ⟨d, hdm, hne, rfl⟩ := mem_rmdirUp ho
        exact away_dir (.inr (head_logPath n)) ⟨d, hdm, hne, .inr rfl⟩
    · cases ho

theorem away_looseDelete {s : Store} {global : Bool} {g : G} {e : Edit} (hn : isRefName e.name = true) :
    ∀ op ∈ looseDelete s global g e, Away op := by
  intro op ho
  have hl := head_lockPath hn
  have hr := head_refName hn
  cases e with
  | update n new => simp [looseDelete] at ho
  | delete n =>
    simp only [looseDelete] at ho
    split at ho
    · split at ho
      · simp at ho; subst ho; exact away_single (.inl hr) rfl
      · cases ho
    · simp only [List.mem_append] at ho
      rcases ho with (ho | ho) | ho
      · split at ho
        · simp at ho; subst ho; exact away_single (.inl hr) rfl
        · cases ho
      · simp at ho; subst ho; exact away_single (.inl hl) rfl
      · obtain ⟨d, hdm, hne, rfl⟩ := mem_rmdirUp ho
        exact away_dir (.inl hr) ⟨d, hdm, hne, .inr rfl⟩

theorem away_prepEditsM {m : Mode} {c : Cfg} {global : Bool} (es : List Edit)
    (h : ∀ e ∈ es, isRefName e.name = true) (g : G) : ∀ op ∈ prepEditsM m c global g es, Away op := by
  induction es generalizing g with
  | nil => intro op ho; simp [prepEditsM] at ho
  | cons e es ih =>
    intro op ho
    simp only [prepEditsM, List.mem_append] at ho
    rcases ho with ho | ho
    · have hn := h e (List.mem_cons_self ..)
      cases e with
      | delete n => exact away_prepEdit hn op (by simpa [prepEditM] using ho)
      | update n new =>
        cases new with
        | sym t => exact away_prepEdit hn op (by simpa [prepEditM] using ho)
        | id hx =>
          simp only [prepEditM] at ho
          split at ho
          · cases ho
          · exact away_prepEdit hn op ho
    · exact ih (fun x hx => h x (List.mem_cons_of_mem _ hx)) _ op ho

theorem away_commitUpdatesM {m : Mode} {c : Cfg} {s : Store} (es : List Edit)
    (h : ∀ e ∈ es, isRefName e.name = true) (g : G) : ∀ op ∈ commitUpdatesM m c s g es, Away op := by
  induction es generalizing g with
  | nil => intro op ho; simp [commitUpdatesM] at ho
  | cons e es ih =>
    intro op ho
    simp only [commitUpdatesM, List.mem_append] at ho
    rcases ho with ho | ho
    · exact away_commitUpdateM (h e (List.mem_cons_self ..)) op ho
    · exact ih (fun x hx => h x (List.mem_cons_of_mem _ hx)) _ op ho

theorem away_logDeletes (es : List Edit) (g : G) : ∀ op ∈ logDeletes g es, Away op := by
  induction es generalizing g with
  | nil => intro op ho; simp [logDeletes] at ho
  | cons e es ih =>
    intro op ho
    simp only [logDeletes, List.mem_append] at ho
    rcases ho with ho | ho
    · exact away_logDelete op ho
    · exact ih _ op ho

theorem away_looseDeletesM {m : Mode} {s : Store} {global : Bool} (es : List Edit)
    (h : ∀ e ∈ es, isRefName e.name = true) (g : G) : ∀ op ∈ looseDeletesM m s global g es, Away op := by
  induction es generalizing g with
  | nil => intro op ho; simp [looseDeletesM] at ho
  | cons e es ih =>
    intro op ho
    simp only [looseDeletesM, List.mem_append] at ho
    rcases ho with ho | ho
    · have hn := h e (List.mem_cons_self ..)
      cases e with
      | delete n => exact away_looseDelete hn op (by simpa [looseDeleteM] using ho)
      | update n new =>
        cases new with
        | sym t => exact away_looseDelete hn op (by simpa [looseDeleteM] using ho)
        | id hx =>
          simp only [looseDeleteM] at ho
          split at ho
          · simp at ho; subst ho; exact away_single (.inl (head_refName hn)) rfl
          · cases ho
    · exact ih (fun x hx => h x (List.mem_cons_of_mem _ hx)) _ op ho

theorem packedCommitM_touches (m : Mode) (c : Cfg) (s : Store) (txn : List Edit) :
    ∀ op ∈ packedCommitM m c s txn, ∀ t ∈ op.touches, t = packedPath ∨ t = lockPath packedPath := by
  intro op ho t ht
  simp only [packedCommitM] at ho
  split at ho
  · cases ho
  · split at ho
    · simp at ho; subst ho; simp [FsOp.touches] at ht; exact .inr ht
    · simp only [List.mem_append, writeOps, List.mem_map] at ho
      rcases ho with ⟨x, _, rfl⟩ | ho
      · simp [FsOp.touches] at ht; exact .inr ht
      · split at ho
        · simp at ho
          rcases ho with rfl | rfl <;> simp [FsOp.touches] at ht
          · exact .inl ht
          · exact .inr ht
        · simp at ho; subst ho; simp [FsOp.touches] at ht
          rcases ht with rfl | rfl
          · exact .inr rfl
          · exact .inl rfl

/-- the steps of any mode, seen from packed-refs and its lock -/
theorem filter_pk (m : Mode) (c : Cfg) (s : Store) (txn : List Edit) (h : ∀ e ∈ txn, isRefName e.name = true) :
    (txnStepsM m c s txn).filter (touchesAny Qpk) = pk0 (s.hasGlobalLockM m txn) ++ packedCommitM m c s txn := by
  have none : ∀ l : List FsOp, (∀ op ∈ l, Away op) → l.filter (touchesAny Qpk) = [] :=
    fun l hl => filter_none (fun op ho => away_not_pk (hl op ho))
  have all : ∀ l : List FsOp, (∀ op ∈ l, ∀ t ∈ op.touches, t = packedPath ∨ t = lockPath packedPath) →
      l.filter (touchesAny Qpk) = l := by
    intro l hl
    apply filter_all
    intro op ho
    cases hts : op.touches with
    | nil => cases op <;> simp [FsOp.touches] at hts
    | cons t ts =>
      apply List.any_eq_true.mpr
      refine ⟨t, by simp [hts], ?_⟩
      rcases hl op ho t (by simp [hts]) with rfl | rfl <;> simp [Qpk]
  simp only [txnStepsM, List.filter_append]
  rw [none _ (away_prepEditsM txn h _), none _ (away_commitUpdatesM txn h _), none _ (away_logDeletes txn _),
    none _ (away_looseDeletesM txn h _), all _ (packedCommitM_touches m c s txn)]
  have : (if s.hasGlobalLockM m txn = true then [FsOp.create (lockPath packedPath)] else []).filter (touchesAny Qpk)
      = pk0 (s.hasGlobalLockM m txn) := by
    apply all
    intro op ho t ht
    split at ho
    · simp at ho; subst ho; simp [FsOp.touches] at ht; exact .inr ht
    · cases ho
  rw [this]; simp

/-- what a transaction of mode `m` makes of packed-refs -/
def newPackedFileM (m : Mode) (s : Store) (txn : List Edit) : Option Bytes :=
  if s.hasGlobalLockM m txn = true ∧
      ((upsOf m txn).isEmpty && (delsOf s txn).isEmpty) = false then
    (if (s.remainingM m txn).isEmpty = true then none else some (renderPacked (s.remainingM m txn)))
  else s.packed.map renderPacked

/-- every prefix of the packed-refs part leaves the old or the new file; the whole leaves the new -/
theorem run_packedM (m : Mode) (c : Cfg) (s : Store) (txn : List Edit) (hchunk : ∀ bs, (c.chunk bs).flatten = bs)
    (hl : ∀ x ∈ s.loose, isRefName x.1 = true) (hnl : s.toFs (lockPath packedPath) = none) :
    AllPrefixes (fun f => fileAt f packedPath = s.packed.map renderPacked ∨ fileAt f packedPath = newPackedFileM m s txn)
        (pk0 (s.hasGlobalLockM m txn) ++ packedCommitM m c s txn) s.toFs ∧
      fileAt (applyAll (pk0 (s.hasGlobalLockM m txn) ++ packedCommitM m c s txn) s.toFs) packedPath =
        newPackedFileM m s txn := by
  have hne : lockPath packedPath ≠ packedPath := by decide
  have h0 : fileAt s.toFs packedPath = s.packed.map renderPacked := init_packed hl
  have h0e : s.toFs packedPath = ent (s.packed.map renderPacked) := by
    have : s.toFs packedPath ≠ some .dir := by
      unfold Store.toFs
      have : s.loose.find? (fun x => decide (x.1 = packedPath)) = none := by
        apply List.find?_eq_none.mpr
        intro x hx; simpa using (refName_ne_packed (hl x hx)).1
      simp only [this, if_true]
      cases s.packed <;> simp
    rw [entry_of_fileAt this, h0]
  by_cases hg : s.hasGlobalLockM m txn = true
  · -- after the lock is created
    let fs1 := (FsOp.create (lockPath packedPath)).apply s.toFs
    have f1l : fs1 (lockPath packedPath) = some (.file []) := by simp [fs1, FsOp.apply, hnl]
    have f1p : fs1 packedPath = s.toFs packedPath := apply_frame _ _ (by simp [FsOp.touches]; exact hne.symm)
    have hpk0 : pk0 (s.hasGlobalLockM m txn) = [FsOp.create (lockPath packedPath)] := by simp [pk0, hg]
    rw [hpk0, List.singleton_append]
    by_cases he : ((upsOf m txn).isEmpty && (delsOf s txn).isEmpty) = true
    · have hops : packedCommitM m c s txn = [FsOp.unlink (lockPath packedPath)] := by
        simp only [packedCommitM, hg, Bool.not_true, Bool.false_eq_true, if_false]
        simp only [he, if_true]
      have hnew : newPackedFileM m s txn = s.packed.map renderPacked := by
        simp only [newPackedFileM]; rw [if_neg]; intro hc; rw [he] at hc; cases hc.2
      rw [hops, hnew]
      have key : ∀ j, fileAt (applyAll (List.take j [FsOp.create (lockPath packedPath), FsOp.unlink (lockPath packedPath)]) s.toFs)
          packedPath = s.packed.map renderPacked := by
        intro j
        rw [← h0]
        apply fileAt_congr
        apply applyAll_frame
        intro op ho ht
        have := List.mem_of_mem_take ho
        simp at this
        rcases this with rfl | rfl <;> (simp [FsOp.touches] at ht; exact hne ht.symm)
      refine ⟨fun j => .inl (key j), ?_⟩
      have := key 2; simpa using this
    · have he' : ((upsOf m txn).isEmpty && (delsOf s txn).isEmpty) = false := by
        cases hb : ((upsOf m txn).isEmpty && (delsOf s txn).isEmpty) with
        | false => rfl
        | true => exact absurd hb he
      let A := writeOps c.chunk (lockPath packedPath) (renderPacked (s.remainingM m txn))
      have hA : ∀ op ∈ A, ∀ t ∈ op.touches, t = lockPath packedPath := appends_touch _ _
      have hAlock : applyAll A fs1 (lockPath packedPath) = some (.file (renderPacked (s.remainingM m txn))) := by
        have := run_appends (lockPath packedPath) (c.chunk (renderPacked (s.remainingM m txn))) fs1 [] f1l
        simpa [A, writeOps, hchunk] using this
      have hApk : ∀ j, applyAll (A.take j) fs1 packedPath = s.toFs packedPath := by
        intro j
        rw [← f1p]
        apply applyAll_frame
        intro op ho ht
        exact hne.symm (hA op (List.mem_of_mem_take ho) _ ht)
      have hApk' : applyAll A fs1 packedPath = s.toFs packedPath := by
        have := hApk A.length; rwa [List.take_length] at this
      have pre : AllPrefixes (fun f => fileAt f packedPath = s.packed.map renderPacked ∨
          fileAt f packedPath = newPackedFileM m s txn) A fs1 := by
        intro j; left; rw [fileAt_congr (hApk j), h0]
      have start : fileAt s.toFs packedPath = s.packed.map renderPacked ∨
          fileAt s.toFs packedPath = newPackedFileM m s txn := .inl h0
      by_cases hr : (s.remainingM m txn).isEmpty = true
      · have hnew : newPackedFileM m s txn = none := by
          simp only [newPackedFileM]; rw [if_pos ⟨hg, he'⟩]; simp [hr]
        have hops : packedCommitM m c s txn = A ++ [FsOp.unlink packedPath, FsOp.unlink (lockPath packedPath)] := by
          simp only [packedCommitM, hg, Bool.not_true, Bool.false_eq_true, if_false]
          simp only [he', Bool.false_eq_true, if_false, hr, if_true, A]
        let fs2 := applyAll A fs1
        have h1 : fileAt ((FsOp.unlink packedPath).apply fs2) packedPath = none := by
          cases hx : fs2 packedPath with
          | none => simp [FsOp.apply, hx, fileAt]
          | some x => cases x <;> simp [FsOp.apply, hx, fileAt]
        have h2 : fileAt ((FsOp.unlink (lockPath packedPath)).apply ((FsOp.unlink packedPath).apply fs2)) packedPath = none := by
          rw [fileAt_congr (apply_frame _ _ (by simp [FsOp.touches]; exact hne.symm)), h1]
        rw [hops]
        refine ⟨?_, ?_⟩
        · refine allPrefixes_cons (P := fun f => fileAt f packedPath = s.packed.map renderPacked ∨
            fileAt f packedPath = newPackedFileM m s txn) start ?_
          refine allPrefixes_append pre ?_
          refine allPrefixes_cons (P := fun f => fileAt f packedPath = s.packed.map renderPacked ∨
            fileAt f packedPath = newPackedFileM m s txn) (.inl (by rw [fileAt_congr hApk', h0])) ?_
          refine allPrefixes_cons (P := fun f => fileAt f packedPath = s.packed.map renderPacked ∨
            fileAt f packedPath = newPackedFileM m s txn) (.inr (by rw [h1, hnew])) ?_
          exact allPrefixes_nil (P := fun f => fileAt f packedPath = s.packed.map renderPacked ∨
            fileAt f packedPath = newPackedFileM m s txn) (.inr (by rw [h2, hnew]))
        · rw [applyAll_cons, applyAll_append]
          simp only [applyAll_cons, applyAll_nil]
          exact h2.trans hnew.symm
      · have hr' : (s.remainingM m txn).isEmpty = false := by simpa using hr
        have hnew : newPackedFileM m s txn = some (renderPacked (s.remainingM m txn)) := by
          simp only [newPackedFileM]; rw [if_pos ⟨hg, he'⟩]; simp [hr']
        have hops : packedCommitM m c s txn = A ++ [FsOp.rename (lockPath packedPath) packedPath] := by
          simp only [packedCommitM, hg, Bool.not_true, Bool.false_eq_true, if_false]
          simp only [he', Bool.false_eq_true, if_false, hr', A]
        have hren : fileAt ((FsOp.rename (lockPath packedPath) packedPath).apply (applyAll A fs1)) packedPath =
            some (renderPacked (s.remainingM m txn)) := by
          have hp : applyAll A fs1 packedPath = ent (s.packed.map renderPacked) := by rw [hApk', h0e]
          cases hs : s.packed with
          | none => simp [FsOp.apply, hAlock, hp, hs, ent, fileAt]
          | some rs => simp [FsOp.apply, hAlock, hp, hs, ent, fileAt]
        rw [hops]
        refine ⟨?_, ?_⟩
        · refine allPrefixes_cons (P := fun f => fileAt f packedPath = s.packed.map renderPacked ∨
            fileAt f packedPath = newPackedFileM m s txn) start ?_
          refine allPrefixes_append pre ?_
          refine allPrefixes_cons (P := fun f => fileAt f packedPath = s.packed.map renderPacked ∨
            fileAt f packedPath = newPackedFileM m s txn) (.inl (by rw [fileAt_congr hApk', h0])) ?_
          exact allPrefixes_nil (P := fun f => fileAt f packedPath = s.packed.map renderPacked ∨
            fileAt f packedPath = newPackedFileM m s txn) (.inr (by rw [hren, hnew]))
        · rw [applyAll_cons, applyAll_append]
          simp only [applyAll_cons, applyAll_nil]
          exact hren.trans hnew.symm
  · have hpk0 : pk0 (s.hasGlobalLockM m txn) = [] := by simp [pk0, hg]
    have hops : packedCommitM m c s txn = [] := by simp [packedCommitM, hg]
    have hnew : newPackedFileM m s txn = s.packed.map renderPacked := by
      simp only [newPackedFileM]; rw [if_neg]; intro hc; exact hg hc.1
    rw [hpk0, hops, hnew]
    exact ⟨fun j => .inl (by simpa using h0), by simpa using h0⟩

end GixModel.C20

namespace GixModel.C20
open GixModel

theorem prepEditsM_d (c : Cfg) (global : Bool) (g : G) (es : List Edit) :
    prepEditsM .d c global g es = prepEdits c global g es := by
  induction es generalizing g with
  | nil => rfl
  | cons e es ih =>
    have he : prepEditM .d c global g e = prepEdit c global g e := by
      cases e with
      | delete n => rfl
      | update n new => cases new <;> simp [prepEditM]
    simp only [prepEditsM, prepEdits, he, ih]

theorem commitUpdatesM_d (c : Cfg) (s : Store) (g : G) (es : List Edit) :
    commitUpdatesM .d c s g es = commitUpdates c s g es := by
  induction es generalizing g with
  | nil => rfl
  | cons e es ih =>
    have he : commitUpdateM .d c s g e = commitUpdate c s g e := by
      cases e with
      | delete n => rfl
      | update n new => cases new <;> simp [commitUpdateM, commitUpdate]
    simp only [commitUpdatesM, commitUpdates, he, ih]

theorem looseDeletesM_d (s : Store) (global : Bool) (g : G) (es : List Edit) :
    looseDeletesM .d s global g es = looseDeletes s global g es := by
  induction es generalizing g with
  | nil => rfl
  | cons e es ih =>
    have he : looseDeleteM .d s global g e = looseDelete s global g e := by
      cases e with
      | delete n => rfl
      | update n new => cases new <;> simp [looseDeleteM, looseDelete]
    simp only [looseDeletesM, looseDeletes, he, ih]

theorem mem_deleteNames {txn : List Edit} {n : Name} : n ∈ deleteNames txn ↔ Edit.delete n ∈ txn := by
  simp only [deleteNames, List.mem_filterMap]
  constructor
  · rintro ⟨e, he, h⟩
    cases e with
    | update m t => simp at h
    | delete m => simp at h; subst h; exact he
  · intro h; exact ⟨.delete n, h, rfl⟩

theorem packedCommitM_d (c : Cfg) (s : Store) (txn : List Edit) :
    packedCommitM .d c s txn = packedCommit c s txn := by
  unfold packedCommitM packedCommit
  have hg : s.hasGlobalLockM .d txn = s.hasGlobalLock txn := rfl
  rw [hg]
  by_cases h : s.hasGlobalLock txn = true
  · have hsome : s.packed.isSome = true := by
      simp only [Store.hasGlobalLock, Bool.and_eq_true] at h; exact h.1
    obtain ⟨rs, hrs⟩ := Option.isSome_iff_exists.mp hsome
    have hd : delsOf s txn = s.packedDeletions txn := by simp [delsOf, hsome]
    have hu : upsOf .d txn = [] := by simp [upsOf]
    have hr : s.remainingM .d txn = s.remaining txn := by
      simp only [Store.remainingM, Store.remaining, hu, List.foldl_nil, List.map_nil, hrs, Option.getD_some]
      apply List.filter_congr
      intro r hr
      have : (deleteNames txn).contains r.1 = (s.packedDeletions txn).contains r.1 := by
        have hp : (s.packedOf r.1).isSome = true := by
          simp only [Store.packedOf, hrs]
          cases hf : rs.find? (fun x => decide (x.1 = r.1)) with
          | some y => rfl
          | none =>
            have := List.find?_eq_none.mp hf r hr
            simp at this
        cases hc : (s.packedDeletions txn).contains r.1 with
        | true =>
          have := (packedDeletions_subset s txn (by simpa using hc)).1
          simpa using mem_deleteNames.mpr this
        | false =>
          cases hc2 : (deleteNames txn).contains r.1 with
          | false => rfl
          | true =>
            have h1 : Edit.delete r.1 ∈ txn := mem_deleteNames.mp (by simpa using hc2)
            have := mem_packedDeletions s txn h1 hp
            simp at hc; exact absurd this hc
      simp only [List.contains_eq_mem, decide_eq_decide] at this
      simp [this]
    simp only [h, Bool.not_true, Bool.false_eq_true, if_false, hd, hu, List.isEmpty_nil, Bool.true_and, hr]
  · simp [h]

/-- in the default mode the steps of the general model are the steps the theorems are about -/
theorem txnStepsM_d (c : Cfg) (s : Store) (txn : List Edit) : txnStepsM .d c s txn = txnSteps c s txn := by
  simp only [txnStepsM, txnSteps, prepEditsM_d, commitUpdatesM_d, looseDeletesM_d, packedCommitM_d]
  rfl

end GixModel.C20
