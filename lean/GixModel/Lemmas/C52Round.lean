import GixModel.Lemmas.C52Chain
import GixModel.Lemmas.C52Civil
/-
C52 — `parse(format(t)) = t` for the strptime formats, for every time in jiff's range.
-/
namespace GixModel.C52
open GixModel GixModel.Civil

/-- jiff's supported range: what `Time::format` needs not to panic -/
def InRange (t : Time) : Prop :=
  tsMin ≤ t.seconds ∧ t.seconds ≤ tsMax ∧ -offMax ≤ t.offset ∧ t.offset ≤ offMax

instance (t : Time) : Decidable (InRange t) := by unfold InRange; infer_instance

/-- the sign field says what the offset says (`Time::new`) -/
def SignOk (t : Time) : Prop := t.minus = decide (t.offset < 0)

instance (t : Time) : Decidable (SignOk t) := by unfold SignOk; infer_instance

theorem year_range (d : Int) (h1 : -4371587 ≤ d) (h2 : d ≤ 2932896) : (civilFromDays d).1.natAbs ≤ 9999 := by
  have hdoe : ((d + 719468 - (d + 719468) / 146097 * 146097).toNat) < 146097 := by omega
  obtain ⟨hy, hb, hd⟩ := yoe_spec _ hdoe
  have hlen := yearLen_le (yoeOfDoe (d + 719468 - (d + 719468) / 146097 * 146097).toNat)
  unfold civilFromDays
  simp only
  generalize hera : (d + 719468) / 146097 = era at *
  generalize hdoe' : (d + 719468 - era * 146097).toNat = doe at *
  generalize hyoe : yoeOfDoe doe = yoe at *
  have hera1 : -25 ≤ era := by omega
  have hera2 : era ≤ 24 := by omega
  have hdoeeq : (doe : Int) = d + 719468 - era * 146097 := by omega
  unfold monthOfMp mpOfDoy
  by_cases hlo : era = -25
  · subst hlo
    by_cases hy0 : yoe = 0
    · subst hy0
      have hb0 : doyBase 0 = 0 := by decide
      rw [hb0] at hd ⊢
      simp only [Nat.sub_zero] at hd ⊢
      have : 306 ≤ doe := by omega
      split <;> split <;> omega
    · split <;> split <;> omega
  · by_cases hhi : era = 24
    · subst hhi
      by_cases hy399 : yoe = 399
      · subst hy399
        have hb399 : doyBase 399 = 145731 := by decide
        rw [hb399] at hd hb ⊢
        have : doe ≤ 146036 := by omega
        split <;> split <;> omega
      · split <;> split <;> omega
    · split <;> split <;> omega

theorem brokenOk_breakDown (t : Time) (hr : InRange t) : BrokenOk (breakDown t.seconds t.offset) := by
  obtain ⟨h1, h2, h3, h4⟩ := hr
  unfold tsMin at h1; unfold tsMax at h2; unfold offMax at h3 h4
  have hdays1 : -4371587 ≤ (t.seconds + t.offset) / 86400 := by omega
  have hdays2 : (t.seconds + t.offset) / 86400 ≤ 2932896 := by omega
  have hsod : ((t.seconds + t.offset) % 86400).toNat < 86400 := by omega
  refine ⟨?_, ?_, ?_, ?_, ?_, ?_, ?_⟩
  · exact year_range _ hdays1 hdays2
  · exact (days_civil_days _).1
  · show ((t.seconds + t.offset) % 86400).toNat / 3600 ≤ 23; omega
  · show ((t.seconds + t.offset) % 86400).toNat % 3600 / 60 ≤ 59; omega
  · show ((t.seconds + t.offset) % 86400).toNat % 60 ≤ 59; omega
  · exact weekday_lt _
  · show t.offset.natAbs ≤ 93599; omega

/-! ### which fields a format sets -/

def setsYear (it : Item) : Bool := it == .Y
def setsMonth (it : Item) : Bool := it == .m || it == .b
def setsDay (it : Item) : Bool := it == .d || it == .dNoPad
def setsHour (it : Item) : Bool := it == .H
def setsMinute (it : Item) : Bool := it == .M
def setsSecond (it : Item) : Bool := it == .S
def setsOffset (it : Item) : Bool := it == .z || it == .zColon

/-- the format has all of year, month, day, hour, minute, second, offset -/
def complete (items : List Item) : Bool :=
  items.any setsYear && items.any setsMonth && items.any setsDay && items.any setsHour &&
    items.any setsMinute && items.any setsSecond && items.any setsOffset

theorem applyAll_cons (it : Item) (items : List Item) (b : Broken) (f : Fields) :
    applyAll (it :: items) b f = applyAll items b (upd it b f) := rfl

theorem applyAll_year (b : Broken) : ∀ (items : List Item) (f : Fields),
    (applyAll items b f).year = if items.any setsYear then some b.year else f.year := by
  intro items
  induction items with
  | nil => intro f; rfl
  | cons it items ih =>
    intro f
    rw [applyAll_cons, ih]
    cases it <;> simp [upd, setsYear, List.any_cons]

theorem applyAll_month (b : Broken) : ∀ (items : List Item) (f : Fields),
    (applyAll items b f).month = if items.any setsMonth then some b.month else f.month := by
  intro items
  induction items with
  | nil => intro f; rfl
  | cons it items ih =>
    intro f
    rw [applyAll_cons, ih]
    cases it <;> simp [upd, setsMonth, List.any_cons]

theorem applyAll_day (b : Broken) : ∀ (items : List Item) (f : Fields),
    (applyAll items b f).day = if items.any setsDay then some b.day else f.day := by
  intro items
  induction items with
  | nil => intro f; rfl
  | cons it items ih =>
    intro f
    rw [applyAll_cons, ih]
    cases it <;> simp [upd, setsDay, List.any_cons]

theorem applyAll_hour (b : Broken) : ∀ (items : List Item) (f : Fields),
    (applyAll items b f).hour = if items.any setsHour then some b.hour else f.hour := by
  intro items
  induction items with
  | nil => intro f; rfl
  | cons it items ih =>
    intro f
    rw [applyAll_cons, ih]
    cases it <;> simp [upd, setsHour, List.any_cons]

theorem applyAll_minute (b : Broken) : ∀ (items : List Item) (f : Fields),
    (applyAll items b f).minute = if items.any setsMinute then some b.minute else f.minute := by
  intro items
  induction items with
  | nil => intro f; rfl
  | cons it items ih =>
    intro f
    rw [applyAll_cons, ih]
    cases it <;> simp [upd, setsMinute, List.any_cons]

theorem applyAll_second (b : Broken) : ∀ (items : List Item) (f : Fields),
    (applyAll items b f).second = if items.any setsSecond then some b.second else f.second := by
  intro items
  induction items with
  | nil => intro f; rfl
  | cons it items ih =>
    intro f
    rw [applyAll_cons, ih]
    cases it <;> simp [upd, setsSecond, List.any_cons]

theorem applyAll_offset (b : Broken) : ∀ (items : List Item) (f : Fields),
    (applyAll items b f).offset = if items.any setsOffset then some b.offset else f.offset := by
  intro items
  induction items with
  | nil => intro f; rfl
  | cons it items ih =>
    intro f
    rw [applyAll_cons, ih]
    cases it <;> simp [upd, setsOffset, List.any_cons]

theorem fieldsToTime_full (f : Fields) (y : Int) (m d h mi s : Nat) (off : Int)
    (hy : f.year = some y) (hm : f.month = some m) (hd : f.day = some d) (hh : f.hour = some h)
    (hmi : f.minute = some mi) (hs : f.second = some s) (ho : f.offset = some off)
    (hvy : y.natAbs ≤ 9999) (hvd : d ≤ daysInMonth y m)
    (hlo : tsMin ≤ daysFromCivil y m d * 86400 + ((h * 3600 + mi * 60 + s : Nat) : Int) - off)
    (hhi : daysFromCivil y m d * 86400 + ((h * 3600 + mi * 60 + s : Nat) : Int) - off ≤ tsMax) :
    fieldsToTime f = some { seconds := daysFromCivil y m d * 86400 + ((h * 3600 + mi * 60 + s : Nat) : Int) - off,
                            offset := off, minus := decide (off < 0) } := by
  unfold fieldsToTime
  rw [hy, hm, hd, ho]
  simp only
  have hv : validYear y = true := by unfold validYear; simp; omega
  have hdd : ¬ (d > daysInMonth y m) := by omega
  simp only [hv, Bool.not_true, Bool.false_or, decide_eq_true_eq, hdd, if_false, hh, hmi, hs]
  have hr : ¬ (daysFromCivil y m d * 86400 + ((h * 3600 + mi * 60 + s : Nat) : Int) - off < tsMin ∨
      daysFromCivil y m d * 86400 + ((h * 3600 + mi * 60 + s : Nat) : Int) - off > tsMax) := by omega
  rw [if_neg hr]

/-- the generic round trip: any format string of the known directives that is well chained and complete -/
theorem format_parse_zoned (fmt : Bytes) (items : List Item) (hpf : parseFormat fmt = some items)
    (hchain : chainOk items = true) (hcomplete : complete items = true)
    (t : Time) (hr : InRange t) (hs : SignOk t) :
    ∃ text, format (.custom fmt) t = .ok text ∧ parseZoned fmt text = some t := by
  have hb := brokenOk_breakDown t hr
  refine ⟨strftime items (breakDown t.seconds t.offset), ?_, ?_⟩
  · obtain ⟨h1, h2, h3, h4⟩ := hr
    unfold format
    simp only
    have g1 : ¬ (t.offset < -offMax ∨ t.offset > offMax) := by omega
    have g2 : ¬ (t.seconds < tsMin ∨ t.seconds > tsMax) := by omega
    rw [if_neg g1, if_neg g2, hpf]
  · unfold parseZoned strptime
    rw [hpf]
    simp only [parseItems_strftime _ hb items {} hchain, Option.bind]
    simp only [complete, Bool.and_eq_true] at hcomplete
    obtain ⟨⟨⟨⟨⟨⟨c1, c2⟩, c3⟩, c4⟩, c5⟩, c6⟩, c7⟩ := hcomplete
    have e1 := applyAll_year (breakDown t.seconds t.offset) items {}
    have e2 := applyAll_month (breakDown t.seconds t.offset) items {}
    have e3 := applyAll_day (breakDown t.seconds t.offset) items {}
    have e4 := applyAll_hour (breakDown t.seconds t.offset) items {}
    have e5 := applyAll_minute (breakDown t.seconds t.offset) items {}
    have e6 := applyAll_second (breakDown t.seconds t.offset) items {}
    have e7 := applyAll_offset (breakDown t.seconds t.offset) items {}
    rw [c1] at e1; rw [c2] at e2; rw [c3] at e3; rw [c4] at e4; rw [c5] at e5; rw [c6] at e6; rw [c7] at e7
    simp only [if_true] at e1 e2 e3 e4 e5 e6 e7
    obtain ⟨h1, h2, h3, h4⟩ := hr
    unfold tsMin at h1; unfold tsMax at h2
    have hdc := (days_civil_days ((t.seconds + t.offset) / 86400)).2
    have hts : daysFromCivil (breakDown t.seconds t.offset).year (breakDown t.seconds t.offset).month
          (breakDown t.seconds t.offset).day * 86400 +
        (((breakDown t.seconds t.offset).hour * 3600 + (breakDown t.seconds t.offset).minute * 60 +
          (breakDown t.seconds t.offset).second : Nat) : Int) - (breakDown t.seconds t.offset).offset = t.seconds := by
      show daysFromCivil (civilFromDays ((t.seconds + t.offset) / 86400)).1 (civilFromDays ((t.seconds + t.offset) / 86400)).2.1
          (civilFromDays ((t.seconds + t.offset) / 86400)).2.2 * 86400 +
        ((((t.seconds + t.offset) % 86400).toNat / 3600 * 3600 + ((t.seconds + t.offset) % 86400).toNat % 3600 / 60 * 60 +
          ((t.seconds + t.offset) % 86400).toNat % 60 : Nat) : Int) - t.offset = t.seconds
      rw [hdc]
      omega
    rw [fieldsToTime_full _ _ _ _ _ _ _ _ e1 e2 e3 e4 e5 e6 e7 hb.year hb.date.2.2.2
      (by rw [hts]; unfold tsMin; exact h1) (by rw [hts]; unfold tsMax; exact h2)]
    rw [hts]
    have : (breakDown t.seconds t.offset).offset = t.offset := rfl
    rw [this]
    unfold SignOk at hs
    cases t with
    | mk s o mi =>
      simp only at hs ⊢
      rw [hs]

end GixModel.C52
