import GixModel.Lemmas.C27Body
import GixModel.Lemmas.C28
/-
C28 on well-formed bodies (sequences of items, Spec/C27Body.lean): `set` and `remove` touch exactly
the last item with the key (and a neighbouring whitespace / newline item), so bodies stay well
formed and comments are never touched — for every call and, by induction, every edit history.
-/
namespace GixModel.C28
open GixModel GixModel.C26 GixModel.C27

def itemComments : Item → List Event
  | .misc e => if isComment e then [e] else []
  | .kv _ _ _ => []

theorem vals_no_comment : ∀ (l : List Event), (valsOk l = true ∨ contOk l = true) → commentsOf l = [] := by
  intro l
  induction l with
  | nil => intro _; rfl
  | cons y t ih =>
    intro hl
    have hy : isComment y = false ∧ (t = [] ∨ contOk t = true) := by
      rcases hl with hl | hl
      · unfold valsOk at hl
        split at hl
        · rename_i heq; simp at heq; obtain ⟨rfl, rfl⟩ := heq; exact ⟨rfl, Or.inl rfl⟩
        · rename_i heq; simp at heq; obtain ⟨rfl, rfl⟩ := heq; exact ⟨rfl, Or.inr hl⟩
        · simp at hl
      · unfold contOk at hl
        split at hl
        · rename_i heq; simp at heq; obtain ⟨rfl, rfl⟩ := heq; exact ⟨rfl, Or.inl rfl⟩
        · rename_i heq; simp at heq; obtain ⟨rfl, rfl⟩ := heq; exact ⟨rfl, Or.inr hl⟩
        · rename_i heq; simp at heq; obtain ⟨rfl, rfl⟩ := heq; exact ⟨rfl, Or.inr hl⟩
        · simp at hl
    simp only [commentsOf, List.filter_cons, hy.1, Bool.false_eq_true, ↓reduceIte]
    rcases hy.2 with h0 | hc
    · subst h0; rfl
    · exact ih (Or.inr hc)

theorem mid_no_comment (mid : List Event) (h : mid.all isMid = true) : commentsOf mid = [] := by
  induction mid with
  | nil => rfl
  | cons e t ih =>
    simp only [List.all_cons, Bool.and_eq_true] at h
    have := ih h.2
    cases e <;> simp [isMid, evIsWs] at h <;> simp [commentsOf, isComment] at this ⊢ <;> exact this

theorem item_comments (it : Item) (h : it.ok = true) : commentsOf it.events = itemComments it := by
  cases it with
  | misc e => by_cases hc : isComment e = true <;> simp [Item.events, commentsOf, itemComments, hc]
  | kv k mid vals =>
    simp only [Item.ok, Bool.and_eq_true] at h
    have h1 := mid_no_comment mid h.1.1
    have h2 := vals_no_comment vals (Or.inl h.1.2)
    simp only [commentsOf] at h1 h2
    simp [Item.events, commentsOf, itemComments, isComment, List.filter_append, h1, h2]

/-- the comments of a well-formed body are those of its `misc` items: keys and values hold none -/
theorem comments_flatten (is : List Item) (hok : ∀ i ∈ is, i.ok = true) :
    commentsOf (flatten is) = is.flatMap itemComments := by
  induction is with
  | nil => rfl
  | cons it is ih =>
    have := ih (fun i hi => hok i (by simp [hi]))
    have h1 := item_comments it (hok it (by simp))
    simp only [commentsOf, flatten] at this h1 ⊢
    simp [List.filter_append, this, h1]

theorem take_drop_item (pre : List Event) (k : Bytes) (mid vals post : List Event) (x : Event) :
    (pre ++ (.name k :: (mid ++ vals)) ++ post).take (pre.length + 1 + mid.length) ++ [x] ++
      (pre ++ (.name k :: (mid ++ vals)) ++ post).drop (pre.length + 1 + mid.length + vals.length) =
    pre ++ (.name k :: (mid ++ [x])) ++ post := by
  have e2 : pre ++ Event.name k :: (mid ++ vals) ++ post = (pre ++ (.name k :: mid)) ++ (vals ++ post) := by simp
  have l1 : pre.length + 1 + mid.length = (pre ++ (.name k :: mid)).length := by simp; omega
  rw [e2, l1, List.take_left]
  have : (pre ++ Event.name k :: mid ++ (vals ++ post)).drop ((pre ++ Event.name k :: mid).length + vals.length) = post := by
    rw [← List.drop_drop, List.drop_left, List.drop_left]
  rw [this]
  simp

/-- `set` on a well-formed body: either the key is absent (and `set` pushes), or the LAST item with
the key keeps its name and what stands between name and value, and its value events become the
one new value event. Nothing else changes. -/
theorem setBody_items (w : Ws) (nl : Bytes) (key value : Bytes) (is : List Item) (hok : ∀ i ∈ is, i.ok = true) :
    (keyAndValueRange key (flatten is) = none ∧ (∀ it ∈ is, it.matches key = false)) ∨
    (∃ sp : KeySplit key is, setBody w nl (flatten is) key value =
      flatten (sp.pre ++ .kv sp.k sp.mid [.value (escapeValue value)] :: sp.post)) := by
  rcases keyAndValueRange_wf key is hok with ⟨hn, hall⟩ | ⟨sp, hsp⟩
  · exact Or.inl ⟨hn, hall⟩
  · right
    refine ⟨sp, ?_⟩
    obtain ⟨pre, k, mid, vals, post, his, hk, hpost⟩ := sp
    subst his
    simp only at hsp ⊢
    have hlen1 : (mid.any (· == Event.sep) || vals.length == 1) = true := by
      have := hok (.kv k mid vals) (by simp)
      simp only [Item.ok, Bool.and_eq_true] at this
      exact this.2
    rw [setBody_present w nl _ key value _ _ _ hsp]
    have hbody : flatten (pre ++ .kv k mid vals :: post) = flatten pre ++ (.name k :: (mid ++ vals)) ++ flatten post := by
      simp [flatten, Item.events]
    have hst : (((if mid.any (· == Event.sep) = true then
          some ((flatten pre).length + 1 + mid.length, (flatten pre).length + 1 + mid.length + vals.length)
        else none) : Option (Nat × Nat)).getD
          ((flatten pre).length + 1 + mid.length + vals.length - 1, (flatten pre).length + 1 + mid.length + vals.length)) =
        ((flatten pre).length + 1 + mid.length, (flatten pre).length + 1 + mid.length + vals.length) := by
      by_cases hs : mid.any (· == Event.sep) = true
      · simp [hs]
      · simp only [hs, Bool.false_eq_true, ↓reduceIte, Option.getD_none]
        simp only [hs, Bool.false_or, beq_iff_eq] at hlen1
        rw [hlen1]; simp
    rw [hst, hbody]
    simp only
    rw [take_drop_item]
    simp [flatten, Item.events]

/-- drop a trailing whitespace item -/
def dropWsEnd (pre : List Item) : List Item :=
  match pre.getLast? with
  | some (.misc e) => if evIsWs e then pre.dropLast else pre
  | _ => pre

/-- drop a leading newline item -/
def dropNlHead : List Item → List Item
  | .misc e :: r => if evIsNewline e then r else .misc e :: r
  | l => l

theorem vals_last_not_ws : ∀ (l : List Event), (valsOk l = true ∨ contOk l = true) →
    l ≠ [] ∧ l.getLast?.any evIsWs = false := by
  intro l
  induction l with
  | nil => intro h; rcases h with h | h <;> simp [valsOk, contOk] at h
  | cons y t ih =>
    intro hl
    refine ⟨by simp, ?_⟩
    have hy : evIsWs y = false ∧ (t = [] ∨ contOk t = true) := by
      rcases hl with hl | hl
      · unfold valsOk at hl
        split at hl
        · rename_i heq; simp at heq; obtain ⟨rfl, rfl⟩ := heq; exact ⟨rfl, Or.inl rfl⟩
        · rename_i heq; simp at heq; obtain ⟨rfl, rfl⟩ := heq; exact ⟨rfl, Or.inr hl⟩
        · simp at hl
      · unfold contOk at hl
        split at hl
        · rename_i heq; simp at heq; obtain ⟨rfl, rfl⟩ := heq; exact ⟨rfl, Or.inl rfl⟩
        · rename_i heq; simp at heq; obtain ⟨rfl, rfl⟩ := heq; exact ⟨rfl, Or.inr hl⟩
        · rename_i heq; simp at heq; obtain ⟨rfl, rfl⟩ := heq; exact ⟨rfl, Or.inr hl⟩
        · simp at hl
    rcases hy.2 with h0 | hc
    · subst h0; simp [hy.1]
    · obtain ⟨hne, hl2⟩ := ih (Or.inr hc)
      rw [List.getLast?_cons_of_ne_nil hne]  -- last of y :: t is last of t
      exact hl2


theorem getLast?_append_ne {α} (a b : List α) (h : b ≠ []) : (a ++ b).getLast? = b.getLast? := by
  rw [List.getLast?_append]
  cases hb : b.getLast? with
  | none => simp [List.getLast?_eq_none_iff] at hb; exact absurd hb h
  | some x => simp

theorem eq_nil_or_snoc {α} (l : List α) : l = [] ∨ ∃ p x, l = p ++ [x] := by
  rcases List.eq_nil_or_concat l with h | ⟨p, x, h⟩
  · exact Or.inl h
  · exact Or.inr ⟨p, x, by rw [h, List.concat_eq_append]⟩

theorem eraseIdx_last {α} : ∀ (a : List α), a.eraseIdx (a.length - 1) = a.dropLast := by
  intro a
  induction a with
  | nil => rfl
  | cons x t ih =>
    cases t with
    | nil => rfl
    | cons y u => simp at ih ⊢; exact ih

theorem getElem?_append_at_length {α} (a b : List α) : (a ++ b)[a.length]? = b.head? := by
  rw [List.getElem?_append_right (Nat.le_refl _)]
  simp [List.head?_eq_getElem?]

/-- the last event of a well-formed run of items is a whitespace event only if the last item is one -/
theorem flatten_last_ws (pre : List Item) (hok : ∀ i ∈ pre, i.ok = true) :
    (flatten pre).getLast?.any evIsWs = true ↔ ∃ p e, pre = p ++ [.misc e] ∧ evIsWs e = true := by
  rcases eq_nil_or_snoc pre with rfl | ⟨p, it, rfl⟩
  · simp [flatten]
  · have hit := hok it (by simp)
    have hfl : flatten (p ++ [it]) = flatten p ++ it.events := by simp [flatten]
    rw [hfl]
    cases it with
    | misc e =>
      simp only [Item.events]
      rw [getLast?_append_ne _ _ (by simp)]
      constructor
      · intro h; exact ⟨p, e, rfl, by simpa using h⟩
      · rintro ⟨p', e', heq, he⟩
        have := List.append_inj_right' heq (by simp)
        simp at this; subst this; simpa using he
    | kv k mid vals =>
      simp only [Item.ok, Bool.and_eq_true] at hit
      obtain ⟨hne, hl⟩ := vals_last_not_ws vals (Or.inl hit.1.2)
      have hev : (Item.kv k mid vals).events = (.name k :: mid) ++ vals := by simp [Item.events]
      rw [hev, ← List.append_assoc, getLast?_append_ne _ _ hne, hl]
      constructor
      · intro h; exact absurd h (by simp)
      · rintro ⟨p', e', heq, _⟩
        have := List.append_inj_right' heq (by simp)
        simp at this

theorem eraseIdx_append_last {α} (a b : List α) (ha : a ≠ []) : (a ++ b).eraseIdx (a.length - 1) = a.dropLast ++ b := by
  have hlen : a.length - 1 < a.length := by
    have : 0 < a.length := List.length_pos_iff.mpr ha
    omega
  rw [List.eraseIdx_append_of_lt_length hlen]
  rw [eraseIdx_last]

/-- `remove` on a well-formed body: the LAST item with the key disappears, together with a
whitespace item right before it and a newline item right after it, if they are there -/
theorem removeInternal_items (pre : List Item) (k : Bytes) (mid vals : List Event) (post : List Item)
    (hok : ∀ i ∈ pre ++ .kv k mid vals :: post, i.ok = true) :
    removeInternal (flatten (pre ++ .kv k mid vals :: post)) (flatten pre).length
        ((flatten pre).length + 1 + mid.length + vals.length) true =
      flatten (dropWsEnd pre ++ dropNlHead post) := by
  have hbody : flatten (pre ++ .kv k mid vals :: post) =
      (flatten pre ++ (.name k :: (mid ++ vals))) ++ flatten post := by simp [flatten, Item.events]
  have hl : (flatten pre).length + 1 + mid.length + vals.length = (flatten pre ++ (.name k :: (mid ++ vals))).length := by
    simp; omega
  unfold removeInternal
  simp only [Bool.true_and]
  rw [hbody, hl, getElem?_append_at_length]
  -- what follows the range
  have hpost : ((flatten post).head?.any evIsNewline = true ∧ ∃ e r, post = .misc e :: r ∧ evIsNewline e = true) ∨
      ((flatten post).head?.any evIsNewline = false ∧ dropNlHead post = post) := by
    cases post with
    | nil => right; simp [flatten, dropNlHead]
    | cons it r =>
      cases it with
      | misc e =>
        by_cases he : evIsNewline e = true
        · left; exact ⟨by simp [flatten, Item.events, he], e, r, rfl, he⟩
        · right; simp [flatten, Item.events, he, dropNlHead]
      | kv k2 m2 v2 => right; simp [flatten, Item.events, dropNlHead, evIsNewline]
  -- the events up to the range end, then those after the (possibly removed) newline
  have hb2 : ∀ (P : List Event),
      ((flatten pre ++ (.name k :: (mid ++ vals))) ++ P).take (flatten pre).length ++
        ((flatten pre ++ (.name k :: (mid ++ vals))) ++ P).drop (flatten pre ++ (.name k :: (mid ++ vals))).length =
      flatten pre ++ P := by
    intro P
    rw [List.drop_left, List.append_assoc, List.take_left]
  have hfinal : ∀ (P : List Event),
      (if (decide ((flatten pre).length > 0) && (flatten pre ++ P)[(flatten pre).length - 1]?.any evIsWs) = true
        then (flatten pre ++ P).eraseIdx ((flatten pre).length - 1) else flatten pre ++ P) =
      flatten (dropWsEnd pre) ++ P := by
    intro P
    by_cases hpre : flatten pre = []
    · have : dropWsEnd pre = pre ∨ flatten (dropWsEnd pre) = [] := by
        unfold dropWsEnd
        split
        · split
          · right
            rename_i e heq hws
            -- pre ends in a misc item, so flatten pre is not empty: contradiction
            exfalso
            obtain ⟨p, hp⟩ : ∃ p, pre = p ++ [.misc e] := by
              rcases eq_nil_or_snoc pre with rfl | ⟨p, it, rfl⟩
              · simp at heq
              · simp at heq; subst heq; exact ⟨p, rfl⟩
            rw [hp] at hpre; simp [flatten, Item.events] at hpre
          · left; rfl
        · left; rfl
      rcases this with h | h
      · rw [h, hpre]; simp
      · rw [h, hpre]; simp
    · have hpos : 0 < (flatten pre).length := List.length_pos_iff.mpr hpre
      have hget : (flatten pre ++ P)[(flatten pre).length - 1]? = (flatten pre).getLast? := by
        rw [List.getElem?_append_left (by omega), List.getLast?_eq_getElem?]
      rw [hget]
      have hokpre : ∀ i ∈ pre, i.ok = true := fun i hi => hok i (by simp [hi])
      by_cases hws : (flatten pre).getLast?.any evIsWs = true
      · obtain ⟨p, e, hp, he⟩ := (flatten_last_ws pre hokpre).mp hws
        have hd : dropWsEnd pre = p := by
          unfold dropWsEnd; rw [hp]; simp [he]
        simp only [hws, hpos, decide_true, Bool.and_self, ↓reduceIte]
        rw [eraseIdx_append_last _ _ hpre, hd, hp]
        simp [flatten, Item.events]
      · have hd : dropWsEnd pre = pre := by
          unfold dropWsEnd
          split
          · rename_i e heq
            split
            · rename_i he
              exfalso; apply hws
              apply (flatten_last_ws pre hokpre).mpr
              rcases eq_nil_or_snoc pre with rfl | ⟨p, it, rfl⟩
              · simp at heq
              · simp at heq; subst heq; exact ⟨p, e, rfl, he⟩
            · rfl
          · rfl
        simp only [hws, Bool.and_false, Bool.false_eq_true, ↓reduceIte, hd]
  rcases hpost with ⟨hnl, e, r, rfl, he⟩ | ⟨hnl, hd⟩
  · simp only [hnl, ↓reduceIte]
    have hfp : flatten (.misc e :: r) = e :: flatten r := by simp [flatten, Item.events]
    rw [hfp]
    have herase : ((flatten pre ++ (.name k :: (mid ++ vals))) ++ e :: flatten r).eraseIdx
        (flatten pre ++ (.name k :: (mid ++ vals))).length =
        (flatten pre ++ (.name k :: (mid ++ vals))) ++ flatten r := by
      rw [List.eraseIdx_append_of_length_le (Nat.le_refl _)]; simp
    rw [herase, hb2, hfinal]
    simp [dropNlHead, he, flatten]
  · simp only [hnl, Bool.false_eq_true, ↓reduceIte]
    rw [hb2, hfinal, hd]
    simp [flatten]

/-- what an edit does to one body: it stays well formed and keeps its comments -/
def BodyStep (b b' : List Event) : Prop := WFb b → (WFb b' ∧ commentsOf b' = commentsOf b)

theorem seps_mid (w : Ws) : w.seps.all isMid = true ∧ w.seps.any (· == Event.sep) = true := by
  unfold Ws.seps
  cases w.preSep <;> cases w.postSep <;> simp [isMid, evIsWs]

theorem pushSuffix_wf (w : Ws) (nl : Bytes) (body : List Event) (key : Bytes) (value : Option Bytes) :
    WFb (pushSuffix w nl body key value) := by
  unfold pushSuffix
  have h1 : WFb (nlIfComment nl body) := by
    unfold nlIfComment
    split
    · exact WFb_misc _ (by simp [evIsNewline])
    · exact WFb_nil
  have h2 : WFb w.preKeyEvs := by
    unfold Ws.preKeyEvs
    split
    · exact WFb_misc _ (by simp [evIsWs])
    · exact WFb_nil
  have h3 : WFb ([.name key] ++ valueEvs w value) := by
    unfold valueEvs
    cases value with
    | none =>
      exact ⟨[.kv key [] [.value []]], by intro i hi; simp at hi; subst hi; simp [Item.ok, valsOk],
        by simp [flatten, Item.events]⟩
    | some v =>
      refine ⟨[.kv key w.seps [.value (escapeValue v)]], ?_, by simp [flatten, Item.events]⟩
      intro i hi; simp at hi; subst hi
      simp [Item.ok, valsOk, (seps_mid w).1, (seps_mid w).2]
  have h4 : WFb [Event.newline nl] := WFb_misc _ (by simp [evIsNewline])
  have := WFb_append (WFb_append (WFb_append h1 h2) h3) h4
  simpa [List.append_assoc] using this

theorem pushBody_step (w : Ws) (nl : Bytes) (body : List Event) (key : Bytes) (value : Option Bytes) :
    BodyStep body (pushBody w nl body key value) := by
  intro hb
  refine ⟨WFb_append hb (pushSuffix_wf w nl body key value), ?_⟩
  unfold pushBody
  have := pushSuffix_comments w nl body key value
  simp only [commentsOf, List.filter_append] at this ⊢
  rw [this, List.append_nil]

theorem setBody_step (w : Ws) (nl : Bytes) (body : List Event) (key value : Bytes) :
    BodyStep body (setBody w nl body key value) := by
  intro hb
  obtain ⟨is, hok, rfl⟩ := hb
  rcases setBody_items w nl key value is hok with ⟨hn, _⟩ | ⟨sp, hsp⟩
  · rw [setBody_absent w nl _ key value hn]
    exact pushBody_step w nl (flatten is) key (some value) ⟨is, hok, rfl⟩
  · rw [hsp]
    obtain ⟨pre, k, mid, vals, post, his, hk, hpost⟩ := sp
    subst his
    simp only
    have hok' : ∀ i ∈ pre ++ Item.kv k mid [.value (escapeValue value)] :: post, i.ok = true := by
      intro i hi
      simp only [List.mem_append, List.mem_cons] at hi
      rcases hi with hi | rfl | hi
      · exact hok i (by simp [hi])
      · have := hok (.kv k mid vals) (by simp)
        simp only [Item.ok, Bool.and_eq_true] at this ⊢
        exact ⟨⟨this.1.1, rfl⟩, by simp⟩
      · exact hok i (by simp [hi])
    refine ⟨⟨_, hok', rfl⟩, ?_⟩
    rw [comments_flatten _ hok', comments_flatten _ hok]
    simp [itemComments]

theorem dropWsEnd_sub (pre : List Item) : (∀ i ∈ dropWsEnd pre, i ∈ pre) ∧
    (dropWsEnd pre).flatMap itemComments = pre.flatMap itemComments := by
  unfold dropWsEnd
  split
  · rename_i e heq
    split
    · rename_i he
      rcases eq_nil_or_snoc pre with rfl | ⟨p, x, rfl⟩
      · simp at heq
      · simp at heq; subst heq
        refine ⟨by intro i hi; simp at hi ⊢; exact Or.inl hi, ?_⟩
        have : isComment e = false := by cases e <;> simp [evIsWs] at he <;> rfl
        simp [itemComments, this]
    · exact ⟨fun i hi => hi, rfl⟩
  · exact ⟨fun i hi => hi, rfl⟩

theorem dropNlHead_sub (post : List Item) : (∀ i ∈ dropNlHead post, i ∈ post) ∧
    (dropNlHead post).flatMap itemComments = post.flatMap itemComments := by
  cases post with
  | nil => simp [dropNlHead]
  | cons it r =>
    cases it with
    | misc e =>
      by_cases he : evIsNewline e = true
      · have : isComment e = false := by cases e <;> simp [evIsNewline] at he <;> rfl
        simp [dropNlHead, he, itemComments, this]
        intro i hi; exact Or.inr hi
      · simp [dropNlHead, he]
    | kv k m v => simp [dropNlHead]

theorem removeBody_step (body b : List Event) (key : Bytes) (h : removeBody body key = some b) :
    BodyStep body b := by
  intro hb
  obtain ⟨is, hok, rfl⟩ := hb
  unfold removeBody at h
  rcases keyAndValueRange_wf key is hok with ⟨hn, _⟩ | ⟨sp, hsp⟩
  · rw [hn] at h; simp at h
  · rw [hsp] at h
    simp only [Option.some.injEq] at h
    subst h
    obtain ⟨pre, k, mid, vals, post, his, hk, hpost⟩ := sp
    subst his
    simp only
    rw [removeInternal_items pre k mid vals post hok]
    have h1 := dropWsEnd_sub pre
    have h2 := dropNlHead_sub post
    have hok' : ∀ i ∈ dropWsEnd pre ++ dropNlHead post, i.ok = true := by
      intro i hi
      rcases List.mem_append.mp hi with hi | hi
      · exact hok i (by simp [h1.1 i hi])
      · exact hok i (by simp [h2.1 i hi])
    refine ⟨⟨_, hok', rfl⟩, ?_⟩
    rw [comments_flatten _ hok', comments_flatten _ hok]
    simp [List.flatMap_append, h1.2, h2.2, itemComments]

/-- events paired with their indices, starting at `o` -/
def idxFrom (o : Nat) (l : List Event) : List (Nat × Event) := (List.range' o l.length).zip l

theorem indexed_eq_idxFrom (l : List Event) : indexed l = idxFrom 0 l := by
  unfold indexed idxFrom; rw [List.range_eq_range']

theorem idxFrom_cons (o : Nat) (e : Event) (l : List Event) : idxFrom o (e :: l) = (o, e) :: idxFrom (o + 1) l := by
  simp [idxFrom, List.range'_succ]

theorem idxFrom_nil (o : Nat) : idxFrom o [] = [] := rfl

theorem idxFrom_append (o : Nat) (a b : List Event) : idxFrom o (a ++ b) = idxFrom o a ++ idxFrom (o + a.length) b := by
  induction a generalizing o with
  | nil => simp [idxFrom_nil]
  | cons e t ih =>
    simp only [List.cons_append, idxFrom_cons, ih, List.length_cons]
    congr 3; omega

theorem mutRange_mid (key : Bytes) : ∀ (m : List Event) (o : Nat) (rest : List (Nat × Event)) (found : Bool) (idx size : Nat),
    m.all isMid = true →
    mutRange key (idxFrom o m ++ rest) found idx size =
      mutRange key rest found idx (if found then size + m.length else size) := by
  intro m
  induction m with
  | nil => intro o rest found idx size _; cases found <;> simp [idxFrom_nil]
  | cons e m ih =>
    intro o rest found idx size h
    simp only [List.all_cons, Bool.and_eq_true] at h
    obtain ⟨h1, h2⟩ := h
    rw [idxFrom_cons, List.cons_append]
    cases e <;> simp [isMid, evIsWs] at h1
    all_goals
      simp only [mutRange]
      rw [ih (o + 1) rest found idx _ h2]
      cases found
      · simp
      · simp only [↓reduceIte, List.length_cons]
        congr 1; omega

theorem mutRange_cont (key : Bytes) : ∀ (r : List Event) (o : Nat) (rest : List (Nat × Event)) (found : Bool) (idx size : Nat),
    contOk r = true →
    mutRange key (idxFrom o r ++ rest) found idx size =
      mutRange key rest false idx (if found then size + r.length else size) := by
  intro r
  fun_induction contOk r
  · intro o rest found idx size _
    rw [idxFrom_cons, idxFrom_nil]
    cases found <;> simp [mutRange]
  · rename_i c r' ih
    intro o rest found idx size h
    rw [idxFrom_cons, List.cons_append]
    simp only [mutRange]
    rw [ih (o + 1) rest found idx _ h]
    cases found
    · simp
    · simp only [↓reduceIte, List.length_cons]
      congr 1; omega
  · rename_i c r' ih
    intro o rest found idx size h
    rw [idxFrom_cons, List.cons_append]
    simp only [mutRange]
    rw [ih (o + 1) rest found idx _ h]
    cases found
    · simp
    · simp only [↓reduceIte, List.length_cons]
      congr 1; omega
  · intro o rest found idx size h; simp at h

theorem mutRange_vals (key : Bytes) (vals : List Event) (o : Nat) (rest : List (Nat × Event)) (found : Bool)
    (idx size : Nat) (h : valsOk vals = true) :
    mutRange key (idxFrom o vals ++ rest) found idx size =
      mutRange key rest false idx (if found then size + vals.length else size) := by
  unfold valsOk at h
  split at h
  · rw [idxFrom_cons, idxFrom_nil]
    cases found <;> simp [mutRange]
  · rename_i a r
    rw [idxFrom_cons, List.cons_append]
    simp only [mutRange]
    rw [mutRange_cont key r (o + 1) rest found idx _ h]
    cases found
    · simp
    · simp only [↓reduceIte, List.length_cons]
      congr 1; omega
  · simp at h

/-- `(idx, size)` of the last item with the key, if any, else what was there -/
def lastKv (key : Bytes) : List Item → Nat → Nat × Nat → Nat × Nat
  | [], _, cur => cur
  | .misc _ :: r, o, cur => lastKv key r (o + 1) cur
  | .kv k mid vals :: r, o, cur =>
    lastKv key r (o + (1 + mid.length + vals.length))
      (if eqIgnoreCase k key then (o, 1 + mid.length + vals.length) else cur)

/-- the forward scan of `raw_value_mut` on a well-formed body -/
theorem mutRange_items (key : Bytes) : ∀ (is : List Item) (o : Nat) (rest : List (Nat × Event)) (idx size : Nat),
    (∀ i ∈ is, i.ok = true) →
    mutRange key (idxFrom o (flatten is) ++ rest) false idx size =
      mutRange key rest false (lastKv key is o (idx, size)).1 (lastKv key is o (idx, size)).2 := by
  intro is
  induction is with
  | nil => intro o rest idx size _; simp [flatten, idxFrom_nil, lastKv]
  | cons it is ih =>
    intro o rest idx size hok
    have hrest : ∀ i ∈ is, i.ok = true := fun i hi => hok i (by simp [hi])
    have hit := hok it (by simp)
    have hfl : flatten (it :: is) = it.events ++ flatten is := by simp [flatten]
    rw [hfl, idxFrom_append, List.append_assoc]
    cases it with
    | misc e =>
      simp only [Item.ok] at hit
      simp only [Item.events, idxFrom_cons, idxFrom_nil, List.cons_append, List.nil_append, List.length_cons,
        List.length_nil, lastKv]
      have : mutRange key ((o, e) :: (idxFrom (o + (0 + 1)) (flatten is) ++ rest)) false idx size =
          mutRange key (idxFrom (o + 1) (flatten is) ++ rest) false idx size := by
        cases e <;> simp [evIsWs, evIsNewline, isComment] at hit <;> simp [mutRange]
      rw [this, ih (o + 1) rest idx size hrest]
    | kv k mid vals =>
      simp only [Item.ok, Bool.and_eq_true] at hit
      have hev : (Item.kv k mid vals).events = [.name k] ++ (mid ++ vals) := by simp [Item.events]
      have hlen : (Item.kv k mid vals).events.length = 1 + mid.length + vals.length := by
        simp [Item.events]; omega
      rw [hlen, hev, idxFrom_append, idxFrom_cons, idxFrom_nil, idxFrom_append]
      simp only [List.cons_append, List.nil_append, List.append_assoc, List.length_cons, List.length_nil,
        mutRange, lastKv]
      by_cases hm : eqIgnoreCase k key = true
      · simp only [hm, ↓reduceIte]
        rw [mutRange_mid key mid _ _ true o 1 hit.1.1, mutRange_vals key vals _ _ true o _ hit.1.2]
        simp only [↓reduceIte]
        rw [ih _ rest o _ hrest]
      · simp only [hm, Bool.false_eq_true, ↓reduceIte]
        rw [mutRange_mid key mid _ _ false idx size hit.1.1, mutRange_vals key vals _ _ false idx _ hit.1.2]
        simp only [Bool.false_eq_true, ↓reduceIte]
        exact ih _ rest idx size hrest


theorem lastKv_append (key : Bytes) : ∀ (a b : List Item) (o : Nat) (cur : Nat × Nat),
    lastKv key (a ++ b) o cur = lastKv key b (o + (flatten a).length) (lastKv key a o cur) := by
  intro a
  induction a with
  | nil => intro b o cur; simp [flatten, lastKv]
  | cons it a ih =>
    intro b o cur
    cases it with
    | misc e =>
      simp only [List.cons_append, lastKv, ih]
      congr 1
      simp [flatten, Item.events]; omega
    | kv k mid vals =>
      simp only [List.cons_append, lastKv, ih]
      congr 1
      simp [flatten, Item.events]; omega

theorem lastKv_nomatch (key : Bytes) : ∀ (l : List Item) (o : Nat) (cur : Nat × Nat),
    (∀ it ∈ l, it.matches key = false) → lastKv key l o cur = cur := by
  intro l
  induction l with
  | nil => intro o cur _; rfl
  | cons it l ih =>
    intro o cur h
    have hr := ih
    cases it with
    | misc e => simp only [lastKv]; exact ih _ cur (fun x hx => h x (by simp [hx]))
    | kv k mid vals =>
      have hm : eqIgnoreCase k key = false := by simpa [Item.matches] using h (.kv k mid vals) (by simp)
      simp only [lastKv, hm, Bool.false_eq_true, ↓reduceIte]
      exact ih _ cur (fun x hx => h x (by simp [hx]))

theorem lastKv_split (key : Bytes) (pre : List Item) (k : Bytes) (mid vals : List Event) (post : List Item)
    (hk : eqIgnoreCase k key = true) (hpost : ∀ it ∈ post, it.matches key = false) (cur : Nat × Nat) :
    lastKv key (pre ++ .kv k mid vals :: post) 0 cur = ((flatten pre).length, 1 + mid.length + vals.length) := by
  rw [lastKv_append]
  simp only [lastKv, hk, ↓reduceIte, Nat.zero_add]
  exact lastKv_nomatch key post _ _ hpost

/-- `ValueMut::set` (through `set_existing_raw_value`) on a well-formed body: either no item has the
key (size 0: the section is skipped), or the LAST item with the key is rewritten as
`key <separators> <escaped value>` and nothing else changes. -/
theorem valueMutSet_items (w : Ws) (key value : Bytes) (is : List Item) (hok : ∀ i ∈ is, i.ok = true) :
    ((mutRange key (indexed (flatten is)) false 0 0).2 = 0 ∧ ∀ it ∈ is, it.matches key = false) ∨
    (∃ sp : KeySplit key is, (mutRange key (indexed (flatten is)) false 0 0).2 ≠ 0 ∧
      valueMutSet w (flatten is) key value (mutRange key (indexed (flatten is)) false 0 0).1
        (mutRange key (indexed (flatten is)) false 0 0).2 =
      flatten (sp.pre ++ .kv key w.seps.reverse [.value (escapeValue value)] :: sp.post)) := by
  have hscan := mutRange_items key is 0 [] 0 0 hok
  simp only [List.append_nil, mutRange] at hscan
  rw [indexed_eq_idxFrom, hscan]
  rcases keyAndValueRange_wf key is hok with ⟨_, hall⟩ | ⟨sp, _⟩
  · left
    rw [lastKv_nomatch key is 0 (0, 0) hall]
    exact ⟨rfl, hall⟩
  · right
    refine ⟨sp, ?_⟩
    obtain ⟨pre, k, mid, vals, post, his, hk, hpost⟩ := sp
    subst his
    simp only
    rw [lastKv_split key pre k mid vals post hk hpost]
    refine ⟨by simp, ?_⟩
    unfold valueMutSet
    simp only
    have hbody : flatten (pre ++ .kv k mid vals :: post) = flatten pre ++ ((.name k :: (mid ++ vals)) ++ flatten post) := by
      simp [flatten, Item.events]
    have hl : (flatten pre).length + (1 + mid.length + vals.length) =
        (flatten pre).length + (Event.name k :: (mid ++ vals)).length := by simp; omega
    rw [hbody, List.take_left, hl, ← List.drop_drop, List.drop_left, List.drop_left, List.take_left, List.drop_left]
    simp [flatten, Item.events]

theorem valueMutSet_step (key value : Bytes) (body : List Event)
    (hsz : (mutRange key (indexed body) false 0 0).2 ≠ 0) :
    BodyStep body (valueMutSet (Ws.fromBody body) body key value (mutRange key (indexed body) false 0 0).1
      (mutRange key (indexed body) false 0 0).2) := by
  intro hb
  obtain ⟨is, hok, rfl⟩ := hb
  rcases valueMutSet_items (Ws.fromBody (flatten is)) key value is hok with ⟨h0, _⟩ | ⟨sp, _, hsp⟩
  · exact absurd h0 hsz
  · rw [hsp]
    obtain ⟨pre, k, mid, vals, post, his, hk, hpost⟩ := sp
    subst his
    simp only
    have hok' : ∀ i ∈ pre ++ Item.kv key (Ws.fromBody (flatten (pre ++ Item.kv k mid vals :: post))).seps.reverse
        [.value (escapeValue value)] :: post, i.ok = true := by
      intro i hi
      simp only [List.mem_append, List.mem_cons] at hi
      rcases hi with hi | rfl | hi
      · exact hok i (by simp [hi])
      · have hs := seps_mid (Ws.fromBody (flatten (pre ++ Item.kv k mid vals :: post)))
        simp only [Item.ok, Bool.and_eq_true, List.all_reverse, List.any_reverse]
        exact ⟨⟨hs.1, rfl⟩, by simp [hs.2]⟩
      · exact hok i (by simp [hi])
    refine ⟨⟨_, hok', rfl⟩, ?_⟩
    rw [comments_flatten _ hok', comments_flatten _ hok]
    simp [itemComments]

theorem newSection_body {f f' : FileS} {name : Bytes} {sub : Option Bytes} (h : newSection f name sub = .ok f') :
    ∃ s : Sec, f'.sections = f.sections ++ [s] ∧ WFb s.body ∧ commentsOf s.body = [] := by
  unfold newSection at h
  split at h
  · simp at h
  · rename_i hd hh
    simp only [Outcome.ok.injEq] at h
    subst h
    simp only [modifySec_sections, register_sections, List.length_append, List.length_cons, List.length_nil,
      Nat.add_sub_cancel, Nat.zero_add]
    rw [modify_last]
    exact ⟨_, rfl, by simpa using WFb_misc (.newline _) (by simp [evIsNewline]), by simp [commentsOf, isComment]⟩

/-- one successful in-scope call, at the level of bodies: one section's body makes a `BodyStep`
(or only its header changes), or a well-formed comment-free section is appended (and possibly
`set` into), or a section is removed -/
theorem apply_step (f f' : FileS) (op : Op) (h : apply f op = .ok f') :
    (∃ i g, f'.sections = f.sections.modify i g ∧ ∀ s, BodyStep s.body (g s).body) ∨
    (∃ s, f'.sections = f.sections ++ [s] ∧ WFb s.body ∧ commentsOf s.body = []) ∨
    (op.isRemoveSection = true ∧ ∃ i, f'.sections = f.sections.eraseIdx i) := by
  cases op with
  | setExisting sec sub key value =>
    simp only [apply] at h
    split at h
    · simp at h
    · rename_i ids _
      split at h
      · simp at h
      · rename_i i hfind
        simp only [Outcome.ok.injEq] at h; subst h
        have hsz : (mutRange key (indexed (bodyAt f i)) false 0 0).2 ≠ 0 := by
          have := List.find?_some hfind
          simpa using this
        left
        refine ⟨i, fun (s : Sec) => if s.body = bodyAt f i then { s with body := valueMutSet (Ws.fromBody s.body) s.body key value (mutRange key (indexed (bodyAt f i)) false 0 0).1 (mutRange key (indexed (bodyAt f i)) false 0 0).2 } else s, ?_, ?_⟩
        · simp only [modifySec_sections]
          apply List.ext_getElem?
          intro j
          rw [List.getElem?_modify, List.getElem?_modify]
          cases hj : f.sections[j]? with
          | none => rfl
          | some s =>
            by_cases hij : i = j
            · subst hij
              have : bodyAt f i = s.body := by simp [bodyAt, hj]
              simp [this]
            · simp [hij]
        · intro s
          by_cases hsb : s.body = bodyAt f i
          · simp only [hsb, ↓reduceIte]
            have := valueMutSet_step key value (bodyAt f i) hsz
            exact this
          · simp only [hsb, ↓reduceIte]
            intro hw; exact ⟨hw, rfl⟩
  | set sec sub key value =>
    simp only [apply] at h
    split at h
    · simp at h
    · split at h
      · simp at h
      · simp at h
      · rename_i f1 i htarget
        simp only [Outcome.ok.injEq] at h
        subst h
        have key' : (f1 = f) ∨ (∃ s, f1.sections = f.sections ++ [s] ∧ i = f.sections.length ∧ WFb s.body ∧ commentsOf s.body = []) := by
          revert htarget
          split
          · split
            · intro hh; simp at hh; exact Or.inl hh.1.symm
            · split
              · rename_i f2 hn
                intro hh; simp at hh
                obtain ⟨s, hs', hw, hc⟩ := newSection_body hn
                refine Or.inr ⟨s, ?_, ?_, hw, hc⟩
                · rw [← hh.1]; exact hs'
                · rw [← hh.2, hs']; simp
              · intro hh; simp at hh
              · intro hh; simp at hh
          · split
            · rename_i f2 hn
              intro hh; simp at hh
              obtain ⟨s, hs', hw, hc⟩ := newSection_body hn
              refine Or.inr ⟨s, ?_, ?_, hw, hc⟩
              · rw [← hh.1]; exact hs'
              · rw [← hh.2, hs']; simp
            · intro hh; simp at hh
            · intro hh; simp at hh
        rcases key' with rfl | ⟨s, hs', hi, hw, hc⟩
        · left
          exact ⟨i, _, rfl, fun s => setBody_step _ _ _ _ _⟩
        · right; left
          simp only [modifySec_sections, hs', hi]
          rw [modify_last]
          have := setBody_step (Ws.fromBody s.body) f1.nl s.body key value hw
          exact ⟨_, rfl, this.1, by rw [this.2, hc]⟩
  | push sec sub key value =>
    simp only [apply] at h
    split at h
    · simp at h
    · simp at h
    · split at h
      · simp at h
      · simp only [Outcome.ok.injEq] at h; subst h
        left; exact ⟨_, _, rfl, fun s => pushBody_step _ _ _ _ _⟩
  | remove sec sub key =>
    simp only [apply] at h
    split at h
    · simp at h
    · simp at h
    · rename_i i _
      split at h
      · simp at h
      · rename_i b hb
        simp only [Outcome.ok.injEq] at h; subst h
        left
        -- only the addressed section gets the new body; express it as a function of the old body
        refine ⟨i, fun s => if s.body = bodyAt f i then { s with body := b } else s, ?_, ?_⟩
        · simp only [modifySec_sections]
          apply List.ext_getElem?
          intro j
          rw [List.getElem?_modify, List.getElem?_modify]
          cases hj : f.sections[j]? with
          | none => rfl
          | some s =>
            by_cases hij : i = j
            · subst hij
              have : bodyAt f i = s.body := by simp [bodyAt, hj]
              simp [this]
            · simp [hij]
        · intro s
          by_cases hsb : s.body = bodyAt f i
          · simp only [hsb, ↓reduceIte]
            have hb' : removeBody s.body key = some b := by rw [hsb]; exact hb
            have := removeBody_step _ _ _ hb'
            rw [hsb] at this
            exact this
          · simp only [hsb, ↓reduceIte]
            intro hw; exact ⟨hw, rfl⟩
  | newSection name sub =>
    simp only [apply] at h
    right; left
    exact newSection_body h
  | removeSection name sub =>
    simp only [apply] at h
    split at h
    · simp at h
    · split at h
      · simp at h
      · simp only [Outcome.ok.injEq] at h; subst h
        right; right; exact ⟨rfl, _, rfl⟩
  | rename name sub newName newSub =>
    simp only [apply] at h
    split at h
    · simp at h
    · simp at h
    · split at h
      · simp at h
      · simp only [Outcome.ok.injEq] at h; subst h
        left
        exact ⟨_, _, rfl, fun s hw => ⟨hw, rfl⟩⟩

theorem mem_modify {α} (l : List α) (i : Nat) (g : α → α) (x : α) (h : x ∈ l.modify i g) :
    x ∈ l ∨ ∃ y ∈ l, x = g y := by
  obtain ⟨j, hj⟩ := List.getElem?_of_mem h
  rw [List.getElem?_modify] at hj
  cases hl : l[j]? with
  | none => simp [hl] at hj
  | some y =>
    have hy : y ∈ l := List.mem_of_getElem? hl
    rw [hl] at hj
    by_cases hij : i = j
    · simp [hij] at hj
      exact Or.inr ⟨y, hy, hj.symm⟩
    · simp [hij] at hj
      exact Or.inl (hj ▸ hy)

/-- ALL in-scope edit histories keep every body well formed -/
theorem applyAll_wf : ∀ (ops : List Op) (f : FileS),
    (∀ s ∈ f.sections, WFb s.body) → ∀ s ∈ (applyAll f ops).sections, WFb s.body := by
  intro ops
  induction ops with
  | nil => intro f hw; exact hw
  | cons op rest ih =>
    intro f hw
    simp only [applyAll]
    split
    · rename_i f1 h
      apply ih f1
      rcases apply_step f f1 op h with ⟨i, g, hm, hg⟩ | ⟨s, ha, hws, _⟩ | ⟨_, i, he⟩
      · intro s hs
        rw [hm] at hs
        rcases mem_modify _ _ _ _ hs with h1 | ⟨y, hy, rfl⟩
        · exact hw s h1
        · exact (hg y (hw y hy)).1
      · intro x hx
        rw [ha] at hx
        rcases List.mem_append.mp hx with h1 | h1
        · exact hw x h1
        · simp at h1; subst h1; exact hws
      · intro x hx
        rw [he] at hx
        exact hw x (List.mem_of_mem_eraseIdx hx)
    · exact ih f hw

theorem map_modify_comments (l : List Sec) (i : Nat) (g : Sec → Sec) (hw : ∀ s ∈ l, WFb s.body)
    (hg : ∀ s, BodyStep s.body (g s).body) :
    (l.modify i g).map (fun s => commentsOf s.body) = l.map (fun s => commentsOf s.body) := by
  apply List.ext_getElem?
  intro j
  simp only [List.getElem?_map, List.getElem?_modify]
  cases hj : l[j]? with
  | none => rfl
  | some s =>
    have hs : s ∈ l := List.mem_of_getElem? hj
    by_cases hij : i = j
    · simp [hij, (hg s (hw s hs)).2]
    · simp [hij]

/-- ALL in-scope edit histories without `remove_section` keep, for every section that was there at
the start, exactly its comments, in order (sections added later come after them) -/
theorem applyAll_comments : ∀ (ops : List Op) (f : FileS),
    (∀ op ∈ ops, op.isRemoveSection = false) → (∀ s ∈ f.sections, WFb s.body) →
    (∀ s ∈ (applyAll f ops).sections, WFb s.body) ∧
    (applyAll f ops).comments.take f.sections.length = f.comments := by
  intro ops
  induction ops with
  | nil =>
    intro f _ hw
    refine ⟨hw, ?_⟩
    simp only [applyAll, FileS.comments]
    exact List.take_of_length_le (by simp)
  | cons op rest ih =>
    intro f hnr hw
    have hnrest : ∀ o ∈ rest, o.isRemoveSection = false := fun o ho => hnr o (by simp [ho])
    simp only [applyAll]
    split
    · rename_i f1 h
      rcases apply_step f f1 op h with ⟨i, g, hm, hg⟩ | ⟨s, ha, hws, hcs⟩ | ⟨hrm, _⟩
      · have hw1 : ∀ s ∈ f1.sections, WFb s.body := by
          intro s hs
          rw [hm] at hs
          rcases mem_modify _ _ _ _ hs with h1 | ⟨y, hy, rfl⟩
          · exact hw s h1
          · exact (hg y (hw y hy)).1
        obtain ⟨hwf, hc⟩ := ih f1 hnrest hw1
        refine ⟨hwf, ?_⟩
        have hlen : f1.sections.length = f.sections.length := by rw [hm, List.length_modify]
        rw [hlen] at hc
        rw [hc]
        simp only [FileS.comments, hm]
        exact map_modify_comments _ _ _ hw hg
      · have hw1 : ∀ x ∈ f1.sections, WFb x.body := by
          intro x hx
          rw [ha] at hx
          rcases List.mem_append.mp hx with h1 | h1
          · exact hw x h1
          · simp at h1; subst h1; exact hws
        obtain ⟨hwf, hc⟩ := ih f1 hnrest hw1
        refine ⟨hwf, ?_⟩
        have hlen : f1.sections.length = f.sections.length + 1 := by rw [ha]; simp
        have : (applyAll f1 rest).comments.take f.sections.length =
            ((applyAll f1 rest).comments.take f1.sections.length).take f.sections.length := by
          rw [List.take_take, hlen]; congr 1; omega
        rw [this, hc]
        simp [FileS.comments, ha]
      · have := hnr op (by simp)
        rw [this] at hrm; exact absurd hrm (by simp)
    · exact ih f hnrest hw

theorem load_foldl_bodies : ∀ (l : List Section) (acc : FileS),
    (l.foldl (fun acc s => register { acc with sections := acc.sections ++
        [{ header := s.header, body := s.body, regName := lowerName s.header.name, regSub := s.header.sub }] } s.header) acc).sections.map (·.body)
      = acc.sections.map (·.body) ++ l.map (·.body) := by
  intro l
  induction l with
  | nil => intro acc; simp
  | cons s t ih =>
    intro acc
    simp only [List.foldl_cons]
    rw [ih]
    simp [register]

/-- every body of a file loaded from text is well formed -/
theorem load_wf {bs : Bytes} {f : FileS} (h : load bs = some f) : ∀ s ∈ f.sections, WFb s.body := by
  unfold load at h
  simp only [Option.map_eq_some_iff] at h
  obtain ⟨file, hf, rfl⟩ := h
  intro s hs
  have hb := load_foldl_bodies file.sections { front := file.front, sections := [], reg := [] }
  simp only [List.map_nil, List.nil_append] at hb
  have : s.body ∈ file.sections.map (·.body) := by
    rw [← hb]; exact List.mem_map_of_mem hs
  obtain ⟨sec, hsec, hbody⟩ := List.mem_map.mp this
  rw [← hbody]
  exact fileFromBytes_wf hf sec hsec

def itemEntry (h : Header) : Item → Option Entry
  | .kv k _ vals => some { sect := h.name, sub := h.sub, key := k, value := valText vals }
  | .misc _ => none

theorem bodyEntries_mid (h : Header) : ∀ (m rest : List Event) (cur : Option Bytes) (acc : Bytes),
    m.all isMid = true → bodyEntries h (m ++ rest) cur acc = bodyEntries h rest cur acc := by
  intro m
  induction m with
  | nil => intro rest cur acc _; rfl
  | cons e m ih =>
    intro rest cur acc hm
    simp only [List.all_cons, Bool.and_eq_true] at hm
    have := ih rest cur acc hm.2
    cases e <;> simp [isMid, evIsWs] at hm <;> cases cur <;> simp [bodyEntries, this]

theorem bodyEntries_cont (h : Header) (k : Bytes) : ∀ (r rest : List Event) (acc : Bytes), contOk r = true →
    bodyEntries h (r ++ rest) (some k) acc =
      { sect := h.name, sub := h.sub, key := k, value := acc ++ valText r } :: bodyEntries h rest none [] := by
  intro r
  fun_induction contOk r
  · intro rest acc _; simp [bodyEntries, valText]
  · rename_i c r' ih
    intro rest acc hc
    simp only [List.cons_append, bodyEntries]
    rw [ih rest (acc ++ c) hc]
    simp [valText]
  · rename_i c r' ih
    intro rest acc hc
    simp only [List.cons_append, bodyEntries]
    rw [ih rest acc hc]
    simp [valText]
  · intro rest acc hc; simp at hc

/-- the entries of a well-formed body: one per key item, with the concatenated text of its value events -/
theorem bodyEntries_items (h : Header) : ∀ (is : List Item) (rest : List Event), (∀ i ∈ is, i.ok = true) →
    bodyEntries h (flatten is ++ rest) none [] = is.filterMap (itemEntry h) ++ bodyEntries h rest none [] := by
  intro is
  induction is with
  | nil => intro rest _; simp [flatten]
  | cons it is ih =>
    intro rest hok
    have hrest : ∀ i ∈ is, i.ok = true := fun i hi => hok i (by simp [hi])
    have hit := hok it (by simp)
    have hfl : flatten (it :: is) ++ rest = it.events ++ (flatten is ++ rest) := by simp [flatten]
    rw [hfl]
    cases it with
    | misc e =>
      simp only [Item.ok] at hit
      have : bodyEntries h (Item.events (.misc e) ++ (flatten is ++ rest)) none [] =
          bodyEntries h (flatten is ++ rest) none [] := by
        cases e <;> simp [evIsWs, evIsNewline, isComment] at hit <;> simp [Item.events, bodyEntries]
      rw [this, ih rest hrest]
      simp [List.filterMap_cons, itemEntry]
    | kv k mid vals =>
      simp only [Item.ok, Bool.and_eq_true] at hit
      simp only [Item.events, List.cons_append, List.append_assoc, bodyEntries]
      rw [bodyEntries_mid h mid _ _ _ hit.1.1]
      have hv : bodyEntries h (vals ++ (flatten is ++ rest)) (some k) [] =
          { sect := h.name, sub := h.sub, key := k, value := valText vals } :: bodyEntries h (flatten is ++ rest) none [] := by
        have hvo := hit.1.2
        unfold valsOk at hvo
        split at hvo
        · simp [bodyEntries, valText]
        · rename_i a r
          simp only [List.cons_append, bodyEntries]
          rw [bodyEntries_cont h k r _ _ hvo]
          simp [valText]
        · simp at hvo
      rw [hv, ih rest hrest]
      simp [List.filterMap_cons, itemEntry]

theorem entries_items (h : Header) (is : List Item) (hok : ∀ i ∈ is, i.ok = true) :
    bodyEntries h (flatten is) none [] = is.filterMap (itemEntry h) := by
  have := bodyEntries_items h is [] hok
  simpa [bodyEntries] using this

/-- `set` in terms of entries: the entries before the last one with the key, that entry with the
new (escaped) value text, the entries after it — nothing else -/
theorem set_entries (h : Header) (w : Ws) (nl : Bytes) (key value : Bytes) (is : List Item)
    (hok : ∀ i ∈ is, i.ok = true) (sp : KeySplit key is)
    (hset : setBody w nl (flatten is) key value =
      flatten (sp.pre ++ .kv sp.k sp.mid [.value (escapeValue value)] :: sp.post)) :
    bodyEntries h (flatten is) none [] =
      sp.pre.filterMap (itemEntry h) ++ [{ sect := h.name, sub := h.sub, key := sp.k, value := valText sp.vals }] ++
        sp.post.filterMap (itemEntry h) ∧
    bodyEntries h (setBody w nl (flatten is) key value) none [] =
      sp.pre.filterMap (itemEntry h) ++ [{ sect := h.name, sub := h.sub, key := sp.k, value := escapeValue value }] ++
        sp.post.filterMap (itemEntry h) := by
  obtain ⟨pre, k, mid, vals, post, his, hk, hpost⟩ := sp
  subst his
  simp only at hset ⊢
  have hok' : ∀ i ∈ pre ++ Item.kv k mid [.value (escapeValue value)] :: post, i.ok = true := by
    intro i hi
    simp only [List.mem_append, List.mem_cons] at hi
    rcases hi with hi | rfl | hi
    · exact hok i (by simp [hi])
    · have := hok (.kv k mid vals) (by simp)
      simp only [Item.ok, Bool.and_eq_true] at this ⊢
      exact ⟨⟨this.1.1, rfl⟩, by simp⟩
    · exact hok i (by simp [hi])
  constructor
  · rw [entries_items h _ hok]; simp [List.filterMap_append, itemEntry]
  · rw [hset, entries_items h _ hok']; simp [List.filterMap_append, itemEntry, valText]


theorem dropWsEnd_entries (h : Header) (pre : List Item) :
    (dropWsEnd pre).filterMap (itemEntry h) = pre.filterMap (itemEntry h) := by
  unfold dropWsEnd
  split
  · rename_i e heq
    split
    · rcases eq_nil_or_snoc pre with rfl | ⟨p, x, rfl⟩
      · simp at heq
      · simp at heq; subst heq; simp [List.filterMap_append, itemEntry]
    · rfl
  · rfl

theorem dropNlHead_entries (h : Header) (post : List Item) :
    (dropNlHead post).filterMap (itemEntry h) = post.filterMap (itemEntry h) := by
  cases post with
  | nil => rfl
  | cons it r =>
    cases it with
    | misc e => by_cases he : evIsNewline e = true <;> simp [dropNlHead, he, List.filterMap_cons, itemEntry]
    | kv k m v => rfl

/-- `remove` in terms of entries: exactly the last entry with the key disappears -/
theorem remove_entries (h : Header) (pre : List Item) (k : Bytes) (mid vals : List Event) (post : List Item)
    (hok : ∀ i ∈ pre ++ .kv k mid vals :: post, i.ok = true) :
    bodyEntries h (flatten (pre ++ .kv k mid vals :: post)) none [] =
      pre.filterMap (itemEntry h) ++ [{ sect := h.name, sub := h.sub, key := k, value := valText vals }] ++
        post.filterMap (itemEntry h) ∧
    bodyEntries h (removeInternal (flatten (pre ++ .kv k mid vals :: post)) (flatten pre).length
        ((flatten pre).length + 1 + mid.length + vals.length) true) none [] =
      pre.filterMap (itemEntry h) ++ post.filterMap (itemEntry h) := by
  constructor
  · rw [entries_items h _ hok]; simp [List.filterMap_append, itemEntry]
  · rw [removeInternal_items pre k mid vals post hok]
    have h1 := dropWsEnd_sub pre
    have h2 := dropNlHead_sub post
    have hok' : ∀ i ∈ dropWsEnd pre ++ dropNlHead post, i.ok = true := by
      intro i hi
      rcases List.mem_append.mp hi with hi | hi
      · exact hok i (by simp [h1.1 i hi])
      · exact hok i (by simp [h2.1 i hi])
    rw [entries_items h _ hok', List.filterMap_append, dropWsEnd_entries, dropNlHead_entries]

end GixModel.C28
