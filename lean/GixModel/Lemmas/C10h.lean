import GixModel.Lemmas.C10g
/-
C10 — every `next()` of `LookupRefDeltaObjectsIter` (as repaired) keeps `BInv`: the entry it yields points
at its base.
-/
namespace GixModel.C10

/-- the entry `shift_entry_and_point_to_base_by_offset` produces -/
def pointed (st : IState) (i : Nat) (e : InEntry) (dist : Nat) : OutEntry :=
  { ofs := shifted st e.ofs, hdr := Hdr.ofs dist, hsize := sizeLen e.dsize + ofsLen dist, body := e.body, src := some i }

theorem trackChange_shape (st : IState) (a b : Nat) (d : Int) (o : Option Nat) :
    ∃ r : Option Change, (trackChange st a b d o).out = st.out
      ∧ (trackChange st a b d o).changes = st.changes ++ r.toList
      ∧ (trackChange st a b d o).total = st.total + sumDeltas r.toList
      ∧ (∀ c, r = some c → c.packOfs = b ∧ c.shifted = a ∧ c.oid = o ∧ c.delta = d)
      ∧ (r = none → d = 0) ∧ (d ≠ 0 → r.isSome = true) := by
  unfold trackChange
  split
  · rename_i h
    exact ⟨none, rfl, by simp, by simp [sumDeltas_nil], fun c hc => (by cases hc), fun _ => h, fun hd => absurd h hd⟩
  · refine ⟨some { packOfs := b, shifted := a, delta := d, oid := o }, rfl, rfl, ?_, ?_, fun hc => (by cases hc), fun _ => rfl⟩
    · simp [sumDeltas_cons, sumDeltas_nil]
    · intro c hc; cases hc; exact ⟨rfl, rfl, rfl, rfl⟩

theorem shiftAndPoint_shape (st : IState) (i : Nat) (e : InEntry) (dist : Nat) :
    ∃ r : Option Change, (shiftAndPoint st i e dist).out = st.out ++ [pointed st i e dist]
      ∧ (shiftAndPoint st i e dist).changes = st.changes ++ r.toList
      ∧ (shiftAndPoint st i e dist).total = st.total + sumDeltas r.toList
      ∧ (∀ c, r = some c → c.packOfs = e.ofs ∧ c.oid = none ∧ c.shifted = (pointed st i e dist).ofs)
      ∧ (sizeLen e.dsize + ofsLen dist ≠ e.hsize → r.isSome = true) := by
  unfold shiftAndPoint
  obtain ⟨r, h1, h2, h3, h4, _, h6⟩ := trackChange_shape
    { st with out := st.out ++ [pointed st i e dist] } (shifted st e.ofs) e.ofs
    (((sizeLen e.dsize + ofsLen dist : Nat) : Int) - (e.hsize : Int)) none
  refine ⟨r, h1, h2, h3, ?_, ?_⟩
  · intro c hc
    obtain ⟨a, b, c', _⟩ := h4 c hc
    exact ⟨a, c', b⟩
  · intro hne
    apply h6
    omega

variable {entries : List InEntry} {start : Nat} {odb : Nat → Option (Nat × Nat)}

/-- the offsets, bases and headers of the thin pack are those of a pack: every ofs-delta leads to an
earlier entry, a ref-delta header is the size followed by the 20 byte id, no entry is empty -/
structure ThinOk (entries : List InEntry) : Prop where
  strict : StrictOfs entries
  ofs : ∀ (i : Nat) (e : InEntry) (d : Nat), entries[i]? = some e → e.hdr = Hdr.ofs d →
    ∃ (b : Nat) (eb : InEntry), entries[b]? = some eb ∧ eb.ofs = e.ofs - d ∧ b < i ∧ d ≤ e.ofs
  ref : ∀ (i : Nat) (e : InEntry) (id : Nat), entries[i]? = some e → e.hdr = Hdr.ref id →
    e.hsize = sizeLen e.dsize + 20
  pos : ∀ (i : Nat) (e : InEntry), entries[i]? = some e → 0 < e.hsize + e.body

/-- the case without an inserted base: the entry goes to the current end, pointing `dist` back -/
theorem BInv.point {st : IState} {i : Nat} {e : InEntry} (tk : ThinOk entries)
    (inv : BInv entries start st i e.ofs) (he : entries[i]? = some e) (dist : Nat)
    (hI : IInv start (shiftAndPoint st i e dist) (e.ofs + e.hsize + e.body))
    (hpts : ∀ out', (∀ x, x ∈ st.out → x ∈ out') → pointed st i e dist ∈ out' →
      PointsOk entries out' (pointed st i e dist)) :
    BInv entries start (shiftAndPoint st i e dist) (i + 1) (e.ofs + e.hsize + e.body) := by
  obtain ⟨r, h1, h2, h3, h4, _⟩ := shiftAndPoint_shape st i e dist
  apply inv.extend tk.strict he (tk.pos i e he) none (pointed st i e dist) none r
  · rw [h1]; simp
  · rw [h2]; simp
  · rw [h3]; simp [sumDeltas_nil]
  · exact hI
  · intro b hb; cases hb
  · rfl
  · intro c hc; cases hc
  · intro b hb; cases hb
  · show 0 < sizeLen e.dsize + ofsLen dist + e.body
    unfold sizeLen; omega
  · exact h4
  · intro h; cases h
  · intro _ _; exact inv.shifted_int
  · apply hpts
    · intro x hx; rw [h1]; exact List.mem_append_left _ hx
    · rw [h1]; simp

theorem injectOne_binv {st st' : IState} {i : Nat} {e : InEntry} (tk : ThinOk entries)
    (hodb : ∀ id bh bb, odb id = some (bh, bb) → 0 < bh + bb)
    (inv : BInv entries start st i e.ofs) (he : entries[i]? = some e)
    (h : injectOne Fix.repaired odb st i e = some st') :
    BInv entries start st' (i + 1) (e.ofs + e.hsize + e.body) := by
  have hI := injectOne_inv inv.base h
  have hpos := tk.pos i e he
  cases hh : e.hdr with
  | base =>
    simp only [injectOne, hh] at h
    cases h
    -- a base object moves with everything inserted before it
    have hofs : (if isActive Fix.repaired st = true then shifted st e.ofs else e.ofs) = shifted st e.ofs := by
      split
      · rfl
      · rename_i hact
        have ht := inactive_total inv.base Fix.repaired (by simpa using hact)
        simp [shifted, ht]
    apply inv.extend tk.strict he hpos none
      { ofs := if isActive Fix.repaired st = true then shifted st e.ofs else e.ofs, hdr := Hdr.base,
        hsize := e.hsize, body := e.body, src := some i } none none
    · simp
    · simp
    · simp [sumDeltas_nil]
    · exact hI
    · intro b hb; cases hb
    · rfl
    · intro c hc; cases hc
    · intro b hb; cases hb
    · exact hpos
    · intro c hc; cases hc
    · intro hc; cases hc
    · intro _ _; show ((if isActive Fix.repaired st = true then shifted st e.ofs else e.ofs : Nat) : Int) = _
      rw [hofs]; exact inv.shifted_int
    · unfold PointsOk
      exact ⟨e, he, by rw [hh]⟩
  | ofs d0 =>
    obtain ⟨b, eb, hb, hbo, hbi, hd0⟩ := tk.ofs i e d0 he hh
    obtain ⟨ob, hob, hobs⟩ := inv.out_of_src b hbi
    have hoble := inv.ofs_le ob hob
    simp only [injectOne, hh] at h
    split at h
    · -- entries were moved before: re-point
      try dsimp only at h
      split at h
      · rename_i idx hfind
        split at h
        · rename_i ch hch
          cases h
          -- the record found is the one of the base entry itself
          obtain ⟨i0, c0, hc0, hk0, hcase⟩ := findAt_some _ _ _ hfind
          have hchk : ch.packOfs = e.ofs - d0 ∧ ch.oid = none := by
            rcases hcase with ⟨hidx, hnext⟩ | ⟨hidx, c1, hc1, hk1⟩
            · subst hidx
              rw [hc0] at hch; cases hch
              refine ⟨hk0, ?_⟩
              cases ho : ch.oid with
              | none => rfl
              | some id =>
                obtain ⟨c', h1, h2, _⟩ := inv.adj idx ch id hc0 ho
                exact absurd (h2.trans hk0) (hnext c' h1)
            · subst hidx
              rw [hc1] at hch; cases hch
              refine ⟨hk1, ?_⟩
              cases ho : ch.oid with
              | none => rfl
              | some id =>
                obtain ⟨c2, h1, h2, h3⟩ := inv.adj (i0 + 1) ch id hc1 ho
                cases ho0 : c0.oid with
                | none =>
                  have := inv.uniqOwn i0 (i0 + 1 + 1) c0 c2 hc0 h1 ho0 h3 (by rw [hk0, h2, hk1])
                  omega
                | some id0 =>
                  obtain ⟨c1', h1', _, h3'⟩ := inv.adj i0 c0 id0 hc0 ho0
                  rw [hc1] at h1'; cases h1'
                  rw [ho] at h3'; cases h3'
          obtain ⟨oe, hoe, j, ej, hj1, hj2, hj3, hj4⟩ := inv.own ch (List.mem_of_getElem? hch) hchk.2
          -- … which is the entry `b`
          have hjb : j = b := by
            have hjlt := inv.src_lt oe hoe j hj1
            have heq : ej.ofs = eb.ofs := by rw [← hj3, hchk.1, hbo]
            rcases Nat.lt_trichotomy j b with hlt | heq' | hgt
            · have := tk.strict j b ej eb hlt hj2 hb; omega
            · exact heq'
            · have := tk.strict b j eb ej hgt hb hj2; omega
          subst hjb
          have hoele := inv.ofs_le oe hoe
          apply inv.point tk he _ hI
          intro out' hsub _
          unfold PointsOk
          refine ⟨e, he, ?_⟩
          rw [hh]
          exact ⟨_, j, eb, oe, rfl, hb, hbo, hsub oe hoe, hj1, by
            show oe.ofs + (shifted st e.ofs - ch.shifted) = shifted st e.ofs
            rw [hj4]; omega⟩
        · cases h
      · rename_i hfind
        cases h
        -- no record at the base: it only moved by what was recorded before it
        have hnone := findAt_none _ _ hfind
        have hno : ∀ c ∈ st.changes, c.packOfs ≠ eb.ofs := by rw [hbo]; exact hnone
        have hN := inv.noRec ob hob b eb hobs hb hno
        have hsplit := drop_takeWhile_length (fun c : Change => decide (c.packOfs < e.ofs - d0)) st.changes
        have hsum : sumDeltas st.changes
            = sumDeltas (st.changes.takeWhile fun c => decide (c.packOfs < e.ofs - d0))
              + sumDeltas (st.changes.drop (insertionPoint st.changes (e.ofs - d0))) := by
          rw [← sumDeltas_append]
          unfold insertionPoint
          rw [hsplit]
        have hX := inv.shifted_int
        rw [inv.total, hsum] at hX
        rw [hbo] at hN
        apply inv.point tk he _ hI
        intro out' hsub _
        unfold PointsOk
        refine ⟨e, he, ?_⟩
        rw [hh]
        refine ⟨_, b, eb, ob, rfl, hb, hbo, hsub ob hob, hobs, ?_⟩
        show ob.ofs + ((d0 : Int) + sumDeltas (st.changes.drop (insertionPoint st.changes (e.ofs - d0)))).toNat
          = shifted st e.ofs
        omega
    · -- nothing was inserted so far: the entry stays as it is
      rename_i hact
      cases h
      have hch : st.changes = [] := by
        simpa [isActive] using hact
      have ht := inv.base.noChange hch
      have hN := inv.noRec ob hob b eb hobs hb (by rw [hch]; intro c hc; cases hc)
      rw [hch] at hN
      simp only [List.takeWhile_nil, sumDeltas_nil] at hN
      apply inv.extend tk.strict he hpos none
        { ofs := e.ofs, hdr := Hdr.ofs d0, hsize := e.hsize, body := e.body, src := some i } none none
      · simp
      · simp
      · simp [sumDeltas_nil]
      · exact hI
      · intro b' hb'; cases hb'
      · rfl
      · intro c hc; cases hc
      · intro b' hb'; cases hb'
      · exact hpos
      · intro c hc; cases hc
      · intro hc; cases hc
      · intro _ _; show (e.ofs : Int) = e.ofs + st.total
        rw [ht]; omega
      · unfold PointsOk
        refine ⟨e, he, ?_⟩
        rw [hh]
        refine ⟨d0, b, eb, ob, rfl, hb, hbo, ?_, hobs, ?_⟩
        · simp [hob]
        · show ob.ofs + d0 = e.ofs
          omega
  | ref id =>
    have hrefh := tk.ref i e id he hh
    simp only [injectOne, hh] at h
    split at h
    · -- the base was not inserted before
      split at h
      · rename_i bh bb hodb'
        cases h
        -- the inserted base …
        let B : OutEntry := { ofs := shifted st e.ofs, hdr := Hdr.base, hsize := bh, body := bb, src := none, baseId := some id }
        obtain ⟨rb, t1, t2, t3, t4, _, _⟩ := trackChange_shape { st with out := st.out ++ [B] } (shifted st e.ofs) e.ofs
          ((bh + bb : Nat) : Int) (some id)
        let st1 := trackChange { st with out := st.out ++ [B] } (shifted st e.ofs) e.ofs ((bh + bb : Nat) : Int) (some id)
        have hI1 : IInv start st1 e.ofs := inv.base.push B rfl _ _ _ _ _ (by show ((bh + bb : Nat) : Int) + (e.ofs : Int) = (e.ofs : Int) + ((bh + bb : Nat) : Int); omega)
        -- … and the entry behind it
        obtain ⟨ro, s1, s2, s3, s4, s5⟩ := shiftAndPoint_shape st1 i e (bh + bb)
        have hXofs : (pointed st1 i e (bh + bb)).ofs = B.ofs + (bh + bb) := by
          show shifted st1 e.ofs = shifted st e.ofs + (bh + bb)
          rw [shifted_eq_end hI1]
          show endOf st1.out start = _
          have : st1.out = st.out ++ [B] := t1
          rw [this, endOf_snoc]
          show shifted st e.ofs + bh + bb = shifted st e.ofs + (bh + bb)
          omega
        have hro : ro.isSome = true := by
          apply s5
          have := ofsLen_le (bh + bb)
          omega
        apply inv.extend tk.strict he hpos (some B) (pointed st1 i e (bh + bb)) rb ro
        · show (shiftAndPoint st1 i e (bh + bb)).out = _
          rw [s1]; show st1.out ++ _ = _
          have : st1.out = st.out ++ [B] := t1
          rw [this]; simp
        · show (shiftAndPoint st1 i e (bh + bb)).changes = _
          rw [s2]; show st1.changes ++ _ = _
          have : st1.changes = st.changes ++ rb.toList := t2
          rw [this]
        · show (shiftAndPoint st1 i e (bh + bb)).total = _
          rw [s3]; show st1.total + _ = _
          have : st1.total = st.total + sumDeltas rb.toList := t3
          rw [this]
        · exact hI
        · intro b hb; cases hb; exact ⟨rfl, rfl⟩
        · rfl
        · intro c hc
          obtain ⟨c1, c2, c3, _⟩ := t4 c hc
          exact ⟨c1, ⟨id, c3⟩, B, rfl, c2.symm, c3.symm⟩
        · intro b hb; cases hb; exact hodb id bh bb hodb'
        · show 0 < sizeLen e.dsize + ofsLen (bh + bb) + e.body
          unfold sizeLen; omega
        · exact s4
        · intro _; exact hro
        · intro _ hron; rw [hron] at hro; cases hro
        · unfold PointsOk
          refine ⟨e, he, ?_⟩
          rw [hh]
          refine ⟨bh + bb, B, rfl, ?_, rfl, rfl, hXofs.symm⟩
          show B ∈ (shiftAndPoint st1 i e (bh + bb)).out
          rw [s1]; show B ∈ st1.out ++ _
          have : st1.out = st.out ++ [B] := t1
          rw [this]; simp
      · cases h
    · -- the base was inserted for an earlier entry
      rename_i ch hfind
      cases h
      obtain ⟨hmem, hoid⟩ := rfindOid_spec _ _ _ hfind
      obtain ⟨ob, hob, hobs, hobo, hobid⟩ := inv.baseRec ch hmem id hoid
      have hoble := inv.ofs_le ob hob
      apply inv.point tk he _ hI
      intro out' hsub _
      unfold PointsOk
      refine ⟨e, he, ?_⟩
      rw [hh]
      refine ⟨_, ob, rfl, hsub ob hob, hobs, hobid, ?_⟩
      show ob.ofs + (shifted st e.ofs - ch.shifted) = shifted st e.ofs
      rw [← hobo]; omega

end GixModel.C10
