import GixModel.Spec.C38
/-
C38 — the two line parsers: on a line without NUL / LF whose pattern is not quoted, git's
`parse_attr_line` (pointer walk with strspn/strcspn/strchr) and gitoxide's `parse_line` + `Iter`
(split at the first blank, `fields`, `splitn(2, '=')`) yield the same line or both drop it.
-/
namespace GixModel.Lemmas.C38
open GixModel GixModel.C38 GixModel.Spec.C38

/-- no NUL and no LF (a line of a file that has no NUL) -/
def NoCtl (s : Bytes) : Prop := ∀ b ∈ s, b ≠ 0 ∧ b ≠ 10

instance (s : Bytes) : Decidable (NoCtl s) := by unfold NoCtl; infer_instance

theorem NoCtl.tail {b : UInt8} {s : Bytes} (h : NoCtl (b :: s)) : NoCtl s := fun x hx => h x (by simp [hx])

theorem isBlankC_eq (b : UInt8) (h : b ≠ 10) : isBlankC b = isBlank b := by
  unfold isBlankC isBlank
  have : (b == 10) = false := by simpa using h
  simp [this]

theorem cstr_eq (s : Bytes) (h : NoCtl s) : cstr s = s := by
  unfold cstr
  induction s with
  | nil => rfl
  | cons b s ih =>
    have hb := (h b (by simp)).1
    simp only [List.takeWhile_cons, bne_iff_ne, ne_eq, hb, not_false_eq_true, decide_true, if_true]
    rw [ih h.tail]

theorem skipBlank_eq (s : Bytes) (h : NoCtl s) : skipBlank s = s.dropWhile isBlank := by
  unfold skipBlank
  induction s with
  | nil => rfl
  | cons b s ih =>
    have hb := (h b (by simp)).2
    simp only [List.dropWhile_cons, isBlankC_eq b hb]
    split
    · exact ih h.tail
    · rfl

theorem cspnBlank_eq (s : Bytes) (h : NoCtl s) : cspnBlank s = (s.takeWhile fun b => !isBlank b).length := by
  unfold cspnBlank
  congr 1
  induction s with
  | nil => rfl
  | cons b s ih =>
    have hb := (h b (by simp)).2
    simp only [List.takeWhile_cons, isBlankC_eq b hb]
    split
    · rw [ih h.tail]
    · rfl

theorem mem_takeWhile' {p : UInt8 → Bool} {l : Bytes} {x : UInt8} (h : x ∈ l.takeWhile p) : x ∈ l ∧ p x = true := by
  induction l with
  | nil => simp at h
  | cons b l ih =>
    rw [List.takeWhile_cons] at h
    by_cases hb : p b = true
    · simp only [hb, if_true, List.mem_cons] at h
      rcases h with rfl | h
      · exact ⟨by simp, hb⟩
      · exact ⟨List.mem_cons_of_mem _ (ih h).1, (ih h).2⟩
    · simp [hb] at h

theorem mem_dropWhile' {p : UInt8 → Bool} {l : Bytes} {x : UInt8} (h : x ∈ l.dropWhile p) : x ∈ l := by
  induction l with
  | nil => simp at h
  | cons b l ih =>
    rw [List.dropWhile_cons] at h
    by_cases hb : p b = true
    · simp only [hb, if_true] at h
      exact List.mem_cons_of_mem _ (ih h)
    · simp only [hb] at h
      exact h

theorem NoCtl.dropWhile (p : UInt8 → Bool) {s : Bytes} (h : NoCtl s) : NoCtl (s.dropWhile p) :=
  fun x hx => h x (mem_dropWhile' hx)

theorem NoCtl.takeWhile (p : UInt8 → Bool) {s : Bytes} (h : NoCtl s) : NoCtl (s.takeWhile p) :=
  fun x hx => h x (mem_takeWhile' hx).1

theorem NoCtl.drop (n : Nat) {s : Bytes} (h : NoCtl s) : NoCtl (s.drop n) :=
  fun x hx => h x (List.mem_of_mem_drop hx)

/-! ### tokens -/

/-- all bytes are non-blank -/
def NonBlank (t : Bytes) : Prop := ∀ b ∈ t, isBlank b = false

/-- empty or starting with a blank -/
def BlankStart (r : Bytes) : Prop := r = [] ∨ ∃ b r', r = b :: r' ∧ isBlank b = true

theorem takeWhile_nonblank (t r : Bytes) (ht : NonBlank t) (hr : BlankStart r) :
    (t ++ r).takeWhile (fun b => !isBlank b) = t ∧ (t ++ r).dropWhile (fun b => !isBlank b) = r := by
  induction t with
  | nil =>
    rcases hr with rfl | ⟨b, r', rfl, hb⟩
    · simp
    · simp [hb]
  | cons x t ih =>
    have hx := ht x (by simp)
    obtain ⟨h1, h2⟩ := ih (fun b hb => ht b (by simp [hb]))
    simp [List.takeWhile_cons, List.dropWhile_cons, hx, h1, h2]

theorem split_token (s : Bytes) :
    s = s.takeWhile (fun b => !isBlank b) ++ s.dropWhile (fun b => !isBlank b)
      ∧ NonBlank (s.takeWhile fun b => !isBlank b) ∧ BlankStart (s.dropWhile fun b => !isBlank b) := by
  refine ⟨(List.takeWhile_append_dropWhile).symm, ?_, ?_⟩
  · intro b hb
    have := (mem_takeWhile' hb).2
    simpa using this
  · induction s with
    | nil => exact Or.inl rfl
    | cons b s ih =>
      simp only [List.dropWhile_cons]
      by_cases hb : isBlank b = true
      · simp only [hb, Bool.not_true, Bool.false_eq_true, if_false]
        exact Or.inr ⟨b, s, rfl, hb⟩
      · simp only [hb, Bool.not_false, if_true]
        exact ih

/-! ### `fields` -/

theorem fieldsAux_token (t : Bytes) (ht : NonBlank t) : ∀ (acc rest : Bytes),
    fieldsAux acc (t ++ rest) = fieldsAux (t.reverse ++ acc) rest := by
  induction t with
  | nil => intro acc rest; rfl
  | cons x t ih =>
    intro acc rest
    have hx := ht x (by simp)
    rw [List.cons_append, fieldsAux.eq_def]
    simp only [hx, Bool.false_eq_true, if_false]
    rw [ih (fun b hb => ht b (by simp [hb]))]
    simp

theorem fieldsAux_blanks (r : Bytes) : fieldsAux [] r = fieldsAux [] (r.dropWhile isBlank) := by
  induction r with
  | nil => rfl
  | cons b r ih =>
    by_cases hb : isBlank b = true
    · rw [fieldsAux.eq_def]
      simp only [hb, if_true, List.isEmpty_nil, List.dropWhile_cons]
      exact ih
    · simp [List.dropWhile_cons, hb]

/-- the fields of a string that starts with a token -/
theorem fields_token (t r : Bytes) (hne : t ≠ []) (ht : NonBlank t) (hr : BlankStart r) :
    fields (t ++ r) = t :: fields (r.dropWhile isBlank) := by
  unfold fields
  rw [fieldsAux_token t ht [] r]
  simp only [List.append_nil]
  have hrev : t.reverse.isEmpty = false := by
    cases t with
    | nil => exact absurd rfl hne
    | cons x t => simp
  rcases hr with rfl | ⟨b, r', rfl, hb⟩
  · rw [fieldsAux.eq_def]
    simp [hrev, fieldsAux]
  · rw [fieldsAux.eq_def]
    simp only [hb, if_true, hrev, Bool.false_eq_true, if_false, List.reverse_reverse, List.dropWhile_cons]
    rw [fieldsAux_blanks r']

/-! ### one attribute -/

theorem attrNameValid_eq (n : Bytes) : attrNameValid n = attrValid n := by
  unfold attrNameValid attrValid
  cases n <;> simp

theorem indexOfEq_append (a b : Bytes) :
    indexOfEq (a ++ b) = (indexOfEq a).or ((indexOfEq b).map (· + a.length)) := by
  induction a with
  | nil => simp [indexOfEq]
  | cons x a ih =>
    simp only [List.cons_append, indexOfEq]
    split
    · rfl
    · rw [ih]
      cases indexOfEq a with
      | some k => rfl
      | none =>
        cases indexOfEq b with
        | none => rfl
        | some k => simp [Nat.add_assoc]

theorem indexOfEq_contains (t : Bytes) :
    (t.contains 61 = true → indexOfEq t = some (t.takeWhile (· != 61)).length ∧ (t.takeWhile (· != 61)).length < t.length)
    ∧ (t.contains 61 = false → indexOfEq t = none ∧ t.takeWhile (· != 61) = t) := by
  induction t with
  | nil => simp [indexOfEq]
  | cons x t ih =>
    by_cases hx : x = 61
    · subst hx
      simp [indexOfEq]
    · have hx' : (x == 61) = false := by simpa using hx
      have hc : (x :: t).contains 61 = t.contains 61 := by
        simp only [List.contains_cons]
        have : ((61 : UInt8) == x) = false := by simpa using fun h => hx h.symm
        simp [this]
      rw [hc]
      simp only [indexOfEq, hx', Bool.false_eq_true, if_false, List.takeWhile_cons, bne_iff_ne, ne_eq, hx,
        not_false_eq_true, decide_true, if_true, List.length_cons]
      constructor
      · intro h
        obtain ⟨h1, h2⟩ := ih.1 h
        rw [h1]
        exact ⟨rfl, by simp at h2 ⊢; omega⟩
      · intro h
        obtain ⟨h1, h2⟩ := ih.2 h
        rw [h1]
        exact ⟨rfl, by rw [h2]⟩

theorem take_takeWhile_length (p : UInt8 → Bool) (l m : Bytes) :
    (l ++ m).take (l.takeWhile p).length = l.takeWhile p := by
  induction l with
  | nil => simp
  | cons x l ih =>
    simp only [List.takeWhile_cons, List.cons_append]
    split
    · simp [ih]
    · simp

theorem dropWhile_drop_one (p : UInt8 → Bool) (l : Bytes) :
    (l.dropWhile p).drop 1 = l.drop ((l.takeWhile p).length + 1) := by
  induction l with
  | nil => simp
  | cons x l ih =>
    simp only [List.takeWhile_cons, List.dropWhile_cons]
    split
    · simp [ih]
    · simp

theorem blank_ne_eq (b : UInt8) (h : isBlank b = true) : b ≠ 61 := by
  intro hb; subst hb; simp [isBlank] at h

/-- name and state `parse_attr` computes -/
def specPair (cp : Bytes) (ep len : Nat) (equals : Option Nat) : Bytes × St :=
  match cp with
  | 45 :: r => (r.take (len - 1), St.unset)
  | 33 :: r => (r.take (len - 1), St.unspecified)
  | _ => (cp.take len, match equals with | none => St.set | some e => St.value ((cp.take ep).drop (e + 1)))

def specEquals (cp : Bytes) : Option Nat :=
  match indexOfEq cp with
  | some e => if cspnBlank cp < e then none else some e
  | none => none

def specLen (cp : Bytes) : Nat := match specEquals cp with | some e => e | none => cspnBlank cp

theorem parseAttrC_pair (cp : Bytes) :
    parseAttrC cp =
      if attrNameValid (specPair cp (cspnBlank cp) (specLen cp) (specEquals cp)).1 then
        some (⟨(specPair cp (cspnBlank cp) (specLen cp) (specEquals cp)).1,
               (specPair cp (cspnBlank cp) (specLen cp) (specEquals cp)).2⟩, skipBlank (cp.drop (cspnBlank cp)))
      else none := by
  rfl

/-- name and state `Iter::parse_attr` computes -/
def modelPair (tok : Bytes) : Bytes × St :=
  match tok.takeWhile (· != 61) with
  | 45 :: r => (r, St.unset)
  | 33 :: r => (r, St.unspecified)
  | _ => (tok.takeWhile (· != 61),
      match (if tok.contains 61 then some ((tok.dropWhile (· != 61)).drop 1) else none) with
      | none => St.set | some v => St.value v)

theorem parseAttr_pair (tok : Bytes) :
    parseAttr tok = if attrValid (modelPair tok).1 then some ⟨(modelPair tok).1, (modelPair tok).2⟩ else none := by
  have h : parseAttr tok = (match modelPair tok with
      | (name, st) => if attrValid name then some ⟨name, st⟩ else none) := rfl
  rw [h]

theorem pairs_eq (t r : Bytes) (hne : t ≠ []) (ht : NonBlank t) (hr : BlankStart r) (hc : NoCtl (t ++ r)) :
    specPair (t ++ r) (cspnBlank (t ++ r)) (specLen (t ++ r)) (specEquals (t ++ r)) = modelPair t := by
  obtain ⟨htw, _⟩ := takeWhile_nonblank t r ht hr
  have hep : cspnBlank (t ++ r) = t.length := by rw [cspnBlank_eq _ hc, htw]
  have htake : (t ++ r).take t.length = t := List.take_left' rfl
  have hidx_r : ∀ k, indexOfEq r = some k → 1 ≤ k := by
    intro k hk
    rcases hr with rfl | ⟨b, r', rfl, hb⟩
    · simp [indexOfEq] at hk
    · have hb61 := blank_ne_eq b hb
      have : (b == 61) = false := by simpa using hb61
      simp only [indexOfEq, this, Bool.false_eq_true, if_false] at hk
      cases hi : indexOfEq r' with
      | none => simp [hi] at hk
      | some j => simp [hi] at hk; omega
  -- what git takes for `equals` and `len`
  have heq : specEquals (t ++ r) = if t.contains 61 then some (t.takeWhile (· != 61)).length else none := by
    unfold specEquals
    rw [indexOfEq_append, hep]
    by_cases hcont : t.contains 61 = true
    · obtain ⟨hi, hlt⟩ := (indexOfEq_contains t).1 hcont
      have hnlt : ¬ (t.length < (t.takeWhile (· != 61)).length) := by omega
      have hmem : (61 : UInt8) ∈ t := by simpa using hcont
      simp [hi, hmem, hnlt]
    · have hcont' : t.contains 61 = false := by simpa using hcont
      obtain ⟨hi, _⟩ := (indexOfEq_contains t).2 hcont'
      rw [hi]
      simp only [Option.none_or, hcont', Bool.false_eq_true, if_false]
      cases hir : indexOfEq r with
      | none => rfl
      | some k =>
        have := hidx_r k hir
        simp only [Option.map_some]
        have : t.length < k + t.length := by omega
        simp [this]
  have hlen : specLen (t ++ r) = (t.takeWhile (· != 61)).length := by
    unfold specLen
    rw [heq, hep]
    by_cases hcont : t.contains 61 = true
    · have hmem : (61 : UInt8) ∈ t := by simpa using hcont
      simp [hmem]
    · have hcont' : t.contains 61 = false := by simpa using hcont
      simp only [hcont', Bool.false_eq_true, if_false]
      rw [((indexOfEq_contains t).2 hcont').2]
  rw [heq, hlen, hep]
  cases t with
  | nil => exact absurd rfl hne
  | cons x t' =>
    unfold specPair modelPair
    simp only [List.cons_append]
    by_cases h45 : x = 45
    · subst h45
      have h1 : ((45 : UInt8) :: t').takeWhile (· != 61) = 45 :: t'.takeWhile (· != 61) := by
        simp [List.takeWhile_cons]
      simp only [h1, List.length_cons, Nat.add_sub_cancel]
      rw [take_takeWhile_length]
    · by_cases h33 : x = 33
      · subst h33
        have h1 : ((33 : UInt8) :: t').takeWhile (· != 61) = 33 :: t'.takeWhile (· != 61) := by
          simp [List.takeWhile_cons]
        simp only [h1, List.length_cons, Nat.add_sub_cancel]
        rw [take_takeWhile_length]
      · have htk : (x :: (t' ++ r)).take ((x :: t').takeWhile (· != 61)).length = (x :: t').takeWhile (· != 61) := by
          have := take_takeWhile_length (· != 61) (x :: t') r
          simpa using this
        have hval : ((x :: t').drop (((x :: t').takeWhile (· != 61)).length + 1))
            = ((x :: t').dropWhile (· != 61)).drop 1 := (dropWhile_drop_one _ _).symm
        have htk2 : (x :: (t' ++ r)).take (x :: t').length = x :: t' := by
          have := htake; simpa using this
        split
        · rename_i heq'; injection heq' with h1 _; exact absurd h1 h45
        · rename_i heq'; injection heq' with h1 _; exact absurd h1 h33
        · rw [htk, htk2]
          -- the model's match takes the default branch as well
          have hm : ∀ (f g : Bytes → Bytes × St) (h : Bytes × St), (match (x :: t').takeWhile (· != 61) with
              | 45 :: r => f r | 33 :: r => g r | _ => h) = h := by
            intro f g h
            by_cases hx61 : x = 61
            · subst hx61; simp
            · have h1 : (x :: t').takeWhile (· != 61) = x :: t'.takeWhile (· != 61) := by
                simp [List.takeWhile_cons, hx61]
              rw [h1]
              split
              · rename_i heq'; injection heq' with h1 _; exact absurd h1 h45
              · rename_i heq'; injection heq' with h1 _; exact absurd h1 h33
              · rfl
          rw [hm]
          by_cases hcont : (x :: t').contains 61 = true
          · simp only [hcont, if_true, hval]
          · simp only [hcont, Bool.false_eq_true, if_false]

/-- `parse_attr` at the start of a token is `Iter::parse_attr` on that token -/
theorem parseAttrC_token (t r : Bytes) (hne : t ≠ []) (ht : NonBlank t) (hr : BlankStart r) (hc : NoCtl (t ++ r)) :
    parseAttrC (t ++ r) = (parseAttr t).map fun a => (a, r.dropWhile isBlank) := by
  obtain ⟨htw, _⟩ := takeWhile_nonblank t r ht hr
  have hep : cspnBlank (t ++ r) = t.length := by rw [cspnBlank_eq _ hc, htw]
  have hrc : NoCtl r := fun x hx => hc x (by simp [hx])
  have hnext : skipBlank ((t ++ r).drop (cspnBlank (t ++ r))) = r.dropWhile isBlank := by
    rw [hep, List.drop_left' rfl, skipBlank_eq r hrc]
  rw [parseAttrC_pair, parseAttr_pair, pairs_eq t r hne ht hr hc, hnext, attrNameValid_eq]
  split <;> rfl

/-! ### all attributes of a line -/

theorem allSome_cons' {α : Type} (x : Option α) (l : List (Option α)) :
    allSome (x :: l) = x.bind fun a => (allSome l).map (a :: ·) := by
  cases x <;> rfl

/-- non-empty strings that start with a non-blank, or the empty string -/
def TokenStart (s : Bytes) : Prop := s = [] ∨ ∃ x s', s = x :: s' ∧ isBlank x = false

theorem tokenStart_dropWhile (r : Bytes) : TokenStart (r.dropWhile isBlank) := by
  induction r with
  | nil => exact Or.inl rfl
  | cons b r ih =>
    rw [List.dropWhile_cons]
    by_cases hb : isBlank b = true
    · simp only [hb, if_true]; exact ih
    · simp only [hb]
      exact Or.inr ⟨b, r, rfl, by simpa using hb⟩

theorem length_dropWhile_le (p : UInt8 → Bool) (r : Bytes) : (r.dropWhile p).length ≤ r.length := by
  induction r with
  | nil => simp
  | cons b r ih =>
    rw [List.dropWhile_cons]
    split
    · simp only [List.length_cons]; omega
    · exact Nat.le_refl _

theorem parseStatesC_cons (f : Nat) (x : UInt8) (s : Bytes) :
    parseStatesC (f + 1) (x :: s) = match parseAttrC (x :: s) with
      | none => none
      | some (a, next) => (parseStatesC f next).map (a :: ·) := by
  rw [parseStatesC] <;> first | rfl | simp

/-- git's loop over the states is gitoxide's `fields` + `parse_attr` -/
theorem parseStatesC_eq : ∀ (n : Nat) (s : Bytes), s.length ≤ n → NoCtl s → TokenStart s →
    ∀ fuel, s.length + 1 ≤ fuel → parseStatesC fuel s = allSome ((fields s).map parseAttr) := by
  intro n
  induction n with
  | zero =>
    intro s hl _ _ fuel hf
    have : s = [] := List.eq_nil_of_length_eq_zero (by omega)
    subst this
    cases fuel with
    | zero => omega
    | succ f => rfl
  | succ n ih =>
    intro s hl hc hts fuel hf
    cases fuel with
    | zero => omega
    | succ f =>
      rcases hts with rfl | ⟨x, s', rfl, hx⟩
      · rfl
      · obtain ⟨hsplit, hnb, hbs⟩ := split_token (x :: s')
        generalize ht : (x :: s').takeWhile (fun b => !isBlank b) = t at hsplit hnb
        generalize hr : (x :: s').dropWhile (fun b => !isBlank b) = r at hsplit hbs
        have htne : t ≠ [] := by
          rw [← ht, List.takeWhile_cons]
          simp [hx]
        rw [parseStatesC_cons]
        have hc' : NoCtl (t ++ r) := hsplit ▸ hc
        rw [hsplit, parseAttrC_token t r htne hnb hbs hc', fields_token t r htne hnb hbs]
        simp only [List.map_cons]
        rw [allSome_cons']
        have hlen : (r.dropWhile isBlank).length ≤ n := by
          have h1 := length_dropWhile_le isBlank r
          have h2 : (x :: s').length = t.length + r.length := by rw [hsplit]; simp
          have h3 : 1 ≤ t.length := by
            cases t with
            | nil => exact absurd rfl htne
            | cons _ _ => simp
          simp only [List.length_cons] at hl h2
          omega
        have hrc : NoCtl r := fun y hy => hc' y (by simp [hy])
        have hfl : (r.dropWhile isBlank).length + 1 ≤ f := by
          have h2 : (x :: s').length = t.length + r.length := by rw [hsplit]; simp
          have h1 := length_dropWhile_le isBlank r
          have h3 : 1 ≤ t.length := by
            cases t with
            | nil => exact absurd rfl htne
            | cons _ _ => simp
          simp only [List.length_cons] at hf h2
          omega
        have := ih (r.dropWhile isBlank) hlen (hrc.dropWhile isBlank) (tokenStart_dropWhile r) f hfl
        cases hpa : parseAttr t with
        | none => rfl
        | some a =>
          simp only [Option.map_some, Option.bind_some]
          rw [this]

/-! ### the whole line -/

theorem nonblank_self (x : Bytes) (hx : NonBlank x) (hc : NoCtl x) :
    skipBlank x = x ∧ x.take (cspnBlank x) = x := by
  have h1 : x.dropWhile isBlank = x := by
    cases x with
    | nil => rfl
    | cons b x => simp [List.dropWhile_cons, hx b (by simp)]
  have h2 : x.takeWhile (fun b => !isBlank b) = x := by
    clear h1 hc
    induction x with
    | nil => rfl
    | cons b x ih =>
      rw [List.takeWhile_cons]
      simp only [hx b (by simp), Bool.not_false, if_true]
      rw [ih (fun y hy => hx y (by simp [hy]))]
  rw [skipBlank_eq x hc, h1, cspnBlank_eq x hc, h2]
  exact ⟨rfl, List.take_length⟩

/-- **the line parsers agree** on a line without NUL / LF whose pattern is not quoted -/
theorem parseLine_eq_git (line : Bytes) (no : Nat) (hc : NoCtl line)
    (hq : (line.dropWhile isBlank).head? ≠ some 34) :
    parseAttrLineC true line no = parseLine line no := by
  unfold parseAttrLineC parseLine
  simp only [cstr_eq line hc, skipBlank_eq line hc]
  generalize hl : line.dropWhile isBlank = l at hq
  have hlc : NoCtl l := hl ▸ hc.dropWhile isBlank
  by_cases hemp : l.isEmpty = true
  · simp only [hemp, if_true]; split <;> rfl
  · simp only [hemp, Bool.false_eq_true, if_false]
    by_cases h35 : (l.head? == some 35) = true
    · simp only [h35, if_true]; split <;> rfl
    · simp only [h35, Bool.false_eq_true, if_false]
      by_cases hlong : line.length ≥ maxLineLen
      · simp only [hlong, if_true]
      · simp only [hlong, if_false]
        have h34b : (l.head? == some 34) = false := by
          cases hh : l.head? with
          | none => rfl
          | some x => rw [hh] at hq; simp; intro hx; exact hq (by rw [hx])
        simp only [h34b, Bool.false_eq_true, if_false]
        obtain ⟨hsplit, hnb, hbs⟩ := split_token l
        rw [cspnBlank_eq l hlc]
        generalize ht : l.takeWhile (fun b => !isBlank b) = t at hsplit hnb
        have htd : l.take t.length = t := by
          conv => lhs; rw [hsplit]
          exact List.take_left' rfl
        have hdd : l.drop t.length = l.dropWhile (fun b => !isBlank b) := by
          conv => lhs; rw [hsplit]
          exact List.drop_left' rfl
        rw [htd, hdd]
        generalize hr : l.dropWhile (fun b => !isBlank b) = r at hsplit hbs
        have htc : NoCtl t := fun y hy => hlc y (by rw [hsplit]; simp [hy])
        have hrc : NoCtl r := fun y hy => hlc y (by rw [hsplit]; simp [hy])
        -- the attributes
        have hstates : parseStatesC ((skipBlank r).length + 1) (skipBlank r) = parseAttrs r := by
          rw [skipBlank_eq r hrc]
          unfold parseAttrs
          rw [parseStatesC_eq _ _ (Nat.le_refl _) (hrc.dropWhile isBlank) (tokenStart_dropWhile r) _ (Nat.le_refl _)]
          unfold fields
          rw [← fieldsAux_blanks r]
        rw [hstates]
        -- the macro name
        have hd : NonBlank (t.drop macroPrefix.length) := fun b hb => hnb b (List.mem_of_mem_drop hb)
        obtain ⟨h1, h2⟩ := nonblank_self (t.drop macroPrefix.length) hd (htc.drop _)
        rw [h1, h2, attrNameValid_eq]
        have hcomm : (decide (macroPrefix.length < t.length) && macroPrefix.isPrefixOf t)
            = (macroPrefix.isPrefixOf t && decide (t.length > macroPrefix.length)) := by
          rw [Bool.and_comm]
        rw [hcomm]
        simp only [Bool.not_true, Bool.false_eq_true, if_false, Bool.and_eq_true, decide_eq_true_eq, gt_iff_lt]
        congr

/-! ### quoted patterns -/

/-- whatever git's `unquote_c_style` accepts, `gix_quote::ansi_c::undo` reads the same way -/
theorem undoBody_of_unquote (l : Bytes) : ∀ (u r : Bytes), unquoteBody l = some (u, r) →
    ∃ n, undoBody l = some (u, n) ∧ l.drop n = r := by
  fun_induction unquoteBody l with
  | case1 => intro u r h; simp at h
  | case2 rest => intro u r h; simp at h; obtain ⟨rfl, rfl⟩ := h; exact ⟨1, by simp [undoBody], by simp⟩
  | case3 => intro u r h; simp at h
  | case4 c rest e he ih =>
    intro u r h
    cases hb : unquoteBody rest with
    | none => simp [hb] at h
    | some p =>
      obtain ⟨o, r'⟩ := p
      simp [hb] at h
      obtain ⟨rfl, rfl⟩ := h
      obtain ⟨n, hn, hd⟩ := ih o r' hb
      refine ⟨n + 2, ?_, by simpa using hd⟩
      rw [undoBody.eq_def]
      simp [he, hn]
  | case5 c hesc hrange d1 d2 rest2 hoct ih =>
    intro u r h
    cases hb : unquoteBody rest2 with
    | none => simp [hb] at h
    | some p =>
      obtain ⟨o, r'⟩ := p
      simp [hb] at h
      obtain ⟨rfl, rfl⟩ := h
      obtain ⟨n, hn, hd⟩ := ih o r' hb
      refine ⟨n + 4, ?_, by simpa using hd⟩
      rw [undoBody.eq_def]
      simp [hesc, hrange, hoct, hn]
  | case6 => intro u r h; simp at h
  | case7 => intro u r h; simp at h
  | case8 => intro u r h; simp at h
  | case9 b rest h1 h2 h3 ih =>
    intro u r h
    cases hb : unquoteBody rest with
    | none => simp [hb] at h
    | some p =>
      obtain ⟨o, r'⟩ := p
      simp [hb] at h
      obtain ⟨rfl, rfl⟩ := h
      obtain ⟨n, hn, hd⟩ := ih o r' hb
      refine ⟨n + 1, ?_, by simpa using hd⟩
      rw [undoBody.eq_def]
      split <;> simp_all

theorem undo_of_unquote (l u r : Bytes) (h : unquoteC l = some (u, r)) :
    ∃ n, undo l = some (u, n) ∧ l.drop n = r := by
  unfold unquoteC at h
  split at h
  · rename_i rest
    obtain ⟨n, hn, hd⟩ := undoBody_of_unquote rest u r h
    have hne : rest.isEmpty = false := by
      cases rest with
      | nil => simp [unquoteBody] at h
      | cons _ _ => rfl
    exact ⟨n + 1, by simp [undo, hne, hn], by simpa using hd⟩
  · simp at h

/-- **the line parsers agree** on a line whose pattern is quoted in a way git accepts and is not a macro -/
theorem parseLine_eq_git_quoted (line : Bytes) (no : Nat) (hc : NoCtl line)
    (hq : (line.dropWhile isBlank).head? = some 34) (u rest : Bytes)
    (hu : unquoteC (line.dropWhile isBlank) = some (u, rest)) (hnm : macroPrefix.isPrefixOf u = false) :
    parseAttrLineC true line no = parseLine line no := by
  unfold parseAttrLineC parseLine
  simp only [cstr_eq line hc, skipBlank_eq line hc]
  generalize hl : line.dropWhile isBlank = l at hq hu
  have hlc : NoCtl l := hl ▸ hc.dropWhile isBlank
  have hemp : l.isEmpty = false := by
    cases l with
    | nil => simp at hq
    | cons _ _ => rfl
  have h35 : (l.head? == some 35) = false := by rw [hq]; decide
  have h34 : (l.head? == some 34) = true := by rw [hq]; decide
  simp only [hemp, Bool.false_eq_true, if_false, h35, h34, if_true]
  by_cases hlong : line.length ≥ maxLineLen
  · simp only [hlong, if_true]
  · simp only [hlong, if_false]
    obtain ⟨n, hn, hd⟩ := undo_of_unquote l u rest hu
    simp only [hu, hn, hd, hnm, Bool.and_false, Bool.false_and, Bool.false_eq_true, if_false]
    have hrc : NoCtl rest := hd ▸ hlc.drop n
    have hstates : parseStatesC ((skipBlank rest).length + 1) (skipBlank rest) = parseAttrs rest := by
      rw [skipBlank_eq rest hrc]
      unfold parseAttrs
      rw [parseStatesC_eq _ _ (Nat.le_refl _) (hrc.dropWhile isBlank) (tokenStart_dropWhile rest) _ (Nat.le_refl _)]
      unfold fields
      rw [← fieldsAux_blanks rest]
    rw [hstates]
    congr

/-- the quoted pattern unquotes under git's rules and is not a macro definition -/
def quotedOk (l : Bytes) : Bool :=
  match unquoteC l with
  | some (u, _) => !macroPrefix.isPrefixOf u
  | none => false

/-- a line both parsers are proved to read alike: no NUL, no LF, and the pattern is either not quoted
or quoted in a way git accepts (and not a quoted macro definition) -/
def LineOk (l : Bytes) : Prop :=
  NoCtl l ∧ ((l.dropWhile isBlank).head? ≠ some 34 ∨ quotedOk (l.dropWhile isBlank) = true)

instance (l : Bytes) : Decidable (LineOk l) := by unfold LineOk; infer_instance

theorem lineOk_parse (l : Bytes) (n : Nat) (h : LineOk l) : parseAttrLineC true l n = parseLine l n := by
  obtain ⟨hc, hq⟩ := h
  by_cases h34 : (l.dropWhile isBlank).head? = some 34
  · rcases hq with hq | hq
    · exact absurd h34 hq
    · unfold quotedOk at hq
      cases hu : unquoteC (l.dropWhile isBlank) with
      | none => simp [hu] at hq
      | some p =>
        obtain ⟨u, rest⟩ := p
        simp only [hu, Bool.not_eq_true'] at hq
        exact parseLine_eq_git_quoted l n hc h34 u rest hu hq
  · exact parseLine_eq_git l n hc h34

theorem parseLinesFrom_eq_git : ∀ (ls : List Bytes) (n : Nat), (∀ l ∈ ls, LineOk l) →
    parseLinesFromC true n ls = parseLinesFrom n ls := by
  intro ls
  induction ls with
  | nil => intros; rfl
  | cons l ls ih =>
    intro n h
    have hl := h l (by simp)
    simp only [parseLinesFromC, parseLinesFrom]
    rw [lineOk_parse l n hl, ih (n + 1) (fun x hx => h x (by simp [hx]))]
    cases parseLine l n <;> rfl

/-- the file parsers agree when every line is `LineOk` -/
theorem parseFile_eq_git (bytes : Bytes) (h : ∀ l ∈ splitLines (stripBom bytes), LineOk l) :
    parseFileC true bytes = parseFile bytes :=
  parseLinesFrom_eq_git _ 1 h

end GixModel.Lemmas.C38
