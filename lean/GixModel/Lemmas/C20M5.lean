import GixModel.Lemmas.C20M4
/-
C20 helper lemmas, part 13 (all packed-refs modes): the reflog operations of the steps (each line is
appended by ONE operation, the whole line — after fix a69d64dab), reflogs of updated refs are never
taken away, and reflog files consist of whole lines after every prefix.
-/
namespace GixModel.C20
open GixModel

/-- the reflog operations: create / append of one whole line for an object update, unlink for a deletion -/
def LogOpL (c : Cfg) (s : Store) (txn : List Edit) (op : FsOp) : Prop :=
  (∃ n h, Edit.update n (.id h) ∈ txn ∧
      (op = .create (logPath n) ∨ op = .append (logPath n) (logLine ((oldIdOf s n).getD nullId) h c.sig c.msg))) ∨
  (∃ n, Edit.delete n ∈ txn ∧ op = .unlink (logPath n))

theorem mem_reflogOps_line {c : Cfg} {s : Store} {g : G} {n : Name} {h : Bytes} {op : FsOp}
    (ho : op ∈ reflogOps c s g n h) (hd : op.isDirOp = false) :
    op = .create (logPath n) ∨ op = .append (logPath n) (logLine ((oldIdOf s n).getD nullId) h c.sig c.msg) := by
  unfold reflogOps at ho
  split at ho
  · cases ho
  · split at ho
    · rcases List.mem_append.mp ho with ho | ho
      · obtain ⟨d, _, _, rfl⟩ := mem_mkdirAll ho; simp [FsOp.isDirOp] at hd
      · rcases List.mem_append.mp ho with ho | ho
        · split at ho
          · cases ho
          · simp at ho; exact .inl ho
        · simp at ho; exact .inr ho
    · split at ho
      · simp at ho; exact .inr ho
      · cases ho

theorem notlog_of_touches {op : FsOp} (h : ∀ t ∈ op.touches, isLogPath t = false) : isLogOp op = false := by
  cases hts : op.touches with
  | nil => cases op <;> simp [FsOp.touches] at hts
  | cons t ts =>
    have := h t (by simp [hts])
    simp [isLogOp, hts, this]

theorem nolog_prepEdit {c : Cfg} {global : Bool} {g : G} {e : Edit} (hn : isRefName e.name = true) {op : FsOp}
    (ho : op ∈ prepEdit c global g e) (hd : op.isDirOp = false) : isLogOp op = false := by
  have h1 := not_isLogPath_lockPath hn
  cases e with
  | delete n =>
    simp only [prepEdit] at ho
    split at ho
    · cases ho
    · rcases List.mem_append.mp ho with ho | ho
      · obtain ⟨d, _, _, rfl⟩ := mem_mkdirAll ho; simp [FsOp.isDirOp] at hd
      · simp at ho; subst ho; simpa [isLogOp, FsOp.touches, Edit.name] using h1
  | update n new =>
    simp only [prepEdit, List.mem_append] at ho
    rcases ho with (ho | ho) | ho
    · obtain ⟨d, _, _, rfl⟩ := mem_mkdirAll ho; simp [FsOp.isDirOp] at hd
    · simp at ho; subst ho; simpa [isLogOp, FsOp.touches, Edit.name] using h1
    · simp only [writeOps, List.mem_map] at ho
      obtain ⟨x, _, rfl⟩ := ho
      simpa [isLogOp, FsOp.touches, Edit.name] using h1

theorem nolog_looseDelete {s : Store} {global : Bool} {g : G} {e : Edit} (hn : isRefName e.name = true) {op : FsOp}
    (ho : op ∈ looseDelete s global g e) (hd : op.isDirOp = false) : isLogOp op = false := by
  have h1 := not_isLogPath_lockPath hn
  have h2 := not_isLogPath_refName hn
  cases e with
  | update n new => simp [looseDelete] at ho
  | delete n =>
    simp only [Edit.name] at h1 h2
    have hun : ∀ o : FsOp, (o = .unlink n ∨ o = .unlink (lockPath n)) → isLogOp o = false := by
      intro o ho'
      rcases ho' with rfl | rfl
      · simpa [isLogOp, FsOp.touches] using h2
      · simpa [isLogOp, FsOp.touches] using h1
    simp only [looseDelete] at ho
    split at ho
    · split at ho
      · simp at ho; exact hun op (.inl ho)
      · cases ho
    · simp only [List.mem_append] at ho
      rcases ho with (ho | ho) | ho
      · split at ho
        · simp at ho; exact hun op (.inl ho)
        · cases ho
      · simp at ho; exact hun op (.inr ho)
      · obtain ⟨d, _, _, rfl⟩ := mem_rmdirUp ho; simp [FsOp.isDirOp] at hd

theorem steps_logOpsM (m : Mode) (c : Cfg) (s : Store) (txn : List Edit) (href : ∀ e ∈ txn, isRefName e.name = true)
    {op : FsOp} (ho : op ∈ txnStepsM m c s txn) (hl : isLogOp op = true) (hd : op.isDirOp = false) :
    LogOpL c s txn op := by
  -- operations of the core are not reflog operations
  have hcore : op ∉ coreM m c s txn := by
    intro hc
    have : isLogOp op = false := by
      apply notlog_of_touches
      intro t ht
      rcases mem_core_casesM m c s txn hc with rfl | hmm | ⟨e, he, hmm⟩
      · simp [FsOp.touches] at ht; subst ht; exact not_isLogPath_packed.2
      · rcases packedCommitM_touches m c s txn op hmm t ht with rfl | rfl
        · exact not_isLogPath_packed.1
        · exact not_isLogPath_packed.2
      · rcases edit_core_touchesM m c s _ e op hmm t ht with rfl | rfl
        · exact not_isLogPath_refName (href e he)
        · exact not_isLogPath_lockPath (href e he)
    rw [this] at hl; cases hl
  simp only [txnStepsM, List.mem_append] at ho
  -- lock, ref and packed-refs operations are in the core (they survive `strip`), so they are excluded
  have instrip : ∀ l : List FsOp, op ∈ l → strip l = l → isLogOp op = false := by
    intro l hm hs
    have := (List.filter_eq_self.mp hs) op hm
    simp only [Bool.and_eq_true, Bool.not_eq_true'] at this
    exact this.2
  rcases ho with ((((ho | ho) | ho) | ho) | ho) | ho
  · have := instrip _ ho (by have := strip_pk0 (s.hasGlobalLockM m txn); simpa [pk0] using this)
    rw [this] at hl; cases hl
  · obtain ⟨e, he, g', h'⟩ := mem_prepEditsM ho
    have hn := href e he
    -- a non-directory operation of `prepEdit` is on the lock
    exfalso
    have hsub : op ∈ prepEdit c (s.hasGlobalLockM m txn) g' e := by
      cases e with
      | delete n => simpa [prepEditM] using h'
      | update n new =>
        cases new with
        | sym t => simpa [prepEditM] using h'
        | id hx =>
          simp only [prepEditM] at h'
          split at h'
          · cases h'
          · exact h'
    have := nolog_prepEdit hn hsub hd
    rw [this] at hl; cases hl
  · obtain ⟨e, he, g', h'⟩ := mem_commitUpdatesM ho
    have hn := href e he
    cases e with
    | delete n => simp [commitUpdateM, commitUpdate] at h'
    | update n new =>
      have hnl := not_isLogPath_lockPath hn
      cases new with
      | sym t =>
        simp [commitUpdateM, commitUpdate] at h'; subst h'
        simp [isLogOp, FsOp.touches, Edit.name] at hl hnl; rw [hnl] at hl; simp at hl
      | id hx =>
        simp only [commitUpdateM, List.mem_append] at h'
        rcases h' with h' | h'
        · exact .inl ⟨n, hx, he, mem_reflogOps_line h' hd⟩
        · split at h'
          · cases h'
          · simp at h'; subst h'
            simp [isLogOp, FsOp.touches, Edit.name] at hl hnl; rw [hnl] at hl; simp at hl
  · obtain ⟨e, he, g', h'⟩ := mem_logDeletes ho
    cases e with
    | update n new => simp [logDelete] at h'
    | delete n =>
      simp only [logDelete] at h'
      split at h'
      · rcases List.mem_cons.mp h' with rfl | h'
        · exact .inr ⟨n, he, rfl⟩
        · obtain ⟨d, _, _, rfl⟩ := mem_rmdirUp h'; simp [FsOp.isDirOp] at hd
      · cases h'
  · have := instrip _ ho (strip_packedCommitM m c s txn)
    rw [this] at hl; cases hl
  · obtain ⟨e, he, g', h'⟩ := mem_looseDeletesM ho
    have hn := href e he
    exfalso
    have hno : isLogOp op = false := by
      cases e with
      | delete n => exact nolog_looseDelete hn (by simpa [looseDeleteM] using h') hd
      | update n new =>
        cases new with
        | sym t => exact nolog_looseDelete hn (by simpa [looseDeleteM] using h') hd
        | id hx =>
          simp only [looseDeleteM] at h'
          split at h'
          · simp at h'; subst h'
            simpa [isLogOp, FsOp.touches, Edit.name] using not_isLogPath_refName hn
          · cases h'
    rw [hno] at hl; cases hl

/-- the reflog of an updated ref is never taken away -/
theorem update_log_staysM (m : Mode) (c : Cfg) (s : Store) (txn : List Edit) (h : TxnIn c s txn) {n : Name}
    {new : Target} (hu : Edit.update n new ∈ txn) : ∀ op ∈ txnStepsM m c s txn, logPath n ∉ op.removes := by
  intro op ho hr
  have hlp : isLogPath (logPath n) = true := isLogPath_logPath n
  have hsub : ∀ q ∈ op.removes, q ∈ op.touches := by
    intro q hq; cases op <;> simp_all [FsOp.removes, FsOp.touches]
  rcases mem_steps_casesM m c s txn h.names_ref ho with h1 | h1 | h1
  · cases op <;> simp [FsOp.removes, FsOp.isDirOp] at hr h1
  · have hd : op.isDirOp = false := by cases op <;> simp [FsOp.removes] at hr <;> rfl
    rcases steps_logOpsM m c s txn h.names_ref ho h1 hd with ⟨k, t, _, rfl | rfl⟩ | ⟨k, hk, rfl⟩
    · simp [FsOp.removes] at hr
    · simp [FsOp.removes] at hr
    · simp [FsOp.removes] at hr
      have e := logPath_inj hr
      subst e
      have := nodup_map_inj h.names_nodup hu hk rfl
      cases this
  · have ht := hsub _ hr
    rcases mem_core_casesM m c s txn h1 with rfl | hmm | ⟨e, he, hmm⟩
    · simp [FsOp.removes] at hr
    · rcases packedCommitM_touches m c s txn op hmm _ ht with e' | e'
      · rw [e', not_isLogPath_packed.1] at hlp; cases hlp
      · rw [e', not_isLogPath_packed.2] at hlp; cases hlp
    · rcases edit_core_touchesM m c s _ e op hmm _ ht with e' | e'
      · rw [e', not_isLogPath_refName (h.names_ref e he)] at hlp; cases hlp
      · rw [e', not_isLogPath_lockPath (h.names_ref e he)] at hlp; cases hlp

/-! ### whole lines -/

/-- a concatenation of lines, each ending in a newline -/
def WholeLines (c0 : Bytes) : Prop := ∃ ls : List Bytes, c0 = ls.flatten ∧ ∀ l ∈ ls, l.getLast? = some 10

theorem wholeLines_nil : WholeLines [] := ⟨[], rfl, by simp⟩

theorem wholeLines_append {c0 line : Bytes} (h : WholeLines c0) (hl : line.getLast? = some 10) :
    WholeLines (c0 ++ line) := by
  obtain ⟨ls, rfl, hls⟩ := h
  refine ⟨ls ++ [line], by simp, ?_⟩
  intro l hm
  rcases List.mem_append.mp hm with hm | hm
  · exact hls l hm
  · simp at hm; subst hm; exact hl

theorem last_cons (x : UInt8) (b : Bytes) (h : b.getLast? = some 10) : (x :: b).getLast? = some 10 := by
  cases b with
  | nil => simp at h
  | cons y ys => rw [List.getLast?_cons_cons]; exact h

theorem last_app (a b : Bytes) (h : b.getLast? = some 10) : (a ++ b).getLast? = some 10 := by
  induction a with
  | nil => exact h
  | cons x xs ih => exact last_cons x _ ih

theorem getLast_snoc (a : Bytes) (x : UInt8) : (a ++ [x]).getLast? = some x := by simp

theorem logLine_newline (old new sig msg : Bytes) : (logLine old new sig msg).getLast? = some 10 := by
  have h : logLine old new sig msg = (old ++ 32 :: new ++ 32 :: sig ++ 9 :: msg) ++ [10] := by simp [logLine]
  rw [h]; exact getLast_snoc _ _

/-- every reflog file holds whole lines -/
def LogsWhole (fs : Fs) : Prop := ∀ p c0, isLogPath p = true → fileAt fs p = some c0 → WholeLines c0

/-- an operation that cannot tear a reflog -/
def LineSafe (op : FsOp) : Prop :=
  op.isDirOp = true ∨ (∀ t ∈ op.touches, isLogPath t = false) ∨ (∃ p, op = .create p) ∨
    (∃ p line, op = .append p line ∧ line.getLast? = some 10) ∨ (∃ p, op = .unlink p)

theorem logsWhole_step {op : FsOp} (hs : LineSafe op) {fs : Fs} (h : LogsWhole fs) : LogsWhole (op.apply fs) := by
  intro p c0 hp hf
  rcases hs with hd | hn | ⟨q, rfl⟩ | ⟨q, line, rfl, hl⟩ | ⟨q, rfl⟩
  · rw [fileAt_dirOp op hd] at hf; exact h p c0 hp hf
  · have : p ∉ op.touches := fun hm => by rw [hn p hm] at hp; cases hp
    have e : fileAt (op.apply fs) p = fileAt fs p := by simp [fileAt, apply_frame op fs this]
    rw [e] at hf; exact h p c0 hp hf
  · by_cases e : p = q
    · subst e
      cases hq : fs p with
      | none =>
        simp [FsOp.apply, hq, fileAt] at hf; subst hf; exact wholeLines_nil
      | some x =>
        have : fileAt ((FsOp.create p).apply fs) p = fileAt fs p := by simp [FsOp.apply, hq, fileAt]
        rw [this] at hf; exact h p c0 hp hf
    · have : fileAt ((FsOp.create q).apply fs) p = fileAt fs p := by
        simp [fileAt, apply_frame (FsOp.create q) fs (by simp [FsOp.touches]; exact e)]
      rw [this] at hf; exact h p c0 hp hf
  · by_cases e : p = q
    · subst e
      cases hq : fs p with
      | none => simp [FsOp.apply, hq, fileAt] at hf
      | some x =>
        cases x with
        | dir => simp [FsOp.apply, hq, fileAt] at hf
        | file c1 =>
          simp [FsOp.apply, hq, fileAt] at hf; subst hf
          exact wholeLines_append (h p c1 hp (by simp [fileAt, hq])) hl
    · have : fileAt ((FsOp.append q line).apply fs) p = fileAt fs p := by
        simp [fileAt, apply_frame (FsOp.append q line) fs (by simp [FsOp.touches]; exact e)]
      rw [this] at hf; exact h p c0 hp hf
  · by_cases e : p = q
    · subst e
      cases hq : fs p with
      | none => simp [FsOp.apply, hq, fileAt] at hf
      | some x =>
        cases x with
        | dir => simp [FsOp.apply, hq, fileAt] at hf
        | file c1 => simp [FsOp.apply, hq, fileAt] at hf
    · have : fileAt ((FsOp.unlink q).apply fs) p = fileAt fs p := by
        simp [fileAt, apply_frame (FsOp.unlink q) fs (by simp [FsOp.touches]; exact e)]
      rw [this] at hf; exact h p c0 hp hf

theorem logsWhole_applyAll {ops : List FsOp} (hs : ∀ op ∈ ops, LineSafe op) {fs : Fs} (h : LogsWhole fs) :
    LogsWhole (applyAll ops fs) := by
  induction ops generalizing fs with
  | nil => exact h
  | cons op ops ih =>
    rw [applyAll_cons]
    exact ih (fun o ho => hs o (List.mem_cons_of_mem _ ho)) (logsWhole_step (hs op (List.mem_cons_self ..)) h)

theorem steps_lineSafe (m : Mode) (c : Cfg) (s : Store) (txn : List Edit) (href : ∀ e ∈ txn, isRefName e.name = true) :
    ∀ op ∈ txnStepsM m c s txn, LineSafe op := by
  intro op ho
  rcases mem_steps_casesM m c s txn href ho with h1 | h1 | h1
  · exact .inl h1
  · by_cases hd : op.isDirOp = true
    · exact .inl hd
    · rcases steps_logOpsM m c s txn href ho h1 (by simpa using hd) with ⟨n, h, _, rfl | rfl⟩ | ⟨n, _, rfl⟩
      · exact .inr (.inr (.inl ⟨_, rfl⟩))
      · exact .inr (.inr (.inr (.inl ⟨_, _, rfl, logLine_newline _ _ _ _⟩)))
      · exact .inr (.inr (.inr (.inr ⟨_, rfl⟩)))
  · right; left
    intro t ht
    rcases mem_core_casesM m c s txn h1 with rfl | hmm | ⟨e, he, hmm⟩
    · simp [FsOp.touches] at ht; subst ht; exact not_isLogPath_packed.2
    · rcases packedCommitM_touches m c s txn op hmm t ht with rfl | rfl
      · exact not_isLogPath_packed.1
      · exact not_isLogPath_packed.2
    · rcases edit_core_touchesM m c s _ e op hmm t ht with rfl | rfl
      · exact not_isLogPath_refName (href e he)
      · exact not_isLogPath_lockPath (href e he)

/-- if the reflogs of the initial state hold whole lines, the initial state is `LogsWhole` -/
theorem init_logsWhole {s : Store} (hl : ∀ x ∈ s.loose, isRefName x.1 = true)
    (hlog : ∀ p, WholeLines (s.logContent p)) : LogsWhole s.toFs := by
  intro p c0 hp hf
  have hfind : s.loose.find? (fun x => decide (x.1 = p)) = none := by
    apply List.find?_eq_none.mpr
    intro x hx e
    have e' : x.1 = p := by simpa using e
    have := not_isLogPath_refName (hl x hx)
    rw [e', hp] at this; cases this
  have hpk : p ≠ packedPath := by
    intro e; rw [e, not_isLogPath_packed.1] at hp; cases hp
  have : c0 = s.logContent p := by
    unfold fileAt Store.toFs at hf
    simp only [hfind, hpk, if_false] at hf
    by_cases h1 : (s.logs.any fun n => decide (logPath n = p)) = true
    · simp [h1] at hf; exact hf.symm
    · by_cases h2 : s.dirs.contains p = true
      · simp [h1, h2] at hf
      · simp [h1, h2] at hf
  rw [this]; exact hlog p

end GixModel.C20
