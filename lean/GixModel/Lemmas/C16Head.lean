/-
C16, reflogs, the dereferencing case of one edit: `HEAD := new` with `deref` where HEAD points to a
branch. The transaction becomes two edits (a log-only one for HEAD, the real one for the branch), and
HEAD's reflog line takes its old value from the branch (`leaf_referent_previous_oid`).
-/
import GixModel.Lemmas.C16Log

namespace GixModel.C16Fs
open GixModel.C17 GixModel.C16

/-- the value a dereferenced symbolic ref logs as `old`: the object at the end of its chain; if
the chain ends at a name that does not exist, the `ExistingMustMatch(object)` expectation of the
edit for that name stands in (as the code does) -/
def leafOld (M : RefMap) (es : List Edit) : Nat → Name → Option Oid
  | 0, _ => none
  | fuel + 1, n =>
    match M n with
    | some (.symbolic next) => leafOld M es fuel next
    | some (.object p) => some p
    | none =>
      match es.find? (fun x => x.name = n) with
      | some x => (match x.update.change with
        | .update _ (.existingMustMatch (.object o)) _ => some o
        | .delete (.existingMustMatch (.object o)) _ => some o
        | _ => none)
      | none => none

/-- the reflog line of any processed edit, split parents included -/
def specLineFull (M : RefMap) (es : List Edit) (e : Edit) : Option LogLine :=
  match e.update.change, M e.name with
  | .update .only _ (.object new), some (.symbolic next) =>
    (match leafOld M es (es.length + 1) next with
      | some p => if p = new then none else some (p, new)
      | none => some (0, new))
  | _, ex => specLine ex e

def specLogsUFull (M : RefMap) (es : List Edit) : List (Name × List LogLine) → List Edit → List (Name × List LogLine)
  | logs, [] => logs
  | logs, e :: rest =>
    specLogsUFull M es (match specLineFull M es e with
      | some l => if autoLog e.name || (lookup logs e.name).isSome then appendLog logs e.name l else logs
      | none => logs) rest

/-- the log-only edit for the symbolic ref -/
def headEdit (n : Name) (new : Oid) : Edit :=
  { update := { change := .update .only .any (.object new), name := n, deref := false } }

/-- the edit for the branch it points to -/
def branchEdit (next : Name) (ex : Prev) (new : Oid) : Edit :=
  { update := { change := .update .andReference ex (.object new), name := next, deref := false },
    parent := some 0 }

/-- … as the split creates it, before its own round -/
def branchPre (next : Name) (ex : Prev) (new : Oid) : Edit :=
  { update := { change := .update .andReference ex (.object new), name := next, deref := true },
    parent := some 0 }

theorem preProcess_head (find : Name → Option Target) (n next : Name) (ex : Prev) (new : Oid)
    (hsym : find n = some (.symbolic next)) (hnext : ∀ r, find next ≠ some (.symbolic r)) (hne : next ≠ n) :
    preProcess find [{ change := .update .andReference ex (.object new), name := n, deref := true }]
      = .ok [headEdit n new, branchEdit next ex new] := by
  have h2 : splitEdit find 1 (branchPre next ex new) = (branchEdit next ex new, []) := by
    unfold splitEdit branchPre
    simp only [if_true]
    cases hf : find next with
    | none => rfl
    | some t =>
      cases t with
      | object o => rfl
      | symbolic r => exact absurd hf (hnext r)
  have hd : hasDup [n, next] = false := by
    simp [hasDup]
    exact fun h => hne h.symm
  simp only [branchPre] at h2
  simp [preProcess, extendWithSplits, splitLoop, splitPass, splitEdit, hsym, h2, headEdit, branchEdit, Edit.name, hd]

/-- the prepared edits of that transaction: the branch edit as applied, and the log-only edit as
applied carrying the branch's previous object id -/
theorem prepLoop_head (cx : Ctx) (unlockPacked : Store → Store) (S0 S1 : Store) (e0 e1 : Edit) (out : List Edit)
    (hp0 : e0.parent = none) (hp1 : e1.parent = some 0)
    (h : prepLoop .fixed cx unlockPacked 2 0 S0 [e0, e1] = .ok out S1) :
    ∃ a b, out = [a, b] ∧ b.leafPrev = e1.leafPrev ∧
      a.leafPrev = (match prevOid b.update.change with | some o => some o | none => e0.leafPrev) := by
  simp only [prepLoop, List.getElem?_cons_zero] at h
  cases hla : lockAndApply cx S0 e0 with
  | error err =>
    rw [hla] at h
    cases err with
    | lock =>
      simp only [] at h
      cases hw : walkBy .fixed [e0, e1] [e0, e1].length e0.parent e0.name with
      | none => rw [hw] at h; cases h
      | some w => rw [hw] at h; cases w <;> cases h
    | check ce =>
      simp only [] at h
      cases he : errOfCheck e0.name ce with
      | none => rw [he] at h; cases h
      | some _ => rw [he] at h; cases h
  | ok r =>
    obtain ⟨Sa, a⟩ := r
    rw [hla] at h
    have hpa : a.parent = none := by
      rw [lockAndApply_general] at hla
      repeat' ((try dsimp only at hla); split at hla)
      all_goals first
        | (simp at hla; done)
        | (simp only [Except.ok.injEq, Prod.mk.injEq] at hla; rw [← hla.2, applied_parent]; exact hp0)
    have hla0 := lockAndApply_leaf cx S0 e0 Sa a hla
    simp only [hpa, List.set_cons_zero] at h
    have hstep : prepLoop .fixed cx unlockPacked 1 1 Sa [a, e1] = .ok out S1 := by
      cases hpo : prevOid a.update.change with
      | none => rw [hpo] at h; exact h
      | some _ => rw [hpo] at h; exact h
    clear h
    simp only [prepLoop, List.getElem?_cons_succ, List.getElem?_cons_zero] at hstep
    cases hlb : lockAndApply cx Sa e1 with
    | error err =>
      rw [hlb] at hstep
      cases err with
      | lock =>
        simp only [] at hstep
        cases hw : walkBy .fixed [a, e1] [a, e1].length e1.parent e1.name with
        | none => rw [hw] at hstep; cases hstep
        | some w => rw [hw] at hstep; cases w <;> cases hstep
      | check ce =>
        simp only [] at hstep
        cases he : errOfCheck e1.name ce with
        | none => rw [he] at hstep; cases hstep
        | some _ => rw [he] at hstep; cases hstep
    | ok r =>
      obtain ⟨Sb, b⟩ := r
      rw [hlb] at hstep
      have hpb : b.parent = some 0 := by
        rw [lockAndApply_general] at hlb
        repeat' ((try dsimp only at hlb); split at hlb)
        all_goals first
          | (simp at hlb; done)
          | (simp only [Except.ok.injEq, Prod.mk.injEq] at hlb; rw [← hlb.2, applied_parent]; exact hp1)
      have hlb0 := lockAndApply_leaf cx Sa e1 Sb b hlb
      simp only [hpb, List.set_cons_succ, List.set_cons_zero] at hstep
      cases hpo : prevOid b.update.change with
      | none =>
        rw [hpo] at hstep
        simp only [] at hstep
        injection hstep with h1 h2
        exact ⟨a, b, h1.symm, hlb0, by simp [hla0, hpo]⟩
      | some o =>
        rw [hpo] at hstep
        simp only [setLeaf, List.length_cons, List.length_nil, List.getElem?_cons_zero, hpa, List.set_cons_zero] at hstep
        injection hstep with h1 h2
        exact ⟨_, b, h1.symm, hlb0, by simp [hpo]⟩


theorem commit_kinds (cx : Ctx) (find : Name → Option Target) (dl : Bool) (S1 : Store) (pe es : List Edit)
    (hcore : pe.map Edit.core = (es.map fun e => applied cx (find e.name) e).map Edit.core) :
    ((commitUpdates dl S1 (pe.map Edit.core)).2).map editKind = es.map editKind := by
  have hsig := (commitUpdates_frame dl S1 (pe.map Edit.core)).2.2
  have : ∀ l1 l2 : List Edit, l1.map Edit.sig = l2.map Edit.sig → l1.map editKind = l2.map editKind := by
    intro l1
    induction l1 with
    | nil => intro l2 h; cases l2 with | nil => rfl | cons _ _ => simp at h
    | cons a l1 ih =>
      intro l2 h
      cases l2 with
      | nil => simp at h
      | cons b l2 =>
        simp only [List.map_cons, List.cons.injEq] at h ⊢
        exact ⟨kind_of_sig a b h.1, ih l2 h.2⟩
  rw [this _ _ hsig, hcore]
  simp [List.map_map, Function.comp_def, editKind, core_name, applied_name]
  intro e _
  unfold applied Edit.core
  cases e.update.change <;> rfl

/-- `HEAD := new` with `deref`, HEAD pointing to a branch (or to a name that does not exist): the
reflogs afterwards are the ones of the full statement — HEAD's line has the branch's old object as
`old` (or the object of an `ExistingMustMatch` expectation if the branch does not exist, else the
null id), and the branch gets its own line. -/
theorem reflog_head (env : Env) (SX SX' : StoreX) (m : Mode) (n next : Name) (ex : Prev) (new : Oid)
    (hS : StoreOk SX.base) (hL : NoLocks SX.base)
    (hsym : lookup SX.base.loose n = some (.symbolic next))
    (hnext : ∀ r, SX.base.find next ≠ some (.symbolic r))
    (h : runX env SX { edits := [{ change := .update .andReference ex (.object new), name := n, deref := true }], mode := m }
      = .ok SX') :
    SX'.logs = logsD (specLogsUFull (abs SX.base) [headEdit n new, branchEdit next ex new] SX.logs
        [headEdit n new, branchEdit next ex new]) [headEdit n new, branchEdit next ex new] := by
  have hMn : SX.base.find n = some (.symbolic next) := by simp [Store.find, hsym]
  have hne : next ≠ n := by
    intro hx; rw [hx] at hnext; exact hnext next hMn
  have hnext' : ∀ r, lookup SX.base.loose next ≠ some (.symbolic r) := by
    intro r hx; exact hnext r (by simp [Store.find, hx])
  have hp := preProcess_head (fun k => lookup SX.base.loose k) n next ex new hsym hnext' hne
  have hT : PlainTxn { edits := [{ change := .update .andReference ex (.object new), name := n, deref := true }], mode := m } := by
    intro u hu
    simp only [List.mem_singleton] at hu
    rw [hu]; rfl
  obtain ⟨p, S1, hprep, hc⟩ := runX_ok_parts env SX SX' _ hL h
  obtain ⟨_, hlogs⟩ := commitX_ok { SX with base := S1 } SX' p hc
  obtain ⟨cx, hcore, hff, todo, cid, S0, es0, hes0, hloop, htodo, hcid⟩ :=
    prepared_edits env SX.base _ hS hL hT _ hp p S1 hprep
  subst hes0 htodo hcid
  obtain ⟨a, b, hout, hbl, hal⟩ := prepLoop_head cx _ S0 S1 _ _ p.edits rfl rfl hloop
  have hchk := firstFailure_none _ _ hff
  have hc1 : checkC (SX.base.find next) (branchEdit next ex new) = none :=
    hchk (branchEdit next ex new) (by simp)
  rw [hlogs]
  simp only []
  rw [logsD_congr _ _ _ (commit_kinds cx SX.base.find _ S1 p.edits _ hcore)]
  congr 1
  rw [hout] at hcore ⊢
  simp only [List.map_cons, List.map_nil, List.cons.injEq, and_true] at hcore
  obtain ⟨ha, hb⟩ := hcore
  have hb' : b = applied cx (SX.base.find next) (branchEdit next ex new) := by
    have h1 : b.core = b := core_of_leaf_none b (by rw [hbl]; rfl)
    have h2 : (applied cx (SX.base.find next) (branchEdit next ex new)).core
        = applied cx (SX.base.find next) (branchEdit next ex new) :=
      core_of_leaf_none _ (by rw [applied_leaf]; rfl)
    rw [← h1, ← h2]; exact hb
  have hau : a.update = (applied cx (SX.base.find n) (headEdit n new)).update := by
    show a.core.update = (applied cx (SX.base.find n) (headEdit n new)).core.update
    exact congrArg Edit.update ha
  have hlb : logLineOf b = specLineFull (abs SX.base) [headEdit n new, branchEdit next ex new] (branchEdit next ex new) := by
    rw [hb', logLineOf_applied cx _ _ rfl hc1]
    unfold specLineFull
    simp only [branchEdit, Edit.name, abs]
  have hbn : b.name = next := by rw [hb', applied_name]; rfl
  have han : a.name = n := by
    show a.update.name = n
    rw [hau]; exact applied_name cx _ _
  have hla : logLineOf a = specLineFull (abs SX.base) [headEdit n new, branchEdit next ex new] (headEdit n new) := by
    unfold logLineOf specLineFull
    rw [hau, hal, hb']
    unfold checkC at hc1
    simp only [applied, headEdit, branchEdit, Edit.name, abs, hMn, recordExisting] at hc1 ⊢
    simp only [leafOld]
    cases hx : SX.base.find next with
    | some t =>
      cases t with
      | object o => simp [recordExisting, prevOid]
      | symbolic r => exact absurd hx (hnext r)
    | none =>
      rw [hx] at hc1
      have hnn : ¬ (n = next) := fun hh => hne hh.symm
      cases ex with
      | any => simp [recordExisting, prevOid, List.find?, Edit.name, hnn]
      | mustExist => simp [recordExisting, prevOid, List.find?, Edit.name, hnn]
      | mustNotExist => simp [recordExisting, prevOid, List.find?, Edit.name, hnn]
      | mustExistAndMatch t => simp [checkUpdate] at hc1
      | existingMustMatch t => cases t <;> simp [recordExisting, prevOid, List.find?, Edit.name, hnn]
  have hn0 : (headEdit n new).name = n := rfl
  have hn1 : (branchEdit next ex new).name = next := rfl
  simp only [logsU, specLogsUFull, hla, hlb, han, hbn, hn0, hn1]
  rfl

/-- the same, for every result of the preprocessing (there is exactly one) -/
theorem reflog_head_es (env : Env) (SX SX' : StoreX) (m : Mode) (n next : Name) (ex : Prev) (new : Oid)
    (hS : StoreOk SX.base) (hL : NoLocks SX.base)
    (hsym : lookup SX.base.loose n = some (.symbolic next))
    (hnext : ∀ r, SX.base.find next ≠ some (.symbolic r))
    (h : runX env SX { edits := [{ change := .update .andReference ex (.object new), name := n, deref := true }], mode := m }
      = .ok SX') (es : List Edit)
    (hp : preProcess (fun k => lookup SX.base.loose k)
      [{ change := .update .andReference ex (.object new), name := n, deref := true }] = .ok es) :
    SX'.logs = logsD (specLogsUFull (abs SX.base) es SX.logs es) es := by
  have hMn : SX.base.find n = some (.symbolic next) := by simp [Store.find, hsym]
  have hne : next ≠ n := by
    intro hx; rw [hx] at hnext; exact hnext next hMn
  have hnext' : ∀ r, lookup SX.base.loose next ≠ some (.symbolic r) := by
    intro r hx; exact hnext r (by simp [Store.find, hx])
  rw [preProcess_head (fun k => lookup SX.base.loose k) n next ex new hsym hnext' hne] at hp
  injection hp with hp
  subst hp
  exact reflog_head env SX SX' m n next ex new hS hL hsym hnext h

/-- … spelled out for a branch that exists: both the symbolic ref and the branch get the line
`old -> new` (where they get reflogs at all) -/
theorem reflog_head_explicit (env : Env) (SX SX' : StoreX) (m : Mode) (n next : Name) (ex : Prev) (old new : Oid)
    (hS : StoreOk SX.base) (hL : NoLocks SX.base)
    (hsym : lookup SX.base.loose n = some (.symbolic next))
    (hold : SX.base.find next = some (.object old)) (hchg : old ≠ new)
    (h : runX env SX { edits := [{ change := .update .andReference ex (.object new), name := n, deref := true }], mode := m }
      = .ok SX') :
    SX'.logs =
      let l1 := if autoLog n || (lookup SX.logs n).isSome then appendLog SX.logs n (old, new) else SX.logs
      if autoLog next || (lookup l1 next).isSome then appendLog l1 next (old, new) else l1 := by
  have hMn : SX.base.find n = some (.symbolic next) := by simp [Store.find, hsym]
  rw [reflog_head env SX SX' m n next ex new hS hL hsym (by intro r hx; rw [hold] at hx; cases hx) h]
  simp [logsD, specLogsUFull, specLineFull, specLine, leafOld, headEdit, branchEdit, Edit.name, abs, hMn, hold, hchg]

end GixModel.C16Fs
