import GixModel.Lemmas.C49Entry
import GixModel.Lemmas.C49Walk
/-
C49 (round 2) — the end-to-end corollary on the models: for a worktree given by per-entry facts,
what the status model reports (entry statuses + directory walk with folding) is, as a multiset,
what the transcription of git's rules lists (`gitReport`).
-/
namespace GixModel.C49
open GixModel GixModel.Spec.C49

/-! ### the facts of a tree are coherent: files are files, directories are directories, and the
index does not hold both `p` and `p/…` -/

mutual
def sane : Tree → Bool
  | .file _ f => !f.isDir && !(f.indexFile && f.indexDir)
  | .dir _ f cs => f.isDir && !(f.indexFile && f.indexDir) && saneL cs
def saneL : List Tree → Bool
  | [] => true
  | t :: ts => sane t && saneL ts
end

def shownOf (i : Item) : Shown := (i.path, i.status)

/-- the line(s) one entry that is not entered gives -/
def showOne (p : Bytes) (st : DStatus) : List Shown :=
  match st with
  | .ignored k => [(p, .ignored k)]
  | .untracked => [(p, .untracked)]
  | _ => []

def entered (f : PathFacts) : Bool :=
  !(classify f).2 && ((classify f).1 == .tracked || (classify f).1 == .untracked)

theorem emits_filter_one (p : Bytes) (st : DStatus) (d repo : Bool) :
    (([⟨p, st, d, repo, false⟩] : List Item).filter normalOpts.emits).map shownOf = showOne p st := by
  cases st with
  | ignored k => rfl
  | _ => rfl

theorem gitShow_file (p name : Bytes) (f : PathFacts) (hs : sane (.file name f) = true) :
    gitShow p (.file name f) = showOne (joinPath p name) (classify f).1 := by
  simp only [sane, Bool.and_eq_true, Bool.not_eq_true', Bool.and_eq_false_iff] at hs
  obtain ⟨hd, hb⟩ := hs
  unfold gitShow gitTreatPath classify showOne
  cases hdg : f.dotGit <;> cases hf : f.indexFile <;> cases hx : f.indexDir <;>
    cases he : f.excluded <;> simp_all

theorem gitShow_dir (p name : Bytes) (f : PathFacts) (cs : List Tree)
    (hd : f.isDir = true) (hb : (f.indexFile && f.indexDir) = false) :
    gitShow p (.dir name f cs) =
      if entered f then
        (if (classify f).1 == .tracked then gitShowL (joinPath p name) cs
         else match gitFold (leavesL cs) with
          | some s => (joinPath p name, s) :: (gitShowL (joinPath p name) cs).filter (fun x => x.2 != s)
          | none => gitShowL (joinPath p name) cs)
      else showOne (joinPath p name) (classify f).1 := by
  unfold gitShow gitTreatPath entered classify showOne
  cases hdg : f.dotGit <;> cases hf : f.indexFile <;> cases hx : f.indexDir <;>
    cases he : f.excluded <;> cases hn : f.nestedRepo <;> simp_all <;> rfl

/-! ### what a walk result will finally show -/

def out (r : WalkRes) : List Shown := (r.emitted ++ r.held.filter normalOpts.emits).map shownOf

structure E (r : WalkRes) (shown : List Shown) (l : List Leaf) : Prop where
  perm : (out r).Perm shown
  ign : r.prevent = false → ∀ i ∈ r.emitted, i.status = .ignored .expendable
  noU : r.prevent = false → anyU l = false → r.emitted = []

theorem out_cons (i : Item) (r : WalkRes) :
    out ⟨r.emitted, i :: r.held, r.prevent⟩ =
      r.emitted.map shownOf ++ (([i] : List Item).filter normalOpts.emits).map shownOf
        ++ (r.held.filter normalOpts.emits).map shownOf := by
  unfold out
  simp only [List.map_append, List.filter_cons, List.filter_nil]
  split <;> simp

theorem e_cons (i : Item) (r : WalkRes) (sh : List Shown) (x : Leaf) (shown : List Shown) (l : List Leaf)
    (hi : (([i] : List Item).filter normalOpts.emits).map shownOf = sh) (h : E r shown l) :
    E ⟨r.emitted, i :: r.held, r.prevent⟩ (sh ++ shown) (x :: l) := by
  obtain ⟨h1, h2, h3⟩ := h
  refine ⟨?_, h2, ?_⟩
  · rw [out_cons, hi]
    unfold out at h1
    rw [List.map_append] at h1
    rw [List.append_assoc]
    exact (List.perm_append_comm_assoc _ _ _).trans (List.Perm.append_left sh h1)
  · intro hp hu
    simp only [anyU, List.any_cons, Bool.or_eq_false_iff] at hu
    exact h3 hp hu.2

/-- `walkDir` on a non-empty directory, all fields -/
theorem walkDir_cases (q : Bytes) (st : DStatus) (cs : List Tree) (hne : cs ≠ []) :
    (∃ s, st ≠ .tracked ∧ (walkChildren normalOpts q cs).prevent = false ∧
      walkDir normalOpts true q st cs =
        ⟨(walkChildren normalOpts q cs).emitted ++
            (walkChildren normalOpts q cs).held.filter (fun i => i.status != s && normalOpts.emits i),
          [⟨q, s, true, false, false⟩], false⟩) ∨
    walkDir normalOpts true q st cs =
      ⟨(walkChildren normalOpts q cs).emitted ++ (walkChildren normalOpts q cs).held.filter normalOpts.emits,
        [], true⟩ := by
  have hemp : cs.isEmpty = false := by
    cases cs with
    | nil => exact absurd rfl hne
    | cons _ _ => rfl
  rw [walkDir.eq_1]
  simp only [hemp, Bool.false_eq_true, if_false]
  cases hp : (walkChildren normalOpts q cs).prevent
  · simp only [Bool.false_eq_true, if_false]
    by_cases hst : st = .tracked
    · right
      subst hst
      simp
    · have hst' : (true && st != DStatus.tracked) = true := by simpa using hst
      simp only [hst', if_true]
      cases hc : collapseStatus normalOpts (walkChildren normalOpts q cs).held with
      | none => right; rfl
      | some s =>
        left
        refine ⟨s, hst, trivial, ?_⟩
        simp [normalOpts]
  · right
    simp

theorem status_of_ok {s : DStatus} (h : okStatus s = true) :
    s = .tracked ∨ s = .untracked ∨ s = .ignored .expendable := by
  cases s with
  | pruned => simp [okStatus] at h
  | tracked => exact Or.inl rfl
  | untracked => exact Or.inr (Or.inl rfl)
  | ignored k =>
    cases k with
    | expendable => exact Or.inr (Or.inr rfl)
    | precious => simp [okStatus] at h

theorem held_ok_of_summ {held : List Item} {l : List Leaf} (h : Summ held l) :
    ∀ i ∈ held, i.status = .tracked ∨ i.status = .untracked ∨ i.status = .ignored .expendable := by
  intro i hi
  have := h.ok
  simp only [allOk, List.all_map, List.all_eq_true] at this
  exact status_of_ok (this i hi)

theorem emits_tracked (i : Item) (h : i.status = .tracked) : normalOpts.emits i = false := by
  simp [WalkOpts.emits, h]

theorem filter_and_append {α : Type} (a b : List α) (p q : α → Bool) (ha : ∀ x ∈ a, p x = true) :
    (a ++ b.filter q).filter p = a ++ b.filter (fun x => p x && q x) := by
  rw [List.filter_append, List.filter_filter]
  congr 1
  exact List.filter_eq_self.mpr ha

theorem perm_mid3 {α : Type} (A B R T : List α) (a : α) :
    (A ++ (B ++ (R ++ a :: T))).Perm (a :: (A ++ (B ++ (R ++ T)))) := by
  have := @List.perm_middle α a (A ++ B ++ R) T
  simpa only [List.append_assoc] using this

theorem walk_show (cs : List Tree) :
    goodL cs = true → saneL cs = true → ∀ path,
      E (walkChildren normalOpts path cs) (gitShowL path cs) (leavesL cs) := by
  refine Tree.rec_1
    (motive_1 := fun t => good t = true → sane t = true → ∀ path rest,
      Inv (walkChildren normalOpts path rest) (leavesL rest) →
      E (walkChildren normalOpts path rest) (gitShowL path rest) (leavesL rest) →
      E (walkChildren normalOpts path (t :: rest)) (gitShow path t ++ gitShowL path rest)
        (leaves t ++ leavesL rest))
    (motive_2 := fun cs => goodL cs = true → saneL cs = true → ∀ path,
      E (walkChildren normalOpts path cs) (gitShowL path cs) (leavesL cs))
    ?_ ?_ ?_ ?_ cs
  · -- a file
    intro name f hg hs path rest _ hrest
    have hok : okStatus (classify f).1 = true := by simpa [good] using hg
    rw [walkChildren.eq_2, classify_eta f, gitShow_file path name f hs]
    simp only [shouldHold_ok hok, if_true, leaves, List.cons_append, List.nil_append]
    exact e_cons _ _ _ _ _ _ (emits_filter_one _ _ _ _) hrest
  · -- a directory
    intro name f cs ih hg hs path rest hinv hrest
    simp only [good, Bool.and_eq_true, Bool.or_eq_true, Bool.not_eq_true'] at hg
    obtain ⟨⟨hok, hgcs⟩, hentne⟩ := hg
    simp only [sane, Bool.and_eq_true, Bool.not_eq_true'] at hs
    obtain ⟨⟨hdir, hboth⟩, hscs⟩ := hs
    rw [walkChildren.eq_3, classify_eta f, gitShow_dir path name f cs hdir hboth]
    simp only
    unfold leaves
    unfold entered
    by_cases hent : (!(classify f).2 && ((classify f).1 == DStatus.tracked || (classify f).1 == DStatus.untracked)) = true
    · simp only [hent, if_true]
      have hemp : cs ≠ [] := by
        intro hemp
        rcases hentne with h | h
        · rw [hent] at h; cases h
        · rw [hemp] at h; simp at h
      have hcs := ih hgcs hscs (joinPath path name)
      have hcinv := walkChildren_inv cs hgcs (joinPath path name)
      obtain ⟨hp, hign, hnoU⟩ := hrest
      by_cases htr : (classify f).1 = DStatus.tracked
      · -- a directory the index knows: entered, never folded
        rcases walkDir_cases (joinPath path name) (classify f).1 cs hemp with ⟨s, hne, _, _⟩ | hw
        · exact absurd htr hne
        · rw [hw, htr]
          simp only [beq_self_eq_true, if_true, List.nil_append, Bool.true_or]
          refine ⟨?_, ?_, ?_⟩
          · unfold out
            simp only [List.map_append, List.append_assoc]
            have h1 := hcs.perm
            unfold out at h1 hp
            simp only [List.map_append] at h1 hp
            rw [← List.append_assoc]
            exact List.Perm.append h1 hp
          · intro h; cases h
          · intro h; cases h
      · have htr' : ((classify f).1 == DStatus.tracked) = false := by simpa using htr
        simp only [htr', Bool.false_eq_true, if_false, List.nil_append]
        have hfold := walkDir_fold (joinPath path name) (classify f).1 htr cs hemp hgcs hcinv
        rcases walkDir_cases (joinPath path name) (classify f).1 cs hemp with ⟨s, _, hprev, hw⟩ | hw
        · -- folded into ONE entry
          cases hgf : gitFold (leavesL cs) with
          | none =>
            rw [hgf] at hfold
            rw [hw] at hfold
            exact absurd hfold.1 (by simp)
          | some s' =>
            rw [hgf] at hfold
            obtain ⟨hheld, _, hbad, hs', hU⟩ := hfold
            rw [hw] at hheld
            simp only [List.cons.injEq, Item.mk.injEq, and_true, true_and] at hheld
            subst hheld
            rw [hw]
            simp only [Bool.false_or]
            have hsum := hcinv.2.2 hprev
            have hheldok := held_ok_of_summ hsum
            have hcign := hcs.ign hprev
            -- the inner emitted entries all differ from the fold status
            have hem : ∀ x ∈ (walkChildren normalOpts (joinPath path name) cs).emitted,
                (fun i : Item => i.status != s) x = true := by
              intro x hx
              show (x.status != s) = true
              rcases hs' with rfl | rfl
              · rw [hcign x hx]; rfl
              · have hu0 : anyU (leavesL cs) = false := by rw [hU]; rfl
                rw [hcs.noU hprev hu0] at hx
                cases hx
            have hfil : ((walkChildren normalOpts (joinPath path name) cs).emitted ++
                (walkChildren normalOpts (joinPath path name) cs).held.filter normalOpts.emits).filter
                  (fun i => i.status != s) =
                (walkChildren normalOpts (joinPath path name) cs).emitted ++
                (walkChildren normalOpts (joinPath path name) cs).held.filter
                  (fun i => i.status != s && normalOpts.emits i) :=
              filter_and_append _ _ _ _ hem
            have hinner : (((walkChildren normalOpts (joinPath path name) cs).emitted ++
                (walkChildren normalOpts (joinPath path name) cs).held.filter
                  (fun i => i.status != s && normalOpts.emits i)).map shownOf).Perm
                ((gitShowL (joinPath path name) cs).filter (fun x => x.2 != s)) := by
              rw [← hfil]
              have h1 := hcs.perm
              unfold out at h1
              have h2 := h1.filter (fun x => x.2 != s)
              rw [List.filter_map] at h2
              exact h2
            have hemit : normalOpts.emits ⟨joinPath path name, s, true, false, false⟩ = true := by
              rcases hs' with rfl | rfl <;> rfl
            refine ⟨?_, ?_, ?_⟩
            · unfold out
              simp only [List.cons_append, List.nil_append, List.filter_cons, hemit, if_true,
                List.map_append, List.map_cons]
              unfold out at hp
              simp only [List.map_append] at hp hinner
              -- (A ++ B ++ re) ++ (x :: rhf)  ~  x :: (A ++ B) ++ (re ++ rhf)
              have step1 : (List.map shownOf (walkChildren normalOpts (joinPath path name) cs).emitted ++
                  List.map shownOf ((walkChildren normalOpts (joinPath path name) cs).held.filter
                    (fun i => i.status != s && normalOpts.emits i)) ++
                  List.map shownOf (walkChildren normalOpts path rest).emitted ++
                  (shownOf ⟨joinPath path name, s, true, false, false⟩ ::
                    List.map shownOf ((walkChildren normalOpts path rest).held.filter normalOpts.emits))).Perm
                  (shownOf ⟨joinPath path name, s, true, false, false⟩ ::
                    ((List.map shownOf (walkChildren normalOpts (joinPath path name) cs).emitted ++
                      List.map shownOf ((walkChildren normalOpts (joinPath path name) cs).held.filter
                        (fun i => i.status != s && normalOpts.emits i))) ++
                     (List.map shownOf (walkChildren normalOpts path rest).emitted ++
                      List.map shownOf ((walkChildren normalOpts path rest).held.filter normalOpts.emits)))) := by
                simp only [List.append_assoc]
                exact perm_mid3 _ _ _ _ _
              refine step1.trans ?_
              show (_ :: _).Perm ((joinPath path name, s) :: (_ ++ _))
              exact List.Perm.cons _ (List.Perm.append hinner hp)
            · intro hpr x hx
              rcases List.mem_append.mp hx with hx | hx
              · rcases List.mem_append.mp hx with hx | hx
                · exact hcign x hx
                · have hx' := List.mem_filter.mp hx
                  have hst := hheldok x hx'.1
                  simp only [Bool.and_eq_true, bne_iff_ne, ne_eq] at hx'
                  rcases hst with h | h | h
                  · have := emits_tracked x h; rw [this] at hx'; exact absurd hx'.2.2 (by simp)
                  · -- an untracked held entry: then the fold status is untracked, and it is filtered
                    have hany : anyU (leavesL cs) = true := by
                      rw [← hsum.anyU, anyU_map]
                      exact List.any_eq_true.mpr ⟨x, hx'.1, by simp [h]⟩
                    rw [hU] at hany
                    have : s = .untracked := by simpa using hany
                    exact absurd (h.trans this.symm) hx'.2.1
                  · exact h
              · exact hign hpr x hx
            · intro hpr hu
              rw [anyU_append, Bool.or_eq_false_iff] at hu
              have hre := hnoU hpr hu.2
              have hce := hcs.noU hprev hu.1
              have hs_ign : s = .ignored .expendable := by
                rcases hs' with rfl | rfl
                · rw [hu.1] at hU; cases hU
                · rfl
              have hnone : (walkChildren normalOpts (joinPath path name) cs).held.filter
                  (fun i => i.status != s && normalOpts.emits i) = [] := by
                rw [List.filter_eq_nil_iff]
                intro x hx
                rcases hheldok x hx with h | h | h
                · simp [emits_tracked x h]
                · exfalso
                  have hany : anyU (leavesL cs) = true := by
                    rw [← hsum.anyU, anyU_map]
                    exact List.any_eq_true.mpr ⟨x, hx, by simp [h]⟩
                  rw [hu.1] at hany; cases hany
                · simp [h, hs_ign]
              rw [hre, hce, hnone]; rfl
        · -- not folded: everything inside is reported
          have hnone : gitFold (leavesL cs) = none := by
            cases hgf : gitFold (leavesL cs) with
            | none => rfl
            | some s' =>
              rw [hgf, hw] at hfold
              exact absurd hfold.2.1 (by simp)
          rw [hw, hnone]
          simp only [List.nil_append, Bool.true_or]
          refine ⟨?_, ?_, ?_⟩
          · unfold out
            simp only [List.map_append, List.append_assoc]
            have h1 := hcs.perm
            unfold out at h1 hp
            simp only [List.map_append] at h1 hp
            rw [← List.append_assoc]
            exact List.Perm.append h1 hp
          · intro h; cases h
          · intro h; cases h
    · -- not entered: an ignored directory or a nested repository
      simp only [hent, Bool.false_eq_true, if_false, shouldHold_ok hok, if_true, List.cons_append,
        List.nil_append]
      exact e_cons _ _ _ _ _ _ (emits_filter_one _ _ _ _) hrest
  · intro _ _ path
    rw [walkChildren.eq_1]
    exact ⟨List.Perm.refl _, fun _ i hi => (by cases hi), fun _ _ => rfl⟩
  · intro t ts iht ihts hg hs path
    simp only [goodL, Bool.and_eq_true] at hg
    simp only [saneL, Bool.and_eq_true] at hs
    simp only [leavesL, gitShowL]
    exact iht hg.1 hs.1 path ts (walkChildren_inv ts hg.2 path) (ihts hg.2 hs.2 path)

/-- the whole walk from the worktree root lists what git lists -/
theorem walk_eq_git (cs : List Tree) (hg : goodL cs = true) (hs : saneL cs = true) :
    ((walk normalOpts cs).map shownOf).Perm (gitShowL [] cs) := by
  have h := (walk_show cs hg hs []).perm
  unfold out at h
  cases cs with
  | nil =>
    have : walk normalOpts [] = [] := by
      unfold walk
      rw [walkDir.eq_1]
      simp [WalkOpts.shouldHold, WalkOpts.emits, normalOpts]
    rw [this, gitShowL]
    exact List.Perm.refl _
  | cons t ts =>
    have hw : walk normalOpts (t :: ts) =
        (walkChildren normalOpts [] (t :: ts)).emitted ++
          (walkChildren normalOpts [] (t :: ts)).held.filter normalOpts.emits := by
      unfold walk
      rw [walkDir.eq_1]
      simp only [List.isEmpty_cons, Bool.false_eq_true, if_false, Bool.false_and]
      split <;> simp
    rw [hw]
    exact h

/-! ### a wider domain for single entries: special files (FIFOs, sockets, devices) in place of a
symbolic link are a type change for both programs -/

/-- `Domain` without the restriction of the worktree file's kind, for entries that are symbolic
links: whatever is there instead of the link. (For regular-file entries a special file is a
recorded difference: gitoxide says "type change", git says "modified" — `special_file_differs`.) -/
structure DomainW (e : Entry) (m : Meta) (tsS : Nat) (o : Opts) (hashDiffers : Bool) : Prop where
  mode : e.mode = .file ∨ e.mode = .fileExec ∨ e.mode = .symlink
  kind : m.kind = .other → e.mode = .symlink
  build : o.stat.useNsec = false ∧ o.stat.useStdev = false
  ts : tsS % 2 ^ 32 ≠ 0
  size : m.stat.size = m.len % 2 ^ 32
  wellFormed : e.emptyBlob = true → e.stat.size = 0
  content : e.emptyBlob = true → m.stat.size ≠ 0 → hashDiffers = true
  noLinkWithoutSymlinks : ¬ (e.mode = .symlink ∧ o.symlink = false ∧ m.kind = .symlink)
  ctimeMinimal : o.stat.checkStat = false → o.stat.trustCtime = true → e.stat.ctimeS = m.stat.ctimeS

theorem entry_found_wide (e : Entry) (m : Meta) (tsS tsN : Nat) (o : Opts) (hd : Bool)
    (h : DomainW e m tsS o hd) :
    letterOf (entryStatus e (.found m) tsS tsN o hd) = gitLetter e (.found m) tsS o hd := by
  by_cases hk : m.kind = .other
  · have hm := h.kind hk
    unfold entryStatus gitLetter gitIeModified gitIeMatchStat gitBasic gitTypeDiffers changeToMatchFs Chg.any
    cases hs : e.skip <;> cases hi : e.intentToAdd <;> cases hl : o.symlink <;>
      simp [hk, hm, hs, hi, hl, letterOf]
  · apply entry_found
    obtain ⟨h1, _, h3, h4, h5, h6, h7, h8, h9⟩ := h
    refine ⟨h1, ?_, h3, h4, h5, h6, h7, h8, h9⟩
    cases hk' : m.kind with
    | file => exact Or.inl rfl
    | symlink => exact Or.inr (Or.inl rfl)
    | dir => exact Or.inr (Or.inr rfl)
    | other => exact absurd hk' hk

theorem domain_wide (e : Entry) (m : Meta) (tsS : Nat) (o : Opts) (hd : Bool) (h : Domain e m tsS o hd) :
    DomainW e m tsS o hd := by
  obtain ⟨h1, h2, h3, h4, h5, h6, h7, h8, h9⟩ := h
  refine ⟨h1, ?_, h3, h4, h5, h6, h7, h8, h9⟩
  intro hk
  rcases h2 with h | h | h <;> rw [hk] at h <;> cases h

theorem reported_iff (s : Status) : s.reported = true ↔ letterOf s ≠ .clean := by
  cases s <;> simp [Status.reported, letterOf]

/-- the changes of index entries, printed as git prints them, are git's -/
theorem changes_eq_git (es : List EntryFacts) (tsS tsN : Nat) (o : Opts)
    (hdom : ∀ x ∈ es, ∀ m, x.l = .found m → DomainW x.e m tsS o x.hashDiffers) :
    (es.filterMap fun x =>
      let s := entryStatus x.e x.l tsS tsN o x.hashDiffers
      if s.reported then some (Line.change x.path s) else none).map lineOf =
    es.filterMap fun x =>
      let l := gitLetter x.e x.l tsS o x.hashDiffers
      if l = .clean then none else some (GLine.change x.path l) := by
  induction es with
  | nil => rfl
  | cons x xs ih =>
    have hx : letterOf (entryStatus x.e x.l tsS tsN o x.hashDiffers) = gitLetter x.e x.l tsS o x.hashDiffers := by
      cases hl : x.l with
      | notFound =>
        unfold entryStatus gitLetter
        cases x.e.skip <;> simp [letterOf]
      | found m => exact entry_found_wide x.e m tsS tsN o x.hashDiffers (hdom x (List.mem_cons_self ..) m hl)
    have ih' := ih (fun y hy => hdom y (List.mem_cons_of_mem _ hy))
    simp only [List.filterMap_cons]
    by_cases hr : (entryStatus x.e x.l tsS tsN o x.hashDiffers).reported = true
    · have hne := (reported_iff _).mp hr
      rw [hx] at hne
      simp only [hr, if_true, hne, if_false, List.map_cons, lineOf, hx]
      rw [ih']
    · have hcl : gitLetter x.e x.l tsS o x.hashDiffers = .clean := by
        rw [← hx]
        by_cases hc : letterOf (entryStatus x.e x.l tsS tsN o x.hashDiffers) = .clean
        · exact hc
        · exact absurd ((reported_iff _).mpr hc) hr
      simp only [hr, Bool.false_eq_true, if_false, hcl, if_true]
      exact ih'

/-- END TO END ON THE MODELS: the multiset of lines of the status model is git's -/
theorem report_eq_git (w : Worktree)
    (hdom : ∀ x ∈ w.entries, ∀ m, x.l = .found m → DomainW x.e m w.tsS w.o x.hashDiffers)
    (hg : goodL w.tree = true) (hs : saneL w.tree = true) :
    ((report w normalOpts).map lineOf).Perm (gitReport w) := by
  unfold report gitReport
  rw [List.map_append, changes_eq_git w.entries w.tsS w.tsN w.o hdom]
  apply List.Perm.append_left
  have h := (walk_eq_git w.tree hg hs).map (fun x : Shown => GLine.other x.1 x.2)
  simpa [List.map_map, Function.comp_def, shownOf, lineOf] using h

end GixModel.C49
