import GixModel.Lemmas.C24File
/-
C24 — lemmas for extension payloads: digit rendering/parsing, the resolve-undo extension.
-/
namespace GixModel.C24
open GixModel GixModel.Spec.C24

/-! ### digits -/

theorem digitsFuel_bytes (b : Nat) (hb2 : 2 ≤ b) (hb : b ≤ 10) : ∀ (f n : Nat), ∀ x ∈ digitsFuel b f n, 48 ≤ x.toNat ∧ x.toNat ≤ 57 := by
  intro f
  induction f with
  | zero => intro n x hx; simp [digitsFuel] at hx
  | succ f ih =>
    intro n x hx
    unfold digitsFuel at hx
    split at hx
    · simp only [List.mem_cons, List.not_mem_nil, or_false] at hx
      subst hx; rw [u8]; omega
    · simp only [List.mem_append, List.mem_cons, List.not_mem_nil, or_false] at hx
      rcases hx with hx | hx
      · exact ih _ x hx
      · subst hx; rw [u8]
        have : n % b < b := Nat.mod_lt _ (by omega)
        omega

theorem digitsFuel_ne_nil (b f n : Nat) : digitsFuel b (f + 1) n ≠ [] := by
  unfold digitsFuel
  split <;> simp

def octStep (bound : Nat) (acc : Option Nat) (b : UInt8) : Option Nat :=
  match acc with
  | none => none
  | some a => if isOctDigit b then (if a * 8 + (b.toNat - 48) < bound then some (a * 8 + (b.toNat - 48)) else none) else none

theorem octFold_digits (bound : Nat) : ∀ (f n : Nat), n < f → n < bound →
    (digitsFuel 8 f n).foldl (octStep bound) (some 0) = some n := by
  intro f
  induction f with
  | zero => intro n h; omega
  | succ f ih =>
    intro n hf hb
    unfold digitsFuel
    by_cases h8 : n < 8
    · simp only [h8, if_true, List.foldl_cons, List.foldl_nil, octStep, isOctDigit, u8]
      have h1 : (48 + n) % 256 = 48 + n := by omega
      simp only [h1]
      have h2 : (decide (48 ≤ 48 + n) && decide (48 + n ≤ 55)) = true := by simp; omega
      simp only [h2, if_true]
      have h3 : 0 * 8 + (48 + n - 48) = n := by omega
      simp only [h3, hb, if_true]
    · simp only [h8, if_false, List.foldl_append, List.foldl_cons, List.foldl_nil]
      rw [ih (n / 8) (by omega) (by omega)]
      simp only [octStep, isOctDigit, u8]
      have h1 : (48 + n % 8) % 256 = 48 + n % 8 := by omega
      simp only [h1]
      have h2 : (decide (48 ≤ 48 + n % 8) && decide (48 + n % 8 ≤ 55)) = true := by simp; omega
      simp only [h2, if_true]
      have h3 : n / 8 * 8 + (48 + n % 8 - 48) = n := by omega
      simp only [h3, hb, if_true]

theorem parseOctU32_digits (ds : Bytes) (hne : ds ≠ []) (hb : ∀ x ∈ ds, 48 ≤ x.toNat) :
    parseOctU32 ds = ds.foldl (octStep 4294967296) (some 0) := by
  cases ds with
  | nil => exact absurd rfl hne
  | cons x xs =>
    have hx := hb x (by simp)
    unfold parseOctU32
    split
    · rename_i rest heq
      simp only [List.cons.injEq] at heq
      have : x.toNat = 43 := by rw [heq.1]; rfl
      omega
    · simp only [List.isEmpty_cons, Bool.false_eq_true, if_false]
      rfl

theorem parseOctU32_natOctal (m : Nat) (hm : m < 4294967296) : parseOctU32 (natOctal m) = some m := by
  unfold natOctal
  rw [parseOctU32_digits _ (digitsFuel_ne_nil 8 m m)
    (fun x hx => (digitsFuel_bytes 8 (by decide) (by decide) (m + 1) m x hx).1)]
  exact octFold_digits 4294967296 (m + 1) m (by omega) hm


/-! ### REUC -/

def WfStage (s : Option (Nat × Bytes)) : Prop :=
  match s with
  | none => True
  | some (m, h) => 1 ≤ m ∧ m < 4294967296 ∧ h.length = hashLen

structure WfReucPath (p : ReucPath) : Prop where
  name_nul : ∀ b ∈ p.name, b ≠ 0
  three : p.stages.length = 3
  stages : ∀ s ∈ p.stages, WfStage s

theorem gitEncodeReucPath_eq (p : ReucPath) :
    gitEncodeReucPath p = p.name ++ (0 :: ((p.stages.flatMap fun s => natOctal (modeOf s) ++ [0]) ++
      p.stages.flatMap hashOf)) := by
  unfold gitEncodeReucPath
  simp only [List.append_assoc, List.cons_append, List.nil_append]

theorem natOctal_no_nul (m : Nat) : ∀ x ∈ natOctal m, x ≠ 0 := by
  intro x hx h0
  have := (digitsFuel_bytes 8 (by decide) (by decide) (m + 1) m x hx).1
  rw [h0] at this
  simp at this

theorem natOctal_length_pos (m : Nat) : 1 ≤ (natOctal m).length := by
  unfold natOctal
  cases h : digitsFuel 8 (m + 1) m with
  | nil => exact absurd h (digitsFuel_ne_nil 8 m m)
  | cons _ _ => simp

theorem reucModes_encoded : ∀ (stages : List (Option (Nat × Bytes))) (rest : Bytes),
    (∀ s ∈ stages, WfStage s) →
    reucModes stages.length ((stages.flatMap fun s => natOctal (modeOf s) ++ [0]) ++ rest)
      = some (stages.map modeOf, rest) := by
  intro stages
  induction stages with
  | nil => intro rest _; rfl
  | cons s ss ih =>
    intro rest hwf
    have hs : modeOf s < 4294967296 := by
      have := hwf s (by simp)
      cases s with
      | none => simp [modeOf]
      | some x => obtain ⟨m, h⟩ := x; exact this.2.1
    simp only [List.flatMap_cons, List.length_cons, List.append_assoc, reucModes, List.cons_append, List.nil_append]
    have hlen2 : 2 ≤ (natOctal (modeOf s) ++ (0 :: ((ss.flatMap fun s => natOctal (modeOf s) ++ [0]) ++ rest))).length := by
      have := natOctal_length_pos (modeOf s)
      simp only [List.length_append, List.length_cons]; omega
    rw [splitAtByteExclusive_eq _ _ hlen2, splitAtByte_append 0 _ _ (natOctal_no_nul _)]
    simp only [parseOctU32_natOctal _ hs, ih rest (fun x hx => hwf x (by simp [hx])), List.map_cons]

theorem reucStages_encoded : ∀ (stages : List (Option (Nat × Bytes))) (rest : Bytes),
    (∀ s ∈ stages, WfStage s) →
    reucStages (stages.map modeOf) (stages.flatMap hashOf ++ rest) = some (stages, rest) := by
  intro stages
  induction stages with
  | nil => intro rest _; rfl
  | cons s ss ih =>
    intro rest hwf
    have hrec := ih rest (fun x hx => hwf x (by simp [hx]))
    have hs := hwf s (by simp)
    cases s with
    | none =>
      simp only [List.map_cons, modeOf, reucStages, if_true, List.flatMap_cons, hashOf, List.nil_append, hrec]
    | some x =>
      obtain ⟨m, h⟩ := x
      obtain ⟨h1, _, h3⟩ := hs
      have hne : ¬ (m = 0) := by omega
      simp only [List.map_cons, modeOf, reucStages, hne, if_false, List.flatMap_cons, hashOf, List.append_assoc]
      rw [← h3, splitAtPos_append]
      simp only [hrec]

theorem reucGo_encoded : ∀ (ps : List ReucPath) (fuel : Nat), ps.length < fuel → (∀ p ∈ ps, WfReucPath p) →
    reucGo fuel (gitEncodeReuc ps) = some ps := by
  intro ps
  induction ps with
  | nil =>
    intro fuel hf _
    cases fuel with
    | zero => omega
    | succ f => simp [reucGo, gitEncodeReuc]
  | cons p ps ih =>
    intro fuel hf hwf
    cases fuel with
    | zero => omega
    | succ f =>
      have hp := hwf p (by simp)
      have henc : gitEncodeReuc (p :: ps) = gitEncodeReucPath p ++ gitEncodeReuc ps := by
        simp [gitEncodeReuc, List.flatMap_cons]
      rw [henc, gitEncodeReucPath_eq, reucGo]
      have hnonempty : (p.name ++ (0 :: ((p.stages.flatMap fun s => natOctal (modeOf s) ++ [0]) ++
          p.stages.flatMap hashOf)) ++ gitEncodeReuc ps).isEmpty = false := by
        cases p.name <;> simp
      rw [hnonempty]
      simp only [Bool.false_eq_true, if_false, List.append_assoc, List.cons_append]
      -- at least "0\0" follows the name's NUL: three stages
      have hstage_len : 1 ≤ ((p.stages.flatMap fun s => natOctal (modeOf s) ++ [0]) ++
          (p.stages.flatMap hashOf ++ gitEncodeReuc ps)).length := by
        have h3 := hp.three
        cases hst : p.stages with
        | nil => rw [hst] at h3; simp at h3
        | cons s ss =>
          simp only [List.flatMap_cons, List.length_append, List.length_cons]
          omega
      have hlen2 : 2 ≤ (p.name ++ (0 :: ((p.stages.flatMap fun s => natOctal (modeOf s) ++ [0]) ++
          (p.stages.flatMap hashOf ++ gitEncodeReuc ps)))).length := by
        simp only [List.length_append, List.length_cons] at hstage_len ⊢; omega
      rw [splitAtByteExclusive_eq _ _ hlen2, splitAtByte_append 0 _ _ hp.name_nul]
      simp only []
      have hm := reucModes_encoded p.stages (p.stages.flatMap hashOf ++ gitEncodeReuc ps) hp.stages
      rw [hp.three] at hm
      rw [hm]
      simp only [reucStages_encoded p.stages (gitEncodeReuc ps) hp.stages,
        ih f (by simp only [List.length_cons] at hf; omega) (fun x hx => hwf x (by simp [hx]))]

theorem reucDecode_encoded (ps : List ReucPath) (hwf : ∀ p ∈ ps, WfReucPath p) :
    reucDecode (gitEncodeReuc ps) = some ps := by
  unfold reucDecode
  apply reucGo_encoded ps _ _ hwf
  -- every path takes at least one byte
  have : ∀ (qs : List ReucPath), qs.length ≤ (gitEncodeReuc qs).length := by
    intro qs
    induction qs with
    | nil => simp
    | cons q qs ih =>
      have henc : gitEncodeReuc (q :: qs) = gitEncodeReucPath q ++ gitEncodeReuc qs := by
        simp [gitEncodeReuc, List.flatMap_cons]
      rw [henc, gitEncodeReucPath_eq]
      simp only [List.length_append, List.length_cons]
      omega
  have := this ps
  omega

end GixModel.C24
