import GixModel.Lemmas.C02Commit
/-
C02 helper lemmas, part 4: the two views of a commit — C01's owned `Commit` (values) and the git
grammar `GitCommit` (lines) — both print `commitBytes`, which the decoder reads back.
-/
namespace GixModel.C02
open GixModel GixModel.C01 GixModel.Spec.C02

/-! ### writable extra headers (values) are exactly git's header shapes (lines) -/

/-- name non-empty without SP/LF; value non-empty, not starting with LF, and either LF-free
(single line) or ending in LF with at least one more LF before (folded lines; the decoder keeps the
final LF of a folded value). -/
def ExtraWritable (nv : Bytes × Bytes) : Prop :=
  nv.1 ≠ [] ∧ nv.1.all (fun b => b != 32 && b != 10) = true
  ∧ nv.2 ≠ [] ∧ nv.2.head? ≠ some 10
  ∧ (noNl nv.2 = true ∨ (endsWithNl nv.2 = true ∧ noNl nv.2.dropLast = false))

instance (nv : Bytes × Bytes) : Decidable (ExtraWritable nv) := by unfold ExtraWritable; infer_instance

theorem lines_decompose : ∀ v : Bytes, ∃ (ls : List Bytes) (last : Bytes),
    (∀ l ∈ ls, ∀ b ∈ l, (b == 10) = false) ∧ (∀ b ∈ last, (b == 10) = false)
    ∧ v = ls.flatMap (fun l => l ++ [10]) ++ last := by
  intro v
  induction v with
  | nil => exact ⟨[], [], by simp, by simp, rfl⟩
  | cons b v ih =>
    obtain ⟨ls, last, h1, h2, h3⟩ := ih
    by_cases hb : (b == 10) = true
    · have : b = 10 := by simpa using hb
      subst this
      refine ⟨[] :: ls, last, ?_, h2, ?_⟩
      · intro l hl
        simp only [List.mem_cons] at hl
        rcases hl with rfl | hl
        · simp
        · exact h1 l hl
      · simp [h3]
    · cases ls with
      | nil =>
        refine ⟨[], b :: last, by simp, ?_, ?_⟩
        · intro x hx
          simp only [List.mem_cons] at hx
          rcases hx with rfl | hx
          · simpa using hb
          · exact h2 x hx
        · simp [h3]
      | cons l ls =>
        refine ⟨(b :: l) :: ls, last, ?_, h2, ?_⟩
        · intro x hx
          simp only [List.mem_cons] at hx
          rcases hx with rfl | hx
          · intro y hy
            simp only [List.mem_cons] at hy
            rcases hy with rfl | hy
            · simpa using hb
            · exact h1 l (by simp) y hy
          · exact h1 x (by simp [hx])
        · simp [h3]

theorem extra_to_header (nv : Bytes × Bytes) (hw : ExtraWritable nv) :
    ∃ h : GitHeader, h.Wf ∧ h.name = nv.1 ∧ headerValue h = nv.2 := by
  obtain ⟨hn1, hn2, hv1, hv2, hv3⟩ := hw
  rcases hv3 with hnl | ⟨hend, hmid⟩
  · refine ⟨⟨nv.1, nv.2, []⟩, ⟨hn1, hn2, hv1, hnl, by simp⟩, rfl, rfl⟩
  · obtain ⟨ls, last, h1, h2, h3⟩ := lines_decompose nv.2
    -- the value ends with LF, so there is no unterminated last piece
    have hlast : last = [] := by
      cases hl : last.getLast? with
      | none => simpa using hl
      | some x =>
        have hx : x ∈ last := List.mem_of_getLast? hl
        have : nv.2.getLast? = some x := by
          rw [h3, List.getLast?_append, hl]; rfl
        have h10 : x = 10 := by
          unfold endsWithNl at hend
          rw [this] at hend
          simpa using hend
        have := h2 x hx
        rw [h10] at this
        exact absurd this (by decide)
    subst hlast
    simp only [List.append_nil] at h3
    cases ls with
    | nil => exact absurd (by simpa using h3) hv1
    | cons l0 ls =>
      have hl0 : l0 ≠ [] := by
        intro h
        subst h
        rw [h3] at hv2
        simp at hv2
      have hls : ls ≠ [] := by
        intro h
        subst h
        have : nv.2.dropLast = l0 := by rw [h3]; simp
        rw [this] at hmid
        have : noNl l0 = true := (noNl_iff l0).mpr (h1 l0 (by simp))
        rw [this] at hmid
        exact absurd hmid (by simp)
      refine ⟨⟨nv.1, l0, ls⟩, ⟨hn1, hn2, hl0, (noNl_iff l0).mpr (h1 l0 (by simp)), ?_⟩, rfl, ?_⟩
      · apply List.all_eq_true.mpr
        intro l hl
        exact (noNl_iff l).mpr (h1 l (by simp [hl]))
      · cases ls with
        | nil => exact absurd rfl hls
        | cons l1 ls => rw [h3]; simp [headerValue]

theorem extras_to_headers (xs : List (Bytes × Bytes)) (hw : ∀ nv ∈ xs, ExtraWritable nv) :
    ∃ hs : List GitHeader, (∀ h ∈ hs, h.Wf) ∧ hs.map (fun h => (h.name, headerValue h)) = xs := by
  induction xs with
  | nil => exact ⟨[], by simp, rfl⟩
  | cons nv xs ih =>
    obtain ⟨hs, h1, h2⟩ := ih (fun x hx => hw x (by simp [hx]))
    obtain ⟨h, hwf, hn, hv⟩ := extra_to_header nv (hw nv (by simp))
    refine ⟨h :: hs, ?_, ?_⟩
    · intro x hx
      simp only [List.mem_cons] at hx
      rcases hx with rfl | hx
      · exact hwf
      · exact h1 x hx
    · simp [h2, hn, hv]

theorem extraLines_headers (hs : List GitHeader) (hw : ∀ h ∈ hs, h.Wf) :
    extraLines (hs.map (fun h => (h.name, headerValue h))) = some (hs.flatMap GitHeader.render) := by
  induction hs with
  | nil => rfl
  | cons h hs ih =>
    have h1 := headerFieldMultiLine_render h (hw h (by simp))
    have h2 := ih (fun x hx => hw x (by simp [hx]))
    unfold extraLines at h2 ⊢
    simp only [List.map_cons, concatOpts, h1, h2, optAppend, List.flatMap_cons]

/-! ### C01's `Commit` -/

/-- the writable (round-trip) domain for commits, DESIGN.md §6 C01 -/
def CommitWritable (c : Commit) : Prop :=
  c.tree.length = 20 ∧ (∀ p ∈ c.parents, p.length = 20)
  ∧ SigWritable c.author ∧ SigWritable c.committer ∧ encodingWf c.encoding
  ∧ (∀ nv ∈ c.extra, ExtraWritable nv)
  ∧ (c.encoding = none → c.extra.head?.map (·.1) ≠ some encodingName)

instance (c : Commit) : Decidable (CommitWritable c) := by unfold CommitWritable; infer_instance

theorem encodingLine_render (enc : Option Bytes) (h : encodingWf enc) :
    encodingLine enc = some (renderEncoding enc) := by
  cases enc with
  | none => rfl
  | some e =>
    obtain ⟨hne, hnl⟩ := h
    have h1 : e.isEmpty = false := by cases e <;> simp_all
    have h3 : (10 : UInt8) ∉ e := by
      intro hm
      have := ((noNl_iff e).mp hnl) 10 hm
      exact absurd this (by decide)
    simp [encodingLine, headerField, h1, h3, renderEncoding, encodingName]

theorem commit_write_bytes (c : Commit) (hs : List GitHeader) (hw : ∀ h ∈ hs, h.Wf)
    (hx : hs.map (fun h => (h.name, headerValue h)) = c.extra) (henc : encodingWf c.encoding)
    (aw cw : Bytes) (ha : c.author.write = some aw) (hc : c.committer.write = some cw) :
    c.write = some (commitBytes c.tree c.parents aw cw c.encoding hs c.message) := by
  have h1 := extraLines_headers hs hw
  rw [hx] at h1
  have h2 := encodingLine_render c.encoding henc
  simp only [Commit.write, concatOpts, optAppend, ha, hc, h1, h2, Option.map_some, parentLines,
    commitBytes, kTree, kParent, kAuthor, kCommitter]
  simp

theorem commit_roundtrip_core (c : Commit) (hw : CommitWritable c) :
    ∃ bs, c.write = some bs ∧ decodeCommit bs = some c := by
  obtain ⟨ht, hp, ha, hc, henc, hex, hfe⟩ := hw
  obtain ⟨hs, hhs, hmap⟩ := extras_to_headers c.extra hex
  have hfe' : firstExtraNotEncoding c.encoding hs := by
    intro hnone
    have := hfe hnone
    rw [← hmap] at this
    cases hs with
    | nil => simp
    | cons h hs => simpa using this
  obtain ⟨aw, cw, haw, hcw, hparse⟩ :=
    parseCommit_bytes c.tree c.parents c.author c.committer c.encoding hs c.message ht hp ha hc henc hhs hfe'
  refine ⟨_, commit_write_bytes c hs hhs hmap henc aw cw haw hcw, ?_⟩
  unfold decodeCommit
  rw [hparse]
  simp only [CommitRef.toOwned, unhex_hexBytes, unhexAll_map, hmap]

/-! ### git's commits -/

theorem absTime_writable (g : GitIdent) (hw : g.Wf) : TimeWritable (absTime g) := by
  obtain ⟨_, _, _, _, ⟨hs1, hs2⟩, hh, hm⟩ := hw
  unfold TimeWritable absTime
  cases hmi : g.tzMinus with
  | true =>
    simp only [if_true]
    refine ⟨hs1, hs2, by omega, by omega, fun _ => trivial, by intro h; omega⟩
  | false =>
    simp only [Bool.false_eq_true, if_false]
    refine ⟨hs1, hs2, by omega, by omega, by intro h; omega, fun _ => trivial⟩

theorem absIdent_writable (g : GitIdent) (hw : g.Wf) : SigWritable (absIdent g) := by
  have ht := absTime_writable g hw
  obtain ⟨h1, h2, h3, h4, _⟩ := hw
  exact ⟨h1, h2, h3, h4, ht⟩

theorem absIdent_write (g : GitIdent) (hw : g.Wf) : (absIdent g).write = some g.render := by
  have hsw := absIdent_writable g hw
  have htw := time_write_eq (absTime g) hsw.2.2.2.2
  obtain ⟨h1, h2, _, _, _, hh, hm⟩ := hw
  obtain ⟨name, email, secs, mi, H, M⟩ := g
  simp only at h1 h2 hh hm
  have e1 : (H * 3600 + M * 60) / 3600 = H := by omega
  have e2 : (H * 3600 + M * 60 - H * 3600) / 60 = M := by omega
  cases mi with
  | true =>
    have hna : (absTime ⟨name, email, secs, true, H, M⟩).offset.natAbs = H * 3600 + M * 60 := by
      simp only [absTime, if_true]; omega
    rw [hna, e1, e2] at htw
    simp only [Signature.write, absIdent, h1, h2, htw, Bool.false_eq_true, if_false]
    simp [GitIdent.render, absTime]
  | false =>
    have hna : (absTime ⟨name, email, secs, false, H, M⟩).offset.natAbs = H * 3600 + M * 60 := by
      simp only [absTime, Bool.false_eq_true, if_false]; omega
    rw [hna, e1, e2] at htw
    simp only [Signature.write, absIdent, h1, h2, htw, Bool.false_eq_true, if_false]
    simp [GitIdent.render, absTime]

theorem gitCommit_render_bytes (g : GitCommit) :
    g.render = commitBytes g.tree g.parents g.author.render g.committer.render g.encoding g.extra g.message := by
  simp [GitCommit.render, commitBytes, kTree, kParent, kAuthor, kCommitter]

theorem parse_rendered_commit (g : GitCommit) (hw : g.Wf) : parseCommit g.render = some (absCommit g) := by
  obtain ⟨ht, hp, ha, hc, henc, hhs, hfe⟩ := hw
  obtain ⟨aw, cw, haw, hcw, hparse⟩ :=
    parseCommit_bytes g.tree g.parents (absIdent g.author) (absIdent g.committer) g.encoding g.extra
      g.message ht hp (absIdent_writable _ ha) (absIdent_writable _ hc) henc hhs hfe
  rw [absIdent_write _ ha] at haw
  rw [absIdent_write _ hc] at hcw
  simp only [Option.some.injEq] at haw hcw
  subst haw hcw
  rw [gitCommit_render_bytes, hparse]
  rfl

/-- the owned value behind a git commit -/
def gitCommitOwned (g : GitCommit) : Commit :=
  { tree := g.tree, parents := g.parents, author := absIdent g.author, committer := absIdent g.committer,
    encoding := g.encoding, extra := g.extra.map (fun h => (h.name, headerValue h)), message := g.message }

theorem absCommit_toOwned (g : GitCommit) : (absCommit g).toOwned = some (gitCommitOwned g) := by
  simp [CommitRef.toOwned, absCommit, unhex_hexBytes, unhexAll_map, gitCommitOwned]

theorem gitCommitOwned_write (g : GitCommit) (hw : g.Wf) : (gitCommitOwned g).write = some g.render := by
  obtain ⟨_, _, ha, hc, henc, hhs, _⟩ := hw
  rw [gitCommit_render_bytes]
  exact commit_write_bytes (gitCommitOwned g) g.extra hhs rfl henc _ _ (absIdent_write _ ha) (absIdent_write _ hc)

end GixModel.C02
