import GixModel.Model.C55
/-
C55 — the breadth-first traversal writes exactly the leaves of the tree (blobs, executables, links
that are not export-ignored, below directories that are not export-ignored), each once.
-/
namespace GixModel.C55
open GixModel

mutual
  /-- the entry (or entries below) one tree entry stands for -/
  def leavesNode (ign : Bytes → Nat → Bool) (conv : Bytes → Bytes → Bytes) (p : Bytes) : Node → List Entry
    | .blob kind id content => if ign p kind then [] else [{ path := p, kind, id, body := .known (conv p content) }]
    | .commit _ => []
    | .tree cs => if ign p 0 then [] else leavesForest ign conv p cs
  /-- depth-first listing: what `git ls-tree -r` shows, minus submodules and export-ignored paths -/
  def leavesForest (ign : Bytes → Nat → Bool) (conv : Bytes → Bytes → Bytes) (pre : Bytes) : Forest → List Entry
    | .nil => []
    | .cons name node rest => leavesNode ign conv (joinPath pre name) node ++ leavesForest ign conv pre rest
end

def weight (q : List (Bytes × Forest)) : Nat := (q.map (fun pg => pg.2.trees + 1)).sum

theorem weight_append (a b : List (Bytes × Forest)) : weight (a ++ b) = weight a + weight b := by
  simp [weight, List.sum_append]

abbrev L (ign : Bytes → Nat → Bool) (conv : Bytes → Bytes → Bytes) (pg : Bytes × Forest) : List Entry :=
  leavesForest ign conv pg.1 pg.2

theorem scan_weight (ign : Bytes → Nat → Bool) (conv : Bytes → Bytes → Bytes) (pre : Bytes) :
    ∀ f : Forest, weight (scan ign conv pre f).2 ≤ f.trees
  | .nil => by simp [scan, weight, Forest.trees]
  | .cons name node rest => by
    have ih := scan_weight ign conv pre rest
    cases node with
    | blob kind id content =>
      simp only [scan, Forest.trees, Node.trees]
      split <;> (simp only []; omega)
    | commit id =>
      simp only [scan, Forest.trees, Node.trees]
      omega
    | tree cs =>
      simp only [scan, Forest.trees, Node.trees]
      split
      · simp only []; omega
      · simp only [weight, List.map_cons, List.sum_cons] at ih ⊢; omega

theorem scan_perm (ign : Bytes → Nat → Bool) (conv : Bytes → Bytes → Bytes) (pre : Bytes) :
    ∀ f : Forest, (leavesForest ign conv pre f).Perm
      ((scan ign conv pre f).1 ++ (scan ign conv pre f).2.flatMap (L ign conv))
  | .nil => by simp [scan, leavesForest]
  | .cons name node rest => by
    have ih := scan_perm ign conv pre rest
    cases node with
    | blob kind id content =>
      simp only [scan, leavesForest, leavesNode]
      split
      · simpa using ih
      · simp only [List.cons_append, List.nil_append]
        exact List.Perm.cons _ ih
    | commit id =>
      simp only [scan, leavesForest, leavesNode, List.nil_append]
      exact ih
    | tree cs =>
      simp only [scan, leavesForest, leavesNode]
      split
      · simpa using ih
      · simp only [List.flatMap_cons, L]
        -- A ++ B ~ S1 ++ (A ++ F)   from   B ~ S1 ++ F
        refine (List.Perm.append_left _ ih).trans ?_
        rw [← List.append_assoc, ← List.append_assoc]
        exact List.Perm.append_right _ List.perm_append_comm

theorem bfs_perm (ign : Bytes → Nat → Bool) (conv : Bytes → Bytes → Bytes) :
    ∀ (fuel : Nat) (q : List (Bytes × Forest)), weight q ≤ fuel →
      (bfs ign conv fuel q).Perm (q.flatMap (L ign conv)) := by
  intro fuel
  induction fuel with
  | zero =>
    intro q h
    cases q with
    | nil => simp [bfs]
    | cons pg q' => simp [weight] at h
  | succ fuel ih =>
    intro q h
    cases q with
    | nil => simp [bfs]
    | cons pg q' =>
      obtain ⟨pre, f⟩ := pg
      simp only [bfs, List.flatMap_cons]
      have hw : weight (q' ++ (scan ign conv pre f).2) ≤ fuel := by
        rw [weight_append]
        have := scan_weight ign conv pre f
        simp only [weight, List.map_cons, List.sum_cons] at h ⊢
        simp only [weight] at this
        omega
      have h1 := ih (q' ++ (scan ign conv pre f).2) hw
      rw [List.flatMap_append] at h1
      have h2 := scan_perm ign conv pre f
      -- S1 ++ bfs … ~ S1 ++ (Q ++ F) ~ (S1 ++ F) ++ Q ~ leaves ++ Q
      refine (List.Perm.append_left _ h1).trans ?_
      refine List.Perm.trans ?_ (List.Perm.append_right _ h2.symm)
      rw [List.append_assoc]
      exact List.Perm.append_left _ List.perm_append_comm

/-- `from_tree` writes a permutation of the leaves: every leaf exactly once, nothing else -/
theorem fromTree_perm (ign : Bytes → Nat → Bool) (conv : Bytes → Bytes → Bytes) (root : Forest) :
    (fromTree ign conv root).Perm (leavesForest ign conv [] root) := by
  have := bfs_perm ign conv (root.trees + 1) [([], root)] (by simp [weight])
  simpa [fromTree, L] using this

end GixModel.C55
