import GixModel.Lemmas.C10e
/-
C10 — the invariant of `injectBases` that carries "every delta points at its base" (`BInv`) and the
general extension step: one more input entry, possibly with a base inserted in front of it.
-/
namespace GixModel.C10

/-- offsets of the thin pack grow strictly -/
def StrictOfs (entries : List InEntry) : Prop :=
  ∀ (i j : Nat) (ei ej : InEntry), i < j → entries[i]? = some ei → entries[j]? = some ej → ei.ofs < ej.ofs

theorem ofsLenAux_le (fuel n : Nat) : ofsLenAux fuel n ≤ fuel := by
  induction fuel generalizing n with
  | zero => simp [ofsLenAux]
  | succ f ih =>
    simp only [ofsLenAux]
    split
    · omega
    · have := ih ((n - 1) / 128); omega

theorem ofsLen_le (d : Nat) : ofsLen d ≤ 11 := by
  unfold ofsLen; have := ofsLenAux_le 10 (d / 128); omega

theorem mem_le_endOf (out : List OutEntry) (start : Nat) (hc : contiguous out = true) :
    ∀ oe ∈ out, oe.ofs + oe.hsize + oe.body ≤ endOf out start := by
  induction out with
  | nil => intro oe h; cases h
  | cons a rest ih =>
    cases rest with
    | nil =>
      intro oe h
      simp only [List.mem_singleton] at h; subst h
      simp [endOf]
    | cons b rest' =>
      simp only [contiguous, Bool.and_eq_true, beq_iff_eq] at hc
      have ih' := ih hc.2
      have hend : endOf (a :: b :: rest') start = endOf (b :: rest') start := by
        simp [endOf, List.getLast?_cons_cons]
      intro oe h
      rw [hend]
      rcases List.mem_cons.mp h with rfl | h
      · have := ih' b List.mem_cons_self
        omega
      · exact ih' oe h

structure BInv (entries : List InEntry) (start : Nat) (st : IState) (i next : Nat) : Prop where
  base : IInv start st next
  srcs : st.out.filterMap (fun o => o.src) = List.range i
  g2 : ∀ c ∈ st.changes, c.packOfs < next
  own : ∀ c ∈ st.changes, c.oid = none →
    ∃ oe ∈ st.out, ∃ (j : Nat) (e : InEntry), oe.src = some j ∧ entries[j]? = some e ∧ c.packOfs = e.ofs ∧ c.shifted = oe.ofs
  baseRec : ∀ c ∈ st.changes, ∀ id, c.oid = some id → ∃ oe ∈ st.out, oe.src = none ∧ oe.ofs = c.shifted ∧ oe.baseId = some id
  noRec : ∀ oe ∈ st.out, ∀ (j : Nat) (e : InEntry), oe.src = some j → entries[j]? = some e →
    (∀ c ∈ st.changes, c.packOfs ≠ e.ofs) →
    (oe.ofs : Int) = (e.ofs : Int) + sumDeltas (st.changes.takeWhile fun c => decide (c.packOfs < e.ofs))
  adj : ∀ (k : Nat) (c : Change) (id : Nat), st.changes[k]? = some c → c.oid = some id →
    ∃ c', st.changes[k + 1]? = some c' ∧ c'.packOfs = c.packOfs ∧ c'.oid = none
  uniqOwn : ∀ (p q : Nat) (c c' : Change), st.changes[p]? = some c → st.changes[q]? = some c' → c.oid = none → c'.oid = none →
    c.packOfs = c'.packOfs → p = q
  total : st.total = sumDeltas st.changes
  pts : ∀ oe ∈ st.out, PointsOk entries st.out oe
  opos : ∀ oe ∈ st.out, 0 < oe.hsize + oe.body

theorem binv_init (entries : List InEntry) (first : InEntry) :
    BInv entries first.ofs { changes := [], total := 0, out := [] } 0 first.ofs := by
  have hI : IInv first.ofs { changes := [], total := 0, out := [] } first.ofs := by
    refine ⟨rfl, fun o ho => ?_, ?_, fun _ => rfl, fun _ => ⟨rfl, rfl⟩⟩
    · cases ho
    · show ((endOf [] first.ofs : Nat) : Int) = (first.ofs : Int) + 0
      simp [endOf]
  refine ⟨hI, rfl, ?_, ?_, ?_, ?_, ?_, ?_, rfl, ?_, ?_⟩
  · intro c hc; cases hc
  · intro c hc; cases hc
  · intro c hc; cases hc
  · intro oe hoe; cases hoe
  · intro k c id h; simp at h
  · intro p q c c' h; simp at h
  · intro oe hoe; cases hoe
  · intro oe hoe; cases hoe

/-- an output entry of an already processed input entry exists -/
theorem BInv.out_of_src {entries : List InEntry} {start : Nat} {st : IState} {i next : Nat}
    (inv : BInv entries start st i next) (j : Nat) (hj : j < i) : ∃ oe ∈ st.out, oe.src = some j := by
  have : j ∈ st.out.filterMap (fun o => o.src) := by rw [inv.srcs]; exact List.mem_range.mpr hj
  obtain ⟨oe, hoe, hs⟩ := List.mem_filterMap.mp this
  exact ⟨oe, hoe, hs⟩

theorem BInv.src_lt {entries : List InEntry} {start : Nat} {st : IState} {i next : Nat}
    (inv : BInv entries start st i next) (oe : OutEntry) (hoe : oe ∈ st.out) (j : Nat) (hs : oe.src = some j) :
    j < i := by
  have : j ∈ st.out.filterMap (fun o => o.src) := List.mem_filterMap.mpr ⟨oe, hoe, hs⟩
  rw [inv.srcs] at this
  exact List.mem_range.mp this

/-- an output entry starts at or before the place the next one will go to -/
theorem BInv.ofs_le {entries : List InEntry} {start : Nat} {st : IState} {i next : Nat}
    (inv : BInv entries start st i next) (oe : OutEntry) (hoe : oe ∈ st.out) : oe.ofs ≤ shifted st next := by
  rw [shifted_eq_end inv.base]
  have := mem_le_endOf st.out start inv.base.contig oe hoe
  omega

theorem BInv.shifted_int {entries : List InEntry} {start : Nat} {st : IState} {i next : Nat}
    (inv : BInv entries start st i next) : ((shifted st next : Nat) : Int) = (next : Int) + st.total := by
  rw [shifted_eq_end inv.base]; exact inv.base.endEq

end GixModel.C10
