import GixModel.Lemmas.C09Order
/-
C09 helper lemmas, part 5: `Prefix::cmp_oid` compares the first `hex_len` hex digits — it never
panics on ids of the prefix' own length, and its result is the lexicographic comparison of the two
truncated digit strings.
-/
namespace GixModel.C09
open GixModel

/-- the hex digits (as numbers) of a byte string -/
def N (b : Bytes) : List Nat := nibs (b.map (·.toNat))

theorem N_length (b : Bytes) : (N b).length = 2 * b.length := by simp [N, nibs_length]

theorem N_cons (x : UInt8) (xs : Bytes) : N (x :: xs) = x.toNat / 16 :: x.toNat % 16 :: N xs := by
  simp [N, nibs]

theorem cmpBytes_eq_cmpL_N (a b : Bytes) : cmpBytes a b = cmpL (N a) (N b) := by
  rw [cmpBytes_eq_cmpL, N, N, cmpL_nibs]

theorem N_take (b : Bytes) (k : Nat) : N (b.take k) = (N b).take (2 * k) := by
  simp [N, List.map_take, nibs_take]

theorem N_take_odd : ∀ (k : Nat) (b : Bytes) (hk : k < b.length),
    (N b).take (2 * k + 1) = N (b.take k) ++ [b[k].toNat / 16] := by
  intro k
  induction k with
  | zero =>
    intro b hk
    cases b with
    | nil => simp at hk
    | cons x xs => simp [N_cons, N, nibs]
  | succ k ih =>
    intro b hk
    cases b with
    | nil => simp at hk
    | cons x xs =>
      have h2 : 2 * (k + 1) + 1 = (2 * k + 1) + 1 + 1 := by omega
      have := ih xs (by simpa using hk)
      simp only [N_cons, h2, List.take_succ_cons, List.getElem_cons_succ, this, List.cons_append]

theorem and_f0_lt : ∀ n, n < 256 → n &&& 240 = n / 16 * 16 := by decide +kernel

theorem and_f0 (b : UInt8) : (b &&& 0xf0).toNat = b.toNat / 16 * 16 := by
  rw [UInt8.toNat_and]
  exact and_f0_lt b.toNat b.toNat_lt

theorem cmpNat_mul16 (a b : Nat) : cmpNat (a * 16) (b * 16) = cmpNat a b := by
  simp only [cmpNat]
  by_cases h1 : a < b
  · have : a * 16 < b * 16 := by omega
    simp [h1, this]
  · by_cases h2 : b < a
    · have h3 : b * 16 < a * 16 := by omega
      have h4 : ¬ a * 16 < b * 16 := by omega
      simp [h1, h2, h3, h4]
    · have h3 : ¬ b * 16 < a * 16 := by omega
      have h4 : ¬ a * 16 < b * 16 := by omega
      simp [h1, h2, h3, h4]

theorem cmpL_single (u v : Nat) : cmpL [u] [v] = cmpNat u v := by
  simp only [cmpL, cmpNat]

/-- the digits a prefix of `hexLen` digits of `id` stands for -/
def digits (id : Bytes) (h : Nat) : List Nat := (N id).take h

theorem Prefix.new_some {id : Bytes} {h : Nat} (h1 : h ≤ 2 * id.length) (h2 : 4 ≤ h) :
    ∃ p, Prefix.new id h = some p ∧ p.hexLen = h := by
  have a : ¬ h > 2 * id.length := by omega
  have b : ¬ h < 4 := by omega
  simp only [Prefix.new, a, b, if_false]
  exact ⟨_, rfl, rfl⟩

/-- shape of the bytes `Prefix::new` produces -/
theorem Prefix.new_bytes {id : Bytes} {h : Nat} {p : Prefix} (hp : Prefix.new id h = some p) :
    p.hexLen = h ∧ h ≤ 2 * id.length ∧ 4 ≤ h ∧
    ∃ mid rest, p.bytes = id.take (h / 2) ++ mid ++ rest ∧ p.bytes.length = id.length ∧
      (h % 2 = 1 → ∃ (hlt : h / 2 < id.length), mid = [id[h / 2] &&& 0xf0]) := by
  simp only [Prefix.new] at hp
  by_cases a : h > 2 * id.length
  · simp [a] at hp
  · by_cases b : h < 4
    · simp [a, b] at hp
    · simp only [a, b, if_false, Option.some.injEq] at hp
      subst hp
      refine ⟨rfl, by omega, by omega, ?_⟩
      by_cases hodd : h % 2 = 1
      · have hlt : h / 2 < id.length := by omega
        have hget : id[h / 2]? = some id[h / 2] := List.getElem?_eq_getElem hlt
        refine ⟨[id[h / 2] &&& 0xf0], List.replicate (id.length - (h / 2 + 1)) 0, ?_, ?_, ?_⟩
        · simp [hodd, hget, List.length_take, Nat.min_eq_left (Nat.le_of_lt hlt)]
        · simp [hodd, hget, List.length_take, Nat.min_eq_left (Nat.le_of_lt hlt)]; omega
        · intro _; exact ⟨hlt, rfl⟩
      · have hle : h / 2 ≤ id.length := by omega
        refine ⟨[], List.replicate (id.length - h / 2) 0, ?_, ?_, ?_⟩
        · simp [hodd, List.length_take, Nat.min_eq_left hle]
        · simp [hodd, List.length_take, Nat.min_eq_left hle]; omega
        · intro h'; exact absurd h' hodd

/-- `cmp_oid` = lexicographic comparison of the first `hex_len` digits, and no panic. -/
theorem cmpOid_eq {id cand : Bytes} {h : Nat} {p : Prefix} (hp : Prefix.new id h = some p)
    (hlen : cand.length = id.length) :
    p.cmpOid cand = some (cmpL (digits id h) (digits cand h)) := by
  obtain ⟨hh, hle, h4, mid, rest, hb, hbl, hmid⟩ := Prefix.new_bytes hp
  have hcommon : h / 2 ≤ id.length := by omega
  have hn1 : ¬ (p.bytes.length < h / 2 ∨ cand.length < h / 2) := by
    rw [hbl, hlen]; omega
  have htake : p.bytes.take (h / 2) = id.take (h / 2) := by
    rw [hb, List.append_assoc, List.take_append_of_le_length (by simp [List.length_take]; omega)]
    simp [List.take_take]
  have hfirst : cmpBytes (id.take (h / 2)) (cand.take (h / 2)) = cmpL ((N id).take (2 * (h / 2))) ((N cand).take (2 * (h / 2))) := by
    rw [cmpBytes_eq_cmpL_N, N_take, N_take]
  unfold Prefix.cmpOid
  simp only [hh, hn1, if_false, htake]
  by_cases hodd : h % 2 = 1
  · obtain ⟨hlt, hmid'⟩ := hmid hodd
    have hlt' : h / 2 < cand.length := by omega
    have hpget : p.bytes[h / 2]? = some (id[h / 2] &&& 0xf0) := by
      rw [hb, hmid', List.append_assoc, List.getElem?_append_right (by simp [List.length_take]; omega)]
      simp [List.length_take, Nat.min_eq_left hcommon]
    have hcget : cand[h / 2]? = some cand[h / 2] := List.getElem?_eq_getElem hlt'
    simp only [hodd, if_true, hpget, hcget]
    have hh2 : 2 * (h / 2) + 1 = h := by omega
    have hd1 : digits id h = N (id.take (h / 2)) ++ [id[h / 2].toNat / 16] := by
      have e := N_take_odd (h / 2) id hlt
      rw [hh2] at e; exact e
    have hd2 : digits cand h = N (cand.take (h / 2)) ++ [cand[h / 2].toNat / 16] := by
      have e := N_take_odd (h / 2) cand hlt'
      rw [hh2] at e; exact e
    rw [hd1, hd2, cmpL_append (by simp [N_length, List.length_take]; omega), cmpL_single,
      ← cmpBytes_eq_cmpL_N, and_f0, and_f0, cmpNat_mul16]
    cases cmpBytes (id.take (h / 2)) (cand.take (h / 2)) <;> rfl
  · have hh2 : h = 2 * (h / 2) := by omega
    simp only [hodd, if_false]
    unfold digits
    rw [hfirst, ← hh2]
    cases cmpL ((N id).take h) ((N cand).take h) <;> rfl

/-- the prefix keeps the first byte of the id (used for the fan-out narrowing) -/
theorem Prefix.new_head {id : Bytes} {h : Nat} {p : Prefix} (hp : Prefix.new id h = some p) :
    p.bytes.head? = id.head? ∧ id ≠ [] := by
  obtain ⟨_, hle, h4, mid, rest, hb, _, _⟩ := Prefix.new_bytes hp
  cases id with
  | nil => simp at hle; omega
  | cons x xs =>
    have : h / 2 = (h / 2 - 1) + 1 := by omega
    rw [hb, this]
    simp

/-- digits of ids with different first bytes compare like the first bytes (any `h ≥ 2`) -/
theorem digits_first_byte {x y : UInt8} {xs ys : Bytes} {h : Nat} (h2 : 2 ≤ h) :
    (y.toNat < x.toNat → cmpL (digits (x :: xs) h) (digits (y :: ys) h) = .gt) ∧
    (x.toNat < y.toNat → cmpL (digits (x :: xs) h) (digits (y :: ys) h) = .lt) := by
  have hh : h = (h - 2) + 1 + 1 := by omega
  have e1 : digits (x :: xs) h = nibs [x.toNat] ++ (N xs).take (h - 2) := by
    unfold digits; rw [N_cons, hh]; simp [nibs]
  have e2 : digits (y :: ys) h = nibs [y.toNat] ++ (N ys).take (h - 2) := by
    unfold digits; rw [N_cons, hh]; simp [nibs]
  rw [e1, e2, cmpL_append (by simp [nibs]), cmpL_nibs]
  constructor
  · intro hlt
    have : ¬ x.toNat < y.toNat := by omega
    simp [cmpL, this, hlt]
  · intro hlt
    simp [cmpL, hlt]

end GixModel.C09
