import GixModel.Lemmas.C20Core
/-
C20 helper lemmas, part 3: readers, the well-formedness of a transaction, and the restriction of
the core steps to the paths that matter for one ref: its file, its lock, packed-refs and its lock.
-/
namespace GixModel.C20
open GixModel

/-- how files are read back: parsing is a parameter, only "what was rendered parses to itself" is
assumed (loose refs: C02/C01-style round trip; packed-refs: C19) -/
structure Codec where
  parseRef : Bytes → Option Target
  parsePacked : Bytes → Option (List (Name × Bytes))
  ref_rt : ∀ t, parseRef (renderRef t) = some t
  packed_rt : ∀ rs, parsePacked (renderPacked rs) = some rs

def looseVal (cd : Codec) (fs : Fs) (n : Name) : Option Target := (fileAt fs n).bind cd.parseRef

def packedRecs (cd : Codec) (fs : Fs) : Option (List (Name × Bytes)) :=
  (fileAt fs packedPath).bind cd.parsePacked

def lookupPacked (rs : Option (List (Name × Bytes))) (n : Name) : Option Target :=
  match rs with
  | some rs => (rs.find? fun r => r.1 = n).map fun r => Target.id r.2
  | none => none

/-- what a reader (gitoxide or git) sees for `n`: the loose file if it parses, else the packed record -/
def readRef (cd : Codec) (fs : Fs) (n : Name) : Option Target :=
  match looseVal cd fs n with
  | some t => some t
  | none => lookupPacked (packedRecs cd fs) n

def Edit.intended : Edit → Option Target
  | .update _ t => some t
  | .delete _ => none

def names (txn : List Edit) : List Name := txn.map Edit.name

/-- the paths whose content matters: the edited refs, their locks, packed-refs and its lock -/
def inW (txn : List Edit) (p : Path) : Bool :=
  (names txn).contains p || ((names txn).map lockPath).contains p || p == packedPath || p == lockPath packedPath

/-- what is assumed of a transaction and the store it runs on -/
structure TxnOk (c : Cfg) (s : Store) (txn : List Edit) : Prop where
  names_nodup : (names txn).Nodup
  names_ref : ∀ e ∈ txn, isRefName e.name = true
  loose_ref : ∀ x ∈ s.loose, isRefName x.1 = true
  chunk_ok : ∀ bs, (c.chunk bs).flatten = bs
  /-- no stale lock files (else `prepare` fails, `Fail::Immediately`) -/
  no_locks : ∀ e ∈ txn, s.toFs (lockPath e.name) = none
  no_packed_lock : s.toFs (lockPath packedPath) = none
  /-- no directory where an edited ref is to be written, and no directory the transaction creates
  or removes is named like an edited ref or a lock: the edits are free of directory/file conflicts -/
  not_dir : ∀ e ∈ txn, s.toFs e.name ≠ some .dir
  no_dir_clash : ∀ op ∈ txnSteps c s txn, op.isDirOp = true → ∀ t ∈ op.touches, inW txn t = false

theorem readRef_congr (cd : Codec) {f g : Fs} {n : Name} (h1 : fileAt f n = fileAt g n)
    (h2 : fileAt f packedPath = fileAt g packedPath) : readRef cd f n = readRef cd g n := by
  simp [readRef, looseVal, packedRecs, h1, h2]

theorem fileAt_congr {f g : Fs} {p : Path} (h : f p = g p) : fileAt f p = fileAt g p := by
  simp [fileAt, h]

/-! ### the initial state -/

theorem logPath_ne_refName (k : Name) {n : Name} (h : isRefName n = true) : logPath k ≠ n := by
  intro e
  have h1 := head_logPath k
  rw [e, head_refName h] at h1
  revert h1; decide

theorem init_loose {s : Store} (hl : ∀ x ∈ s.loose, isRefName x.1 = true) {n : Name}
    (hn : isRefName n = true) : fileAt s.toFs n = (s.looseOf n).map renderRef := by
  unfold Store.toFs Store.looseOf fileAt
  cases hf : s.loose.find? (fun x => decide (x.1 = n)) with
  | some x => simp [hf]
  | none =>
    have h1 : n ≠ packedPath := (refName_ne_packed hn).1
    have h2 : (s.logs.any fun k => decide (logPath k = n)) = false := by
      apply List.any_eq_false.mpr
      intro k _; simpa using logPath_ne_refName k hn
    simp only [hf, h1, if_false, h2, Bool.false_eq_true, Option.map_none]
    by_cases hd : s.dirs.contains n = true
    · simp [hd]
    · simp [hd]

theorem init_packed {s : Store} (hl : ∀ x ∈ s.loose, isRefName x.1 = true) :
    fileAt s.toFs packedPath = s.packed.map renderPacked := by
  unfold Store.toFs fileAt
  have : s.loose.find? (fun x => decide (x.1 = packedPath)) = none := by
    apply List.find?_eq_none.mpr
    intro x hx
    simpa using (refName_ne_packed (hl x hx)).1
  simp only [this, if_true]
  cases s.packed <;> simp

/-! ### the watched paths of one ref -/

def Qn (n : Name) (p : Path) : Bool := p == n || p == lockPath n || p == packedPath || p == lockPath packedPath

theorem Qn_self (n : Name) : Qn n n = true ∧ Qn n (lockPath n) = true ∧ Qn n packedPath = true ∧
    Qn n (lockPath packedPath) = true := by simp [Qn]

theorem Qn_other {n m : Name} (hn : isRefName n = true) (hm : isRefName m = true) (hne : m ≠ n) :
    Qn n m = false ∧ Qn n (lockPath m) = false := by
  have h1 := (refName_ne_packed hm)
  have h2 := (lockPath_ne_packed hm)
  have h3 : m ≠ lockPath n := refName_ne_lockPath hm n
  have h4 : lockPath m ≠ n := fun e => refName_ne_lockPath hn m e.symm
  have h5 : lockPath m ≠ lockPath n := fun e => hne (lockPath_inj e)
  simp [Qn, hne, h1.1, h1.2, h2.1, h2.2, h3, h4, h5]

theorem Qn_subset_inW {txn : List Edit} {e : Edit} (he : e ∈ txn) {p : Path} (h : Qn e.name p = true) :
    inW txn p = true := by
  simp only [Qn, Bool.or_eq_true, beq_iff_eq] at h
  simp only [inW, names, Bool.or_eq_true, List.contains_eq_mem, List.mem_map, decide_eq_true_eq, beq_iff_eq]
  rcases h with ((h | h) | h) | h
  · exact .inl (.inl (.inl ⟨e, he, h.symm⟩))
  · exact .inl (.inl (.inr ⟨e.name, ⟨e, he, rfl⟩, h.symm⟩))
  · exact .inl (.inr h)
  · exact .inr h

theorem Qn_not_log {n : Name} (hn : isRefName n = true) {p : Path} (h : Qn n p = true) : isLogPath p = false := by
  simp only [Qn, Bool.or_eq_true, beq_iff_eq] at h
  rcases h with ((h | h) | h) | h <;> subst h
  · exact not_isLogPath_refName hn
  · exact not_isLogPath_lockPath hn
  · exact not_isLogPath_packed.1
  · exact not_isLogPath_packed.2

/-- filtering a `flatMap` over edits with distinct names down to the part of one edit -/
theorem filter_flatMap_unique (P : FsOp → Bool) (f : Edit → List FsOp) (l : List Edit) (e : Edit)
    (hnd : (l.map Edit.name).Nodup) (he : e ∈ l)
    (hother : ∀ e' ∈ l, e'.name ≠ e.name → (f e').filter P = []) :
    (l.flatMap f).filter P = (f e).filter P := by
  induction l with
  | nil => cases he
  | cons x xs ih =>
    simp only [List.map_cons, List.nodup_cons] at hnd
    simp only [List.flatMap_cons, List.filter_append]
    rcases List.mem_cons.mp he with rfl | he'
    · have : (xs.flatMap f).filter P = [] := by
        rw [List.filter_flatMap]
        apply List.flatMap_eq_nil_iff.mpr
        intro y hy
        apply hother y (List.mem_cons_of_mem _ hy)
        intro e'
        exact hnd.1 (e' ▸ List.mem_map_of_mem hy)
      rw [this, List.append_nil]
    · have hx : x.name ≠ e.name := by
        intro e'
        exact hnd.1 (e' ▸ List.mem_map_of_mem he')
      rw [hother x (List.mem_cons_self ..) hx, List.nil_append]
      exact ih hnd.2 he' (fun y hy => hother y (List.mem_cons_of_mem _ hy))

theorem filter_all {P : FsOp → Bool} {l : List FsOp} (h : ∀ op ∈ l, P op = true) : l.filter P = l :=
  List.filter_eq_self.mpr h

theorem filter_none {P : FsOp → Bool} {l : List FsOp} (h : ∀ op ∈ l, P op = false) : l.filter P = [] := by
  apply List.filter_eq_nil_iff.mpr
  intro op ho; simp [h op ho]

/-- every operation of an edit's core parts touches only the ref and its lock -/
theorem edit_core_touches (c : Cfg) (s : Store) (global : Bool) (e : Edit) :
    ∀ op ∈ prepCoreEdit c global e ++ renameCore e ++ delCore s global e,
      ∀ t ∈ op.touches, t = e.name ∨ t = lockPath e.name := by
  intro op ho t ht
  simp only [List.mem_append] at ho
  cases e with
  | update n new =>
    simp only [prepCoreEdit, renameCore, delCore, List.mem_cons, writeOps, List.mem_map, List.not_mem_nil,
      or_false] at ho
    rcases ho with (rfl | ⟨x, _, rfl⟩) | rfl
    · simp [FsOp.touches] at ht; exact .inr ht
    · simp [FsOp.touches] at ht; exact .inr ht
    · simp [FsOp.touches] at ht; rcases ht with rfl | rfl <;> simp [Edit.name]
  | delete n =>
    simp only [prepCoreEdit, renameCore, delCore, List.not_mem_nil, or_false, List.mem_append] at ho
    rcases ho with ho | ho | ho
    · split at ho
      · cases ho
      · simp at ho; subst ho; simp [FsOp.touches] at ht; exact .inr ht
    · split at ho
      · simp at ho; subst ho; simp [FsOp.touches] at ht; exact .inl ht
      · cases ho
    · split at ho
      · cases ho
      · simp at ho; subst ho; simp [FsOp.touches] at ht; exact .inr ht

theorem packedCommit_touches (c : Cfg) (s : Store) (txn : List Edit) :
    ∀ op ∈ packedCommit c s txn, ∀ t ∈ op.touches, t = packedPath ∨ t = lockPath packedPath := by
  intro op ho t ht
  simp only [packedCommit] at ho
  split at ho
  · cases ho
  · split at ho
    · simp at ho; subst ho; simp [FsOp.touches] at ht; exact .inr ht
    · simp only [List.mem_append, writeOps, List.mem_map] at ho
      rcases ho with ⟨x, _, rfl⟩ | ho
      · simp [FsOp.touches] at ht; exact .inr ht
      · split at ho
        · simp at ho
          rcases ho with rfl | rfl <;> simp [FsOp.touches] at ht
          · exact .inl ht
          · exact .inr ht
        · simp at ho; subst ho; simp [FsOp.touches] at ht
          rcases ht with rfl | rfl
          · exact .inr rfl
          · exact .inl rfl

def pk0 (global : Bool) : List FsOp := if global then [FsOp.create (lockPath packedPath)] else []

/-- the core steps that touch the watched paths of edit `e`, in order -/
def coreOf (c : Cfg) (s : Store) (txn : List Edit) (e : Edit) : List FsOp :=
  let global := s.hasGlobalLock txn
  pk0 global ++ prepCoreEdit c global e ++ renameCore e ++ packedCommit c s txn ++ delCore s global e

theorem filter_core (c : Cfg) (s : Store) (txn : List Edit) (h : TxnOk c s txn) (e : Edit) (he : e ∈ txn) :
    (core c s txn).filter (touchesAny (Qn e.name)) = coreOf c s txn e := by
  have hn := h.names_ref e he
  have hq := Qn_self e.name
  -- an operation touching only the ref or its lock passes the filter; those of other edits do not
  have pass : ∀ l : List FsOp, (∀ op ∈ l, op.touches ≠ [] ∧ ∀ t ∈ op.touches, t = e.name ∨ t = lockPath e.name) →
      l.filter (touchesAny (Qn e.name)) = l := by
    intro l hl
    apply filter_all
    intro op ho
    obtain ⟨hne, ht⟩ := hl op ho
    cases hts : op.touches with
    | nil => exact absurd hts hne
    | cons t ts =>
      apply List.any_eq_true.mpr
      refine ⟨t, by simp [hts], ?_⟩
      rcases ht t (by simp [hts]) with rfl | rfl
      · exact hq.1
      · exact hq.2.1
  have nonempty : ∀ op : FsOp, op.touches ≠ [] := by intro op; cases op <;> simp [FsOp.touches]
  have block : ∀ (f : Edit → List FsOp),
      (∀ e', ∀ op ∈ f e', ∀ t ∈ op.touches, t = e'.name ∨ t = lockPath e'.name) →
      (txn.flatMap f).filter (touchesAny (Qn e.name)) = f e := by
    intro f hf
    rw [filter_flatMap_unique _ f txn e h.names_nodup he]
    · exact pass _ (fun op ho => ⟨nonempty op, hf e op ho⟩)
    · intro e' he' hne
      apply filter_none
      intro op ho
      apply List.any_eq_false.mpr
      intro t ht
      have ho' := Qn_other hn (h.names_ref e' he') hne
      rcases hf e' op ho t ht with rfl | rfl
      · simp [ho'.1]
      · simp [ho'.2]
  have hpk : (packedCommit c s txn).filter (touchesAny (Qn e.name)) = packedCommit c s txn := by
    apply filter_all
    intro op ho
    cases hts : op.touches with
    | nil => exact absurd hts (nonempty op)
    | cons t ts =>
      apply List.any_eq_true.mpr
      refine ⟨t, by simp [hts], ?_⟩
      rcases packedCommit_touches c s txn op ho t (by simp [hts]) with rfl | rfl
      · exact hq.2.2.1
      · exact hq.2.2.2
  have hp0 : (pk0 (s.hasGlobalLock txn)).filter (touchesAny (Qn e.name)) = pk0 (s.hasGlobalLock txn) := by
    apply filter_all
    intro op ho
    simp only [pk0] at ho
    split at ho
    · simp at ho; subst ho; simp [touchesAny, FsOp.touches, hq.2.2.2]
    · cases ho
  have e1 := edit_core_touches c s (s.hasGlobalLock txn)
  simp only [core, coreOf, List.filter_append]
  rw [show (if s.hasGlobalLock txn = true then [FsOp.create (lockPath packedPath)] else []) = pk0 (s.hasGlobalLock txn) from rfl,
    hp0, hpk,
    block (prepCoreEdit c (s.hasGlobalLock txn)) (fun e' op ho => e1 e' op (by simp [ho])),
    block renameCore (fun e' op ho => e1 e' op (by simp [ho])),
    block (delCore s (s.hasGlobalLock txn)) (fun e' op ho => e1 e' op (by simp [ho]))]

end GixModel.C20
