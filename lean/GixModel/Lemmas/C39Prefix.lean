import GixModel.Model.C39Core
/-
C39 — the common-prefix shortcut of `Search::pattern_matching_relative_path`: every path a positive
pattern can match starts with the common prefix, so rejecting the others up front changes nothing.
-/
namespace GixModel.Lemmas.C39
open GixModel GixModel.C38 GixModel.C39

/-- what the proof needs of a wildcard matcher: case-sensitively, the text before the first wildcard
character has to be matched literally (true of `wildmatch`; property C36) -/
def WmPrefix (wm : Bytes → Bytes → Bool → Bool → Bool) : Prop :=
  ∀ (text value : Bytes) (pathname : Bool) (k : Nat), firstWildcardPos text = some k →
    wm text value pathname false = true → value.take k = text.take k ∧ k ≤ value.length

theorem firstWildcardPos_lt (t : Bytes) (k : Nat) (h : firstWildcardPos t = some k) : k < t.length := by
  induction t generalizing k with
  | nil => simp [firstWildcardPos] at h
  | cons c t ih =>
    unfold firstWildcardPos at h
    split at h
    · simp only [Option.some.injEq] at h; subst h; simp
    · cases hf : firstWildcardPos t with
      | none => simp [hf] at h
      | some j =>
        simp only [hf, Option.map_some, Option.some.injEq] at h
        subst h
        have := ih j hf
        simp only [List.length_cons]; omega

theorem take_take_of_le (a : Bytes) (i j : Nat) (h : i ≤ j) : (a.take j).take i = a.take i := by
  rw [List.take_take]; congr 1; omega

/-- a verbatim match means the path starts with the pattern's path -/
theorem matchVerbatim_prefix (m : Mapping) (path : Bytes) (isDir : Bool) (hi : m.spec.icase = false)
    (h : matchVerbatim m path isDir = true) :
    path.take m.spec.path.length = m.spec.path ∧ m.spec.path.length ≤ path.length := by
  have heq : m.spec.path = path.take m.spec.path.length := by
    by_cases hne : m.spec.path = path.take m.spec.path.length
    · exact hne
    · exfalso
      unfold matchVerbatim at h
      simp [hi, hne] at h
  refine ⟨heq.symm, ?_⟩
  have := congrArg List.length heq
  rw [List.length_take] at this
  omega

/-- the literal part of a matching positive pattern is a prefix of the path -/
theorem pathMatch_literal (env : C39.Env) (hwm : WmPrefix env.wm) (m : Mapping) (hm : m.fwp = firstWildcardPos m.spec.path)
    (path : Bytes) (isDir : Bool) (h : pathMatch env m path isDir = true) :
    path.take (literalLen m) = m.spec.path.take (literalLen m) ∧ literalLen m ≤ path.length := by
  unfold literalLen
  by_cases hi : m.spec.icase = true
  · simp [hi]
  · have hi' : m.spec.icase = false := by simpa using hi
    simp only [hi', Bool.false_eq_true, if_false]
    by_cases ha : m.always = true
    · simp [ha]
    · have ha' : m.always = false := by simpa using ha
      simp only [ha', Bool.false_eq_true, if_false]
      unfold pathMatch at h
      simp only [ha', Bool.false_eq_true, if_false] at h
      have hverb : matchVerbatim m path isDir = true →
          path.take (m.fwp.getD m.spec.path.length) = m.spec.path.take (m.fwp.getD m.spec.path.length)
            ∧ m.fwp.getD m.spec.path.length ≤ path.length := by
        intro hv
        obtain ⟨h1, h2⟩ := matchVerbatim_prefix m path isDir hi' hv
        have hk : m.fwp.getD m.spec.path.length ≤ m.spec.path.length := by
          cases hf : m.fwp with
          | none => simp
          | some k =>
            have := firstWildcardPos_lt m.spec.path k (hm ▸ hf)
            simp; omega
        refine ⟨?_, by omega⟩
        rw [← take_take_of_le path _ _ hk, h1]
      cases hf : m.fwp with
      | none =>
        simp only [hf, Option.isNone_none, if_true] at h
        have := hverb h
        simpa [hf] using this
      | some k =>
        simp only [hf, Option.isNone_some, Bool.false_eq_true, if_false] at h
        have hglob : ∀ pn, matchGlob env m path isDir pn = true →
            path.take k = m.spec.path.take k ∧ k ≤ path.length := by
          intro pn hg
          unfold matchGlob at hg
          by_cases hd : (!isDir && m.spec.mustBeDir) = true
          · simp only [hd, if_true, Bool.false_eq_true, if_false] at hg
            have := hverb hg
            simpa [hf] using this
          · simp only [hd, if_false] at hg
            by_cases hw : env.wm m.spec.path path pn m.spec.icase = true
            · rw [hi'] at hw
              exact hwm m.spec.path path pn k (hm ▸ hf) hw
            · simp only [hw, if_false] at hg
              have := hverb hg
              simpa [hf] using this
        simp only [Option.getD_some]
        cases hmode : m.spec.mode with
        | shell => simp only [hmode] at h; exact hglob false h
        | literal => simp only [hmode] at h; have := hverb h; simpa [hf] using this
        | glob => simp only [hmode] at h; exact hglob true h

/-! ### the computed common prefix length -/

/-- `a` and `b` agree on their first `c` bytes (and have that many) -/
def Agree (c : Nat) (a b : Bytes) : Prop := a.take c = b.take c ∧ c ≤ a.length ∧ c ≤ b.length

theorem Agree.mono {c c' : Nat} {a b : Bytes} (h : Agree c a b) (hc : c' ≤ c) : Agree c' a b := by
  obtain ⟨h1, h2, h3⟩ := h
  refine ⟨?_, by omega, by omega⟩
  rw [← take_take_of_le a c' c hc, ← take_take_of_le b c' c hc, h1]

theorem commonLen_le (n : Nat) (a b : Bytes) : commonLen n a b ≤ n := by
  induction n generalizing a b with
  | zero => simp [commonLen]
  | succ n ih =>
    cases a with
    | nil => simp [commonLen]
    | cons x a =>
      cases b with
      | nil => simp [commonLen]
      | cons y b =>
        unfold commonLen
        split
        · have := ih a b; omega
        · omega

theorem commonLen_agree (n : Nat) (a b : Bytes) : Agree (commonLen n a b) a b := by
  induction n generalizing a b with
  | zero => simp [commonLen, Agree]
  | succ n ih =>
    cases a with
    | nil => simp [commonLen, Agree]
    | cons x a =>
      cases b with
      | nil => simp [commonLen, Agree]
      | cons y b =>
        unfold commonLen
        split
        · rename_i hxy
          have hxy' : x = y := by simpa using hxy
          obtain ⟨h1, h2, h3⟩ := ih a b
          refine ⟨?_, by simp only [List.length_cons]; omega, by simp only [List.length_cons]; omega⟩
          simp [List.take_succ_cons, hxy', h1]
        · simp [Agree]

theorem foldl_min_le (f : Nat → Mapping → Nat) : ∀ (l : List Mapping) (init : Nat),
    l.foldl (fun acc m => min acc (f acc m)) init ≤ init := by
  intro l
  induction l with
  | nil => intro init; exact Nat.le_refl _
  | cons m l ih => intro init; rw [List.foldl_cons]; have := ih (min init (f init m)); omega

theorem foldl_minLit_le (l : List Mapping) (init : Nat) :
    ∀ m ∈ l, l.foldl (fun acc m => min acc (literalLen m)) init ≤ literalLen m := by
  induction l generalizing init with
  | nil => intro m hm; simp at hm
  | cons x l ih =>
    intro m hm
    rw [List.foldl_cons]
    rcases List.mem_cons.mp hm with rfl | h
    · have := foldl_min_le (fun _ m => literalLen m) l (min init (literalLen m)); omega
    · exact ih _ m h

theorem foldl_common_agree (base : Bytes) : ∀ (l : List Mapping) (init : Nat),
    ∀ m ∈ l, Agree (l.foldl (fun acc m => min acc (commonLen acc base m.spec.path)) init) base m.spec.path := by
  intro l
  induction l with
  | nil => intro init m hm; simp at hm
  | cons x l ih =>
    intro init m hm
    rw [List.foldl_cons]
    rcases List.mem_cons.mp hm with rfl | h
    · have hle := foldl_min_le (fun acc m => commonLen acc base m.spec.path) l (min init (commonLen init base m.spec.path))
      exact (commonLen_agree init base m.spec.path).mono (by omega)
    · exact ih _ m h

/-- what `common_prefix_len` guarantees: it is at most the literal length of every positive pattern,
and all positive patterns agree with the first one on that many bytes -/
theorem commonPrefixLen_spec (ms : List Mapping) (base : Mapping) (others : List Mapping)
    (hpos : ms.filter (fun m => !m.spec.exclude) = base :: others) :
    ∀ m ∈ base :: others, commonPrefixLen ms ≤ literalLen m ∧
      (commonPrefixLen ms ≤ m.spec.path.length →
        m.spec.path.take (commonPrefixLen ms) = base.spec.path.take (commonPrefixLen ms)) := by
  intro m hm
  unfold commonPrefixLen
  simp only [hpos]
  have hlen := foldl_minLit_le (base :: others) (literalLen base) m hm
  split
  · simp
  · rename_i hne
    have hle := foldl_min_le (fun acc m => commonLen acc base.spec.path m.spec.path) others
      ((base :: others).foldl (fun acc m => min acc (literalLen m)) (literalLen base))
    refine ⟨by omega, ?_⟩
    intro _
    rcases List.mem_cons.mp hm with rfl | h
    · rfl
    · exact (foldl_common_agree base.spec.path others _ m h).1.symm

theorem find?_eq_head_filter {α : Type} (p : α → Bool) (l : List α) : l.find? p = (l.filter p).head? := by
  induction l with
  | nil => rfl
  | cons x l ih =>
    rw [List.find?_cons, List.filter_cons]
    cases hx : p x with
    | true => rfl
    | false => exact ih

/-- the invariants `Search::from_specs` establishes -/
def WellFormed (s : Search) : Prop :=
  s.commonPrefixLen = commonPrefixLen s.patterns ∧ s.allExcluded = s.patterns.all (fun m => m.spec.exclude)
    ∧ ∀ m ∈ s.patterns, m.fwp = firstWildcardPos m.spec.path

theorem allSome_some {α : Type} : ∀ (l : List (Option α)) (r : List α), allSome l = some r → l = r.map some := by
  intro l
  induction l with
  | nil => intro r h; simp only [allSome, Option.some.injEq] at h; subst h; rfl
  | cons x l ih =>
    intro r h
    cases x with
    | none => simp [allSome] at h
    | some a =>
      simp only [allSome] at h
      cases hl : allSome l with
      | none => simp [hl] at h
      | some r' =>
        simp only [hl, Option.map_some, Option.some.injEq] at h
        subst h
        rw [ih r' hl]; rfl

theorem fromSpecs_wellFormed (specs : List PSpec) (s : Search) (h : fromSpecs specs = some s) : WellFormed s := by
  unfold fromSpecs at h
  cases hn : allSome (specs.map normalize) with
  | none => simp [hn] at h
  | some ns =>
    simp only [hn, Option.map_some, Option.some.injEq] at h
    subst h
    refine ⟨rfl, rfl, ?_⟩
    intro m hm
    simp only [sortExcluded, List.mem_append, List.mem_filter, List.mem_map] at hm
    rcases hm with ⟨⟨x, _, rfl⟩, _⟩ | ⟨⟨x, _, rfl⟩, _⟩ <;> rfl

theorem literalLen_le (m : Mapping) (hm : m.fwp = firstWildcardPos m.spec.path) : literalLen m ≤ m.spec.path.length := by
  unfold literalLen
  split
  · omega
  · split
    · omega
    · cases hf : m.fwp with
      | none => simp
      | some k => have := firstWildcardPos_lt m.spec.path k (hm ▸ hf); simp; omega

/-- a selected path passes the common-prefix test -/
theorem selected_has_prefix (env : C39.Env) (hwm : WmPrefix env.wm) (s : Search) (hs : WellFormed s)
    (path : Bytes) (isDir : Bool) (h : selectNoShortcut env s path isDir = true) :
    path.take s.commonPrefixLen = s.commonPrefix ∧ s.commonPrefixLen ≤ path.length := by
  obtain ⟨hcpl, hall, hfwp⟩ := hs
  unfold selectNoShortcut at h
  unfold Search.commonPrefix
  rw [find?_eq_head_filter (fun m => !m.spec.exclude) s.patterns]
  cases hfind : s.patterns.find? (fun m => mappingMatches env m path isDir) with
  | some m =>
    simp only [hfind] at h
    have hmem : m ∈ s.patterns := List.mem_of_find?_eq_some hfind
    have hmatch : mappingMatches env m path isDir = true := by
      have := List.find?_some hfind; simpa using this
    have hpm : pathMatch env m path isDir = true := by
      unfold mappingMatches at hmatch
      simp only [Bool.and_eq_true] at hmatch
      exact hmatch.1
    have hpos : m ∈ s.patterns.filter (fun m => !m.spec.exclude) := List.mem_filter.mpr ⟨hmem, h⟩
    cases hfil : s.patterns.filter (fun m => !m.spec.exclude) with
    | nil => rw [hfil] at hpos; simp at hpos
    | cons base others =>
      rw [hfil] at hpos
      obtain ⟨h1, h2⟩ := commonPrefixLen_spec s.patterns base others hfil m hpos
      obtain ⟨h3, h4⟩ := pathMatch_literal env hwm m (hfwp m hmem) path isDir hpm
      have h5 := literalLen_le m (hfwp m hmem)
      rw [hcpl]
      simp only [List.head?_cons]
      refine ⟨?_, by omega⟩
      rw [← h2 (by omega), ← take_take_of_le path _ _ h1, h3, take_take_of_le _ _ _ h1]
  | none =>
    simp only [hfind] at h
    have hnil : s.patterns.filter (fun m => !m.spec.exclude) = [] := by
      rw [hall] at h
      apply List.filter_eq_nil_iff.mpr
      intro m hm
      have := List.all_eq_true.mp h m hm
      simp [this]
    have : commonPrefixLen s.patterns = 0 := by unfold commonPrefixLen; simp [hnil]
    rw [hcpl, this, hnil]
    simp

/-- the shortcut never changes the verdict -/
theorem shortcut_sound (env : C39.Env) (hwm : WmPrefix env.wm) (s : Search) (hs : WellFormed s)
    (path : Bytes) (hp : path ≠ []) (isDir : Bool) : select env s path isDir = selectNoShortcut env s path isDir := by
  unfold select
  have hne : path.isEmpty = false := by cases path with | nil => exact absurd rfl hp | cons _ _ => rfl
  simp only [hne, Bool.false_eq_true, if_false]
  split
  · rename_i hc
    cases hsel : selectNoShortcut env s path isDir with
    | false => rfl
    | true =>
      obtain ⟨h1, h2⟩ := selected_has_prefix env hwm s hs path isDir hsel
      simp [h1] at hc
      omega
  · rfl

end GixModel.Lemmas.C39
