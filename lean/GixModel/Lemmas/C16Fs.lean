/-
C16, extended model (directories and reflogs): when the extended run goes through, the core run
does the same to references, packed-refs and locks; the reflogs change by one pass over the edits.
-/
import GixModel.Lemmas.C16Leak
import GixModel.Model.C16Fs

namespace GixModel.C16Fs
open GixModel.C17 GixModel.C16

/-- the reflogs after the first loop of commit, when nothing is in the way -/
def logsU : List (Name × List LogLine) → List Edit → List (Name × List LogLine)
  | logs, [] => logs
  | logs, e :: rest =>
    logsU (match logLineOf e with
      | some l => if autoLog e.name || (lookup logs e.name).isSome then appendLog logs e.name l else logs
      | none => logs) rest

/-- … and after the second loop: the reflogs of deleted references are gone -/
def logsD : List (Name × List LogLine) → List Edit → List (Name × List LogLine)
  | logs, [] => logs
  | logs, e :: rest =>
    match e.update.change with
    | .delete _ _ => logsD (eraseKey logs e.name) rest
    | .update _ _ _ => logsD logs rest

theorem core_change (e : Edit) : e.core.update.change = e.update.change := rfl

/-- one step of `logsU` -/
def logsU1 (logs : List (Name × List LogLine)) (e : Edit) : List (Name × List LogLine) :=
  match logLineOf e with
  | some l => if autoLog e.name || (lookup logs e.name).isSome then appendLog logs e.name l else logs
  | none => logs

theorem logStep_some (logs logs1 : List (Name × List LogLine)) (e : Edit) (h : logStep logs e = some logs1) :
    logs1 = logsU1 logs e := by
  unfold logStep at h
  unfold logsU1
  cases hl : logLineOf e with
  | none => rw [hl] at h; simp at h; exact h.symm
  | some l =>
    rw [hl] at h
    simp only [] at h ⊢
    by_cases hc : (autoLog e.name || (lookup logs e.name).isSome) = true
    · simp only [hc, if_true] at h ⊢
      split at h
      · cases h
      · injection h with h; exact h.symm
    · simp only [hc, Bool.false_eq_true, if_false] at h ⊢
      split at h
      · cases h
      · injection h with h; exact h.symm

theorem updatesX_ok (dl : Bool) :
    ∀ (es : List Edit) (SX SX' : StoreX) (es' : List Edit), updatesX dl SX es = (SX', es', none) →
      SX'.base = (commitUpdates dl SX.base (es.map Edit.core)).1 ∧
      es' = (commitUpdates dl SX.base (es.map Edit.core)).2 ∧
      SX'.logs = logsU SX.logs es := by
  intro es
  induction es with
  | nil =>
    intro SX SX' es' h
    simp only [updatesX, Prod.mk.injEq] at h
    obtain ⟨h1, h2, _⟩ := h
    subst h1 h2
    exact ⟨rfl, rfl, rfl⟩
  | cons e rest ih =>
    intro SX SX' es' h
    unfold updatesX at h
    cases hlg : logStep SX.logs e with
    | none => rw [hlg] at h; simp at h
    | some logs1 =>
      rw [hlg] at h
      simp only [] at h
      split at h
      · simp at h
      · simp only [Prod.mk.injEq] at h
        obtain ⟨h1, h2, h3⟩ := h
        have hrec : updatesX dl { base := (commitUpdateStep dl SX.base e.core).1, logs := logs1 } rest
            = ((updatesX dl { base := (commitUpdateStep dl SX.base e.core).1, logs := logs1 } rest).1,
               (updatesX dl { base := (commitUpdateStep dl SX.base e.core).1, logs := logs1 } rest).2.1, none) := by
          rw [← h3]
        obtain ⟨i1, i2, i3⟩ := ih _ _ _ hrec
        have hl1 := logStep_some _ _ _ hlg
        simp only [List.map_cons, commitUpdates, logsU]
        refine ⟨by rw [← h1]; exact i1, by rw [← h2, i2], ?_⟩
        rw [← h1, i3, hl1]
        rfl

theorem logDeletesX_ok : ∀ (es : List Edit) (logs logs' : List (Name × List LogLine)),
    logDeletesX logs es = (logs', none) → logs' = logsD logs es := by
  intro es
  induction es with
  | nil => intro logs logs' h; simp [logDeletesX] at h; simp [logsD, h]
  | cons e rest ih =>
    intro logs logs' h
    unfold logDeletesX at h
    unfold logsD
    cases hch : e.update.change with
    | delete exp log =>
      rw [hch] at h
      simp only [] at h ⊢
      split at h
      · simp at h
      · exact ih _ _ h
    | update log exp new =>
      rw [hch] at h
      exact ih _ _ h

theorem deletesX_ok (dl : Bool) : ∀ (es : List Edit) (S S' : Store) (es' : List Edit),
    deletesX dl S es = (S', es', none) →
      S' = (commitDeletes dl S es).1 ∧ es' = (commitDeletes dl S es).2 := by
  intro es
  induction es with
  | nil =>
    intro S S' es' h
    simp only [deletesX, Prod.mk.injEq] at h
    exact ⟨h.1.symm, h.2.1.symm⟩
  | cons e rest ih =>
    intro S S' es' h
    unfold deletesX at h
    split at h
    · simp at h
    · simp only [Prod.mk.injEq] at h
      obtain ⟨h1, h2, h3⟩ := h
      have hrec : deletesX dl (commitDeleteStep dl S e).1 rest
          = ((deletesX dl (commitDeleteStep dl S e).1 rest).1, (deletesX dl (commitDeleteStep dl S e).1 rest).2.1, none) := by
        rw [← h3]
      obtain ⟨i1, i2⟩ := ih _ _ _ hrec
      simp only [commitDeletes]
      exact ⟨by rw [← h1]; exact i1, by rw [← h2, i2]⟩

/-- if the extended commit goes through, the core commit does the same to the base store, and
the reflogs are the result of the two passes -/
theorem commitX_ok (SX SX' : StoreX) (p : Prepared) (h : commitX SX p = .ok SX') :
    commit SX.base p = .ok () SX'.base ∧
    SX'.logs = logsD (logsU SX.logs p.edits)
      (commitUpdates (decide (p.mode = .updatesRemoveLoose)) SX.base (p.edits.map Edit.core)).2 := by
  unfold commitX at h
  simp only [] at h
  cases hu : updatesX (decide (p.mode = .updatesRemoveLoose)) SX p.edits with
  | mk SX1 r =>
    obtain ⟨es1, err1⟩ := r
    rw [hu] at h
    simp only [] at h
    cases err1 with
    | some e => simp at h
    | none =>
      obtain ⟨u1, u2, u3⟩ := updatesX_ok _ _ _ _ _ hu
      simp only [] at h
      cases hd : logDeletesX SX1.logs es1 with
      | mk logs2 err2 =>
        rw [hd] at h
        simp only [] at h
        cases err2 with
        | some e => simp at h
        | none =>
          have hl2 := logDeletesX_ok _ _ _ hd
          simp only [] at h
          unfold commit
          simp only []
          cases hp : p.ptx with
          | none =>
            rw [hp] at h
            simp only [] at h
            cases hx : deletesX (decide (p.mode = .updatesRemoveLoose)) SX1.base es1 with
            | mk S3 r3 =>
              obtain ⟨es3, err3⟩ := r3
              rw [hx] at h
              simp only [] at h
              cases err3 with
              | some e => simp at h
              | none =>
                obtain ⟨d1, d2⟩ := deletesX_ok _ _ _ _ _ hx
                simp only [] at h
                injection h with h
                subst h
                simp only []
                rw [d1, d2, u1, u2]
                exact ⟨rfl, by rw [hl2, u3, u2]⟩
          | some ptx =>
            rw [hp] at h
            simp only [] at h
            cases hcp : commitPacked SX1.base ptx with
            | none => rw [hcp] at h; simp at h
            | some S2 =>
              rw [hcp] at h
              simp only [] at h
              cases hx : deletesX (decide (p.mode = .updatesRemoveLoose)) S2 es1 with
              | mk S3 r3 =>
                obtain ⟨es3, err3⟩ := r3
                rw [hx] at h
                simp only [] at h
                cases err3 with
                | some e => simp at h
                | none =>
                  obtain ⟨d1, d2⟩ := deletesX_ok _ _ _ _ _ hx
                  simp only [] at h
                  injection h with h
                  subst h
                  rw [u1] at hcp
                  simp only [hcp]
                  rw [d1, d2, u2]
                  exact ⟨rfl, by rw [hl2, u3, u2]⟩

theorem unblock_nil (S : Store) : unblock [] S = S := by
  unfold unblock
  have : S.locks.filter (fun n => !([] : List Name).contains n) = S.locks := by
    apply List.filter_eq_self.mpr
    intro a _; simp
  rw [this]

/-- the successful extended run is a successful core run (for transactions none of whose names
lies below a loose reference file) -/
theorem runX_ok_transfer (env : Env) (SX SX' : StoreX) (t : Txn) (h : runX env SX t = .ok SX')
    (hnb : ∀ es, preProcess (fun n => lookup SX.base.loose n) t.edits = .ok es → blockedNames SX.base es = []) :
    run env SX.base t = .ok () SX'.base := by
  unfold runX at h
  cases hp : preProcess (fun n => lookup SX.base.loose n) t.edits with
  | outOfFuel => rw [hp] at h; simp at h
  | cycle => rw [hp] at h; simp at h
  | duplicate => rw [hp] at h; simp at h
  | ok es =>
    rw [hp] at h
    simp only [hnb es hp, List.append_nil, unblock_nil] at h
    unfold run runWith
    cases hprep : prepareWith .fixed env SX.base t with
    | hang => rw [hprep] at h; simp at h
    | err e S1 => rw [hprep] at h; simp at h
    | panic S1 => rw [hprep] at h; simp at h
    | ok p S1 =>
      rw [hprep] at h
      simp only [] at h
      exact (commitX_ok { SX with base := S1 } SX' p h).1

/-- `prepare` alone: whatever lock files are around, an error or contract violation gives back
everything that was taken -/
theorem prepare_restores (env : Env) (S : Store) (t : Txn) :
    match prepareWith .fixed env S t with
    | .ok _ _ => True
    | .err _ S1 => S1 = S
    | .panic S1 => S1 = S
    | .hang => False := by
  cases hp : preProcess (fun n => lookup S.loose n) t.edits with
  | outOfFuel => exact absurd (preProcess_ne_outOfFuel _ _ _ hp) (by simp)
  | cycle =>
    have : prepareWith .fixed env S t = .err .preprocess S := by unfold prepareWith; rw [hp]
    rw [this]
  | duplicate =>
    have : prepareWith .fixed env S t = .err .preprocess S := by unfold prepareWith; rw [hp]
    rw [this]
  | ok es =>
    have hw := preProcess_ok_wf _ _ _ hp
    have hn : (es.map Edit.name).Nodup := by
      unfold preProcess at hp
      split at hp
      · cases hp
      · cases hp
      · split at hp
        · cases hp
        · rename_i hdup
          injection hp with hp
          subst hp
          exact hasDup_false_nodup _ (by simpa using hdup)
    have hlk : ∀ e ∈ es, e.lock = false := preProcess_ok_lock _ _ es hp
    have hS0 : ({ S with locks := lockedRev ([] : List Edit) ++ S.locks } : Store) = S := by
      cases S; simp [lockedRev]
    have hnotx : match liftPrep none t.mode (prepLoop .fixed
          { buffer := none, hasGlobalLock := false, directToPacked := decide (t.mode = .updatesRemoveLoose) }
          id es.length 0 S es) with
        | .ok _ _ => True
        | .err _ S1 => S1 = S
        | .panic S1 => S1 = S
        | .hang => False := by
      have hleak := prepLoop_leak
        { buffer := none, hasGlobalLock := false, directToPacked := decide (t.mode = .updatesRemoveLoose) }
        id S S.locks es [] (by simpa using hw) hlk (by simpa using hn) (by intro e he; cases he)
      simp only [List.nil_append, List.length_nil, hS0] at hleak
      cases hpl : prepLoop .fixed
          { buffer := none, hasGlobalLock := false, directToPacked := decide (t.mode = .updatesRemoveLoose) }
          id es.length 0 S es with
      | ok es' S1 => simp [liftPrep]
      | err e S1 => rw [hpl] at hleak; simp only [liftPrep]; rw [hleak]; cases S; rfl
      | panic S1 => rw [hpl] at hleak; simp only [liftPrep]; rw [hleak]; cases S; rfl
      | hang => rw [hpl] at hleak; exact hleak
    cases hpl0 : S.packedLock with
    | true =>
      rw [prepareWith_locked_eq env S t es hp hpl0]
      by_cases hc : (!(packedEditsOf t.mode es).1.isEmpty || (packedEditsOf t.mode es).2.1) = true
      · simp only [hc, if_true]
      · simp only [hc, Bool.false_eq_true, if_false]
        exact hnotx
    | false =>
      rw [prepareWith_ok_eq env S t es hp hpl0]
      by_cases hwith : withTxB t.mode S es = true
      · simp only [hwith, if_true]
        by_cases hk : objectsKnown env t.mode es = true
        · simp only [hk, if_true]
          have hb0 : ({ ({ S with packedLock := true } : Store) with locks := lockedRev ([] : List Edit) ++ S.locks } : Store)
              = { S with packedLock := true } := by cases S; simp [lockedRev]
          have hleak := prepLoop_leak
            { buffer := S.packed, hasGlobalLock := true, directToPacked := decide (t.mode = .updatesRemoveLoose) }
            (fun S' => { S' with packedLock := false }) { S with packedLock := true } S.locks es []
            (by simpa using hw) hlk (by simpa using hn) (by intro e he; cases he)
          simp only [List.nil_append, List.length_nil, hb0] at hleak
          have hunl : ({ ({ ({ S with packedLock := true } : Store) with locks := S.locks } : Store) with packedLock := false } : Store) = S := by
            cases S; simp_all
          cases hpl : prepLoop .fixed
              { buffer := S.packed, hasGlobalLock := true, directToPacked := decide (t.mode = .updatesRemoveLoose) }
              (fun S' => { S' with packedLock := false }) es.length 0 { S with packedLock := true } es with
          | ok es' S1 => simp [liftPrep]
          | err e S1 => rw [hpl] at hleak; simp only [liftPrep]; rw [hleak]; exact hunl
          | panic S1 => rw [hpl] at hleak; simp only [liftPrep]; rw [hleak]; exact hunl
          | hang => rw [hpl] at hleak; exact hleak
        · have hk' : objectsKnown env t.mode es = false := by simpa using hk
          simp [hk']
      · have hwith' : withTxB t.mode S es = false := by simpa using hwith
        simp only [hwith', Bool.false_eq_true, if_false]
        exact hnotx

theorem unblock_splus (S : Store) (es : List Edit) :
    unblock (blockedNames S es) { S with locks := S.locks ++ blockedNames S es } = S := by
  unfold unblock
  have h1 : (S.locks ++ blockedNames S es).filter (fun n => !(blockedNames S es).contains n) = S.locks := by
    rw [List.filter_append]
    have ha : S.locks.filter (fun n => !(blockedNames S es).contains n) = S.locks := by
      apply List.filter_eq_self.mpr
      intro a ha
      simp only [Bool.not_eq_true', List.contains_eq_mem, decide_eq_false_iff_not]
      intro hmem
      unfold blockedNames at hmem
      have := (List.mem_filter.mp hmem).2
      simp only [Bool.and_eq_true, Bool.not_eq_true', List.contains_eq_mem, decide_eq_false_iff_not] at this
      exact this.2 ha
    have hb : (blockedNames S es).filter (fun n => !(blockedNames S es).contains n) = [] := by
      apply List.filter_eq_nil_iff.mpr
      intro a ha
      simp [ha]
    rw [ha, hb, List.append_nil]
  simp only [h1]

def NotCore : Option ErrX → Prop
  | some (.core _) => False
  | _ => True

theorem updatesX_err (dl : Bool) : ∀ (es : List Edit) (SX : StoreX), NotCore (updatesX dl SX es).2.2 := by
  intro es
  induction es with
  | nil => intro SX; simp [updatesX, NotCore]
  | cons e rest ih =>
    intro SX
    unfold updatesX
    cases logStep SX.logs e with
    | none => simp [NotCore]
    | some logs1 =>
      simp only []
      split
      · simp [NotCore]
      · exact ih _

theorem logDeletesX_err : ∀ (es : List Edit) (logs : List (Name × List LogLine)), NotCore (logDeletesX logs es).2 := by
  intro es
  induction es with
  | nil => intro logs; simp [logDeletesX, NotCore]
  | cons e rest ih =>
    intro logs
    unfold logDeletesX
    cases e.update.change with
    | delete exp log =>
      simp only []
      split
      · simp [NotCore]
      · exact ih _
    | update log exp new => exact ih _

theorem deletesX_err (dl : Bool) : ∀ (es : List Edit) (S : Store), NotCore (deletesX dl S es).2.2 := by
  intro es
  induction es with
  | nil => intro S; simp [deletesX, NotCore]
  | cons e rest ih =>
    intro S
    unfold deletesX
    split
    · simp [NotCore]
    · exact ih _

/-- `commit` fails only at the reflog / rename / delete steps, or with `packedCommit` -/
theorem commitX_kinds (SX : StoreX) (p : Prepared) :
    match commitX SX p with
    | .err (.core e) _ => e = .packedCommit
    | .panic _ => False
    | .hang => False
    | _ => True := by
  unfold commitX
  simp only []
  have h1 := updatesX_err (decide (p.mode = .updatesRemoveLoose)) p.edits SX
  cases hu : (updatesX (decide (p.mode = .updatesRemoveLoose)) SX p.edits).2.2 with
  | some e =>
    rw [hu] at h1
    simp only []
    cases e <;> simp_all [NotCore]
  | none =>
    simp only []
    have h2 := logDeletesX_err (updatesX (decide (p.mode = .updatesRemoveLoose)) SX p.edits).2.1
      (updatesX (decide (p.mode = .updatesRemoveLoose)) SX p.edits).1.logs
    cases hd : (logDeletesX (updatesX (decide (p.mode = .updatesRemoveLoose)) SX p.edits).1.logs
        (updatesX (decide (p.mode = .updatesRemoveLoose)) SX p.edits).2.1).2 with
    | some e =>
      rw [hd] at h2
      simp only []
      cases e <;> simp_all [NotCore]
    | none =>
      simp only []
      cases hpx : p.ptx with
      | none =>
        simp only []
        have h3 := deletesX_err (decide (p.mode = Mode.updatesRemoveLoose))
          (updatesX (decide (p.mode = Mode.updatesRemoveLoose)) SX p.edits).2.1
          (updatesX (decide (p.mode = Mode.updatesRemoveLoose)) SX p.edits).1.base
        cases hx : (deletesX (decide (p.mode = Mode.updatesRemoveLoose))
            (updatesX (decide (p.mode = Mode.updatesRemoveLoose)) SX p.edits).1.base
            (updatesX (decide (p.mode = Mode.updatesRemoveLoose)) SX p.edits).2.1).2.2 with
        | some e =>
          rw [hx] at h3
          simp only []
          cases e <;> simp_all [NotCore]
        | none => simp
      | some ptx =>
        simp only []
        cases hcp : commitPacked (updatesX (decide (p.mode = Mode.updatesRemoveLoose)) SX p.edits).1.base ptx with
        | none => simp
        | some S2 =>
          simp only []
          have h3 := deletesX_err (decide (p.mode = Mode.updatesRemoveLoose))
            (updatesX (decide (p.mode = Mode.updatesRemoveLoose)) SX p.edits).2.1 S2
          cases hx : (deletesX (decide (p.mode = Mode.updatesRemoveLoose)) S2
              (updatesX (decide (p.mode = Mode.updatesRemoveLoose)) SX p.edits).2.1).2.2 with
          | some e =>
            rw [hx] at h3
            simp only []
            cases e <;> simp_all [NotCore]
          | none => simp

/-- In the extended model a failure of `prepare` — an expectation, a held lock, a loose reference
FILE where the lock file needs a directory, … — leaves references, packed-refs, locks and reflogs
exactly as they were. Only failures inside `commit` (reflog / rename / delete steps) are not
atomic. -/
theorem runX_prepare_failure_atomic (env : Env) (SX : StoreX) (t : Txn) :
    match runX env SX t with
    | .err (.core e) SX' => e ≠ .packedCommit → SX' = SX
    | .panic SX' => SX' = SX
    | .hang => False
    | _ => True := by
  unfold runX
  cases hp : preProcess (fun n => lookup SX.base.loose n) t.edits with
  | outOfFuel => exact absurd (preProcess_ne_outOfFuel _ _ _ hp) (by simp)
  | cycle => simp
  | duplicate => simp
  | ok es =>
    simp only []
    have hprep := prepare_restores env { SX.base with locks := SX.base.locks ++ blockedNames SX.base es } t
    cases hr : prepareWith .fixed env { SX.base with locks := SX.base.locks ++ blockedNames SX.base es } t with
    | hang => rw [hr] at hprep; exact hprep
    | err e S1 =>
      rw [hr] at hprep
      simp only []
      intro _
      rw [hprep, unblock_splus]
    | panic S1 =>
      rw [hr] at hprep
      simp only []
      rw [hprep, unblock_splus]
    | ok p S1 =>
      simp only []
      have hk := commitX_kinds { SX with base := unblock (blockedNames SX.base es) S1 } p
      cases hc : commitX { SX with base := unblock (blockedNames SX.base es) S1 } p with
      | ok S' => simp
      | err e S' =>
        rw [hc] at hk
        cases e with
        | core e0 => simp only [] at hk ⊢; intro hne; exact absurd hk hne
        | reflog => simp
        | lockCommit n => simp
        | deleteReflog n => simp
        | deleteRef n => simp
      | panic S' => rw [hc] at hk; exact absurd hk id
      | hang => rw [hc] at hk; exact absurd hk id

end GixModel.C16Fs
