/-
C16, extended model (directories and reflogs): when the extended run goes through, the core run
does the same to references, packed-refs and locks; the reflogs change by one pass over the edits.
-/
import GixModel.Lemmas.C16Leak
import GixModel.Model.C16Fs

namespace GixModel.C16Fs
open GixModel.C17 GixModel.C16

/-- the reflogs after the first loop of commit, when nothing is in the way -/
def logsU : List (Name × List LogLine) → List Edit → List (Name × List LogLine)
  | logs, [] => logs
  | logs, e :: rest =>
    logsU (match logLineOf e with
      | some l => if autoLog e.name || (lookup logs e.name).isSome then appendLog logs e.name l else logs
      | none => logs) rest

/-- … and after the second loop: the reflogs of deleted references are gone -/
def logsD : List (Name × List LogLine) → List Edit → List (Name × List LogLine)
  | logs, [] => logs
  | logs, e :: rest =>
    match e.update.change with
    | .delete _ _ => logsD (eraseKey logs e.name) rest
    | .update _ _ _ => logsD logs rest

theorem core_change (e : Edit) : e.core.update.change = e.update.change := rfl

/-- one step of `logsU` -/
def logsU1 (logs : List (Name × List LogLine)) (e : Edit) : List (Name × List LogLine) :=
  match logLineOf e with
  | some l => if autoLog e.name || (lookup logs e.name).isSome then appendLog logs e.name l else logs
  | none => logs

theorem logStep_some (logs logs1 : List (Name × List LogLine)) (e : Edit) (h : logStep logs e = some logs1) :
    logs1 = logsU1 logs e := by
  unfold logStep at h
  unfold logsU1
  cases hl : logLineOf e with
  | none => rw [hl] at h; simp at h; exact h.symm
  | some l =>
    rw [hl] at h
    simp only [] at h ⊢
    by_cases hc : (autoLog e.name || (lookup logs e.name).isSome) = true
    · simp only [hc, if_true] at h ⊢
      split at h
      · cases h
      · injection h with h; exact h.symm
    · simp only [hc, Bool.false_eq_true, if_false] at h ⊢
      split at h
      · cases h
      · injection h with h; exact h.symm

theorem updatesX_ok (dl : Bool) :
    ∀ (es : List Edit) (SX SX' : StoreX) (es' : List Edit), updatesX dl SX es = (SX', es', none) →
      SX'.base = (commitUpdates dl SX.base (es.map Edit.core)).1 ∧
      es' = (commitUpdates dl SX.base (es.map Edit.core)).2 ∧
      SX'.logs = logsU SX.logs es := by
  intro es
  induction es with
  | nil =>
    intro SX SX' es' h
    simp only [updatesX, Prod.mk.injEq] at h
    obtain ⟨h1, h2, _⟩ := h
    subst h1 h2
    exact ⟨rfl, rfl, rfl⟩
  | cons e rest ih =>
    intro SX SX' es' h
    unfold updatesX at h
    cases hlg : logStep SX.logs e with
    | none => rw [hlg] at h; simp at h
    | some logs1 =>
      rw [hlg] at h
      simp only [] at h
      split at h
      · simp at h
      · simp only [Prod.mk.injEq] at h
        obtain ⟨h1, h2, h3⟩ := h
        have hrec : updatesX dl { base := (commitUpdateStep dl SX.base e.core).1, logs := logs1 } rest
            = ((updatesX dl { base := (commitUpdateStep dl SX.base e.core).1, logs := logs1 } rest).1,
               (updatesX dl { base := (commitUpdateStep dl SX.base e.core).1, logs := logs1 } rest).2.1, none) := by
          rw [← h3]
        obtain ⟨i1, i2, i3⟩ := ih _ _ _ hrec
        have hl1 := logStep_some _ _ _ hlg
        simp only [List.map_cons, commitUpdates, logsU]
        refine ⟨by rw [← h1]; exact i1, by rw [← h2, i2], ?_⟩
        rw [← h1, i3, hl1]
        rfl

theorem logDeletesX_ok : ∀ (es : List Edit) (logs logs' : List (Name × List LogLine)),
    logDeletesX logs es = (logs', none) → logs' = logsD logs es := by
  intro es
  induction es with
  | nil => intro logs logs' h; simp [logDeletesX] at h; simp [logsD, h]
  | cons e rest ih =>
    intro logs logs' h
    unfold logDeletesX at h
    unfold logsD
    cases hch : e.update.change with
    | delete exp log =>
      rw [hch] at h
      simp only [] at h ⊢
      split at h
      · simp at h
      · exact ih _ _ h
    | update log exp new =>
      rw [hch] at h
      exact ih _ _ h

theorem deletesX_ok (dl : Bool) : ∀ (es : List Edit) (S S' : Store) (es' : List Edit),
    deletesX dl S es = (S', es', none) →
      S' = (commitDeletes dl S es).1 ∧ es' = (commitDeletes dl S es).2 := by
  intro es
  induction es with
  | nil =>
    intro S S' es' h
    simp only [deletesX, Prod.mk.injEq] at h
    exact ⟨h.1.symm, h.2.1.symm⟩
  | cons e rest ih =>
    intro S S' es' h
    unfold deletesX at h
    split at h
    · simp at h
    · simp only [Prod.mk.injEq] at h
      obtain ⟨h1, h2, h3⟩ := h
      have hrec : deletesX dl (commitDeleteStep dl S e).1 rest
          = ((deletesX dl (commitDeleteStep dl S e).1 rest).1, (deletesX dl (commitDeleteStep dl S e).1 rest).2.1, none) := by
        rw [← h3]
      obtain ⟨i1, i2⟩ := ih _ _ _ hrec
      simp only [commitDeletes]
      exact ⟨by rw [← h1]; exact i1, by rw [← h2, i2]⟩

/-- if the extended commit goes through, the core commit does the same to the base store, and
the reflogs are the result of the two passes -/
theorem commitX_ok (SX SX' : StoreX) (p : Prepared) (h : commitX SX p = .ok SX') :
    commit SX.base p = .ok () SX'.base ∧
    SX'.logs = logsD (logsU SX.logs p.edits)
      (commitUpdates (decide (p.mode = .updatesRemoveLoose)) SX.base (p.edits.map Edit.core)).2 := by
  unfold commitX at h
  simp only [] at h
  cases hu : updatesX (decide (p.mode = .updatesRemoveLoose)) SX p.edits with
  | mk SX1 r =>
    obtain ⟨es1, err1⟩ := r
    rw [hu] at h
    simp only [] at h
    cases err1 with
    | some e => simp at h
    | none =>
      obtain ⟨u1, u2, u3⟩ := updatesX_ok _ _ _ _ _ hu
      simp only [] at h
      cases hd : logDeletesX SX1.logs es1 with
      | mk logs2 err2 =>
        rw [hd] at h
        simp only [] at h
        cases err2 with
        | some e => simp at h
        | none =>
          have hl2 := logDeletesX_ok _ _ _ hd
          simp only [] at h
          unfold commit
          simp only []
          cases hp : p.ptx with
          | none =>
            rw [hp] at h
            simp only [] at h
            cases hx : deletesX (decide (p.mode = .updatesRemoveLoose)) SX1.base es1 with
            | mk S3 r3 =>
              obtain ⟨es3, err3⟩ := r3
              rw [hx] at h
              simp only [] at h
              cases err3 with
              | some e => simp at h
              | none =>
                obtain ⟨d1, d2⟩ := deletesX_ok _ _ _ _ _ hx
                simp only [] at h
                injection h with h
                subst h
                simp only []
                rw [d1, d2, u1, u2]
                exact ⟨rfl, by rw [hl2, u3, u2]⟩
          | some ptx =>
            rw [hp] at h
            simp only [] at h
            cases hcp : commitPacked SX1.base ptx with
            | none => rw [hcp] at h; simp at h
            | some S2 =>
              rw [hcp] at h
              simp only [] at h
              cases hx : deletesX (decide (p.mode = .updatesRemoveLoose)) S2 es1 with
              | mk S3 r3 =>
                obtain ⟨es3, err3⟩ := r3
                rw [hx] at h
                simp only [] at h
                cases err3 with
                | some e => simp at h
                | none =>
                  obtain ⟨d1, d2⟩ := deletesX_ok _ _ _ _ _ hx
                  simp only [] at h
                  injection h with h
                  subst h
                  rw [u1] at hcp
                  simp only [hcp]
                  rw [d1, d2, u2]
                  exact ⟨rfl, by rw [hl2, u3, u2]⟩

theorem unblock_nil (S : Store) : unblock [] S = S := by
  unfold unblock
  have : S.locks.filter (fun n => !([] : List Name).contains n) = S.locks := by
    apply List.filter_eq_self.mpr
    intro a _; simp
  rw [this]

/-- the successful extended run is a successful core run (for transactions none of whose names
lies below a loose reference file) -/
theorem runX_ok_transfer (env : Env) (SX SX' : StoreX) (t : Txn) (h : runX env SX t = .ok SX')
    (hnb : ∀ es, preProcess (fun n => lookup SX.base.loose n) t.edits = .ok es → blockedNames SX.base es = []) :
    run env SX.base t = .ok () SX'.base := by
  unfold runX at h
  cases hp : preProcess (fun n => lookup SX.base.loose n) t.edits with
  | outOfFuel => rw [hp] at h; simp at h
  | cycle => rw [hp] at h; simp at h
  | duplicate => rw [hp] at h; simp at h
  | ok es =>
    rw [hp] at h
    simp only [hnb es hp, List.append_nil, unblock_nil] at h
    unfold run runWith
    cases hprep : prepareWith .fixed env SX.base t with
    | hang => rw [hprep] at h; simp at h
    | err e S1 => rw [hprep] at h; simp at h
    | panic S1 => rw [hprep] at h; simp at h
    | ok p S1 =>
      rw [hprep] at h
      simp only [] at h
      exact (commitX_ok { SX with base := S1 } SX' p h).1

/-- `prepare` alone: whatever lock files are around, an error or contract violation gives back
everything that was taken -/
theorem prepare_restores (env : Env) (S : Store) (t : Txn) :
    match prepareWith .fixed env S t with
    | .ok _ _ => True
    | .err _ S1 => S1 = S
    | .panic S1 => S1 = S
    | .hang => False := by
  cases hp : preProcess (fun n => lookup S.loose n) t.edits with
  | outOfFuel => exact absurd (preProcess_ne_outOfFuel _ _ _ hp) (by simp)
  | cycle =>
    have : prepareWith .fixed env S t = .err .preprocess S := by unfold prepareWith; rw [hp]
    rw [this]
  | duplicate =>
    have : prepareWith .fixed env S t = .err .preprocess S := by unfold prepareWith; rw [hp]
    rw [this]
  | ok es =>
    have hw := preProcess_ok_wf _ _ _ hp
    have hn : (es.map Edit.name).Nodup := by
      unfold preProcess at hp
      split at hp
      · cases hp
      · cases hp
      · split at hp
        · cases hp
        · rename_i hdup
          injection hp with hp
          subst hp
          exact hasDup_false_nodup _ (by simpa using hdup)
    have hlk : ∀ e ∈ es, e.lock = false := preProcess_ok_lock _ _ es hp
    have hS0 : ({ S with locks := lockedRev ([] : List Edit) ++ S.locks } : Store) = S := by
      cases S; simp [lockedRev]
    have hnotx : match liftPrep none t.mode (prepLoop .fixed
          { buffer := none, hasGlobalLock := false, directToPacked := decide (t.mode = .updatesRemoveLoose) }
          id es.length 0 S es) with
        | .ok _ _ => True
        | .err _ S1 => S1 = S
        | .panic S1 => S1 = S
        | .hang => False := by
      have hleak := prepLoop_leak
        { buffer := none, hasGlobalLock := false, directToPacked := decide (t.mode = .updatesRemoveLoose) }
        id S S.locks es [] (by simpa using hw) hlk (by simpa using hn) (by intro e he; cases he)
      simp only [List.nil_append, List.length_nil, hS0] at hleak
      cases hpl : prepLoop .fixed
          { buffer := none, hasGlobalLock := false, directToPacked := decide (t.mode = .updatesRemoveLoose) }
          id es.length 0 S es with
      | ok es' S1 => simp [liftPrep]
      | err e S1 => rw [hpl] at hleak; simp only [liftPrep]; rw [hleak]; cases S; rfl
      | panic S1 => rw [hpl] at hleak; simp only [liftPrep]; rw [hleak]; cases S; rfl
      | hang => rw [hpl] at hleak; exact hleak
    cases hpl0 : S.packedLock with
    | true =>
      rw [prepareWith_locked_eq env S t es hp hpl0]
      by_cases hc : (!(packedEditsOf t.mode es).1.isEmpty || (packedEditsOf t.mode es).2.1) = true
      · simp only [hc, if_true]
      · simp only [hc, Bool.false_eq_true, if_false]
        exact hnotx
    | false =>
      rw [prepareWith_ok_eq env S t es hp hpl0]
      by_cases hwith : withTxB t.mode S es = true
      · simp only [hwith, if_true]
        by_cases hk : objectsKnown env t.mode es = true
        · simp only [hk, if_true]
          have hb0 : ({ ({ S with packedLock := true } : Store) with locks := lockedRev ([] : List Edit) ++ S.locks } : Store)
              = { S with packedLock := true } := by cases S; simp [lockedRev]
          have hleak := prepLoop_leak
            { buffer := S.packed, hasGlobalLock := true, directToPacked := decide (t.mode = .updatesRemoveLoose) }
            (fun S' => { S' with packedLock := false }) { S with packedLock := true } S.locks es []
            (by simpa using hw) hlk (by simpa using hn) (by intro e he; cases he)
          simp only [List.nil_append, List.length_nil, hb0] at hleak
          have hunl : ({ ({ ({ S with packedLock := true } : Store) with locks := S.locks } : Store) with packedLock := false } : Store) = S := by
            cases S; simp_all
          cases hpl : prepLoop .fixed
              { buffer := S.packed, hasGlobalLock := true, directToPacked := decide (t.mode = .updatesRemoveLoose) }
              (fun S' => { S' with packedLock := false }) es.length 0 { S with packedLock := true } es with
          | ok es' S1 => simp [liftPrep]
          | err e S1 => rw [hpl] at hleak; simp only [liftPrep]; rw [hleak]; exact hunl
          | panic S1 => rw [hpl] at hleak; simp only [liftPrep]; rw [hleak]; exact hunl
          | hang => rw [hpl] at hleak; exact hleak
        · have hk' : objectsKnown env t.mode es = false := by simpa using hk
          simp [hk']
      · have hwith' : withTxB t.mode S es = false := by simpa using hwith
        simp only [hwith', Bool.false_eq_true, if_false]
        exact hnotx

theorem unblock_splus (S : Store) (es : List Edit) :
    unblock (blockedNames S es) { S with locks := S.locks ++ blockedNames S es } = S := by
  unfold unblock
  have h1 : (S.locks ++ blockedNames S es).filter (fun n => !(blockedNames S es).contains n) = S.locks := by
    rw [List.filter_append]
    have ha : S.locks.filter (fun n => !(blockedNames S es).contains n) = S.locks := by
      apply List.filter_eq_self.mpr
      intro a ha
      simp only [Bool.not_eq_true', List.contains_eq_mem, decide_eq_false_iff_not]
      intro hmem
      unfold blockedNames at hmem
      have := (List.mem_filter.mp hmem).2
      simp only [Bool.and_eq_true, Bool.not_eq_true', List.contains_eq_mem, decide_eq_false_iff_not] at this
      exact this.2 ha
    have hb : (blockedNames S es).filter (fun n => !(blockedNames S es).contains n) = [] := by
      apply List.filter_eq_nil_iff.mpr
      intro a ha
      simp [ha]
    rw [ha, hb, List.append_nil]
  simp only [h1]

def NotCore : Option ErrX → Prop
  | some (.core _) => False
  | _ => True

theorem updatesX_err (dl : Bool) : ∀ (es : List Edit) (SX : StoreX), NotCore (updatesX dl SX es).2.2 := by
  intro es
  induction es with
  | nil => intro SX; simp [updatesX, NotCore]
  | cons e rest ih =>
    intro SX
    unfold updatesX
    cases logStep SX.logs e with
    | none => simp [NotCore]
    | some logs1 =>
      simp only []
      split
      · simp [NotCore]
      · exact ih _

theorem logDeletesX_err : ∀ (es : List Edit) (logs : List (Name × List LogLine)), NotCore (logDeletesX logs es).2 := by
  intro es
  induction es with
  | nil => intro logs; simp [logDeletesX, NotCore]
  | cons e rest ih =>
    intro logs
    unfold logDeletesX
    cases e.update.change with
    | delete exp log =>
      simp only []
      split
      · simp [NotCore]
      · exact ih _
    | update log exp new => exact ih _

theorem deletesX_err (dl : Bool) : ∀ (es : List Edit) (S : Store), NotCore (deletesX dl S es).2.2 := by
  intro es
  induction es with
  | nil => intro S; simp [deletesX, NotCore]
  | cons e rest ih =>
    intro S
    unfold deletesX
    split
    · simp [NotCore]
    · exact ih _

/-- `commit` fails only at the reflog / rename / delete steps, or with `packedCommit` -/
theorem commitX_kinds (SX : StoreX) (p : Prepared) :
    match commitX SX p with
    | .err (.core e) _ => e = .packedCommit
    | .panic _ => False
    | .hang => False
    | _ => True := by
  unfold commitX
  simp only []
  have h1 := updatesX_err (decide (p.mode = .updatesRemoveLoose)) p.edits SX
  cases hu : (updatesX (decide (p.mode = .updatesRemoveLoose)) SX p.edits).2.2 with
  | some e =>
    rw [hu] at h1
    simp only []
    cases e <;> simp_all [NotCore]
  | none =>
    simp only []
    have h2 := logDeletesX_err (updatesX (decide (p.mode = .updatesRemoveLoose)) SX p.edits).2.1
      (updatesX (decide (p.mode = .updatesRemoveLoose)) SX p.edits).1.logs
    cases hd : (logDeletesX (updatesX (decide (p.mode = .updatesRemoveLoose)) SX p.edits).1.logs
        (updatesX (decide (p.mode = .updatesRemoveLoose)) SX p.edits).2.1).2 with
    | some e =>
      rw [hd] at h2
      simp only []
      cases e <;> simp_all [NotCore]
    | none =>
      simp only []
      cases hpx : p.ptx with
      | none =>
        simp only []
        have h3 := deletesX_err (decide (p.mode = Mode.updatesRemoveLoose))
          (updatesX (decide (p.mode = Mode.updatesRemoveLoose)) SX p.edits).2.1
          (updatesX (decide (p.mode = Mode.updatesRemoveLoose)) SX p.edits).1.base
        cases hx : (deletesX (decide (p.mode = Mode.updatesRemoveLoose))
            (updatesX (decide (p.mode = Mode.updatesRemoveLoose)) SX p.edits).1.base
            (updatesX (decide (p.mode = Mode.updatesRemoveLoose)) SX p.edits).2.1).2.2 with
        | some e =>
          rw [hx] at h3
          simp only []
          cases e <;> simp_all [NotCore]
        | none => simp
      | some ptx =>
        simp only []
        cases hcp : commitPacked (updatesX (decide (p.mode = Mode.updatesRemoveLoose)) SX p.edits).1.base ptx with
        | none => simp
        | some S2 =>
          simp only []
          have h3 := deletesX_err (decide (p.mode = Mode.updatesRemoveLoose))
            (updatesX (decide (p.mode = Mode.updatesRemoveLoose)) SX p.edits).2.1 S2
          cases hx : (deletesX (decide (p.mode = Mode.updatesRemoveLoose)) S2
              (updatesX (decide (p.mode = Mode.updatesRemoveLoose)) SX p.edits).2.1).2.2 with
          | some e =>
            rw [hx] at h3
            simp only []
            cases e <;> simp_all [NotCore]
          | none => simp

/-- In the extended model a failure of `prepare` — an expectation, a held lock, a loose reference
FILE where the lock file needs a directory, … — leaves references, packed-refs, locks and reflogs
exactly as they were. Only failures inside `commit` (reflog / rename / delete steps) are not
atomic. -/
theorem runX_prepare_failure_atomic (env : Env) (SX : StoreX) (t : Txn) :
    match runX env SX t with
    | .err (.core e) SX' => e ≠ .packedCommit → SX' = SX
    | .panic SX' => SX' = SX
    | .hang => False
    | _ => True := by
  unfold runX
  cases hp : preProcess (fun n => lookup SX.base.loose n) t.edits with
  | outOfFuel => exact absurd (preProcess_ne_outOfFuel _ _ _ hp) (by simp)
  | cycle => simp
  | duplicate => simp
  | ok es =>
    simp only []
    have hprep := prepare_restores env { SX.base with locks := SX.base.locks ++ blockedNames SX.base es } t
    cases hr : prepareWith .fixed env { SX.base with locks := SX.base.locks ++ blockedNames SX.base es } t with
    | hang => rw [hr] at hprep; exact hprep
    | err e S1 =>
      rw [hr] at hprep
      simp only []
      intro _
      rw [hprep, unblock_splus]
    | panic S1 =>
      rw [hr] at hprep
      simp only []
      rw [hprep, unblock_splus]
    | ok p S1 =>
      simp only []
      have hk := commitX_kinds { SX with base := unblock (blockedNames SX.base es) S1 } p
      cases hc : commitX { SX with base := unblock (blockedNames SX.base es) S1 } p with
      | ok S' => simp
      | err e S' =>
        rw [hc] at hk
        cases e with
        | core e0 => simp only [] at hk ⊢; intro hne; exact absurd hk hne
        | reflog => simp
        | lockCommit n => simp
        | deleteReflog n => simp
        | deleteRef n => simp
      | panic S' => rw [hc] at hk; exact absurd hk id
      | hang => rw [hc] at hk; exact absurd hk id

/-! ### lock files that are never needed do not matter -/

theorem lockAndApply_frame (cx : Ctx) (base : Store) (K B : List Name) (e : Edit) (S1 : Store) (e1 : Edit)
    (h : lockAndApply cx { base with locks := K ++ B } e = .ok (S1, e1)) :
    ∃ K1, S1 = { base with locks := K1 ++ B } ∧
      lockAndApply cx { base with locks := K } e = .ok ({ base with locks := K1 }, e1) := by
  rw [lockAndApply_general] at h
  rw [lockAndApply_general]
  have hre : ∀ (X : List Name) n, readExisting ({ base with locks := X } : Store) cx.buffer n = readExisting base cx.buffer n :=
    fun _ _ => rfl
  rw [hre] at h
  rw [hre]
  dsimp only at h ⊢
  by_cases h1 : (!cx.hasGlobalLock && decide (e.name ∈ K ++ B)) = true
  · rw [if_pos h1] at h; cases h
  · rw [if_neg h1] at h
    have h1' : ¬ (!cx.hasGlobalLock && decide (e.name ∈ K)) = true := by
      intro hc
      apply h1
      simp only [Bool.and_eq_true, Bool.not_eq_true', decide_eq_true_eq] at hc ⊢
      exact ⟨hc.1, List.mem_append_left _ hc.2⟩
    rw [if_neg h1']
    cases hck : checkC (readExisting base cx.buffer e.name) e with
    | some ce => rw [hck] at h; cases h
    | none =>
      rw [hck] at h
      dsimp only at h ⊢
      by_cases h2 : (cx.hasGlobalLock && wantLock cx (readExisting base cx.buffer e.name) e && decide (e.name ∈ K ++ B)) = true
      · rw [if_pos h2] at h; cases h
      · rw [if_neg h2] at h
        have h2' : ¬ (cx.hasGlobalLock && wantLock cx (readExisting base cx.buffer e.name) e && decide (e.name ∈ K)) = true := by
          intro hc
          apply h2
          simp only [Bool.and_eq_true, decide_eq_true_eq] at hc ⊢
          exact ⟨hc.1, List.mem_append_left _ hc.2⟩
        rw [if_neg h2']
        injection h with h
        injection h with hS1 he1
        refine ⟨if wantLock cx (readExisting base cx.buffer e.name) e = true then e.name :: K else K, ?_, ?_⟩
        · rw [← hS1]
          cases wantLock cx (readExisting base cx.buffer e.name) e <;> simp
        · rw [he1]

theorem prepLoop_frame (cx : Ctx) (unlockPacked : Store → Store) (base : Store) (B : List Name) :
    ∀ todo cid (K : List Name) (es es' : List Edit) (S1 : Store),
      prepLoop .fixed cx unlockPacked todo cid { base with locks := K ++ B } es = .ok es' S1 →
      ∃ K', S1 = { base with locks := K' ++ B } ∧
        prepLoop .fixed cx unlockPacked todo cid { base with locks := K } es = .ok es' { base with locks := K' } := by
  intro todo
  induction todo with
  | zero =>
    intro cid K es es' S1 h
    simp only [prepLoop] at h ⊢
    injection h with h1 h2
    exact ⟨K, h2.symm, by rw [h1]⟩
  | succ todo ih =>
    intro cid K es es' S1 h
    simp only [prepLoop] at h ⊢
    cases hget : es[cid]? with
    | none =>
      rw [hget] at h
      simp only [] at h ⊢
      injection h with h1 h2
      exact ⟨K, h2.symm, by rw [h1]⟩
    | some e =>
      rw [hget] at h
      simp only [] at h ⊢
      cases hla : lockAndApply cx { base with locks := K ++ B } e with
      | error err =>
        rw [hla] at h
        cases err with
        | lock =>
          simp only [] at h
          cases hw : walkBy .fixed es es.length e.parent e.name with
          | none => rw [hw] at h; simp at h
          | some w => rw [hw] at h; cases w <;> simp at h
        | check ce =>
          simp only [] at h
          cases hc : errOfCheck e.name ce <;> (rw [hc] at h; simp at h)
      | ok r =>
        obtain ⟨S2, e1⟩ := r
        rw [hla] at h
        simp only [] at h
        obtain ⟨K1, hS2, hbase⟩ := lockAndApply_frame cx base K B e S2 e1 hla
        rw [hbase]
        simp only []
        subst hS2
        cases hprev : prevOid e1.update.change with
        | none =>
          rw [hprev] at h
          simp only [] at h ⊢
          exact ih _ _ _ _ _ h
        | some oid =>
          rw [hprev] at h
          cases hpar : e1.parent with
          | none =>
            rw [hpar] at h
            simp only [] at h ⊢
            exact ih _ _ _ _ _ h
          | some p =>
            rw [hpar] at h
            simp only [] at h ⊢
            cases hsl : setLeaf oid (es.set cid e1).length (some p) (es.set cid e1) with
            | none => rw [hsl] at h; simp at h
            | some r2 =>
              rw [hsl] at h
              cases r2 with
              | none => simp at h
              | some es2 =>
                simp only [] at h ⊢
                exact ih _ _ _ _ _ h

theorem filter_notin_append (K B : List Name) (h : ∀ n ∈ K, n ∉ B) :
    (K ++ B).filter (fun n => !(B.contains n)) = K := by
  rw [List.filter_append]
  have ha : K.filter (fun n => !(B.contains n)) = K := by
    apply List.filter_eq_self.mpr
    intro a ha
    simp only [Bool.not_eq_true', List.contains_eq_mem, decide_eq_false_iff_not]
    exact h a ha
  have hb : B.filter (fun n => !(B.contains n)) = [] := by
    apply List.filter_eq_nil_iff.mpr
    intro a ha
    simp [ha]
  rw [ha, hb, List.append_nil]

/-- the prepare loop of the extended run (with the names that cannot be locked standing in as
held locks) is the prepare loop of the core run -/
theorem prepLoop_unblock (cx : Ctx) (unlockPacked : Store → Store) (base : Store) (B : List Name)
    (hbl : base.locks = []) (es es' : List Edit) (S1 : Store)
    (hw : WfParents es) (hlk : ∀ e ∈ es, e.lock = false) (hn : (es.map Edit.name).Nodup)
    (h : prepLoop .fixed cx unlockPacked es.length 0 { base with locks := base.locks ++ B } es = .ok es' S1) :
    prepLoop .fixed cx unlockPacked es.length 0 base es = .ok es' (unblock B S1) := by
  have hb0 : ({ base with locks := base.locks ++ B } : Store) = { base with locks := [] ++ B } := by rw [hbl]
  rw [hb0] at h
  obtain ⟨K', hS1, hbase⟩ := prepLoop_frame cx unlockPacked base B es.length 0 [] es es' S1 h
  have hleak := prepLoop_leak cx unlockPacked base B es [] (by simpa using hw) hlk (by simpa using hn)
    (by intro e he; cases he)
  simp only [List.nil_append, List.length_nil, lockedRev] at hleak
  have h' : prepLoop .fixed cx unlockPacked es.length 0 { base with locks := B } es = .ok es' S1 := by
    simpa using h
  simp only [List.filter_nil, List.map_nil, List.reverse_nil, List.nil_append] at hleak
  rw [h'] at hleak
  obtain ⟨hS1', _, hown⟩ := hleak
  have hK : K' = ((es'.filter (·.lock)).map Edit.name).reverse := by
    have : K' ++ B = ((es'.filter (·.lock)).map Edit.name).reverse ++ B := by
      have e1 : S1.locks = K' ++ B := by rw [hS1]
      have e2 : S1.locks = ((es'.filter (·.lock)).map Edit.name).reverse ++ B := by rw [hS1']
      rw [← e1, e2]
    exact List.append_cancel_right this
  have hnotin : ∀ n ∈ K', n ∉ B := by
    intro n hnK
    rw [hK] at hnK
    simp only [List.mem_reverse, List.mem_map, List.mem_filter] at hnK
    obtain ⟨e, ⟨he, hl⟩, hen⟩ := hnK
    rw [← hen]; exact hown e he hl
  have hbase0 : ({ base with locks := ([] : List Name) } : Store) = base := by
    cases base; simp at hbl ⊢; exact hbl
  rw [hbase0] at hbase
  rw [hbase, hS1]
  congr 1
  unfold unblock
  simp only []
  rw [filter_notin_append K' B hnotin]

/-- the successful extended run, taken apart: `prepare` succeeds on the base store (without the
stand-in locks) with the same prepared edits, and the extended commit goes through from there -/
theorem runX_ok_parts (env : Env) (SX SX' : StoreX) (t : Txn) (hL : NoLocks SX.base)
    (h : runX env SX t = .ok SX') :
    ∃ p S1, prepareWith .fixed env SX.base t = .ok p S1 ∧ commitX { SX with base := S1 } p = .ok SX' := by
  obtain ⟨hl0, hpl0⟩ := hL
  unfold runX at h
  cases hp : preProcess (fun n => lookup SX.base.loose n) t.edits with
  | outOfFuel => rw [hp] at h; simp at h
  | cycle => rw [hp] at h; simp at h
  | duplicate => rw [hp] at h; simp at h
  | ok es =>
    rw [hp] at h
    simp only [] at h
    have hw := preProcess_ok_wf _ _ _ hp
    have hlk : ∀ e ∈ es, e.lock = false := preProcess_ok_lock _ _ es hp
    have hn : (es.map Edit.name).Nodup := by
      unfold preProcess at hp
      split at hp
      · cases hp
      · cases hp
      · split at hp
        · cases hp
        · rename_i hdup
          injection hp with hp
          subst hp
          exact hasDup_false_nodup _ (by simpa using hdup)
    -- prepare on the store with the stand-in locks
    have hp' : preProcess (fun n => lookup ({ SX.base with locks := SX.base.locks ++ blockedNames SX.base es } : Store).loose n) t.edits = .ok es := hp
    have heqP := prepareWith_ok_eq env { SX.base with locks := SX.base.locks ++ blockedNames SX.base es } t es hp' hpl0
    have heqB := prepareWith_ok_eq env SX.base t es hp hpl0
    have hwtx : withTxB t.mode ({ SX.base with locks := SX.base.locks ++ blockedNames SX.base es } : Store) es = withTxB t.mode SX.base es := rfl
    cases hprep : prepareWith .fixed env { SX.base with locks := SX.base.locks ++ blockedNames SX.base es } t with
    | hang => rw [hprep] at h; simp at h
    | err e S1 => rw [hprep] at h; simp at h
    | panic S1 => rw [hprep] at h; simp at h
    | ok p S1 =>
      rw [hprep] at h
      simp only [] at h
      -- the same prepare on the base store
      have hbaseprep : prepareWith .fixed env SX.base t = .ok p (unblock (blockedNames SX.base es) S1) := by
        rw [heqP, hwtx] at hprep
        rw [heqB]
        by_cases hwith : withTxB t.mode SX.base es = true
        · simp only [hwith, if_true] at hprep ⊢
          by_cases hk : objectsKnown env t.mode es = true
          · simp only [hk, if_true] at hprep ⊢
            cases hpl : prepLoop .fixed
                { buffer := SX.base.packed, hasGlobalLock := true, directToPacked := decide (t.mode = .updatesRemoveLoose) }
                (fun S' => { S' with packedLock := false }) es.length 0
                { ({ SX.base with locks := SX.base.locks ++ blockedNames SX.base es } : Store) with packedLock := true } es with
            | ok es' S2 =>
              rw [hpl] at hprep
              simp only [liftPrep] at hprep
              injection hprep with h1 h2
              have := prepLoop_unblock _ _ { SX.base with packedLock := true } (blockedNames SX.base es) hl0 es es' S2 hw hlk hn hpl
              rw [this]
              simp only [liftPrep]
              rw [← h1, ← h2]
            | err e S2 => rw [hpl] at hprep; simp [liftPrep] at hprep
            | panic S2 => rw [hpl] at hprep; simp [liftPrep] at hprep
            | hang => rw [hpl] at hprep; simp [liftPrep] at hprep
          · simp [hk] at hprep
        · have hwith' : withTxB t.mode SX.base es = false := by simpa using hwith
          simp only [hwith', Bool.false_eq_true, if_false] at hprep ⊢
          cases hpl : prepLoop .fixed
              { buffer := none, hasGlobalLock := false, directToPacked := decide (t.mode = .updatesRemoveLoose) }
              id es.length 0 { SX.base with locks := SX.base.locks ++ blockedNames SX.base es } es with
          | ok es' S2 =>
            rw [hpl] at hprep
            simp only [liftPrep] at hprep
            injection hprep with h1 h2
            have := prepLoop_unblock _ _ SX.base (blockedNames SX.base es) hl0 es es' S2 hw hlk hn hpl
            rw [this]
            simp only [liftPrep]
            rw [← h1, ← h2]
          | err e S2 => rw [hpl] at hprep; simp [liftPrep] at hprep
          | panic S2 => rw [hpl] at hprep; simp [liftPrep] at hprep
          | hang => rw [hpl] at hprep; simp [liftPrep] at hprep
      exact ⟨p, _, hbaseprep, h⟩

/-- the successful extended run is a successful core run — also when some names of the
transaction lie below a loose reference file (they then needed no lock file) -/
theorem runX_ok_transfer_any (env : Env) (SX SX' : StoreX) (t : Txn) (hL : NoLocks SX.base)
    (h : runX env SX t = .ok SX') : run env SX.base t = .ok () SX'.base := by
  obtain ⟨p, S1, hprep, hc⟩ := runX_ok_parts env SX SX' t hL h
  unfold run runWith
  rw [hprep]
  exact (commitX_ok { SX with base := S1 } SX' p hc).1

end GixModel.C16Fs
