import GixModel.Lemmas.C39Long
/-
C39 (round 2) — from the domain to EVERY pathspec string: whatever is not in one of the explicitly
named classes (`Excluded`) is read alike by both parsers — including everything both refuse (unknown
keywords, a missing `)`, `glob` with `literal`, a second `attr:`, invalid attribute names or values).
-/
namespace GixModel.Lemmas.C39
open GixModel GixModel.C38 GixModel.C39 GixModel.Spec.C39

/-! ### elements neither side knows -/

def prefixKw : Bytes := [112, 114, 101, 102, 105, 120, 58]   -- "prefix:"

/-- an element that is no keyword of either side -/
def UnknownWord (w : Bytes) : Prop := w ∉ flagWords ∧ attrPrefix.isPrefixOf w = false ∧ prefixKw.isPrefixOf w = false

theorem unknown_git (it : Item) (w : Bytes) (h : UnknownWord w) : gitStep it w = none := by
  obtain ⟨hf, ha, hp⟩ := h
  simp only [flagWords, List.mem_cons, List.mem_nil_iff, or_false, not_or] at hf
  obtain ⟨h0, h1, h2, h3, h4, h5, h6⟩ := hf
  unfold gitStep longKeyword
  have he : w.isEmpty = false := by cases w with | nil => exact absurd rfl h0 | cons _ _ => rfl
  have hp' : List.isPrefixOf [112, 114, 101, 102, 105, 120, 58] w = false := hp
  simp only [he, Bool.false_eq_true, if_false, hp', ha]
  simp [h1, h2, h3, h4, h5, h6]

theorem unknown_gix (p : PSpec) (w : Bytes) (h : UnknownWord w) : applyKeyword p w = none := by
  obtain ⟨hf, ha, _⟩ := h
  simp only [flagWords, List.mem_cons, List.mem_nil_iff, or_false, not_or] at hf
  obtain ⟨h0, h1, h2, h3, h4, h5, h6⟩ := hf
  unfold applyKeyword
  simp [h0, h1, h2, h3, h4, h5, h6, ha]

theorem rel2_unknown (op : Option PSpec) (oi : Option Item) (w : Bytes) (hw : UnknownWord w) (h : Rel2 op oi) :
    Rel2 (op.bind fun p => applyKeyword p w) (oi.bind fun it => gitStep it w) := by
  cases oi with
  | none =>
    cases op with
    | none => trivial
    | some p => exact absurd h (by simp [Rel2])
  | some it =>
    simp only [Option.bind_some, unknown_git it w hw]
    cases op with
    | none => trivial
    | some p => simp only [Option.bind_some, unknown_gix p w hw]; trivial

/-- the elements the total theorem covers -/
def WordCovered (w : Bytes) : Prop := LongWord w ∨ (UnknownWord w ∧ EscWord w)

theorem rel2_fold' (ws : List Bytes) (hws : ∀ w ∈ ws, WordCovered w) : ∀ (op : Option PSpec) (oi : Option Item), Rel2 op oi →
    Rel2 (gixFold op ws) (oi.bind fun it => gitFold it ws) := by
  induction ws with
  | nil =>
    intro op oi h
    cases oi <;> cases op <;> exact h
  | cons w ws ih =>
    intro op oi h
    have hstep : Rel2 (op.bind fun p => applyKeyword p w) (oi.bind fun it => gitStep it w) := by
      rcases hws w (by simp) with (hf | ⟨body, rfl, hbody⟩) | ⟨hu, _⟩
      · exact rel2_flag op oi w hf h
      · exact rel2_attr op oi body hbody h
      · exact rel2_unknown op oi w hu h
    have := ih (fun x hx => hws x (by simp [hx])) _ _ hstep
    cases op with
    | none =>
      simp only [Option.bind_none] at this
      rw [gixFold_none] at this ⊢
      cases oi with
      | none => exact this
      | some it =>
        simp only [Option.bind_some] at this ⊢
        rw [gitFold_cons]
        exact this
    | some p =>
      simp only [Option.bind_some] at this
      simp only [gixFold]
      cases oi with
      | none => exact absurd h (by simp [Rel2])
      | some it =>
        simp only [Option.bind_some] at this ⊢
        rw [gitFold_cons]
        exact this

/-- long magic, any covered elements (unknown ones make both refuse), any acceptable path part -/
theorem parse_long3 (ws : List Bytes) (hne : ws ≠ []) (hws : ∀ w ∈ ws, WordCovered w) (path : Bytes)
    (hc : ∀ p, gixFold (some PSpec.default) ws = some p → PathPartOk p.top path) :
    initItem (58 :: 40 :: (joinComma ws ++ 41 :: path))
      = ((parseSpec (58 :: 40 :: (joinComma ws ++ 41 :: path))).bind normalize).map itemOf := by
  have hw : ∀ w ∈ ws, EscWord w := fun w h => by
    rcases hws w h with hl | ⟨_, he⟩
    · exact hl.esc
    · exact he
  have hcolon : (58 :: 40 :: (joinComma ws ++ 41 :: path)) ≠ [58] := by simp
  rw [initItem_eq _ (by simp), parseSpec_eq _ (by simp) hcolon]
  have hg : parseElementMagic (58 :: 40 :: (joinComma ws ++ 41 :: path))
      = (gitFold Item.empty ws).map fun it' => (it', path) := by
    unfold parseElementMagic
    simp only
    apply longLoop_join_esc path ws hne hw
    have := length_le_joinComma ws
    simp only [List.length_append, List.length_cons]
    omega
  have hx : parseMagic (58 :: 40 :: (joinComma ws ++ 41 :: path))
      = (gixFold (some PSpec.default) ws).map fun p' => (p', path) := by
    unfold parseMagic
    have hs : parseShort (40 :: (joinComma ws ++ 41 :: path)) false false
        = some (false, false, 40 :: (joinComma ws ++ 41 :: path)) := by
      rw [parseShort.eq_def]
      have : ¬ (40 : UInt8) ∈ unimplementedChars := by decide
      simp [this]
    simp only [hs, afterShort]
    exact parseLong_join_esc _ ws hne hw path
  rw [hg, hx]
  have hrel := rel2_fold' ws hws (some PSpec.default) (some Item.empty) ⟨⟨rfl, rfl, rfl⟩, rfl⟩
  simp only [Option.bind_some] at hrel
  cases hgx : gixFold (some PSpec.default) ws with
  | none =>
    rw [hgx] at hrel
    cases hgf : gitFold Item.empty ws with
    | none => rfl
    | some it' =>
      rw [hgf] at hrel
      simp only [Rel2] at hrel
      simp only [Option.map_some, Option.bind_some, Option.map_none, Option.bind_none, finishItem, hrel, if_true]
  | some p =>
    rw [hgx] at hrel
    cases hgf : gitFold Item.empty ws with
    | none => rw [hgf] at hrel; exact absurd hrel (by simp [Rel2])
    | some it' =>
      rw [hgf] at hrel
      obtain ⟨hb, hit⟩ := hrel
      subst hit
      simp only [Option.map_some, Option.bind_some]
      exact finish_general p hb path (hc p hgx)

/-! ### a missing `)` -/

theorem longLoop_noclose : ∀ (fuel : Nat) (it : Item) (pos : Bytes), (∀ b ∈ pos, b ≠ 41) → longLoop fuel it pos = none := by
  intro fuel
  induction fuel with
  | zero => intro it pos _; rfl
  | succ f ih =>
    intro it pos h
    rw [longLoop_succ]
    by_cases he : pos.isEmpty = true
    · simp [he]
    · simp only [he, Bool.false_eq_true, if_false]
      have hh : (pos.head? == some 41) = false := by
        cases pos with
        | nil => rfl
        | cons b r => simpa using h b (by simp)
      simp only [hh, Bool.false_eq_true, if_false]
      have hnext : ∀ b ∈ (if pos[strcspnEscaped pos]? == some 44 then pos.drop (strcspnEscaped pos + 1) else pos.drop (strcspnEscaped pos)), b ≠ 41 := by
        intro b hb
        split at hb
        · exact h b (List.mem_of_mem_drop hb)
        · exact h b (List.mem_of_mem_drop hb)
      split
      · exact ih it _ hnext
      · split
        · rfl
        · exact ih _ _ hnext

/-- `:(` without `)`: both refuse -/
theorem parse_noclose (s : Bytes) (h : ∀ b ∈ s, b ≠ 41) :
    initItem (58 :: 40 :: s) = ((parseSpec (58 :: 40 :: s)).bind normalize).map itemOf := by
  have hcolon : (58 :: 40 :: s) ≠ [58] := by simp
  rw [initItem_eq _ (by simp), parseSpec_eq _ (by simp) hcolon]
  have hg : parseElementMagic (58 :: 40 :: s) = none := by
    unfold parseElementMagic
    exact longLoop_noclose _ _ s h
  have hx : parseMagic (58 :: 40 :: s) = none := by
    unfold parseMagic
    have hs : parseShort (40 :: s) false false = some (false, false, 40 :: s) := by
      rw [parseShort.eq_def]
      have : ¬ (40 : UInt8) ∈ unimplementedChars := by decide
      simp [this]
    simp only [hs, afterShort]
    unfold parseLong
    have : s.contains 41 = false := by
      apply Bool.eq_false_iff.mpr
      intro hc
      exact h 41 (by simpa using hc) rfl
    rw [this]
    rfl
  rw [hg, hx]
  rfl

/-! ### splitting at commas -/

def splitComma : Bytes → Bytes → List Bytes
  | acc, [] => [acc.reverse]
  | acc, b :: rest => if b == 44 then acc.reverse :: splitComma [] rest else splitComma (b :: acc) rest

theorem splitComma_ne (s acc : Bytes) : splitComma acc s ≠ [] := by
  induction s generalizing acc with
  | nil => simp [splitComma]
  | cons b s ih =>
    rw [splitComma.eq_def]
    simp only
    split
    · simp
    · exact ih _

theorem joinComma_cons (w : Bytes) (ws : List Bytes) (h : ws ≠ []) : joinComma (w :: ws) = w ++ 44 :: joinComma ws := by
  cases ws with
  | nil => exact absurd rfl h
  | cons a b => simp [joinComma]

theorem join_split (s : Bytes) : ∀ acc, joinComma (splitComma acc s) = acc.reverse ++ s := by
  induction s with
  | nil => intro acc; simp [splitComma, joinComma]
  | cons b s ih =>
    intro acc
    rw [splitComma.eq_def]
    simp only
    by_cases hb : (b == 44) = true
    · have : b = 44 := by simpa using hb
      subst this
      simp only [beq_self_eq_true, if_true]
      rw [joinComma_cons _ _ (splitComma_ne s []), ih []]
      simp
    · simp only [hb, Bool.false_eq_true, if_false]
      rw [ih (b :: acc)]
      simp

theorem splitComma_mem : ∀ (s acc : Bytes) (t : Bytes), t ∈ splitComma acc s → ∀ b ∈ t, (b ∈ acc ∨ b ∈ s) := by
  intro s
  induction s with
  | nil =>
    intro acc t ht b hb
    simp only [splitComma, List.mem_singleton] at ht
    subst ht
    exact Or.inl (List.mem_reverse.mp hb)
  | cons x s ih =>
    intro acc t ht b hb
    rw [splitComma.eq_def] at ht
    simp only at ht
    by_cases hx : (x == 44) = true
    · simp only [hx, if_true, List.mem_cons] at ht
      rcases ht with rfl | ht
      · exact Or.inl (List.mem_reverse.mp hb)
      · rcases ih [] t ht b hb with h | h
        · simp at h
        · exact Or.inr (List.mem_cons_of_mem _ h)
    · simp only [hx] at ht
      rcases ih (x :: acc) t ht b hb with h | h
      · rcases List.mem_cons.mp h with rfl | h'
        · exact Or.inr (by simp)
        · exact Or.inl h'
      · exact Or.inr (List.mem_cons_of_mem _ h)

theorem splitComma_nocomma : ∀ (s acc : Bytes), (∀ b ∈ acc, b ≠ 44) → ∀ t ∈ splitComma acc s, ∀ b ∈ t, b ≠ 44 := by
  intro s
  induction s with
  | nil =>
    intro acc hacc t ht b hb
    simp only [splitComma, List.mem_singleton] at ht
    subst ht
    exact hacc b (List.mem_reverse.mp hb)
  | cons x s ih =>
    intro acc hacc t ht
    rw [splitComma.eq_def] at ht
    simp only at ht
    by_cases hx : (x == 44) = true
    · simp only [hx, if_true, List.mem_cons] at ht
      rcases ht with rfl | ht
      · intro b hb; exact hacc b (List.mem_reverse.mp hb)
      · exact ih [] (by simp) t ht
    · simp only [hx] at ht
      have hx' : x ≠ 44 := by simpa using hx
      exact ih (x :: acc) (by intro b hb; rcases List.mem_cons.mp hb with rfl | h; exact hx'; exact hacc b h) t ht

/-- the elements of a magic part without `)` and backslash -/
theorem splitComma_wordOk (inside : Bytes) (h : ∀ b ∈ inside, b ≠ 41 ∧ b ≠ 92) : ∀ w ∈ splitComma [] inside, wordOk w := by
  intro w hw b hb
  have h44 := splitComma_nocomma inside [] (by simp) w hw b hb
  rcases splitComma_mem inside [] w hw b hb with hm | hm
  · simp at hm
  · exact ⟨h44, (h b hm).1, (h b hm).2⟩

/-- every string either has no `)` or splits at the first one -/
theorem split_close (s : Bytes) : (∀ b ∈ s, b ≠ 41) ∨
    ∃ inside path, s = inside ++ 41 :: path ∧ (∀ b ∈ inside, b ≠ 41) ∧ inside = s.takeWhile (· != 41)
      ∧ path = (s.dropWhile (· != 41)).drop 1 := by
  induction s with
  | nil => exact Or.inl (by simp)
  | cons x s ih =>
    by_cases hx : x = 41
    · subst hx
      exact Or.inr ⟨[], s, rfl, by simp, by simp, by simp⟩
    · have hne : (x != 41) = true := by simpa using hx
      rcases ih with h | ⟨inside, path, h1, h2, h3, h4⟩
      · exact Or.inl (by intro b hb; rcases List.mem_cons.mp hb with rfl | hb'; exact hx; exact h b hb')
      · refine Or.inr ⟨x :: inside, path, by rw [h1]; rfl, ?_, ?_, ?_⟩
        · intro b hb; rcases List.mem_cons.mp hb with rfl | hb'; exact hx; exact h2 b hb'
        · simp [List.takeWhile_cons, hne, h3]
        · simp [List.dropWhile_cons, hne, h4]

/-! ### the classes that stay outside, and the total theorem -/

/-- the magic part of the long form (behind `:(`, before the first `)`) and what follows -/
def magicPart (s : Bytes) : Bytes := s.takeWhile (· != 41)
def pathPart (s : Bytes) : Bytes := (s.dropWhile (· != 41)).drop 1

/-- an `attr:` element with a body the theorem does not cover: TAB/CR in it, or nothing but spaces -/
def BadAttrWord (w : Bytes) : Prop :=
  attrPrefix.isPrefixOf w = true ∧ ¬ (BodyOk (w.drop attrPrefix.length) ∧ ∃ b ∈ w.drop attrPrefix.length, b ≠ 32)

/-- the long form `:(` ++ s is outside: a backslash in the magic part (`\,` in `attr:` values is covered by
`InDomain2`, not by the total theorem); the `prefix:` keyword; a bad `attr:` body; or a path part that
is not `PathPartOk` for the `top` the keywords determine -/
def LongExcluded (s : Bytes) : Prop :=
  (∃ b ∈ magicPart s, b = 92)
    ∨ (∃ w ∈ splitComma [] (magicPart s), prefixKw.isPrefixOf w = true ∨ BadAttrWord w)
    ∨ (∃ p, gixFold (some PSpec.default) (splitComma [] (magicPart s)) = some p ∧ ¬ PathPartOk p.top (pathPart s))

/-- what the total theorem leaves out -/
def Excluded (e : Bytes) : Prop :=
  match e with
  | 58 :: 40 :: s => (∃ b ∈ s, b = 41) ∧ LongExcluded s
  | 58 :: rest => ∃ t x r, parseShort rest false false = some (t, x, r) ∧ (r.head? = some 40 ∨ ¬ PathPartOk t r)
  | e => e = [47]

theorem attrPrefix_split (w : Bytes) (h : attrPrefix.isPrefixOf w = true) : w = attrPrefix ++ w.drop attrPrefix.length := by
  have := List.isPrefixOf_iff_prefix.mp h
  obtain ⟨t, ht⟩ := this
  rw [← ht]
  simp

theorem EscWord.drop_plain_aux {l : Bytes} (h : EscWord l) : ∀ (pre w : Bytes), l = pre ++ w → (∀ b ∈ pre, b ≠ 92) → EscWord w := by
  induction h with
  | nil =>
    intro pre w he _
    have : w = [] := by
      cases pre with
      | nil => simpa using he.symm
      | cons _ _ => simp at he
    subst this; exact EscWord.nil
  | plain b l' h1 h2 h3 hl ih =>
    intro pre w he hp
    cases pre with
    | nil => simp at he; subst he; exact EscWord.plain b l' h1 h2 h3 hl
    | cons x pre' =>
      simp only [List.cons_append, List.cons.injEq] at he
      exact ih pre' w he.2 (fun b hb => hp b (by simp [hb]))
  | comma l' hl _ =>
    intro pre w he hp
    cases pre with
    | nil => simp at he; subst he; exact EscWord.comma l' hl
    | cons x pre' =>
      simp only [List.cons_append, List.cons.injEq] at he
      exact absurd he.1.symm (hp x (by simp))

/-- a word of a backslash-free magic part is covered unless it is one of the named classes -/
theorem word_covered (w : Bytes) (hw : wordOk w) (hp : prefixKw.isPrefixOf w = false) (hb : ¬ BadAttrWord w) : WordCovered w := by
  by_cases hf : w ∈ flagWords
  · exact Or.inl (Or.inl hf)
  · by_cases ha : attrPrefix.isPrefixOf w = true
    · have hsplit := attrPrefix_split w ha
      have hbody : BodyOk (w.drop attrPrefix.length) ∧ ∃ b ∈ w.drop attrPrefix.length, b ≠ 32 := by
        apply Classical.byContradiction
        intro hn
        exact hb ⟨ha, hn⟩
      refine Or.inl (Or.inr ⟨w.drop attrPrefix.length, hsplit, hbody.1, hbody.2, ?_⟩)
      exact EscWord.of_wordOk _ (fun b hb' => hw b (List.mem_of_mem_drop hb'))
    · exact Or.inr ⟨⟨hf, Bool.eq_false_iff.mpr ha, hp⟩, EscWord.of_wordOk w hw⟩

/-- **the total theorem**: every non-empty pathspec string outside `Excluded` is read alike -/
theorem parse_total (e : Bytes) (hne : e ≠ []) (h : ¬ Excluded e) :
    initItem e = ((parseSpec e).bind normalize).map itemOf := by
  cases e with
  | nil => exact absurd rfl hne
  | cons a q =>
    by_cases ha : a = 58
    · subst ha
      cases q with
      | nil => rfl
      | cons b r =>
        by_cases hb : b = 40
        · subst hb
          -- the long form
          rcases split_close r with hno | ⟨inside, path, hs, hin, hi, hpth⟩
          · exact parse_noclose r hno
          · have hex : ¬ LongExcluded r := by
              intro hl
              apply h
              exact ⟨⟨41, by rw [hs]; simp, rfl⟩, hl⟩
            unfold LongExcluded at hex
            simp only [not_or] at hex
            obtain ⟨h92, hwords, hpath⟩ := hex
            have hmp : magicPart r = inside := hi.symm
            have hpp : pathPart r = path := hpth.symm
            rw [hmp] at h92 hwords hpath
            rw [hpp] at hpath
            have hin2 : ∀ b ∈ inside, b ≠ 41 ∧ b ≠ 92 := fun b hb => ⟨hin b hb, fun h' => h92 ⟨b, hb, h'⟩⟩
            have hwok := splitComma_wordOk inside hin2
            have hj : inside = joinComma (splitComma [] inside) := by rw [join_split]; rfl
            have hcov : ∀ w ∈ splitComma [] inside, WordCovered w := by
              intro w hw
              apply word_covered w (hwok w hw)
              · apply Bool.eq_false_iff.mpr
                intro hp
                exact hwords ⟨w, hw, Or.inl hp⟩
              · intro hbad
                exact hwords ⟨w, hw, Or.inr hbad⟩
            rw [hs, hj]
            apply parse_long3 _ (splitComma_ne inside []) hcov path
            intro p hp
            apply Classical.byContradiction
            intro hn
            exact hpath ⟨p, hp, hn⟩
        · -- the short form
          apply parse_short2 (b :: r) (by simp) (by simpa using hb)
          intro t x r' hps
          have hex : ¬ ∃ t x r', parseShort (b :: r) false false = some (t, x, r') ∧ (r'.head? = some 40 ∨ ¬ PathPartOk t r') := by
            intro hl
            apply h
            unfold Excluded
            split
            · rename_i heq; injection heq with _ h2; injection h2 with h3 _; exact absurd h3 hb
            · rename_i heq; injection heq with _ h2; subst h2; exact hl
            · rename_i h1 h2; exact absurd rfl (h2 _)
          constructor
          · intro h40; exact hex ⟨t, x, r', hps, Or.inl h40⟩
          · apply Classical.byContradiction
            intro hn; exact hex ⟨t, x, r', hps, Or.inr hn⟩
    · -- no magic
      apply parse_plain2 (a :: q) (by simp) (by simpa using ha)
      intro h47
      apply h
      unfold Excluded
      split
      · rename_i heq; injection heq with h1 _; exact absurd h1 ha
      · rename_i heq; injection heq with h1 _; exact absurd h1 ha
      · exact h47

end GixModel.Lemmas.C39
