/-
C16: writers contending on `packed-refs.lock` — a small-step model of the packed-refs part of a
transaction, for any number of writers and any interleaving of their atomic steps.

The atomic steps of one writer, in the order of the real code (`file::Store::packed_transaction`,
`packed::Transaction::commit`):

  TryLock      create `packed-refs.lock` (O_EXCL); does nothing while someone else holds it
               (that is the back-off loop of `lock_with_mode`)
  ReadPacked   `assure_packed_refs_uptodate()`: take the snapshot of packed-refs — AFTER the lock
  Commit       merge the edits into the snapshot, rename the lock file onto packed-refs (which
               releases the lock)

`Legacy.step` is the "fail early" order that reads the snapshot BEFORE taking the lock.
-/
import GixModel.Model.C17Core

namespace GixModel.C16Race
open GixModel.C17

abbrev Packed := List (Name × Oid)

inductive PC where
  | start
  /-- (legacy order only) snapshot taken, lock not yet held -/
  | early (snap : Packed)
  | locked
  | read (snap : Packed)
  | done

structure St where
  file : Packed
  lock : Option Nat
  pc : Nat → PC
  /-- the writers in the order they committed -/
  log : List Nat

def upd (g : Nat → PC) (w : Nat) (v : PC) : Nat → PC := fun x => if x = w then v else g x

/-- one atomic step of writer `w`; `f w` is what its edits do to the snapshot it merges them into -/
def step (f : Nat → Packed → Packed) (s : St) (w : Nat) : St :=
  match s.pc w with
  | .start => if s.lock.isNone then { s with lock := some w, pc := upd s.pc w .locked } else s
  | .locked => { s with pc := upd s.pc w (.read s.file) }
  | .read snap => { s with file := f w snap, lock := none, pc := upd s.pc w .done, log := s.log ++ [w] }
  | .early _ => s
  | .done => s

def run (f : Nat → Packed → Packed) : St → List Nat → St
  | s, [] => s
  | s, w :: ws => run f (step f s w) ws

def init (file0 : Packed) : St := { file := file0, lock := none, pc := fun _ => .start, log := [] }

/-- the sequential composition of the writers in `order` -/
def sequential (f : Nat → Packed → Packed) (file0 : Packed) (order : List Nat) : Packed :=
  order.foldl (fun p w => f w p) file0

structure Inv (f : Nat → Packed → Packed) (file0 : Packed) (s : St) : Prop where
  lin : s.file = sequential f file0 s.log
  locked : ∀ w, s.pc w = .locked → s.lock = some w
  read : ∀ w snap, s.pc w = .read snap → s.lock = some w ∧ snap = s.file
  noEarly : ∀ w snap, s.pc w ≠ .early snap
  logged : ∀ w, w ∈ s.log → s.pc w = .done
  nodup : s.log.Nodup

theorem inv_init (f : Nat → Packed → Packed) (file0 : Packed) : Inv f file0 (init file0) := by
  refine ⟨rfl, ?_, ?_, ?_, ?_, List.nodup_nil⟩
  · intro _ h; cases h
  · intro _ _ h; cases h
  · intro _ _ h; cases h
  · intro _ h; cases h

theorem upd_same (g : Nat → PC) (w : Nat) (v : PC) : upd g w v w = v := by simp [upd]
theorem upd_other (g : Nat → PC) (w x : Nat) (v : PC) (h : x ≠ w) : upd g w v x = g x := by simp [upd, h]

theorem inv_step (f : Nat → Packed → Packed) (file0 : Packed) (s : St) (w : Nat) (h : Inv f file0 s) :
    Inv f file0 (step f s w) := by
  unfold step
  cases hpc : s.pc w with
  | start =>
    simp only []
    cases hl : s.lock with
    | some v => simpa [hl] using h
    | none =>
      simp only [Option.isNone_none, if_true]
      -- nobody is between TryLock and Commit while the lock is free
      have hnone_locked : ∀ x, s.pc x ≠ .locked := fun x hx => by
        have := h.locked x hx; rw [hl] at this; cases this
      have hnone_read : ∀ x snap, s.pc x ≠ .read snap := fun x snap hx => by
        have := (h.read x snap hx).1; rw [hl] at this; cases this
      refine ⟨h.lin, ?_, ?_, ?_, ?_, h.nodup⟩
      · intro x hx
        dsimp only at hx ⊢
        by_cases hxw : x = w
        · rw [hxw]
        · rw [upd_other _ _ _ _ hxw] at hx; exact absurd hx (hnone_locked x)
      · intro x snap hx
        dsimp only at hx ⊢
        by_cases hxw : x = w
        · rw [hxw, upd_same] at hx; cases hx
        · rw [upd_other _ _ _ _ hxw] at hx; exact absurd hx (hnone_read x snap)
      · intro x snap hx
        dsimp only at hx ⊢
        by_cases hxw : x = w
        · rw [hxw, upd_same] at hx; cases hx
        · rw [upd_other _ _ _ _ hxw] at hx; exact h.noEarly x snap hx
      · intro x hx
        dsimp only at hx ⊢
        have hd := h.logged x hx
        by_cases hxw : x = w
        · rw [hxw] at hd; rw [hpc] at hd; cases hd
        · rw [upd_other _ _ _ _ hxw]; exact hd
  | locked =>
    simp only []
    have hlw : s.lock = some w := h.locked w hpc
    refine ⟨h.lin, ?_, ?_, ?_, ?_, h.nodup⟩
    · intro x hx
      dsimp only at hx ⊢
      by_cases hxw : x = w
      · rw [hxw, upd_same] at hx; cases hx
      · rw [upd_other _ _ _ _ hxw] at hx; exact h.locked x hx
    · intro x snap hx
      dsimp only at hx ⊢
      by_cases hxw : x = w
      · rw [hxw, upd_same] at hx
        injection hx with hx
        rw [hxw]; exact ⟨hlw, hx.symm⟩
      · rw [upd_other _ _ _ _ hxw] at hx; exact h.read x snap hx
    · intro x snap hx
      dsimp only at hx ⊢
      by_cases hxw : x = w
      · rw [hxw, upd_same] at hx; cases hx
      · rw [upd_other _ _ _ _ hxw] at hx; exact h.noEarly x snap hx
    · intro x hx
      dsimp only at hx ⊢
      have hd := h.logged x hx
      by_cases hxw : x = w
      · rw [hxw] at hd; rw [hpc] at hd; cases hd
      · rw [upd_other _ _ _ _ hxw]; exact hd
  | read snap =>
    simp only []
    obtain ⟨hlw, hsnap⟩ := h.read w snap hpc
    -- everybody else is outside the critical section
    have hother_locked : ∀ x, x ≠ w → s.pc x ≠ .locked := fun x hxw hx => by
      have := h.locked x hx; rw [hlw] at this; injection this with this; exact hxw this.symm
    have hother_read : ∀ x sn, x ≠ w → s.pc x ≠ .read sn := fun x sn hxw hx => by
      have := (h.read x sn hx).1; rw [hlw] at this; injection this with this; exact hxw this.symm
    have hnotin : w ∉ s.log := fun hmem => by
      have := h.logged w hmem; rw [hpc] at this; cases this
    refine ⟨?_, ?_, ?_, ?_, ?_, ?_⟩
    · show f w snap = sequential f file0 (s.log ++ [w])
      unfold sequential
      rw [List.foldl_append]
      simp only [List.foldl_cons, List.foldl_nil]
      rw [hsnap, h.lin]
      rfl
    · intro x hx
      dsimp only at hx ⊢
      by_cases hxw : x = w
      · rw [hxw, upd_same] at hx; cases hx
      · rw [upd_other _ _ _ _ hxw] at hx; exact absurd hx (hother_locked x hxw)
    · intro x sn hx
      dsimp only at hx ⊢
      by_cases hxw : x = w
      · rw [hxw, upd_same] at hx; cases hx
      · rw [upd_other _ _ _ _ hxw] at hx; exact absurd hx (hother_read x sn hxw)
    · intro x sn hx
      dsimp only at hx ⊢
      by_cases hxw : x = w
      · rw [hxw, upd_same] at hx; cases hx
      · rw [upd_other _ _ _ _ hxw] at hx; exact h.noEarly x sn hx
    · intro x hx
      dsimp only at hx ⊢
      by_cases hxw : x = w
      · rw [hxw, upd_same]
      · rw [upd_other _ _ _ _ hxw]
        rcases List.mem_append.mp hx with hx | hx
        · exact h.logged x hx
        · simp at hx; exact absurd hx hxw
    · exact List.nodup_append.mpr ⟨h.nodup, (by simp), fun a ha b hb => by
        simp at hb; rw [hb]; intro heq; rw [heq] at ha; exact hnotin ha⟩
  | early snap => exact absurd hpc (h.noEarly w snap)
  | done => simpa using h

theorem inv_run (f : Nat → Packed → Packed) (file0 : Packed) :
    ∀ (sched : List Nat) (s : St), Inv f file0 s → Inv f file0 (run f s sched) := by
  intro sched
  induction sched with
  | nil => intro s h; exact h
  | cons w ws ih => intro s h; exact ih _ (inv_step f file0 s w h)

namespace Legacy

/-- the "fail early" order: the snapshot is read first, the lock is taken afterwards -/
def step (f : Nat → Packed → Packed) (s : St) (w : Nat) : St :=
  match s.pc w with
  | .start => { s with pc := upd s.pc w (.early s.file) }
  | .early snap => if s.lock.isNone then { s with lock := some w, pc := upd s.pc w (.read snap) } else s
  | .read snap => { s with file := f w snap, lock := none, pc := upd s.pc w .done, log := s.log ++ [w] }
  | .locked => s
  | .done => s

def run (f : Nat → Packed → Packed) : St → List Nat → St
  | s, [] => s
  | s, w :: ws => run f (step f s w) ws

end Legacy

namespace Window

/-- The OTHER place where `prepare_inner` opens the packed-refs transaction (no packed-refs
update planned): `packed_refs_lock_path().is_file()` is checked first; if nobody holds the lock at
that moment the buffer is read (`assure_packed_refs_uptodate`) and only then locked
(`buffer_into_transaction`); if somebody does, `packed_transaction` is used (lock first, then
read). Check + read are taken as ONE atomic step here (coarser than reality, the window is only
larger there). A writer that saw the lock held is modelled as waiting in `.locked`-order, i.e. it
re-enters through `.start` of the lock-first program once the lock is free. -/
def step (f : Nat → Packed → Packed) (s : St) (w : Nat) : St :=
  match s.pc w with
  | .start => if s.lock.isNone then { s with pc := upd s.pc w (.early s.file) } else s
  | .early snap => if s.lock.isNone then { s with lock := some w, pc := upd s.pc w (.read snap) } else s
  | .read snap => { s with file := f w snap, lock := none, pc := upd s.pc w .done, log := s.log ++ [w] }
  | .locked => s
  | .done => s

def run (f : Nat → Packed → Packed) : St → List Nat → St
  | s, [] => s
  | s, w :: ws => run f (step f s w) ws

end Window

/-- writer `w` adds the reference named by the byte `w` with object `w` -/
def addOwn (w : Nat) (p : Packed) : Packed := p ++ [([w.toUInt8], w)]

end GixModel.C16Race
