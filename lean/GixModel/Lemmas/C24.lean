import GixModel.Spec.C24
/-
C24 — lemmas: big-endian readers invert the writers, git's varint round-trips through
`leb64_from_read`, one entry / a chunk / all offset-table blocks written by git decode to what was
written (versions 2, 3 and 4, every path length), and grouping blocks into threads is irrelevant.
-/
namespace GixModel.C24
open GixModel GixModel.Spec.C24

theorem u8 (n : Nat) : (UInt8.ofNat n).toNat = n % 256 := by
  simp
theorem readU32_be32 (n : Nat) (h : n < 4294967296) (rest : Bytes) :
    readU32 (be32 n ++ rest) = some (n, rest) := by
  simp only [be32, readU32, List.cons_append, List.nil_append, u8]
  congr 2
  omega

theorem readU16_be16 (n : Nat) (h : n < 65536) (rest : Bytes) :
    readU16 (be16 n ++ rest) = some (n, rest) := by
  simp only [be16, readU16, List.cons_append, List.nil_append, u8]
  congr 2
  omega

theorem splitAtPos_append (a rest : Bytes) : splitAtPos (a ++ rest) a.length = some (a, rest) := by
  simp [splitAtPos]

structure WfStat (s : Stat) : Prop where
  h1 : s.ctimeS < 4294967296
  h2 : s.ctimeN < 4294967296
  h3 : s.mtimeS < 4294967296
  h4 : s.mtimeN < 4294967296
  h5 : s.dev < 4294967296
  h6 : s.ino < 4294967296
  h7 : s.uid < 4294967296
  h8 : s.gid < 4294967296
  h9 : s.size < 4294967296

/-- an entry as git (and gitoxide) can hold it in memory and store it on disk -/
structure WfEntry (e : Entry) : Prop where
  stat : WfStat e.stat
  mode_lt : e.mode < 4294967296
  mode_known : truncMode e.mode = e.mode
  id_len : e.id.length = hashLen
  flags_low : e.flags % 4096 = 0
  flags_ext : e.flags / 65536 % 8192 = 0 ∧ e.flags / 65536 < 32768
  flags_extended : e.flags / 65536 ≠ 0 → e.flags / 16384 % 2 = 1
  path_nul : ∀ b ∈ e.path, b ≠ 0

theorem loadFixed_encode (e : Entry) (h : WfEntry e) (rest : Bytes) :
    loadFixed (gitEncodeFixed e ++ rest) =
      some (e.stat, e.mode, e.id, e.flags + min e.path.length 4095, fixedSize e, rest) := by
  obtain ⟨⟨h1, h2, h3, h4, h5, h6, h7, h8, h9⟩, hm, _, hid, hfl, ⟨hx1, hx2⟩, hext, _⟩ := h
  unfold gitEncodeFixed loadFixed
  simp only [List.append_assoc]
  rw [readU32_be32 _ h1]; simp only []
  rw [readU32_be32 _ h2]; simp only []
  rw [readU32_be32 _ h3]; simp only []
  rw [readU32_be32 _ h4]; simp only []
  rw [readU32_be32 _ h5]; simp only []
  rw [readU32_be32 _ h6]; simp only []
  rw [readU32_be32 _ hm]; simp only []
  rw [readU32_be32 _ h7]; simp only []
  rw [readU32_be32 _ h8]; simp only []
  rw [readU32_be32 _ h9]; simp only []
  rw [← hid, splitAtPos_append]; simp only []
  have hmin : min e.path.length 4095 ≤ 4095 := Nat.min_le_right _ _
  have hf16 : e.flags % 65536 + min e.path.length 4095 < 65536 := by omega
  rw [readU16_be16 _ hf16]; simp only []
  by_cases hE : e.flags / 16384 % 2 = 1
  · have hE' : (e.flags % 65536 + min e.path.length 4095) / 16384 % 2 = 1 := by omega
    have hxlt : e.flags / 65536 < 65536 := by omega
    simp only [hE, hE', if_true, fixedSize]
    rw [readU16_be16 _ hxlt]; simp only []
    have hno : ¬ (e.flags / 65536 % 8192 ≠ 0 ∨ e.flags / 65536 / 32768 ≠ 0) := by omega
    simp only [hno, if_false]
    have hsum : e.flags % 65536 + min e.path.length 4095 + e.flags / 65536 * 65536 = e.flags + min e.path.length 4095 := by omega
    rw [hsum]
  · have hE' : ¬ ((e.flags % 65536 + min e.path.length 4095) / 16384 % 2 = 1) := by omega
    have hz : e.flags / 65536 = 0 := by
      cases hq : e.flags / 65536 with
      | zero => rfl
      | succ k => exact absurd (hext (by omega)) hE
    simp only [hE, hE', if_false, fixedSize, List.nil_append]
    have hsum : e.flags % 65536 + min e.path.length 4095 = e.flags + min e.path.length 4095 := by omega
    rw [hsum]

theorem varintPre_length (fuel : Nat) : ∀ (m j : Nat), m < 128 ^ j → (varintPre fuel m).length ≤ j := by
  induction fuel with
  | zero => intro m j _; simp [varintPre]
  | succ f ih =>
    intro m j hj
    unfold varintPre
    by_cases hm : m = 0
    · simp [hm]
    · simp only [hm, if_false, List.length_append, List.length_cons, List.length_nil]
      cases j with
      | zero => simp at hj; omega
      | succ j' =>
        have : (m - 1) / 128 < 128 ^ j' := by
          rw [Nat.pow_succ] at hj
          apply Nat.div_lt_of_lt_mul
          omega
        have := ih ((m - 1) / 128) j' this
        omega

theorem varInt_pre (fuel : Nat) : ∀ (m : Nat), 1 ≤ m → m ≤ fuel → m < 128 ^ 9 →
    ∀ (t : UInt8) (rest : Bytes),
      varInt (varintPre fuel m ++ t :: rest) = varIntLoop (m - 1) (varintPre fuel m).length (t :: rest) := by
  induction fuel with
  | zero => intro m h1 h2; omega
  | succ f ih =>
    intro m h1 h2 hb t rest
    have hm : m ≠ 0 := by omega
    by_cases hm' : (m - 1) / 128 = 0
    · -- single continuation byte
      have hlt : m - 1 < 128 := by omega
      have hpre : varintPre (f + 1) m = [UInt8.ofNat (128 + (m - 1) % 128)] := by
        rw [varintPre]
        simp only [hm, if_false, hm']
        cases f <;> simp [varintPre]
      rw [hpre]
      simp only [List.cons_append, List.nil_append, varInt, u8, List.length_cons, List.length_nil]
      have h1 : (128 + (m - 1) % 128) % 256 ≥ 128 := by omega
      have h2 : (128 + (m - 1) % 128) % 256 % 128 = m - 1 := by omega
      simp only [h1, if_true, h2]
    · have hrec : varintPre (f + 1) m = varintPre f ((m - 1) / 128) ++ [UInt8.ofNat (128 + (m - 1) % 128)] := by
        rw [varintPre]; simp only [hm, if_false]
      have hm1 : 1 ≤ (m - 1) / 128 := by omega
      have hm2 : (m - 1) / 128 ≤ f := by
        have : (m - 1) / 128 ≤ m - 1 := Nat.div_le_self _ _
        omega
      have hm3 : (m - 1) / 128 < 128 ^ 8 := by
        apply Nat.div_lt_of_lt_mul
        have : (128:Nat) ^ 9 = 128 * 128 ^ 8 := by decide
        omega
      have hlen := varintPre_length f ((m - 1) / 128) 8 hm3
      have hm3' : (m - 1) / 128 < 128 ^ 9 := by
        have : (128:Nat) ^ 8 < 128 ^ 9 := by decide
        omega
      have := ih ((m - 1) / 128) hm1 hm2 hm3' (UInt8.ofNat (128 + (m - 1) % 128)) (t :: rest)
      rw [hrec, List.append_assoc]
      simp only [List.cons_append, List.nil_append]
      rw [this]
      rw [varIntLoop]
      have hi : ¬ ((varintPre f ((m - 1) / 128)).length + 1 > 10) := by omega
      simp only [hi, if_false, u8, List.length_append, List.length_cons, List.length_nil]
      have h1 : (128 + (m - 1) % 128) % 256 ≥ 128 := by omega
      have hval : ((m - 1) / 128 - 1 + 1) * 128 % 18446744073709551616 + (128 + (m - 1) % 128) % 256 % 128 = m - 1 := by
        have : (128:Nat) ^ 9 = 9223372036854775808 := by decide
        omega
      simp only [h1, if_true, hval]

theorem varInt_encode (n : Nat) (hn : n < 18446744073709551616) (rest : Bytes) :
    varInt (encodeVarint n ++ rest) = some (n, rest) := by
  unfold encodeVarint
  by_cases hm : n / 128 = 0
  · have : varintPre (n / 128) (n / 128) = [] := by rw [hm]; simp [varintPre]
    rw [this]
    simp only [List.nil_append, List.cons_append, varInt, u8]
    have h1 : ¬ (n % 128 % 256 ≥ 128) := by omega
    have h2 : n % 128 % 256 % 128 = n := by omega
    simp only [h1, if_false, h2]
  · have hb : n / 128 < 128 ^ 9 := by
      have : (128:Nat) ^ 9 = 9223372036854775808 := by decide
      omega
    have hlen := varintPre_length (n / 128) (n / 128) 9 hb
    rw [List.append_assoc]
    simp only [List.cons_append, List.nil_append]
    rw [varInt_pre (n / 128) (n / 128) (by omega) (Nat.le_refl _) hb]
    rw [varIntLoop]
    have hi : ¬ ((varintPre (n / 128) (n / 128)).length + 1 > 10) := by omega
    simp only [hi, if_false, u8]
    have h1 : ¬ (n % 128 % 256 ≥ 128) := by omega
    have hval : (n / 128 - 1 + 1) * 128 % 18446744073709551616 + n % 128 % 256 % 128 = n := by omega
    simp only [h1, if_false, hval]

theorem splitAtByte_append (b : UInt8) (p rest : Bytes) (h : ∀ x ∈ p, x ≠ b) :
    splitAtByte b (p ++ b :: rest) = some (p, rest) := by
  induction p with
  | nil => simp [splitAtByte]
  | cons x xs ih =>
    have hx : x ≠ b := h x (by simp)
    have := ih (fun y hy => h y (by simp [hy]))
    simp [splitAtByte, hx, this]

theorem splitAtByteExclusive_eq (data : Bytes) (b : UInt8) (h : 2 ≤ data.length) :
    splitAtByteExclusive data b = splitAtByte b data := by
  match data, h with
  | _ :: _ :: _, _ => rfl

theorem alignPadding_pos (s l : Nat) : 1 ≤ alignPadding s l := by
  unfold alignPadding; omega

theorem skipPadding_replicate (s l : Nat) (rest : Bytes) :
    skipPadding (List.replicate (alignPadding s l) 0 ++ rest) (s + l) = some rest := by
  unfold skipPadding alignPadding
  simp

theorem entry_eta (e : Entry) (h : WfEntry e) :
    ({ stat := e.stat, mode := truncMode e.mode, id := e.id,
       flags := (e.flags + min e.path.length 4095) / 4096 * 4096, path := e.path } : Entry) = e := by
  have h1 := h.mode_known
  have h2 := h.flags_low
  have hmin : min e.path.length 4095 ≤ 4095 := Nat.min_le_right _ _
  have h3 : (e.flags + min e.path.length 4095) / 4096 * 4096 = e.flags := by omega
  rw [h1, h3]

theorem loadOne_v23 (e : Entry) (h : WfEntry e) (prev : Option Bytes) (rest : Bytes) :
    loadOne false prev (gitEncodeEntryV23 e ++ rest) = some (e, rest) := by
  unfold loadOne gitEncodeEntryV23
  rw [List.append_assoc, loadFixed_encode e h]
  simp only [Bool.false_eq_true, if_false]
  have hfl := h.flags_low
  have heta := entry_eta e h
  by_cases hlen : e.path.length < 4095
  · have hmod : (e.flags + min e.path.length 4095) % 4096 = e.path.length := by omega
    have hne : ¬ (e.path.length = 4095) := by omega
    rw [hmod]
    simp only [hne, if_false, List.append_assoc, splitAtPos_append, skipPadding_replicate]
    rw [heta]
  · have hmod : (e.flags + min e.path.length 4095) % 4096 = 4095 := by omega
    rw [hmod]
    simp only [if_true, List.append_assoc]
    have hpos := alignPadding_pos (fixedSize e) e.path.length
    obtain ⟨k, hk⟩ : ∃ k, alignPadding (fixedSize e) e.path.length = k + 1 :=
      ⟨alignPadding (fixedSize e) e.path.length - 1, by omega⟩
    have hsplit : splitAtByteExclusive (e.path ++ (List.replicate (alignPadding (fixedSize e) e.path.length) 0 ++ rest)) 0
        = some (e.path, List.replicate k 0 ++ rest) := by
      rw [splitAtByteExclusive_eq _ _ (by simp; omega), hk, List.replicate_succ]
      exact splitAtByte_append 0 e.path _ h.path_nul
    rw [hsplit]
    simp only [List.drop_left, skipPadding_replicate]
    rw [heta]


theorem lcp_le_left : ∀ (p q : Bytes), lcp p q ≤ p.length
  | [], _ => by simp [lcp]
  | _ :: _, [] => by simp [lcp]
  | a :: as, b :: bs => by
    unfold lcp
    by_cases hab : a = b
    · simp only [hab, if_true, List.length_cons]; have := lcp_le_left as bs; omega
    · simp [hab]

theorem lcp_le_right : ∀ (p q : Bytes), lcp p q ≤ q.length
  | [], _ => by simp [lcp]
  | _ :: _, [] => by simp [lcp]
  | a :: as, b :: bs => by
    unfold lcp
    by_cases hab : a = b
    · simp only [hab, if_true, List.length_cons]; have := lcp_le_right as bs; omega
    · simp [hab]

theorem lcp_take : ∀ (p q : Bytes), p.take (lcp p q) = q.take (lcp p q)
  | [], _ => by simp [lcp]
  | _ :: _, [] => by simp [lcp]
  | a :: as, b :: bs => by
    unfold lcp
    by_cases hab : a = b
    · simp only [hab, if_true, List.take_succ_cons]; rw [lcp_take as bs]
    · simp [hab]

theorem mem_drop {α} {x : α} : ∀ {n : Nat} {l : List α}, x ∈ l.drop n → x ∈ l := by
  intro n l h
  exact List.mem_of_mem_drop h

/-- version 4, previous path known to the decoder -/
theorem loadOne_v4_some (e : Entry) (h : WfEntry e) (prev : Bytes) (common : Nat)
    (hc : common ≤ prev.length) (hp : prev.take common = e.path.take common)
    (hprev : prev.length < 18446744073709551616) (rest : Bytes)
    (hrest : 1 ≤ (e.path.length - common) + rest.length) :
    loadOne true (some prev) (gitEncodeEntryV4 prev common e ++ rest) = some (e, rest) := by
  unfold loadOne gitEncodeEntryV4
  rw [List.append_assoc, loadFixed_encode e h]
  simp only [if_true, List.append_assoc]
  rw [varInt_encode _ (by omega)]
  simp only []
  have hlt : ¬ (prev.length < prev.length - common) := by omega
  simp only [hlt, if_false]
  have hsub : prev.length - (prev.length - common) = common := by omega
  rw [hsub]
  have hlen2 : 2 ≤ (e.path.drop common ++ ([0] ++ rest)).length := by
    simp only [List.length_append, List.length_drop, List.length_cons, List.length_nil]; omega
  rw [splitAtByteExclusive_eq _ _ hlen2]
  have hnul : ∀ x ∈ e.path.drop common, x ≠ 0 := fun x hx => h.path_nul x (List.mem_of_mem_drop hx)
  have := splitAtByte_append 0 (e.path.drop common) rest hnul
  simp only [List.cons_append, List.nil_append] at *
  rw [this]
  simp only []
  rw [hp, List.take_append_drop, entry_eta e h]

/-- version 4, first entry of a `chunk` call: the strip length is ignored -/
theorem loadOne_v4_none (e : Entry) (h : WfEntry e) (prev : Bytes)
    (hprev : prev.length < 18446744073709551616) (rest : Bytes)
    (hrest : 1 ≤ e.path.length + rest.length) :
    loadOne true none (gitEncodeEntryV4 prev 0 e ++ rest) = some (e, rest) := by
  unfold loadOne gitEncodeEntryV4
  rw [List.append_assoc, loadFixed_encode e h]
  simp only [if_true, List.append_assoc]
  rw [varInt_encode _ (by omega)]
  simp only [List.drop_zero]
  have hlen2 : 2 ≤ (e.path ++ ([0] ++ rest)).length := by
    simp only [List.length_append, List.length_cons, List.length_nil]; omega
  rw [splitAtByteExclusive_eq _ _ hlen2]
  have := splitAtByte_append 0 e.path rest h.path_nul
  simp only [List.cons_append, List.nil_append] at *
  rw [this]
  simp only [List.nil_append]
  rw [entry_eta e h]


/-! ### chunks -/

def lastPathOpt (p : Option Bytes) (es : List Entry) : Option Bytes :=
  match es.getLast? with
  | none => p
  | some e => some e.path

theorem lastPathOpt_cons (p : Option Bytes) (e : Entry) (es : List Entry) :
    lastPathOpt p (e :: es) = lastPathOpt (some e.path) es := by
  cases es with
  | nil => simp [lastPathOpt]
  | cons x xs =>
    simp only [lastPathOpt, List.getLast?_cons_cons]
    cases hl : (x :: xs).getLast? with
    | none => simp at hl
    | some y => rfl

theorem lastPath_cons (p : Bytes) (e : Entry) (es : List Entry) :
    lastPath p (e :: es) = lastPath e.path es := by
  cases es with
  | nil => simp [lastPath]
  | cons x xs =>
    simp only [lastPath, List.getLast?_cons_cons]
    cases hl : (x :: xs).getLast? with
    | none => simp at hl
    | some y => rfl

theorem chunkGo_succ (v4 : Bool) (n : Nat) (p : Option Bytes) (data : Bytes) :
    chunkGo v4 (n + 1) p data =
      match loadOne v4 p data with
      | none => none
      | some (e, rest) =>
        match chunkGo v4 n (some e.path) rest with
        | none => none
        | some (es, rest) => some (e :: es, rest) := by
  simp only [chunkGo]
  cases loadOne v4 p data with
  | none => rfl
  | some er =>
    obtain ⟨e, r⟩ := er
    simp only []
    cases chunkGo v4 n (some e.path) r with
    | none => rfl
    | some x => rfl

theorem chunkGo_append (v4 : Bool) : ∀ (n1 n2 : Nat) (p : Option Bytes) (data : Bytes) (es1 : List Entry) (rest1 : Bytes),
    chunkGo v4 n1 p data = some (es1, rest1) →
    chunkGo v4 (n1 + n2) p data =
      match chunkGo v4 n2 (lastPathOpt p es1) rest1 with
      | none => none
      | some (es2, r) => some (es1 ++ es2, r) := by
  intro n1
  induction n1 with
  | zero =>
    intro n2 p data es1 rest1 h
    simp only [chunkGo, Option.some.injEq, Prod.mk.injEq] at h
    obtain ⟨h1, h2⟩ := h
    subst h1; subst h2
    simp only [Nat.zero_add, lastPathOpt, List.getLast?_nil, List.nil_append]
    cases chunkGo v4 n2 p data with
    | none => rfl
    | some x => rfl
  | succ n ih =>
    intro n2 p data es1 rest1 h
    rw [Nat.succ_add, chunkGo_succ]
    rw [chunkGo_succ] at h
    cases hl : loadOne v4 p data with
    | none => simp [hl] at h
    | some er =>
      obtain ⟨e, r⟩ := er
      simp only [hl] at h ⊢
      cases hc : chunkGo v4 n (some e.path) r with
      | none => simp [hc] at h
      | some esr =>
        obtain ⟨es, r'⟩ := esr
        simp only [hc, Option.some.injEq, Prod.mk.injEq] at h
        obtain ⟨h1, h2⟩ := h
        subst h1; subst h2
        rw [ih n2 (some e.path) r es r' hc, lastPathOpt_cons]
        cases chunkGo v4 n2 (lastPathOpt (some e.path) es) r' with
        | none => rfl
        | some x => rfl

def AllWf (es : List Entry) : Prop := ∀ e ∈ es, WfEntry e
def PathsFit (es : List Entry) : Prop := ∀ e ∈ es, e.path.length < 18446744073709551616

theorem chunkGo_v23 : ∀ (es : List Entry) (p : Option Bytes) (rest : Bytes), AllWf es →
    chunkGo false es.length p (es.flatMap gitEncodeEntryV23 ++ rest) = some (es, rest) := by
  intro es
  induction es with
  | nil => intro p rest _; simp [chunkGo]
  | cons e es ih =>
    intro p rest hwf
    have he : WfEntry e := hwf e (by simp)
    have hes : AllWf es := fun x hx => hwf x (by simp [hx])
    simp only [List.flatMap_cons, List.length_cons, List.append_assoc]
    rw [chunkGo_succ, loadOne_v23 e he]
    simp only [ih (some e.path) rest hes]

theorem chunkGo_v4Rest : ∀ (es : List Entry) (prev : Bytes) (rest : Bytes), AllWf es → PathsFit es →
    prev.length < 18446744073709551616 → 1 ≤ rest.length →
    chunkGo true es.length (some prev) (gitEncodeV4Rest prev es ++ rest) = some (es, rest) := by
  intro es
  induction es with
  | nil => intro prev rest _ _ _ _; simp [chunkGo, gitEncodeV4Rest]
  | cons e es ih =>
    intro prev rest hwf hfit hprev hrest
    have he : WfEntry e := hwf e (by simp)
    have hes : AllWf es := fun x hx => hwf x (by simp [hx])
    have hfe : e.path.length < 18446744073709551616 := hfit e (by simp)
    have hfes : PathsFit es := fun x hx => hfit x (by simp [hx])
    simp only [gitEncodeV4Rest, List.length_cons, List.append_assoc]
    rw [chunkGo_succ]
    rw [loadOne_v4_some e he prev (lcp prev e.path) (lcp_le_left _ _) (lcp_take _ _) hprev _
      (by simp only [List.length_append]; omega)]
    simp only [ih e.path rest hes hfes hfe hrest]

/-- one block, decoded either with the previous path (serial) or without (start of a chunk) -/
theorem chunkGo_v4Block (b : List Entry) (prev : Bytes) (dp : Option Bytes) (rest : Bytes)
    (hdp : dp = none ∨ dp = some prev) (hwf : AllWf b) (hfit : PathsFit b)
    (hprev : prev.length < 18446744073709551616) (hrest : 1 ≤ rest.length) :
    chunkGo true b.length dp (gitEncodeV4Block prev b ++ rest) = some (b, rest) := by
  cases b with
  | nil => simp [chunkGo, gitEncodeV4Block]
  | cons e es =>
    have he : WfEntry e := hwf e (by simp)
    have hes : AllWf es := fun x hx => hwf x (by simp [hx])
    have hfe : e.path.length < 18446744073709551616 := hfit e (by simp)
    have hfes : PathsFit es := fun x hx => hfit x (by simp [hx])
    simp only [gitEncodeV4Block, List.length_cons, List.append_assoc]
    rw [chunkGo_succ]
    have hl : loadOne true dp (gitEncodeEntryV4 prev 0 e ++ (gitEncodeV4Rest e.path es ++ rest)) =
        some (e, gitEncodeV4Rest e.path es ++ rest) := by
      cases hdp with
      | inl h0 =>
        rw [h0]
        exact loadOne_v4_none e he prev hprev _ (by simp only [List.length_append]; omega)
      | inr h1 =>
        rw [h1]
        exact loadOne_v4_some e he prev 0 (Nat.zero_le _) (by simp) hprev _
          (by simp only [List.length_append]; omega)
    rw [hl]
    simp only [chunkGo_v4Rest es e.path rest hes hfes hfe hrest]

def encBlock (v4 : Bool) (prev : Bytes) (b : List Entry) : Bytes :=
  if v4 then gitEncodeV4Block prev b else b.flatMap gitEncodeEntryV23

theorem chunkGo_block (v4 : Bool) (b : List Entry) (prev : Bytes) (dp : Option Bytes) (rest : Bytes)
    (hdp : dp = none ∨ dp = some prev) (hwf : AllWf b) (hfit : PathsFit b)
    (hprev : prev.length < 18446744073709551616) (hrest : 1 ≤ rest.length) :
    chunkGo v4 b.length dp (encBlock v4 prev b ++ rest) = some (b, rest) := by
  cases v4 with
  | true => exact chunkGo_v4Block b prev dp rest hdp hwf hfit hprev hrest
  | false => exact chunkGo_v23 b dp rest hwf

theorem lastPath_fit (prev : Bytes) (b : List Entry) (hfit : PathsFit b)
    (hprev : prev.length < 18446744073709551616) : (lastPath prev b).length < 18446744073709551616 := by
  unfold lastPath
  cases hl : b.getLast? with
  | none => exact hprev
  | some e => exact hfit e (List.mem_of_getLast? hl)

theorem lastPathOpt_rel (prev : Bytes) (dp : Option Bytes) (b : List Entry)
    (hdp : dp = none ∨ dp = some prev) :
    lastPathOpt dp b = none ∨ lastPathOpt dp b = some (lastPath prev b) := by
  unfold lastPathOpt lastPath
  cases b.getLast? with
  | none => exact hdp
  | some e => exact Or.inr rfl

theorem gitEncodeBlocks_cons (v4 : Bool) (prev : Bytes) (b : List Entry) (bs : List (List Entry)) :
    gitEncodeBlocks v4 prev (b :: bs) = encBlock v4 prev b ++ gitEncodeBlocks v4 (lastPath prev b) bs := by
  simp [gitEncodeBlocks, encBlock]

/-- serial decoding of all blocks (one `chunk` call over the whole entries region) -/
theorem chunkGo_blocks (v4 : Bool) : ∀ (blocks : List (List Entry)) (prev : Bytes) (dp : Option Bytes) (rest : Bytes),
    (dp = none ∨ dp = some prev) → (∀ b ∈ blocks, AllWf b) → (∀ b ∈ blocks, PathsFit b) →
    prev.length < 18446744073709551616 → 1 ≤ rest.length →
    chunkGo v4 (blocks.map List.length).sum dp (gitEncodeBlocks v4 prev blocks ++ rest) = some (blocks.flatten, rest) := by
  intro blocks
  induction blocks with
  | nil => intro prev dp rest _ _ _ _ _; simp [chunkGo, gitEncodeBlocks]
  | cons b bs ih =>
    intro prev dp rest hdp hwf hfit hprev hrest
    have hb : AllWf b := hwf b (by simp)
    have hfb : PathsFit b := hfit b (by simp)
    rw [gitEncodeBlocks_cons, List.append_assoc]
    simp only [List.map_cons, List.sum_cons, List.flatten_cons]
    have h1 := chunkGo_block v4 b prev dp (gitEncodeBlocks v4 (lastPath prev b) bs ++ rest) hdp hb hfb hprev
      (by simp only [List.length_append]; omega)
    rw [chunkGo_append v4 b.length _ dp _ b _ h1]
    have hdp' := lastPathOpt_rel prev dp b hdp
    rw [ih (lastPath prev b) (lastPathOpt dp b) rest hdp' (fun x hx => hwf x (by simp [hx]))
      (fun x hx => hfit x (by simp [hx])) (lastPath_fit prev b hfb hprev) hrest]

/-! ### grouping the offset-table blocks into threads -/

def Res.bind2 (a b : Res (List Entry)) : Res (List Entry) :=
  match a with
  | .ok x => (match b with | .ok y => .ok (x ++ y) | .err => .err | .panic => .panic)
  | .err => .err
  | .panic => .panic

theorem decodeGroup_cons (v4 : Bool) (data : Bytes) (o : Offset) (os : List Offset) :
    decodeGroup v4 data (o :: os) =
      if data.length < o.fromStart then .err
      else match chunk v4 o.numEntries (data.drop o.fromStart) with
        | none => .err
        | some (es, _) =>
          match decodeGroup v4 data os with
          | .ok rest => .ok (es ++ rest)
          | .err => .err
          | .panic => .panic := by
  simp only [decodeGroup]
  split
  · rfl
  · cases chunk v4 o.numEntries (data.drop o.fromStart) with
    | none => rfl
    | some x =>
      obtain ⟨es, r⟩ := x
      simp only []
      cases decodeGroup v4 data os <;> rfl

/-- a group succeeds iff both halves succeed, and the entries are concatenated -/
theorem decodeGroup_append_ok (v4 : Bool) (data : Bytes) : ∀ (xs ys : List Offset) (r : List Entry),
    decodeGroup v4 data (xs ++ ys) = .ok r ↔
      ∃ a b, decodeGroup v4 data xs = .ok a ∧ decodeGroup v4 data ys = .ok b ∧ r = a ++ b := by
  intro xs
  induction xs with
  | nil =>
    intro ys r
    simp only [List.nil_append, decodeGroup]
    constructor
    · intro h; exact ⟨[], r, rfl, h, by simp⟩
    · rintro ⟨a, b, ha, hb, hr⟩
      simp only [Res.ok.injEq] at ha
      subst ha; simp at hr; subst hr; exact hb
  | cons o os ih =>
    intro ys r
    rw [List.cons_append, decodeGroup_cons, decodeGroup_cons]
    by_cases hlen : data.length < o.fromStart
    · simp [hlen]
    · simp only [hlen, if_false]
      cases hc : chunk v4 o.numEntries (data.drop o.fromStart) with
      | none => simp
      | some x =>
        obtain ⟨es, rr⟩ := x
        simp only []
        constructor
        · intro h
          cases hd : decodeGroup v4 data (os ++ ys) with
          | err => simp [hd] at h
          | panic => simp [hd] at h
          | ok rest =>
            simp only [hd, Res.ok.injEq] at h
            obtain ⟨a, b, ha, hb, hr⟩ := (ih ys rest).mp hd
            refine ⟨es ++ a, b, ?_, hb, ?_⟩
            · simp [ha]
            · rw [← h, hr, List.append_assoc]
        · rintro ⟨a, b, ha, hb, hr⟩
          cases hd : decodeGroup v4 data os with
          | err => simp [hd] at ha
          | panic => simp [hd] at ha
          | ok a' =>
            simp only [hd, Res.ok.injEq] at ha
            have := (ih ys (a' ++ b)).mpr ⟨a', b, hd, hb, rfl⟩
            simp only [this, Res.ok.injEq]
            rw [hr, ← ha, List.append_assoc]

theorem joinGroups_cons (r : Res (List Entry)) (rs : List (Res (List Entry))) (x : List Entry) :
    joinGroups (r :: rs) = .ok x ↔ ∃ a b, r = .ok a ∧ joinGroups rs = .ok b ∧ x = a ++ b := by
  simp only [joinGroups]
  cases r with
  | panic => simp
  | err =>
    cases joinGroups rs <;> simp
  | ok a =>
    cases joinGroups rs with
    | panic => simp
    | err => simp
    | ok b =>
      simp only [Res.ok.injEq]
      constructor
      · intro h; exact ⟨a, b, rfl, rfl, h.symm⟩
      · rintro ⟨a', b', ha, hb, hx⟩
        subst ha; subst hb; exact hx.symm

/-- joining per-thread results = decoding all their blocks in one go -/
theorem joinGroups_ok_iff (v4 : Bool) (data : Bytes) : ∀ (gs : List (List Offset)) (r : List Entry),
    joinGroups (gs.map (decodeGroup v4 data)) = .ok r ↔ decodeGroup v4 data gs.flatten = .ok r := by
  intro gs
  induction gs with
  | nil => intro r; simp [joinGroups, decodeGroup]
  | cons g gs ih =>
    intro r
    rw [List.map_cons, joinGroups_cons, List.flatten_cons, decodeGroup_append_ok]
    constructor
    · rintro ⟨a, b, ha, hb, hr⟩
      exact ⟨a, b, ha, (ih b).mp hb, hr⟩
    · rintro ⟨a, b, ha, hb, hr⟩
      exact ⟨a, b, ha, (ih b).mpr hb, hr⟩

theorem chunksOf_flatten (c : Nat) (hc : 1 ≤ c) : ∀ (fuel : Nat) (xs : List Offset), xs.length ≤ fuel →
    (chunksOf c fuel xs).flatten = xs := by
  intro fuel
  induction fuel with
  | zero =>
    intro xs h
    have : xs = [] := List.eq_nil_of_length_eq_zero (by omega)
    subst this; simp [chunksOf]
  | succ f ih =>
    intro xs h
    cases xs with
    | nil => simp [chunksOf]
    | cons x xs' =>
      simp only [chunksOf, List.flatten_cons]
      have hlen : ((x :: xs').drop c).length ≤ f := by
        simp only [List.length_drop, List.length_cons] at *; omega
      rw [ih _ hlen, List.take_append_drop]

/-- the result of the multi-threaded branch does not depend on how many blocks each thread gets -/
theorem decodeGrouped_ok_iff (v4 : Bool) (c : Nat) (hc : 1 ≤ c) (data : Bytes) (offs : List Offset) (r : List Entry) :
    decodeGrouped v4 c data offs = .ok r ↔ decodeGroup v4 data offs = .ok r := by
  unfold decodeGrouped
  rw [joinGroups_ok_iff, chunksOf_flatten c hc offs.length offs (Nat.le_refl _)]


theorem blockOffsets_cons (v4 : Bool) (start : Nat) (prev : Bytes) (b : List Entry) (bs : List (List Entry)) :
    blockOffsets v4 start prev (b :: bs) =
      { fromStart := start, numEntries := b.length } ::
        blockOffsets v4 (start + (encBlock v4 prev b).length) (lastPath prev b) bs := by
  simp [blockOffsets, encBlock]

/-- every block decoded from its own offset with a fresh `chunk` call (what the threads do) -/
theorem decodeGroup_blocks (v4 : Bool) : ∀ (blocks : List (List Entry)) (pre prev tail : Bytes),
    (∀ b ∈ blocks, AllWf b) → (∀ b ∈ blocks, PathsFit b) →
    prev.length < 18446744073709551616 → 1 ≤ tail.length →
    decodeGroup v4 (pre ++ (gitEncodeBlocks v4 prev blocks ++ tail)) (blockOffsets v4 pre.length prev blocks)
      = .ok blocks.flatten := by
  intro blocks
  induction blocks with
  | nil => intro pre prev tail _ _ _ _; simp [blockOffsets, decodeGroup]
  | cons b bs ih =>
    intro pre prev tail hwf hfit hprev htail
    have hb : AllWf b := hwf b (by simp)
    have hfb : PathsFit b := hfit b (by simp)
    rw [blockOffsets_cons, decodeGroup_cons, gitEncodeBlocks_cons]
    have hlen : ¬ ((pre ++ (encBlock v4 prev b ++ gitEncodeBlocks v4 (lastPath prev b) bs ++ tail)).length < pre.length) := by
      simp only [List.length_append]; omega
    simp only [List.drop_left, List.append_assoc]
    have h1 := chunkGo_block v4 b prev none (gitEncodeBlocks v4 (lastPath prev b) bs ++ tail) (Or.inl rfl) hb hfb hprev
      (by simp only [List.length_append]; omega)
    unfold chunk
    rw [h1]
    simp only []
    have := ih (pre ++ encBlock v4 prev b) (lastPath prev b) tail (fun x hx => hwf x (by simp [hx]))
      (fun x hx => hfit x (by simp [hx])) (lastPath_fit prev b hfb hprev) htail
    simp only [List.length_append, List.append_assoc] at this
    rw [this]
    simp

/-! ### extensions: iteration, offset table, end-of-index entry -/

/-- an extension as it can be stored: 4-byte signature, payload shorter than 4 GiB -/
def ExtOk (sp : Bytes × Bytes) : Prop := sp.1.length = 4 ∧ sp.2.length < 4294967296

def encodeExts (exts : List (Bytes × Bytes)) : Bytes := exts.flatMap fun (s, p) => encodeExt s p

theorem extIter_encoded : ∀ (exts : List (Bytes × Bytes)) (fuel : Nat), (∀ sp ∈ exts, ExtOk sp) →
    (encodeExts exts).length ≤ fuel →
    extIter fuel (encodeExts exts) = (exts, (encodeExts exts).length) := by
  intro exts
  induction exts with
  | nil =>
    intro fuel _ _
    cases fuel <;> simp [extIter, encodeExts]
  | cons sp exts ih =>
    intro fuel hok hfuel
    obtain ⟨s, p⟩ := sp
    have ⟨hs, hp⟩ := hok (s, p) (by simp)
    have hrest : ∀ x ∈ exts, ExtOk x := fun x hx => hok x (by simp [hx])
    simp only [ExtOk] at hs hp
    match s, hs with
    | [s0, s1, s2, s3], _ =>
      have henc : encodeExts (([s0, s1, s2, s3], p) :: exts) =
          s0 :: s1 :: s2 :: s3 :: (be32 p.length ++ (p ++ encodeExts exts)) := by
        simp [encodeExts, encodeExt, List.flatMap_cons]
      have hlen : (encodeExts (([s0, s1, s2, s3], p) :: exts)).length = 8 + p.length + (encodeExts exts).length := by
        rw [henc]
        simp only [List.length_cons, List.length_append, be32, List.length_nil]; omega
      rw [hlen] at hfuel ⊢
      rw [henc]
      cases fuel with
      | zero => omega
      | succ f =>
        simp only [be32, List.cons_append, List.nil_append, extIter, u8]
        have hsize : p.length / 16777216 % 256 % 256 * 16777216 + p.length / 65536 % 256 % 256 * 65536 +
            p.length / 256 % 256 % 256 * 256 + p.length % 256 % 256 = p.length := by omega
        rw [hsize]
        have htake : ¬ ((List.take p.length (p ++ encodeExts exts)).length < p.length) := by simp
        simp only [htake, if_false, List.take_left', List.drop_left']
        have hf : (encodeExts exts).length ≤ f := by omega
        rw [ih f hrest hf]
        simp

theorem extsSpan_encoded : ∀ (exts : List (Bytes × Bytes)), (∀ sp ∈ exts, ExtOk sp) →
    extsSpan exts = (encodeExts exts).length := by
  intro exts
  induction exts with
  | nil => intro _; rfl
  | cons sp exts ih =>
    intro hok
    have h4 := (hok sp (by simp)).1
    have := ih (fun x hx => hok x (by simp [hx]))
    simp only [extsSpan, List.map_cons, List.sum_cons] at this ⊢
    simp only [encodeExts, List.flatMap_cons, List.length_append, encodeExt, be32, List.length_cons,
      List.length_nil, h4] at this ⊢
    omega

def OffsetOk (o : Offset) : Prop := o.fromStart < 4294967296 ∧ o.numEntries < 4294967296

def encodeOffsets (offs : List Offset) : Bytes := offs.flatMap fun o => be32 o.fromStart ++ be32 o.numEntries

theorem encodeOffsets_length (offs : List Offset) : (encodeOffsets offs).length = 8 * offs.length := by
  induction offs with
  | nil => rfl
  | cons o os ih =>
    simp only [encodeOffsets, List.flatMap_cons, List.length_append, be32, List.length_cons, List.length_nil] at *
    omega

theorem ieotEntries_encoded : ∀ (offs : List Offset), (∀ o ∈ offs, OffsetOk o) →
    ieotEntries offs.length (encodeOffsets offs) = some offs := by
  intro offs
  induction offs with
  | nil => intro _; rfl
  | cons o os ih =>
    intro hok
    have ⟨h1, h2⟩ := hok o (by simp)
    have hos : ∀ x ∈ os, OffsetOk x := fun x hx => hok x (by simp [hx])
    simp only [encodeOffsets, List.flatMap_cons, List.length_cons, List.append_assoc, ieotEntries]
    rw [readU32_be32 _ h1]; simp only []
    rw [readU32_be32 _ h2]; simp only []
    have := ih hos
    simp only [encodeOffsets] at this
    rw [this]

theorem ieotDecode_payload (offs : List Offset) (hne : offs ≠ []) (hok : ∀ o ∈ offs, OffsetOk o) :
    ieotDecode (ieotPayload offs) = some offs := by
  unfold ieotDecode ieotPayload
  rw [readU32_be32 1 (by decide)]
  simp only []
  have hl := encodeOffsets_length offs
  have hpos : 0 < offs.length := List.length_pos_iff.mpr hne
  have henc : (offs.flatMap fun o => be32 o.fromStart ++ be32 o.numEntries) = encodeOffsets offs := rfl
  rw [henc]
  have h1 : ¬ ((1 : Nat) ≠ 1) := by decide
  have h2 : ¬ ((encodeOffsets offs).length / 8 = 0 ∨ (encodeOffsets offs).length % 8 ≠ 0) := by omega
  have h3 : (encodeOffsets offs).length / 8 = offs.length := by omega
  simp only [h1, if_false, h3]
  have h4 : ¬ (offs.length = 0 ∨ (encodeOffsets offs).length % 8 ≠ 0) := by omega
  rw [if_neg h4]
  exact ieotEntries_encoded offs hok


/-- the EOIE extension as written -/
def eoieExt (sha1 : Bytes → Bytes) (offset : Nat) (exts : List (Bytes × Bytes)) : Bytes :=
  encodeExt sigEOIE (eoiePayload sha1 offset exts)

theorem eoieExt_length (sha1 : Bytes → Bytes) (hsha : ∀ x, (sha1 x).length = 20) (offset : Nat)
    (exts : List (Bytes × Bytes)) : (eoieExt sha1 offset exts).length = 32 := by
  simp [eoieExt, encodeExt, eoiePayload, sigEOIE, be32, hsha]

theorem eoieDecode_encoded (sha1 : Bytes → Bytes) (hsha : ∀ x, (sha1 x).length = 20)
    (Q T : Bytes) (exts : List (Bytes × Bytes)) (hne : exts ≠ []) (hok : ∀ sp ∈ exts, ExtOk sp)
    (hq : 12 ≤ Q.length) (hq2 : Q.length < 4294967296) (ht : T.length = 20) :
    eoieDecode sha1 (Q ++ (encodeExts exts ++ (eoieExt sha1 Q.length exts ++ T))) = some Q.length := by
  have hE := eoieExt_length sha1 hsha Q.length exts
  unfold eoieDecode
  have hlen : (Q ++ (encodeExts exts ++ (eoieExt sha1 Q.length exts ++ T))).length
      = Q.length + (encodeExts exts).length + 52 := by
    simp only [List.length_append, hE, ht]; omega
  have h0 : ¬ ((Q ++ (encodeExts exts ++ (eoieExt sha1 Q.length exts ++ T))).length < 32 + hashLen) := by
    rw [hlen]; simp only [hashLen]; omega
  rw [if_neg h0]
  have hstart : (Q ++ (encodeExts exts ++ (eoieExt sha1 Q.length exts ++ T))).length - 32 - hashLen
      = (Q ++ encodeExts exts).length := by
    rw [hlen]; simp only [hashLen, List.length_append]; omega
  simp only [hstart]
  have hdrop : List.drop (Q ++ encodeExts exts).length (Q ++ (encodeExts exts ++ (eoieExt sha1 Q.length exts ++ T)))
      = eoieExt sha1 Q.length exts ++ T := by
    rw [← List.append_assoc, List.drop_left]
  rw [hdrop]
  have htake : List.take 32 (eoieExt sha1 Q.length exts ++ T) = eoieExt sha1 Q.length exts := by
    rw [← hE, List.take_left]
  rw [htake]
  have hpl : (eoiePayload sha1 Q.length exts).length = 24 := by
    simp [eoiePayload, be32, hsha]
  have hext : eoieExt sha1 Q.length exts = sigEOIE ++ (be32 24 ++ (be32 Q.length ++ sha1 (exts.flatMap fun (s, p) => s ++ be32 p.length))) := by
    unfold eoieExt encodeExt
    rw [hpl]
    simp only [eoiePayload, List.append_assoc]
  rw [hext]
  have hsigtake : List.take 4 (sigEOIE ++ (be32 24 ++ (be32 Q.length ++ sha1 (exts.flatMap fun (s, p) => s ++ be32 p.length)))) = sigEOIE := by
    rw [show (4 : Nat) = sigEOIE.length from rfl, List.take_left]
  have hsigdrop : List.drop 4 (sigEOIE ++ (be32 24 ++ (be32 Q.length ++ sha1 (exts.flatMap fun (s, p) => s ++ be32 p.length))))
      = be32 24 ++ (be32 Q.length ++ sha1 (exts.flatMap fun (s, p) => s ++ be32 p.length)) := by
    rw [show (4 : Nat) = sigEOIE.length from rfl, List.drop_left]
  rw [hsigtake, hsigdrop, readU32_be32 24 (by decide)]
  simp only []
  have h1 : ¬ (sigEOIE ≠ sigEOIE ∨ (24 : Nat) ≠ 24) := by simp
  rw [if_neg h1, readU32_be32 _ hq2]
  simp only []
  have h2 : ¬ (Q.length < 12 ∨ Q.length > (Q ++ encodeExts exts).length) := by
    simp only [List.length_append]; omega
  rw [if_neg h2]
  have hregion : List.take ((Q ++ encodeExts exts).length - Q.length)
      (List.drop Q.length (Q ++ (encodeExts exts ++ (sigEOIE ++ (be32 24 ++ (be32 Q.length ++ sha1 (exts.flatMap fun (s, p) => s ++ be32 p.length))) ++ T))))
      = encodeExts exts := by
    rw [List.drop_left]
    have : (Q ++ encodeExts exts).length - Q.length = (encodeExts exts).length := by
      simp only [List.length_append]; omega
    rw [this, List.take_left]
  rw [hregion, extIter_encoded exts _ hok (Nat.le_refl _)]
  simp only []
  have h3 : ¬ (sha1 (exts.flatMap fun (x : Bytes × Bytes) => x.1 ++ be32 x.2.length) ≠
      sha1 (exts.flatMap fun (s, p) => s ++ be32 p.length)) := by simp
  have h4 : ¬ (exts.isEmpty = true ∨ extsSpan exts ≠ (encodeExts exts).length) := by
    rw [extsSpan_encoded exts hok]
    cases exts with
    | nil => exact absurd rfl hne
    | cons a b => simp
  simp only [h3, h4, if_false]


theorem eoieDecode_no_exts (sha1 : Bytes → Bytes) (hsha : ∀ x, (sha1 x).length = 20)
    (Q T : Bytes) (hq2 : Q.length < 4294967296) (ht : T.length = 20) :
    eoieDecode sha1 (Q ++ (eoieExt sha1 Q.length [] ++ T)) = none := by
  have hE := eoieExt_length sha1 hsha Q.length []
  unfold eoieDecode
  have hlen : (Q ++ (eoieExt sha1 Q.length [] ++ T)).length = Q.length + 52 := by
    simp only [List.length_append, hE, ht]
  by_cases h0 : (Q ++ (eoieExt sha1 Q.length [] ++ T)).length < 32 + hashLen
  · rw [if_pos h0]
  rw [if_neg h0]
  have hstart : (Q ++ (eoieExt sha1 Q.length [] ++ T)).length - 32 - hashLen = Q.length := by
    rw [hlen]; simp only [hashLen]; omega
  simp only [hstart, List.drop_left]
  have htake : List.take 32 (eoieExt sha1 Q.length [] ++ T) = eoieExt sha1 Q.length [] := by
    rw [← hE, List.take_left]
  rw [htake]
  have hpl : (eoiePayload sha1 Q.length []).length = 24 := by
    simp [eoiePayload, be32, hsha]
  have hext : eoieExt sha1 Q.length [] = sigEOIE ++ (be32 24 ++ (be32 Q.length ++ sha1 [])) := by
    unfold eoieExt encodeExt
    rw [hpl]
    simp only [eoiePayload, List.append_assoc, List.flatMap_nil]
  rw [hext]
  have hsigdrop : List.drop 4 (sigEOIE ++ (be32 24 ++ (be32 Q.length ++ sha1 []))) = be32 24 ++ (be32 Q.length ++ sha1 []) := by
    rw [show (4 : Nat) = sigEOIE.length from rfl, List.drop_left]
  rw [hsigdrop, readU32_be32 24 (by decide)]
  simp only []
  split
  · rfl
  · rw [readU32_be32 _ hq2]
    simp only []
    split
    · rfl
    · simp only [Nat.sub_self, List.take_zero, List.length_nil, extIter]
      split
      · rfl
      · simp

end GixModel.C24
