import GixModel.Model.C06e
import GixModel.Lemmas.C06
import GixModel.Lemmas.C06b
/-
C06 (round 3) — panic-freedom of the models in Model/C06e.lean.
-/
namespace GixModel.C06
open GixModel

theorem findQoB_spec : ∀ (l : Bytes) (k : Nat), findQuoteOrBackslash l = some k →
    k < l.length ∧ ∃ c, l[k]? = some c ∧ (c = 34 ∨ c = 92)
  | [], k, h => by simp [findQuoteOrBackslash] at h
  | b :: bs, k, h => by
    unfold findQuoteOrBackslash at h
    split at h
    · rename_i hb
      cases h
      exact ⟨by simp, b, by simp, hb⟩
    · cases hr : findQuoteOrBackslash bs with
      | none => simp [hr] at h
      | some j =>
        simp [hr] at h; subst h
        obtain ⟨h1, c, h2, h3⟩ := findQoB_spec bs j hr
        exact ⟨by simp; omega, c, by simpa using h2, h3⟩

theorem undoLoop_total : ∀ (fuel : Nat) (input : Bytes), input.length < fuel →
    undoLoop fuel input ≠ .panic ∧ undoLoop fuel input ≠ .hang
  | 0, input, h => by omega
  | fuel + 1, input, h => by
    unfold undoLoop
    cases hf : findQuoteOrBackslash input with
    | none => simp
    | some pos =>
      obtain ⟨hlt, c, hc, hcc⟩ := findQoB_spec input pos hf
      simp only [sliceTo, if_pos (Nat.le_of_lt hlt), hc]
      by_cases h34 : c = 34
      · simp [h34]
      · have h92 : c = 92 := by rcases hcc with h | h; exact absurd h h34; exact h
        simp only [if_neg h34, if_pos h92]
        have hno : ¬ (pos + 1 > input.length) := by omega
        simp only [if_neg hno]
        cases hd : List.drop (pos + 1) input with
        | nil => simp
        | cons next rest =>
          have hrl : rest.length < input.length := by
            have := congrArg List.length hd
            simp at this; omega
          simp only
          split
          · exact undoLoop_total fuel rest (by omega)
          · split
            · split
              · simp
              · rename_i hr2
                have ht : (List.take 2 rest).length = 2 := by rw [List.length_take]; omega
                have hne : ¬ ((List.take 2 rest).length ≠ 2) := by omega
                rw [if_neg hne]
                split
                · simp
                · have h2 : 2 ≤ rest.length := by omega
                  simp only [sliceFrom, if_pos h2]
                  exact undoLoop_total fuel (rest.drop 2) (by rw [List.length_drop]; omega)
            · simp

theorem undoRun_total (input : Bytes) : undoRun input ≠ .panic ∧ undoRun input ≠ .hang := by
  unfold undoRun
  split
  · rename_i tl
    split
    · simp
    · have h1 : 1 ≤ ((34 : UInt8) :: tl).length := by simp
      simp only [sliceFrom, if_pos h1]
      exact undoLoop_total _ _ (Nat.lt_succ_self _)
  · simp

theorem configInt_total (s : Bytes) : configInt s ≠ .panic ∧ configInt s ≠ .hang := by
  unfold configInt
  split
  · simp
  · split
    · simp
    · split
      · simp
      · rename_i hlen
        have n1 : ¬ (s.length < 1) := by omega
        simp only [if_neg n1]
        split
        · simp
        · rename_i hb
          have n2 : ¬ (s.length - 1 > s.length ∨ (!isCharBoundary s (s.length - 1)) = true) := by
            intro h
            rcases h with h | h
            · omega
            · exact hb h
          simp only [if_neg n2]
          simp

theorem decOf_take2_le (l : Bytes) : decOf (l.take 2) ≤ 2805 := by
  unfold decOf
  match l with
  | [] => simp
  | [a] =>
    have := a.toNat_lt
    simp; omega
  | a :: b :: rest =>
    have := a.toNat_lt
    have := b.toNat_lt
    simp; omega

theorem decOf_nonneg (l : Bytes) : 0 ≤ decOf l := by unfold decOf; exact Int.natCast_nonneg _

theorem rawOffset_total (off : Bytes) : rawOffset off ≠ .panic ∧ rawOffset off ≠ .hang := by
  unfold rawOffset
  have h1 := decOf_take2_le (off.drop 1)
  have h2 := decOf_take2_le (off.drop 3)
  have p1 := decOf_nonneg ((off.drop 1).take 2)
  have p2 := decOf_nonneg ((off.drop 3).take 2)
  have e1 : i32Hi = 2147483647 := rfl
  have e2 : i32Lo = -2147483648 := rfl
  have n1 : ¬ (decOf ((off.drop 1).take 2) * 3600 > i32Hi ∨ decOf ((off.drop 3).take 2) * 60 > i32Hi ∨
      decOf ((off.drop 1).take 2) * 3600 + decOf ((off.drop 3).take 2) * 60 > i32Hi) := by omega
  have n2 : ¬ (-(decOf ((off.drop 1).take 2) * 3600 + decOf ((off.drop 3).take 2) * 60) < i32Lo) := by omega
  rw [if_neg n1, if_neg n2]
  simp

theorem parseRaw_total (s : Bytes) : parseRaw s ≠ .panic ∧ parseRaw s ≠ .hang := by
  unfold parseRaw
  split
  · simp
  · split
    · exact rawOffset_total _
    · simp

theorem dateRawRun_total (s : Bytes) : dateRawRun s ≠ .panic ∧ dateRawRun s ≠ .hang := by
  unfold dateRawRun
  split
  · exact parseRaw_total s
  · simp

theorem beforeMessageLen_le (bytes line : Bytes) (hl : line.length ≤ bytes.length) :
    ∃ n, beforeMessageLen bytes line = some n ∧ n ≤ bytes.length := by
  unfold beforeMessageLen
  cases he : findByte 62 line with
  | none => exact ⟨_, rfl, Nat.le_refl _⟩
  | some emailEnd =>
    have hlt := findByte_lt _ _ _ he
    simp only [sliceFrom, if_pos (Nat.le_of_lt hlt)]
    cases ht : findByte 9 (List.drop emailEnd line) with
    | none => exact ⟨_, rfl, Nat.le_refl _⟩
    | some pos =>
      have hp := findByte_lt _ _ _ ht
      refine ⟨_, rfl, ?_⟩
      rw [List.length_drop] at hp
      omega

theorem reflogIds_total (before : Bytes) : reflogIds before ≠ .panic ∧ reflogIds before ≠ .hang := by
  unfold reflogIds
  split
  · simp
  · rename_i hold
    split
    · rename_i r2 _
      split
      · simp
      · rename_i hnew
        have l1 : (List.take 40 (List.takeWhile isHexLc before)).length = 40 := by
          have := List.length_take_le 40 (List.takeWhile isHexLc before); omega
        have l2 : (List.take 40 (List.takeWhile isHexLc r2)).length = 40 := by
          have := List.length_take_le 40 (List.takeWhile isHexLc r2); omega
        obtain ⟨i1, h1⟩ := idFromHex_ok_of_lc _ l1 (fun x hx => mem_takeWhile_imp (List.mem_of_mem_take hx))
        obtain ⟨i2, h2⟩ := idFromHex_ok_of_lc _ l2 (fun x hx => mem_takeWhile_imp (List.mem_of_mem_take hx))
        rw [h1, h2]
        simp
    · simp

theorem reflogLineSites_total (bytes : Bytes) : reflogLineSites bytes ≠ .panic ∧ reflogLineSites bytes ≠ .hang := by
  unfold reflogLineSites
  have heol : (findByte 10 bytes).getD bytes.length ≤ bytes.length := by
    cases h : findByte 10 bytes with
    | none => simp
    | some k => simp; exact Nat.le_of_lt (findByte_lt _ _ _ h)
  simp only [sliceTo, if_pos heol]
  obtain ⟨n, hn, hnle⟩ := beforeMessageLen_le bytes (List.take ((findByte 10 bytes).getD bytes.length) bytes)
    (by rw [List.length_take]; omega)
  rw [hn]
  simp only [if_pos hnle]
  exact reflogIds_total _

end GixModel.C06
