import GixModel.Model.C30
/-
C30 — facts about the byte-string helpers of the model (`splitOnce`, `splitAll`, `chomp`,
`stripPrefix/Suffix`, hex encoding/decoding).
-/
namespace GixModel.C30
open GixModel
open GixModel.Spec.C30 (Oid Ref toHex hexNib joinSp)

theorem splitOnce_append (sep : UInt8) (a r : Bytes) (h : sep ∉ a) :
    splitOnce sep (a ++ sep :: r) = some (a, r) := by
  induction a with
  | nil => simp [splitOnce]
  | cons b a ih =>
    have hb : b ≠ sep := fun e => h (by simp [e])
    have ha : sep ∉ a := fun e => h (by simp [e])
    simp [splitOnce, hb, ih ha]

theorem splitOnce_none (sep : UInt8) (bs : Bytes) (h : sep ∉ bs) : splitOnce sep bs = none := by
  induction bs with
  | nil => rfl
  | cons b bs ih =>
    have hb : b ≠ sep := fun e => h (by simp [e])
    have ha : sep ∉ bs := fun e => h (by simp [e])
    simp [splitOnce, hb, ih ha]

theorem splitOnce_some (sep : UInt8) (bs a r : Bytes) (h : splitOnce sep bs = some (a, r)) :
    bs = a ++ sep :: r ∧ sep ∉ a := by
  induction bs generalizing a with
  | nil => simp [splitOnce] at h
  | cons b bs ih =>
    unfold splitOnce at h
    by_cases hb : b = sep
    · simp only [hb, if_true, Option.some.injEq, Prod.mk.injEq] at h
      obtain ⟨rfl, rfl⟩ := h
      simp [hb]
    · simp only [hb, if_false] at h
      cases hs : splitOnce sep bs with
      | none => simp [hs] at h
      | some p =>
        obtain ⟨a', r'⟩ := p
        simp only [hs, Option.some.injEq, Prod.mk.injEq] at h
        obtain ⟨rfl, rfl⟩ := h
        obtain ⟨e, hn⟩ := ih a' hs
        refine ⟨by simp [e], ?_⟩
        intro hm
        rcases List.mem_cons.mp hm with h1 | h1
        · exact hb h1.symm
        · exact hn h1

theorem chomp_append_nl (x : Bytes) : chomp (x ++ [10]) = x := by
  simp [chomp]

theorem stripPrefix_append (p bs : Bytes) : stripPrefix p (p ++ bs) = some bs := by
  induction p with
  | nil => cases bs <;> rfl
  | cons a p ih => simp [stripPrefix, ih]

theorem stripPrefix_some (p bs r : Bytes) (h : stripPrefix p bs = some r) : bs = p ++ r := by
  induction p generalizing bs with
  | nil =>
    cases bs <;> simp [stripPrefix] at h <;> simp [h]
  | cons a p ih =>
    cases bs with
    | nil => simp [stripPrefix] at h
    | cons b bs =>
      unfold stripPrefix at h
      by_cases hab : a = b
      · simp only [hab, if_true] at h
        simp [hab, ih bs h]
      · simp [hab] at h

theorem stripSuffix_append (x suf : Bytes) : stripSuffix suf (x ++ suf) = some x := by
  simp [stripSuffix, List.reverse_append, stripPrefix_append]

theorem stripSuffix_some (suf bs x : Bytes) (h : stripSuffix suf bs = some x) : bs = x ++ suf := by
  unfold stripSuffix at h
  cases hp : stripPrefix suf.reverse bs.reverse with
  | none => simp [hp] at h
  | some r =>
    simp only [hp, Option.map_some, Option.some.injEq] at h
    have := stripPrefix_some _ _ _ hp
    have h2 : bs = (suf.reverse ++ r).reverse := by rw [← this]; simp
    rw [h2, ← h]; simp

theorem stripSuffix_none_of_not_mem (suf bs : Bytes) (c : UInt8) (hc : c ∈ suf) (h : c ∉ bs) :
    stripSuffix suf bs = none := by
  cases hs : stripSuffix suf bs with
  | none => rfl
  | some x =>
    have := stripSuffix_some _ _ _ hs
    exact absurd (by rw [this]; simp [hc]) h

theorem startsWith_false_of_head (p bs : Bytes) (a b : UInt8) (p' bs' : Bytes) (hp : p = a :: p')
    (hb : bs = b :: bs') (hne : a ≠ b) : startsWith p bs = false := by
  subst hp hb
  simp [startsWith, stripPrefix, hne]

/-! ### splitting the capability text -/

theorem splitAll_append_sep (sep : UInt8) (t rest : Bytes) (h : sep ∉ t) :
    splitAll sep (t ++ sep :: rest) = t :: splitAll sep rest := by
  induction t with
  | nil => simp [splitAll]
  | cons b t ih =>
    have hb : b ≠ sep := fun e => h (by simp [e])
    have ht : sep ∉ t := fun e => h (by simp [e])
    simp [splitAll, hb, ih ht]

theorem splitAll_no_sep (sep : UInt8) (t : Bytes) (h : sep ∉ t) : splitAll sep t = [t] := by
  induction t with
  | nil => rfl
  | cons b t ih =>
    have hb : b ≠ sep := fun e => h (by simp [e])
    have ht : sep ∉ t := fun e => h (by simp [e])
    simp [splitAll, hb, ih ht]

theorem splitAll_joinSp (toks : List Bytes) (hne : toks ≠ []) (h : ∀ t ∈ toks, (32 : UInt8) ∉ t) :
    splitAll 32 (joinSp toks) = toks := by
  induction toks with
  | nil => exact absurd rfl hne
  | cons t ts ih =>
    cases ts with
    | nil => simpa [joinSp] using splitAll_no_sep 32 t (h t (by simp))
    | cons t2 ts =>
      have ht := h t (by simp)
      simp only [joinSp]
      rw [splitAll_append_sep 32 t _ ht, ih (by simp) (fun x hx => h x (by simp [hx]))]

/-! ### hex -/

theorem hexValB_hexNib : ∀ n : Fin 16, hexValB (hexNib n.val) = some n.val := by decide

theorem hexNib_lower : ∀ n : Fin 16,
    (48 ≤ (hexNib n.val).toNat ∧ (hexNib n.val).toNat ≤ 57) ∨
      (97 ≤ (hexNib n.val).toNat ∧ (hexNib n.val).toNat ≤ 102) := by decide

/-- a lower-case hex digit -/
def IsHexDigit (c : UInt8) : Prop := (48 ≤ c.toNat ∧ c.toNat ≤ 57) ∨ (97 ≤ c.toNat ∧ c.toNat ≤ 102)

instance : DecidablePred IsHexDigit := fun c => by unfold IsHexDigit; infer_instance

theorem mem_toHex_isHexDigit (o : Oid) (c : UInt8) (h : c ∈ toHex o) : IsHexDigit c := by
  simp only [toHex, List.mem_flatMap] at h
  obtain ⟨b, _, hc⟩ := h
  have h1 : b.toNat / 16 < 16 := by have := b.toNat_lt; omega
  have h2 : b.toNat % 16 < 16 := Nat.mod_lt _ (by omega)
  simp only [List.mem_cons, List.not_mem_nil, or_false] at hc
  rcases hc with rfl | rfl
  · exact hexNib_lower ⟨_, h1⟩
  · exact hexNib_lower ⟨_, h2⟩

theorem toHex_length (o : Oid) : (toHex o).length = 2 * o.length := by
  induction o with
  | nil => rfl
  | cons b o ih => simp [toHex, List.flatMap_cons] at ih ⊢; omega

theorem not_mem_toHex (o : Oid) (c : UInt8) (h : ¬ IsHexDigit c) : c ∉ toHex o :=
  fun hm => h (mem_toHex_isHexDigit o c hm)

theorem decodeHex_toHex (o : Oid) : decodeHex (toHex o) = some o := by
  induction o with
  | nil => rfl
  | cons b o ih =>
    have h1 : b.toNat / 16 < 16 := by have := b.toNat_lt; omega
    have h2 : b.toNat % 16 < 16 := Nat.mod_lt _ (by omega)
    have e1 := hexValB_hexNib ⟨_, h1⟩
    have e2 := hexValB_hexNib ⟨_, h2⟩
    have hb : UInt8.ofNat (b.toNat / 16 * 16 + b.toNat % 16) = b := by
      rw [Nat.div_add_mod']
      exact UInt8.ofNat_toNat
    simp only [toHex, List.flatMap_cons, List.cons_append, List.nil_append] at ih ⊢
    simp only [decodeHex, e1, e2, ih, hb]

theorem fromHex_toHex (o : Oid) (h : o.length = 20) : fromHex (toHex o) = some o := by
  simp [fromHex, toHex_length, h, decodeHex_toHex]

theorem toHex_ne_nil (o : Oid) (h : o.length = 20) : toHex o ≠ [] := by
  intro e
  have := toHex_length o
  rw [e, h] at this
  simp at this

theorem toHex_head (o : Oid) (h : o.length = 20) : ∃ c rest, toHex o = c :: rest ∧ IsHexDigit c := by
  cases ht : toHex o with
  | nil => exact absurd ht (toHex_ne_nil o h)
  | cons c rest => exact ⟨c, rest, rfl, mem_toHex_isHexDigit o c (by simp [ht])⟩

end GixModel.C30
