import GixModel.Lemmas.C46Redundant
/-
C46 — lemmas, part 4: the invariant of the `remove_redundant` walk and its preservation.

The invariant is stated over the two flag planes it depends on (`st` = STALE, `rs` = RESULT) so
that every kind of step is a small lemma about how these planes change.
-/
namespace GixModel.C46
open GixModel GixModel.CG GixModel.Spec.C46

/-- static facts about the graph, the candidates `ids` and their sorted copy -/
structure RCtx (g : Dag) (nodes ids : List Nat) (sorted : List (Nat × Key)) : Prop where
  acyclic : Acyclic g
  closed : Closed g nodes
  genmono : GenMono g
  nodes_nodup : nodes.Nodup
  ids_nodup : ids.Nodup
  ids_nodes : ∀ r, r ∈ ids → r ∈ nodes
  sorted_sorted : sorted.Pairwise GenLe
  sorted_ids : ∀ r, r ∈ ids → ∃ e, e ∈ sorted ∧ e.1 = r
  sorted_key : ∀ e, e ∈ sorted → e.2 = keyOf g e.1

structure RInv (g : Dag) (nodes ids : List Nat) (sorted : List (Nat × Key)) (st rs : Nat → Bool)
    (ws stack : List (Nat × Key)) (count pos minGen : Nat) : Prop where
  stale_sound : ∀ x, st x = true → ∃ r, r ∈ ids ∧ Reach g r x ∧ r ≠ x
  ws_parent : ∀ e, e ∈ ws → ∃ r, r ∈ ids ∧ e.1 ∈ g.parents r
  ws_key : ∀ e, e ∈ ws → e.2 = keyOf g e.1
  stack_stale : ∀ e, e ∈ stack → st e.1 = true
  stack_key : ∀ e, e ∈ stack → e.2 = keyOf g e.1
  stack_nodes : ∀ e, e ∈ stack → e.1 ∈ nodes
  closure : ∀ x, st x = true → (∀ e, e ∈ stack → e.1 ≠ x) →
    g.gen x < minGen ∨ ∀ p, p ∈ g.parents x → st p = true
  starts : ∀ r, r ∈ ids → ∀ p, p ∈ g.parents r → st p = true ∨ ∃ e, e ∈ ws ∧ e.1 = p
  result_ids : ∀ x, rs x = true → x ∈ ids
  count_eq : count = (ids.filter rs).length
  unresult_stale : ∀ r, r ∈ ids → rs r = false → st r = true
  pos_lt : pos < sorted.length
  minGen_eq : ∃ e, sorted[pos]? = some e ∧ minGen = e.2.gen
  before_pos : ∀ i e, i < pos → sorted[i]? = some e → st e.1 = true

/-- what the final flags guarantee -/
structure RPost (g : Dag) (ids : List Nat) (st : Nat → Bool) : Prop where
  stale_sound : ∀ x, st x = true → ∃ r, r ∈ ids ∧ Reach g r x ∧ r ≠ x
  independent : ∀ x y, x ∈ ids → y ∈ ids → st x = false → st y = false → x ≠ y → ¬ Reach g y x

section
variable {g : Dag} {nodes ids : List Nat} {sorted : List (Nat × Key)}

theorem RInv.minGen_le (ctx : RCtx g nodes ids sorted) {st rs : Nat → Bool} {ws stack : List (Nat × Key)}
    {count pos minGen : Nat} (h : RInv g nodes ids sorted st rs ws stack count pos minGen)
    {r : Nat} (hr : r ∈ ids) (hf : st r = false) : minGen ≤ g.gen r := by
  obtain ⟨e, he, her⟩ := ctx.sorted_ids r hr
  obtain ⟨i, hi⟩ := List.mem_iff_getElem?.mp he
  obtain ⟨e0, he0, hm⟩ := h.minGen_eq
  have hpi : pos ≤ i := by
    apply Classical.byContradiction
    intro hlt
    have := h.before_pos i e (by omega) hi
    rw [her, hf] at this
    cases this
  have := sorted_get_le ctx.sorted_sorted hpi he0 hi
  have hk := ctx.sorted_key e he
  rw [hm]
  rw [hk, her] at this
  exact this

theorem RInv.post_of_count {st rs : Nat → Bool} {ws stack : List (Nat × Key)}
    {count pos minGen : Nat} (h : RInv g nodes ids sorted st rs ws stack count pos minGen)
    (hc : count ≤ 1) : RPost g ids st := by
  refine ⟨h.stale_sound, ?_⟩
  intro x y hx hy hsx hsy hne _
  have hrx : rs x = true := by
    cases hr : rs x with
    | true => rfl
    | false => have := h.unresult_stale x hx hr; rw [hsx] at this; cases this
  have hry : rs y = true := by
    cases hr : rs y with
    | true => rfl
    | false => have := h.unresult_stale y hy hr; rw [hsy] at this; cases this
  have := two_le_length_of_mem (List.mem_filter.mpr ⟨hx, hrx⟩) (List.mem_filter.mpr ⟨hy, hry⟩) hne
  have hce := h.count_eq
  omega

theorem RInv.post_of_done (ctx : RCtx g nodes ids sorted) {st rs : Nat → Bool}
    {count pos minGen : Nat} (h : RInv g nodes ids sorted st rs [] [] count pos minGen) :
    RPost g ids st := by
  refine ⟨h.stale_sound, ?_⟩
  intro x y hx hy hsx _ hne hyx
  -- every proper ancestor of `y` down to `x` is STALE
  have hmin := h.minGen_le ctx hx hsx
  have key : ∀ z w, Reach g z w → minGen ≤ g.gen w → st z = true → st w = true := by
    intro z w hzw
    induction hzw with
    | refl => exact fun _ h => h
    | head hp hpw ih =>
      intro hmw hz
      apply ih hmw
      cases h.closure _ hz (by intro e he; simp at he) with
      | inl hlt =>
        have := (Reach.head hp hpw).gen_le ctx.genmono
        omega
      | inr hall => exact hall _ hp
  obtain ⟨p, hp, hpx⟩ := hyx.of_ne (fun h => hne h.symm)
  have hps : st p = true := by
    cases h.starts y hy p hp with
    | inl h' => exact h'
    | inr h' => obtain ⟨e, he, _⟩ := h'; simp at he
  have := key p x hpx hmin hps
  rw [hsx] at this
  cases this

/-- the outer loop takes the next `walk_start` entry -/
theorem RInv.start (ctx : RCtx g nodes ids sorted) {st st' rs : Nat → Bool} {ws : List (Nat × Key)}
    {c : Nat} {k : Key} {count pos minGen : Nat}
    (h : RInv g nodes ids sorted st rs ((c, k) :: ws) [] count pos minGen)
    (hst' : ∀ x, st' x = (st x || decide (x = c))) :
    RInv g nodes ids sorted st' rs ws [(c, k)] count pos minGen := by
  have hmono : ∀ x, st x = true → st' x = true := fun x hx => by rw [hst', hx]; rfl
  have hc : st' c = true := by rw [hst']; simp
  obtain ⟨r, hr, hcr⟩ := h.ws_parent (c, k) List.mem_cons_self
  refine
    { stale_sound := ?_
      ws_parent := fun e he => h.ws_parent e (List.mem_cons_of_mem _ he)
      ws_key := fun e he => h.ws_key e (List.mem_cons_of_mem _ he)
      stack_stale := ?_
      stack_key := ?_
      stack_nodes := ?_
      closure := ?_
      starts := ?_
      result_ids := h.result_ids
      count_eq := h.count_eq
      unresult_stale := fun r hr hrs => hmono r (h.unresult_stale r hr hrs)
      pos_lt := h.pos_lt
      minGen_eq := h.minGen_eq
      before_pos := fun i e hi he => hmono _ (h.before_pos i e hi he) }
  · intro x hx
    rw [hst'] at hx
    simp only [Bool.or_eq_true, decide_eq_true_eq] at hx
    cases hx with
    | inl hx => exact h.stale_sound x hx
    | inr hx =>
      subst hx
      exact ⟨r, hr, Reach.single hcr, rank_ne_parent ctx.acyclic hcr (Reach.refl r)⟩
  · intro e he
    simp only [List.mem_singleton] at he
    subst he; exact hc
  · intro e he
    simp only [List.mem_singleton] at he
    subst he; exact h.ws_key _ List.mem_cons_self
  · intro e he
    simp only [List.mem_singleton] at he
    subst he; exact ctx.closed r (ctx.ids_nodes r hr) _ hcr
  · intro x hx hns
    have hxc : x ≠ c := fun hxc => hns (c, k) (List.mem_singleton.mpr rfl) hxc.symm
    rw [hst'] at hx
    simp only [Bool.or_eq_true, decide_eq_true_eq] at hx
    cases hx with
    | inl hx =>
      cases h.closure x hx (by intro e he; simp at he) with
      | inl h' => exact Or.inl h'
      | inr h' => exact Or.inr (fun p hp => hmono p (h' p hp))
    | inr hx => exact absurd hx hxc
  · intro r' hr' p hp
    cases h.starts r' hr' p hp with
    | inl h' => exact Or.inl (hmono p h')
    | inr h' =>
      obtain ⟨e, he, hep⟩ := h'
      cases List.mem_cons.mp he with
      | inl h'' =>
        subst h''
        simp only at hep
        subst hep
        exact Or.inl hc
      | inr h'' => exact Or.inr ⟨e, h'', hep⟩

/-- RESULT is taken off the commit on top of the stack -/
theorem RInv.clear (ctx : RCtx g nodes ids sorted) {st rs rs' : Nat → Bool} {ws stack : List (Nat × Key)}
    {c : Nat} {count pos minGen : Nat}
    (h : RInv g nodes ids sorted st rs ws stack count pos minGen)
    (hc : st c = true) (hrc : rs c = true) (hrs' : ∀ x, rs' x = (rs x && !decide (x = c))) :
    RInv g nodes ids sorted st rs' ws stack (count - 1) pos minGen ∧ 0 < count := by
  have hcid : c ∈ ids := h.result_ids c hrc
  have hflip := filter_length_flip (p := rs) (p' := rs') ids ctx.ids_nodup c hcid hrc
    (by rw [hrs']; simp) (fun x hx => by rw [hrs']; simp [hx])
  have hce := h.count_eq
  refine ⟨?_, by omega⟩
  refine
    { stale_sound := h.stale_sound
      ws_parent := h.ws_parent
      ws_key := h.ws_key
      stack_stale := h.stack_stale
      stack_key := h.stack_key
      stack_nodes := h.stack_nodes
      closure := h.closure
      starts := h.starts
      result_ids := ?_
      count_eq := by omega
      unresult_stale := ?_
      pos_lt := h.pos_lt
      minGen_eq := h.minGen_eq
      before_pos := h.before_pos }
  · intro x hx
    rw [hrs'] at hx
    simp only [Bool.and_eq_true] at hx
    exact h.result_ids x hx.1
  · intro r hr hrs
    rw [hrs'] at hrs
    by_cases hrc' : r = c
    · subst hrc'; exact hc
    · apply h.unresult_stale r hr
      simpa [hrc'] using hrs

/-- the min-generation cursor moves past STALE candidates -/
theorem RInv.move (ctx : RCtx g nodes ids sorted) {st rs : Nat → Bool} {ws stack : List (Nat × Key)}
    {count pos pos' minGen : Nat} {e' : Nat × Key}
    (h : RInv g nodes ids sorted st rs ws stack count pos minGen)
    (hle : pos ≤ pos') (he' : sorted[pos']? = some e')
    (hbetween : ∀ i e, pos ≤ i → i < pos' → sorted[i]? = some e → st e.1 = true) :
    RInv g nodes ids sorted st rs ws stack count pos' e'.2.gen := by
  obtain ⟨e0, he0, hm⟩ := h.minGen_eq
  have hgen : minGen ≤ e'.2.gen := by
    rw [hm]; exact sorted_get_le ctx.sorted_sorted hle he0 he'
  refine
    { stale_sound := h.stale_sound
      ws_parent := h.ws_parent
      ws_key := h.ws_key
      stack_stale := h.stack_stale
      stack_key := h.stack_key
      stack_nodes := h.stack_nodes
      closure := ?_
      starts := h.starts
      result_ids := h.result_ids
      count_eq := h.count_eq
      unresult_stale := h.unresult_stale
      pos_lt := (List.getElem?_eq_some_iff.mp he').1
      minGen_eq := ⟨e', he', rfl⟩
      before_pos := ?_ }
  · intro x hx hns
    cases h.closure x hx hns with
    | inl h' => exact Or.inl (by omega)
    | inr h' => exact Or.inr h'
  · intro i e hi he
    by_cases hip : i < pos
    · exact h.before_pos i e hip he
    · exact hbetween i e (by omega) hi he

/-- the commit on top of the stack is left (generation cut-off, or all parents visited) -/
theorem RInv.pop {st rs : Nat → Bool} {ws below : List (Nat × Key)}
    {c : Nat} {k : Key} {count pos minGen : Nat}
    (h : RInv g nodes ids sorted st rs ws ((c, k) :: below) count pos minGen)
    (hdone : k.gen < minGen ∨ ∀ p, p ∈ g.parents c → st p = true) :
    RInv g nodes ids sorted st rs ws below count pos minGen := by
  have hk : k = keyOf g c := h.stack_key _ List.mem_cons_self
  refine
    { stale_sound := h.stale_sound
      ws_parent := h.ws_parent
      ws_key := h.ws_key
      stack_stale := fun e he => h.stack_stale e (List.mem_cons_of_mem _ he)
      stack_key := fun e he => h.stack_key e (List.mem_cons_of_mem _ he)
      stack_nodes := fun e he => h.stack_nodes e (List.mem_cons_of_mem _ he)
      closure := ?_
      starts := h.starts
      result_ids := h.result_ids
      count_eq := h.count_eq
      unresult_stale := h.unresult_stale
      pos_lt := h.pos_lt
      minGen_eq := h.minGen_eq
      before_pos := h.before_pos }
  intro x hx hns
  by_cases hxc : x = c
  · subst hxc
    cases hdone with
    | inl h' => left; rw [hk] at h'; exact h'
    | inr h' => exact Or.inr h'
  · apply h.closure x hx
    intro e he
    cases List.mem_cons.mp he with
    | inl h' => subst h'; exact fun h'' => hxc h''.symm
    | inr h' => exact hns e h'

/-- the walk descends into a parent that was not STALE yet -/
theorem RInv.push (ctx : RCtx g nodes ids sorted) {st st' rs : Nat → Bool} {ws below : List (Nat × Key)}
    {c p : Nat} {k : Key} {count pos minGen : Nat}
    (h : RInv g nodes ids sorted st rs ws ((c, k) :: below) count pos minGen)
    (hp : p ∈ g.parents c) (hst' : ∀ x, st' x = (st x || decide (x = p))) :
    RInv g nodes ids sorted st' rs ws ((p, keyOf g p) :: (c, k) :: below) count pos minGen := by
  have hmono : ∀ x, st x = true → st' x = true := fun x hx => by rw [hst', hx]; rfl
  have hpst : st' p = true := by rw [hst']; simp
  have hcst : st c = true := h.stack_stale _ List.mem_cons_self
  have hcn : c ∈ nodes := h.stack_nodes _ List.mem_cons_self
  refine
    { stale_sound := ?_
      ws_parent := h.ws_parent
      ws_key := h.ws_key
      stack_stale := ?_
      stack_key := ?_
      stack_nodes := ?_
      closure := ?_
      starts := ?_
      result_ids := h.result_ids
      count_eq := h.count_eq
      unresult_stale := fun r hr hrs => hmono r (h.unresult_stale r hr hrs)
      pos_lt := h.pos_lt
      minGen_eq := h.minGen_eq
      before_pos := fun i e hi he => hmono _ (h.before_pos i e hi he) }
  · intro x hx
    rw [hst'] at hx
    simp only [Bool.or_eq_true, decide_eq_true_eq] at hx
    cases hx with
    | inl hx => exact h.stale_sound x hx
    | inr hx =>
      subst hx
      obtain ⟨r, hr, hrc, _⟩ := h.stale_sound c hcst
      exact ⟨r, hr, hrc.tail hp, rank_ne_parent ctx.acyclic hp hrc⟩
  · intro e he
    cases List.mem_cons.mp he with
    | inl h' => subst h'; exact hpst
    | inr h' => exact hmono _ (h.stack_stale e h')
  · intro e he
    cases List.mem_cons.mp he with
    | inl h' => subst h'; rfl
    | inr h' => exact h.stack_key e h'
  · intro e he
    cases List.mem_cons.mp he with
    | inl h' => subst h'; exact ctx.closed c hcn p hp
    | inr h' => exact h.stack_nodes e h'
  · intro x hx hns
    have hxp : x ≠ p := fun hxp => hns (p, keyOf g p) List.mem_cons_self hxp.symm
    rw [hst'] at hx
    simp only [Bool.or_eq_true, decide_eq_true_eq] at hx
    cases hx with
    | inl hx =>
      cases h.closure x hx (fun e he => hns e (List.mem_cons_of_mem _ he)) with
      | inl h' => exact Or.inl h'
      | inr h' => exact Or.inr (fun p' hp' => hmono p' (h' p' hp'))
    | inr hx => exact absurd hx hxp
  · intro r hr p' hp'
    cases h.starts r hr p' hp' with
    | inl h' => exact Or.inl (hmono p' h')
    | inr h' => exact Or.inr h'

end

end GixModel.C46
