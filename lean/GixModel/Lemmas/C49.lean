import GixModel.Spec.C49
/-
C49 — lemmas for the entry-status comparison: gitoxide's stat comparison sees at least what
git's does, the mode-change decision agrees, and the decision after the type check agrees on
Booleans (checked exhaustively by the kernel).
-/
namespace GixModel.C49
open GixModel GixModel.Spec.C49

/-- `new_stat.matches(&entry.stat)` is git's "no MTIME/CTIME/OWNER/INODE change and same size" for
git's default build — provided whole-second ctime is not what differs under
`checkStat=minimal` + `trustctime` (gitoxide compares it there, git's code does not). -/
theorem matches_iff (a b : Stat) (o : StatOpts) (hns : o.useNsec = false) (hsd : o.useStdev = false)
    (hct : o.checkStat = false → o.trustCtime = true → b.ctimeS = a.ctimeS) :
    a.matches b o = (!(gitMatchStatData b a o.trustCtime o.checkStat).1 && b.size == a.size) := by
  unfold Stat.matches gitMatchStatData
  simp only [hns, hsd, Bool.and_false, Bool.false_and, Bool.false_eq_true, if_false]
  rw [show (b.mtimeS != a.mtimeS) = (a.mtimeS != b.mtimeS) from bne_comm,
    show (b.ctimeS != a.ctimeS) = (a.ctimeS != b.ctimeS) from bne_comm,
    show (b.uid != a.uid) = (a.uid != b.uid) from bne_comm,
    show (b.gid != a.gid) = (a.gid != b.gid) from bne_comm,
    show (b.ino != a.ino) = (a.ino != b.ino) from bne_comm,
    show (b.size == a.size) = (a.size == b.size) from by simp [BEq.comm]]
  have hct' : o.checkStat = false → o.trustCtime = true → (a.ctimeS != b.ctimeS) = false := by
    intro h1 h2; simp [hct h1 h2]
  have e1 : (a.ino == b.ino) = !(a.ino != b.ino) := by simp [bne]
  have e2 : (a.gid == b.gid) = !(a.gid != b.gid) := by simp [bne]
  have e3 : (a.uid == b.uid) = !(a.uid != b.uid) := by simp [bne]
  have e4 : (a.size == b.size) = !(a.size != b.size) := by simp [bne]
  rw [e1, e2, e3, e4]
  generalize (a.mtimeS != b.mtimeS) = x1 at *
  generalize (a.ctimeS != b.ctimeS) = x2 at *
  generalize (a.uid != b.uid) = x3
  generalize (a.gid != b.gid) = x4
  generalize (a.ino != b.ino) = x5
  generalize (a.size != b.size) = x6
  generalize o.trustCtime = tc at *
  generalize o.checkStat = cs at *
  cases x1 <;> cases x2 <;> cases x3 <;> cases x4 <;> cases x5 <;> cases x6 <;> cases tc <;> cases cs <;> simp_all

/-- gitoxide's stat comparison never says "same" when git's says "changed" (for every option
combination of git's default build): whatever git's comparison notices, gitoxide's notices. -/
theorem matches_implies_git_unchanged (a b : Stat) (o : StatOpts) (hns : o.useNsec = false)
    (hsd : o.useStdev = false) (hm : a.matches b o = true) :
    (gitMatchStatData b a o.trustCtime o.checkStat) = (false, false) := by
  unfold Stat.matches at hm
  unfold gitMatchStatData
  simp only [hns, hsd, Bool.and_false, Bool.false_and, Bool.false_eq_true, if_false] at hm
  by_cases h1 : a.mtimeS = b.mtimeS <;> by_cases h2 : a.size = b.size <;> by_cases h3 : a.ctimeS = b.ctimeS <;>
    by_cases h4 : a.ino = b.ino <;> by_cases h5 : a.gid = b.gid <;> by_cases h6 : a.uid = b.uid <;>
    cases htc : o.trustCtime <;> cases hcs : o.checkStat <;> simp_all

theorem modeChange_eq (e : Entry) (m : Meta) (o : Opts)
    (hmode : e.mode = .file ∨ e.mode = .fileExec ∨ e.mode = .symlink)
    (hkind : m.kind = .file ∨ m.kind = .symlink)
    (hnolink : ¬ (e.mode = .symlink ∧ o.symlink = false ∧ m.kind = .symlink)) :
    changeToMatchFs e.mode m o.symlink o.execBit =
      (if (gitBasic e m o).type then .type else if (gitBasic e m o).mode then .execBit else .none)
    ∧ gitTypeDiffers e m o = (gitBasic e m o).type := by
  rcases hmode with hm | hm | hm <;> rcases hkind with hk | hk <;>
    cases hs : o.symlink <;> cases hx : o.execBit <;> cases hme : m.exec <;>
    simp_all [changeToMatchFs, gitBasic, gitTypeDiffers] <;> decide

/-- the decision after the type check, on Booleans: `xc` executable bit changed, `ot` some other
stat field differs, `sn` sizes differ, `z` recorded size is zero, `eb` empty blob, `hd` content
hash differs, `rx` racy (gitoxide). `true` = reported as modified. -/
def gixMod (xc ot sn z eb hd rx : Bool) : Bool :=
  let matches_ := !ot && !sn
  let statClean := !xc && matches_ && (eb == z)
  let racy := statClean && rx
  if statClean && !racy then false
  else ((if sn && (eb || !z) then true else hd) || xc)

/-- git's `ie_modified` on the same Booleans (`rg` = racy as git computes it) -/
def gitMod (xc ot sn z eb hd rg : Bool) : Bool :=
  let data := sn || (z && !eb)
  let any := xc || data || ot
  let data' := if !any && rg then hd else data
  let any' := xc || data' || ot
  if !any' then false
  else if xc then true
  else if data' && !z then true
  else hd

/-- all 256 cases, by the kernel -/
theorem mod_eq : ∀ (xc ot sn z eb hd rx rg : Bool), (eb = true → z = true) →
    (eb = true → sn = true → hd = true) → (ot = false → rx = rg) →
    gixMod xc ot sn z eb hd rx = gitMod xc ot sn z eb hd rg := by
  decide

end GixModel.C49
