import GixModel.Model.C53
/-
C53 — `lexCmp` (byte-wise lexicographic comparison) is a strict total order whose `eq` is equality.
-/
namespace GixModel.C53
open GixModel

theorem u8_eq_of_not_lt {x y : UInt8} (h1 : ¬ x < y) (h2 : ¬ y < x) : x = y :=
  UInt8.le_antisymm (UInt8.not_lt.mp h2) (UInt8.not_lt.mp h1)

theorem u8_lt_irrefl (x : UInt8) : ¬ x < x := by
  rw [UInt8.lt_iff_toNat_lt]; omega

theorem u8_lt_asymm {x y : UInt8} (h : x < y) : ¬ y < x := by
  rw [UInt8.lt_iff_toNat_lt] at *; omega

theorem u8_lt_trans {x y z : UInt8} (h1 : x < y) (h2 : y < z) : x < z := by
  rw [UInt8.lt_iff_toNat_lt] at *; omega

theorem lexCmp_eq_iff (a b : Bytes) : lexCmp a b = .eq ↔ a = b := by
  induction a generalizing b with
  | nil => cases b <;> simp [lexCmp]
  | cons x xs ih =>
    cases b with
    | nil => simp [lexCmp]
    | cons y ys =>
      simp only [lexCmp]
      by_cases h1 : x < y
      · simp only [h1, if_true, List.cons.injEq]
        constructor
        · intro h; cases h
        · intro h; exact absurd h1 (h.1 ▸ u8_lt_irrefl x)
      · by_cases h2 : y < x
        · simp only [h1, h2, if_true, if_false, List.cons.injEq]
          constructor
          · intro h; cases h
          · intro h; exact absurd h2 (h.1 ▸ u8_lt_irrefl x)
        · have hxy : x = y := u8_eq_of_not_lt h1 h2
          subst hxy
          simp only [h1, if_false, ih, List.cons.injEq, true_and]

theorem lexCmp_refl (a : Bytes) : lexCmp a a = .eq := (lexCmp_eq_iff a a).mpr rfl

theorem lexCmp_lt_iff_gt (a b : Bytes) : lexCmp a b = .lt ↔ lexCmp b a = .gt := by
  induction a generalizing b with
  | nil => cases b <;> simp [lexCmp]
  | cons x xs ih =>
    cases b with
    | nil => simp [lexCmp]
    | cons y ys =>
      simp only [lexCmp]
      by_cases h1 : x < y
      · have h2 : ¬ y < x := u8_lt_asymm h1
        simp [h1, h2]
      · by_cases h2 : y < x
        · simp [h1, h2]
        · simp only [h1, h2, if_false]
          exact ih ys

theorem lexCmp_gt_iff_lt (a b : Bytes) : lexCmp a b = .gt ↔ lexCmp b a = .lt :=
  (lexCmp_lt_iff_gt b a).symm

theorem lexCmp_trans {a b c : Bytes} (h1 : lexCmp a b = .lt) (h2 : lexCmp b c = .lt) : lexCmp a c = .lt := by
  induction a generalizing b c with
  | nil =>
    cases b with
    | nil => simp [lexCmp] at h1
    | cons y ys =>
      cases c with
      | nil => simp [lexCmp] at h2
      | cons z zs => simp [lexCmp]
  | cons x xs ih =>
    cases b with
    | nil => simp [lexCmp] at h1
    | cons y ys =>
      cases c with
      | nil => simp [lexCmp] at h2
      | cons z zs =>
        simp only [lexCmp] at h1 h2 ⊢
        by_cases hxy : x < y
        · by_cases hyz : y < z
          · simp [u8_lt_trans hxy hyz]
          · by_cases hzy : z < y
            · simp [hyz, hzy] at h2
            · have : y = z := u8_eq_of_not_lt hyz hzy
              subst this; simp [hxy]
        · by_cases hyx : y < x
          · simp [hxy, hyx] at h1
          · have : x = y := u8_eq_of_not_lt hxy hyx
            subst this
            simp only [hxy, if_false] at h1
            by_cases hyz : x < z
            · simp [hyz]
            · by_cases hzy : z < x
              · simp [hyz, hzy] at h2
              · simp only [hyz, hzy, if_false] at h2 ⊢
                exact ih h1 h2

/-- `a < b ≤ c → a < c` -/
theorem lexCmp_lt_of_lt_of_ne_gt {a b c : Bytes} (h1 : lexCmp a b = .lt) (h2 : lexCmp b c ≠ .gt) :
    lexCmp a c = .lt := by
  cases h : lexCmp b c with
  | lt => exact lexCmp_trans h1 h
  | eq => rw [(lexCmp_eq_iff b c).mp h] at h1; exact h1
  | gt => exact absurd h h2

/-- `a ≤ b < c → a < c` -/
theorem lexCmp_lt_of_ne_gt_of_lt {a b c : Bytes} (h1 : lexCmp a b ≠ .gt) (h2 : lexCmp b c = .lt) :
    lexCmp a c = .lt := by
  cases h : lexCmp a b with
  | lt => exact lexCmp_trans h h2
  | eq => rw [(lexCmp_eq_iff a b).mp h]; exact h2
  | gt => exact absurd h h1

theorem lexCmp_ne_lt_of_gt {a b : Bytes} (h : lexCmp a b = .gt) : lexCmp b a = .lt :=
  (lexCmp_gt_iff_lt a b).mp h

end GixModel.C53
