import GixModel.Lemmas.C12Ld
/-
C12 (liveness) — the progress measure of the retry loop: with the directory at rest and no new lookups,
every step of every handle lowers `T`.
-/
namespace GixModel.C12.Live

/-- the steps of the lookups themselves (not the environment, not new handles or new lookups) -/
def Ev.isLookup : Ev → Bool
  | Ev.envAdd _ => false
  | Ev.envRemove _ => false
  | Ev.newHandle => false
  | Ev.start _ _ => false
  | _ => true

def sumTo : Nat → (Nat → Nat) → Nat
  | 0, _ => 0
  | n + 1, f => sumTo n f + f n

theorem sumTo_congr {n : Nat} {f g : Nat → Nat} (h : ∀ j, j < n → g j = f j) : sumTo n g = sumTo n f := by
  induction n with
  | zero => rfl
  | succ n ih =>
    simp only [sumTo]
    rw [ih (fun j hj => h j (by omega)), h n (by omega)]

theorem sumTo_le {n : Nat} {f g : Nat → Nat} (c : Nat) (h : ∀ j, j < n → g j ≤ f j + c) :
    sumTo n g ≤ sumTo n f + c * n := by
  induction n with
  | zero => simp [sumTo]
  | succ n ih =>
    simp only [sumTo]
    have := ih (fun j hj => h j (by omega))
    have := h n (by omega)
    rw [Nat.mul_succ]; omega

/-- one summand replaced, the others grow by at most `c` each -/
theorem sumTo_upd {n i : Nat} {f g : Nat → Nat} (c : Nat) (hi : i < n) (h : ∀ j, j < n → j ≠ i → g j ≤ f j + c) :
    sumTo n g + f i ≤ sumTo n f + g i + c * (n - 1) := by
  induction n with
  | zero => omega
  | succ n ih =>
    simp only [sumTo]
    by_cases hin : i = n
    · subst hin
      have hle : ∀ j, j < i → g j ≤ f j + c := fun j hj => h j (by omega) (by omega)
      have := sumTo_le (n := i) (f := f) (g := g) c hle
      simp only [Nat.add_sub_cancel]; omega
    · have := ih (by omega) (fun j hj hne => h j (by omega) hne)
      have := h n (by omega) (fun e => hin e.symm)
      have hn : n + 1 - 1 = (n - 1) + 1 := by omega
      rw [hn, Nat.mul_succ]; omega

theorem sumTo_upd_eq {n i : Nat} {f g : Nat → Nat} (hi : i < n) (h : ∀ j, j < n → j ≠ i → g j = f j) :
    sumTo n g + f i = sumTo n f + g i := by
  induction n with
  | zero => omega
  | succ n ih =>
    simp only [sumTo]
    by_cases hin : i = n
    · subst hin
      have hle : ∀ j, j < i → g j = f j := fun j hj => h j (by omega) (by omega)
      rw [sumTo_congr (n := i) (f := f) (g := g) hle]; omega
    · have := ih (by omega) (fun j hj hne => h j (by omega) hne)
      have := h n (by omega) (fun e => hin e.symm)
      omega

def cM (s : S) (mp ml : Nat) : Nat := if mp = s.pub ∧ ml = (s.objs s.pub).loaded then 0 else 50
def cA (s : S) (ix prev : Nat) : Nat := if prev = (s.objs ix).loaded then 0 else 50
def cB (s : S) (ix : Nat) : Nat := if s.pub = ix then 0 else 50

def rank (s : S) (x : H) : Nat :=
  match x.pc with
  | Pc.idle => 0
  | Pc.found => 0
  | Pc.notFound => 0
  | Pc.collLoad => 20
  | Pc.collWait ix => 19 + cB s ix
  | Pc.collRead _ => 18 + cM s x.mPtr x.mLoaded
  | Pc.scan => 17 + cM s x.mPtr x.mLoaded
  | Pc.loi => 16 + cM s x.mPtr x.mLoaded
  | Pc.lnStart ix => 15 + cM s x.mPtr x.mLoaded + cB s ix
  | Pc.lnInner ix prev => 14 + cM s x.mPtr x.mLoaded + cB s ix + cA s ix prev
  | Pc.lnClaim ix prev => 13 + cM s x.mPtr x.mLoaded + cB s ix + cA s ix prev
  | Pc.lnLate ix prev _ => 12 + cM s x.mPtr x.mLoaded + cB s ix + cA s ix prev
  | Pc.lnLoad ix prev _ => 12 + 150 * (s.nH + 1) + cM s x.mPtr x.mLoaded + cB s ix + cA s ix prev
  | Pc.lnWait ix prev => 12 + cM s x.mPtr x.mLoaded + cB s ix + cA s ix prev
  | Pc.lnEnd ix prev => 11 + cM s x.mPtr x.mLoaded + cB s ix + cA s ix prev
  | Pc.cons ix => 10 + cM s x.mPtr x.mLoaded + cB s ix
  | Pc.recheck _ => 9 + cM s x.mPtr x.mLoaded

def pPot (s : S) : Nat := if (s.objs s.pub).init && (s.objs s.pub).files == s.disk then 0 else s.disk.length + 1

def work (s : S) : Nat := pPot s + sumTo s.nObjs fun p => (s.objs p).files.length - (s.objs p).claimed

def T (s : S) : Nat := 300 * (s.nH + 2) * work s + sumTo s.nH fun h => rank s (s.hs h)

theorem cM_le (s a b) : cM s a b ≤ 50 := by unfold cM; split <;> omega
theorem cA_le (s a b) : cA s a b ≤ 50 := by unfold cA; split <;> omega
theorem cB_le (s a) : cB s a ≤ 50 := by unfold cB; split <;> omega
theorem cM_stale (s : S) (a b : Nat) (h : ¬(a = s.pub ∧ b = (s.objs s.pub).loaded)) : cM s a b = 50 := by
  unfold cM; rw [if_neg h]
theorem cM_self (s : S) : cM s s.pub (s.objs s.pub).loaded = 0 := by unfold cM; simp
theorem cA_stale (s : S) (ix prev : Nat) (h : prev ≠ (s.objs ix).loaded) : cA s ix prev = 50 := by
  unfold cA; rw [if_neg h]
theorem cA_self (s : S) (ix : Nat) : cA s ix (s.objs ix).loaded = 0 := by unfold cA; simp
theorem cB_self (s : S) : cB s s.pub = 0 := by unfold cB; simp
theorem cB_ne (s : S) (ix : Nat) (h : s.pub ≠ ix) : cB s ix = 50 := by unfold cB; rw [if_neg h]

theorem rank_congr {s s' : S} (y : H) (h1 : s'.pub = s.pub) (h2 : s'.nH = s.nH)
    (h3 : ∀ p, (s'.objs p).loaded = (s.objs p).loaded) : rank s' y = rank s y := by
  simp only [rank, cM, cA, cB, h1, h2, h3]

theorem rank_le {s s' : S} (y : H) (h2 : s'.nH = s.nH) : rank s' y ≤ rank s y + 150 := by
  cases hpc : y.pc <;> simp only [rank, hpc, h2, cM, cA, cB] <;> (repeat' split) <;> omega

theorem T_move {s : S} {h : Nat} {x' : H} (hlt : h < s.nH) (hr : rank s x' < rank s (s.hs h)) :
    T (s.setH h x') < T s := by
  have hw : work (s.setH h x') = work s := rfl
  have hn : (s.setH h x').nH = s.nH := rfl
  unfold T
  rw [hw, hn]
  have := sumTo_upd_eq (n := s.nH) (i := h) (f := fun h' => rank s (s.hs h'))
    (g := fun h' => rank (s.setH h x') ((s.setH h x').hs h')) hlt (by
      intro j _ hne
      show rank (s.setH h x') (setAt s.hs h x' j) = _
      rw [setAt_other _ _ _ _ hne]; rfl)
  have hself : rank (s.setH h x') ((s.setH h x').hs h) = rank s x' := by
    show rank (s.setH h x') (setAt s.hs h x' h) = _
    rw [setAt_same]; rfl
  simp only [hself] at this
  omega


set_option linter.unusedSimpArgs false

macro "rk" h:ident : tactic =>
  `(tactic| (simp only [rank, $h:ident, cM_self, cA_self, cB_self]; omega))

theorem sum_claim (objs : Nat → IdxObj) (n ix : Nat) (o' : IdxObj) (hix : ix < n) (hf : o'.files = (objs ix).files)
    (hc : o'.claimed = (objs ix).claimed + 1) (hlt : (objs ix).claimed < (objs ix).files.length) :
    sumTo n (fun p => (setAt objs ix o' p).files.length - (setAt objs ix o' p).claimed) + 1
      = sumTo n (fun p => (objs p).files.length - (objs p).claimed) := by
  have := sumTo_upd_eq (n := n) (i := ix) (f := fun p => (objs p).files.length - (objs p).claimed)
    (g := fun p => (setAt objs ix o' p).files.length - (setAt objs ix o' p).claimed) hix (by
      intro j _ hne
      show (setAt objs ix o' j).files.length - (setAt objs ix o' j).claimed = _
      rw [setAt_other _ _ _ _ hne])
  have h2 : (setAt objs ix o' ix).files.length - (setAt objs ix o' ix).claimed
      = (objs ix).files.length - ((objs ix).claimed + 1) := by
    rw [setAt_same, hf, hc]
  have this' : sumTo n (fun p => (setAt objs ix o' p).files.length - (setAt objs ix o' p).claimed)
      + ((objs ix).files.length - (objs ix).claimed)
      = sumTo n (fun p => (objs p).files.length - (objs p).claimed)
        + ((setAt objs ix o' ix).files.length - (setAt objs ix o' ix).claimed) := this
  rw [h2] at this'
  omega

theorem work_claim {s : S} {ix : Nat} {o' : IdxObj} (hix : ix < s.nObjs)
    (hlt : (s.objs ix).claimed < (s.objs ix).files.length) (hf : o'.files = (s.objs ix).files)
    (hc : o'.claimed = (s.objs ix).claimed + 1) (hi : o'.init = (s.objs ix).init) :
    work (s.setObj ix o') + 1 = work s := by
  have hp : pPot (s.setObj ix o') = pPot s := by
    unfold pPot
    show (if (setAt s.objs ix o' s.pub).init && (setAt s.objs ix o' s.pub).files == s.disk then 0 else s.disk.length + 1) = _
    by_cases hpi : s.pub = ix
    · rw [hpi, setAt_same, hf, hi]
    · rw [setAt_other _ _ _ _ hpi]
  have := sum_claim s.objs s.nObjs ix o' hix hf hc hlt
  unfold work
  rw [hp]
  show pPot s + sumTo s.nObjs (fun p => (setAt s.objs ix o' p).files.length - (setAt s.objs ix o' p).claimed) + 1 = _
  omega

theorem work_load {s : S} (ix k : Nat) (lf : List Nat) : work (stLoad s ix k lf) = work s := by
  have hp : pPot (stLoad s ix k lf) = pPot s := by
    unfold pPot
    show (if (setAt s.objs ix _ s.pub).init && (setAt s.objs ix _ s.pub).files == s.disk then 0 else s.disk.length + 1) = _
    by_cases hpi : s.pub = ix
    · rw [hpi, setAt_same]; rfl
    · rw [setAt_other _ _ _ _ hpi]
  unfold work
  rw [hp]
  show pPot s + sumTo s.nObjs (fun p => (setAt s.objs ix _ p).files.length - (setAt s.objs ix _ p).claimed) = _
  rw [sumTo_congr (f := fun p => (s.objs p).files.length - (s.objs p).claimed)]
  intro j _
  by_cases hj : j = ix
  · subst hj; rw [setAt_same]; rfl
  · rw [setAt_other _ _ _ _ hj]

theorem work_cons {s : S} (kept : List Nat)
    (hne : ¬((s.objs s.pub).init && (s.objs s.pub).files == s.disk) = true) :
    work (stCons s kept) + 1 = work s := by
  have hp : pPot (stCons s kept) = 0 := by
    unfold pPot
    show (if (setAt s.objs s.nObjs (objNew s.disk kept) s.nObjs).init
            && (setAt s.objs s.nObjs (objNew s.disk kept) s.nObjs).files == s.disk then 0 else s.disk.length + 1) = 0
    rw [setAt_same]
    simp [objNew]
  have hp0 : pPot s = s.disk.length + 1 := by
    unfold pPot; rw [if_neg hne]
  unfold work
  rw [hp, hp0]
  show 0 + sumTo (s.nObjs + 1) (fun p => (setAt s.objs s.nObjs (objNew s.disk kept) p).files.length
      - (setAt s.objs s.nObjs (objNew s.disk kept) p).claimed) + 1 = _
  simp only [sumTo]
  rw [setAt_same]
  rw [sumTo_congr (n := s.nObjs) (f := fun p => (s.objs p).files.length - (s.objs p).claimed)]
  · show 0 + (sumTo s.nObjs _ + (s.disk.length - 0)) + 1 = _
    omega
  · intro j hj
    rw [setAt_other _ _ _ _ (by omega)]

/-- the accounting shared by the three steps that change shared data -/
theorem T_shared {s s1 : S} {h : Nat} {x' : H} (hlt : h < s.nH) (hhs : s1.hs = s.hs) (hnH : s1.nH = s.nH)
    (d : Nat) (hw : work s1 + d = work s)
    (hr : rank s1 x' + 150 * (s.nH - 1) < rank s (s.hs h) + 300 * (s.nH + 2) * d) :
    T (s1.setH h x') < T s := by
  show 300 * (s1.nH + 2) * work s1 + sumTo s1.nH (fun h' => rank (s1.setH h x') ((s1.setH h x').hs h'))
    < 300 * (s.nH + 2) * work s + sumTo s.nH (fun h' => rank s (s.hs h'))
  rw [hnH, ← hw, Nat.mul_add (300 * (s.nH + 2))]
  have := sumTo_upd (n := s.nH) (i := h) (f := fun h' => rank s (s.hs h'))
    (g := fun h' => rank (s1.setH h x') ((s1.setH h x').hs h')) 150 hlt (by
      intro j _ hne
      show rank (s1.setH h x') (setAt s1.hs h x' j) ≤ _
      rw [setAt_other _ _ _ _ hne, hhs]
      exact rank_le _ hnH)
  have hself : rank (s1.setH h x') (setAt s1.hs h x' h) = rank s1 x' := by
    rw [setAt_same]; rfl
  have this' : sumTo s.nH (fun h' => rank (s1.setH h x') ((s1.setH h x').hs h')) + rank s (s.hs h)
      ≤ sumTo s.nH (fun h' => rank s (s.hs h')) + rank (s1.setH h x') (setAt s1.hs h x' h) + 150 * (s.nH - 1) := this
  rw [hself] at this'
  generalize 300 * (s.nH + 2) * work s1 = m
  generalize 300 * (s.nH + 2) * d = e at hr
  omega

theorem T_claim {s : S} {h ix prev : Nat} {o' : IdxObj} {x' : H} (hlt : h < s.nH) (hix : ix < s.nObjs)
    (hpc : (s.hs h).pc = Pc.lnClaim ix prev)
    (hcl : (s.objs ix).claimed < (s.objs ix).files.length) (hf : o'.files = (s.objs ix).files)
    (hc : o'.claimed = (s.objs ix).claimed + 1) (hl : o'.loaded = (s.objs ix).loaded) (hi : o'.init = (s.objs ix).init)
    (hx1 : x'.pc = Pc.lnLoad ix prev (s.objs ix).claimed) (hx2 : x'.mPtr = (s.hs h).mPtr)
    (hx3 : x'.mLoaded = (s.hs h).mLoaded) :
    T ((s.setObj ix o').setH h x') < T s := by
  refine T_shared hlt rfl rfl 1 (work_claim hix hcl hf hc hi) ?_
  have hrc : rank (s.setObj ix o') x' = rank s x' := rank_congr x' rfl rfl (by
    intro p
    show (setAt s.objs ix o' p).loaded = _
    by_cases hp : p = ix
    · subst hp; rw [setAt_same, hl]
    · rw [setAt_other _ _ _ _ hp])
  rw [hrc]
  have e1 : rank s x' = 12 + 150 * (s.nH + 1) + cM s (s.hs h).mPtr (s.hs h).mLoaded + cB s ix + cA s ix prev := by
    unfold rank; simp only [hx1, hx2, hx3]
  have e2 : rank s (s.hs h) = 13 + cM s (s.hs h).mPtr (s.hs h).mLoaded + cB s ix + cA s ix prev := by
    unfold rank; simp only [hpc]
  omega

theorem T_load {s : S} {h ix prev k : Nat} {lf : List Nat} {x' : H} (hlt : h < s.nH)
    (hpc : (s.hs h).pc = Pc.lnLoad ix prev k) (hx : x'.pc = Pc.lnEnd ix prev ∨ x'.pc = Pc.lnInner ix prev) :
    T ((stLoad s ix k lf).setH h x') < T s := by
  refine T_shared (s1 := stLoad s ix k lf) hlt rfl rfl 0 (work_load ix k lf) ?_
  have b1 := cM_le (stLoad s ix k lf) x'.mPtr x'.mLoaded
  have b2 := cA_le (stLoad s ix k lf) ix prev
  have b3 := cB_le (stLoad s ix k lf) ix
  have hb : rank (stLoad s ix k lf) x' ≤ 164 := by
    rcases hx with hx | hx <;> simp only [rank, hx] <;> omega
  have hr : 12 + 150 * (s.nH + 1) ≤ rank s (s.hs h) := by
    simp only [rank, hpc]; omega
  omega

theorem T_cons {s : S} {h ix : Nat} {kept : List Nat} {x' : H} (hlt : h < s.nH)
    (hpc : (s.hs h).pc = Pc.cons ix)
    (hne : ¬((s.objs s.pub).init && (s.objs s.pub).files == s.disk) = true) (hx : x'.pc = Pc.collLoad) :
    T ((stCons s kept).setH h x') < T s := by
  refine T_shared (s1 := stCons s kept) hlt rfl rfl 1 (work_cons kept hne) ?_
  have hb : rank (stCons s kept) x' = 20 := by simp only [rank, hx]
  have hr : 10 ≤ rank s (s.hs h) := by simp only [rank, hpc]; omega
  omega

theorem step_T {s s' : S} {ev : Ev} (inv : Inv s) (hl : ev.isLookup = true) (hs : step s ev = some s') :
    T s' < T s := by
  have hcfg := inv.g.cfg
  cases ev with
  | envAdd objs => cases hl
  | envRemove f => cases hl
  | newHandle => cases hl
  | start h o => cases hl
  | scan h =>
    simp only [step] at hs
    split at hs
    · rename_i hpc
      have hlt := inv.lt_of_pc h (by rw [hpc]; intro hp; cases hp)
      split at hs <;> cases hs <;> exact T_move hlt (by rk hpc)
    · cases hs
  | loi h =>
    simp only [step] at hs
    split at hs
    · rename_i hpc
      have hlt := inv.lt_of_pc h (by rw [hpc]; intro hp; cases hp)
      split at hs
      · cases hs; exact T_move hlt (by rk hpc)
      · split at hs
        · rename_i hm
          cases hs
          have hm' : ¬((s.hs h).mPtr = s.pub ∧ (s.hs h).mLoaded = (s.objs s.pub).loaded) := by
            intro hc; rw [hc.1, hc.2] at hm; simp at hm
          have e := cM_stale s _ _ hm'
          exact T_move hlt (by rk hpc)
        · cases hs; exact T_move hlt (by rk hpc)
    · cases hs
  | lnStart h =>
    simp only [step] at hs
    split at hs
    · rename_i ix hpc
      have hlt := inv.lt_of_pc h (by rw [hpc]; intro hp; cases hp)
      cases hs; exact T_move hlt (by rk hpc)
    · cases hs
  | announce h =>
    simp only [step] at hs
    split at hs
    · rename_i ix prev hpc
      have hlt := inv.lt_of_pc h (by rw [hpc]; intro hp; cases hp)
      cases hs; exact T_move hlt (by rk hpc)
    · rename_i ix prev k hpc
      exact absurd hpc ((inv.h h).noLate ix prev k)
    · cases hs
  | wait h =>
    simp only [step] at hs
    split at hs
    · rename_i ix prev hpc
      have hlt := inv.lt_of_pc h (by rw [hpc]; intro hp; cases hp)
      split at hs
      · cases hs; exact T_move hlt (by rk hpc)
      · cases hs
    · cases hs
  | lnEnd h =>
    simp only [step] at hs
    split at hs
    · rename_i ix prev hpc
      have hlt := inv.lt_of_pc h (by rw [hpc]; intro hp; cases hp)
      split at hs
      · rename_i hprev
        cases hs
        have hprev' : prev ≠ (s.objs ix).loaded := by simpa using hprev
        have e := cA_stale s ix prev hprev'
        exact T_move hlt (by rk hpc)
      · split at hs
        · rename_i hpub
          cases hs
          have hpub' : s.pub ≠ ix := by simpa using hpub
          have e := cB_ne s ix hpub'
          exact T_move hlt (by rk hpc)
        · cases hs; exact T_move hlt (by rk hpc)
    · cases hs
  | recheck h =>
    simp only [step] at hs
    split at hs
    · rename_i ix hpc
      have hlt := inv.lt_of_pc h (by rw [hpc]; intro hp; cases hp)
      split at hs
      · rename_i hm
        cases hs
        have hm' : ¬((s.hs h).mPtr = s.pub ∧ (s.hs h).mLoaded = (s.objs s.pub).loaded) := by
          intro hc; rw [hc.1, hc.2] at hm; simp at hm
        have e := cM_stale s _ _ hm'
        exact T_move hlt (by rk hpc)
      · cases hs; exact T_move hlt (by rk hpc)
    · cases hs
  | collLoad h =>
    simp only [step] at hs
    split at hs
    · rename_i hpc
      have hlt := inv.lt_of_pc h (by rw [hpc]; intro hp; cases hp)
      cases hs; exact T_move hlt (by rk hpc)
    · cases hs
  | collMarker h =>
    simp only [step] at hs
    split at hs
    · rename_i ix hpc
      have hlt := inv.lt_of_pc h (by rw [hpc]; intro hp; cases hp)
      split at hs
      · cases hs
        by_cases hp : s.pub = ix
        · subst hp; exact T_move hlt (by rk hpc)
        · have e := cB_ne s ix hp
          have e2 := cM_le s ix (s.objs ix).loaded
          exact T_move hlt (by rk hpc)
      · cases hs
    · cases hs
  | collRead h =>
    simp only [step] at hs
    split at hs
    · rename_i ix hpc
      have hlt := inv.lt_of_pc h (by rw [hpc]; intro hp; cases hp)
      cases hs; exact T_move hlt (by rk hpc)
    · cases hs
  | claim h =>
    simp only [step] at hs
    split at hs
    · rename_i ix prev hpc
      have hlt := inv.lt_of_pc h (by rw [hpc]; intro hp; cases hp)
      have hixlt : ix < s.nObjs := (inv.h h).ixLt ix (by rw [hpc]; rfl)
      have ha : s.cfg.announceFirst = true := by rw [hcfg]; rfl
      split at hs
      · rename_i hcl
        try simp only [ha, if_true] at hs
        cases hs
        exact T_claim hlt hixlt hpc hcl rfl rfl rfl rfl rfl rfl rfl
      · cases hs; exact T_move hlt (by rk hpc)
    · cases hs
  | load h =>
    simp only [step] at hs
    split at hs
    · rename_i ix prev k hpc
      have hlt := inv.lt_of_pc h (by rw [hpc]; intro hp; cases hp)
      cases hs
      generalize hlf : (if ((s.loadedFiles.contains ((s.objs ix).files.getD k 0) || s.disk.contains ((s.objs ix).files.getD k 0)) &&
            !s.loadedFiles.contains ((s.objs ix).files.getD k 0)) = true then (s.objs ix).files.getD k 0 :: s.loadedFiles
          else s.loadedFiles) = lf
      refine T_load (lf := lf) hlt hpc ?_
      show (if _ then _ else _) = _ ∨ (if _ then _ else _) = _
      split
      · exact Or.inl rfl
      · exact Or.inr rfl
    · cases hs
  | cons h =>
    simp only [step] at hs
    split at hs
    · rename_i ix hpc
      have hlt := inv.lt_of_pc h (by rw [hpc]; intro hp; cases hp)
      split at hs
      · rename_i hpub
        cases hs
        have hpub' : s.pub ≠ ix := by simpa using hpub
        have e := cB_ne s ix hpub'
        exact T_move hlt (by rk hpc)
      · rename_i hpub
        have hpub' : s.pub = ix := by simpa using hpub
        split at hs
        · have hr : s.cfg.recheckMarker = true := by rw [hcfg]; rfl
          try simp only [hr, if_true] at hs
          cases hs; exact T_move hlt (by rk hpc)
        · rename_i hne
          cases hs
          generalize hkept : (s.loadedFiles.filter fun f => s.disk.contains f) = kept
          exact T_cons (kept := kept) hlt hpc (by rw [hpub']; exact hne) rfl
    · cases hs

end GixModel.C12.Live
