import GixModel.Lemmas.C12b
/-
C12 — what a reader may rely on: `Keeps s k id g` ("slot `k` still holds installation `id`, or its
generation is beyond `g`") and its preservation by every step (the one-step form of
`slot_identity_stable_within_generation`).
-/
namespace GixModel.C12

def Keeps (s : Sys) (k : Nat) (id : Ident) (g : Nat) : Prop :=
  (∃ b, (s.slots k).files = some b ∧ b.ident = id) ∨ g < (s.slots k).gen

def KeepsOpt (s : Sys) (k : Nat) (p : Option Bundle) (g : Nat) : Prop :=
  match p with
  | some b => Keeps s k b.ident g
  | none => g < (s.slots k).gen

/-- while a consolidation that published a *new* generation is still clearing slots, a reader that
already holds the new generation only knows slots of the new slot map index -/
def Safe (s : Sys) (k g : Nat) : Prop :=
  ∀ c, s.cons = some c → c.published = true → c.newGen = c.G + 1 → g = s.pubGen → k ∈ s.pubSlots

theorem Keeps.of_eq {s s' : Sys} {k g : Nat} {id : Ident} (h : s'.slots = s.slots) (hk : Keeps s k id g) :
    Keeps s' k id g := by unfold Keeps at *; rw [h]; exact hk

theorem Safe.of_eq {s s' : Sys} {k g : Nat} (h1 : s'.cons = s.cons) (h2 : s'.pubGen = s.pubGen)
    (h3 : s'.pubSlots = s.pubSlots) (hk : Safe s k g) : Safe s' k g := by
  unfold Safe at *; rw [h1, h2, h3]; exact hk

/-- the files of a slot keep their identity across a step, or the slot's generation ends up beyond
every generation `g` a reader could hold -/
theorem files_step {s s' : Sys} {ev : Ev} (inv : InvS s) (hs : step s ev = some s') {k g : Nat}
    (hg : g ≤ s.pubGen) (hsafe : Safe s k g) (b : Bundle) (hb : (s.slots k).files = some b) :
    (∃ b', (s'.slots k).files = some b' ∧ b'.ident = b.ident) ∨ g < (s'.slots k).gen := by
  have same : ∀ {t : Sys}, t.slots = s.slots →
      (∃ b', (t.slots k).files = some b' ∧ b'.ident = b.ident) ∨ g < (t.slots k).gen := by
    intro t ht; left; rw [ht]; exact ⟨b, hb, rfl⟩
  cases ev with
  | envAdd f o => exact same (inv_env hs (Or.inl ⟨f, o, rfl⟩)).2.1
  | envRemove f => exact same (inv_env hs (Or.inr (Or.inl ⟨f, rfl⟩))).2.1
  | envAddLoose o => exact same (inv_env hs (Or.inr (Or.inr (Or.inl ⟨o, rfl⟩)))).2.1
  | envRemoveLoose o => exact same (inv_env hs (Or.inr (Or.inr (Or.inr (Or.inl ⟨o, rfl⟩))))).2.1
  | newHandle => exact same (inv_env hs (Or.inr (Or.inr (Or.inr (Or.inr rfl))))).2.1
  | collBegin h => obtain ⟨_, _, rfl⟩ := inv_collBegin hs; exact same rfl
  | collSlot h => obtain ⟨c, k', rest, _, _, rfl⟩ := inv_collSlot hs; exact same rfl
  | collEnd h => obtain ⟨c, _, _, rfl⟩ := inv_collEnd hs; exact same rfl
  | promote h i => obtain ⟨_, _, rfl⟩ := inv_promote hs; exact same rfl
  | retCached h i => obtain ⟨e, p, _, _, rfl⟩ := inv_retCached hs; exact same rfl
  | lp1 h i => obtain ⟨_, _, rfl | rfl⟩ := inv_lp1 hs <;> exact same rfl
  | lp2 h => obtain ⟨i, e, _, _, rfl⟩ := inv_lp2 hs; exact same rfl
  | lp3 h => obtain ⟨i, p, e, _, _, ⟨_, rfl⟩ | ⟨_, rfl⟩⟩ := inv_lp3 hs <;> exact same rfl
  | lp4 h =>
    obtain ⟨i, p, e, _, _, ⟨_, rfl⟩ | ⟨b0, _, rfl⟩ | ⟨b0, _, rfl⟩⟩ := inv_lp4 hs <;> exact same rfl
  | lp5 h =>
    obtain ⟨i, b0, e, _, _, rfl | ⟨_, _, rfl⟩ | ⟨b', hre, hf, rfl | rfl | rfl⟩⟩ := inv_lp5 hs
    · exact same rfl
    · exact same rfl
    · exact same rfl
    · left
      by_cases hj : k = e.slot
      · subst hj; rw [hf] at hb; cases hb; exact ⟨b.setPackAt e.pk LoadSt.loaded, by simp, by simp⟩
      · exact ⟨b, by simpa [hj] using hb, rfl⟩
    · left
      by_cases hj : k = e.slot
      · subst hj; rw [hf] at hb; cases hb; exact ⟨b.setPackAt e.pk LoadSt.missing, by simp, by simp⟩
      · exact ⟨b, by simpa [hj] using hb, rfl⟩
  | loadIdx k' gIx =>
    obtain ⟨_, _, rfl | ⟨b0, b1, _, hf, hid, rfl⟩⟩ := inv_loadIdx hs
    · exact same rfl
    · left
      by_cases hj : k = k'
      · subst hj; rw [hf] at hb; cases hb; exact ⟨b1, by simp, hid⟩
      · exact ⟨b, by simpa [hj] using hb, rfl⟩
  | consBegin h => obtain ⟨_, rfl⟩ := inv_consBegin hs; exact same rfl
  | consSetGen k' =>
    obtain ⟨c, hc, hpub, hpend, ⟨hf, rfl⟩ | ⟨hf, rfl⟩⟩ := inv_consSetGen hs <;>
    · left
      by_cases hj : k = k'
      · subst hj; exact ⟨b, by simpa using hb, rfl⟩
      · exact ⟨b, by simpa [hj] using hb, rfl⟩
  | consSetFiles k' file multi =>
    obtain ⟨c, hc, hpub, hpend, rfl⟩ := inv_consSetFiles hs
    by_cases hj : k = k'
    · subst hj
      right
      rcases inv.pend c k hc hpend hpub with h | h
      · rw [hb] at h; cases h
      · have hG := (inv.consG c hc).1 hpub
        simp; omega
    · left; exact ⟨b, by simpa [hj] using hb, rfl⟩
  | consSetFilesM k' file extra =>
    obtain ⟨c, hc, hpub, hpend, rfl⟩ := inv_consSetFilesM hs
    by_cases hj : k = k'
    · subst hj
      right
      rcases inv.pend c k hc hpend hpub with h | h
      · rw [hb] at h; cases h
      · have hG := (inv.consG c hc).1 hpub
        simp; omega
    · left; exact ⟨b, by simpa [hj] using hb, rfl⟩
  | consPutBack k' =>
    obtain ⟨c, b0, hc, hpub, hpend, hf, hd, rfl⟩ := inv_consPutBack hs
    left
    by_cases hj : k = k'
    · subst hj; rw [hf] at hb; cases hb; exact ⟨b.putBack, by simp, rfl⟩
    · exact ⟨b, by simpa [hj] using hb, rfl⟩
  | consPublish slots bump => obtain ⟨c, _, _, _, rfl⟩ := inv_consPublish hs; exact same rfl
  | consTrash k' =>
    obtain ⟨c, hc, hpub, hpend, rfl | ⟨b0, hf, rfl⟩⟩ := inv_consTrash hs
    · exact same rfl
    · left
      by_cases hj : k = k'
      · subst hj; rw [hf] at hb; cases hb; exact ⟨b.trash, by simp, rfl⟩
      · exact ⟨b, by simpa [hj] using hb, rfl⟩
  | consClearGen k' =>
    obtain ⟨c, hc, hpub, hpend, hnot, hbump, rfl⟩ := inv_consClearGen hs
    left
    by_cases hj : k = k'
    · subst hj; exact ⟨b, by simpa using hb, rfl⟩
    · exact ⟨b, by simpa [hj] using hb, rfl⟩
  | consClearFiles k' =>
    obtain ⟨c, hc, hpub, hpend, rfl⟩ := inv_consClearFiles hs
    by_cases hj : k = k'
    · subst hj
      right
      obtain ⟨h1, h2, h3⟩ := inv.pendPub c k hc hpend hpub
      have hN := (inv.consG c hc).2 hpub
      have hne : g ≠ s.pubGen := fun he => h3 (hsafe c hc hpub h2 he)
      simp; omega
    · left; exact ⟨b, by simpa [hj] using hb, rfl⟩
  | consEnd => obtain ⟨c, _, _, _, rfl⟩ := inv_consEnd hs; exact same rfl

theorem keeps_step {s s' : Sys} {ev : Ev} (inv : InvS s) (hs : step s ev = some s') {k g : Nat} {id : Ident}
    (hg : g ≤ s.pubGen) (hsafe : Safe s k g) (hk : Keeps s k id g) : Keeps s' k id g := by
  rcases hk with ⟨b, hb, hid⟩ | hgt
  · rcases files_step inv hs hg hsafe b hb with ⟨b', hb', hid'⟩ | h
    · left; exact ⟨b', hb', hid'.trans hid⟩
    · right; exact h
  · right; exact Nat.lt_of_lt_of_le hgt ((step_gen_mono inv hs).1 k)

theorem keepsOpt_step {s s' : Sys} {ev : Ev} (inv : InvS s) (hs : step s ev = some s') {k g : Nat}
    {p : Option Bundle} (hg : g ≤ s.pubGen) (hsafe : Safe s k g) (hk : KeepsOpt s k p g) :
    KeepsOpt s' k p g := by
  cases p with
  | some b => exact keeps_step inv hs hg hsafe hk
  | none => exact Nat.lt_of_lt_of_le hk ((step_gen_mono inv hs).1 k)

theorem safe_step {s s' : Sys} {ev : Ev} (inv : InvS s) (hs : step s ev = some s') {k g : Nat}
    (hg : g ≤ s.pubGen) (hsafe : Safe s k g) : Safe s' k g := by
  have upd : ∀ {t : Sys} (c : Cons), s.cons = some c →
      (∃ c', t.cons = some c' ∧ c'.published = c.published ∧ c'.newGen = c.newGen ∧ c'.G = c.G) →
      t.pubGen = s.pubGen → t.pubSlots = s.pubSlots → Safe t k g := by
    intro t c hc ⟨c', hc', h1, h2, h3⟩ hpg hps c'' hc'' hp hn hgg
    rw [hc'] at hc''; cases hc''
    rw [hps]; exact hsafe c hc (h1 ▸ hp) (by rw [← h2, ← h3]; exact hn) (by rw [← hpg]; exact hgg)
  cases ev with
  | envAdd f o => have h := inv_env hs (Or.inl ⟨f, o, rfl⟩); exact hsafe.of_eq h.2.2.2.2.2.1 h.2.2.1 h.2.2.2.1
  | envRemove f => have h := inv_env hs (Or.inr (Or.inl ⟨f, rfl⟩)); exact hsafe.of_eq h.2.2.2.2.2.1 h.2.2.1 h.2.2.2.1
  | envAddLoose o =>
    have h := inv_env hs (Or.inr (Or.inr (Or.inl ⟨o, rfl⟩))); exact hsafe.of_eq h.2.2.2.2.2.1 h.2.2.1 h.2.2.2.1
  | envRemoveLoose o =>
    have h := inv_env hs (Or.inr (Or.inr (Or.inr (Or.inl ⟨o, rfl⟩)))); exact hsafe.of_eq h.2.2.2.2.2.1 h.2.2.1 h.2.2.2.1
  | newHandle =>
    have h := inv_env hs (Or.inr (Or.inr (Or.inr (Or.inr rfl)))); exact hsafe.of_eq h.2.2.2.2.2.1 h.2.2.1 h.2.2.2.1
  | collBegin h => obtain ⟨_, _, rfl⟩ := inv_collBegin hs; exact hsafe.of_eq rfl rfl rfl
  | collSlot h => obtain ⟨c, k', rest, _, _, rfl⟩ := inv_collSlot hs; exact hsafe.of_eq rfl rfl rfl
  | collEnd h => obtain ⟨c, _, _, rfl⟩ := inv_collEnd hs; exact hsafe.of_eq rfl rfl rfl
  | promote h i => obtain ⟨_, _, rfl⟩ := inv_promote hs; exact hsafe.of_eq rfl rfl rfl
  | retCached h i => obtain ⟨e, p, _, _, rfl⟩ := inv_retCached hs; exact hsafe.of_eq rfl rfl rfl
  | lp1 h i => obtain ⟨_, _, rfl | rfl⟩ := inv_lp1 hs <;> exact hsafe.of_eq rfl rfl rfl
  | lp2 h => obtain ⟨i, e, _, _, rfl⟩ := inv_lp2 hs; exact hsafe.of_eq rfl rfl rfl
  | lp3 h => obtain ⟨i, p, e, _, _, ⟨_, rfl⟩ | ⟨_, rfl⟩⟩ := inv_lp3 hs <;> exact hsafe.of_eq rfl rfl rfl
  | lp4 h =>
    obtain ⟨i, p, e, _, _, ⟨_, rfl⟩ | ⟨b0, _, rfl⟩ | ⟨b0, _, rfl⟩⟩ := inv_lp4 hs <;>
      exact hsafe.of_eq rfl rfl rfl
  | lp5 h =>
    obtain ⟨i, b0, e, _, _, rfl | ⟨_, _, rfl⟩ | ⟨b', hre, hf, rfl | rfl | rfl⟩⟩ := inv_lp5 hs <;>
      exact hsafe.of_eq rfl rfl rfl
  | loadIdx k' gIx =>
    obtain ⟨_, _, rfl | ⟨b0, b1, _, hf, _, rfl⟩⟩ := inv_loadIdx hs <;> exact hsafe.of_eq rfl rfl rfl
  | consBegin h =>
    obtain ⟨_, rfl⟩ := inv_consBegin hs
    intro c hc hp; cases hc; cases hp
  | consSetGen k' =>
    obtain ⟨c, hc, hpub, hpend, ⟨hf, rfl⟩ | ⟨hf, rfl⟩⟩ := inv_consSetGen hs
    · exact upd c hc ⟨_, rfl, rfl, rfl, rfl⟩ rfl rfl
    · exact upd c hc ⟨_, rfl, rfl, rfl, rfl⟩ rfl rfl
  | consSetFiles k' file multi =>
    obtain ⟨c, hc, hpub, hpend, rfl⟩ := inv_consSetFiles hs
    exact upd c hc ⟨_, rfl, rfl, rfl, rfl⟩ rfl rfl
  | consSetFilesM k' file extra =>
    obtain ⟨c, hc, hpub, hpend, rfl⟩ := inv_consSetFilesM hs
    exact upd c hc ⟨_, rfl, rfl, rfl, rfl⟩ rfl rfl
  | consPutBack k' =>
    obtain ⟨c, b0, hc, hpub, hpend, hf, hd, rfl⟩ := inv_consPutBack hs
    exact hsafe.of_eq rfl rfl rfl
  | consPublish slots bump =>
    obtain ⟨c, hc, hpub, hpend, rfl⟩ := inv_consPublish hs
    have hG := (inv.consG c hc).1 hpub
    intro c' hc' _ hn hgg
    cases hc'
    simp only [] at hn hgg
    omega
  | consTrash k' =>
    obtain ⟨c, hc, hpub, hpend, rfl | ⟨b0, hf, rfl⟩⟩ := inv_consTrash hs <;> exact hsafe.of_eq rfl rfl rfl
  | consClearGen k' =>
    obtain ⟨c, hc, hpub, hpend, hnot, hbump, rfl⟩ := inv_consClearGen hs
    exact upd c hc ⟨_, rfl, rfl, rfl, rfl⟩ rfl rfl
  | consClearFiles k' =>
    obtain ⟨c, hc, hpub, hpend, rfl⟩ := inv_consClearFiles hs
    exact upd c hc ⟨_, rfl, rfl, rfl, rfl⟩ rfl rfl
  | consEnd =>
    obtain ⟨c, _, _, _, rfl⟩ := inv_consEnd hs
    intro c' hc'; cases hc'

end GixModel.C12
