import GixModel.Model.C42
/-
Helper lemmas for C42: the inductive invariant `Inv` tying `valid_components`,
`current_is_directory`, `root_is_pushed` and the delegate's call log together, its preservation
by every part of `make_relative_path_current` for an arbitrary delegate, and the description of
where `current` ends up. Also: the proved witnesses that the code BEFORE the repair was not
balanced (`Legacy`).
-/
namespace GixModel.C42
open GixModel

/-- a path (deepest first) as the component sequence `Path::components()` would give, root side first -/
def asComps (p : RPath) : List Comp := p.reverse.map Comp.normal

/-- what holds between calls -/
structure Inv (s : Stack) (log : List Ev) : Prop where
  cur_eq : s.current = s.currentRel
  valid_eq : s.valid = s.currentRel.length
  bal : replayLog log = some (openDirsOf s)
  root : s.rootPushed = false → s.currentRel = []
  dir : s.currentRel = [] → s.isDir = true

/-- what holds inside a call once the root is announced (`valid` is stale during the pop loop) -/
structure Core (s : Stack) (log : List Ev) : Prop where
  cur_eq : s.current = s.currentRel
  bal : replayLog log = some (openDirsOf s)
  root : s.rootPushed = true
  dir : s.currentRel = [] → s.isDir = true

theorem Core.toInv {s : Stack} {log : List Ev} (h : Core s log) (hv : s.valid = s.currentRel.length) :
    Inv s log :=
  ⟨h.cur_eq, hv, h.bal, fun hr => (by rw [h.root] at hr; cases hr), h.dir⟩

theorem inv_new : Inv Stack.new [] :=
  ⟨rfl, rfl, rfl, fun _ => rfl, fun _ => rfl⟩

theorem dirChain_cons (c : Bytes) (p : RPath) : dirChain (c :: p) = (c :: p) :: dirChain p := rfl

theorem dirChain_length (p : RPath) : (dirChain p).length = p.length + 1 := by
  induction p with
  | nil => rfl
  | cons c p ih => simp [dirChain, ih]

/-! ### the pop loop -/

theorem popLoop_core (k : Nat) : ∀ (s : Stack) (log : List Ev), Core s log → k ≤ s.currentRel.length →
    Core (popLoop k s log).1 (popLoop k s log).2
    ∧ (popLoop k s log).1.currentRel = s.currentRel.drop k
    ∧ (popLoop k s log).1.valid = s.valid
    ∧ ((popLoop k s log).1.isDir = false → k = 0 ∧ s.isDir = false) := by
  induction k with
  | zero =>
    intro s log h _
    exact ⟨h, rfl, rfl, fun hd => ⟨rfl, hd⟩⟩
  | succ k ih =>
    intro s log h hk
    obtain ⟨cur, rel, valid, isDir, rootPushed⟩ := s
    have hcur := h.cur_eq
    have hroot := h.root
    have hbal := h.bal
    simp only at hcur hroot hk
    subst hcur hroot
    cases cur with
    | nil => simp at hk
    | cons c r =>
      simp only [List.length_cons] at hk
      simp only [popLoop, List.tail_cons, List.drop_succ_cons]
      have hcore : Core (⟨r, r, valid, true, true⟩ : Stack)
          (if isDir = true then Ev.popDir (c :: r) :: log else log) := by
        refine ⟨rfl, ?_, rfl, fun _ => rfl⟩
        cases isDir with
        | true =>
          simp only [openDirsOf, Bool.not_true, Bool.false_eq_true, if_false, if_true, dirChain_cons] at hbal ⊢
          simp only [replayLog, hbal, if_true]
        | false =>
          simp only [openDirsOf, Bool.not_true, Bool.false_eq_true, if_false, if_true, List.tail_cons] at hbal ⊢
          exact hbal
      obtain ⟨h1, h2, h3, h4⟩ := ih _ _ hcore (by simpa using (by omega : k ≤ r.length))
      refine ⟨h1, h2, h3, ?_⟩
      intro hd
      have := (h4 hd).2
      simp at this

/-! ### the push loop -/

theorem asComps_cons (n : Bytes) (p : RPath) : asComps (n :: p) = asComps p ++ [Comp.normal n] := by
  simp [asComps]

theorem pushLoop_spec (d : Delegate) (comps : List Comp) : ∀ (s : Stack) (log : List Ev), Core s log →
    s.valid = s.currentRel.length → (comps ≠ [] → s.isDir = true) →
    Inv (pushLoop d comps s log).s (pushLoop d comps s log).log
    ∧ asComps (pushLoop d comps s log).s.currentRel <+: asComps s.currentRel ++ comps
    ∧ ((pushLoop d comps s log).out = .ok →
        asComps (pushLoop d comps s log).s.currentRel = asComps s.currentRel ++ comps)
    ∧ (pushLoop d comps s log).out ≠ .panic
    ∧ (pushLoop d comps s log).out ≠ .errEmpty := by
  induction comps with
  | nil =>
    intro s log h hv _
    simp only [pushLoop, List.append_nil]
    exact ⟨h.toInv hv, List.prefix_refl _, fun _ => trivial, by simp, by simp⟩
  | cons c rest ih =>
    intro s log h hv hdir
    have hd : s.isDir = true := hdir (by simp)
    obtain ⟨cur, rel, valid, isDir, rootPushed⟩ := s
    have hcur := h.cur_eq
    have hroot := h.root
    have hbal := h.bal
    simp only at hcur hroot hd hv
    subst hcur hroot hd hv
    simp only [openDirsOf, Bool.not_true, Bool.false_eq_true, if_false, if_true] at hbal
    have hsame : Inv (⟨cur, cur, cur.length, true, true⟩ : Stack) log := h.toInv rfl
    cases c with
    | normal n =>
      simp only [pushLoop]
      -- the state with the component pushed and rolled back again is the state we came from
      have hroll : ∀ b : Bool, rollback (⟨n :: cur, n :: cur, cur.length + 1, b, true⟩ : Stack)
          = (⟨cur, cur, cur.length, true, true⟩ : Stack) := by
        intro b; simp [rollback]
      have hpre : asComps cur <+: asComps cur ++ Comp.normal n :: rest := List.prefix_append _ _
      cases hP : d.pushOk log (n :: cur) rest.isEmpty with
      | false =>
        simp only [Bool.false_eq_true, if_false, hroll]
        refine ⟨?_, hpre, by simp, by simp, by simp⟩
        exact ⟨rfl, rfl, by simpa [replayLog, openDirsOf] using hbal, fun h => (by cases h), fun _ => rfl⟩
      | true =>
        simp only [if_true]
        cases hL : rest.isEmpty with
        | true =>
          simp only [if_true]
          have hrest : rest = [] := List.isEmpty_iff.mp hL
          subst hrest
          have hcore : Core (⟨n :: cur, n :: cur, cur.length + 1, !true, true⟩ : Stack)
              (Ev.push (n :: cur) true true :: log) := by
            refine ⟨rfl, ?_, rfl, fun h => by cases h⟩
            simpa [replayLog, openDirsOf] using hbal
          obtain ⟨i1, i2, i3, i4, i5⟩ := ih _ _ hcore (by simp) (by simp)
          refine ⟨i1, ?_, ?_, i4, i5⟩
          · simpa [asComps_cons] using i2
          · simpa [asComps_cons] using i3
        | false =>
          simp only [Bool.false_eq_true, if_false]
          cases hD : d.pushDirOk (Ev.push (n :: cur) false true :: log) (n :: cur) with
          | false =>
            simp only [Bool.false_eq_true, if_false, hroll]
            refine ⟨?_, hpre, by simp, by simp, by simp⟩
            exact ⟨rfl, rfl, by simpa [replayLog, openDirsOf] using hbal, fun h => (by cases h), fun _ => rfl⟩
          | true =>
            simp only [if_true]
            have hcore : Core (⟨n :: cur, n :: cur, cur.length + 1, !false, true⟩ : Stack)
                (Ev.pushDir (n :: cur) true :: Ev.push (n :: cur) false true :: log) := by
              refine ⟨rfl, ?_, rfl, fun h => by cases h⟩
              simp [replayLog, openDirsOf, hbal, dirChain_cons]
            obtain ⟨i1, i2, i3, i4, i5⟩ := ih _ _ hcore (by simp) (by simp)
            refine ⟨i1, ?_, ?_, i4, i5⟩
            · simpa [asComps_cons] using i2
            · simpa [asComps_cons] using i3
    | parentDir =>
      simp only [pushLoop]
      exact ⟨hsame, List.prefix_append _ _, by simp, by simp, by simp⟩
    | rootDir =>
      simp only [pushLoop]
      exact ⟨hsame, List.prefix_append _ _, by simp, by simp, by simp⟩
    | curDir =>
      simp only [pushLoop]
      exact ⟨hsame, List.prefix_append _ _, by simp, by simp, by simp⟩

/-! ### the matching loop -/

theorem matching_spec : ∀ (ex : List Bytes) (cs : List Comp),
    (matching ex cs).1 ≤ ex.length
    ∧ cs = (ex.take (matching ex cs).1).map Comp.normal ++ (matching ex cs).2 := by
  intro ex
  induction ex with
  | nil => intro cs; simp [matching]
  | cons e es ih =>
    intro cs
    cases cs with
    | nil => simp [matching]
    | cons c cs =>
      by_cases hc : Comp.normal e = c
      · obtain ⟨h1, h2⟩ := ih cs
        simp only [matching, hc, if_true, List.length_cons, List.take_succ_cons, List.map_cons,
          List.cons_append]
        refine ⟨by omega, ?_⟩
        rw [← h2]
      · simp [matching, hc]

theorem reverse_drop_sub (l : List Bytes) (m : Nat) (hm : m ≤ l.length) :
    (l.drop (l.length - m)).reverse = l.reverse.take m := by
  rw [List.reverse_drop]
  congr 1
  omega

/-! ### the whole call -/

/-- where `current_relative` is after a call, relative to the path asked for -/
def Lands (p : Bytes) (before after : Stack) (out : Outcome) : Prop :=
  (out = .ok → asComps after.currentRel = components p)
  ∧ (out ≠ .ok → after.currentRel = before.currentRel ∨ asComps after.currentRel <+: components p)

theorem afterRoot_spec (d : Delegate) (p : Bytes) (s : Stack) (log : List Ev) (h : Core s log)
    (hv : s.valid = s.currentRel.length) :
    Inv (afterRoot d p s log).s (afterRoot d p s log).log
    ∧ asComps (afterRoot d p s log).s.currentRel <+: components p
    ∧ ((afterRoot d p s log).out = .ok → asComps (afterRoot d p s log).s.currentRel = components p)
    ∧ (afterRoot d p s log).out ≠ .panic
    ∧ (afterRoot d p s log).out ≠ .errEmpty := by
  obtain ⟨hm1, hm2⟩ := matching_spec s.currentRel.reverse (components p)
  simp only [List.length_reverse] at hm1
  unfold afterRoot
  simp only
  have hnot : ¬ (matching s.currentRel.reverse (components p)).1 > s.valid := by omega
  simp only [hnot, if_false]
  generalize hmm : matching s.currentRel.reverse (components p) = m at *
  obtain ⟨k1, k2, k3, k4⟩ := popLoop_core (s.valid - m.1) s log h (by omega)
  generalize hpl : popLoop (s.valid - m.1) s log = pl at *
  obtain ⟨s1, log1⟩ := pl
  simp only at k1 k2 k3 k4 ⊢
  -- the kept part is exactly the matched prefix
  have hkept : asComps s1.currentRel = (s.currentRel.reverse.take m.1).map Comp.normal := by
    rw [k2, hv]
    simp only [asComps]
    rw [reverse_drop_sub _ _ hm1]
  have hlen : s1.currentRel.length = m.1 := by
    rw [k2, List.length_drop]; omega
  have hcore2 : Core { s1 with valid := m.1 } log1 :=
    ⟨k1.cur_eq, by simpa [openDirsOf] using k1.bal, k1.root, k1.dir⟩
  by_cases hbr : (!s1.isDir && !m.2.isEmpty) = true
  · simp only [hbr, if_true]
    simp only [Bool.and_eq_true, Bool.not_eq_true'] at hbr
    obtain ⟨hd, hne⟩ := hbr
    have hrelne : s1.currentRel ≠ [] := by
      intro he
      have := k1.dir he
      rw [hd] at this; cases this
    cases hD : d.pushDirOk log1 s1.currentRel with
    | false =>
      simp only [Bool.false_eq_true, if_false]
      refine ⟨?_, ?_, by simp, by simp, by simp⟩
      · refine (Core.toInv ?_ (by simp [hlen]))
        exact ⟨k1.cur_eq, by simpa [replayLog, openDirsOf] using k1.bal, k1.root, k1.dir⟩
      · rw [hm2]
        simp only [hkept]
        exact List.prefix_append _ _
    | true =>
      simp only [if_true]
      have hcore3 : Core { s1 with valid := m.1, isDir := true } (Ev.pushDir s1.currentRel true :: log1) := by
        refine ⟨k1.cur_eq, ?_, k1.root, fun _ => rfl⟩
        have hb := k1.bal
        obtain ⟨c, r, hcr⟩ := List.exists_cons_of_ne_nil hrelne
        simp only [openDirsOf, k1.root, hd, Bool.not_true, Bool.false_eq_true, if_false, hcr,
          List.tail_cons] at hb
        simp [replayLog, openDirsOf, k1.root, hb, hcr, dirChain_cons]
      obtain ⟨i1, i2, i3, i4, i5⟩ := pushLoop_spec d m.2 _ _ hcore3 (by simp [hlen]) (fun _ => rfl)
      simp only [hkept] at i2 i3
      rw [← hm2] at i2 i3
      exact ⟨i1, i2, i3, i4, i5⟩
  · simp only [hbr, Bool.false_eq_true, if_false]
    have hdir : m.2 ≠ [] → s1.isDir = true := by
      intro hne
      cases hd : s1.isDir with
      | true => rfl
      | false =>
        exfalso; apply hbr
        simp only [hd, Bool.not_false, Bool.true_and, Bool.not_eq_true']
        cases hm : m.2 with
        | nil => exact absurd hm hne
        | cons _ _ => rfl
    obtain ⟨i1, i2, i3, i4, i5⟩ := pushLoop_spec d m.2 _ _ hcore2 (by simp [hlen]) hdir
    simp only [hkept] at i2 i3
    rw [← hm2] at i2 i3
    exact ⟨i1, i2, i3, i4, i5⟩

theorem makeCurrent_spec (d : Delegate) (p : Bytes) (s : Stack) (log : List Ev) (h : Inv s log) :
    Inv (makeCurrent d p s log).s (makeCurrent d p s log).log
    ∧ Lands p s (makeCurrent d p s log).s (makeCurrent d p s log).out
    ∧ (makeCurrent d p s log).out ≠ .panic := by
  unfold makeCurrent
  by_cases h1 : (s.valid != 0 && p.isEmpty) = true
  · simp only [h1, if_true]
    exact ⟨h, ⟨by simp, fun _ => Or.inl rfl⟩, by simp⟩
  · simp only [h1, Bool.false_eq_true, if_false]
    by_cases h2 : (s.valid == 0 && !s.rootPushed) = true
    · simp only [h2, if_true]
      simp only [Bool.and_eq_true, beq_iff_eq, Bool.not_eq_true'] at h2
      obtain ⟨hv0, hrp⟩ := h2
      have hrel : s.currentRel = [] := h.root hrp
      cases hD : d.pushDirOk log s.currentRel with
      | false =>
        simp only [Bool.false_eq_true, if_false]
        refine ⟨?_, ⟨by simp, fun _ => Or.inl rfl⟩, by simp⟩
        exact ⟨h.cur_eq, h.valid_eq, by simpa [replayLog] using h.bal, h.root, h.dir⟩
      | true =>
        simp only [if_true]
        have hcore : Core { s with rootPushed := true } (Ev.pushDir s.currentRel true :: log) := by
          refine ⟨h.cur_eq, ?_, rfl, h.dir⟩
          have hb := h.bal
          simp only [openDirsOf, hrp, Bool.not_false, if_true] at hb
          simp [replayLog, openDirsOf, hb, h.dir hrel, hrel, dirChain]
        obtain ⟨i1, i2, i3, i4, _⟩ := afterRoot_spec d p _ _ hcore h.valid_eq
        exact ⟨i1, ⟨i3, fun _ => Or.inr i2⟩, i4⟩
    · simp only [h2, Bool.false_eq_true, if_false]
      have hrp : s.rootPushed = true := by
        cases hr : s.rootPushed with
        | true => rfl
        | false =>
          exfalso; apply h2
          have := h.root hr
          simp [h.valid_eq, this, hr]
      have hcore : Core s log := ⟨h.cur_eq, h.bal, hrp, h.dir⟩
      obtain ⟨i1, i2, i3, i4, _⟩ := afterRoot_spec d p _ _ hcore h.valid_eq
      exact ⟨i1, ⟨i3, fun _ => Or.inr i2⟩, i4⟩

theorem run_inv (d : Delegate) (paths : List Bytes) : Inv (run d paths).1 (run d paths).2.1 := by
  induction paths with
  | nil => exact inv_new
  | cons p earlier ih =>
    simp only [run]
    exact (makeCurrent_spec d p _ _ ih).1

/-! ### consequences of a well-bracketed log -/

theorem replayLog_pop {post pre : List Ev} {p : RPath} {open_ : List RPath}
    (h : replayLog (post ++ Ev.popDir p :: pre) = some open_) : ∃ rest, replayLog pre = some (p :: rest) := by
  induction post generalizing open_ with
  | nil =>
    simp only [List.nil_append, replayLog] at h
    cases hr : replayLog pre with
    | none => simp [hr] at h
    | some l =>
      cases l with
      | nil => simp [hr] at h
      | cons q r =>
        simp only [hr] at h
        by_cases hq : q = p
        · exact ⟨r, by rw [hq]⟩
        · simp [hq] at h
  | cons e post ih =>
    simp only [List.cons_append] at h
    cases e with
    | pushDir q ok =>
      cases ok with
      | true =>
        simp only [replayLog, Option.map_eq_some_iff] at h
        obtain ⟨a, ha, _⟩ := h
        exact ih ha
      | false => exact ih (by simpa [replayLog] using h)
    | push q l ok => exact ih (by simpa [replayLog] using h)
    | popDir q =>
      simp only [replayLog] at h
      cases hr : replayLog (post ++ Ev.popDir p :: pre) with
      | none => simp [hr] at h
      | some l => exact ih hr

theorem replayLog_count : ∀ (log : List Ev) (open_ : List RPath), replayLog log = some open_ →
    countPushDir log = countPopDir log + open_.length := by
  intro log
  induction log with
  | nil => intro o h; simp [replayLog] at h; subst h; rfl
  | cons e log ih =>
    intro o h
    cases e with
    | pushDir q ok =>
      cases ok with
      | true =>
        simp only [replayLog, Option.map_eq_some_iff] at h
        obtain ⟨a, ha, hao⟩ := h
        subst hao
        have := ih a ha
        simp only [countPushDir, countPopDir, List.length_cons]; omega
      | false =>
        have := ih o (by simpa [replayLog] using h)
        simpa [countPushDir, countPopDir] using this
    | push q l ok =>
      have := ih o (by simpa [replayLog] using h)
      simpa [countPushDir, countPopDir] using this
    | popDir q =>
      simp only [replayLog] at h
      cases hr : replayLog log with
      | none => simp [hr] at h
      | some l =>
        cases l with
        | nil => simp [hr] at h
        | cons q' r =>
          simp only [hr] at h
          by_cases hq : q' = q
          · simp only [hq, if_true, Option.some.injEq] at h
            subst h
            have := ih _ hr
            simp only [countPushDir, countPopDir, List.length_cons] at *; omega
          · simp [hq] at h

/-! ### the code before the repair was not balanced (witnesses found by the harness oracle) -/

def pA : Bytes := [97]
def pB : Bytes := [98]
def pAB : Bytes := [97, 47, 98]

/-- one path `a/b`, `push(a)` rejected: `push_directory(a)` is still called and never undone -/
theorem legacy_unbalanced_push_rejected :
    ¬ Balanced (Legacy.run (maskDelegate [false, true]) [pAB]).1
               (Legacy.run (maskDelegate [false, true]) [pAB]).2.1 := by decide

/-- `a/b` with `push_directory(a)` rejected, then `b`: `pop_directory` closes a directory that was
never opened (the log is not even well bracketed relative to the path) -/
theorem legacy_unbalanced_pushdir_rejected :
    ¬ Balanced (Legacy.run (maskDelegate [false, false, true]) [pB, pAB]).1
               (Legacy.run (maskDelegate [false, false, true]) [pB, pAB]).2.1 := by decide

/-- `a/b` with `push(b)` (the leaf) rejected, then `b`: directory `a` is left without `pop_directory` -/
theorem legacy_unbalanced_leaf_rejected :
    ¬ Balanced (Legacy.run (maskDelegate [false, false, false, true]) [pB, pAB]).1
               (Legacy.run (maskDelegate [false, false, false, true]) [pB, pAB]).2.1 := by decide

/-- no rejection at all: the empty path, then `a` announces the root twice -/
theorem legacy_unbalanced_root_twice :
    ¬ Balanced (Legacy.run (maskDelegate []) [pA, []]).1 (Legacy.run (maskDelegate []) [pA, []]).2.1 := by
  decide

end GixModel.C42
