import GixModel.Lemmas.C04c
/-
C04 helper lemmas, part d: semantics of the last loop iteration, and the induction over the path.
-/
namespace GixModel.C04
open GixModel GixModel.Tree
open GixModel.Spec.C04 (Leaf FS)

theorem singleton_prefix_cons (n m : Bytes) (qs : Path) : [n] <+: (m :: qs) ↔ n = m := by
  rw [List.cons_prefix_cons]
  simp

theorem cons_prefix_singleton (n m : Bytes) (qs : Path) : (m :: qs) <+: [n] ↔ m = n ∧ qs = [] := by
  rw [List.cons_prefix_cons]
  simp [List.prefix_nil]

theorem under_child_ne {P : Path} {n m : Bytes} (hm : m ≠ n) {K : Path} (hK : (P ++ [m]) <+: K) :
    ¬ (P ++ [n]) <+: K ∧ K ≠ P := by
  constructor
  · intro h2
    obtain ⟨r1, hr1⟩ := hK
    obtain ⟨r2, hr2⟩ := h2
    have : P ++ ([m] ++ r1) = P ++ ([n] ++ r2) := by
      rw [← List.append_assoc, ← List.append_assoc, hr1, hr2]
    have := List.append_cancel_left this
    simp at this
    exact hm this.1
  · intro h; subst h; exact not_prefix_append_singleton _ _ hK

/-- semantics of overwriting / inserting / removing the entry `n` of the tree at `P` when `n` is
not a directory afterwards -/
theorem lookup_leaf_update {ed ed' : Ed} (hs : ed'.store = ed.store) {P : Path}
    {t t' : List Entry} {n : Bytes}
    (hnodir : ∀ e, findName t' n = some e → e.isTree = false)
    (hother : ∀ m, m ≠ n → findName t' m = findName t m)
    (hframe : ∀ K, ¬ (P ++ [n]) <+: K → K ≠ P → aget K ed'.trees = aget K ed.trees) (q : Path) :
    lookupIn ed' t' P q =
      Spec.C04.upsert [n] ((findName t' n).bind leafOf) (lookupIn ed t P) q := by
  unfold Spec.C04.upsert
  cases q with
  | nil => simp [lookupIn]
  | cons m qs =>
    by_cases hm : m = n
    · subst hm
      cases qs with
      | nil => simp [lookupIn]
      | cons m2 rest =>
        have h1 : ¬ (m :: m2 :: rest = [m]) := by simp
        have h2 : [m] <+: (m :: m2 :: rest) := (singleton_prefix_cons _ _ _).2 rfl
        simp only [h1, if_false, h2, true_or, if_true]
        exact lookupIn_cons_nodir hnodir (by simp)
    · have h1 : ¬ (m :: qs = [n]) := by
        intro h; injection h with h3 _; exact hm h3
      have h2 : ¬ [n] <+: (m :: qs) := fun h => hm ((singleton_prefix_cons _ _ _).1 h).symm
      have h3 : ¬ (m :: qs) <+: [n] := fun h => hm ((cons_prefix_singleton _ _ _).1 h).1
      simp only [h1, if_false, h2, h3, or_self]
      rw [lookupIn_tree_congr_name ed' P (hother m hm) qs]
      apply lookupIn_congr_name hs
      intro K hK
      obtain ⟨h4, h5⟩ := under_child_ne hm hK
      exact hframe K h4 h5

/-- the pointwise description of the cache after `forget_cached_trees_below` -/
theorem aget_forgetBelow (trees : Assoc Path (List Entry)) (base : Path) (name : Bytes) (K : Path) :
    aget K (forgetBelow trees base name) = if (base ++ [name]) <+: K then none else aget K trees := by
  unfold forgetBelow
  rw [aget_filter_key (fun k => !((base ++ [name]).isPrefixOf k))]
  by_cases h : (base ++ [name]) <+: K
  · simp [h, List.isPrefixOf_iff_prefix.2 h]
  · have : (base ++ [name]).isPrefixOf K = false := by
      cases hb : (base ++ [name]).isPrefixOf K with
      | false => rfl
      | true => exact absurd (List.isPrefixOf_iff_prefix.1 hb) h
    simp [h, this]

/-- outcome of the last iteration of `upsert` (a leaf) or `remove` -/
def LeafOut (ed : Ed) (P : Path) (t : List Entry) (n : Bytes) (v : Option Leaf) (r : Step) : Prop :=
  ∃ ed' t', r = .stop (.ok ed') ∧ Inv ed' ∧ ed'.store = ed.store ∧ aget P ed'.trees = some t' ∧
    (∀ K, ¬ P <+: K → aget K ed'.trees = aget K ed.trees) ∧
    (∀ q, lookupIn ed' t' P q = Spec.C04.upsert [n] v (lookupIn ed t P) q)

/-- common end of the last iteration: given the new tree and the pointwise new cache -/
theorem leaf_finish {ed : Ed} (hinv : Inv ed) {P : Path} {t : List Entry}
    (hP : aget P ed.trees = some t) {n : Bytes} {t' : List Entry} (ht' : TreeOk t')
    (hnodir : ∀ e, findName t' n = some e → e.isTree = false)
    (hother : ∀ m, m ≠ n → findName t' m = findName t m) (trees' : Assoc Path (List Entry))
    (hget : ∀ K, aget K trees' =
      if (P ++ [n]) <+: K then none else if K = P then some t' else aget K ed.trees)
    {v : Option Leaf} (hv : (findName t' n).bind leafOf = v) {r : Step}
    (hr : r = .stop (.ok { ed with trees := trees' })) : LeafOut ed P t n v r := by
  have hinv' := inv_leaf_update hinv hP ht'
    (fun e he hd => by rw [hnodir e he] at hd; cases hd) hother trees' hget ed.pathBuf
  refine ⟨{ ed with trees := trees' }, t', hr, hinv', rfl, ?_, ?_, ?_⟩
  · show aget P trees' = some t'
    rw [hget]; simp [not_prefix_append_singleton P n]
  · intro K hK
    show aget K trees' = aget K ed.trees
    rw [hget]
    have h1 : ¬ (P ++ [n]) <+: K := fun h => hK ((List.prefix_append P [n]).trans h)
    have h2 : K ≠ P := fun h => hK (h ▸ List.prefix_refl _)
    simp [h1, h2]
  · intro q
    rw [← hv]
    apply lookup_leaf_update (ed := ed) (ed' := { ed with trees := trees' }) rfl hnodir hother
    intro K h1 h2
    show aget K trees' = aget K ed.trees
    rw [hget]; simp [h1, h2]

theorem mode_ne_tree {m : Nat} (h : isTreeMode m = false) : (m == 0o040000) = false := by
  cases hm : m == 0o040000 with
  | false => rfl
  | true =>
    have : m = 0o040000 := by simpa using hm
    subst this
    rw [isTree_040000] at h; cases h

/-- last iteration of `upsert` with a non-tree kind -/
theorem leaf_step_upsert {ed : Ed} (hinv : Inv ed) {P : Path} (hpb : ed.pathBuf = P)
    {t : List Entry} (hP : aget P ed.trees = some t) {n : Bytes} (hn : ValidName n) {k : KI}
    (hum : k.um = .normal) (hkind : isTreeMode k.mode = false) :
    LeafOut ed P t n (leafOf ⟨k.mode, n, k.id⟩) (stepAt ed n true (some k)) := by
  have ht := hinv.trees P t hP
  have hmode := mode_ne_tree hkind
  cases hf : findName t n with
  | none =>
    obtain ⟨i, hs, hp⟩ := searchName_absent ht hn hf false
    let e3 : Entry := { name := n, mode := k.mode, oid := k.id }
    have he3 : e3.isTree = false := hkind
    have hg3 : GoodEntry e3 := fun h => by rw [he3] at h; cases h
    have ht' := treeOk_insertAt ht hn hf hp e3 rfl he3 hg3
    have hfn := findName_insertAt ht hn hf hp e3 rfl he3 hg3
    refine leaf_finish hinv hP ht' ?_ ?_ (aset P (insertAt t i e3) ed.trees) ?_ ?_ ?_
    · intro x hx; rw [hfn] at hx; simp at hx; subst hx; exact he3
    · intro m hm; rw [hfn]; simp [hm]
    · intro K
      by_cases h1 : (P ++ [n]) <+: K
      · have hKP : K ≠ P := fun h => not_prefix_append_singleton P n (h ▸ h1)
        rw [aget_aset_ne _ _ hKP, if_pos h1]
        exact nothing_below hinv hP (by intro e he; rw [hf] at he; cases he) h1
      · rw [if_neg h1]
        by_cases h2 : K = P
        · subst h2; simp [aget_aset_self]
        · simp [aget_aset_ne _ _ h2, h2]
    · rw [hfn]; simp [e3]
    · simp [stepAt, hpb, hP, hmode, hs, hum, e3]
  | some e =>
    obtain ⟨i, hs, hi, hti⟩ := searchName_found ht hn hf false
    have hen : e.name = n := ((findName_eq_some_iff ht.uniq).1 hf).2
    let e2 : Entry := { e with oid := k.id, mode := k.mode }
    have he2 : e2.isTree = false := hkind
    have he2n : e2.name = t[i].name := by rw [hti]
    have he2eq : e2 = ⟨k.mode, n, k.id⟩ := by simp [e2, hen]
    have hg2 : GoodEntry e2 := fun h => by rw [he2] at h; cases h
    cases hd : e.isTree with
    | true =>
      have ht' := treeOk_set_sort ht hi e2 he2n hg2
      have hmem : ∀ x, x ∈ sortEntries (t.set i e2) ↔ x ∈ t.set i e2 :=
        fun x => (sortEntries_perm _).mem_iff
      have hfn := findName_set ht hi e2 he2n ht' hmem
      rw [hti, hen] at hfn
      refine leaf_finish hinv hP ht' ?_ ?_
        (forgetBelow (aset P (sortEntries (t.set i e2)) ed.trees) P n) ?_ ?_ ?_
      · intro x hx; rw [hfn] at hx; simp at hx; subst hx; exact he2
      · intro m hm; rw [hfn]; simp [hm]
      · intro K
        rw [aget_forgetBelow]
        by_cases h1 : (P ++ [n]) <+: K
        · simp [h1]
        · simp only [h1, if_false]
          by_cases h2 : K = P
          · subst h2; simp [aget_aset_self]
          · simp [aget_aset_ne _ _ h2, h2]
      · rw [hfn]; simp [he2eq]
      · simp [stepAt, hpb, hP, hs, List.getElem?_eq_getElem hi, hti, hum, hd, hmode, setAt, e2]
    | false =>
      have he2t : e2.isTree = t[i].isTree := by rw [hti, hd]; exact he2
      have ht' := treeOk_set_same ht hi e2 he2n he2t hg2
      have hfn := findName_set ht hi e2 he2n ht' (fun _ => Iff.rfl)
      rw [hti, hen] at hfn
      refine leaf_finish hinv hP ht' ?_ ?_ (aset P (t.set i e2) ed.trees) ?_ ?_ ?_
      · intro x hx; rw [hfn] at hx; simp at hx; subst hx; exact he2
      · intro m hm; rw [hfn]; simp [hm]
      · intro K
        by_cases h1 : (P ++ [n]) <+: K
        · have hKP : K ≠ P := fun h => not_prefix_append_singleton P n (h ▸ h1)
          rw [aget_aset_ne _ _ hKP, if_pos h1]
          exact nothing_below hinv hP (by intro x hx; rw [hf] at hx; cases hx; exact hd) h1
        · rw [if_neg h1]
          by_cases h2 : K = P
          · subst h2; simp [aget_aset_self]
          · simp [aget_aset_ne _ _ h2, h2]
      · rw [hfn]; simp [he2eq]
      · simp [stepAt, hpb, hP, hs, List.getElem?_eq_getElem hi, hti, hum, hd, hmode, setAt, e2]

/-- last iteration of `remove` -/
theorem leaf_step_remove {ed : Ed} (hinv : Inv ed) {P : Path} (hpb : ed.pathBuf = P)
    {t : List Entry} (hP : aget P ed.trees = some t) {n : Bytes} (hn : ValidName n) :
    LeafOut ed P t n none (stepAt ed n true none) := by
  have ht := hinv.trees P t hP
  cases hf : findName t n with
  | none =>
    obtain ⟨i, hs, hp⟩ := searchName_absent ht hn hf false
    refine leaf_finish hinv hP ht ?_ (fun _ _ => rfl) ed.trees ?_ ?_ ?_
    · intro x hx; rw [hf] at hx; cases hx
    · intro K
      by_cases h1 : (P ++ [n]) <+: K
      · rw [if_pos h1]
        exact nothing_below hinv hP (by intro e he; rw [hf] at he; cases he) h1
      · rw [if_neg h1]
        by_cases h2 : K = P
        · subst h2; simp [hP]
        · simp [h2]
    · rw [hf]; rfl
    · subst hpb; simp [stepAt, hP, hs]
  | some e =>
    obtain ⟨i, hs, hi, hti⟩ := searchName_found ht hn hf false
    have hen : e.name = n := ((findName_eq_some_iff ht.uniq).1 hf).2
    have ht' := treeOk_eraseIdx ht hi
    have hfn := findName_eraseIdx ht hi
    rw [hti, hen] at hfn
    cases hd : e.isTree with
    | true =>
      refine leaf_finish hinv hP ht' ?_ ?_ (forgetBelow (aset P (t.eraseIdx i) ed.trees) P n) ?_ ?_ ?_
      · intro x hx; rw [hfn] at hx; simp at hx
      · intro m hm; rw [hfn]; simp [hm]
      · intro K
        rw [aget_forgetBelow]
        by_cases h1 : (P ++ [n]) <+: K
        · simp [h1]
        · simp only [h1, if_false]
          by_cases h2 : K = P
          · subst h2; simp [aget_aset_self]
          · simp [aget_aset_ne _ _ h2, h2]
      · rw [hfn]; simp
      · simp [stepAt, hpb, hP, hs, List.getElem?_eq_getElem hi, hti, hd]
    | false =>
      refine leaf_finish hinv hP ht' ?_ ?_ (aset P (t.eraseIdx i) ed.trees) ?_ ?_ ?_
      · intro x hx; rw [hfn] at hx; simp at hx
      · intro m hm; rw [hfn]; simp [hm]
      · intro K
        by_cases h1 : (P ++ [n]) <+: K
        · have hKP : K ≠ P := fun h => not_prefix_append_singleton P n (h ▸ h1)
          rw [aget_aset_ne _ _ hKP, if_pos h1]
          exact nothing_below hinv hP (by intro x hx; rw [hf] at hx; cases hx; exact hd) h1
        · rw [if_neg h1]
          by_cases h2 : K = P
          · subst h2; simp [aget_aset_self]
          · simp [aget_aset_ne _ _ h2, h2]
      · rw [hfn]; simp
      · simp [stepAt, hpb, hP, hs, List.getElem?_eq_getElem hi, hti, hd]

/-- a non-last iteration of `remove`: either go down into the existing directory, or stop without
any change because there is no such directory -/
theorem remove_step_down {ed : Ed} (hinv : Inv ed) {P : Path} (hpb : ed.pathBuf = P)
    {t : List Entry} (hP : aget P ed.trees = some t) {n : Bytes} (hn : ValidName n) :
    (∃ e, findName t n = some e ∧ e.isTree = true ∧ stepAt ed n false none = .down ed (some e.oid)) ∨
    ((∀ e, findName t n = some e → e.isTree = false) ∧ stepAt ed n false none = .stop (.ok ed)) := by
  have ht := hinv.trees P t hP
  cases hf : findName t n with
  | none =>
    obtain ⟨i, hs, hp⟩ := searchName_absent ht hn hf true
    refine Or.inr ⟨?_, by simp [stepAt, hpb, hP, hs]⟩
    intro e he; cases he
  | some e =>
    obtain ⟨i, hs, hi, hti⟩ := searchName_found ht hn hf true
    cases hd : e.isTree with
    | true =>
      exact Or.inl ⟨e, rfl, hd, by simp [stepAt, hpb, hP, hs, List.getElem?_eq_getElem hi, hti, hd]⟩
    | false =>
      refine Or.inr ⟨?_, by simp [stepAt, hpb, hP, hs, List.getElem?_eq_getElem hi, hti, hd]⟩
      intro x hx; cases hx; exact hd

end GixModel.C04
