import GixModel.Lemmas.C10f
/-
C10 — the general extension step of `BInv`: the state after `next()` handled input entry `i`.
-/
namespace GixModel.C10

theorem getElem?_append3 {α : Type} (l : List α) (rb ro : Option α) (k : Nat) (x : α)
    (h : (l ++ rb.toList ++ ro.toList)[k]? = some x) :
    (k < l.length ∧ l[k]? = some x)
    ∨ (k = l.length ∧ rb = some x)
    ∨ (k = l.length ∧ rb = none ∧ ro = some x)
    ∨ (k = l.length + 1 ∧ rb.isSome = true ∧ ro = some x) := by
  rw [List.append_assoc, List.getElem?_append] at h
  split at h
  · rename_i hk; exact Or.inl ⟨hk, h⟩
  · rename_i hk
    right
    cases rb with
    | none =>
      cases ro with
      | none => simp at h
      | some o =>
        simp only [Option.toList_none, Option.toList_some, List.nil_append] at h
        have : k - l.length = 0 := by
          cases hkl : k - l.length with
          | zero => rfl
          | succ m => rw [hkl] at h; simp at h
        rw [this] at h; simp at h
        exact Or.inr (Or.inl ⟨by omega, rfl, by rw [h]⟩)
    | some b =>
      simp only [Option.toList_some, List.singleton_append] at h
      cases hkl : k - l.length with
      | zero =>
        rw [hkl] at h; simp at h
        exact Or.inl ⟨by omega, by rw [h]⟩
      | succ m =>
        rw [hkl] at h
        simp only [List.getElem?_cons_succ] at h
        cases ro with
        | none => simp at h
        | some o =>
          cases m with
          | zero => simp at h; exact Or.inr (Or.inr ⟨by omega, rfl, by rw [h]⟩)
          | succ m' => simp at h

theorem BInv.extend {entries : List InEntry} {start : Nat} {st st' : IState} {i : Nat} {e : InEntry}
    (hs : StrictOfs entries) (inv : BInv entries start st i e.ofs) (he : entries[i]? = some e)
    (hpos : 0 < e.hsize + e.body)
    (pb : Option OutEntry) (X : OutEntry) (rb ro : Option Change)
    (hout : st'.out = st.out ++ pb.toList ++ [X])
    (hch : st'.changes = st.changes ++ rb.toList ++ ro.toList)
    (htot : st'.total = st.total + sumDeltas rb.toList + sumDeltas ro.toList)
    (hbase' : IInv start st' (e.ofs + e.hsize + e.body))
    (hpb : ∀ b, pb = some b → b.src = none ∧ b.hdr = Hdr.base)
    (hX : X.src = some i)
    (hrb : ∀ c, rb = some c → c.packOfs = e.ofs ∧ (∃ id, c.oid = some id) ∧ ∃ b, pb = some b ∧ b.ofs = c.shifted ∧ b.baseId = c.oid)
    (hpbpos : ∀ b, pb = some b → 0 < b.hsize + b.body) (hXpos : 0 < X.hsize + X.body)
    (hro : ∀ c, ro = some c → c.packOfs = e.ofs ∧ c.oid = none ∧ c.shifted = X.ofs)
    (hneed : rb.isSome = true → ro.isSome = true)
    (hXofs : rb = none → ro = none → (X.ofs : Int) = (e.ofs : Int) + st.total)
    (hpts : PointsOk entries st'.out X) :
    BInv entries start st' (i + 1) (e.ofs + e.hsize + e.body) := by
  have hsub : ∀ x, x ∈ st.out → x ∈ st'.out := by
    intro x hx; rw [hout]; exact List.mem_append_left _ (List.mem_append_left _ hx)
  have hXmem : X ∈ st'.out := by rw [hout]; simp
  have hmem_out : ∀ x, x ∈ st'.out → x ∈ st.out ∨ pb = some x ∨ x = X := by
    intro x hx
    rw [hout] at hx
    rcases List.mem_append.mp hx with h | h
    · rcases List.mem_append.mp h with h | h
      · exact Or.inl h
      · cases pb with
        | none => simp at h
        | some b => simp at h; exact Or.inr (Or.inl (by rw [h]))
    · simp at h; exact Or.inr (Or.inr h)
  have hmem_ch : ∀ c, c ∈ st'.changes → c ∈ st.changes ∨ rb = some c ∨ ro = some c := by
    intro c hc
    rw [hch] at hc
    rcases List.mem_append.mp hc with h | h
    · rcases List.mem_append.mp h with h | h
      · exact Or.inl h
      · cases rb with
        | none => simp at h
        | some b => simp at h; exact Or.inr (Or.inl (by rw [h]))
    · cases ro with
      | none => simp at h
      | some o => simp at h; exact Or.inr (Or.inr (by rw [h]))
  have hnew_ofs : ∀ c, rb = some c ∨ ro = some c → c.packOfs = e.ofs := by
    intro c h; rcases h with h | h
    · exact (hrb c h).1
    · exact (hro c h).1
  refine ⟨hbase', ?_, ?_, ?_, ?_, ?_, ?_, ?_, ?_, ?_, ?_⟩
  · -- srcs
    rw [hout, List.filterMap_append, List.filterMap_append, inv.srcs, List.range_succ]
    have : pb.toList.filterMap (fun o => o.src) = [] := by
      cases pb with
      | none => rfl
      | some b => simp [(hpb b rfl).1]
    rw [this]; simp [hX]
  · -- g2
    intro c hc
    rcases hmem_ch c hc with h | h | h
    · have := inv.g2 c h; omega
    · rw [hnew_ofs c (Or.inl h)]; omega
    · rw [hnew_ofs c (Or.inr h)]; omega
  · -- own
    intro c hc hnone
    rcases hmem_ch c hc with h | h | h
    · obtain ⟨oe, hoe, j, ej, h1, h2, h3, h4⟩ := inv.own c h hnone
      exact ⟨oe, hsub oe hoe, j, ej, h1, h2, h3, h4⟩
    · obtain ⟨_, ⟨id, hid⟩, _⟩ := hrb c h
      rw [hnone] at hid; cases hid
    · obtain ⟨h1, _, h3⟩ := hro c h
      exact ⟨X, hXmem, i, e, hX, he, h1, h3⟩
  · -- baseRec
    intro c hc id hid
    rcases hmem_ch c hc with h | h | h
    · obtain ⟨oe, hoe, h1, h2, h3⟩ := inv.baseRec c h id hid
      exact ⟨oe, hsub oe hoe, h1, h2, h3⟩
    · obtain ⟨_, _, b, hb, hbo, hbid⟩ := hrb c h
      refine ⟨b, ?_, (hpb b hb).1, hbo, by rw [hbid, hid]⟩
      rw [hout, hb]; simp
    · obtain ⟨_, h2, _⟩ := hro c h
      rw [h2] at hid; cases hid
  · -- noRec
    intro oe hoe j ej hsrc hej hno
    rcases hmem_out oe hoe with h | h | h
    · have hj : j < i := inv.src_lt oe h j hsrc
      have hlt : ej.ofs < e.ofs := hs j i ej e hj hej he
      have hno' : ∀ c ∈ st.changes, c.packOfs ≠ ej.ofs := by
        intro c hc; apply hno c; rw [hch]; exact List.mem_append_left _ (List.mem_append_left _ hc)
      have := inv.noRec oe h j ej hsrc hej hno'
      rw [this, hch, List.append_assoc]
      congr 2
      symm
      apply takeWhile_append_of_none
      intro c hc
      have hc' : rb = some c ∨ ro = some c := by
        rcases List.mem_append.mp hc with h | h
        · cases rb with
          | none => simp at h
          | some b => simp at h; exact Or.inl (by rw [h])
        · cases ro with
          | none => simp at h
          | some o => simp at h; exact Or.inr (by rw [h])
      rw [hnew_ofs c hc']
      simp; omega
    · rw [(hpb oe h).1] at hsrc; cases hsrc
    · subst h
      rw [hX] at hsrc; cases hsrc
      rw [he] at hej; cases hej
      have hrbn : rb = none := by
        cases hrb' : rb with
        | none => rfl
        | some c =>
          exfalso
          apply hno c _ (hrb c hrb').1
          rw [hch, hrb']; simp
      have hron : ro = none := by
        cases hro' : ro with
        | none => rfl
        | some c =>
          exfalso
          apply hno c _ (hro c hro').1
          rw [hch, hro']; simp
      rw [hXofs hrbn hron, hch, hrbn, hron]
      simp only [Option.toList_none, List.append_nil]
      rw [takeWhile_eq_self _ _ (fun c hc => by simpa using inv.g2 c hc), inv.total]
  · -- adj
    intro k c id hk hid
    rw [hch] at hk
    rcases getElem?_append3 _ _ _ _ _ hk with ⟨hlt, hk'⟩ | ⟨hkl, hk'⟩ | ⟨hkl, _, hk'⟩ | ⟨hkl, _, hk'⟩
    · obtain ⟨c', h1, h2, h3⟩ := inv.adj k c id hk' hid
      refine ⟨c', ?_, h2, h3⟩
      rw [hch, List.append_assoc, List.getElem?_append_left]
      · exact h1
      · have := (List.getElem?_eq_some_iff.mp h1).1; exact this
    · -- the record of an inserted base is followed by the record of the entry
      have hsome : ro.isSome = true := hneed (by rw [hk']; rfl)
      cases hro' : ro with
      | none => rw [hro'] at hsome; cases hsome
      | some o =>
        obtain ⟨h1, h2, _⟩ := hro o hro'
        refine ⟨o, ?_, by rw [h1, (hrb c hk').1], h2⟩
        rw [hch, hk', hro', hkl]
        simp
    · obtain ⟨_, h2, _⟩ := hro c hk'
      rw [h2] at hid; cases hid
    · obtain ⟨_, h2, _⟩ := hro c hk'
      rw [h2] at hid; cases hid
  · -- uniqOwn
    intro p q c c' hp hq hcn hcn' hpo
    rw [hch] at hp hq
    have cls : ∀ k x, (st.changes ++ rb.toList ++ ro.toList)[k]? = some x → x.oid = none →
        (k < st.changes.length ∧ st.changes[k]? = some x ∧ x.packOfs < e.ofs)
        ∨ (x.packOfs = e.ofs ∧ k = st.changes.length + rb.toList.length) := by
      intro k x hk hxn
      rcases getElem?_append3 _ _ _ _ _ hk with ⟨hlt, hk'⟩ | ⟨hkl, hk'⟩ | ⟨hkl, hrn, hk'⟩ | ⟨hkl, hrs, hk'⟩
      · exact Or.inl ⟨hlt, hk', inv.g2 x (List.mem_of_getElem? hk')⟩
      · obtain ⟨_, ⟨id, hid⟩, _⟩ := hrb x hk'
        rw [hxn] at hid; cases hid
      · exact Or.inr ⟨(hro x hk').1, by rw [hrn]; simp [hkl]⟩
      · refine Or.inr ⟨(hro x hk').1, ?_⟩
        cases rb with
        | none => cases hrs
        | some b => simp [hkl]
    rcases cls p c hp hcn with ⟨_, h1, h1'⟩ | ⟨h1, h1'⟩
    · rcases cls q c' hq hcn' with ⟨_, h2, _⟩ | ⟨h2, _⟩
      · exact inv.uniqOwn p q c c' h1 h2 hcn hcn' hpo
      · omega
    · rcases cls q c' hq hcn' with ⟨_, _, h2'⟩ | ⟨_, h2'⟩
      · omega
      · omega
  · -- total
    rw [htot, hch, sumDeltas_append, sumDeltas_append, inv.total]
  · -- pts
    intro oe hoe
    rcases hmem_out oe hoe with h | h | h
    · exact (inv.pts oe h).mono hsub
    · obtain ⟨h1, h2⟩ := hpb oe h
      unfold PointsOk; rw [h1]; exact h2
    · subst h; exact hpts
  · -- opos
    intro oe hoe
    rcases hmem_out oe hoe with h | h | h
    · exact inv.opos oe h
    · exact hpbpos oe h
    · subst h; exact hXpos

end GixModel.C10
