import GixModel.Model.C26
import GixModel.Spec.C26
/-
Helper lemmas for C26: every parser step emits events whose raw rendering is exactly the input it
consumed ("consumption = emission"), fuel sufficiency of the loops, and the bookkeeping around
`File.write`.
-/
namespace GixModel.C26
open GixModel

theorem spanP_append (p : UInt8 → Bool) (l : Bytes) : (spanP p l).1 ++ (spanP p l).2 = l := by
  simp [spanP]

theorem takeWhile_all (p : UInt8 → Bool) (l : Bytes) : ∀ x ∈ l.takeWhile p, p x = true := by
  induction l with
  | nil => simp
  | cons a l ih =>
    intro x hx
    simp only [List.takeWhile_cons] at hx
    split at hx
    · simp at hx; rcases hx with rfl | hx
      · assumption
      · exact ih x hx
    · simp at hx

theorem takeSpaces1_ok {i w r : Bytes} (h : takeSpaces1 i = some (w, r)) :
    w ++ r = i ∧ w ≠ [] ∧ ∀ x ∈ w, isSpace x = true := by
  unfold takeSpaces1 at h
  simp only at h
  split at h
  · simp at h
  · rename_i hne
    simp only [Option.some.injEq] at h
    have h1 := spanP_append isSpace i
    have h2 := takeWhile_all isSpace i
    rw [h] at h1
    have : w = i.takeWhile isSpace := by simp [spanP] at h; exact h.1.symm
    rw [← this] at h2
    refine ⟨h1, ?_, h2⟩
    intro hw; rw [h] at hne; simp [hw] at hne

theorem takeNewlines_ok : ∀ (n : Nat) (i : Bytes), (takeNewlines n i).1 ++ (takeNewlines n i).2 = i := by
  intro n i
  fun_induction takeNewlines n i <;> simp_all

theorem takeNewlines1_ok {i n r : Bytes} (h : takeNewlines1 i = some (n, r)) : n ++ r = i ∧ n ≠ [] := by
  unfold takeNewlines1 at h
  simp only at h
  split at h
  · simp at h
  · rename_i hne
    simp only [Option.some.injEq] at h
    have := takeNewlines_ok 1023 i
    rw [h] at this hne
    exact ⟨this, by intro hn; simp [hn] at hne⟩

theorem comment_ok {i r : Bytes} {e : Event} (h : comment i = some (e, r)) :
    e.writeRaw ++ r = i ∧ e.write = e.writeRaw ∧ e.toReal = e := by
  unfold comment at h
  split at h
  · split at h
    · simp only [Option.some.injEq, Prod.mk.injEq] at h
      obtain ⟨rfl, rfl⟩ := h
      simp [Event.writeRaw, Event.write, Event.writeWith, spanP, Event.toReal]
    · simp at h
  · simp at h

theorem splitLastDot_ok : ∀ (l a b : Bytes), splitLastDot l = some (a, b) → a ++ [46] ++ b = l := by
  intro l
  induction l with
  | nil => intro a b h; simp [splitLastDot] at h
  | cons c r ih =>
    intro a b h
    simp only [splitLastDot] at h
    split at h
    · rename_i a' b' heq
      simp only [Option.some.injEq, Prod.mk.injEq] at h
      obtain ⟨rfl, rfl⟩ := h
      have := ih a' b' heq
      simp [← this]
    · split at h
      · rename_i hc
        simp only [Option.some.injEq, Prod.mk.injEq] at h
        obtain ⟨rfl, rfl⟩ := h
        simp at hc; simp [hc]
      · simp at h

theorem subSectionRaw_ok : ∀ (i : Bytes), (subSectionRaw i).1 ++ (subSectionRaw i).2 = i := by
  intro i
  fun_induction subSectionRaw i <;> simp_all

@[simp] theorem renderRaw_nil : renderRaw [] = [] := rfl
@[simp] theorem renderRaw_cons (e : Event) (l : List Event) : renderRaw (e :: l) = e.writeRaw ++ renderRaw l := by
  simp [renderRaw]
@[simp] theorem renderRaw_append (a b : List Event) : renderRaw (a ++ b) = renderRaw a ++ renderRaw b := by
  simp [renderRaw]

theorem spaces_ne_dot {w : Bytes} (hne : w ≠ []) (hall : ∀ x ∈ w, isSpace x = true) : (w == [46]) = false := by
  cases w with
  | nil => exact absurd rfl hne
  | cons a t =>
    have := hall a (by simp)
    cases t with
    | nil =>
      simp only [beq_eq_false_iff_ne, ne_eq, List.cons.injEq, and_true]
      intro ha; subst ha; revert this; decide
    | cons b t => simp

theorem sectionHeaderRaw_ok {i r : Bytes} {h : Header} (hh : sectionHeaderRaw i = some (h, r)) :
    h.writeWith id ++ r = i := by
  unfold sectionHeaderRaw at hh
  split at hh
  · rename_i r0
    have hsp := spanP_append isSectionChar r0
    generalize spanP isSectionChar r0 = p at hh hsp
    obtain ⟨p1, p2⟩ := p
    simp only at hh hsp
    subst hsp
    split at hh
    · simp at hh
    · split at hh
      · rename_i r2
        split at hh
        · rename_i a b hsd
          split at hh
          · simp at hh
          · simp only [Option.some.injEq, Prod.mk.injEq] at hh
            obtain ⟨rfl, rfl⟩ := hh
            have := splitLastDot_ok _ _ _ hsd
            subst this
            simp [Header.writeWith]
        · simp only [Option.some.injEq, Prod.mk.injEq] at hh
          obtain ⟨rfl, rfl⟩ := hh
          simp [Header.writeWith]
      · rename_i r1 hnot
        split at hh
        · simp at hh
        · rename_i w r2 hws
          obtain ⟨hw1, hw2, hw3⟩ := takeSpaces1_ok hws
          subst hw1
          split at hh
          · rename_i r3
            have hs := subSectionRaw_ok r3
            generalize subSectionRaw r3 = q at hh hs
            obtain ⟨q1, q2⟩ := q
            simp only at hh hs
            subst hs
            split at hh
            · simp only [Option.some.injEq, Prod.mk.injEq] at hh
              obtain ⟨rfl, rfl⟩ := hh
              have hd := spaces_ne_dot hw2 hw3
              simp [Header.writeWith, hd]
            · simp at hh
          · simp at hh
  · simp at hh
theorem prefix_drop {α} (t s v : List α) (h : v = t ++ s) : t ++ v.drop t.length = v := by
  subst h; simp

theorem trimEnd_prefix (v : Bytes) : trimEnd v ++ v.drop (trimEnd v).length = v := by
  have h : v.reverse.takeWhile isAsciiWs ++ v.reverse.dropWhile isAsciiWs = v.reverse :=
    List.takeWhile_append_dropWhile
  apply prefix_drop _ (v.reverse.takeWhile isAsciiWs).reverse
  have := congrArg List.reverse h
  rw [List.reverse_append, List.reverse_reverse] at this
  exact this.symm

theorem valueFinish_ok {acc rest : Bytes} {inQ part eof : Bool} {em out : List Event} {r : Bytes}
    (h : valueFinish acc rest inQ part eof em = some (out, r)) :
    renderRaw out ++ r = renderRaw em ++ acc ++ rest := by
  unfold valueFinish at h
  split at h
  · simp at h
  · split at h
    · rename_i _ he
      simp only [Option.some.injEq, Prod.mk.injEq] at h
      obtain ⟨rfl, rfl⟩ := h
      simp at he
      cases part <;> simp [he.2, Event.writeRaw, Event.writeWith]
    · simp only [Option.some.injEq, Prod.mk.injEq] at h
      obtain ⟨rfl, rfl⟩ := h
      have := trimEnd_prefix acc
      cases part <;> simp [Event.writeRaw, Event.writeWith] <;>
        rw [← List.append_assoc (trimEnd acc), this]

theorem valueScan_ok : ∀ (i acc : Bytes) (inQ part : Bool) (em out : List Event) (r : Bytes),
    valueScan i acc inQ part em = some (out, r) → renderRaw out ++ r = renderRaw em ++ acc ++ i := by
  intro i acc inQ part em
  fun_induction valueScan i acc inQ part em <;> intro out r h
  all_goals first
    | (have := valueFinish_ok h; simpa using this)
    | (simp at h; done)
    | skip
  all_goals rename_i ih
  all_goals have := ih out r h
  all_goals simp_all [Event.writeRaw, Event.writeWith]

theorem optSpaces_ok (i : Bytes) : renderRaw (optSpaces i).1 ++ (optSpaces i).2 = i := by
  unfold optSpaces
  split
  · rename_i w r h
    have := (takeSpaces1_ok h).1
    simp [Event.writeRaw, Event.writeWith, this]
  · simp

theorem optNewlines_ok (i : Bytes) : renderRaw (optNewlines i).1 ++ (optNewlines i).2 = i := by
  unfold optNewlines
  split
  · rename_i w r h
    have := (takeNewlines1_ok h).1
    simp [Event.writeRaw, Event.writeWith, this]
  · simp

theorem optComment_ok (i : Bytes) : renderRaw (optComment i).1 ++ (optComment i).2 = i := by
  unfold optComment
  split
  · rename_i c r h
    have := (comment_ok h).1
    simp [this]
  · simp

theorem configValue_ok {i r : Bytes} {out : List Event} (h : configValue i = some (out, r)) :
    renderRaw out ++ r = i := by
  unfold configValue at h
  split at h
  · rename_i r0
    have := valueScan_ok _ _ _ _ _ _ _ h
    have hs := optSpaces_ok r0
    simp [Event.writeRaw, Event.writeWith] at this
    rw [this, hs]
  · simp only [Option.some.injEq, Prod.mk.injEq] at h
    obtain ⟨rfl, rfl⟩ := h
    simp [Event.writeRaw, Event.writeWith]

theorem configName_ok {i n r : Bytes} (h : configName i = some (n, r)) : n ++ r = i ∧ n ≠ [] := by
  unfold configName at h
  split at h
  · split at h
    · simp only [Option.some.injEq, Prod.mk.injEq] at h
      obtain ⟨rfl, rfl⟩ := h
      simp [spanP]
    · simp at h
  · simp at h

theorem keyValuePair_ok {i r : Bytes} {out : List Event} (h : keyValuePair i = some (out, r)) :
    renderRaw out ++ r = i := by
  unfold keyValuePair at h
  split at h
  · simp only [Option.some.injEq, Prod.mk.injEq] at h
    obtain ⟨rfl, rfl⟩ := h
    simp
  · rename_i n r0 hn
    simp only at h
    split at h
    · simp at h
    · rename_i evs r2 hv
      simp only [Option.some.injEq, Prod.mk.injEq] at h
      obtain ⟨rfl, rfl⟩ := h
      have h1 := (configName_ok hn).1
      have h2 := optSpaces_ok r0
      have h3 := configValue_ok hv
      simp [Event.writeRaw, Event.writeWith]
      rw [h3, h2, h1]

theorem bodyIter_ok {i r : Bytes} {out : List Event} (h : bodyIter i = some (out, r)) :
    renderRaw out ++ r = i := by
  unfold bodyIter at h
  simp only at h
  split at h
  · simp at h
  · rename_i kv r0 hkv
    simp only [Option.some.injEq, Prod.mk.injEq] at h
    obtain ⟨rfl, rfl⟩ := h
    have h1 := optSpaces_ok i
    have h2 := optNewlines_ok (optSpaces i).2
    have h3 := keyValuePair_ok hkv
    have h4 := optComment_ok r0
    simp
    rw [h4, h3, h2, h1]

theorem bodyLoop_ok : ∀ (f : Nat) (i r : Bytes) (out : List Event),
    bodyLoop f i = some (out, r) → renderRaw out ++ r = i := by
  intro f
  induction f with
  | zero => intro i r out h; simp [bodyLoop] at h; obtain ⟨rfl, rfl⟩ := h; simp
  | succ f ih =>
    intro i r out h
    simp only [bodyLoop] at h
    split at h
    · simp at h
    · rename_i evs r0 hi
      have h1 := bodyIter_ok hi
      split at h
      · simp only [Option.some.injEq, Prod.mk.injEq] at h
        obtain ⟨rfl, rfl⟩ := h
        exact h1
      · split at h
        · simp at h
        · rename_i more r' hl
          simp only [Option.some.injEq, Prod.mk.injEq] at h
          obtain ⟨rfl, rfl⟩ := h
          have := ih _ _ _ hl
          simp; rw [this, h1]

theorem sectionRaw_ok {i r : Bytes} {out : List Event} (h : sectionRaw i = some (out, r)) :
    renderRaw out ++ r = i := by
  unfold sectionRaw at h
  split at h
  · simp at h
  · rename_i hd r0 hh
    split at h
    · simp at h
    · rename_i evs r' hl
      simp only [Option.some.injEq, Prod.mk.injEq] at h
      obtain ⟨rfl, rfl⟩ := h
      have h1 := sectionHeaderRaw_ok hh
      have h2 := bodyLoop_ok _ _ _ _ hl
      simp [Event.writeRaw, Event.writeWith]
      rw [h2, h1]

theorem sectionsRaw_ok : ∀ (f : Nat) (i : Bytes) (out : List Event),
    sectionsRaw f i = some out → renderRaw out = i := by
  intro f
  induction f with
  | zero =>
    intro i out h
    simp only [sectionsRaw] at h
    split at h
    · rename_i he; simp at h; subst h; simp at he; simp [he]
    · simp at h
  | succ f ih =>
    intro i out h
    simp only [sectionsRaw] at h
    split at h
    · rename_i he; simp at h; subst h; simp at he; simp [he]
    · split at h
      · simp at h
      · rename_i evs r hs
        simp only [Option.map_eq_some_iff] at h
        obtain ⟨more, hm, rfl⟩ := h
        have h1 := sectionRaw_ok hs
        have h2 := ih _ _ hm
        simp [h2, h1]

theorem frontStep_ok {i r : Bytes} {e : Event} (h : frontStep i = some (e, r)) :
    e.writeRaw ++ r = i ∧ r.length < i.length := by
  unfold frontStep at h
  split at h
  · rename_i x hc
    simp only [Option.some.injEq] at h
    subst h
    have := (comment_ok hc).1
    refine ⟨this, ?_⟩
    have hl := congrArg List.length this
    have : 0 < e.writeRaw.length := by
      unfold comment at hc
      split at hc
      · split at hc
        · simp at hc; obtain ⟨rfl, _⟩ := hc; simp [Event.writeRaw, Event.writeWith]
        · simp at hc
      · simp at hc
    simp at hl; omega
  · split at h
    · rename_i w r0 hw
      simp only [Option.some.injEq, Prod.mk.injEq] at h
      obtain ⟨rfl, rfl⟩ := h
      obtain ⟨h1, h2, _⟩ := takeSpaces1_ok hw
      refine ⟨by simpa [Event.writeRaw, Event.writeWith] using h1, ?_⟩
      have hl := congrArg List.length h1
      have : 0 < w.length := List.length_pos_iff.mpr h2
      simp at hl; omega
    · split at h
      · rename_i n r0 hn
        simp only [Option.some.injEq, Prod.mk.injEq] at h
        obtain ⟨rfl, rfl⟩ := h
        obtain ⟨h1, h2⟩ := takeNewlines1_ok hn
        refine ⟨by simpa [Event.writeRaw, Event.writeWith] using h1, ?_⟩
        have hl := congrArg List.length h1
        have : 0 < n.length := List.length_pos_iff.mpr h2
        simp at hl; omega
      · simp at h

theorem frontLoop_ok : ∀ (f : Nat) (i : Bytes), renderRaw (frontLoop f i).1 ++ (frontLoop f i).2 = i := by
  intro f
  induction f with
  | zero => intro i; simp [frontLoop]
  | succ f ih =>
    intro i
    simp only [frontLoop]
    split
    · simp
    · rename_i e r h
      have := (frontStep_ok h).1
      simp [ih r, this]

/-- Consumption = emission, for every input: the raw rendering of the parsed events is the input
without its byte-order mark. -/
theorem parseRaw_ok {bs : Bytes} {revs : List Event} (h : parseRaw bs = some revs) :
    renderRaw revs = bs.drop (bomLen bs) := by
  unfold parseRaw at h
  simp only at h
  generalize bs.drop (bomLen bs) = i0 at h ⊢
  have hf := frontLoop_ok i0.length i0
  generalize frontLoop i0.length i0 = fm at h hf
  split at h
  · rename_i he
    simp only [Option.some.injEq] at h
    subst h
    have : fm.2 = [] := by simpa using he
    rw [this] at hf
    simpa using hf
  · simp only [Option.map_eq_some_iff] at h
    obtain ⟨more, hm, rfl⟩ := h
    have := sectionsRaw_ok _ _ _ hm
    simp [this, hf]

/-! ### escapes -/

theorem escape_unesc_of_canon : ∀ raw : Bytes, canonEsc raw = true → escapeSub (unescSub raw) = raw := by
  intro raw
  fun_induction canonEsc raw
  · simp [unescSub, escapeSub]
  · rename_i c
    intro h
    simp at h
    simp [unescSub, escapeSub, h]
  · rename_i c d r hc ih
    intro h
    simp at hc h
    subst hc
    have := ih h.2
    simp only [unescSub, escapeSub, List.flatMap_cons] at this ⊢
    rcases h.1 with (rfl | rfl) | rfl <;> simp_all
  · rename_i c d r hc ih
    intro h
    simp at hc h
    have := ih h.2
    simp only [unescSub, hc, escapeSub, List.flatMap_cons] at this ⊢
    simp_all

def esc1 (b : UInt8) : Bytes :=
  if b == 92 then [92, 92] else if b == 34 then [92, 34] else if b == 0 then [92, 0] else [b]

theorem escapeSub_cons (b : UInt8) (l : Bytes) : escapeSub (b :: l) = esc1 b ++ escapeSub l := by
  simp [escapeSub, esc1]

theorem canon_of_escape_unesc : ∀ raw : Bytes, escapeSub (unescSub raw) = raw → canonEsc raw = true := by
  intro raw
  fun_induction canonEsc raw
  · simp
  · rename_i c
    intro h
    simp only [unescSub, escapeSub_cons, esc1] at h
    by_cases h1 : c = 92
    · subst h1; simp [escapeSub] at h
    · by_cases h2 : c = 34
      · subst h2; simp [escapeSub] at h
      · by_cases h3 : c = 0
        · subst h3; simp [escapeSub] at h
        · simp [h1, h2, h3]
  · rename_i c d r hc ih
    intro h
    simp at hc
    subst hc
    simp only [unescSub, beq_self_eq_true, ↓reduceIte, escapeSub_cons, esc1] at h
    by_cases h1 : d = 92
    · subst h1; simp at h; simp [ih h]
    · by_cases h2 : d = 34
      · subst h2; simp at h; simp [ih h]
      · by_cases h3 : d = 0
        · subst h3; simp at h; simp [ih h]
        · simp [h1, h2, h3] at h
  · rename_i c d r hc ih
    intro h
    simp at hc
    simp only [unescSub, beq_iff_eq, hc, ↓reduceIte, escapeSub_cons, esc1] at h
    by_cases h2 : c = 34
    · subst h2; simp at h
    · by_cases h3 : c = 0
      · subst h3; simp at h
      · simp [hc, h2, h3] at h
        simp [hc, h2, h3, ih h]

@[simp] theorem render_nil : render [] = [] := rfl
@[simp] theorem render_cons (e : Event) (l : List Event) : render (e :: l) = e.write ++ render l := by
  simp [render]
@[simp] theorem render_append (a b : List Event) : render (a ++ b) = render a ++ render b := by
  simp [render]

/-- an event is reproduced by `write_to` exactly when it is canonical -/
theorem toReal_write_iff (e : Event) : e.toReal.write = e.writeRaw ↔ e.canon = true := by
  cases e with
  | header h =>
    obtain ⟨name, sep, sub⟩ := h
    cases sep with
    | none => simp [Event.toReal, Header.toReal, Event.write, Event.writeRaw, Event.writeWith, Header.writeWith, Event.canon]
    | some s =>
      cases sub with
      | none => simp [Event.toReal, Header.toReal, Event.write, Event.writeRaw, Event.writeWith, Header.writeWith, Event.canon]
      | some raw =>
        by_cases hs : s = [46]
        · simp [Event.toReal, Header.toReal, Event.write, Event.writeRaw, Event.writeWith, Header.writeWith, Event.canon, hs]
        · simp [Event.toReal, Header.toReal, Event.write, Event.writeRaw, Event.writeWith, Header.writeWith, Event.canon, hs]
          constructor
          · exact canon_of_escape_unesc raw
          · exact escape_unesc_of_canon raw
  | _ => simp [Event.toReal, Event.write, Event.writeRaw, Event.canon, Event.writeWith]

theorem render_toReal_of_canon : ∀ (revs : List Event), (∀ e ∈ revs, e.canon = true) →
    render (revs.map Event.toReal) = renderRaw revs := by
  intro revs
  induction revs with
  | nil => simp
  | cons e l ih =>
    intro h
    have h1 := (toReal_write_iff e).mpr (h e (by simp))
    have h2 := ih (fun x hx => h x (by simp [hx]))
    simp [h1, h2]

/-! ### fuel -/

theorem bodyLoop_fuel : ∀ (f g : Nat) (i : Bytes), i.length < f → i.length < g → bodyLoop f i = bodyLoop g i := by
  intro f
  induction f with
  | zero => intro g i h; omega
  | succ f ih =>
    intro g i hf hg
    cases g with
    | zero => omega
    | succ g =>
      simp only [bodyLoop]
      split
      · rfl
      · rename_i evs r hi
        have hl := congrArg List.length (bodyIter_ok hi)
        simp at hl
        split
        · rfl
        · rename_i hne
          simp at hne
          rw [ih g r (by omega) (by omega)]

theorem headerWrite_pos (h : Header) (esc : Bytes → Bytes) : 2 ≤ (h.writeWith esc).length := by
  simp [Header.writeWith]; omega

theorem sectionsRaw_fuel : ∀ (f g : Nat) (i : Bytes), i.length ≤ f → i.length ≤ g →
    sectionsRaw f i = sectionsRaw g i := by
  intro f
  induction f with
  | zero =>
    intro g i hf hg
    have : i = [] := List.eq_nil_of_length_eq_zero (by omega)
    subst this
    cases g <;> simp [sectionsRaw]
  | succ f ih =>
    intro g i hf hg
    cases g with
    | zero =>
      have : i = [] := List.eq_nil_of_length_eq_zero (by omega)
      subst this
      simp [sectionsRaw]
    | succ g =>
      simp only [sectionsRaw]
      split
      · rfl
      · split
        · rfl
        · rename_i evs r hs
          have hl := congrArg List.length (sectionRaw_ok hs)
          have : 2 ≤ (renderRaw evs).length := by
            unfold sectionRaw at hs
            split at hs
            · simp at hs
            · split at hs
              · simp at hs
              · simp at hs; obtain ⟨rfl, _⟩ := hs
                have := headerWrite_pos ‹Header› id
                simp [Event.writeRaw, Event.writeWith]; omega
          simp at hl
          rw [ih g r (by omega) (by omega)]

theorem frontLoop_fuel : ∀ (f g : Nat) (i : Bytes), i.length ≤ f → i.length ≤ g →
    frontLoop f i = frontLoop g i := by
  intro f
  induction f with
  | zero =>
    intro g i hf hg
    have : i = [] := List.eq_nil_of_length_eq_zero (by omega)
    subst this
    cases g <;> simp [frontLoop, frontStep, comment, takeSpaces1, takeNewlines1, spanP, takeNewlines]
  | succ f ih =>
    intro g i hf hg
    cases g with
    | zero =>
      have : i = [] := List.eq_nil_of_length_eq_zero (by omega)
      subst this
      simp [frontLoop, frontStep, comment, takeSpaces1, takeNewlines1, spanP, takeNewlines]
    | succ g =>
      simp only [frontLoop]
      split
      · rfl
      · rename_i e r hs
        have := (frontStep_ok hs).2
        rw [ih g r (by omega) (by omega)]

@[simp] theorem write_newline (nl : Bytes) : (Event.newline nl).write = nl := rfl

theorem writeBody_eq (nl : Bytes) : ∀ (evs : List Event) (saw inKv : Bool),
    writeBody nl evs saw inKv = render (augBody nl evs saw inKv) := by
  intro evs
  induction evs with
  | nil => intro saw inKv; simp [writeBody, augBody]
  | cons e rest ih =>
    intro saw inKv
    cases e <;> simp only [writeBody, augBody, ih, render_cons, render_append]
    · cases saw <;> simp
    · cases rest with
      | nil => simp
      | cons e2 r2 => cases e2 <;> simp

theorem Section.write_eq (s : Section) : s.write = render s.aug := by
  unfold Section.write Section.aug
  simp only [render_cons, Event.write, Event.writeWith, Header.write]
  congr 1
  split
  · simp
  · simp only [writeBody_eq, render_append]
    split <;> simp [Event.write, Event.writeWith]

theorem writeSections_eq (nl : Bytes) : ∀ (ss : List Section) (p : Bool),
    writeSections nl ss p = render (augSections nl ss p) := by
  intro ss
  induction ss with
  | nil => intro p; cases p <;> simp [writeSections, augSections]
  | cons s rest ih =>
    intro p
    simp only [writeSections, augSections, ih, Section.write_eq, render_append]
    cases p <;> simp

/-- `File::write_to` writes the events of `File.aug`, each with `Event::write_to` -/
theorem File.write_eq (f : File) : f.write = render f.aug := by
  unfold File.write File.aug
  simp only [writeSections_eq, render_append]
  split <;> simp

def notNl (e : Event) : Bool := !isNewline e

theorem augBody_filter (nl : Bytes) : ∀ (evs : List Event) (saw inKv : Bool),
    (augBody nl evs saw inKv).filter notNl = evs.filter notNl := by
  intro evs
  induction evs with
  | nil => intro saw inKv; simp [augBody]
  | cons e rest ih =>
    intro saw inKv
    cases e <;> simp only [augBody, List.filter_cons, List.filter_append, ih]
    · cases saw <;> simp [notNl, isNewline]
    · cases rest with
      | nil => simp [notNl, isNewline]
      | cons e2 r2 => cases e2 <;> simp [notNl, isNewline]

theorem Section.aug_filter (s : Section) :
    s.aug.filter notNl = (Event.header s.header :: s.body).filter notNl := by
  unfold Section.aug
  rw [List.filter_cons_of_pos (by rfl), List.filter_cons_of_pos (by rfl)]
  congr 1
  split
  · rename_i h
    have : s.body = [] := by simpa using h
    rw [this]
  · simp only [List.filter_append, augBody_filter]
    split <;> simp [notNl, isNewline]

theorem augSections_filter (nl : Bytes) : ∀ (ss : List Section) (p : Bool),
    (augSections nl ss p).filter notNl = (ss.flatMap fun s => .header s.header :: s.body).filter notNl := by
  intro ss
  induction ss with
  | nil => intro p; cases p <;> simp [augSections, notNl, isNewline]
  | cons s rest ih =>
    intro p
    simp only [augSections, List.filter_append, ih, Section.aug_filter, List.flatMap_cons]
    cases p <;> simp [notNl, isNewline]

/-- … and `File.aug` is the file's own event list with nothing but newline events added -/
theorem File.aug_filter (f : File) : f.aug.filter notNl = f.events.filter notNl := by
  unfold File.aug File.events
  simp only [List.filter_append, augSections_filter]
  split <;> simp [notNl, isNewline]

theorem groupSections_events : ∀ (evs : List Event),
    (groupSections evs).1 ++ ((groupSections evs).2.flatMap fun s => .header s.header :: s.body) = evs := by
  intro evs
  induction evs with
  | nil => simp [groupSections]
  | cons e rest ih =>
    cases e <;> simp [groupSections, ih]

theorem fileOfEvents_events (evs : List Event) : (fileOfEvents evs).events = evs := by
  simp [fileOfEvents, File.events, groupSections_events]

end GixModel.C26
