import GixModel.Model.C54
/-
Helper lemmas for C54: the declarative specification (`Reach`), the domain (`WellKinded`), the
breadth-first-walk invariant `Inv` and its preservation by every step of `check_commit`, and the
proof that the fuel of the model's loop is always enough (potential = queue length + weight of the
trees not seen yet).
-/
namespace GixModel.C54

variable {Id : Type} [DecidableEq Id]

/-! ### specification -/

/-- `Reach db root x k`: `x` is reachable from the root tree `root` through PRESENT trees,
following tree and blob entries (never submodule entries), and is referenced with kind `k`. -/
inductive Reach (db : Store Id) (root : Id) : Id → EKind → Prop
  | root : Reach db root root EKind.tree
  | child {t : Id} {es : List (EKind × Id)} {k : EKind} {x : Id} :
      Reach db root t EKind.tree → get db t = some (Obj.tree es) → (k, x) ∈ es → k ≠ EKind.commit →
      Reach db root x k

/-- the kind handed to the callback for something referenced with kind `k` -/
def cbKind : EKind → CbKind
  | EKind.tree => CbKind.tree
  | _ => CbKind.blob

/-- The domain of the theorems: entry modes tell the truth. `kindOf` assigns every id the one kind
it is referenced with, present objects have that kind, and a commit's tree is referenced as a tree.
(A real object database satisfies this unless a tree lies about an entry's mode.) -/
structure WellKinded (db : Store Id) (kindOf : Id → EKind) : Prop where
  obj_tree : ∀ x es, get db x = some (Obj.tree es) → kindOf x = EKind.tree
  obj_blob : ∀ x, get db x = some Obj.blob → kindOf x = EKind.blob
  obj_commit : ∀ x t, get db x = some (Obj.commit t) → kindOf x = EKind.commit ∧ kindOf t = EKind.tree
  entry : ∀ x es k y, get db x = some (Obj.tree es) → (k, y) ∈ es → kindOf y = k

theorem get_mem {db : Store Id} {x : Id} {o : Obj Id} (h : get db x = some o) : (x, o) ∈ db := by
  induction db with
  | nil => simp [get] at h
  | cons p rest ih =>
    obtain ⟨k, o'⟩ := p
    by_cases hk : k = x
    · simp only [get, hk, if_true, Option.some.injEq] at h
      subst h; subst hk; simp
    · simp only [get, hk, if_false] at h
      exact List.mem_cons_of_mem _ (ih h)

/-- a decidable sufficient check for `WellKinded` (used for the non-vacuity examples) -/
def wellKindedB (db : Store Id) (kindOf : Id → EKind) : Bool :=
  db.all fun p =>
    match p.2 with
    | Obj.tree es => decide (kindOf p.1 = EKind.tree) && es.all fun e => decide (kindOf e.2 = e.1)
    | Obj.blob => decide (kindOf p.1 = EKind.blob)
    | Obj.commit t => decide (kindOf p.1 = EKind.commit) && decide (kindOf t = EKind.tree)

theorem wellKinded_of_check {db : Store Id} {kindOf : Id → EKind} (h : wellKindedB db kindOf = true) :
    WellKinded db kindOf := by
  simp only [wellKindedB, List.all_eq_true] at h
  refine ⟨?_, ?_, ?_, ?_⟩
  · intro x es hx
    have := h _ (get_mem hx)
    simp only [Bool.and_eq_true, decide_eq_true_eq] at this
    exact this.1
  · intro x hx
    have := h _ (get_mem hx)
    simpa using this
  · intro x t hx
    have := h _ (get_mem hx)
    simpa using this
  · intro x es k y hx hy
    have := h _ (get_mem hx)
    simp only [Bool.and_eq_true, decide_eq_true_eq, List.all_eq_true] at this
    exact this.2 _ hy

theorem Reach.kind {db : Store Id} {kindOf : Id → EKind} (hwk : WellKinded db kindOf) {r x : Id} {k : EKind}
    (h : Reach db r x k) (hr : kindOf r = EKind.tree) : kindOf x = k := by
  cases h with
  | root => exact hr
  | child _ ht hm _ => exact hwk.entry _ _ _ _ ht hm

theorem Reach.not_commit {db : Store Id} {r x : Id} {k : EKind} (h : Reach db r x k) : k ≠ EKind.commit := by
  cases h with
  | root => intro h; cases h
  | child _ _ _ hk => exact hk

/-- for a tree-kinded id, `find_tree` fails exactly when the object is absent -/
theorem tree_kind_get {db : Store Id} {kindOf : Id → EKind} (hwk : WellKinded db kindOf) {x : Id}
    (hk : kindOf x = EKind.tree) : (∃ es, get db x = some (Obj.tree es)) ∨ get db x = none := by
  cases hg : get db x with
  | none => exact Or.inr rfl
  | some o =>
    cases o with
    | tree es => exact Or.inl ⟨es, rfl⟩
    | blob => have := hwk.obj_blob x hg; rw [hk] at this; cases this
    | commit t => have := (hwk.obj_commit x t hg).1; rw [hk] at this; cases this

/-! ### `checkEntries` described -/

theorem checkEntries_queue (db : Store Id) (es : List (EKind × Id)) : ∀ (st : St Id) (y : Id),
    y ∈ (checkEntries db es st).queue ↔ y ∈ st.queue ∨ (EKind.tree, y) ∈ es := by
  induction es with
  | nil => intro st y; simp [checkEntries]
  | cons e es ih =>
    intro st y
    obtain ⟨k, z⟩ := e
    cases k with
    | tree =>
      simp only [checkEntries, ih, List.mem_append, List.mem_cons, List.not_mem_nil, or_false, Prod.mk.injEq,
        true_and]
      constructor
      · rintro ((h | h) | h)
        · exact Or.inl h
        · exact Or.inr (Or.inl h)
        · exact Or.inr (Or.inr h)
      · rintro (h | h | h)
        · exact Or.inl (Or.inl h)
        · exact Or.inl (Or.inr h)
        · exact Or.inr h
    | blob =>
      simp only [checkEntries]
      split
      · simp [ih]
      · simp [ih]
    | commit => simp [checkEntries, ih]

theorem checkEntries_queue_length (db : Store Id) (es : List (EKind × Id)) : ∀ (st : St Id),
    (checkEntries db es st).queue.length ≤ st.queue.length + es.length := by
  induction es with
  | nil => intro st; simp [checkEntries]
  | cons e es ih =>
    intro st
    obtain ⟨k, z⟩ := e
    cases k with
    | tree =>
      have := ih { st with queue := st.queue ++ [z] }
      simp only [checkEntries, List.length_cons, List.length_append, List.length_nil] at this ⊢
      omega
    | blob =>
      simp only [checkEntries]
      split
      · have := ih st; simp only [List.length_cons]; omega
      · have := ih { st with seen := z :: st.seen,
                             cbs := if (get db z).isNone then (z, CbKind.blob) :: st.cbs else st.cbs }
        simp only [List.length_cons] at this ⊢; omega
    | commit =>
      have := ih st
      simp only [checkEntries, List.length_cons]; omega

theorem checkEntries_seen (db : Store Id) (es : List (EKind × Id)) : ∀ (st : St Id) (y : Id),
    y ∈ (checkEntries db es st).seen ↔ y ∈ st.seen ∨ (EKind.blob, y) ∈ es := by
  induction es with
  | nil => intro st y; simp [checkEntries]
  | cons e es ih =>
    intro st y
    obtain ⟨k, z⟩ := e
    cases k with
    | tree => simp [checkEntries, ih]
    | blob =>
      simp only [checkEntries]
      split
      · rename_i hz
        simp only [ih, List.mem_cons, Prod.mk.injEq, true_and]
        constructor
        · rintro (h | h)
          · exact Or.inl h
          · exact Or.inr (Or.inr h)
        · rintro (h | h | h)
          · exact Or.inl h
          · subst h; exact Or.inl hz
          · exact Or.inr h
      · simp only [ih, List.mem_cons, Prod.mk.injEq, true_and]
        constructor
        · rintro ((h | h) | h)
          · exact Or.inr (Or.inl h)
          · exact Or.inl h
          · exact Or.inr (Or.inr h)
        · rintro (h | h | h)
          · exact Or.inl (Or.inr h)
          · exact Or.inl (Or.inl h)
          · exact Or.inr h
    | commit => simp [checkEntries, ih]

theorem checkEntries_cbs (db : Store Id) (es : List (EKind × Id)) : ∀ (st : St Id) (y : Id) (k : CbKind),
    (y, k) ∈ (checkEntries db es st).cbs ↔
      (y, k) ∈ st.cbs ∨ (k = CbKind.blob ∧ (EKind.blob, y) ∈ es ∧ y ∉ st.seen ∧ get db y = none) := by
  induction es with
  | nil => intro st y k; simp [checkEntries]
  | cons e es ih =>
    intro st y k
    obtain ⟨kk, z⟩ := e
    cases kk with
    | tree => simp [checkEntries, ih]
    | blob =>
      simp only [checkEntries]
      split
      · rename_i hz
        simp only [ih, List.mem_cons, Prod.mk.injEq, true_and]
        constructor
        · rintro (h | ⟨h1, h2, h3, h4⟩)
          · exact Or.inl h
          · exact Or.inr ⟨h1, Or.inr h2, h3, h4⟩
        · rintro (h | ⟨h1, h2 | h2, h3, h4⟩)
          · exact Or.inl h
          · subst h2; exact absurd hz h3
          · exact Or.inr ⟨h1, h2, h3, h4⟩
      · rename_i hz
        simp only [ih, List.mem_cons, Prod.mk.injEq, true_and, not_or]
        by_cases hg : (get db z).isNone = true
        · simp only [hg, if_true, List.mem_cons, Prod.mk.injEq]
          have hgn : get db z = none := Option.isNone_iff_eq_none.mp hg
          constructor
          · rintro ((⟨h1, h2⟩ | h) | ⟨h1, h2, ⟨h3, h3'⟩, h4⟩)
            · subst h1; subst h2; exact Or.inr ⟨rfl, Or.inl rfl, hz, hgn⟩
            · exact Or.inl h
            · exact Or.inr ⟨h1, Or.inr h2, h3', h4⟩
          · rintro (h | ⟨h1, h2 | h2, h3, h4⟩)
            · exact Or.inl (Or.inr h)
            · subst h2; subst h1; exact Or.inl (Or.inl ⟨rfl, rfl⟩)
            · by_cases hyz : y = z
              · subst hyz; subst h1; exact Or.inl (Or.inl ⟨rfl, rfl⟩)
              · exact Or.inr ⟨h1, h2, ⟨hyz, h3⟩, h4⟩
        · simp only [hg, Bool.false_eq_true, if_false]
          have hgs : get db z ≠ none := fun h => hg (by simp [h])
          constructor
          · rintro (h | ⟨h1, h2, ⟨h3, h3'⟩, h4⟩)
            · exact Or.inl h
            · exact Or.inr ⟨h1, Or.inr h2, h3', h4⟩
          · rintro (h | ⟨h1, h2 | h2, h3, h4⟩)
            · exact Or.inl h
            · subst h2; exact absurd h4 hgs
            · by_cases hyz : y = z
              · subst hyz; exact absurd h4 hgs
              · exact Or.inr ⟨h1, h2, ⟨hyz, h3⟩, h4⟩
    | commit => simp [checkEntries, ih]

theorem checkEntries_nodup (db : Store Id) (es : List (EKind × Id)) : ∀ (st : St Id),
    (st.cbs.map Prod.fst).Nodup → (∀ p ∈ st.cbs, p.1 ∈ st.seen) →
    ((checkEntries db es st).cbs.map Prod.fst).Nodup := by
  induction es with
  | nil => intro st h _; simpa [checkEntries] using h
  | cons e es ih =>
    intro st hn hs
    obtain ⟨kk, z⟩ := e
    cases kk with
    | tree => exact ih _ hn hs
    | blob =>
      simp only [checkEntries]
      split
      · exact ih _ hn hs
      · rename_i hz
        apply ih
        · by_cases hg : (get db z).isNone = true
          · simp only [hg, if_true, List.map_cons, List.nodup_cons]
            refine ⟨?_, hn⟩
            intro hmem
            obtain ⟨p, hp, hpz⟩ := List.mem_map.mp hmem
            exact hz (hpz ▸ hs p hp)
          · simpa [hg] using hn
        · intro p hp
          by_cases hg : (get db z).isNone = true
          · simp only [hg, if_true, List.mem_cons] at hp
            cases hp with
            | inl h => subst h; simp
            | inr h => exact List.mem_cons_of_mem _ (hs p h)
          · simp only [hg, Bool.false_eq_true, if_false] at hp
            exact List.mem_cons_of_mem _ (hs p hp)
    | commit => exact ih _ hn hs

/-! ### the invariant of the walk -/

/-- `R` = the root trees of the commits handed to `check_commit` so far -/
structure Inv (db : Store Id) (kindOf : Id → EKind) (R : Id → Prop) (st : St Id) : Prop where
  roots_kind : ∀ r, R r → kindOf r = EKind.tree
  seen_sound : ∀ x ∈ st.seen, kindOf x ≠ EKind.commit → ∃ r, R r ∧ Reach db r x (kindOf x)
  commits_seen : ∀ x ∈ st.seen, ∀ t, get db x = some (Obj.commit t) → R t
  queue_sound : ∀ x ∈ st.queue, ∃ r, R r ∧ Reach db r x EKind.tree
  roots : ∀ r, R r → r ∈ st.seen ∨ r ∈ st.queue
  closed : ∀ x ∈ st.seen, ∀ es, get db x = some (Obj.tree es) →
    ∀ k y, (k, y) ∈ es → k ≠ EKind.commit → y ∈ st.seen ∨ y ∈ st.queue
  cbs_iff : ∀ x k, (x, k) ∈ st.cbs ↔
    (x ∈ st.seen ∧ kindOf x ≠ EKind.commit ∧ get db x = none ∧ k = cbKind (kindOf x))
  nodup : (st.cbs.map Prod.fst).Nodup

theorem inv_init (db : Store Id) (kindOf : Id → EKind) : Inv db kindOf (fun _ => False) (St.init : St Id) :=
  ⟨fun _ h => h.elim, by simp [St.init], by simp [St.init], by simp [St.init], fun _ h => h.elim,
   by simp [St.init], by simp [St.init], by simp [St.init]⟩

theorem Inv.congr {db : Store Id} {kindOf : Id → EKind} {R R' : Id → Prop} {st : St Id}
    (h : Inv db kindOf R st) (hR : ∀ r, R' r ↔ R r) : Inv db kindOf R' st :=
  ⟨fun r hr => h.roots_kind r ((hR r).mp hr),
   fun x hx hk => let ⟨r, h1, h2⟩ := h.seen_sound x hx hk; ⟨r, (hR r).mpr h1, h2⟩,
   fun x hx t ht => (hR t).mpr (h.commits_seen x hx t ht),
   fun x hx => let ⟨r, h1, h2⟩ := h.queue_sound x hx; ⟨r, (hR r).mpr h1, h2⟩,
   fun r hr => h.roots r ((hR r).mp hr), h.closed, h.cbs_iff, h.nodup⟩

theorem Inv.cbs_seen {db : Store Id} {kindOf : Id → EKind} {R : Id → Prop} {st : St Id}
    (h : Inv db kindOf R st) : ∀ p ∈ st.cbs, p.1 ∈ st.seen := by
  intro p hp
  obtain ⟨x, k⟩ := p
  exact ((h.cbs_iff x k).mp hp).1

/-- one iteration with an id that was seen before -/
theorem inv_skip {db : Store Id} {kindOf : Id → EKind} {R : Id → Prop} {st : St Id} {x : Id} {q : List Id}
    (h : Inv db kindOf R st) (hq : st.queue = x :: q) (hx : x ∈ st.seen) :
    Inv db kindOf R { st with queue := q } := by
  refine ⟨h.roots_kind, h.seen_sound, h.commits_seen, ?_, ?_, ?_, h.cbs_iff, h.nodup⟩
  · intro y hy
    exact h.queue_sound y (by rw [hq]; exact List.mem_cons_of_mem _ hy)
  · intro r hr
    cases h.roots r hr with
    | inl h1 => exact Or.inl h1
    | inr h1 =>
      rw [hq] at h1
      cases List.mem_cons.mp h1 with
      | inl h2 => exact Or.inl (h2 ▸ hx)
      | inr h2 => exact Or.inr h2
  · intro z hz es hes k y hy hk
    cases h.closed z hz es hes k y hy hk with
    | inl h1 => exact Or.inl h1
    | inr h1 =>
      rw [hq] at h1
      cases List.mem_cons.mp h1 with
      | inl h2 => exact Or.inl (h2 ▸ hx)
      | inr h2 => exact Or.inr h2

/-- one iteration with a new id: `seen.insert` + `check_tree` -/
theorem inv_visit {db : Store Id} {kindOf : Id → EKind} (hwk : WellKinded db kindOf) {R : Id → Prop}
    {st : St Id} {x : Id} {q : List Id}
    (h : Inv db kindOf R st) (hq : st.queue = x :: q) (hx : x ∉ st.seen) :
    Inv db kindOf R (checkTree db x { st with seen := x :: st.seen, queue := q }) := by
  obtain ⟨r0, hr0, hreach0⟩ := h.queue_sound x (by rw [hq]; simp)
  have hkx : kindOf x = EKind.tree := hreach0.kind hwk (h.roots_kind r0 hr0)
  have hsub : ∀ y, y ∈ st.queue → y = x ∨ y ∈ q := by
    intro y hy; rw [hq] at hy; exact List.mem_cons.mp hy
  cases tree_kind_get hwk hkx with
  | inl hex =>
    obtain ⟨es, hes⟩ := hex
    simp only [checkTree, hes]
    have hS := checkEntries_seen db es { st with seen := x :: st.seen, queue := q }
    have hQ := checkEntries_queue db es { st with seen := x :: st.seen, queue := q }
    have hC := checkEntries_cbs db es { st with seen := x :: st.seen, queue := q }
    simp only [List.mem_cons] at hS hQ hC
    refine ⟨h.roots_kind, ?_, ?_, ?_, ?_, ?_, ?_, ?_⟩
    · -- seen_sound
      intro y hy hk
      rcases (hS y).mp hy with (h1 | h1) | h1
      · subst h1; exact ⟨r0, hr0, hkx ▸ hreach0⟩
      · exact h.seen_sound y h1 hk
      · have hky : kindOf y = EKind.blob := hwk.entry _ _ _ _ hes h1
        exact ⟨r0, hr0, hky ▸ Reach.child hreach0 hes h1 (by intro h; cases h)⟩
    · -- commits_seen
      intro y hy t ht
      rcases (hS y).mp hy with (h1 | h1) | h1
      · subst h1; rw [hes] at ht; cases ht
      · exact h.commits_seen y h1 t ht
      · have hky : kindOf y = EKind.blob := hwk.entry _ _ _ _ hes h1
        have := (hwk.obj_commit y t ht).1
        rw [hky] at this; cases this
    · -- queue_sound
      intro y hy
      rcases (hQ y).mp hy with h1 | h1
      · exact h.queue_sound y (by rw [hq]; exact List.mem_cons_of_mem _ h1)
      · exact ⟨r0, hr0, Reach.child hreach0 hes h1 (by intro h; cases h)⟩
    · -- roots
      intro r hr
      cases h.roots r hr with
      | inl h1 => exact Or.inl ((hS r).mpr (Or.inl (Or.inr h1)))
      | inr h1 =>
        cases hsub r h1 with
        | inl h2 => exact Or.inl ((hS r).mpr (Or.inl (Or.inl h2)))
        | inr h2 => exact Or.inr ((hQ r).mpr (Or.inl h2))
    · -- closed
      intro z hz es' hes' k y hy hk
      rcases (hS z).mp hz with (h1 | h1) | h1
      · subst h1
        rw [hes] at hes'
        cases hes'
        cases k with
        | tree => exact Or.inr ((hQ y).mpr (Or.inr hy))
        | blob => exact Or.inl ((hS y).mpr (Or.inr hy))
        | commit => exact absurd rfl hk
      · cases h.closed z h1 es' hes' k y hy hk with
        | inl h2 => exact Or.inl ((hS y).mpr (Or.inl (Or.inr h2)))
        | inr h2 =>
          cases hsub y h2 with
          | inl h3 => exact Or.inl ((hS y).mpr (Or.inl (Or.inl h3)))
          | inr h3 => exact Or.inr ((hQ y).mpr (Or.inl h3))
      · have hkz : kindOf z = EKind.blob := hwk.entry _ _ _ _ hes h1
        have := hwk.obj_tree z es' hes'
        rw [hkz] at this; cases this
    · -- cbs_iff
      intro y k
      rw [hC y k]
      constructor
      · rintro (h1 | ⟨h1, h2, h3, h4⟩)
        · obtain ⟨a, b, c, d⟩ := (h.cbs_iff y k).mp h1
          exact ⟨(hS y).mpr (Or.inl (Or.inr a)), b, c, d⟩
        · have hky : kindOf y = EKind.blob := hwk.entry _ _ _ _ hes h2
          refine ⟨(hS y).mpr (Or.inr h2), by simp [hky], h4, ?_⟩
          rw [hky, h1]; rfl
      · rintro ⟨a, b, c, d⟩
        rcases (hS y).mp a with (h1 | h1) | h1
        · subst h1; rw [hes] at c; cases c
        · exact Or.inl ((h.cbs_iff y k).mpr ⟨h1, b, c, d⟩)
        · by_cases hys : y = x ∨ y ∈ st.seen
          · cases hys with
            | inl h2 => subst h2; rw [hes] at c; cases c
            | inr h2 => exact Or.inl ((h.cbs_iff y k).mpr ⟨h2, b, c, d⟩)
          · have hky : kindOf y = EKind.blob := hwk.entry _ _ _ _ hes h1
            refine Or.inr ⟨?_, h1, hys, c⟩
            rw [d, hky]; rfl
    · -- nodup
      apply checkEntries_nodup
      · exact h.nodup
      · intro p hp
        exact List.mem_cons_of_mem _ (h.cbs_seen p hp)
  | inr hnone =>
    simp only [checkTree, hnone]
    refine ⟨h.roots_kind, ?_, ?_, ?_, ?_, ?_, ?_, ?_⟩
    · intro y hy hk
      cases List.mem_cons.mp hy with
      | inl h1 => subst h1; exact ⟨r0, hr0, hkx ▸ hreach0⟩
      | inr h1 => exact h.seen_sound y h1 hk
    · intro y hy t ht
      cases List.mem_cons.mp hy with
      | inl h1 => subst h1; rw [hnone] at ht; cases ht
      | inr h1 => exact h.commits_seen y h1 t ht
    · intro y hy
      exact h.queue_sound y (by rw [hq]; exact List.mem_cons_of_mem _ hy)
    · intro r hr
      cases h.roots r hr with
      | inl h1 => exact Or.inl (List.mem_cons_of_mem _ h1)
      | inr h1 =>
        cases hsub r h1 with
        | inl h2 => exact Or.inl (h2 ▸ List.mem_cons_self)
        | inr h2 => exact Or.inr h2
    · intro z hz es' hes' k y hy hk
      cases List.mem_cons.mp hz with
      | inl h1 => subst h1; rw [hnone] at hes'; cases hes'
      | inr h1 =>
        cases h.closed z h1 es' hes' k y hy hk with
        | inl h2 => exact Or.inl (List.mem_cons_of_mem _ h2)
        | inr h2 =>
          cases hsub y h2 with
          | inl h3 => exact Or.inl (h3 ▸ List.mem_cons_self)
          | inr h3 => exact Or.inr h3
    · intro y k
      simp only [List.mem_cons, Prod.mk.injEq]
      constructor
      · rintro (⟨h1, h2⟩ | h1)
        · subst h1; subst h2
          exact ⟨Or.inl rfl, by simp [hkx], hnone, by rw [hkx]; rfl⟩
        · obtain ⟨a, b, c, d⟩ := (h.cbs_iff y k).mp h1
          exact ⟨Or.inr a, b, c, d⟩
      · rintro ⟨a | a, b, c, d⟩
        · subst a; left; exact ⟨rfl, by rw [d, hkx]; rfl⟩
        · exact Or.inr ((h.cbs_iff y k).mpr ⟨a, b, c, d⟩)
    · simp only [List.map_cons, List.nodup_cons]
      refine ⟨?_, h.nodup⟩
      intro hmem
      obtain ⟨p, hp, hpx⟩ := List.mem_map.mp hmem
      exact hx (hpx ▸ h.cbs_seen p hp)

theorem loop_inv {db : Store Id} {kindOf : Id → EKind} (hwk : WellKinded db kindOf) {R : Id → Prop}
    (fuel : Nat) : ∀ (st : St Id), Inv db kindOf R st →
    Inv db kindOf R (loop db fuel st).1 ∧ ((loop db fuel st).2 = true → (loop db fuel st).1.queue = []) := by
  induction fuel with
  | zero =>
    intro st h
    simp only [loop]
    exact ⟨h, fun he => List.isEmpty_iff.mp he⟩
  | succ fuel ih =>
    intro st h
    cases hq : st.queue with
    | nil =>
      simp only [loop, hq]
      exact ⟨h, fun _ => trivial⟩
    | cons x q =>
      simp only [loop, hq]
      by_cases hx : x ∈ st.seen
      · simp only [hx, if_true]
        exact ih _ (inv_skip h hq hx)
      · simp only [hx, if_false]
        exact ih _ (inv_visit hwk h hq hx)

/-! ### the fuel is enough -/

/-- weight of the trees of `db` whose id is not in `seen` -/
def pot (seen : List Id) : Store Id → Nat
  | [] => 0
  | (k, Obj.tree es) :: rest => (if k ∈ seen then 0 else es.length + 2) + pot seen rest
  | _ :: rest => pot seen rest

theorem pot_le_weight (seen : List Id) (db : Store Id) : pot seen db ≤ weight db := by
  induction db with
  | nil => simp [pot, weight]
  | cons p rest ih =>
    obtain ⟨k, o⟩ := p
    cases o with
    | tree es => simp only [pot, weight]; split <;> omega
    | blob => simpa [pot, weight] using ih
    | commit t => simpa [pot, weight] using ih

theorem pot_mono {seen seen' : List Id} (hs : ∀ y, y ∈ seen → y ∈ seen') (db : Store Id) :
    pot seen' db ≤ pot seen db := by
  induction db with
  | nil => simp [pot]
  | cons p rest ih =>
    obtain ⟨k, o⟩ := p
    cases o with
    | tree es =>
      simp only [pot]
      by_cases hk : k ∈ seen
      · simp only [hk, hs k hk, if_true]; omega
      · by_cases hk' : k ∈ seen'
        · simp only [hk, hk', if_true, if_false]; omega
        · simp only [hk, hk', if_false]; omega
    | blob => simpa [pot] using ih
    | commit t => simpa [pot] using ih

theorem pot_insert {seen : List Id} {x : Id} {es : List (EKind × Id)} (hx : x ∉ seen) (db : Store Id)
    (hg : get db x = some (Obj.tree es)) : pot (x :: seen) db + es.length + 2 ≤ pot seen db := by
  induction db with
  | nil => simp [get] at hg
  | cons p rest ih =>
    obtain ⟨k, o⟩ := p
    by_cases hk : k = x
    · subst hk
      simp only [get, if_true, Option.some.injEq] at hg
      subst hg
      have := pot_mono (seen := seen) (seen' := k :: seen) (fun y hy => List.mem_cons_of_mem _ hy) rest
      simp only [pot, List.mem_cons, true_or, if_true, hx, if_false]
      omega
    · simp only [get, hk, if_false] at hg
      have := ih hg
      cases o with
      | tree es' =>
        simp only [pot, List.mem_cons]
        by_cases hks : k ∈ seen
        · simp only [hks, or_true, if_true]; omega
        · simp only [hks, hk, or_self, if_false]; omega
      | blob => simpa [pot] using this
      | commit t => simpa [pot] using this

theorem loop_finishes (db : Store Id) (fuel : Nat) : ∀ (st : St Id),
    st.queue.length + pot st.seen db < fuel → (loop db fuel st).2 = true := by
  induction fuel with
  | zero => intro st h; omega
  | succ fuel ih =>
    intro st h
    cases hq : st.queue with
    | nil => simp [loop, hq]
    | cons x q =>
      simp only [loop, hq]
      rw [hq] at h
      simp only [List.length_cons] at h
      by_cases hx : x ∈ st.seen
      · simp only [hx, if_true]
        exact ih _ (by simp only; omega)
      · simp only [hx, if_false]
        apply ih
        cases hg : get db x with
        | none =>
          simp only [checkTree, hg]
          have := pot_mono (seen := st.seen) (seen' := x :: st.seen) (fun y hy => List.mem_cons_of_mem _ hy) db
          omega
        | some o =>
          cases o with
          | tree es =>
            simp only [checkTree, hg]
            have h1 := checkEntries_queue_length db es { st with seen := x :: st.seen, queue := q }
            have h2 := pot_mono (seen := x :: st.seen)
              (seen' := (checkEntries db es { st with seen := x :: st.seen, queue := q }).seen)
              (fun y hy => (checkEntries_seen db es _ y).mpr (Or.inl hy)) db
            have h3 := pot_insert hx db hg
            simp only at h1
            omega
          | blob =>
            simp only [checkTree, hg]
            have := pot_mono (seen := st.seen) (seen' := x :: st.seen) (fun y hy => List.mem_cons_of_mem _ hy) db
            omega
          | commit t =>
            simp only [checkTree, hg]
            have := pot_mono (seen := st.seen) (seen' := x :: st.seen) (fun y hy => List.mem_cons_of_mem _ hy) db
            omega

/-! ### `check_commit` and sequences of commits -/

/-- the root trees of the commits in `done` -/
def Roots (db : Store Id) (done : List Id) : Id → Prop := fun t => ∃ c ∈ done, get db c = some (Obj.commit t)

theorem roots_cons_commit {db : Store Id} {done : List Id} {c t : Id} (hg : get db c = some (Obj.commit t)) (r : Id) :
    Roots db (c :: done) r ↔ (Roots db done r ∨ r = t) := by
  simp only [Roots, List.mem_cons]
  constructor
  · rintro ⟨c', hc' | hc', hg'⟩
    · subst hc'; rw [hg] at hg'; cases hg'; exact Or.inr rfl
    · exact Or.inl ⟨c', hc', hg'⟩
  · rintro (⟨c', hc', hg'⟩ | h)
    · exact ⟨c', Or.inr hc', hg'⟩
    · subst h; exact ⟨c, Or.inl rfl, hg⟩

theorem roots_cons_other {db : Store Id} {done : List Id} {c : Id} (hg : ∀ t, get db c ≠ some (Obj.commit t)) (r : Id) :
    Roots db (c :: done) r ↔ Roots db done r := by
  simp only [Roots, List.mem_cons]
  constructor
  · rintro ⟨c', hc' | hc', hg'⟩
    · subst hc'; exact absurd hg' (hg r)
    · exact ⟨c', hc', hg'⟩
  · rintro ⟨c', hc', hg'⟩; exact ⟨c', Or.inr hc', hg'⟩

theorem checkCommit_inv {db : Store Id} {kindOf : Id → EKind} (hwk : WellKinded db kindOf)
    {done : List Id} {st : St Id} (c : Id) (hc : kindOf c = EKind.commit)
    (h : Inv db kindOf (Roots db done) st) (hq : st.queue = []) :
    Inv db kindOf (Roots db (c :: done)) (checkCommit db c st).1
    ∧ (checkCommit db c st).1.queue = []
    ∧ (checkCommit db c st).2 ≠ Outcome.outOfFuel
    ∧ ((∃ t, get db c = some (Obj.commit t)) → (checkCommit db c st).2 = Outcome.ok)
    ∧ (c ∉ st.seen → (checkCommit db c st).2 = Outcome.ok → ∃ t, get db c = some (Obj.commit t)) := by
  unfold checkCommit
  by_cases hseen : c ∈ st.seen
  · rw [if_pos hseen]
    refine ⟨?_, hq, by simp, fun _ => rfl, fun hn => absurd hseen hn⟩
    apply h.congr
    intro r
    simp only [Roots, List.mem_cons]
    constructor
    · rintro ⟨c', hc' | hc', hg⟩
      · subst hc'; exact h.commits_seen _ hseen r hg
      · exact ⟨c', hc', hg⟩
    · rintro ⟨c', hc', hg⟩; exact ⟨c', Or.inr hc', hg⟩
  · rw [if_neg hseen]
    -- the state after `seen.insert(commit)`
    have hbase : ∀ (R' : Id → Prop) (qq : List Id), (∀ r, R' r → kindOf r = EKind.tree) →
        (∀ r, Roots db done r → R' r) → (∀ t, get db c = some (Obj.commit t) → R' t) →
        (∀ y ∈ qq, ∃ r, R' r ∧ Reach db r y EKind.tree) → (∀ r, R' r → r ∈ st.seen ∨ r ∈ qq) →
        Inv db kindOf R' { st with seen := c :: st.seen, queue := qq } := by
      intro R' qq hk hsubR hct hqs hroots
      refine ⟨hk, ?_, ?_, hqs, ?_, ?_, ?_, h.nodup⟩
      · intro y hy hky
        cases List.mem_cons.mp hy with
        | inl h1 => subst h1; exact absurd hc hky
        | inr h1 =>
          obtain ⟨r, hr, hre⟩ := h.seen_sound y h1 hky
          exact ⟨r, hsubR r hr, hre⟩
      · intro y hy t ht
        cases List.mem_cons.mp hy with
        | inl h1 => subst h1; exact hct t ht
        | inr h1 => exact hsubR t (h.commits_seen y h1 t ht)
      · intro r hr
        cases hroots r hr with
        | inl h1 => exact Or.inl (List.mem_cons_of_mem _ h1)
        | inr h1 => exact Or.inr h1
      · intro z hz es hes k y hy hk'
        cases List.mem_cons.mp hz with
        | inl h1 =>
          subst h1
          have := hwk.obj_tree z es hes
          rw [hc] at this; cases this
        | inr h1 =>
          cases h.closed z h1 es hes k y hy hk' with
          | inl h2 => exact Or.inl (List.mem_cons_of_mem _ h2)
          | inr h2 => rw [hq] at h2; cases h2
      · intro y k
        rw [h.cbs_iff y k]
        constructor
        · rintro ⟨a, b, c', d⟩; exact ⟨List.mem_cons_of_mem _ a, b, c', d⟩
        · rintro ⟨a, b, c', d⟩
          cases List.mem_cons.mp a with
          | inl h1 => subst h1; exact absurd hc b
          | inr h1 => exact ⟨h1, b, c', d⟩
    cases hg : get db c with
    | none =>
      simp only
      refine ⟨?_, hq, by simp, fun ⟨t, ht⟩ => (by cases ht), fun _ ho => (by cases ho)⟩
      have hno : ∀ t, get db c ≠ some (Obj.commit t) := by intro t; rw [hg]; intro h; cases h
      apply (hbase (Roots db done) st.queue h.roots_kind (fun _ hr => hr) (fun t ht => absurd ht (hno t))
        (by rw [hq]; simp) (fun r hr => h.roots r hr)).congr
      · intro r; exact roots_cons_other hno r
    | some o =>
      cases o with
      | commit t =>
        simp only
        have hkt : kindOf t = EKind.tree := (hwk.obj_commit c t hg).2
        have hinv1 : Inv db kindOf (Roots db (c :: done)) { st with seen := c :: st.seen, queue := [t] } := by
          apply hbase
          · intro r hr
            cases (roots_cons_commit hg r).mp hr with
            | inl h1 => exact h.roots_kind r h1
            | inr h1 => subst h1; exact hkt
          · intro r hr; exact (roots_cons_commit hg r).mpr (Or.inl hr)
          · intro t' ht'; rw [hg] at ht'; cases ht'; exact (roots_cons_commit hg t).mpr (Or.inr rfl)
          · intro y hy
            simp only [List.mem_singleton] at hy
            subst hy
            exact ⟨y, (roots_cons_commit hg y).mpr (Or.inr rfl), Reach.root⟩
          · intro r hr
            cases (roots_cons_commit hg r).mp hr with
            | inl h1 =>
              cases h.roots r h1 with
              | inl h2 => exact Or.inl h2
              | inr h2 => rw [hq] at h2; cases h2
            | inr h1 => subst h1; exact Or.inr (by simp)
        have hfin := loop_finishes db (fuelFor db) { st with seen := c :: st.seen, queue := [t] } (by
          have := pot_le_weight (c :: st.seen) db
          simp only [List.length_cons, List.length_nil, fuelFor]
          omega)
        obtain ⟨hl1, hl2⟩ := loop_inv hwk (fuelFor db) _ hinv1
        simp only [hfin, if_true]
        refine ⟨hl1, hl2 hfin, ?_, ?_, ?_⟩ <;> simp
      | tree es =>
        have := hwk.obj_tree c es hg
        rw [hc] at this; cases this
      | blob =>
        have := hwk.obj_blob c hg
        rw [hc] at this; cases this

/-- a `Connectivity` used for a list of commits: the invariant holds for the roots of all of them -/
theorem checkCommits_inv {db : Store Id} {kindOf : Id → EKind} (hwk : WellKinded db kindOf)
    (cs : List Id) : ∀ (done : List Id) (st : St Id), (∀ c ∈ cs, kindOf c = EKind.commit) →
    Inv db kindOf (Roots db done) st → st.queue = [] →
    Inv db kindOf (Roots db (cs.reverse ++ done)) (checkCommits db cs st).1
    ∧ (checkCommits db cs st).1.queue = []
    ∧ Outcome.outOfFuel ∉ (checkCommits db cs st).2 := by
  induction cs with
  | nil => intro done st _ h hq; simpa [checkCommits] using ⟨h, hq⟩
  | cons c cs ih =>
    intro done st hk h hq
    obtain ⟨h1, h2, h3, _, _⟩ := checkCommit_inv hwk c (hk c (by simp)) h hq
    obtain ⟨i1, i2, i3⟩ := ih (c :: done) _ (fun c' hc' => hk c' (List.mem_cons_of_mem _ hc')) h1 h2
    simp only [checkCommits, List.reverse_cons, List.append_assoc, List.singleton_append, List.mem_append,
      List.mem_singleton, not_or]
    exact ⟨i1, i2, i3, fun he => h3 he.symm⟩

/-- what the invariant says once the queue is empty -/
theorem inv_final {db : Store Id} {kindOf : Id → EKind} (hwk : WellKinded db kindOf) {R : Id → Prop}
    {st : St Id} (h : Inv db kindOf R st) (hq : st.queue = []) (x : Id) (k : CbKind) :
    (x, k) ∈ st.cbs ↔ ∃ r k', R r ∧ Reach db r x k' ∧ get db x = none ∧ k = cbKind k' := by
  have hclosure : ∀ r, R r → ∀ y k', Reach db r y k' → y ∈ st.seen := by
    intro r hr y k' hre
    induction hre with
    | root =>
      cases h.roots r hr with
      | inl h1 => exact h1
      | inr h1 => rw [hq] at h1; cases h1
    | child _ hes hm hk ih =>
      cases h.closed _ ih _ hes _ _ hm hk with
      | inl h1 => exact h1
      | inr h1 => rw [hq] at h1; cases h1
  rw [h.cbs_iff x k]
  constructor
  · rintro ⟨a, b, c, d⟩
    obtain ⟨r, hr, hre⟩ := h.seen_sound x a b
    exact ⟨r, kindOf x, hr, hre, c, d⟩
  · rintro ⟨r, k', hr, hre, c, d⟩
    have hkx : kindOf x = k' := hre.kind hwk (h.roots_kind r hr)
    exact ⟨hclosure r hr x k' hre, by rw [hkx]; exact hre.not_commit, c, by rw [hkx]; exact d⟩

end GixModel.C54
