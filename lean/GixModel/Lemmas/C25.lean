import GixModel.Model.C25Core
import GixModel.Lemmas.C24
/-
C25 — lemmas: what `Entry::write_to` + the padding loop of `write::entries` produce is git's
`ce_write_entry` encoding of the persisted part of the entry, for every path length.
-/
namespace GixModel.C25
open GixModel GixModel.C24 GixModel.Spec.C24

/-- what survives writing: the storage bits of the flags, and the two extended flags when
`EXTENDED` is set -/
def persisted (e : Entry) : Entry :=
  { e with flags := storageFlags e + (if isExtended e then e.flags / 536870912 % 4 * 536870912 else 0) }

/-- the part of well-formedness the writer cannot repair -/
structure EntryOk (e : Entry) : Prop where
  stat : WfStat e.stat
  mode_lt : e.mode < 4294967296
  mode_known : truncMode e.mode = e.mode
  id_len : e.id.length = hashLen
  path_nul : ∀ b ∈ e.path, b ≠ 0

theorem persisted_wf (e : Entry) (h : EntryOk e) : WfEntry (persisted e) where
  stat := h.stat
  mode_lt := h.mode_lt
  mode_known := h.mode_known
  id_len := h.id_len
  flags_low := by
    simp only [persisted, storageFlags]
    split <;> omega
  flags_ext := by
    simp only [persisted, storageFlags]
    split <;> omega
  flags_extended := by
    simp only [persisted, storageFlags, isExtended, beq_iff_eq]
    split
    · intro _; omega
    · intro hne; omega
  path_nul := h.path_nul

/-- an entry that only has storable flags (and `EXTENDED` whenever an extended flag is set) is
its own persisted image -/
theorem persisted_eq_self (e : Entry) (h : WfEntry e) : persisted e = e := by
  obtain ⟨_, _, _, _, hfl, ⟨hx1, hx2⟩, hext, _⟩ := h
  have : storageFlags e + (if isExtended e then e.flags / 536870912 % 4 * 536870912 else 0) = e.flags := by
    simp only [storageFlags, isExtended, beq_iff_eq]
    split
    · omega
    · rename_i hne
      have hz : e.flags / 65536 = 0 := by
        cases hq : e.flags / 65536 with
        | zero => rfl
        | succ k => exact absurd (hext (by omega)) hne
      omega
  simp only [persisted, this]

theorem writeEntry_eq (e : Entry) : writeEntry e = gitEncodeFixed (persisted e) ++ (e.path ++ [0]) := by
  unfold writeEntry gitEncodeFixed
  have hpath : (persisted e).path = e.path := rfl
  have hstat : (persisted e).stat = e.stat := rfl
  have hmode : (persisted e).mode = e.mode := rfl
  have hid : (persisted e).id = e.id := rfl
  have hlow : (persisted e).flags % 65536 = storageFlags e := by
    simp only [persisted, storageFlags]
    split <;> omega
  have hext : ((persisted e).flags / 16384 % 2 = 1) ↔ isExtended e = true := by
    simp only [persisted, storageFlags, isExtended, beq_iff_eq]
    split <;> omega
  have hhi : isExtended e = true → (persisted e).flags / 65536 = extendedFlags e := by
    intro hE
    simp only [persisted, storageFlags, extendedFlags, hE, if_true]
    omega
  rw [hpath, hstat, hmode, hid, hlow]
  by_cases hE : isExtended e = true
  · have h1 : (persisted e).flags / 16384 % 2 = 1 := hext.mpr hE
    simp only [hE, h1, if_true, hhi hE, List.append_assoc]
    rfl
  · have h1 : ¬ ((persisted e).flags / 16384 % 2 = 1) := fun h => hE (hext.mp h)
    simp only [hE, h1, if_false, List.append_assoc, List.nil_append]
    rfl

theorem gitEncodeFixed_length (e : Entry) (h : e.id.length = hashLen) :
    (gitEncodeFixed e).length = fixedSize e := by
  unfold gitEncodeFixed fixedSize
  simp only [List.length_append, be32, Spec.C24.be16, List.length_cons, List.length_nil, h, hashLen]
  split <;> simp

theorem fixedSize_persisted (e : Entry) : fixedSize (persisted e) = if isExtended e then 64 else 62 := by
  unfold fixedSize
  have hext : ((persisted e).flags / 16384 % 2 = 1) ↔ isExtended e = true := by
    simp only [persisted, storageFlags, isExtended, beq_iff_eq]
    split <;> omega
  by_cases hE : isExtended e = true
  · simp [hE, hext.mpr hE]
  · have : ¬ ((persisted e).flags / 16384 % 2 = 1) := fun h => hE (hext.mp h)
    simp [hE, this]

def kept (es : List Entry) : List Entry := es.filter fun e => !isRemoved e

/-- the padding loop relative to the header gives exactly git's per-entry padding `(len + 8) & ~7` -/
theorem writeEntriesGo_eq (h : Nat) : ∀ (es : List Entry) (count : Nat), h ≤ count → (count - h) % 8 = 0 →
    (∀ e ∈ kept es, e.id.length = hashLen) →
    writeEntriesGo h count es = ((kept es).map persisted).flatMap gitEncodeEntryV23 := by
  intro es
  induction es with
  | nil => intro count _ _ _; simp [writeEntriesGo, kept]
  | cons e es ih =>
    intro count hle hmod hid
    unfold writeEntriesGo
    by_cases hr : isRemoved e = true
    · have hk : kept (e :: es) = kept es := by simp [kept, hr]
      simp only [hr, if_true]
      rw [hk]
      exact ih count hle hmod (by rw [← hk]; exact hid)
    · have hk : kept (e :: es) = e :: kept es := by simp [kept, hr]
      have hide : e.id.length = hashLen := hid e (by rw [hk]; simp)
      have hides : ∀ x ∈ kept es, x.id.length = hashLen := fun x hx => hid x (by rw [hk]; simp [hx])
      simp only [hr, Bool.false_eq_true, if_false]
      rw [hk, List.map_cons, List.flatMap_cons]
      have hlen : (writeEntry e).length = fixedSize (persisted e) + e.path.length + 1 := by
        rw [writeEntry_eq]
        simp only [List.length_append, List.length_cons, List.length_nil,
          gitEncodeFixed_length (persisted e) (by exact hide)]
        omega
      have hfs : fixedSize (persisted e) = 62 ∨ fixedSize (persisted e) = 64 := by
        rw [fixedSize_persisted]; split <;> simp
      -- the padding after the NUL + 1 = git's alignment padding
      have hpad : (if (count + (writeEntry e).length - h) % 8 = 0 then 0 else 8 - (count + (writeEntry e).length - h) % 8) + 1
          = alignPadding (fixedSize (persisted e)) e.path.length := by
        rw [hlen]; unfold alignPadding
        split <;> omega
      have hcount : h ≤ count + (writeEntry e).length +
          (if (count + (writeEntry e).length - h) % 8 = 0 then 0 else 8 - (count + (writeEntry e).length - h) % 8) := by
        omega
      have hmod' : (count + (writeEntry e).length +
          (if (count + (writeEntry e).length - h) % 8 = 0 then 0 else 8 - (count + (writeEntry e).length - h) % 8) - h) % 8 = 0 := by
        split <;> omega
      rw [ih _ hcount hmod' hides]
      unfold gitEncodeEntryV23
      rw [writeEntry_eq]
      have hp : (persisted e).path = e.path := rfl
      rw [hp, ← hpad, List.replicate_succ']
      simp only [List.append_assoc, List.cons_append, List.nil_append]
      rw [← writeEntry_eq]
      have : ∀ (k : Nat) (tl : Bytes), (0 : UInt8) :: (List.replicate k 0 ++ tl) = List.replicate k 0 ++ (0 :: tl) := by
        intro k tl
        induction k with
        | zero => rfl
        | succ k ihk => simp only [List.replicate_succ, List.cons_append]; rw [ihk]
      rw [this]

mutual
theorem writeTreeEntry_eq : ∀ t : Tree, writeTreeEntry t = gitEncodeTree t
  | .mk name id num cs => by
    simp only [writeTreeEntry, gitEncodeTree, itoaNat, natDecimal, writeTreeEntries_eq cs]
    cases num <;> rfl
theorem writeTreeEntries_eq : ∀ ts : List Tree, writeTreeEntries ts = gitEncodeTrees ts
  | [] => by simp only [writeTreeEntries, gitEncodeTrees]
  | t :: ts => by
    simp only [writeTreeEntries, gitEncodeTrees, writeTreeEntry_eq t, writeTreeEntries_eq ts]
end

theorem requiredVersion_ne4 (es : List Entry) : (requiredVersion es == 4) = false := by
  unfold requiredVersion; split <;> decide

/-- the extensions gitoxide writes, with the payloads as git's writer produces them -/
def gitExtensionsOf (s : State) (o : Options) : List (Bytes × Bytes) :=
  (match s.tree with
   | some t => if o.treeCache then [(sigTREE, gitEncodeTree t)] else []
   | none => []) ++
  (if s.isSparse then [(sigSdir, [])] else [])

theorem extensionsOf_eq (s : State) (o : Options) : extensionsOf s o = gitExtensionsOf s o := by
  unfold extensionsOf gitExtensionsOf
  cases s.tree with
  | none => rfl
  | some t => simp only [writeTreeEntry_eq]

def wantsEoie (s : State) (o : Options) : Bool :=
  decide (s.entries.length > 0) && o.endOfIndexEntry && !(gitExtensionsOf s o).isEmpty

theorem writeState_eq_git (sha1 : Bytes → Bytes) (s : State) (o : Options)
    (hid : ∀ e ∈ kept s.entries, e.id.length = hashLen) :
    (writeState sha1 s o).2 =
      gitEncodeIndex sha1 (requiredVersion s.entries) [(kept s.entries).map persisted] false
        (gitExtensionsOf s o) (wantsEoie s o) [] := by
  unfold writeState gitEncodeIndex
  simp only [requiredVersion_ne4, extensionsOf_eq]
  have hh : (writeHeader (requiredVersion s.entries) (List.filter (fun e => !isRemoved e) s.entries).length).length = 12 := by
    simp [writeHeader, sigDIRC, be32]
  rw [hh, writeEntriesGo_eq 12 s.entries 12 (Nat.le_refl _) (by decide) hid]
  simp only [gitEncodeBlocks, Bool.false_eq_true, if_false, List.append_nil, List.map_cons, List.map_nil,
    List.sum_cons, List.sum_nil, Nat.add_zero, List.length_map, List.nil_append, header, writeHeader, kept,
    List.append_assoc]
  have hf : (fun (x : Bytes × Bytes) => writeExt x.fst x.snd) = (fun x => encodeExt x.fst x.snd) := by
    funext x; simp [writeExt, encodeExt]
  rw [hf]
  congr 3
  unfold wantsEoie
  by_cases h1 : s.entries.length > 0 <;> by_cases h2 : o.endOfIndexEntry = true <;>
    by_cases h3 : (gitExtensionsOf s o).isEmpty = true <;>
    simp [h1, h2, h3, writeExt, encodeExt, eoiePayload]
theorem write_file_eq_git_aux (sha1 : Bytes → Bytes) (s : State) (o : Options)
    (hid : ∀ e ∈ kept s.entries, e.id.length = hashLen) :
    (writeFile sha1 s o).2 =
      gitEncodeIndex sha1 (requiredVersion s.entries) [(kept s.entries).map persisted] false
        (gitExtensionsOf s o) (wantsEoie s o)
        (if o.skipHash then List.replicate hashLen 0 else sha1 (writeState sha1 s o).2) := by
  have h := writeState_eq_git sha1 s o hid
  unfold writeFile
  simp only []
  rw [h]
  unfold gitEncodeIndex
  simp only [List.append_nil, List.append_assoc]

end GixModel.C25
